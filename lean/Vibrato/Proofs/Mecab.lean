/-
Helper lemmas for property C20 (`Vibrato/Props/C20.lean`) about `Model/Mecab.lean`:
§A the `HashMap<usize, _>` association lists, §B the id-file loops, §C the `model.def` loop as a
translation of raw entries, §D the emission loops, §E the feature-pair sum.
Core Lean only.
-/
import Vibrato.Model.Mecab
import Vibrato.Proofs.Extractor

namespace Vibrato.Mecab

open Vibrato (Outcome)
open Vibrato.Extractor

/-! ## A. Association lists -/

def keys {β : Type} (m : List (Nat × β)) : List Nat := m.map Prod.fst

theorem getKV_insertKV {β : Type} (m : List (Nat × β)) (k : Nat) (v : β) (k' : Nat) :
    getKV (insertKV m k v) k' = if k' = k then some v else getKV m k' := by
  induction m with
  | nil =>
    simp only [insertKV, getKV]
    by_cases h : k' = k
    · simp [h]
    · have : ¬ k = k' := fun e => h e.symm
      simp [h, this]
  | cons e m ih =>
    obtain ⟨k0, v0⟩ := e
    simp only [insertKV]
    by_cases h0 : k0 = k
    · subst h0
      simp only [if_true, getKV]
      by_cases h : k' = k0
      · subst h; simp
      · have : ¬ k0 = k' := fun e => h e.symm
        simp [h, this]
    · simp only [h0, if_false, getKV, ih]
      by_cases h : k0 = k'
      · subst h
        have : ¬ k0 = k := h0
        simp [this]
      · simp [h]

theorem getKV_isSome_iff {β : Type} (m : List (Nat × β)) (k : Nat) :
    (getKV m k).isSome ↔ k ∈ keys m := by
  induction m with
  | nil => simp [getKV, keys]
  | cons e m ih =>
    obtain ⟨k0, v0⟩ := e
    simp only [getKV, keys, List.map_cons, List.mem_cons]
    by_cases h : k0 = k
    · subst h; simp
    · have : ¬ k = k0 := fun e => h e.symm
      simp only [h, if_false, this, false_or]
      exact ih

theorem keys_insertKV_nodup {β : Type} (m : List (Nat × β)) (k : Nat) (v : β)
    (h : (keys m).Nodup) : (keys (insertKV m k v)).Nodup := by
  induction m with
  | nil => simp [insertKV, keys]
  | cons e m ih =>
    obtain ⟨k0, v0⟩ := e
    simp only [keys, List.map_cons, List.nodup_cons] at h
    simp only [insertKV]
    by_cases h0 : k0 = k
    · subst h0
      simp only [if_true, keys, List.map_cons, List.nodup_cons]
      exact h
    · simp only [h0, if_false, keys, List.map_cons, List.nodup_cons]
      refine ⟨?_, ih h.2⟩
      intro hmem
      have := (getKV_isSome_iff (insertKV m k v) k0).mpr hmem
      rw [getKV_insertKV] at this
      simp only [h0, if_false] at this
      exact h.1 ((getKV_isSome_iff m k0).mp this)

/-- Pigeonhole: a duplicate-free list of naturals of length `≤ n` that contains `0 … n-1`
contains nothing else. -/
theorem nodup_range_bound : ∀ (n : Nat) (l : List Nat), l.Nodup → (∀ i, i < n → i ∈ l) →
    l.length ≤ n → ∀ x ∈ l, x < n := by
  intro n
  induction n with
  | zero =>
    intro l _ _ hlen x hx
    have : l = [] := List.eq_nil_of_length_eq_zero (by omega)
    subst this; cases hx
  | succ n ih =>
    intro l hnd hall hlen x hx
    have hn : n ∈ l := hall n (by omega)
    have hnd' : (l.erase n).Nodup := hnd.sublist List.erase_sublist
    have hlen' : (l.erase n).length ≤ n := by
      rw [List.length_erase_of_mem hn]; omega
    have hall' : ∀ i, i < n → i ∈ l.erase n := by
      intro i hi
      exact (List.mem_erase_of_ne (by omega)).mpr (hall i (by omega))
    by_cases hxn : x = n
    · omega
    · have := ih (l.erase n) hnd' hall' hlen' x ((List.mem_erase_of_ne hxn).mpr hx)
      omega

/-! ## B. The id files -/

/-- A line of `right-id.def` / `left-id.def` the loop accepts: its id and csv cells. -/
def idEntry (line : Option Str) : Option (Nat × List Str) :=
  match line with
  | none => none
  | some line =>
    match idLine line with
    | none => none
    | some (ds, featureStr) =>
      if digitsVal ds > usizeMax then none
      else match csvRow featureStr with
        | .ok cells =>
          if digitsVal ds = 0 ∧ cells.head? ≠ some bosEos then none
          else some (digitsVal ds, cells)
        | _ => none

/-- The cells of the LAST line that defines `id` (`HashMap::insert` overwrites). -/
def lastCells : List (Option Str) → Nat → Option (List Str)
  | [], _ => none
  | l :: rest, id =>
    match lastCells rest id with
    | some c => some c
    | none =>
      match idEntry l with
      | some (i, cells) => if i = id then some cells else none
      | none => none

def sideMap (left : Bool) (st : ExtractorState) : IdMap := if left then st.left else st.right
def sideT (left : Bool) (st : ExtractorState) : List ParsedTemplate :=
  if left then st.leftT else st.rightT

theorem extractSide_spec (left : Bool) (st st' : ExtractorState) (feats : List Str)
    (ids : List (Option Nat)) (h : StateOK st)
    (he : (if left then extractLeft st feats else extractRight st feats) = .ok (ids, st')) :
    StateOK st' ∧ After st st' ∧ sideMap (!left) st' = sideMap (!left) st ∧
      ids = (sideT left st).map (idOf (sideMap left st') feats 0) ∧
      Defined (sideMap left st') (sideT left st) feats 0 := by
  cases left with
  | true =>
    simp only [if_true] at he
    obtain ⟨h1, h2, _, h4, h5, h6⟩ := extractLeft_spec st st' feats ids h he
    exact ⟨h1, h2, by simpa [sideMap] using h4, by simpa [sideMap, sideT] using h5,
      by simpa [sideMap, sideT] using h6⟩
  | false =>
    simp only [Bool.false_eq_true, if_false] at he
    obtain ⟨h1, h2, _, h4, h5, h6⟩ := extractRight_spec st st' feats ids h he
    exact ⟨h1, h2, by simpa [sideMap] using h4, by simpa [sideMap, sideT] using h5,
      by simpa [sideMap, sideT] using h6⟩

theorem after_sideT {a b : ExtractorState} (h : After a b) (left : Bool) :
    sideT left b = sideT left a := by
  cases left <;> simp [Mecab.sideT, h.leftT, h.rightT]

theorem after_sideMap {a b : ExtractorState} (h : After a b) (left : Bool) :
    Extends (sideMap left a) (sideMap left b) := by
  cases left
  · simpa [Mecab.sideMap] using h.right
  · simpa [Mecab.sideMap] using h.left

/-- The row the loop stores for `cells`, judged by map `m`. -/
def rowOf (m : IdMap) (pts : List ParsedTemplate) (cells : List Str) : List (Option Nat) :=
  pts.map (idOf m cells 0)

theorem idLoop_spec (left : Bool) (lines : List (Option Str)) :
    ∀ (st : ExtractorState) (rows : Rows) (st' : ExtractorState) (rows' : Rows),
      StateOK st → idLoop left lines st rows = .ok (st', rows') →
      StateOK st' ∧ After st st' ∧ sideMap (!left) st' = sideMap (!left) st ∧
      (∀ id, getKV rows' id = match lastCells lines id with
        | some cells => some (rowOf (sideMap left st') (sideT left st) cells)
        | none => getKV rows id) ∧
      (∀ id cells, lastCells lines id = some cells →
        Defined (sideMap left st') (sideT left st) cells 0) ∧
      (∀ l ∈ lines, (idEntry l).isSome) ∧
      ((keys rows).Nodup → (keys rows').Nodup) := by
  induction lines with
  | nil =>
    intro st rows st' rows' h he
    simp only [idLoop, Outcome.ok.injEq, Prod.mk.injEq] at he
    obtain ⟨rfl, rfl⟩ := he
    exact ⟨h, After.refl _, rfl, fun id => by simp [lastCells], fun id cells hc => by
      simp [lastCells] at hc, by simp, id⟩
  | cons l rest ih =>
    intro st rows st' rows' h he
    cases l with
    | none => simp [idLoop] at he
    | some line =>
      simp only [idLoop] at he
      cases hil : idLine line with
      | none => simp [hil] at he
      | some p =>
        obtain ⟨ds, fs⟩ := p
        simp only [hil] at he
        by_cases hov : digitsVal ds > usizeMax
        · simp [hov] at he
        · simp only [hov, if_false] at he
          cases hcsv : csvRow fs with
          | err => simp [hcsv] at he
          | panic => simp [hcsv] at he
          | ok cells =>
            simp only [hcsv] at he
            by_cases hz : digitsVal ds = 0 ∧ cells.head? ≠ some bosEos
            · rw [if_pos hz] at he; cases he
            · rw [if_neg hz] at he
              cases hex : (if left then extractLeft st cells else extractRight st cells) with
              | err => simp [hex] at he
              | panic => simp [hex] at he
              | ok r =>
                obtain ⟨ids, st1⟩ := r
                simp only [hex] at he
                obtain ⟨g1, g2, g3, g4, g5⟩ := extractSide_spec left st st1 cells ids h hex
                obtain ⟨k1, k2, k3, k4, k5, k6, k7⟩ := ih st1 _ st' rows' g1 he
                have hentry : idEntry (some line) = some (digitsVal ds, cells) := by
                  simp only [idEntry, hil, hov, if_false, hcsv]
                  rw [if_neg hz]
                have hT : sideT left st1 = sideT left st := after_sideT g2 left
                refine ⟨k1, g2.trans k2, k3.trans g3, ?_, ?_, ?_, ?_⟩
                · intro id
                  rw [k4 id]
                  simp only [lastCells, hentry]
                  cases hlc : lastCells rest id with
                  | some c => simp only [hT]
                  | none =>
                    simp only [getKV_insertKV]
                    by_cases hid : digitsVal ds = id
                    · subst hid
                      simp only [if_true, Option.some.injEq, rowOf, g4]
                      exact (map_idOf_extends (after_sideMap k2 left) cells 0 _ g5).symm
                    · have : ¬ id = digitsVal ds := fun e => hid e.symm
                      simp [hid, this]
                · intro id c hc
                  simp only [lastCells, hentry] at hc
                  cases hlc : lastCells rest id with
                  | some c' =>
                    simp only [hlc, Option.some.injEq] at hc
                    subst hc
                    exact hT ▸ k5 id c' hlc
                  | none =>
                    simp only [hlc] at hc
                    split at hc
                    · cases hc
                      exact g5.mono (after_sideMap k2 left)
                    · cases hc
                · intro l' hl'
                  rcases List.mem_cons.mp hl' with rfl | hmem
                  · simp [hentry]
                  · exact k6 l' hmem
                · intro hnd
                  exact k7 (keys_insertKV_nodup rows _ _ hnd)

/-- A line the loops reject. -/
theorem idLoop_bad_line (left : Bool) (lines : List (Option Str)) (l : Option Str)
    (hl : l ∈ lines) (hbad : idEntry l = none)
    (st : ExtractorState) (rows : Rows) (h : StateOK st) :
    ∀ r, idLoop left lines st rows ≠ .ok r := by
  intro r hr
  obtain ⟨st', rows'⟩ := r
  have := (idLoop_spec left lines st rows st' rows' h hr).2.2.2.2.2.1 l hl
  rw [hbad] at this
  cases this

/-! ## C. The `model.def` loop = translation of raw entries -/

/-- One `model.def` line before the id lookups: `none` = `Err`, `some none` = skipped,
`some (some (l, r, cost))` = a usable line with the two feature texts (first two `/`-pieces after
`replace("BOS/EOS", "")`) and the non-zero cost `-(weight * cost_factor) as i32`. -/
def rawStep (costFactor : Float) (line : Str) : Option (Option CostLine) :=
  match modelLine line with
  | none => some none
  | some (w, text) =>
    match parseF64 w with
    | none => none
    | some weight =>
      let cost := costOf weight costFactor
      if cost = 0 then some none
      else
        match Text.splitOn '/' (replaceBosEos text) with
        | l :: r :: _ => some (some (l, r, cost))
        | _ => some none

/-- The text written for a feature string: empty stays empty (BOS/EOS), an interned string becomes
its decimal id, an unknown string makes the line disappear. -/
def idText (m : IdMap) (s : Str) : Option Str :=
  if s.isEmpty then some [] else (lookup m s).map natToStr

def translate (st : ExtractorState) (e : CostLine) : Option CostLine :=
  match idText st.left e.1, idText st.right e.2.1 with
  | some a, some b => some (a, b, e.2.2)
  | _, _ => none

theorem modelStep_eq (st : ExtractorState) (cf : Float) (line : Str) :
    modelStep st cf line = (rawStep cf line).map (fun o => o.bind (translate st)) := by
  unfold modelStep rawStep
  cases hm : modelLine line with
  | none => rfl
  | some p =>
    obtain ⟨w, text⟩ := p
    simp only
    cases hp : parseF64 w with
    | none => rfl
    | some weight =>
      simp only
      by_cases hc : costOf weight cf = 0
      · simp [hc]
      · simp only [hc, if_false]
        cases hs : Text.splitOn '/' (replaceBosEos text) with
        | nil => rfl
        | cons l tl =>
          cases tl with
          | nil => rfl
          | cons r tl' =>
            simp only [Option.map_some, Option.bind_some, translate, idText]
            cases hl : (if l.isEmpty then some [] else (lookup st.left l).map natToStr) <;>
              cases hr : (if r.isEmpty then some [] else (lookup st.right r).map natToStr) <;> rfl

/-- All raw entries of a `model.def` in line order. -/
def rawEntries (cf : Float) : List (Option Str) → Option (List CostLine)
  | [] => some []
  | none :: _ => none
  | some line :: rest =>
    match rawStep cf line with
    | none => none
    | some none => rawEntries cf rest
    | some (some e) => (rawEntries cf rest).map (e :: ·)

theorem modelLoop_eq (st : ExtractorState) (cf : Float) (lines : List (Option Str)) :
    modelLoop st cf lines = (rawEntries cf lines).map (·.filterMap (translate st)) := by
  induction lines with
  | nil => rfl
  | cons l rest ih =>
    cases l with
    | none => rfl
    | some line =>
      simp only [modelLoop, rawEntries, modelStep_eq]
      cases hr : rawStep cf line with
      | none => rfl
      | some o =>
        cases o with
        | none => simpa using ih
        | some e =>
          simp only [Option.map_some, Option.bind_some]
          cases ht : translate st e with
          | none =>
            simp only [ih]
            cases rawEntries cf rest <;> simp [ht]
          | some e' =>
            simp only [ih]
            cases rawEntries cf rest <;> simp [ht]

/-! ## D. Emission -/

theorem emitFrom_spec {m : Rows} : ∀ (count id : Nat) (rows : List (List (Option Nat))),
    emitFrom m id count = some rows →
    rows.length = count ∧ ∀ i, i < count → getKV m (id + i) = rows[i]? := by
  intro count
  induction count with
  | zero =>
    intro id rows h
    simp only [emitFrom, Option.some.injEq] at h
    subst h
    exact ⟨rfl, fun i hi => absurd hi (by omega)⟩
  | succ c ih =>
    intro id rows h
    simp only [emitFrom] at h
    cases hg : getKV m id with
    | none => simp [hg] at h
    | some row =>
      simp only [hg] at h
      cases he : emitFrom m (id + 1) c with
      | none => simp [he] at h
      | some rs =>
        simp only [he, Option.map_some, Option.some.injEq] at h
        subst h
        obtain ⟨h1, h2⟩ := ih (id + 1) rs he
        refine ⟨by simp [h1], ?_⟩
        intro i hi
        cases i with
        | zero => simpa using hg
        | succ j =>
          have := h2 j (by omega)
          simp only [List.getElem?_cons_succ]
          rw [← this]; congr 1; omega

theorem emitFrom_none {m : Rows} : ∀ (count id : Nat),
    emitFrom m id count = none → ∃ i, i < count ∧ getKV m (id + i) = none := by
  intro count
  induction count with
  | zero => intro id h; simp [emitFrom] at h
  | succ c ih =>
    intro id h
    simp only [emitFrom] at h
    cases hg : getKV m id with
    | none => exact ⟨0, by omega, by simpa using hg⟩
    | some row =>
      simp only [hg] at h
      cases he : emitFrom m (id + 1) c with
      | none =>
        obtain ⟨i, hi, hn⟩ := ih (id + 1) he
        exact ⟨i + 1, by omega, by rw [← hn]; congr 1; omega⟩
      | some rs => simp [he] at h

/-- With id 0 present, a successful emission means the keys are exactly `0 … len-1`. -/
theorem emitRows_complete (m : Rows) (rows : List (List (Option Nat))) (hnd : (keys m).Nodup)
    (h0 : (getKV m 0).isSome) (he : emitRows m = some rows) :
    ∀ id, (getKV m id).isSome → id ≤ rows.length := by
  obtain ⟨hlen, hget⟩ := emitFrom_spec (m.length - 1) 1 rows he
  have hpos : 0 < m.length := by
    have := (getKV_isSome_iff m 0).mp h0
    cases m with
    | nil => simp [keys] at this
    | cons _ _ => simp
  have hall : ∀ i, i < m.length → i ∈ keys m := by
    intro i hi
    cases i with
    | zero => exact (getKV_isSome_iff m 0).mp h0
    | succ j =>
      apply (getKV_isSome_iff m (j + 1)).mp
      have := hget j (by omega)
      rw [Nat.add_comm] at this
      rw [this]
      have : j < rows.length := by omega
      simp [this]
  intro id hid
  have := nodup_range_bound m.length (keys m) hnd hall (by simp [keys]) id
    ((getKV_isSome_iff m id).mp hid)
  omega

/-! ## E. The feature-pair sum -/

/-- The cost listed for a feature pair (the last line wins); `none` if unlisted.  (Same
definition as in the raw-connector development, property C07.) -/
def tableOpt : List CostLine → Str → Str → Option Int
  | [], _, _ => none
  | e :: rest, a, b =>
    match tableOpt rest a b with
    | some c => some c
    | none => if e.1 = a ∧ e.2.1 = b then some e.2.2 else none

/-- Unlisted pairs count as 0. -/
def table (es : List CostLine) (a b : Str) : Int := (tableOpt es a b).getD 0

theorem natToStr_inj {i j : Nat} (h : natToStr i = natToStr j) : i = j := by
  have hi := @Nat.ofDigitChars_ten_toDigits i
  have hj := @Nat.ofDigitChars_ten_toDigits j
  simp only [natToStr] at h
  rw [h] at hi
  omega

theorem natToStr_ne_nil (i : Nat) : natToStr i ≠ [] := Nat.toDigits_ne_nil

theorem natToStr_ne_star (i : Nat) : natToStr i ≠ ['*'] := by
  intro h
  have : '*' ∈ Nat.toDigits 10 i := by simp only [natToStr] at h; rw [h]; simp
  have := Nat.isDigit_of_mem_toDigits (b := 10) (by omega) (by omega) this
  revert this; decide

theorem idText_eq_iff {m : IdMap} {n : Nat} (hm : MapOK m n) {a : Str} {i : Nat}
    (ha : lookup m a = some i) (hne : a ≠ []) (s : Str) :
    idText m s = some (natToStr i) ↔ s = a := by
  constructor
  · intro h
    simp only [idText] at h
    split at h
    · simp only [Option.some.injEq] at h
      exact absurd h.symm (natToStr_ne_nil i)
    · cases hl : lookup m s with
      | none => simp [hl] at h
      | some i' =>
        simp only [hl, Option.map_some, Option.some.injEq] at h
        have := natToStr_inj h
        subst this
        exact (hm.lookup_inj hl ha).mp rfl
  · intro h
    subst h
    have : s.isEmpty = false := by cases s <;> simp_all
    simp [idText, this, ha]

/-- No translated line has a `*` (or any non-id text) as a key. -/
theorem idText_ne_star {m : IdMap} {s x : Str} (h : idText m s = some x) : x ≠ ['*'] := by
  simp only [idText] at h
  split at h
  · cases h; simp
  · cases hl : lookup m s with
    | none => simp [hl] at h
    | some i =>
      simp only [hl, Option.map_some, Option.some.injEq] at h
      subst h; exact natToStr_ne_star i

theorem tableOpt_none_of_left {es : List CostLine} {a b : Str} (h : ∀ e ∈ es, e.1 ≠ a) :
    tableOpt es a b = none := by
  induction es with
  | nil => rfl
  | cons e rest ih =>
    simp only [tableOpt, ih (fun e' he' => h e' (List.mem_cons_of_mem _ he'))]
    have := h e (by simp)
    simp [this]

theorem tableOpt_none_of_right {es : List CostLine} {a b : Str} (h : ∀ e ∈ es, e.2.1 ≠ b) :
    tableOpt es a b = none := by
  induction es with
  | nil => rfl
  | cons e rest ih =>
    simp only [tableOpt, ih (fun e' he' => h e' (List.mem_cons_of_mem _ he'))]
    have := h e (by simp)
    simp [this]

theorem translate_keys {st : ExtractorState} {e e' : CostLine} (h : translate st e = some e') :
    idText st.left e.1 = some e'.1 ∧ idText st.right e.2.1 = some e'.2.1 ∧ e'.2.2 = e.2.2 := by
  simp only [translate] at h
  cases hl : idText st.left e.1 <;> cases hr : idText st.right e.2.1 <;> simp [hl, hr] at h
  subst h; simp

theorem table_star_left (st : ExtractorState) (entries : List CostLine) (b : Str) :
    tableOpt (entries.filterMap (translate st)) ['*'] b = none := by
  apply tableOpt_none_of_left
  intro e' he'
  obtain ⟨e, _, ht⟩ := List.mem_filterMap.mp he'
  exact idText_ne_star (translate_keys ht).1

theorem table_star_right (st : ExtractorState) (entries : List CostLine) (a : Str) :
    tableOpt (entries.filterMap (translate st)) a ['*'] = none := by
  apply tableOpt_none_of_right
  intro e' he'
  obtain ⟨e, _, ht⟩ := List.mem_filterMap.mp he'
  exact idText_ne_star (translate_keys ht).2.1

/-- Looking up the pair of id texts among the written lines = looking up the pair of feature
strings among the raw entries (uses injectivity of both interning maps). -/
theorem tableOpt_translate (st : ExtractorState) {nl nr : Nat} (hL : MapOK st.left nl)
    (hR : MapOK st.right nr) {a b : Str} {i j : Nat} (ha : lookup st.left a = some i)
    (hb : lookup st.right b = some j) (hane : a ≠ []) (hbne : b ≠ []) (entries : List CostLine) :
    tableOpt (entries.filterMap (translate st)) (natToStr i) (natToStr j) =
      tableOpt entries a b := by
  induction entries with
  | nil => rfl
  | cons e rest ih =>
    simp only [List.filterMap_cons]
    cases ht : translate st e with
    | none =>
      simp only [tableOpt, ih]
      have hne : ¬ (e.1 = a ∧ e.2.1 = b) := by
        intro ⟨h1, h2⟩
        have g1 := (idText_eq_iff hL ha hane e.1).mpr h1
        have g2 := (idText_eq_iff hR hb hbne e.2.1).mpr h2
        simp [translate, g1, g2] at ht
      simp only [hne, if_false]
      cases tableOpt rest a b <;> rfl
    | some e' =>
      obtain ⟨k1, k2, k3⟩ := translate_keys ht
      simp only [tableOpt, ih]
      have hiff : (e'.1 = natToStr i ∧ e'.2.1 = natToStr j) ↔ (e.1 = a ∧ e.2.1 = b) := by
        rw [← idText_eq_iff hL ha hane e.1, ← idText_eq_iff hR hb hbne e.2.1, k1, k2]
        simp
      by_cases hc : e.1 = a ∧ e.2.1 = b
      · simp [hc, hiff.mpr hc, k3]
      · have : ¬ (e'.1 = natToStr i ∧ e'.2.1 = natToStr j) := fun h => hc (hiff.mp h)
        simp [hc, this]

/-- The feature string of connection id `r` at template position `pos` as the raw connector reads
the generated file: id 0 (BOS/EOS) has the empty feature everywhere, a real id the `pos`-th cell
of its line.  (Same definitions as in the C07 development.) -/
def featAt (fss : List (List Str)) : Nat → Nat → Option Str
  | 0, _ => some []
  | i + 1, pos => (fss[i]?).bind (·[pos]?)

def maxLen : List (List Str) → Nat
  | [] => 0
  | f :: fs => max f.length (maxLen fs)

def templateCount (rfs lfs : List (List Str)) : Nat := max (maxLen rfs) (maxLen lfs)

def pairCost (es : List CostLine) : Option Str → Option Str → Int
  | some a, some b => table es a b
  | _, _ => 0

/-- The defining feature-pair sum of property C07:
`cost(r, l) = Σ_pos table(rightfile[r][pos], leftfile[l][pos])`. -/
def defSum (es : List CostLine) (rfs lfs : List (List Str)) (r l : Nat) : Int :=
  ((List.range (templateCount rfs lfs)).map fun pos =>
    pairCost es (featAt rfs r pos) (featAt lfs l pos)).sum

/-- The cells of the generated `bigram.right` / `bigram.left` rows as text. -/
def cellRows (rows : List (List (Option Nat))) : List (List Str) := rows.map (·.map cellText)

theorem maxLen_const (fss : List (List Str)) (T : Nat) (hne : fss ≠ [])
    (h : ∀ f ∈ fss, f.length = T) : maxLen fss = T := by
  induction fss with
  | nil => exact absurd rfl hne
  | cons f fs ih =>
    simp only [maxLen, h f (by simp)]
    cases fs with
    | nil => simp [maxLen]
    | cons g gs =>
      rw [ih (by simp) (fun x hx => h x (List.mem_cons_of_mem _ hx))]
      simp

/-! ## F. The whole function -/

theorem parseTemplates_get (k : Kind) : ∀ (ts : List Str) (ps : List ParsedTemplate),
    parseTemplates k ts = .ok ps →
    ps.length = ts.length ∧ ∀ (t : Nat) (raw : Str), ts[t]? = some raw → ∃ pt, ps[t]? = some pt ∧
      parseTemplate k raw = .ok pt := by
  intro ts
  induction ts with
  | nil =>
    intro ps h
    simp only [parseTemplates, Outcome.ok.injEq] at h
    subst h
    exact ⟨rfl, fun t raw ht => by simp at ht⟩
  | cons t0 ts ih =>
    intro ps h
    simp only [parseTemplates] at h
    cases hp : parseTemplate k t0 with
    | err => simp [hp] at h
    | panic => simp [hp] at h
    | ok p =>
      simp only [hp] at h
      cases hps : parseTemplates k ts with
      | err => simp [hps] at h
      | panic => simp [hps] at h
      | ok ps' =>
        simp only [hps, Outcome.ok.injEq] at h
        subst h
        obtain ⟨h1, h2⟩ := ih ps' hps
        refine ⟨by simp [h1], ?_⟩
        intro t raw ht
        cases t with
        | zero =>
          simp only [List.getElem?_cons_zero, Option.some.injEq] at ht
          subst ht
          exact ⟨p, by simp, hp⟩
        | succ j =>
          simp only [List.getElem?_cons_succ] at ht
          obtain ⟨pt, g1, g2⟩ := h2 j raw ht
          exact ⟨pt, by simpa using g1, g2⟩

theorem new_templates (u : List Str) (b : List (Str × Str)) (st : ExtractorState)
    (h : ExtractorState.new u b = .ok st) :
    parseTemplates .L (b.map (·.1)) = .ok st.leftT ∧ parseTemplates .R (b.map (·.2)) = .ok st.rightT := by
  unfold ExtractorState.new at h
  split at h
  · split at h
    · rename_i l hl
      split at h
      · rename_i r hr
        cases h
        exact ⟨hl, hr⟩
      · cases h
      · cases h
    · cases h
    · cases h
  · cases h
  · cases h

/-- Everything the property theorems need about a successful `generate_bigram_info`. -/
theorem generate_spec (fixed : Bool) (fd rd ld md : List UInt8) (cf : Float) (f : Files)
    (h : generateFiles fixed fd rd ld md cf = .ok f) :
    ∃ (u : List Str) (b : List (Str × Str)) (st : ExtractorState) (entries : List CostLine),
      featureConfigTemplates fd = some (u, b) ∧ StateOK st ∧
      parseTemplates .L (b.map (·.1)) = .ok st.leftT ∧
      parseTemplates .R (b.map (·.2)) = .ok st.rightT ∧
      (∀ i, i < f.right.length → ∃ cells, lastCells (readLines rd) (i + 1) = some cells ∧
        f.right[i]? = some (rowOf st.left st.leftT cells) ∧ Defined st.left st.leftT cells 0) ∧
      (∀ i, i < f.left.length → ∃ cells, lastCells (readLines ld) (i + 1) = some cells ∧
        f.left[i]? = some (rowOf st.right st.rightT cells) ∧ Defined st.right st.rightT cells 0) ∧
      rawEntries cf (readLines md) = some entries ∧
      f.cost = entries.filterMap (translate st) ∧
      ((lastCells (readLines rd) 0).isSome →
        ∀ id, (lastCells (readLines rd) id).isSome → id ≤ f.right.length) ∧
      ((lastCells (readLines ld) 0).isSome →
        ∀ id, (lastCells (readLines ld) id).isSome → id ≤ f.left.length) ∧
      (∀ l ∈ readLines rd, (idEntry l).isSome) ∧ (∀ l ∈ readLines ld, (idEntry l).isSome) ∧
      (fixed = true → (lastCells (readLines rd) 0).isSome ∧ (lastCells (readLines ld) 0).isSome) := by
  unfold generateFiles at h
  cases hg : generateCore fd rd ld md cf with
  | err => simp [hg] at h
  | panic => simp [hg] at h
  | ok g =>
    simp only [hg] at h
    unfold generateCore at hg
    cases hcfg : parseFeatureConfig fd with
    | err => simp [hcfg] at hg
    | panic => simp [hcfg] at hg
    | ok st0 =>
      simp only [hcfg] at hg
      cases h1 : idLoop true (readLines rd) st0 [] with
      | err => simp [h1] at hg
      | panic => simp [h1] at hg
      | ok r1 =>
        obtain ⟨st1, lf⟩ := r1
        simp only [h1] at hg
        cases h2 : idLoop false (readLines ld) st1 [] with
        | err => simp [h2] at hg
        | panic => simp [h2] at hg
        | ok r2 =>
          obtain ⟨st2, rf⟩ := r2
          simp only [h2] at hg
          cases h3 : modelLoop st2 cf (readLines md) with
          | none => simp [h3] at hg
          | some cs =>
            simp only [h3, Outcome.ok.injEq] at hg
            subst hg
            -- the feature config
            unfold parseFeatureConfig at hcfg
            cases hT : featureConfigTemplates fd with
            | none => simp [hT] at hcfg
            | some ub =>
              obtain ⟨u, b⟩ := ub
              simp only [hT] at hcfg
              obtain ⟨hok0, _, _⟩ := stateOK_new u b st0 hcfg
              obtain ⟨hTL, hTR⟩ := new_templates u b st0 hcfg
              obtain ⟨a1, a2, a3, a4, a5, a6, a7⟩ := idLoop_spec true _ st0 [] st1 lf hok0 h1
              obtain ⟨b1, b2, b3, b4, b5, b6, b7⟩ := idLoop_spec false _ st1 [] st2 rf a1 h2
              -- emission
              simp only [emit] at h
              by_cases hfx : (fixed && ((getKV lf 0).isNone || (getKV rf 0).isNone)) = true
              · rw [if_pos hfx] at h; cases h
              rw [if_neg hfx] at h
              cases he1 : emitRows lf with
              | none => simp [he1] at h
              | some rr =>
                simp only [he1] at h
                cases he2 : emitRows rf with
                | none => simp [he2] at h
                | some lr =>
                  simp only [he2, Outcome.ok.injEq] at h
                  subst h
                  rw [modelLoop_eq] at h3
                  cases hre : rawEntries cf (readLines md) with
                  | none => simp [hre] at h3
                  | some entries =>
                    simp only [hre, Option.map_some, Option.some.injEq] at h3
                    have hleft2 : st2.left = st1.left := by simpa [sideMap] using b3
                    have hLT : st2.leftT = st0.leftT := (a2.trans b2).leftT
                    have hRT : st2.rightT = st0.rightT := (a2.trans b2).rightT
                    have hRT1 : st1.rightT = st0.rightT := a2.rightT
                    have hlfkey : ∀ id, (getKV lf id).isSome = (lastCells (readLines rd) id).isSome := by
                      intro id; rw [a4 id]; cases lastCells (readLines rd) id <;> simp [getKV]
                    have hrfkey : ∀ id, (getKV rf id).isSome = (lastCells (readLines ld) id).isSome := by
                      intro id; rw [b4 id]; cases lastCells (readLines ld) id <;> simp [getKV]
                    obtain ⟨hl1, hg1⟩ := emitFrom_spec _ 1 rr he1
                    obtain ⟨hl2, hg2⟩ := emitFrom_spec _ 1 lr he2
                    refine ⟨u, b, st2, entries, rfl, b1, hLT ▸ hTL, hRT ▸ hTR, ?_, ?_, rfl, h3.symm,
                      ?_, ?_, a6, b6, ?_⟩
                    · intro i hi
                      simp only at hi
                      have hgi := hg1 i (by omega)
                      rw [Nat.add_comm, a4 (i + 1)] at hgi
                      have hsome : (rr[i]?).isSome := by simp [hi]
                      cases hlc : lastCells (readLines rd) (i + 1) with
                      | none =>
                        rw [hlc] at hgi
                        simp only [getKV] at hgi
                        rw [← hgi] at hsome; cases hsome
                      | some cells =>
                        rw [hlc] at hgi
                        refine ⟨cells, rfl, ?_, ?_⟩
                        · rw [← hgi]
                          simp only [sideMap, sideT, if_true, hleft2, hLT]
                        · have := a5 (i + 1) cells hlc
                          simpa [sideMap, sideT, hleft2, hLT] using this
                    · intro i hi
                      simp only at hi
                      have hgi := hg2 i (by omega)
                      rw [Nat.add_comm, b4 (i + 1)] at hgi
                      have hsome : (lr[i]?).isSome := by simp [hi]
                      cases hlc : lastCells (readLines ld) (i + 1) with
                      | none =>
                        rw [hlc] at hgi
                        simp only [getKV] at hgi
                        rw [← hgi] at hsome; cases hsome
                      | some cells =>
                        rw [hlc] at hgi
                        refine ⟨cells, rfl, ?_, ?_⟩
                        · rw [← hgi]
                          simp only [sideMap, sideT, Bool.false_eq_true, if_false, hRT, hRT1]
                        · have := b5 (i + 1) cells hlc
                          simpa [sideMap, sideT, hRT, hRT1] using this
                    · intro h0 id hid
                      exact emitRows_complete lf rr (a7 (by simp [keys])) (by rw [hlfkey]; exact h0)
                        he1 id (by rw [hlfkey]; exact hid)
                    · intro h0 id hid
                      exact emitRows_complete rf lr (b7 (by simp [keys])) (by rw [hrfkey]; exact h0)
                        he2 id (by rw [hrfkey]; exact hid)
                    · intro hfixed
                      subst hfixed
                      simp only [Bool.true_and, Bool.or_eq_true, not_or, Bool.not_eq_true,
                        Option.isNone_eq_false_iff] at hfx
                      exact ⟨by rw [← hlfkey]; exact hfx.1, by rw [← hrfkey]; exact hfx.2⟩

/-! ## G. Statement-level definitions and the per-position lemma of `mecab_cost_eq_sum` -/

/-- `-trunc(weight · cost_factor)` of the LAST `model.def` line whose two feature texts are
`(a, c)`; 0 when there is none.  An empty expansion never matches: the code reads an empty side
of a `model.def` line as BOS/EOS. -/
def modelCost (entries : List CostLine) (a c : Str) : Int :=
  if a = [] ∨ c = [] then 0 else table entries a c

/-- Contribution of bigram template number `t` (`BIGRAM <lt>/<rt>` line of `feature.def`) to the
pair (right id with features `cellsR`, left id with features `cellsL`): the template applies to
both ids when both sides expand to a feature. -/
def termOf (entries : List CostLine) (b : List (Str × Str)) (cellsR cellsL : List Str) (t : Nat) :
    Int :=
  match b[t]? with
  | none => 0
  | some (lt, rt) =>
    match expandTemplate .L lt cellsR 0, expandTemplate .R rt cellsL 0 with
    | .ok (some a), .ok (some c) => modelCost entries a c
    | _, _ => 0

theorem expandTemplate_of_parse {k : Kind} {raw : Str} {pt : ParsedTemplate}
    (h : parseTemplate k raw = .ok pt) (feats : List Str) (cate : Nat) :
    expandTemplate k raw feats cate = expand pt feats cate := by
  simp [expandTemplate, h]

theorem table_zero_of_empty_left (st : ExtractorState) {nl : Nat} (hL : MapOK st.left nl)
    {i : Nat} (ha : lookup st.left [] = some i) (entries : List CostLine) (y : Str) :
    tableOpt (entries.filterMap (translate st)) (natToStr i) y = none := by
  apply tableOpt_none_of_left
  intro e' he' heq
  obtain ⟨e, _, ht⟩ := List.mem_filterMap.mp he'
  have hk := (translate_keys ht).1
  rw [heq] at hk
  simp only [idText] at hk
  split at hk
  · simp only [Option.some.injEq] at hk
    exact natToStr_ne_nil i hk.symm
  · rename_i hne
    cases hl : lookup st.left e.1 with
    | none => simp [hl] at hk
    | some i' =>
      simp only [hl, Option.map_some, Option.some.injEq] at hk
      have := natToStr_inj hk
      subst this
      have := (hL.lookup_inj hl ha).mp rfl
      simp [this] at hne

theorem table_zero_of_empty_right (st : ExtractorState) {nr : Nat} (hR : MapOK st.right nr)
    {j : Nat} (hb : lookup st.right [] = some j) (entries : List CostLine) (x : Str) :
    tableOpt (entries.filterMap (translate st)) x (natToStr j) = none := by
  apply tableOpt_none_of_right
  intro e' he' heq
  obtain ⟨e, _, ht⟩ := List.mem_filterMap.mp he'
  have hk := (translate_keys ht).2.1
  rw [heq] at hk
  simp only [idText] at hk
  split at hk
  · simp only [Option.some.injEq] at hk
    exact natToStr_ne_nil j hk.symm
  · rename_i hne
    cases hl : lookup st.right e.2.1 with
    | none => simp [hl] at hk
    | some j' =>
      simp only [hl, Option.map_some, Option.some.injEq] at hk
      have := natToStr_inj hk
      subst this
      have := (hR.lookup_inj hl hb).mp rfl
      simp [this] at hne

/-- One position of the feature-pair sum. -/
theorem pair_term (st : ExtractorState) (hst : StateOK st) (entries : List CostLine)
    (ptL ptR : ParsedTemplate) (cellsR cellsL : List Str)
    (hdL : ∀ s, expand ptL cellsR 0 = .ok (some s) → ∃ id, lookup st.left s = some id)
    (hdR : ∀ s, expand ptR cellsL 0 = .ok (some s) → ∃ id, lookup st.right s = some id) :
    table (entries.filterMap (translate st)) (cellText (idOf st.left cellsR 0 ptL))
        (cellText (idOf st.right cellsL 0 ptR)) =
      match expand ptL cellsR 0, expand ptR cellsL 0 with
      | .ok (some a), .ok (some c) => modelCost entries a c
      | _, _ => 0 := by
  have starL : ∀ y, table (entries.filterMap (translate st)) ['*'] y = 0 := fun y => by
    simp [table, table_star_left]
  have starR : ∀ x, table (entries.filterMap (translate st)) x ['*'] = 0 := fun x => by
    simp [table, table_star_right]
  cases hxL : expand ptL cellsR 0 with
  | err => simp only [idOf, hxL]; exact starL _
  | panic => simp only [idOf, hxL]; exact starL _
  | ok oL =>
    cases oL with
    | none => simp only [idOf, hxL]; exact starL _
    | some a =>
      obtain ⟨i, hi⟩ := hdL a hxL
      cases hxR : expand ptR cellsL 0 with
      | err => simp only [idOf, hxR]; exact starR _
      | panic => simp only [idOf, hxR]; exact starR _
      | ok oR =>
        cases oR with
        | none => simp only [idOf, hxR]; exact starR _
        | some c =>
          obtain ⟨j, hj⟩ := hdR c hxR
          simp only [idOf, hxL, hxR, hi, hj, cellText, modelCost]
          by_cases ha : a = []
          · subst ha
            simp [table, table_zero_of_empty_left st hst.left hi]
          · by_cases hc : c = []
            · subst hc
              simp [table, table_zero_of_empty_right st hst.right hj]
            · simp only [ha, hc, or_self, if_false, table]
              rw [tableOpt_translate st hst.left hst.right hi hj ha hc]

theorem cellRows_row (rows : List (List (Option Nat))) (i : Nat) (row : List (Option Nat))
    (h : rows[i]? = some row) (pos : Nat) :
    featAt (cellRows rows) (i + 1) pos = (row[pos]?).map cellText := by
  simp [featAt, cellRows, h]

theorem maxLen_cellRows (rows : List (List (Option Nat))) (T : Nat) (hne : rows ≠ [])
    (h : ∀ row ∈ rows, row.length = T) : maxLen (cellRows rows) = T := by
  apply maxLen_const
  · simpa [cellRows] using hne
  · intro f hf
    simp only [cellRows, List.mem_map] at hf
    obtain ⟨row, hrow, rfl⟩ := hf
    simpa using h row hrow

theorem renderRowsFrom_eq (rows : List (List (Option Nat))) (k : Nat) :
    renderRowsFrom k rows = (rows.zipIdx k).flatMap (fun p => renderRow p.2 p.1) := by
  induction rows generalizing k with
  | nil => rfl
  | cons r rs ih => simp [renderRowsFrom, List.zipIdx_cons, ih]

theorem files_of_info {fixed : Bool} {fd rd ld md : List UInt8} {cf : Float}
    {out : List UInt8 × List UInt8 × List UInt8}
    (h : generateBigramInfo fixed fd rd ld md cf = .ok out) :
    ∃ f, generateFiles fixed fd rd ld md cf = .ok f := by
  unfold generateBigramInfo at h
  cases hf : generateFiles fixed fd rd ld md cf with
  | err => simp [hf] at h
  | panic => simp [hf] at h
  | ok f => exact ⟨f, rfl⟩


/-! ### Which `model.def` lines are usable -/

theorem takeWhile_append_stop (p : Char → Bool) (w : Str) (c : Char) (s : Str)
    (h : ∀ d ∈ w, p d = true) (hc : p c = false) : (w ++ c :: s).takeWhile p = w := by
  induction w with
  | nil => simp [hc]
  | cons d w ih =>
    have hd : p d = true := h d (by simp)
    simp only [List.cons_append, List.takeWhile_cons, hd, if_true]
    rw [ih (fun x hx => h x (by simp [hx]))]

theorem replaceBosEos_cons_ne (c : Char) (cs : Str) (h : c ≠ 'B') :
    replaceBosEos (c :: cs) = c :: replaceBosEos cs := by
  rw [replaceBosEos]
  intros
  simp_all

theorem replaceBosEos_id (s : Str) (h : 'B' ∉ s) : replaceBosEos s = s := by
  induction s with
  | nil => rfl
  | cons c cs ih =>
    simp only [List.mem_cons, not_or] at h
    rw [replaceBosEos_cons_ne c cs (fun e => h.1 e.symm), ih h.2]

theorem splitOnGo_no_sep (sep : Char) (s cur : Str) (h : sep ∉ s) :
    Text.splitOnGo sep s cur = [cur.reverse ++ s] := by
  induction s generalizing cur with
  | nil => simp [Text.splitOnGo]
  | cons c cs ih =>
    simp only [List.mem_cons, not_or] at h
    have : ¬ c = sep := fun e => h.1 e.symm
    simp only [Text.splitOnGo, this, if_false]
    rw [ih _ h.2]; simp

theorem splitOnGo_first (sep : Char) (a rest cur : Str) (h : sep ∉ a) :
    Text.splitOnGo sep (a ++ sep :: rest) cur = (cur.reverse ++ a) :: Text.splitOnGo sep rest [] := by
  induction a generalizing cur with
  | nil => simp [Text.splitOnGo]
  | cons c cs ih =>
    simp only [List.mem_cons, not_or] at h
    have : ¬ c = sep := fun e => h.1 e.symm
    simp only [List.cons_append, Text.splitOnGo, this, if_false]
    rw [ih _ h.2]; simp

/-- **Usable `model.def` lines.**  The line `<w> TAB <a> / <c>` — `w` a non-empty text over
`0-9 - .` that parses to the weight `x`, with `-(x · cost_factor) as i32 ≠ 0`, and feature texts
`a`, `c` without `/` and without the letter `B` (so that `replace("BOS/EOS", "")` does not touch
them) — is the raw entry `(a, c, -(x · cost_factor) as i32)`. -/
theorem model_line_entry (cf : Float) (w a c : Str) (x : Float) (hw : w ≠ [])
    (hwc : ∀ d ∈ w, isWeightChar d = true) (hx : parseF64 w = some x) (hcost : costOf x cf ≠ 0)
    (ha : '/' ∉ a) (hc : '/' ∉ c) (hBa : 'B' ∉ a) (hBc : 'B' ∉ c) :
    rawStep cf (w ++ '\t' :: (a ++ '/' :: c)) = some (some (a, c, costOf x cf)) := by
  have hml : modelLine (w ++ '\t' :: (a ++ '/' :: c)) = some (w, a ++ '/' :: c) := by
    simp only [modelLine, takeWhile_append_stop isWeightChar w '\t' _ hwc (by decide)]
    have : w.isEmpty = false := by cases w <;> simp_all
    simp [this]
  have hB : 'B' ∉ a ++ '/' :: c := by
    simp only [List.mem_append, List.mem_cons, not_or]
    exact ⟨hBa, by decide, hBc⟩
  simp only [rawStep, hml, hx, hcost, if_false, replaceBosEos_id _ hB, Text.splitOn,
    splitOnGo_first '/' a c [] ha, splitOnGo_no_sep '/' c [] hc]
  simp

/-- `modelCost` reads the table of raw entries: the last entry for the pair wins. -/
theorem modelCost_cons (e : CostLine) (entries : List CostLine) (a c : Str) (ha : a ≠ [])
    (hc : c ≠ []) :
    modelCost (e :: entries) a c =
      match tableOpt entries a c with
      | some v => v
      | none => if e.1 = a ∧ e.2.1 = c then e.2.2 else 0 := by
  simp only [modelCost, ha, hc, or_self, if_false, table, tableOpt]
  cases tableOpt entries a c with
  | some v => rfl
  | none => simp only; split <;> rfl

end Vibrato.Mecab
