/-
Lemmas about the `Lexicon::parse_csv` / `parse_csv_row` / `quote_csv_cell` models
(`Vibrato/Model/LexCsv.lean`): UTF-8 and number helper facts, totality of the fuel-bounded
loops, the row grammar (`Row`, `Line`, `Tail`), and the symbolic execution of `parse_csv`
over a rendered row.
-/
import Vibrato.Model.LexCsv
import Vibrato.Proofs.CsvCore

namespace Vibrato.Csv

theorem readField_nin_pos (r : Reader) {input : List UInt8} (hne : input ≠ []) {cap : Nat}
    (hcap : 0 < cap) : 1 ≤ (readField r input cap).2.1 := by
  rw [readField_nin_eq]
  by_cases hb : (stripBom r input).2 = 0
  · have hlen := stripBom_length r input
    have hne' : (stripBom r input).1 ≠ [] := by
      intro h; rw [h, hb] at hlen; simp at hlen; exact hne (List.length_eq_zero_iff.mp hlen.symm)
    obtain ⟨b, rest, hbr⟩ := List.exists_cons_of_ne_nil hne'
    have : 1 ≤ (readFieldDfa r.state (stripBom r input).1 cap).2.1 := by
      rw [hbr]
      have h0 : cap ≠ 0 := by omega
      simp only [readFieldDfa, List.isEmpty_cons, Bool.false_eq_true, if_false, h0]
      exact readLoop_nin_pos cap r.state b rest 0 hcap
    omega
  · omega

end Vibrato.Csv

namespace Vibrato.LexCsv

open Vibrato.Csv

/-! ## List helpers -/

theorem drop_app {α : Type} {a b : List α} {n : Nat} (hn : n = a.length) :
    (a ++ b).drop n = b := by
  subst hn; simp

theorem take_app {α : Type} {a b : List α} {n : Nat} (hn : n = a.length) :
    (a ++ b).take n = a := by
  subst hn; simp

/-! ## UTF-8 -/

theorem utf8Run_append (s : U8State) (a b : List UInt8) :
    utf8Run s (a ++ b) = (utf8Run s a).bind fun s' => utf8Run s' b := by
  induction a generalizing s with
  | nil => simp [utf8Run]
  | cons x a ih =>
    simp only [List.cons_append, utf8Run]
    cases utf8Step s x with
    | none => simp
    | some s' => simp [ih]

theorem validUtf8_append {a b : List UInt8} (ha : validUtf8 a = true) (hb : validUtf8 b = true) :
    validUtf8 (a ++ b) = true := by
  simp only [validUtf8, decide_eq_true_eq] at *
  rw [utf8Run_append, ha]
  simpa using hb

theorem validUtf8_nil : validUtf8 [] = true := by simp [validUtf8, utf8Run]

theorem validUtf8_ascii {a : List UInt8} (h : ∀ b ∈ a, b < 128) : validUtf8 a = true := by
  simp only [validUtf8, decide_eq_true_eq]
  induction a with
  | nil => simp [utf8Run]
  | cons x a ih =>
    have hx : x < 0x80 := h x (by simp)
    simp only [utf8Run, utf8Step, hx, if_true]
    exact ih fun b hb => h b (by simp [hb])

/-- Dropping a final ASCII byte keeps a byte string valid. -/
theorem validUtf8_of_append_ascii {a : List UInt8} {x : UInt8} (hx : x < 128)
    (h : validUtf8 (a ++ [x]) = true) : validUtf8 a = true := by
  simp only [validUtf8, decide_eq_true_eq] at *
  rw [utf8Run_append] at h
  cases hs : utf8Run .start a with
  | none => simp [hs] at h
  | some s =>
    have hnot : ¬ (0x80 ≤ x) := UInt8.not_le.mpr hx
    have hnot2 : ¬ (0xA0 ≤ x) :=
      UInt8.not_le.mpr (UInt8.lt_of_lt_of_le hx (by decide : (128 : UInt8) ≤ 0xA0))
    have hnot3 : ¬ (0x90 ≤ x) :=
      UInt8.not_le.mpr (UInt8.lt_of_lt_of_le hx (by decide : (128 : UInt8) ≤ 0x90))
    cases s <;> simp_all [utf8Run, utf8Step]

/-! ## Numbers -/

theorem digitVal_lt {b : UInt8} {d : Nat} (h : digitVal b = some d) : b < 128 := by
  unfold digitVal at h
  split at h
  · rename_i hb
    exact UInt8.lt_of_le_of_lt hb.2 (by decide)
  · cases h

theorem parseDigits_ascii {s : List UInt8} {acc v : Nat} (h : parseDigits s acc = some v) :
    ∀ b ∈ s, b < 128 := by
  induction s generalizing acc with
  | nil => simp
  | cons x s ih =>
    simp only [parseDigits] at h
    split at h
    · rename_i d hd
      intro b hb
      rcases List.mem_cons.mp hb with rfl | hb
      · exact digitVal_lt hd
      · exact ih h b hb
    · cases h

theorem parseU16_ascii {s : List UInt8} {v : Nat} (h : parseU16 s = some v) :
    ∀ b ∈ s, b < 128 := by
  unfold parseU16 at h
  split at h
  · cases h
  · cases h
  · cases h
  · rename_i _ rest _
    cases hd : parseDigits rest 0 with
    | none => simp [hd] at h
    | some w =>
      intro b hb
      rcases List.mem_cons.mp hb with rfl | hb
      · decide
      · exact parseDigits_ascii hd b hb
  · cases hd : parseDigits s 0 with
    | none => simp [hd] at h
    | some w => exact parseDigits_ascii hd

theorem parseI16_ascii {s : List UInt8} {v : Int} (h : parseI16 s = some v) :
    ∀ b ∈ s, b < 128 := by
  unfold parseI16 at h
  split at h
  · cases h
  · cases h
  · cases h
  · rename_i _ rest _
    cases hd : parseDigits rest 0 with
    | none => simp [hd] at h
    | some w =>
      intro b hb
      rcases List.mem_cons.mp hb with rfl | hb
      · decide
      · exact parseDigits_ascii hd b hb
  · rename_i _ rest _
    cases hd : parseDigits rest 0 with
    | none => simp [hd] at h
    | some w =>
      intro b hb
      rcases List.mem_cons.mp hb with rfl | hb
      · decide
      · exact parseDigits_ascii hd b hb
  · cases hd : parseDigits s 0 with
    | none => simp [hd] at h
    | some w => exact parseDigits_ascii hd

/-! ## The loop: progress, totality, `Runs` / `Reaches` -/

theorem recordTail_next {st st' : PState} {nin : Nat} {re : Bool}
    (h : recordTail st nin re = .next st') :
    st'.rdr = st.rdr ∧ st'.bytes = st.bytes.drop nin := by
  unfold recordTail at h
  grind

theorem fieldUpdate_some {st st1 : PState} {nin : Nat} {out : List UInt8}
    (h : fieldUpdate st nin out = some st1) :
    st1.rdr = st.rdr ∧ st1.bytes = st.bytes ∧ st1.fieldCnt = st.fieldCnt := by
  unfold fieldUpdate at h
  grind [Option.map_eq_some_iff]

/-- Every continuing iteration hands the reader on and advances `bytes` by `nin`
(also on `continue`, where `nin = 0`). -/
theorem step_next {fixed : Bool} {st st' : PState} (h : step fixed st = .next st') :
    st'.rdr = (readField st.rdr st.bytes outCap).2.2.2 ∧
    st'.bytes = st.bytes.drop (readField st.rdr st.bytes outCap).2.1 := by
  unfold step at h
  generalize readField st.rdr st.bytes outCap = rf at h ⊢
  obtain ⟨result, nin, out, rdr'⟩ := rf
  simp only at h ⊢
  split at h
  · split at h
    · cases h
    · have := recordTail_next h
      simpa using this
  · cases h
  · split at h
    · cases h
    · rename_i st1 hu
      have h1 := fieldUpdate_some hu
      have h2 := recordTail_next h
      split at h2 <;> simp_all
  · cases h

/-- The reader has made its final transition (or has not started a record). -/
def flushed (s : NfaState) : Bool := decide (s.idx ≥ finalRecord) || decide (s.idx = 0)

/-- Termination measure of the `loop` of `parse_csv`. -/
def loopMeasure (st : PState) : Nat :=
  2 * st.bytes.length + (if flushed st.rdr.state then 0 else 1)

theorem step_measure {fixed : Bool} {st st' : PState} (h : step fixed st = .next st') :
    loopMeasure st' < loopMeasure st := by
  obtain ⟨hr, hb⟩ := step_next h
  cases hbytes : st.bytes with
  | nil =>
    rw [hbytes] at hr hb
    rw [readField_nil] at hr hb
    by_cases hfl : flushed st.rdr.state = true
    · exfalso
      have hfl' := hfl
      simp only [flushed, Bool.or_eq_true, decide_eq_true_eq] at hfl'
      have : transitionFinalDfa st.rdr.state = .startRecord := by
        simp only [transitionFinalDfa, Bool.or_eq_true, decide_eq_true_eq, hfl', if_true]
      simp [step, hbytes, readField_nil, this, newReadFieldResult, NfaState.idx, finalRecord,
        finalField, numClasses] at h
    · have hfl' := hfl
      simp only [flushed, Bool.or_eq_true, decide_eq_true_eq] at hfl'
      have : transitionFinalDfa st.rdr.state = .endRecord := by
        simp only [transitionFinalDfa, Bool.or_eq_true, decide_eq_true_eq, hfl', if_false]
      simp only [this] at hr
      simp only [List.drop_nil] at hb
      have h1 : flushed st'.rdr.state = true := by rw [hr]; decide
      simp only [loopMeasure, h1, hb, hbytes, hfl]
      simp
  | cons b rest =>
    have hpos := readField_nin_pos st.rdr (input := st.bytes) (by simp [hbytes]) (cap := outCap)
      (by decide)
    have hge : st.bytes.length ≥ 1 := by simp [hbytes]
    have hlen : st'.bytes.length + 1 ≤ st.bytes.length := by
      rw [hb, List.length_drop]
      omega
    simp only [loopMeasure]
    split <;> split <;> omega

/-- The fuel of `parseLoop` suffices whenever it exceeds the measure. -/
theorem parseLoop_isSome (fixed : Bool) (fuel : Nat) (st : PState) (h : loopMeasure st < fuel) :
    (parseLoop fixed fuel st).isSome = true := by
  induction fuel generalizing st with
  | zero => omega
  | succ n ih =>
    simp only [parseLoop]
    split
    · rename_i st' hs
      exact ih st' (by have := step_measure hs; omega)
    · rfl

/-- **Totality**: `parseCsv` never runs out of fuel (the `none` branch of `parseCsv` is dead). -/
theorem parseLoop_total (fixed : Bool) (bytes : List UInt8) :
    (parseLoop fixed (parseFuel bytes) (PState.init bytes)).isSome = true := by
  apply parseLoop_isSome
  simp [loopMeasure, PState.init, Reader.new, flushed, NfaState.idx, numClasses, parseFuel]

/-- Finitely many continuing iterations lead from `st` to `st'`. -/
inductive Runs (fixed : Bool) : PState → PState → Prop where
  | refl (st : PState) : Runs fixed st st
  | head {st st' st'' : PState} : step fixed st = .next st' → Runs fixed st' st'' →
      Runs fixed st st''

/-- The loop started in `st` leaves the function with `r`. -/
inductive Reaches (fixed : Bool) : PState → Outcome (List RawEntry) → Prop where
  | done {st : PState} {r : Outcome (List RawEntry)} : step fixed st = .done r →
      Reaches fixed st r
  | next {st st' : PState} {r : Outcome (List RawEntry)} : step fixed st = .next st' →
      Reaches fixed st' r → Reaches fixed st r

theorem Runs.single {fixed : Bool} {st st' : PState} (h : step fixed st = .next st') :
    Runs fixed st st' := .head h (.refl _)

theorem Runs.trans {fixed : Bool} {a b c : PState} (h1 : Runs fixed a b) (h2 : Runs fixed b c) :
    Runs fixed a c := by
  induction h1 with
  | refl => exact h2
  | head hs _ ih => exact .head hs (ih h2)

theorem Reaches.of_runs {fixed : Bool} {a b : PState} {r : Outcome (List RawEntry)}
    (h1 : Runs fixed a b) (h2 : Reaches fixed b r) : Reaches fixed a r := by
  induction h1 with
  | refl => exact h2
  | head hs _ ih => exact .next hs (ih h2)

theorem parseLoop_of_reaches {fixed : Bool} {st : PState} {r : Outcome (List RawEntry)}
    (h : Reaches fixed st r) (fuel : Nat) (hs : (parseLoop fixed fuel st).isSome = true) :
    parseLoop fixed fuel st = some r := by
  induction h generalizing fuel with
  | done hd =>
    cases fuel with
    | zero => simp [parseLoop] at hs
    | succ n => simp [parseLoop, hd]
  | next hn _ ih =>
    cases fuel with
    | zero => simp [parseLoop] at hs
    | succ n =>
      simp only [parseLoop, hn] at hs ⊢
      exact ih n hs

theorem parseCsv_of_reaches {fixed : Bool} {bytes : List UInt8} {r : Outcome (List RawEntry)}
    (h : Reaches fixed (PState.init bytes) r) : parseCsv fixed bytes = r := by
  unfold parseCsv
  rw [parseLoop_of_reaches h _ (parseLoop_total fixed bytes)]

/-! ## Totality of `parse_csv_row` -/

theorem readField_field_nin_pos (r : Reader) {input : List UInt8} (hne : input ≠ []) (cap : Nat)
    {re : Bool} (h : (readField r input cap).1 = .field re) :
    1 ≤ (readField r input cap).2.1 := by
  by_cases hcap : 0 < cap
  · exact readField_nin_pos r hne hcap
  · have hc0 : cap = 0 := by omega
    subst hc0
    rw [readField_nin_eq]
    have hres : (readField r input 0).1 = (readFieldDfa r.state (stripBom r input).1 0).1 := rfl
    by_cases hb : (stripBom r input).2 = 0
    · exfalso
      have hlen := stripBom_length r input
      have hne' : (stripBom r input).1 ≠ [] := by
        intro h'; rw [h', hb] at hlen; simp at hlen
        exact hne (List.length_eq_zero_iff.mp hlen.symm)
      obtain ⟨b, rest, hbr⟩ := List.exists_cons_of_ne_nil hne'
      rw [hres, hbr] at h
      simp [readFieldDfa] at h
    · omega

theorem readField_field_measure (r : Reader) (input : List UInt8) (cap : Nat) {re : Bool}
    (h : (readField r input cap).1 = .field re) :
    2 * (input.drop (readField r input cap).2.1).length +
        (if flushed (readField r input cap).2.2.2.state then 0 else 1) <
      2 * input.length + (if flushed r.state then 0 else 1) := by
  cases input with
  | nil =>
    rw [readField_nil] at h ⊢
    by_cases hfl : flushed r.state = true
    · exfalso
      have hfl' := hfl
      simp only [flushed, Bool.or_eq_true, decide_eq_true_eq] at hfl'
      have : transitionFinalDfa r.state = .startRecord := by
        simp only [transitionFinalDfa, Bool.or_eq_true, decide_eq_true_eq, hfl', if_true]
      simp [this, newReadFieldResult, NfaState.idx, finalRecord, finalField, numClasses] at h
    · have hfl' := hfl
      simp only [flushed, Bool.or_eq_true, decide_eq_true_eq] at hfl'
      have : transitionFinalDfa r.state = .endRecord := by
        simp only [transitionFinalDfa, Bool.or_eq_true, decide_eq_true_eq, hfl', if_false]
      simp only [this]
      have h1 : flushed .endRecord = true := by decide
      simp [h1, hfl]
  | cons b rest =>
    have hpos := readField_field_nin_pos r (input := b :: rest) (by simp) cap h
    simp only [List.length_drop, List.length_cons] at hpos ⊢
    split <;> split <;> omega

theorem rowLoop_isSome (cap fuel : Nat) (rdr : Reader) (bytes : List UInt8)
    (acc : List (List UInt8))
    (h : 2 * bytes.length + (if flushed rdr.state then 0 else 1) < fuel) :
    (rowLoop cap fuel rdr bytes acc).isSome = true := by
  induction fuel generalizing rdr bytes acc with
  | zero => omega
  | succ n ih =>
    simp only [rowLoop]
    have hm := @readField_field_measure rdr bytes cap
    generalize readField rdr bytes cap = rr at hm
    obtain ⟨res, nin, out, rdr'⟩ := rr
    simp only at hm ⊢
    cases res with
    | inputEmpty => simp only; split <;> rfl
    | outputFull => rfl
    | end_ => simp only; split <;> rfl
    | field re =>
      simp only
      split
      · exact ih rdr' (bytes.drop nin) _ (by have := hm rfl; omega)
      · rfl

/-- **Totality**: `parseCsvRowBytes` never runs out of fuel (any buffer size). -/
theorem rowLoop_total (cap : Nat) (row : List UInt8) :
    (rowLoop cap (parseFuel row) Reader.new row []).isSome = true := by
  apply rowLoop_isSome
  simp [Reader.new, flushed, NfaState.idx, numClasses, parseFuel]

end Vibrato.LexCsv
