/-
User lexicon vs. system lexicon extended by the same rows (helper lemmas for C08).
-/
import Vibrato.Proofs.Relabel
import Vibrato.Proofs.TokenizerEnv

namespace Vibrato

/-- Word-identity renaming "user row `i` ↔ system row `n + i`". -/
def userAsSys (n : Nat) : Nat → Nat → Nat × Nat := fun t i => if t = 1 then (0, n + i) else (t, i)

theorem flatMap_append_perm {ι α : Type} (ls : List ι) (f g : ι → List α) :
    (ls.flatMap fun l => f l ++ g l).Perm (ls.flatMap f ++ ls.flatMap g) := by
  induction ls with
  | nil => simp
  | cons a ls ih =>
    simp only [List.flatMap_cons]
    have h1 : (f a ++ g a ++ List.flatMap (fun l => f l ++ g l) ls).Perm
        (f a ++ g a ++ (List.flatMap f ls ++ List.flatMap g ls)) := List.Perm.append_left _ ih
    refine h1.trans ?_
    rw [List.append_assoc, List.append_assoc]
    exact List.Perm.append_left _ (List.perm_append_comm_assoc _ _ _)

/-- the matches of one length -/
def lexLen (es : List LexEntry) (lt : Nat) (suffix : List Nat) (sw l : Nat) : List Cand :=
  (es.zipIdx.filter fun (e, _) => e.surface == suffix.take l).map fun (e, i) =>
    { endWord := sw + l, wordId := i, lexType := lt,
      leftId := e.param.leftId, rightId := e.param.rightId, wordCost := e.param.wordCost }

theorem lexMatches_eq (es : List LexEntry) (lt : Nat) (suffix : List Nat) (sw : Nat) :
    lexMatches es lt suffix sw = (List.range' 1 suffix.length).flatMap (lexLen es lt suffix sw) := rfl

theorem lexLen_append (A B : List LexEntry) (suffix : List Nat) (sw l : Nat) :
    lexLen (A ++ B) 0 suffix sw l =
      lexLen A 0 suffix sw l ++ (lexLen B 1 suffix sw l).map (Ren.ofWord (userAsSys A.length)).cand := by
  unfold lexLen
  rw [List.zipIdx_append, List.filter_append, List.map_append]
  congr 1
  rw [List.zipIdx_eq_map_add, List.filter_map, List.map_map, List.map_map]
  apply List.map_congr_left
  rintro ⟨e, i⟩ _
  simp [Ren.cand, Ren.ofWord, userAsSys]

theorem lexMatches_append_perm (A B : List LexEntry) (suffix : List Nat) (sw : Nat) :
    (lexMatches (A ++ B) 0 suffix sw).Perm
      (lexMatches A 0 suffix sw ++
        (lexMatches B 1 suffix sw).map (Ren.ofWord (userAsSys A.length)).cand) := by
  rw [lexMatches_eq, lexMatches_eq, lexMatches_eq, List.map_flatMap]
  have : lexLen (A ++ B) 0 suffix sw = fun l => lexLen A 0 suffix sw l ++
      (lexLen B 1 suffix sw l).map (Ren.ofWord (userAsSys A.length)).cand := by
    funext l; exact lexLen_append A B suffix sw l
  rw [this]
  exact flatMap_append_perm _ _ _

theorem ofWord_cand_of_ne (n : Nat) (c : Cand) (h : c.lexType ≠ 1) :
    (Ren.ofWord (userAsSys n)).cand c = c := by
  cases c
  simp_all [Ren.cand, Ren.ofWord, userAsSys]

theorem map_ofWord_of_ne (n : Nat) (cs : List Cand) (h : ∀ c ∈ cs, c.lexType ≠ 1) :
    cs.map (Ren.ofWord (userAsSys n)).cand = cs := by
  rw [List.map_congr_left (g := id) (fun c hc => ofWord_cand_of_ne n c (h c hc))]
  simp

theorem genUnk_lexType (ci : CharInfo) (g len start : Nat) (hm : Bool) (mg : Option Nat)
    (unk : List (Nat × WordParam)) : ∀ c ∈ genUnk ci g len start hm mg unk, c.lexType = 2 := by
  intro c hc
  unfold genUnk at hc
  split at hc
  · cases hc
  · simp only [List.mem_append, List.mem_flatMap] at hc
    rcases hc with (hc | ⟨_, _, hc⟩) | hc
    · split at hc
      · exact (scanEntries_mem _ _ c hc).2.1
      · cases hc
    · exact (scanEntries_mem _ _ c hc).2.1
    · split at hc
      · cases hc
      · exact (scanEntries_mem _ _ c hc).2.1

/-- **Candidates with a user lexicon = candidates of the extended system lexicon**, as multisets,
up to the renaming of the word identity. -/
theorem candsAt_user_perm (T : TokDict) (U : List LexEntry) (S : Sent) (o : TokOpts) (sw : Nat) :
    ((candsAt { T with user := some U } S o sw).map (Ren.ofWord (userAsSys T.sys.length)).cand).Perm
      (candsAt { T with sys := T.sys ++ U, user := none } S o sw) := by
  unfold candsAt
  simp only [List.nil_append, List.isEmpty_nil, Bool.true_and, List.map_append]
  have hp := lexMatches_append_perm T.sys U (S.chars.drop sw) sw
  have hs : (lexMatches T.sys 0 (S.chars.drop sw) sw).map (Ren.ofWord (userAsSys T.sys.length)).cand =
      lexMatches T.sys 0 (S.chars.drop sw) sw :=
    map_ofWord_of_ne _ _ (fun c hc => by rw [(lexMatches_spec _ _ _ _ c hc).2.2.1]; decide)
  have hk : ∀ hm, (genUnk (S.cinfos.getD sw default) (S.groupable.getD sw 0) S.chars.length sw hm
      o.maxGroup (T.unkOf (S.cinfos.getD sw default).baseId)).map
        (Ren.ofWord (userAsSys T.sys.length)).cand = genUnk (S.cinfos.getD sw default)
          (S.groupable.getD sw 0) S.chars.length sw hm o.maxGroup
          (T.unkOf (S.cinfos.getD sw default).baseId) :=
    fun hm => map_ofWord_of_ne _ _ (fun c hc => by rw [genUnk_lexType _ _ _ _ _ _ _ c hc]; decide)
  rw [hs, hk]
  have hemp : (lexMatches (T.sys ++ U) 0 (S.chars.drop sw) sw).isEmpty =
      ((lexMatches U 1 (S.chars.drop sw) sw).isEmpty && (lexMatches T.sys 0 (S.chars.drop sw) sw).isEmpty) := by
    rw [hp.isEmpty_eq]
    generalize lexMatches T.sys 0 (S.chars.drop sw) sw = a
    generalize lexMatches U 1 (S.chars.drop sw) sw = b
    cases a <;> cases b <;> rfl
  rw [hemp]
  apply List.Perm.append_right
  exact (List.perm_append_comm).trans hp.symm

end Vibrato
