import Vibrato.Proofs.Tokenizer

namespace Vibrato

/-- Cost bounds of a dictionary (all costs are `i16`/`i32` in the code; the bound is
what the no-overflow hypothesis of C02 needs). -/
structure DictOK (D : TokDict) (C W : Int) : Prop where
  conn_le : ∀ r l, D.conn r l ≤ C
  sys_cost : ∀ e ∈ D.sys, e.param.wordCost ≤ W
  user_cost : ∀ u, D.user = some u → ∀ e ∈ u, e.param.wordCost ≤ W
  unk_cost : ∀ b, ∀ p ∈ D.unkOf b, p.2.wordCost ≤ W
  C_nonneg : 0 ≤ C
  W_nonneg : 0 ≤ W

/-- Every character's primary category has at least one `unk.def` entry (finding F9:
the builders do not enforce this). -/
def UnkCovered (D : TokDict) : Prop := ∀ c, D.unkOf (D.charInfo c).baseId ≠ []

theorem compileSent_lens (D : TokDict) (chars : List Nat) :
    (compileSent D chars).chars = chars ∧ (compileSent D chars).cinfos.length = chars.length ∧
      (compileSent D chars).groupable.length = chars.length := by
  simp [compileSent, groupables_length]

theorem compileSent_groupable (D : TokDict) (chars : List Nat) (i : Nat) (hi : i < chars.length) :
    1 ≤ (compileSent D chars).groupable.getD i 0 ∧
      i + (compileSent D chars).groupable.getD i 0 ≤ chars.length := by
  have := groupables_bounds ((chars.map D.charInfo).map (·.cateSet)) i (by simpa using hi)
  simpa [compileSent] using this

/-- every candidate offered at a position inside the sentence ends after it and inside the
sentence, names a dictionary entry, and carries that entry's parameters -/
theorem candsAt_spec (D : TokDict) (chars : List Nat) (o : TokOpts) (sw : Nat) (hsw : sw < chars.length)
    (c : Cand) (hc : c ∈ candsAt D (compileSent D chars) o sw) :
    sw < c.endWord ∧ c.endWord ≤ chars.length ∧
      ((c.lexType = 0 ∧ ∃ e, D.sys[c.wordId]? = some e ∧
          e.surface = (chars.drop sw).take (c.endWord - sw) ∧ e.param = ⟨c.leftId, c.rightId, c.wordCost⟩) ∨
       (c.lexType = 1 ∧ ∃ u e, D.user = some u ∧ u[c.wordId]? = some e ∧
          e.surface = (chars.drop sw).take (c.endWord - sw) ∧ e.param = ⟨c.leftId, c.rightId, c.wordCost⟩) ∨
       (c.lexType = 2 ∧ ∃ p ∈ D.unkOf (D.charInfo (chars.getD sw 0)).baseId,
          p.1 = c.wordId ∧ p.2 = ⟨c.leftId, c.rightId, c.wordCost⟩)) := by
  obtain ⟨hch, hci, hgl⟩ := compileSent_lens D chars
  have hgb := compileSent_groupable D chars sw hsw
  unfold candsAt at hc
  simp only [hch, List.mem_append] at hc
  have hdrop : (chars.drop sw).length = chars.length - sw := by simp
  rcases hc with (hc | hc) | hc
  · -- user lexicon
    cases hu : D.user with
    | none => rw [hu] at hc; cases hc
    | some u =>
      rw [hu] at hc
      obtain ⟨h1, h2, h3, e, he, hs, hl, hr, hw⟩ := lexMatches_spec u 1 _ sw c hc
      refine ⟨h1, by omega, Or.inr (Or.inl ⟨h3, u, e, rfl, he, hs, ?_⟩)⟩
      cases e with | mk s p => cases p; simp_all
  · obtain ⟨h1, h2, h3, e, he, hs, hl, hr, hw⟩ := lexMatches_spec D.sys 0 _ sw c hc
    refine ⟨h1, by omega, Or.inl ⟨h3, e, he, hs, ?_⟩⟩
    cases e with | mk s p => cases p; simp_all
  · rw [genUnk_eq _ _ _ _ _ _ _ hgb.2] at hc
    simp only [List.mem_flatMap] at hc
    obtain ⟨l, hl, hc⟩ := hc
    obtain ⟨hl1, hl2⟩ := unkLengths_bounds _ _ _ _ hgb.1 l hl
    obtain ⟨he, ht, p, hp, hid, hL, hR, hW⟩ := scanEntries_mem _ _ c hc
    refine ⟨by omega, by omega, Or.inr (Or.inr ⟨ht, p, ?_, hid, ?_⟩)⟩
    · have : (compileSent D chars).cinfos.getD sw default = D.charInfo (chars.getD sw 0) := by
        simp only [compileSent, List.getD_eq_getElem?_getD, List.getElem?_map]
        rw [List.getElem?_eq_getElem hsw]; simp
      rw [← this]; exact hp
    · cases p with | mk a b => cases b; simp_all

theorem latEnvOf_envOK (D : TokDict) (C W : Int) (hD : DictOK D C W) (chars : List Nat) (o : TokOpts)
    (hb : ((chars.length : Int) + 1) * (C + W) ≤ MAX_COST) :
    EnvOK (latEnvOf D (compileSent D chars) o) C W := by
  have hlen : (latEnvOf D (compileSent D chars) o).len = chars.length := by
    simp [latEnvOf, compileSent]
  refine ⟨?_, fun r l => hD.conn_le r l, ?_, hD.C_nonneg, hD.W_nonneg, by rw [hlen]; exact hb⟩
  · intro sw hsw c hc
    rw [hlen] at hsw ⊢
    exact ⟨(candsAt_spec D chars o sw hsw c hc).1, (candsAt_spec D chars o sw hsw c hc).2.1⟩
  · intro sw hsw c hc
    rw [hlen] at hsw
    rcases (candsAt_spec D chars o sw hsw c hc).2.2 with ⟨_, e, he, _, hp⟩ | ⟨_, u, e, hu, he, _, hp⟩ |
        ⟨_, p, hp, _, hpp⟩
    · have := hD.sys_cost e (List.mem_of_getElem? he); rw [hp] at this; exact this
    · have := hD.user_cost u hu e (List.mem_of_getElem? he); rw [hp] at this; exact this
    · have := hD.unk_cost _ p hp; rw [hpp] at this; exact this

theorem latEnvOf_covered (D : TokDict) (hcov : UnkCovered D) (chars : List Nat) (o : TokOpts) :
    Covered (latEnvOf D (compileSent D chars) o) := by
  intro sw hsw
  have hlen : (latEnvOf D (compileSent D chars) o).len = chars.length := by
    simp [latEnvOf, compileSent]
  rw [hlen] at hsw
  have hgb := compileSent_groupable D chars sw hsw
  show candsAt D (compileSent D chars) o sw ≠ []
  intro hnil
  unfold candsAt at hnil
  simp only [List.append_eq_nil_iff] at hnil
  obtain ⟨⟨hu, hs⟩, hg⟩ := hnil
  rw [hu, hs] at hg
  simp only [List.isEmpty_nil, Bool.and_self, Bool.not_true] at hg
  have hlen2 : (compileSent D chars).chars.length = chars.length := by simp [compileSent]
  rw [hlen2, genUnk_eq _ _ _ _ _ _ _ hgb.2] at hg
  have hne := unkLengths_ne_nil ((compileSent D chars).cinfos.getD sw default)
    ((compileSent D chars).groupable.getD sw 0) o.maxGroup
  obtain ⟨l, hl⟩ := List.exists_mem_of_ne_nil _ hne
  have hci : (compileSent D chars).cinfos.getD sw default = D.charInfo (chars.getD sw 0) := by
    simp only [compileSent, List.getD_eq_getElem?_getD, List.getElem?_map]
    rw [List.getElem?_eq_getElem hsw]; simp
  have hunk := hcov (chars.getD sw 0)
  rw [← hci] at hunk
  have := List.flatMap_eq_nil_iff.mp hg l hl
  simp only [scanEntries, List.map_eq_nil_iff] at this
  exact hunk this

end Vibrato
