/-
C10 helpers, part 1: the span accounting of `Lexicon::parse_csv` (`Model/LexCsv.lean`).

* `PInv` — invariant of the `loop` relating `record_end_pos` / `features_len` to the slices
  `record_bytes` / `features_bytes` they index;
* `parseCsv_ne_panic` — with the repaired end-of-input handling (`fixed = true`) none of the
  modelled panic sites (`features_len - 1` underflow, `&features_bytes[..features_len - 1]`,
  `&record_bytes[..record_end_pos]`) fires, for arbitrary bytes;
* `parseCsv_range` — every returned entry carries `u16` ids and an `i16` cost.
-/
import Vibrato.Proofs.LexCsv
namespace Vibrato.LexCsv.C10
open Vibrato.Csv

/-- Invariant of the `loop` of `parse_csv` relating the manual span accounting
(`record_end_pos`, `features_len`) to the slices it indexes. -/
structure PInv (st : PState) : Prop where
  f0 : st.fieldCnt = 0 → st.recordEndPos = 0 ∧ st.bytes.length ≤ st.recordBytes.length
  f1 : 1 ≤ st.fieldCnt → st.recordBytes.length = st.bytes.length + st.recordEndPos
  f4 : 4 ≤ st.fieldCnt → st.featuresBytes.length = st.bytes.length + st.featuresLen

local macro "pinv_close" : tactic =>
  `(tactic| (refine ⟨fun _ => ⟨?_, ?_⟩, fun _ => ?_, fun _ => ?_⟩ <;>
      simp only [List.length_drop] at * <;> omega))

theorem PInv.init (bytes : List UInt8) : PInv (PState.init bytes) := by
  constructor <;> simp [PState.init]

/-- What `recordTail` needs from the state handed to it. -/
structure TailPre (st : PState) (nin : Nat) (re : Bool) : Prop where
  nin_le : nin ≤ st.bytes.length
  rec_le : st.recordEndPos ≤ st.recordBytes.length
  bytes_le : st.bytes.length ≤ st.recordBytes.length + nin
  cont : st.fieldCnt = 0 → nin = 0 → st.recordEndPos = 0
  rec_eq : re = false → st.recordBytes.length + nin = st.bytes.length + st.recordEndPos
  feat_eq : re = false → 3 ≤ st.fieldCnt →
    st.featuresBytes.length + nin = st.bytes.length + st.featuresLen
  feat_end : re = true → 4 ≤ st.fieldCnt →
    1 ≤ st.featuresLen ∧ st.featuresLen - 1 ≤ st.featuresBytes.length

theorem recordTail_inv {st : PState} {nin : Nat} {re : Bool} (h : TailPre st nin re) :
    (∀ st', recordTail st nin re = .next st' → PInv st') ∧
      recordTail st nin re ≠ .done .panic := by
  obtain ⟨h1, h2, h3, h4, h5, h6, h7⟩ := h
  unfold recordTail
  cases re with
  | false =>
    simp only [Bool.false_eq_true, if_false]
    refine ⟨?_, by simp⟩
    intro st' hst'
    cases hst'
    have := h5 rfl
    have := h6 rfl
    pinv_close
  | true =>
    simp only [if_true]
    have h7 := h7 rfl
    split
    · rename_i hc
      simp only [Bool.and_eq_true, decide_eq_true_eq] at hc
      refine ⟨?_, by simp⟩
      intro st' hst'
      cases hst'
      have := h4 hc.1 hc.2
      pinv_close
    · split
      · split
        · omega
        · simp
      · rename_i hc hc3
        have h7 := h7 (by omega)
        rw [if_neg (by omega), if_neg (by omega)]
        split
        · simp
        · split
          · rw [if_neg (by omega)]
            split
            · simp
            · refine ⟨?_, by simp⟩
              intro st' hst'
              cases hst'
              pinv_close
          · refine ⟨?_, by simp⟩
            intro st' hst'
            cases hst'
            pinv_close

theorem fieldUpdate_spec {st st1 : PState} {nin : Nat} {out : List UInt8}
    (h : fieldUpdate st nin out = some st1) :
    st1.bytes.length = st.bytes.length ∧ st1.fieldCnt = st.fieldCnt ∧
    st1.recordEndPos = st.recordEndPos ∧
    (st.fieldCnt = 0 → st1.recordBytes.length = st.bytes.length) ∧
    (st.fieldCnt ≠ 0 → st1.recordBytes.length = st.recordBytes.length) ∧
    (st.fieldCnt = 3 → st1.featuresBytes.length = st.bytes.length - nin ∧ st1.featuresLen = 0) ∧
    (4 ≤ st.fieldCnt → st1.featuresBytes.length = st.featuresBytes.length ∧
      st1.featuresLen = st.featuresLen + nin) := by
  unfold fieldUpdate at h
  split at h
  · split at h
    · cases h; simp_all
    · cases h
  · split at h
    · split at h
      · simp only [Option.map_eq_some_iff] at h
        obtain ⟨v, _, rfl⟩ := h
        simp_all
      · cases h
    · split at h
      · split at h
        · simp only [Option.map_eq_some_iff] at h
          obtain ⟨v, _, rfl⟩ := h
          simp_all
        · cases h
      · split at h
        · split at h
          · simp only [Option.map_eq_some_iff] at h
            obtain ⟨v, _, rfl⟩ := h
            simp_all
          · cases h
        · cases h
          refine ⟨rfl, rfl, rfl, ?_, ?_, ?_, ?_⟩ <;> intros <;> simp_all

theorem step_inv {st : PState} (h : PInv st) :
    (∀ st', step true st = .next st' → PInv st') ∧ step true st ≠ .done .panic := by
  have hnin := readField_nin_le st.rdr st.bytes outCap
  obtain ⟨h0, h1, h4⟩ := h
  unfold step
  generalize readField st.rdr st.bytes outCap = rf at hnin ⊢
  obtain ⟨result, nin, out, rdr'⟩ := rf
  simp only at hnin ⊢
  cases result with
  | inputEmpty =>
    simp only
    split
    · simp
    · apply recordTail_inv
      constructor <;> simp only <;> intros <;> first | omega | contradiction
  | outputFull => simp
  | end_ => simp
  | field re =>
    simp only
    split
    · simp
    · rename_i st1 hst1
      obtain ⟨e1, e2, e3, e4, e5, e6, e7⟩ := fieldUpdate_spec hst1
      simp only at e1 e2 e3 e4 e5 e6 e7
      apply recordTail_inv
      by_cases hre : (true && re && decide (nin = 0) && decide (st1.fieldCnt ≥ 4)) = true
      · rw [if_pos hre]
        simp only [Bool.true_and, Bool.and_eq_true, decide_eq_true_eq] at hre
        obtain ⟨⟨hre1, hre2⟩, hre3⟩ := hre
        subst hre1
        constructor <;> simp only <;> intros <;> first | omega | contradiction
      · rw [if_neg hre]
        simp only [Bool.true_and, Bool.and_eq_true, decide_eq_true_eq, not_and] at hre
        constructor <;> simp only <;> intros <;> first | omega | contradiction | skip
        rename_i hr h4'
        have : nin ≠ 0 := fun hz => hre ⟨hr, hz⟩ h4'
        omega

theorem parseLoop_ne_panic (fuel : Nat) (st : PState) (h : PInv st) :
    parseLoop true fuel st ≠ some .panic := by
  induction fuel generalizing st with
  | zero => simp [parseLoop]
  | succ n ih =>
    simp only [parseLoop]
    obtain ⟨h1, h2⟩ := step_inv h
    split
    · rename_i st' hs
      exact ih st' (h1 st' hs)
    · rename_i r hs
      intro hr
      cases hr
      exact h2 hs

/-! ### Ranges of the parsed numbers -/

theorem parseU16_le {s : List UInt8} {v : Nat} (h : parseU16 s = some v) : v ≤ 65535 := by
  unfold parseU16 at h
  split at h <;> first | cases h | (simp only [Option.bind_eq_some_iff] at h; grind)

theorem parseI16_range {s : List UInt8} {v : Int} (h : parseI16 s = some v) :
    -32768 ≤ v ∧ v ≤ 32767 := by
  unfold parseI16 at h
  split at h <;> first | cases h | (simp only [Option.bind_eq_some_iff] at h; grind)

/-- `left_id`, `right_id` are `u16`s and `word_cost` is an `i16`. -/
def EntryOK (e : RawEntry) : Prop :=
  e.leftId ≤ 65535 ∧ e.rightId ≤ 65535 ∧ -32768 ≤ e.wordCost ∧ e.wordCost ≤ 32767

structure PRange (st : PState) : Prop where
  l : st.leftId ≤ 65535
  r : st.rightId ≤ 65535
  c : -32768 ≤ st.wordCost ∧ st.wordCost ≤ 32767
  es : ∀ e ∈ st.entries, EntryOK e

theorem PRange.init (bytes : List UInt8) : PRange (PState.init bytes) := by
  constructor <;> simp [PState.init]

theorem fieldUpdate_range {st st1 : PState} {nin : Nat} {out : List UInt8}
    (h : fieldUpdate st nin out = some st1) (hr : PRange st) : PRange st1 := by
  obtain ⟨h1, h2, h3, h4⟩ := hr
  unfold fieldUpdate at h
  split at h
  · split at h
    · cases h; exact ⟨h1, h2, h3, h4⟩
    · cases h
  · split at h
    · split at h
      · simp only [Option.map_eq_some_iff] at h
        obtain ⟨v, hv, rfl⟩ := h
        exact ⟨parseU16_le hv, h2, h3, h4⟩
      · cases h
    · split at h
      · split at h
        · simp only [Option.map_eq_some_iff] at h
          obtain ⟨v, hv, rfl⟩ := h
          exact ⟨h1, parseU16_le hv, h3, h4⟩
        · cases h
      · split at h
        · split at h
          · simp only [Option.map_eq_some_iff] at h
            obtain ⟨v, hv, rfl⟩ := h
            exact ⟨h1, h2, parseI16_range hv, h4⟩
          · cases h
        · cases h
          exact ⟨h1, h2, h3, h4⟩

theorem recordTail_fields {st st' : PState} {nin : Nat} {re : Bool}
    (h : recordTail st nin re = .next st') :
    st'.leftId = st.leftId ∧ st'.rightId = st.rightId ∧ st'.wordCost = st.wordCost ∧
      (st'.entries = st.entries ∨ st'.entries = st.entries ++
        [{ surface := st.surface, leftId := st.leftId, rightId := st.rightId,
           wordCost := st.wordCost,
           feature := st.featuresBytes.take (st.featuresLen - 1) }]) := by
  unfold recordTail at h
  dsimp only at h
  repeat' split at h
  all_goals first | (cases h; done) | (cases h; simp)

theorem recordTail_not_ok {st : PState} {nin : Nat} {re : Bool} (es : List RawEntry) :
    recordTail st nin re ≠ .done (.ok es) := by
  unfold recordTail
  dsimp only
  repeat' split
  all_goals simp

theorem recordTail_range {st : PState} {nin : Nat} {re : Bool} (hr : PRange st) :
    (∀ st', recordTail st nin re = .next st' → PRange st') ∧
      ∀ es, recordTail st nin re = .done (.ok es) → ∀ e ∈ es, EntryOK e := by
  obtain ⟨h1, h2, h3, h4⟩ := hr
  refine ⟨?_, fun es h => absurd h (recordTail_not_ok es)⟩
  intro st' hst'
  obtain ⟨e1, e2, e3, e4⟩ := recordTail_fields hst'
  refine ⟨e1 ▸ h1, e2 ▸ h2, e3 ▸ h3, ?_⟩
  rcases e4 with e4 | e4
  · rw [e4]; exact h4
  · rw [e4]
    intro e he
    simp only [List.mem_append, List.mem_singleton] at he
    rcases he with he | rfl
    · exact h4 e he
    · exact ⟨h1, h2, h3⟩

theorem step_range {fixed : Bool} {st : PState} (hr : PRange st) :
    (∀ st', step fixed st = .next st' → PRange st') ∧
      ∀ es, step fixed st = .done (.ok es) → ∀ e ∈ es, EntryOK e := by
  unfold step
  generalize readField st.rdr st.bytes outCap = rf
  obtain ⟨result, nin, out, rdr'⟩ := rf
  have hr0 : PRange { st with rdr := rdr' } := ⟨hr.l, hr.r, hr.c, hr.es⟩
  cases result with
  | inputEmpty =>
    simp only
    split
    · refine ⟨by simp, ?_⟩
      intro es hes
      cases hes
      exact hr.es
    · apply recordTail_range
      exact ⟨hr.l, hr.r, hr.c, hr.es⟩
  | outputFull => simp
  | end_ =>
    simp only
    refine ⟨by simp, ?_⟩
    intro es hes
    cases hes
    exact hr.es
  | field re =>
    simp only
    split
    · simp
    · rename_i st1 hst1
      have h1 := fieldUpdate_range hst1 hr0
      apply recordTail_range
      split <;> exact ⟨h1.l, h1.r, h1.c, h1.es⟩

theorem parseLoop_range (fixed : Bool) (fuel : Nat) (st : PState) (h : PRange st)
    (es : List RawEntry) (hes : parseLoop fixed fuel st = some (.ok es)) : ∀ e ∈ es, EntryOK e := by
  induction fuel generalizing st with
  | zero => simp [parseLoop] at hes
  | succ n ih =>
    simp only [parseLoop] at hes
    obtain ⟨h1, h2⟩ := step_range (fixed := fixed) h
    split at hes
    · rename_i st' hs
      exact ih st' (h1 st' hs) hes
    · rename_i r hs
      cases hes
      exact h2 es hs

end Vibrato.LexCsv.C10

namespace Vibrato.LexCsv
open Vibrato.Csv C10

/-- **`Lexicon::parse_csv` (repaired) never panics**, whatever the bytes. -/
theorem parseCsv_ne_panic (bytes : List UInt8) : parseCsv true bytes ≠ .panic := by
  unfold parseCsv
  have ht := parseLoop_total true bytes
  have hp := parseLoop_ne_panic (parseFuel bytes) _ (PInv.init bytes)
  cases hr : parseLoop true (parseFuel bytes) (PState.init bytes) with
  | none => rw [hr] at ht; cases ht
  | some r =>
    rw [hr] at hp
    simp only
    intro h; subst h; exact hp rfl

/-- Every entry returned by `parse_csv` carries `u16` ids and an `i16` cost. -/
theorem parseCsv_range {fixed : Bool} {bytes : List UInt8} {es : List RawEntry}
    (h : parseCsv fixed bytes = .ok es) : ∀ e ∈ es, EntryOK e := by
  unfold parseCsv at h
  split at h
  · rename_i r hr
    subst h
    exact parseLoop_range fixed _ _ (PRange.init bytes) es hr
  · cases h
end Vibrato.LexCsv
