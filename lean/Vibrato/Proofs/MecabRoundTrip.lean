/-
Text round trip for property C20: parsing the bytes that `Mecab.generateBigramInfo` writes
(`RawConnector.readLines`, `parseCostLine`, `parseFeatureLine` with the csv-core port) gives back
the structured files (`Mecab.Files`).  Used by `Props/C20e2e.lean`.

A. UTF-8: `readLines (toBytes s)` are the lines of `s` at the level of characters (`charLines`).
B. Numbers: `parseUsize (natToStr n)`, `parseI32 (intToStr i)`.
C. One line of `bigram.cost` / `bigram.right`; the csv row of plain ASCII cells.
D. Whole files: `render_parse_costs`, `render_parse_rows`.
E. `RawConnector::from_readers` succeeds on files that parse (`fromReaders_ok`); a bound for the
   `i32` accumulation (`absSum_rawWs_le`).
F. The files `generate_bigram_info` produces satisfy the side conditions
   (`generated_files_roundtrip_ok`).
Core Lean only.
-/
import Vibrato.Proofs.MecabBridge
import Vibrato.Proofs.CsvQuote
import Vibrato.Driver.Conn

namespace Vibrato.MecabRT

open Vibrato.Extractor (Str natToStr)
open Vibrato.RawConnector (splitLines readLines)

/-! ## A. UTF-8 -/

/-- The UTF-8 bytes of a character list. -/
def encs (s : Str) : List UInt8 := s.flatMap String.utf8EncodeChar

theorem byteArray_toList_loop (bs : ByteArray) (i : Nat) (r : List UInt8) :
    ByteArray.toList.loop bs i r = r.reverse ++ bs.data.toList.drop i := by
  fun_induction ByteArray.toList.loop bs i r with
  | case1 i r hlt ih =>
    rw [ih]
    have hlt' : i < bs.data.toList.length := by
      rw [Array.length_toList, ByteArray.size_data]; exact hlt
    rw [List.drop_eq_getElem_cons hlt']
    have : bs.get! i = bs.data.toList[i] := by
      show bs.data[i]! = _
      rw [getElem!_pos bs.data i (by rw [ByteArray.size_data]; exact hlt)]
      simp
    rw [this]
    simp
  | case2 i r hge =>
    have : bs.data.toList.length ≤ i := by
      rw [Array.length_toList, ByteArray.size_data]; omega
    simp [List.drop_eq_nil_of_le this]

theorem byteArray_toList (bs : ByteArray) : bs.toList = bs.data.toList := by
  simp [ByteArray.toList, byteArray_toList_loop]

theorem mk_toArray_encs (l : Str) : ByteArray.mk (encs l).toArray = l.utf8Encode := by
  have h : (l.utf8Encode).data.toList = encs l := by
    simp [List.utf8Encode, encs]
  cases hb : l.utf8Encode with
  | mk d =>
    rw [hb] at h
    simp only at h
    congr 1
    rw [← h]

theorem fromUTF8_encs (l : Str) :
    String.fromUTF8? (ByteArray.mk (encs l).toArray) = some (String.ofList l) := by
  rw [mk_toArray_encs]
  have hv : l.utf8Encode.IsValidUTF8 := ByteArray.isValidUTF8_utf8Encode
  simp only [String.fromUTF8?, hv, dite_true, Option.some.injEq]
  apply String.toByteArray_inj.mp
  simp [String.fromUTF8]

theorem decode_encs (l : Str) :
    (String.fromUTF8? (ByteArray.mk (encs l).toArray)).map String.toList = some l := by
  rw [fromUTF8_encs]; simp

theorem enc_ascii_byte (c : Char) (b : UInt8) (hb : b ∈ String.utf8EncodeChar c) (h : b.toNat < 128) :
    c.val.toNat = b.toNat ∧ String.utf8EncodeChar c = [b] := by
  unfold String.utf8EncodeChar at hb ⊢
  simp only at hb ⊢
  split at hb
  · rename_i h1
    simp only [List.mem_singleton] at hb
    subst hb
    rw [if_pos h1]
    have : (UInt8.ofNat c.val.toNat).toNat = c.val.toNat % 256 := UInt8.toNat_ofNat'
    exact ⟨by omega, rfl⟩
  · split at hb
    · simp only [List.mem_cons, List.not_mem_nil, or_false] at hb
      rcases hb with rfl | rfl <;> simp [UInt8.toNat_ofNat'] at h <;> omega
    · split at hb
      · simp only [List.mem_cons, List.not_mem_nil, or_false] at hb
        rcases hb with rfl | rfl | rfl <;> simp [UInt8.toNat_ofNat'] at h <;> omega
      · simp only [List.mem_cons, List.not_mem_nil, or_false] at hb
        rcases hb with rfl | rfl | rfl | rfl <;> simp [UInt8.toNat_ofNat'] at h <;> omega

theorem enc_of_ascii (c : Char) (h : c.val.toNat < 128) :
    String.utf8EncodeChar c = [UInt8.ofNat c.val.toNat] := by
  unfold String.utf8EncodeChar
  simp only
  rw [if_pos (by omega)]

theorem char_eq_of_toNat {c d : Char} (h : c.val.toNat = d.val.toNat) : c = d :=
  Char.ext (UInt32.toNat_inj.mp h)

def charLines : Str → Str → List Str
  | [], cur => if cur.isEmpty then [] else [cur.reverse]
  | c :: rest, cur =>
    if c = '\n' then
      (match cur with
       | '\r' :: cur' => cur'.reverse
       | _ => cur.reverse) :: charLines rest []
    else charLines rest (c :: cur)

theorem splitLines_append_no10 (bs rest cur : List UInt8) (h : (10 : UInt8) ∉ bs) :
    splitLines (bs ++ rest) cur = splitLines rest (bs.reverse ++ cur) := by
  induction bs generalizing cur with
  | nil => rfl
  | cons b bs ih =>
    have hb : b ≠ 10 := fun e => h (by simp [e])
    simp only [List.cons_append, splitLines, hb, if_false]
    rw [ih _ (fun hm => h (List.mem_cons_of_mem _ hm))]
    simp

def rencs (cur : Str) : List UInt8 := (encs cur.reverse).reverse

theorem rencs_cons (c : Char) (cur : Str) :
    rencs (c :: cur) = (String.utf8EncodeChar c).reverse ++ rencs cur := by
  simp [rencs, encs]

theorem enc_nl : String.utf8EncodeChar '\n' = [10] := by decide
theorem enc_cr : String.utf8EncodeChar '\r' = [13] := by decide

theorem splitLines_encs (s cur : Str) :
    splitLines (encs s) (rencs cur) = (charLines s cur).map encs := by
  induction s generalizing cur with
  | nil =>
    cases cur with
    | nil => rfl
    | cons d cur' =>
      have hne : rencs (d :: cur') ≠ [] := by
        rw [rencs_cons]
        have := @String.utf8EncodeChar_ne_nil d
        cases h : String.utf8EncodeChar d with
        | nil => exact absurd h this
        | cons x xs => simp
      have : (rencs (d :: cur')).isEmpty = false := by
        cases h : rencs (d :: cur') with
        | nil => exact absurd h hne
        | cons _ _ => rfl
      simp only [encs, List.flatMap_nil, splitLines, this, charLines, List.isEmpty_cons]
      simp [rencs, encs]
  | cons c rest ih =>
    have hsplit : encs (c :: rest) = String.utf8EncodeChar c ++ encs rest := by simp [encs]
    by_cases hc : c = '\n'
    · subst hc
      rw [hsplit, enc_nl]
      simp only [List.cons_append, List.nil_append, splitLines, if_true, charLines, List.map_cons]
      have ih0 := ih []
      simp only [rencs, List.reverse_nil, encs, List.flatMap_nil] at ih0
      rw [show splitLines (encs rest) [] = List.map encs (charLines rest []) from ih0]
      congr 1
      cases cur with
      | nil => rfl
      | cons d cur' =>
        rw [rencs_cons]
        by_cases hd : d = '\r'
        · subst hd
          rw [enc_cr]
          simp [rencs]
        · have hne := @String.utf8EncodeChar_ne_nil d
          cases hrev : (String.utf8EncodeChar d).reverse with
          | nil => simp at hrev
          | cons b tl =>
            have hmem : b ∈ String.utf8EncodeChar d := by
              have : b ∈ (String.utf8EncodeChar d).reverse := by rw [hrev]; simp
              simpa using this
            have hb : b ≠ 13 := by
              intro e
              subst e
              exact hd (char_eq_of_toNat (enc_ascii_byte d 13 hmem (by decide)).1)
            simp only [List.cons_append]
            split
            · rename_i heq; simp at heq; exact absurd heq.1 hb
            · split
              · rename_i heq; simp at heq; exact absurd heq.1 hd
              · rw [← List.cons_append, ← hrev, ← rencs_cons]
                simp [rencs]
    · have h10 : (10 : UInt8) ∉ String.utf8EncodeChar c := by
        intro hm
        exact hc (char_eq_of_toNat (enc_ascii_byte c 10 hm (by decide)).1)
      rw [hsplit, splitLines_append_no10 _ _ _ h10, ← rencs_cons, ih]
      simp [charLines, hc]

theorem toBytes_eq (s : Str) : Mecab.toBytes s = encs s := by
  simp [Mecab.toBytes, byteArray_toList, List.utf8Encode, encs]

/-- **Lines of a written text.**  `BufRead::lines()` on the UTF-8 bytes of `s` yields the
character-level lines of `s`, all of them valid UTF-8. -/
theorem readLines_toBytes (s : Str) :
    readLines (Mecab.toBytes s) = (charLines s []).map some := by
  rw [toBytes_eq]
  unfold readLines
  have := splitLines_encs s []
  simp only [rencs, List.reverse_nil, encs, List.flatMap_nil] at this
  rw [show splitLines (encs s) [] = (charLines s []).map encs from this]
  simp [List.map_map, Function.comp_def, decode_encs]

/-! ## B. Numbers -/

open Vibrato.RawConnector (parseUsize parseI32 digitVal)
open Vibrato.Mecab (intToStr)

theorem isDigit_bounds {c : Char} (h : c.isDigit = true) : 48 ≤ c.toNat ∧ c.toNat ≤ 57 := by
  simp only [Char.isDigit, Bool.and_eq_true, decide_eq_true_eq, ge_iff_le] at h
  have h1 : (48 : UInt32) ≤ c.val := h.1
  have h2 : c.val ≤ (57 : UInt32) := h.2
  rw [UInt32.le_iff_toNat_le] at h1 h2
  exact ⟨h1, h2⟩

theorem digitVal_of_isDigit {c : Char} (h : c.isDigit = true) : digitVal c = some (c.toNat - 48) := by
  have hb := isDigit_bounds h
  unfold digitVal
  rw [if_pos]
  constructor
  · show '0'.val ≤ c.val
    rw [UInt32.le_iff_toNat_le]; exact hb.1
  · show c.val ≤ '9'.val
    rw [UInt32.le_iff_toNat_le]; exact hb.2

theorem digitsVal_digits (s : Str) (hd : ∀ c ∈ s, c.isDigit = true) (acc : Nat) :
    Vibrato.RawConnector.digitsVal s acc = some (Nat.ofDigitChars 10 s acc) := by
  induction s generalizing acc with
  | nil => rfl
  | cons c rest ih =>
    simp only [Vibrato.RawConnector.digitsVal, digitVal_of_isDigit (hd c (by simp))]
    rw [ih (fun x hx => hd x (List.mem_cons_of_mem _ hx))]
    simp [Nat.ofDigitChars, Nat.mul_comm]

theorem natToStr_digits (n : Nat) : ∀ c ∈ natToStr n, c.isDigit = true :=
  fun _ hc => Nat.isDigit_of_mem_toDigits (b := 10) (by omega) (by omega) hc

theorem digitsVal_natToStr (n : Nat) : Vibrato.RawConnector.digitsVal (natToStr n) 0 = some n := by
  rw [digitsVal_digits _ (natToStr_digits n)]
  simp [natToStr, Nat.ofDigitChars_ten_toDigits]

/-- strings whose first char is a digit take the default branch -/
theorem parseUsize_of_digit_head (c : Char) (tl : Str) (hc : c.isDigit = true) :
    parseUsize (c :: tl) = match Vibrato.RawConnector.digitsVal (c :: tl) 0 with
      | some v => if v < 18446744073709551616 then some v else none
      | none => none := by
  have hb := isDigit_bounds hc
  have h1 : c ≠ '+' := by intro e; subst e; revert hc; decide
  have h2 : c ≠ '-' := by intro e; subst e; revert hc; decide
  unfold parseUsize
  split <;> (try simp_all) <;> (cases Vibrato.RawConnector.digitsVal (c :: tl) 0 <;> rfl)

theorem parseUsize_natToStr (n : Nat) (h : n < 18446744073709551616) :
    parseUsize (natToStr n) = some n := by
  have hne := Vibrato.Mecab.natToStr_ne_nil n
  have hd := natToStr_digits n
  have hv := digitsVal_natToStr n
  cases hs : natToStr n with
  | nil => exact absurd hs hne
  | cons c tl =>
    rw [hs] at hd hv
    rw [parseUsize_of_digit_head c tl (hd c (by simp)), hv]
    simp [h]

theorem parseI32_of_digit_head (c : Char) (tl : Str) (hc : c.isDigit = true) :
    parseI32 (c :: tl) = match Vibrato.RawConnector.digitsVal (c :: tl) 0 with
      | some v => if v ≤ 2147483647 then some (v : Int) else none
      | none => none := by
  have h1 : c ≠ '+' := by intro e; subst e; revert hc; decide
  have h2 : c ≠ '-' := by intro e; subst e; revert hc; decide
  unfold parseI32
  split <;> (try simp_all) <;> (cases Vibrato.RawConnector.digitsVal (c :: tl) 0 <;> rfl)

theorem parseI32_intToStr (i : Int) (hlo : -2147483648 ≤ i) (hhi : i ≤ 2147483647) :
    parseI32 (intToStr i) = some i := by
  have hne := Vibrato.Mecab.natToStr_ne_nil i.natAbs
  have hd := natToStr_digits i.natAbs
  have hv := digitsVal_natToStr i.natAbs
  unfold intToStr
  cases hs : natToStr i.natAbs with
  | nil => exact absurd hs hne
  | cons c tl =>
    rw [hs] at hd hv
    split
    · -- negative
      unfold parseI32
      simp only [hv]
      have : i.natAbs ≤ 2147483648 := by omega
      simp [this]
      omega
    · rw [parseI32_of_digit_head c tl (hd c (by simp)), hv]
      have : i.natAbs ≤ 2147483647 := by omega
      simp [this]
      omega

/-! ## C. Single lines -/

open Vibrato.RawConnector (splitOn parseCostLine parseFeatureLine)
open Vibrato.Mecab (renderCost CostLine)

theorem splitOn_no_sep (c : Char) (s : Str) (h : c ∉ s) : splitOn c s = [s] := by
  induction s with
  | nil => rfl
  | cons x xs ih =>
    have hx : x ≠ c := fun e => h (by simp [e])
    simp only [splitOn, ih (fun hm => h (List.mem_cons_of_mem _ hm)), hx, if_false]

theorem splitOn_append_sep (c : Char) (a b : Str) (h : c ∉ a) :
    splitOn c (a ++ c :: b) = a :: splitOn c b := by
  induction a with
  | nil =>
    simp only [List.nil_append, splitOn]
    cases hb : splitOn c b with
    | nil =>
      -- splitOn never returns []
      exfalso
      cases b with
      | nil => simp [splitOn] at hb
      | cons y ys =>
        simp only [splitOn] at hb
        split at hb
        · cases hb
        · split at hb <;> cases hb
    | cons cur rest => simp
  | cons x xs ih =>
    have hx : x ≠ c := fun e => h (by simp [e])
    simp only [List.cons_append, splitOn, ih (fun hm => h (List.mem_cons_of_mem _ hm)), hx, if_false]

theorem intToStr_chars (i : Int) : ∀ c ∈ intToStr i, c = '-' ∨ c.isDigit = true := by
  intro c hc
  unfold intToStr at hc
  split at hc
  · rcases List.mem_cons.mp hc with h | h
    · exact Or.inl h
    · exact Or.inr (natToStr_digits _ c h)
  · exact Or.inr (natToStr_digits _ c hc)

theorem not_digit_tab : ('\t').isDigit = false := by decide
theorem not_digit_slash : ('/').isDigit = false := by decide
theorem not_digit_nl : ('\n').isDigit = false := by decide

theorem tab_notin_intToStr (i : Int) : '\t' ∉ intToStr i := by
  intro h
  rcases intToStr_chars i _ h with h | h
  · revert h; decide
  · revert h; decide

theorem tab_notin_natToStr (n : Nat) : '\t' ∉ natToStr n := by
  intro h; have := natToStr_digits n _ h; revert this; decide

/-- Side condition on one `bigram.cost` entry. -/
def CostOK (e : CostLine) : Prop :=
  ('\t' ∉ e.1 ∧ '\n' ∉ e.1 ∧ '/' ∉ e.1) ∧ ('\t' ∉ e.2.1 ∧ '\n' ∉ e.2.1 ∧ '/' ∉ e.2.1) ∧
  -2147483648 ≤ e.2.2 ∧ e.2.2 ≤ 2147483647

instance (e : CostLine) : Decidable (CostOK e) := by unfold CostOK; infer_instance

/-- The text of a cost line without its `\n`. -/
def costText (e : CostLine) : Str := e.1 ++ '/' :: (e.2.1 ++ '\t' :: intToStr e.2.2)

theorem renderCost_eq (e : CostLine) : renderCost e = costText e ++ ['\n'] := by
  simp [renderCost, costText]

theorem parseCostLine_costText (e : CostLine) (h : CostOK e) : parseCostLine (costText e) = some e := by
  obtain ⟨⟨a1, a2, a3⟩, ⟨b1, b2, b3⟩, hlo, hhi⟩ := h
  obtain ⟨a, b, c⟩ := e
  simp only at a1 a2 a3 b1 b2 b3 hlo hhi
  have e1 : costText (a, b, c) = (a ++ '/' :: b) ++ '\t' :: intToStr c := by simp [costText]
  have hnt : '\t' ∉ a ++ '/' :: b := by
    simp only [List.mem_append, List.mem_cons, not_or]
    exact ⟨a1, by decide, b1⟩
  unfold parseCostLine
  rw [e1, splitOn_append_sep _ _ _ hnt, splitOn_no_sep _ _ (tab_notin_intToStr c)]
  simp only [parseI32_intToStr c hlo hhi]
  rw [splitOn_append_sep _ _ _ a3, splitOn_no_sep _ _ b3]

open Vibrato.Mecab (joinCells cellText)
open Vibrato.LexCsv (parseCsvRowBytes parseCsvRow featInitBytes validUtf8)
open Vibrato.Csv (Cell bom requiresQuotes)

/-- An ASCII cell that needs no quoting. -/
def PlainCell (s : Str) : Prop :=
  ∀ c ∈ s, c.val.toNat < 128 ∧ c ≠ ',' ∧ c ≠ '"' ∧ c ≠ '\r' ∧ c ≠ '\n'

theorem encs_append (a b : Str) : encs (a ++ b) = encs a ++ encs b := by simp [encs]
theorem encs_cons (c : Char) (b : Str) : encs (c :: b) = String.utf8EncodeChar c ++ encs b := by simp [encs]

theorem mem_encs {b : UInt8} {s : Str} (h : b ∈ encs s) : ∃ c ∈ s, b ∈ String.utf8EncodeChar c := by
  simpa [encs] using h

theorem byte_lt_of_ascii {s : Str} (hs : ∀ c ∈ s, c.val.toNat < 128) : ∀ b ∈ encs s, b < 128 := by
  intro b hb
  obtain ⟨c, hc, hbc⟩ := mem_encs hb
  rw [enc_of_ascii c (hs c hc)] at hbc
  simp only [List.mem_singleton] at hbc
  subst hbc
  rw [UInt8.lt_iff_toNat_lt, UInt8.toNat_ofNat']
  have := hs c hc
  show c.val.toNat % 256 < 128
  omega

theorem plain_wf {s : Str} (h : PlainCell s) : (Cell.plain (encs s)).wf = true := by
  simp only [Cell.wf, List.all_eq_true, Bool.not_eq_true']
  intro b hb
  obtain ⟨c, hc, hbc⟩ := mem_encs hb
  obtain ⟨_, n1, n2, n3, n4⟩ := h c hc
  cases hq : requiresQuotes b with
  | false => rfl
  | true =>
    exfalso
    simp only [requiresQuotes, Bool.or_eq_true, decide_eq_true_eq] at hq
    rcases hq with ((hq | hq) | hq) | hq <;> subst hq
    · exact n1 (char_eq_of_toNat (enc_ascii_byte c _ hbc (by decide)).1)
    · exact n2 (char_eq_of_toNat (enc_ascii_byte c _ hbc (by decide)).1)
    · exact n3 (char_eq_of_toNat (enc_ascii_byte c _ hbc (by decide)).1)
    · exact n4 (char_eq_of_toNat (enc_ascii_byte c _ hbc (by decide)).1)

theorem encs_joinCells (init : List Str) (last : Str) :
    encs (joinCells (init ++ [last])) = featInitBytes (init.map fun c => Cell.plain (encs c)) ++ encs last := by
  induction init with
  | nil => simp [joinCells, featInitBytes]
  | cons c cs ih =>
    have : joinCells (c :: cs ++ [last]) = c ++ ',' :: joinCells (cs ++ [last]) := by
      cases cs <;> simp [joinCells]
    rw [this, encs_append, encs_cons, ih]
    have e44 : String.utf8EncodeChar ',' = [44] := by decide
    simp [featInitBytes, e44, Cell.render]

theorem joinCells_ascii (cells : List Str) (h : ∀ c ∈ cells, PlainCell c) :
    ∀ x ∈ joinCells cells, x.val.toNat < 128 := by
  induction cells with
  | nil => intro x hx; simp [joinCells] at hx
  | cons c cs ih =>
    cases cs with
    | nil => intro x hx; simp only [joinCells] at hx; exact (h c (by simp) x hx).1
    | cons d ds =>
      intro x hx
      simp only [joinCells, List.mem_append, List.mem_cons] at hx
      rcases hx with hx | hx | hx
      · exact (h c (by simp) x hx).1
      · subst hx; decide
      · exact ih (fun y hy => h y (List.mem_cons_of_mem _ hy)) x (by simpa [joinCells] using hx)

theorem no_bom_of_ascii {bs : List UInt8} (h : ∀ b ∈ bs, b < 128) : ¬ (bom <+: bs) := by
  intro ⟨t, ht⟩
  have : (0xEF : UInt8) ∈ bs := by rw [← ht]; simp [bom]
  have := h _ this
  revert this; decide

theorem parseCsvRowBytes_joinCells (init : List Str) (last : Str)
    (hi : ∀ c ∈ init, PlainCell c) (hl : PlainCell last) (hne : last ≠ []) :
    parseCsvRowBytes true (encs (joinCells (init ++ [last]))) = .ok ((init ++ [last]).map encs) := by
  have hall : ∀ c ∈ init ++ [last], PlainCell c := by
    intro c hc
    rcases List.mem_append.mp hc with h | h
    · exact hi c h
    · simp only [List.mem_singleton] at h; subst h; exact hl
  have hbom := no_bom_of_ascii (byte_lt_of_ascii (joinCells_ascii _ hall))
  rw [encs_joinCells] at hbom ⊢
  have hlastne : (Cell.plain (encs last)).render ≠ [] := by
    simp only [Cell.render]
    cases last with
    | nil => exact absurd rfl hne
    | cons c tl =>
      rw [encs_cons]
      have := @String.utf8EncodeChar_ne_nil c
      cases h : String.utf8EncodeChar c with
      | nil => exact absurd h this
      | cons _ _ => simp
  have := Vibrato.LexCsv.parse_csv_row_cells_fixed (init.map fun c => Cell.plain (encs c))
    (Cell.plain (encs last)) hbom
    (by
      intro c hc
      obtain ⟨s, hs, rfl⟩ := List.mem_map.mp hc
      exact ⟨plain_wf (hi s hs),
        Vibrato.LexCsv.validUtf8_ascii (byte_lt_of_ascii fun x hx => (hi s hs x hx).1)⟩)
    ⟨plain_wf hl, Vibrato.LexCsv.validUtf8_ascii (byte_lt_of_ascii fun x hx => (hl x hx).1)⟩ hlastne
  simp only [Cell.render] at this
  rw [this]
  simp [List.map_map, Function.comp_def, Cell.value]

theorem mapM_fromUTF8 (cells : List Str) :
    (cells.map encs).mapM (fun c => String.fromUTF8? (ByteArray.mk c.toArray)) =
      some (cells.map String.ofList) := by
  induction cells with
  | nil => rfl
  | cons c cs ih => simp [List.mapM_cons, fromUTF8_encs, ih]

/-- **csv row of plain cells**: the connector's `parse_csv_row` reads a row of comma-joined
unquoted ASCII cells (the last one non-empty) back as those cells. -/
theorem csvRow_joinCells (init : List Str) (last : Str)
    (hi : ∀ c ∈ init, PlainCell c) (hl : PlainCell last) (hne : last ≠ []) :
    Vibrato.Driver.Conn.csvRow (joinCells (init ++ [last])) = .ok (init ++ [last]) := by
  unfold Vibrato.Driver.Conn.csvRow parseCsvRow
  have e : (String.ofList (joinCells (init ++ [last]))).toUTF8.toList = encs (joinCells (init ++ [last])) :=
    toBytes_eq _
  rw [e, parseCsvRowBytes_joinCells init last hi hl hne]
  simp only [mapM_fromUTF8]
  simp [List.map_map, Function.comp_def]

open Vibrato.RawConnector (costEntries featLines)
open Vibrato.Mecab (renderCosts renderRow renderRowsFrom renderRows cellRows toBytes)
open Vibrato.Driver.Conn (csvRow)

/-- Characters of a generated feature row. -/
def RowChar (c : Char) : Prop := c.isDigit = true ∨ c = '*' ∨ c = ','

theorem rowChar_ascii {c : Char} (h : RowChar c) : c.val.toNat < 128 := by
  rcases h with h | h | h
  · have := isDigit_bounds h; show c.toNat < 128; omega
  · subst h; decide
  · subst h; decide

theorem rowChar_ne {c : Char} (h : RowChar c) : c ≠ '\t' ∧ c ≠ '\n' ∧ c ≠ '\r' ∧ c ≠ '"' := by
  refine ⟨?_, ?_, ?_, ?_⟩ <;> intro e <;> subst e <;> rcases h with h | h | h <;> revert h <;> decide

theorem cellText_chars (o : Option Nat) : ∀ c ∈ cellText o, c.isDigit = true ∨ c = '*' := by
  intro c hc
  cases o with
  | none => simp only [cellText, List.mem_singleton] at hc; exact Or.inr hc
  | some n => exact Or.inl (natToStr_digits n c hc)

theorem cellText_ne_nil (o : Option Nat) : cellText o ≠ [] := by
  cases o with
  | none => simp [cellText]
  | some n => exact Vibrato.Mecab.natToStr_ne_nil n

theorem cellText_plain (o : Option Nat) : PlainCell (cellText o) := by
  intro c hc
  have hrc : RowChar c := by
    rcases cellText_chars o c hc with h | h
    · exact Or.inl h
    · exact Or.inr (Or.inl h)
  have hn := rowChar_ne hrc
  refine ⟨rowChar_ascii hrc, ?_, hn.2.2.2, hn.2.2.1, hn.2.1⟩
  intro e; subst e
  rcases cellText_chars o _ hc with h | h
  · revert h; decide
  · revert h; decide

theorem joinCells_chars (cells : List Str) (h : ∀ s ∈ cells, ∀ c ∈ s, RowChar c) :
    ∀ c ∈ joinCells cells, RowChar c := by
  induction cells with
  | nil => intro x hx; simp [joinCells] at hx
  | cons c cs ih =>
    cases cs with
    | nil => intro x hx; simp only [joinCells] at hx; exact h c (by simp) x hx
    | cons d ds =>
      intro x hx
      simp only [joinCells, List.mem_append, List.mem_cons] at hx
      rcases hx with hx | hx | hx
      · exact h c (by simp) x hx
      · exact Or.inr (Or.inr hx)
      · exact ih (fun y hy => h y (List.mem_cons_of_mem _ hy)) x (by simpa [joinCells] using hx)

theorem rowText_chars (row : List (Option Nat)) : ∀ c ∈ joinCells (row.map cellText), RowChar c := by
  apply joinCells_chars
  intro s hs c hc
  obtain ⟨o, _, rfl⟩ := List.mem_map.mp hs
  rcases cellText_chars o c hc with h | h
  · exact Or.inl h
  · exact Or.inr (Or.inl h)

/-- The text of a feature line without its `\n`. -/
def featText (id : Nat) (row : List (Option Nat)) : Str :=
  natToStr id ++ '\t' :: joinCells (row.map cellText)

theorem renderRow_eq (id : Nat) (row : List (Option Nat)) : renderRow id row = featText id row ++ ['\n'] := by
  simp [renderRow, featText]

theorem parseFeatureLine_featText (id : Nat) (row : List (Option Nat))
    (hid : id < 18446744073709551616) (hrow : row ≠ []) :
    parseFeatureLine csvRow (featText id row) = .ok (id, row.map cellText) := by
  have hnt : '\t' ∉ joinCells (row.map cellText) := fun h => (rowChar_ne (rowText_chars row _ h)).1 rfl
  unfold parseFeatureLine featText
  rw [splitOn_append_sep _ _ _ (tab_notin_natToStr id), splitOn_no_sep _ _ hnt]
  simp only [parseUsize_natToStr id hid]
  -- split the row into init ++ [last]
  obtain ⟨init, last, rfl⟩ : ∃ init last, row = init ++ [last] :=
    ⟨row.dropLast, row.getLast hrow, (List.dropLast_concat_getLast hrow).symm⟩
  have : (init ++ [last]).map cellText = init.map cellText ++ [cellText last] := by simp
  rw [this, csvRow_joinCells _ _
    (by intro c hc; obtain ⟨o, _, rfl⟩ := List.mem_map.mp hc; exact cellText_plain o)
    (cellText_plain last) (cellText_ne_nil last)]

/-! ## D. Whole files -/

theorem charLines_append_no_nl (l rest cur : Str) (h : '\n' ∉ l) :
    charLines (l ++ rest) cur = charLines rest (l.reverse ++ cur) := by
  induction l generalizing cur with
  | nil => rfl
  | cons c cs ih =>
    have hc : c ≠ '\n' := fun e => h (by simp [e])
    simp only [List.cons_append, charLines, hc, if_false]
    rw [ih _ (fun hm => h (List.mem_cons_of_mem _ hm))]
    simp

/-- A line as `BufRead::lines` returns it unchanged: no `\n` inside, no `\r` at the end. -/
def LineOK (l : Str) : Prop := '\n' ∉ l ∧ l.reverse.head? ≠ some '\r'

theorem charLines_lines (ls : List Str) (h : ∀ l ∈ ls, LineOK l) :
    charLines (ls.flatMap (· ++ ['\n'])) [] = ls := by
  induction ls with
  | nil => rfl
  | cons l ls ih =>
    obtain ⟨h1, h2⟩ := h l (by simp)
    simp only [List.flatMap_cons, List.append_assoc, List.singleton_append]
    rw [charLines_append_no_nl _ _ _ h1]
    simp only [charLines, if_true, List.append_nil]
    rw [ih (fun x hx => h x (List.mem_cons_of_mem _ hx))]
    congr 1
    split
    · rename_i heq; rw [heq] at h2; simp at h2
    · simp

theorem lineOK_of_suffix (x d : Str) (hx : '\n' ∉ x) (hd : d ≠ []) (h1 : '\n' ∉ d) (h2 : '\r' ∉ d) :
    LineOK (x ++ d) := by
  refine ⟨by simp [hx, h1], ?_⟩
  rw [List.reverse_append]
  cases hr : d.reverse with
  | nil => simp at hr; exact absurd hr hd
  | cons c tl =>
    simp only [List.cons_append, List.head?_cons, ne_eq, Option.some.injEq]
    intro e; subst e
    have : '\r' ∈ d.reverse := by rw [hr]; simp
    exact h2 (by simpa using this)

theorem intToStr_ne_nil (i : Int) : intToStr i ≠ [] := by
  unfold intToStr; split
  · simp
  · exact Vibrato.Mecab.natToStr_ne_nil _

theorem costText_lineOK (e : CostLine) (h : CostOK e) : LineOK (costText e) := by
  obtain ⟨⟨a1, a2, a3⟩, ⟨b1, b2, b3⟩, _, _⟩ := h
  have : costText e = (e.1 ++ '/' :: (e.2.1 ++ ['\t'])) ++ intToStr e.2.2 := by simp [costText]
  rw [this]
  apply lineOK_of_suffix _ _ _ (intToStr_ne_nil _)
  · intro hm
    rcases intToStr_chars _ _ hm with h | h <;> (revert h; decide)
  · intro hm
    rcases intToStr_chars _ _ hm with h | h <;> (revert h; decide)
  · simp only [List.mem_append, List.mem_cons, List.not_mem_nil, or_false, not_or]
    exact ⟨a2, by decide, b2, by decide⟩

theorem featText_lineOK (id : Nat) (row : List (Option Nat)) : LineOK (featText id row) := by
  have hch : ∀ c ∈ featText id row, c ≠ '\n' ∧ c ≠ '\r' := by
    intro c hc
    simp only [featText, List.mem_append, List.mem_cons] at hc
    rcases hc with hc | hc | hc
    · have := natToStr_digits id c hc
      constructor <;> (intro e; subst e; revert this; decide)
    · subst hc; decide
    · have := rowChar_ne (rowText_chars row c hc); exact ⟨this.2.1, this.2.2.1⟩
  refine ⟨fun hm => (hch _ hm).1 rfl, ?_⟩
  intro hh
  have : '\r' ∈ (featText id row).reverse := List.mem_of_mem_head? hh
  exact (hch _ (by simpa using this)).2 rfl

theorem renderCosts_eq (cs : List CostLine) :
    renderCosts cs = (cs.map costText).flatMap (· ++ ['\n']) := by
  simp only [renderCosts, List.flatMap_map]
  congr 1
  funext e
  exact renderCost_eq e

/-- **render_parse_costs.** -/
theorem render_parse_costs (cs : List CostLine) (h : ∀ e ∈ cs, CostOK e) :
    readLines (toBytes (renderCosts cs)) = (cs.map costText).map some ∧
    costEntries (readLines (toBytes (renderCosts cs))) = some cs := by
  have hl : readLines (toBytes (renderCosts cs)) = (cs.map costText).map some := by
    rw [readLines_toBytes, renderCosts_eq, charLines_lines]
    intro l hl
    obtain ⟨e, he, rfl⟩ := List.mem_map.mp hl
    exact costText_lineOK e (h e he)
  refine ⟨hl, ?_⟩
  rw [hl]
  clear hl
  induction cs with
  | nil => rfl
  | cons e cs ih =>
    simp only [List.map_cons, costEntries, parseCostLine_costText e (h e (by simp))]
    rw [ih (fun x hx => h x (List.mem_cons_of_mem _ hx))]
    rfl

/-- The lines of a feature file whose first id is `k`. -/
def featTexts : Nat → List (List (Option Nat)) → List Str
  | _, [] => []
  | k, r :: rs => featText k r :: featTexts (k + 1) rs

theorem renderRowsFrom_eq_lines (k : Nat) (rows : List (List (Option Nat))) :
    renderRowsFrom k rows = (featTexts k rows).flatMap (· ++ ['\n']) := by
  induction rows generalizing k with
  | nil => rfl
  | cons r rs ih => simp [renderRowsFrom, featTexts, renderRow_eq, ih]

theorem featTexts_lineOK (k : Nat) (rows : List (List (Option Nat))) :
    ∀ l ∈ featTexts k rows, LineOK l := by
  induction rows generalizing k with
  | nil => intro l hl; simp [featTexts] at hl
  | cons r rs ih =>
    intro l hl
    simp only [featTexts, List.mem_cons] at hl
    rcases hl with rfl | hl
    · exact featText_lineOK k r
    · exact ih (k + 1) l hl

theorem featLines_featTexts (k : Nat) (rows : List (List (Option Nat)))
    (hlen : k + rows.length < 18446744073709551616) (hne : ∀ r ∈ rows, r ≠ []) :
    featLines csvRow ((featTexts (k + 1) rows).map some) k = some (cellRows rows) := by
  induction rows generalizing k with
  | nil => rfl
  | cons r rs ih =>
    simp only [List.length_cons] at hlen
    simp only [featTexts, List.map_cons, featLines,
      parseFeatureLine_featText (k + 1) r (by omega) (hne r (by simp))]
    rw [ih (k + 1) (by omega) (fun x hx => hne x (List.mem_cons_of_mem _ hx))]
    simp [cellRows]

/-- Side condition on a feature file. -/
def RowsOK (rows : List (List (Option Nat))) : Prop :=
  rows.length < 18446744073709551616 ∧ ∀ r ∈ rows, r ≠ []

/-- **render_parse_rows.** -/
theorem render_parse_rows (rows : List (List (Option Nat))) (h : RowsOK rows) :
    readLines (toBytes (renderRows rows)) = (featTexts 1 rows).map some ∧
    featLines csvRow (readLines (toBytes (renderRows rows))) 0 = some (cellRows rows) := by
  have hl : readLines (toBytes (renderRows rows)) = (featTexts 1 rows).map some := by
    rw [readLines_toBytes, renderRows, renderRowsFrom_eq_lines, charLines_lines _ (featTexts_lineOK 1 rows)]
  refine ⟨hl, ?_⟩
  rw [hl]
  exact featLines_featTexts 0 rows (by have := h.1; omega) h.2

section FromReaders
open Vibrato.Scorer Vibrato.RawConnector

/-! ## E. `from_readers` succeeds on files that parse -/

theorem intern_ok (m : List (List Char)) (s : (List Char)) (h : m.length ≤ INVALID) : ∃ p, intern m s = .ok p := by
  unfold intern
  cases lookupId s m with
  | some i => exact ⟨_, rfl⟩
  | none => simp only [h, if_true]; exact ⟨_, rfl⟩

theorem costLoop_ok : ∀ (lines : List (Option (List Char))) (st : CostState) (es0 es : List ((List Char) × (List Char) × Int)),
    CInv st es0 → costEntries lines = some es → es0.length + es.length + 1 ≤ INVALID →
    ∃ st', costLoop lines st = .ok st' := by
  intro lines
  induction lines with
  | nil => intro st es0 es _ _ _; exact ⟨st, rfl⟩
  | cons l rest ih =>
    intro st es0 es hinv he hlen
    cases l with
    | none => simp [costEntries] at he
    | some line =>
      simp only [costEntries] at he
      cases hp : parseCostLine line with
      | none => rw [hp] at he; cases he
      | some e =>
        rw [hp] at he
        simp only at he
        cases hc : costEntries rest with
        | none => rw [hc] at he; cases he
        | some es1 =>
          rw [hc] at he
          simp only [Option.map_some, Option.some.injEq] at he
          subst he
          simp only [List.length_cons] at hlen
          obtain ⟨⟨rmap, rid⟩, hr⟩ := intern_ok st.rmap e.1 (by have := hinv.rlen; omega)
          obtain ⟨⟨lmap, lid⟩, hl⟩ := intern_ok st.lmap e.2.1 (by have := hinv.llen; omega)
          have hstep : costStep st line = .ok ⟨rmap, lmap, insert st.trie rid lid e.2.2⟩ := by
            unfold costStep
            obtain ⟨a, b, c⟩ := e
            simp only [hp]
            simp only at hr hl
            simp only [hr, hl]
          obtain ⟨e', he', hinv'⟩ := costStep_inv hinv hstep
          rw [hp] at he'
          cases he'
          obtain ⟨st', hst'⟩ := ih _ (es0 ++ [e]) es1 hinv' hc (by simp; omega)
          exact ⟨st', by simp only [costLoop, hstep]; exact hst'⟩

theorem featLoop_ok (csv : (List Char) → Scorer.Outcome (List (List Char))) (m : List (List Char)) :
    ∀ (lines : List (Option (List Char))) (i : Nat) (fss : List (List (List Char))), featLines csv lines i = some fss →
    ∀ K rows, ∃ r, featLoop csv m lines i K rows = .ok r := by
  intro lines
  induction lines with
  | nil => intro i fss _ K rows; exact ⟨_, rfl⟩
  | cons l rest ih =>
    intro i fss h K rows
    cases l with
    | none => simp [featLines] at h
    | some line =>
      simp only [featLines] at h
      cases hp : parseFeatureLine csv line with
      | err => rw [hp] at h; cases h
      | panic => rw [hp] at h; cases h
      | ok pr =>
        obtain ⟨id, feats⟩ := pr
        rw [hp] at h
        simp only at h
        split at h
        · cases h
        · rename_i hid
          cases hc : featLines csv rest (i + 1) with
          | none => rw [hc] at h; cases h
          | some f1 =>
            obtain ⟨r, hr⟩ := ih (i + 1) f1 hc (max K feats.length) (rows ++ [feats.map (featId m)])
            exact ⟨r, by simp only [featLoop, hp, hid, if_false]; exact hr⟩

theorem builder_ok (csv : (List Char) → Scorer.Outcome (List (List Char))) (right left cost : List (Option (List Char)))
    (es : List ((List Char) × (List Char) × Int)) (rfs lfs : List (List (List Char)))
    (h1 : costEntries cost = some es) (hn : es.length + 1 ≤ INVALID)
    (h2 : featLines csv right 0 = some rfs) (h3 : featLines csv left 0 = some lfs) :
    ∃ b, builderFromReaders csv right left cost = .ok b := by
  obtain ⟨st, hst⟩ := costLoop_ok cost _ [] es cinv_init h1 (by simpa using hn)
  obtain ⟨⟨rrows, K1⟩, hr⟩ := featLoop_ok csv st.rmap right 0 rfs h2 0 []
  obtain ⟨⟨lrows, K2⟩, hl⟩ := featLoop_ok csv st.lmap left 0 lfs h3 K1 []
  exact ⟨⟨rrows, lrows, K2, st.trie⟩, by simp only [builderFromReaders, hst, hr, hl]⟩

theorem paddedSize_ne_zero {K : Nat} (h : K ≠ 0) : paddedSize K ≠ 0 := by
  have := le_paddedSize K; omega

/-- `RawConnector::from_readers` succeeds when the three files parse, there are fewer than
`2^31 - 2` cost lines, at least one feature template, and the double-array build does not
overflow `u32` (`buildChecked`). -/
theorem fromReaders_ok (fixed : Bool) (csv : (List Char) → Scorer.Outcome (List (List Char))) (right left cost : List (Option (List Char)))
    (es : List ((List Char) × (List Char) × Int)) (rfs lfs : List (List (List Char)))
    (h1 : costEntries cost = some es) (hn : es.length + 1 ≤ INVALID)
    (h2 : featLines csv right 0 = some rfs) (h3 : featLines csv left 0 = some lfs)
    (hK : templateCount rfs lfs ≠ 0)
    (hb : ∀ b, builderFromReaders csv right left cost = .ok b → buildChecked b.trie ≠ .panic) :
    ∃ conn, fromReaders fixed csv right left cost = .ok conn := by
  obtain ⟨b, hbd⟩ := builder_ok csv right left cost es rfs lfs h1 hn h2 h3
  obtain ⟨st, es', rfs', lfs', _, e1, e2, e3, _, _, eK, _⟩ := builder_spec hbd
  rw [h2] at e2; rw [h3] at e3
  cases e2; cases e3
  have hK' : paddedSize b.K ≠ 0 := paddedSize_ne_zero (by rw [eK]; exact hK)
  have hbc := hb b hbd
  unfold fromReaders
  simp only [hbd, hK', if_false]
  cases hs : buildChecked b.trie with
  | ok s => exact ⟨_, rfl⟩
  | panic => exact absurd hs hbc
  | err =>
    unfold buildChecked at hs
    simp only at hs
    split at hs <;> cases hs
/-! ### A bound for the `i32` accumulation -/

theorem tableOpt_natAbs_le {es : List ((List Char) × (List Char) × Int)} {M : Nat} (hM : ∀ e ∈ es, e.2.2.natAbs ≤ M)
    {a b : (List Char)} {c : Int} (h : tableOpt es a b = some c) : c.natAbs ≤ M := by
  induction es with
  | nil => simp [tableOpt] at h
  | cons e rest ih =>
    simp only [tableOpt] at h
    split at h
    · rename_i c' hc'
      cases h
      exact ih (fun x hx => hM x (List.mem_cons_of_mem _ hx)) hc'
    · split at h
      · cases h; exact hM e (by simp)
      · cases h

theorem pairCost_natAbs_le {es : List ((List Char) × (List Char) × Int)} {M : Nat} (hM : ∀ e ∈ es, e.2.2.natAbs ≤ M)
    (oa ob : Option (List Char)) : (pairCost es oa ob).natAbs ≤ M := by
  unfold pairCost
  cases h : pairOpt es oa ob with
  | none => simp
  | some c =>
    cases oa <;> cases ob <;> simp only [pairOpt] at h <;> try cases h
    simpa using tableOpt_natAbs_le hM h

theorem absSum_zipWith_le {α β : Type} (f : α → β → Int) (M : Nat) (hf : ∀ a b, (f a b).natAbs ≤ M) :
    ∀ (l1 : List α) (l2 : List β), absSum (List.zipWith f l1 l2) ≤ l1.length * M := by
  intro l1
  induction l1 with
  | nil => intro l2; simp [absSum]
  | cons a l1 ih =>
    intro l2
    cases l2 with
    | nil => simp [absSum]
    | cons b l2 =>
      simp only [List.zipWith_cons_cons, absSum, List.length_cons, Nat.succ_mul]
      have := ih l2
      have := hf a b
      omega

/-- For a non-zero right id the lane costs are bounded by `#templates · max|cost|`. -/
theorem absSum_rawWs_le (fixed : Bool) (es : List ((List Char) × (List Char) × Int)) (rfs lfs : List (List (List Char)))
    (r l M : Nat) (hM : ∀ e ∈ es, e.2.2.natAbs ≤ M) (hr : r ≤ rfs.length) (hr0 : r ≠ 0) :
    absSum (rawWs fixed es rfs lfs r l) ≤ templateCount rfs lfs * M := by
  unfold rawWs templateCount
  simp only
  rw [absSum_append, absSum_replicate]
  have hpad : pairCost es (padOpt fixed r) (padOpt fixed l) = 0 := by
    simp [padOpt, hr0, pairCost, pairOpt]
  rw [hpad]
  have := absSum_zipWith_le (pairCost es) M (pairCost_natAbs_le hM)
    (specRow rfs (max (maxLen rfs) (maxLen lfs)) r) (specRow lfs (max (maxLen rfs) (maxLen lfs)) l)
  rw [specRow_length rfs _ (by omega) r hr] at this
  simpa using this
end FromReaders

section Generated
open Vibrato.Extractor Vibrato.Mecab

/-! ## F. The files `generate_bigram_info` produces satisfy the side conditions -/

theorem idEntry_le {l : Option Str} {i : Nat} {cells : List Str} (h : idEntry l = some (i, cells)) :
    i ≤ usizeMax := by
  unfold idEntry at h
  split at h
  · cases h
  · split at h
    · cases h
    · split at h
      · cases h
      · rename_i hle
        split at h
        · split at h
          · cases h
          · simp only [Option.some.injEq, Prod.mk.injEq] at h
            omega
        · cases h

theorem lastCells_le : ∀ (lines : List (Option Str)) (id : Nat) (cells : List Str),
    lastCells lines id = some cells → id ≤ usizeMax := by
  intro lines
  induction lines with
  | nil => intro id cells h; simp [lastCells] at h
  | cons l rest ih =>
    intro id cells h
    simp only [lastCells] at h
    split at h
    · rename_i c hc; exact ih id c hc
    · split at h
      · rename_i i cs he
        split at h
        · rename_i hi; subst hi; exact idEntry_le he
        · cases h
      · cases h

theorem costOf_range (w cf : Float) : -2147483648 ≤ costOf w cf ∧ costOf w cf ≤ 2147483647 := by
  unfold costOf
  have h1 := Int32.le_toInt (-(w * cf)).toInt32
  have h2 := Int32.toInt_lt (-(w * cf)).toInt32
  constructor <;> omega

theorem rawStep_range {cf : Float} {line : Str} {e : CostLine} (h : rawStep cf line = some (some e)) :
    -2147483648 ≤ e.2.2 ∧ e.2.2 ≤ 2147483647 := by
  unfold rawStep at h
  split at h
  · cases h
  · split at h
    · cases h
    · simp only at h
      split at h
      · cases h
      · split at h
        · simp only [Option.some.injEq] at h
          subst h
          exact costOf_range _ _
        · cases h

theorem rawEntries_range (cf : Float) : ∀ (lines : List (Option Str)) (entries : List CostLine),
    rawEntries cf lines = some entries → ∀ e ∈ entries, -2147483648 ≤ e.2.2 ∧ e.2.2 ≤ 2147483647 := by
  intro lines
  induction lines with
  | nil => intro entries h e he; simp [rawEntries] at h; subst h; simp at he
  | cons l rest ih =>
    intro entries h e he
    cases l with
    | none => simp [rawEntries] at h
    | some line =>
      simp only [rawEntries] at h
      cases hs : rawStep cf line with
      | none => rw [hs] at h; cases h
      | some o =>
        cases o with
        | none => rw [hs] at h; exact ih entries h e he
        | some e0 =>
          rw [hs] at h
          simp only at h
          cases hr : rawEntries cf rest with
          | none => rw [hr] at h; cases h
          | some es =>
            rw [hr] at h
            simp only [Option.map_some, Option.some.injEq] at h
            subst h
            rcases List.mem_cons.mp he with rfl | he
            · exact rawStep_range hs
            · exact ih es hr e he

theorem idText_chars {m : IdMap} {s x : Str} (h : idText m s = some x) : ∀ c ∈ x, c.isDigit = true := by
  simp only [idText] at h
  split at h
  · cases h; intro c hc; simp at hc
  · cases hl : lookup m s with
    | none => simp [hl] at h
    | some i =>
      simp only [hl, Option.map_some, Option.some.injEq] at h
      subst h; exact natToStr_digits i

theorem digits_textOK {x : Str} (h : ∀ c ∈ x, c.isDigit = true) : '\t' ∉ x ∧ '\n' ∉ x ∧ '/' ∉ x := by
  refine ⟨?_, ?_, ?_⟩ <;> intro hm <;> have := h _ hm <;> revert this <;> decide

/-- **generated_files_roundtrip_ok.**  Whatever `generate_bigram_info` produces satisfies the side
conditions of the round-trip theorems: fewer than `2^64` rows per id file (every id passed
`parse::<usize>`), every row has exactly one cell per `BIGRAM` template of `feature.def`, and
every `bigram.cost` line consists of two decimal ids (or empty texts) and an `i32`. -/
theorem generated_files_roundtrip_ok (fixed : Bool) (fd rd ld md : List UInt8) (cf : Float) (f : Files)
    (h : generateFiles fixed fd rd ld md cf = .ok f) :
    ∃ (u : List Str) (b : List (Str × Str)), featureConfigTemplates fd = some (u, b) ∧
      f.right.length < 18446744073709551616 ∧ f.left.length < 18446744073709551616 ∧
      (∀ row ∈ f.right, row.length = b.length) ∧ (∀ row ∈ f.left, row.length = b.length) ∧
      (∀ e ∈ f.cost, CostOK e) := by
  obtain ⟨u, b, st, entries, h1, hst, hTL, hTR, hR, hL, h5, h6, _, _, _, _, _⟩ :=
    generate_spec fixed fd rd ld md cf f h
  obtain ⟨lenL, _⟩ := parseTemplates_get .L _ _ hTL
  obtain ⟨lenR, _⟩ := parseTemplates_get .R _ _ hTR
  simp only [List.length_map] at lenL lenR
  refine ⟨u, b, h1, ?_, ?_, ?_, ?_, ?_⟩
  · cases hn : f.right.length with
    | zero => decide
    | succ n =>
      obtain ⟨c, hc, _⟩ := hR n (by omega)
      have := lastCells_le _ _ _ hc
      simp only [usizeMax] at this; omega
  · cases hn : f.left.length with
    | zero => decide
    | succ n =>
      obtain ⟨c, hc, _⟩ := hL n (by omega)
      have := lastCells_le _ _ _ hc
      simp only [usizeMax] at this; omega
  · intro row hrow
    obtain ⟨i, hi, hget⟩ := List.getElem_of_mem hrow
    obtain ⟨c, _, hr, _⟩ := hR i hi
    rw [List.getElem?_eq_getElem hi, hget] at hr
    cases hr
    simp [rowOf, lenL]
  · intro row hrow
    obtain ⟨i, hi, hget⟩ := List.getElem_of_mem hrow
    obtain ⟨c, _, hr, _⟩ := hL i hi
    rw [List.getElem?_eq_getElem hi, hget] at hr
    cases hr
    simp [rowOf, lenR]
  · intro e' he'
    rw [h6] at he'
    obtain ⟨e, he, ht⟩ := List.mem_filterMap.mp he'
    obtain ⟨k1, k2, k3⟩ := translate_keys ht
    have hr := rawEntries_range cf _ _ h5 e he
    exact ⟨digits_textOK (idText_chars k1), digits_textOK (idText_chars k2), by rw [k3]; exact hr.1,
      by rw [k3]; exact hr.2⟩
end Generated

end Vibrato.MecabRT
