/-
Re-spacing (property C12), part 4: from the lattice simulation to the observable token
sequence of `tokenize`.
-/
import Vibrato.Proofs.RespacePos

namespace Vibrato

/-- What a caller can observe of one token except its position: surface characters,
lexicon type, word id, left/right connection id, word cost, accumulated (total) cost. -/
def obsTok (s : List Nat) (t : Tok) : List Nat × Nat × Nat × Nat × Nat × Int × Int :=
  ((s.drop t.startWord).take (t.endWord - t.startWord), t.node.lexType, t.node.wordId,
    t.node.leftId, t.node.rightId, t.node.wordCost, t.node.minCost)

/-- Observation of a tokenization result (`none` = panic). -/
def obs (s : List Nat) (r : Option (List Tok)) :
    Option (List (List Nat × Nat × Nat × Nat × Nat × Int × Int)) :=
  r.map (List.map (obsTok s))

theorem shiftNode_fields (E' : LatEnv) (φ : Nat → Nat) (n : Node) :
    (shiftNode E' φ n).lexType = n.lexType ∧ (shiftNode E' φ n).wordId = n.wordId ∧
    (shiftNode E' φ n).leftId = n.leftId ∧ (shiftNode E' φ n).rightId = n.rightId ∧
    (shiftNode E' φ n).wordCost = n.wordCost ∧ (shiftNode E' φ n).minCost = n.minCost := by
  unfold shiftNode; split <;> simp

section

variable {D : TokDict} {sp : Nat}

/-- The word of a candidate offered at a good start node: it lies inside the sentence, consists
of non-space characters only, and reads the same in the re-spaced sentence at the
corresponding boundaries. -/
theorem respace_surface (h : SpacePre D sp) (mg : Option Nat) (s s' : List Nat)
    (H : segments (isSpC D sp) s = segments (isSpC D sp) s') (p : Nat) (hp : goodB (isSpC D sp) s p)
    (hd : ¬ doneAt (envOf D sp mg s) p) (c : Cand)
    (hc : c ∈ (envOf D sp mg s).cands (p + (envOf D sp mg s).skip p)) :
    p + (envOf D sp mg s).skip p < c.endWord ∧ c.endWord ≤ s.length ∧
    (s'.drop (phiOf (isSpC D sp) s s' p + (envOf D sp mg s').skip (phiOf (isSpC D sp) s s' p))).take
        (phiOf (isSpC D sp) s s' c.endWord -
          (phiOf (isSpC D sp) s s' p + (envOf D sp mg s').skip (phiOf (isSpC D sp) s s' p))) =
      (s.drop (p + (envOf D sp mg s).skip p)).take (c.endWord - (p + (envOf D sp mg s).skip p)) ∧
    ∀ i, p + (envOf D sp mg s).skip p ≤ i → i < c.endWord →
      ∃ x, s[i]? = some x ∧ isSpC D sp x = false := by
  obtain ⟨seg, rest, rest', hne, hseg, hr, hr', hdec, hdec'⟩ := respace_pic h mg s s' H p hp hd
  have hple := goodB_le _ s p hp
  have hphile : phiOf (isSpC D sp) s s' p ≤ s'.length := posOf_le _ _ _
  obtain ⟨k, hk1, hk2, hke, _⟩ := env_cand_end h mg s p hple seg rest hdec hne hseg hr c hc
  obtain ⟨hsd, hslen, _⟩ := env_local h mg s p hple seg rest hdec hne hseg hr
  obtain ⟨hsd', _, _⟩ := env_local h mg s' _ hphile seg rest' hdec' hne hseg hr'
  obtain ⟨_, hoff⟩ := respace_off h mg s s' p hp hd seg rest rest' hne hseg hdec hdec' k hk1 hk2
  rw [hke, hoff, hsd, hsd']
  refine ⟨by omega, by omega, ?_, ?_⟩
  · have e1 : ∀ a : Nat, a + k - a = k := fun a => by omega
    rw [e1, e1, List.take_append, List.take_append]
    have : k - seg.length = 0 := by omega
    rw [this]; simp
  · intro i h1 h2
    refine ⟨seg[i - (p + (envOf D sp mg s).skip p)], ?_, hseg _ (List.getElem_mem _)⟩
    have := getElem?_of_drop s _ seg rest hsd (i - (p + (envOf D sp mg s).skip p)) (by omega)
    rw [← this]; congr 1; omega

/-- `tokenize` on a non-empty sentence is the token list of the lattice -/
theorem tokenize_ne_nil (D : TokDict) (o : TokOpts) (s : List Nat) (hs : s ≠ []) :
    tokenize D o s = tokensOf (buildLattice (latEnvOf D (compileSent D s) o)) := by
  unfold tokenize
  cases s with
  | nil => exact absurd rfl hs
  | cons c t => rfl

/-- If nothing is left after the skip at boundary 0, there are no tokens. -/
theorem tokenize_done_zero (D : TokDict) (o : TokOpts) (s : List Nat)
    (hd : doneAt (latEnvOf D (compileSent D s) o) 0) : tokenize D o s = some [] := by
  by_cases hs : s = []
  · subst hs; rfl
  · rw [tokenize_ne_nil D o s hs]
    unfold tokensOf topNodes buildLattice
    rw [buildLoop_done _ _ 0 hd (by rw [endsAt_resetEnds_zero]; simp)]
    simp only [eosNode]
    rw [walkBack]; simp

/-- when all adjacent category sets intersect, the first run covers the whole text -/
theorem groupables_all_linked (cs : List Nat) (hne : cs ≠ [])
    (hl : ∀ i, ∀ a b, cs[i]? = some a → cs[i + 1]? = some b → a &&& b ≠ 0) :
    (groupables cs).headD 0 = cs.length := by
  induction cs with
  | nil => exact absurd rfl hne
  | cons c t ih =>
    cases t with
    | nil => rfl
    | cons d r =>
      have h0 := hl 0 c d (by simp) (by simp)
      have := ih (by simp) (fun i a b ha hb => hl (i + 1) a b (by simpa using ha) (by simpa using hb))
      simp only [groupables, h0, ne_eq, not_false_eq_true, if_true, List.headD_cons, this, List.length_cons]

theorem and_ne_zero_of_bit (a b i : Nat) (ha : a &&& 2 ^ i ≠ 0) (hb : b &&& 2 ^ i ≠ 0) : a &&& b ≠ 0 := by
  have key : ∀ x : Nat, x &&& 2 ^ i ≠ 0 → x.testBit i = true := by
    intro x hx
    apply Classical.byContradiction; intro hn
    apply hx
    apply Nat.eq_of_testBit_eq
    intro j
    simp only [Nat.testBit_and, Nat.testBit_two_pow, Nat.zero_testBit, Bool.and_eq_false_iff,
      decide_eq_false_iff_not]
    by_cases hij : i = j
    · subst hij; left; simpa using hn
    · right; exact hij
  intro h0
  have := Nat.testBit_and a b i
  rw [h0] at this; simp [key a ha, key b hb] at this

/-- With a single-bit space mask (what `ignore_space` always sets: `1 << cate_id`), a sentence
of SPACE characters only is skipped as a whole, whatever other categories they have. -/
theorem done_zero_of_all_space_bit (D : TokDict) (i : Nat) (mg : Option Nat) (s : List Nat)
    (hall : ∀ c ∈ s, (D.charInfo c).cateSet &&& 2 ^ i ≠ 0) :
    doneAt (latEnvOf D (compileSent D s) ⟨some (2 ^ i), mg⟩) 0 := by
  unfold doneAt
  show s.length ≤ 0 + skipAt (compileSent D s) ⟨some (2 ^ i), mg⟩ 0
  cases s with
  | nil => simp
  | cons c t =>
    have hc := hall c (by simp)
    unfold skipAt
    simp only
    rw [cinfo_getD D (c :: t) 0 (by simp)]
    simp only [List.getElem_cons_zero, hc, ne_eq, not_false_eq_true, if_true]
    have : (compileSent D (c :: t)).groupable.getD 0 0 = (c :: t).length := by
      simp only [compileSent, List.map_map]
      rw [groupables_getD, List.drop_zero, groupables_all_linked _ (by simp)]
      · simp
      · intro j a b ha hb
        simp only [List.getElem?_map, Option.map_eq_some_iff] at ha hb
        obtain ⟨x, hx, rfl⟩ := ha
        obtain ⟨y, hy, rfl⟩ := hb
        exact and_ne_zero_of_bit _ _ i (hall x (List.mem_of_getElem? hx)) (hall y (List.mem_of_getElem? hy))
    rw [this]; omega

end

end Vibrato
