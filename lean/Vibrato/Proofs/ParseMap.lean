/-
`parseMap` of `Model/Dict.lean` (`ConnIdMapper::parse`): a successful parse yields a table of
`|m| + 1` pairwise distinct entries, all smaller than the table length, with entry 0 equal to 0.
(The full characterisation of the accepted iterators is `Props/C06map.lean: parse_ok_iff` for the
twin model in `Model/Mapper.lean`; here only what the tokenization theorems need.)
-/
import Vibrato.Model.Dict

namespace Vibrato

/-- the loop body of `parseMap` -/
def pmStep (n : Nat) (acc : Option (List (Option Nat))) (p : Nat × Nat) :
    Option (List (Option Nat)) := do
  let a ← acc
  let (old, i) := p
  if old ≥ n then none
  else match a.getD old none with
    | some _ => none
    | none => if i + 1 > 65535 then none else pure (a.set old (some (i + 1)))

theorem parseMap_unfold (m : List Nat) : parseMap m =
    if m.any (· == 0) then none
    else ((m.zipIdx.foldl (pmStep (m.length + 1))
      (some (some 0 :: List.replicate m.length none))).bind fun a => a.mapM id) := rfl

theorem foldl_pmStep_none (n : Nat) (l : List (Nat × Nat)) : l.foldl (pmStep n) none = none := by
  induction l with
  | nil => rfl
  | cons x xs ih => simp only [List.foldl_cons]; exact ih

/-- invariant of the loop after `k` items -/
structure PMInv (n : Nat) (a : List (Option Nat)) (k : Nat) : Prop where
  len : a.length = n
  zero : a[0]? = some (some 0)
  le : ∀ (j v : Nat), a[j]? = some (some v) → v ≤ k
  inj : ∀ (j j' v : Nat), a[j]? = some (some v) → a[j']? = some (some v) → j = j'

theorem pmStep_inv {n : Nat} {a a' : List (Option Nat)} {k old : Nat} (h : PMInv n a k)
    (hs : pmStep n (some a) (old, k) = some a') : PMInv n a' (k + 1) := by
  simp only [pmStep, Option.bind_eq_bind, Option.bind_some] at hs
  split at hs
  · cases hs
  · rename_i hlt
    split at hs
    · cases hs
    · rename_i hnone
      split at hs
      · cases hs
      · simp only [Option.pure_def, Option.some.injEq] at hs
        subst hs
        have hold : old < a.length := by rw [h.len]; omega
        have hget : a[old]? = some none := by
          rw [List.getD_eq_getElem?_getD, List.getElem?_eq_getElem hold] at hnone
          rw [List.getElem?_eq_getElem hold]
          simpa using hnone
        have hne0 : old ≠ 0 := by
          intro h0; rw [h0, h.zero] at hget; cases hget
        refine ⟨by simp [h.len], ?_, ?_, ?_⟩
        · rw [List.getElem?_set]; simp [hne0, h.zero]
        · intro j v hj
          rw [List.getElem?_set] at hj
          split at hj
          · simp only [Option.some.injEq] at hj; omega
          · have := h.le j v hj; omega
        · intro j j' v hj hj'
          rw [List.getElem?_set] at hj hj'
          split at hj <;> split at hj'
          · omega
          · simp only [Option.some.injEq] at hj
            have := h.le j' v hj'; omega
          · simp only [Option.some.injEq] at hj'
            have := h.le j v hj; omega
          · exact h.inj j j' v hj hj'

theorem foldl_pmStep_inv (n : Nat) : ∀ (m : List Nat) (k : Nat) (a a' : List (Option Nat)),
    PMInv n a k → (m.zipIdx k).foldl (pmStep n) (some a) = some a' → PMInv n a' (k + m.length)
  | [], k, a, a', h, hs => by
    simp only [List.zipIdx_nil, List.foldl_nil, Option.some.injEq] at hs
    subst hs; simpa using h
  | x :: xs, k, a, a', h, hs => by
    simp only [List.zipIdx_cons, List.foldl_cons] at hs
    cases h1 : pmStep n (some a) (x, k) with
    | none => rw [h1, foldl_pmStep_none] at hs; cases hs
    | some a1 =>
      rw [h1] at hs
      have := foldl_pmStep_inv n xs (k + 1) a1 a' (pmStep_inv h h1) hs
      simp only [List.length_cons]
      have e : k + (xs.length + 1) = k + 1 + xs.length := by omega
      rw [e]; exact this

theorem mapM_id_eq_some : ∀ (a : List (Option Nat)) (σ : List Nat), a.mapM id = some σ → a = σ.map some
  | [], σ, h => by
    simp only [List.mapM_nil, Option.pure_def, Option.some.injEq] at h
    subst h; rfl
  | x :: xs, σ, h => by
    simp only [List.mapM_cons, id_eq, Option.pure_def, Option.bind_eq_bind] at h
    cases x with
    | none => simp at h
    | some v =>
      cases h1 : xs.mapM id with
      | none => rw [h1] at h; simp at h
      | some τ =>
        rw [h1] at h
        simp only [Option.bind_some, Option.some.injEq] at h
        subst h
        rw [mapM_id_eq_some xs τ h1]; rfl

/-- A parsed mapping table: `|m| + 1` distinct entries below the length, entry 0 is 0. -/
structure IsTable (σ : List Nat) : Prop where
  pos : 0 < σ.length
  zero : σ[0]? = some 0
  nodup : σ.Nodup
  lt : ∀ x ∈ σ, x < σ.length

theorem parseMap_table (m σ : List Nat) (h : parseMap m = some σ) :
    IsTable σ ∧ σ.length = m.length + 1 := by
  rw [parseMap_unfold] at h
  split at h
  · cases h
  · cases hf : m.zipIdx.foldl (pmStep (m.length + 1)) (some (some 0 :: List.replicate m.length none)) with
    | none => rw [hf] at h; cases h
    | some a =>
      rw [hf] at h
      simp only [Option.bind_some] at h
      have h0 : PMInv (m.length + 1) (some 0 :: List.replicate m.length none) 0 := by
        refine ⟨by simp, by simp, ?_, ?_⟩
        · intro j v hj
          cases j with
          | zero => simp at hj; omega
          | succ j =>
            simp only [List.getElem?_cons_succ, List.getElem?_replicate] at hj
            split at hj <;> cases hj
        · intro j j' v hj hj'
          cases j with
          | zero =>
            cases j' with
            | zero => rfl
            | succ j' =>
              simp only [List.getElem?_cons_succ, List.getElem?_replicate] at hj'
              split at hj' <;> cases hj'
          | succ j =>
            simp only [List.getElem?_cons_succ, List.getElem?_replicate] at hj
            split at hj <;> cases hj
      have hinv := foldl_pmStep_inv (m.length + 1) m 0 _ a h0 hf
      have ha := mapM_id_eq_some a σ h
      subst ha
      have hlen : σ.length = m.length + 1 := by simpa using hinv.len
      have hget : ∀ j (hj : j < σ.length), (σ.map some)[j]? = some (some σ[j]) := by
        intro j hj; simp [hj]
      refine ⟨⟨by omega, ?_, ?_, ?_⟩, hlen⟩
      · have := hinv.zero
        simp only [List.getElem?_map] at this
        cases h0' : σ[0]? with
        | none => rw [h0'] at this; cases this
        | some v => rw [h0'] at this; simp at this; rw [this]
      · unfold List.Nodup
        rw [List.pairwise_iff_getElem]
        intro i j hi hj hij heq
        have := hinv.inj i j σ[i] (hget i hi) (by rw [heq]; exact hget j hj)
        omega
      · intro x hx
        obtain ⟨j, hj, rfl⟩ := List.getElem_of_mem hx
        have := hinv.le j σ[j] (hget j hj)
        omega

theorem IsTable.getD_lt {σ : List Nat} (h : IsTable σ) (i : Nat) (hi : i < σ.length) :
    σ.getD i 0 < σ.length := by
  rw [List.getD_eq_getElem?_getD, List.getElem?_eq_getElem hi]
  exact h.lt _ (List.getElem_mem hi)

theorem IsTable.getD_zero {σ : List Nat} (h : IsTable σ) : σ.getD 0 0 = 0 := by
  rw [List.getD_eq_getElem?_getD, h.zero]; rfl

theorem IsTable.idxOf_getD {σ : List Nat} (h : IsTable σ) (i : Nat) (hi : i < σ.length) :
    σ.idxOf (σ.getD i 0) = i := by
  rw [List.getD_eq_getElem?_getD, List.getElem?_eq_getElem hi]
  exact h.nodup.idxOf_getElem i hi

end Vibrato
