/-
Helper lemmas for `computeProbs` (C13, statistics part).  Core Lean only.
-/
import Vibrato.Proofs.Mapper

namespace Vibrato.Mapper
open Outcome

/-! ### The comparator is a total preorder -/

theorem probLe_total (a b : Nat × Nat) : probLe a b = false → probLe b a = true := by
  unfold probLe
  intro h
  simp only [Bool.or_eq_false_iff, decide_eq_false_iff_not, Bool.and_eq_false_iff,
    beq_eq_false_iff_ne] at h
  simp only [Bool.or_eq_true, decide_eq_true_eq, Bool.and_eq_true, beq_iff_eq]
  omega

theorem probLe_trans (a b c : Nat × Nat) : probLe a b = true → probLe b c = true →
    probLe a c = true := by
  unfold probLe
  simp only [Bool.or_eq_true, decide_eq_true_eq, Bool.and_eq_true, beq_iff_eq]
  omega

/-! ### Insertion sort -/

theorem insertSorted_perm (x : Nat × Nat) (l : List (Nat × Nat)) :
    (insertSorted x l).Perm (x :: l) := by
  induction l with
  | nil => exact List.Perm.refl _
  | cons y ys ih =>
    simp only [insertSorted]
    split
    · exact List.Perm.refl _
    · exact (List.Perm.cons y ih).trans (List.Perm.swap x y ys)

theorem sortProbs_perm (l : List (Nat × Nat)) : (sortProbs l).Perm l := by
  induction l with
  | nil => exact List.Perm.refl _
  | cons x xs ih =>
    simp only [sortProbs]
    exact (insertSorted_perm x _).trans (List.Perm.cons x ih)

theorem insertSorted_sorted (x : Nat × Nat) (l : List (Nat × Nat))
    (h : l.Pairwise (fun a b => probLe a b = true)) :
    (insertSorted x l).Pairwise (fun a b => probLe a b = true) := by
  induction l with
  | nil => simp [insertSorted]
  | cons y ys ih =>
    have hy := List.pairwise_cons.1 h
    simp only [insertSorted]
    split
    · rename_i hxy
      refine List.pairwise_cons.2 ⟨?_, h⟩
      intro z hz
      rcases List.mem_cons.1 hz with hz | hz
      · subst hz; exact hxy
      · exact probLe_trans _ _ _ hxy (hy.1 z hz)
    · rename_i hxy
      have hyx : probLe y x = true := probLe_total x y (by simpa using hxy)
      refine List.pairwise_cons.2 ⟨?_, ih hy.2⟩
      intro z hz
      have : z ∈ x :: ys := (List.Perm.mem_iff (insertSorted_perm x ys)).1 hz
      rcases List.mem_cons.1 this with hz | hz
      · subst hz; exact hyx
      · exact hy.1 z hz

theorem sortProbs_sorted (l : List (Nat × Nat)) :
    (sortProbs l).Pairwise (fun a b => probLe a b = true) := by
  induction l with
  | nil => simp [sortProbs]
  | cons x xs ih => exact insertSorted_sorted x _ ih

/-! ### Enumeration -/

theorem enumFrom_map_fst (i : Nat) (cs : List Nat) :
    (enumFrom i cs).map Prod.fst = List.range' i cs.length := by
  induction cs generalizing i with
  | nil => rfl
  | cons c cs ih => simp [enumFrom, ih, List.range'_succ]

theorem enumFrom_mem (i : Nat) (cs : List Nat) (p : Nat × Nat) (hp : p ∈ enumFrom i cs) :
    i ≤ p.1 ∧ cs[p.1 - i]? = some p.2 := by
  induction cs generalizing i with
  | nil => cases hp
  | cons c cs ih =>
    simp only [enumFrom] at hp
    rcases List.mem_cons.1 hp with h | h
    · subst h; simp
    · obtain ⟨h1, h2⟩ := ih (i + 1) h
      refine ⟨by omega, ?_⟩
      have : p.1 - i = (p.1 - (i + 1)) + 1 := by omega
      rw [this, List.getElem?_cons_succ]
      exact h2

/-- Count of an id (0 outside the counter). -/
def cntOf (counts : List Nat) (i : Nat) : Nat := counts[i]?.getD 0

/-- The order the statistics must have: non-increasing count, ties by ascending id. -/
def Before (counts : List Nat) (a b : Nat) : Prop :=
  cntOf counts b < cntOf counts a ∨ (cntOf counts a = cntOf counts b ∧ a < b)

instance (counts : List Nat) (a b : Nat) : Decidable (Before counts a b) := by
  unfold Before; infer_instance

theorem probsSide_spec (counts : List Nat) :
    (counts = [] → probsSide counts = .panic) ∧
    (counts ≠ [] → ∃ ids, probsSide counts = .ok ids ∧
      ids.Perm (List.range' 1 (counts.length - 1)) ∧ ids.Pairwise (Before counts)) := by
  constructor
  · intro h; subst h; rfl
  · intro hne
    cases counts with
    | nil => exact absurd rfl hne
    | cons c cs =>
      refine ⟨(sortProbs (enumFrom 1 cs)).map Prod.fst, rfl, ?_, ?_⟩
      · have := (sortProbs_perm (enumFrom 1 cs)).map Prod.fst
        rw [enumFrom_map_fst] at this
        simpa using this
      · have hperm := (sortProbs_perm (enumFrom 1 cs)).map Prod.fst
        rw [enumFrom_map_fst] at hperm
        have hnd : ((sortProbs (enumFrom 1 cs)).map Prod.fst).Nodup :=
          (List.Perm.nodup_iff hperm).2 List.nodup_range'
        rw [List.nodup_iff_pairwise_ne, List.pairwise_map] at hnd
        rw [List.pairwise_map]
        have hs := sortProbs_sorted (enumFrom 1 cs)
        have hboth := List.Pairwise.and hs hnd
        apply List.Pairwise.imp_of_mem _ hboth
        intro a b ha hb ⟨hle, hneq⟩
        have ha' := enumFrom_mem 1 cs a ((List.Perm.mem_iff (sortProbs_perm _)).1 ha)
        have hb' := enumFrom_mem 1 cs b ((List.Perm.mem_iff (sortProbs_perm _)).1 hb)
        have ca : cntOf (c :: cs) a.1 = a.2 := by
          unfold cntOf
          have : a.1 = (a.1 - 1) + 1 := by omega
          rw [this, List.getElem?_cons_succ, ha'.2]; rfl
        have cb : cntOf (c :: cs) b.1 = b.2 := by
          unfold cntOf
          have : b.1 = (b.1 - 1) + 1 := by omega
          rw [this, List.getElem?_cons_succ, hb'.2]; rfl
        unfold Before
        rw [ca, cb]
        unfold probLe at hle
        simp only [Bool.or_eq_true, decide_eq_true_eq, Bool.and_eq_true, beq_iff_eq] at hle
        omega

theorem probsSide_accepted (counts ids : List Nat) (hlen : counts.length ≤ 65536)
    (h : probsSide counts = .ok ids) : ∃ σ, parseMap ids = .ok σ ∧ IsInvTable ids σ ∧
      ids.length + 1 = counts.length := by
  have hne : counts ≠ [] := by
    intro hh
    rw [(probsSide_spec counts).1 hh] at h
    cases h
  obtain ⟨ids', h1, h2, _⟩ := (probsSide_spec counts).2 hne
  rw [h] at h1
  cases h1
  have hl : ids.length = counts.length - 1 := by
    have := h2.length_eq; simpa using this
  have hpos : 0 < counts.length := List.length_pos_iff.2 hne
  have hp : IsPerm1 ids := by
    unfold IsPerm1
    rw [hl]; exact h2
  obtain ⟨σ, hσ, hi⟩ := parseMap_ok_of_perm ids hp (by omega)
  exact ⟨σ, hσ, hi, by omega⟩

end Vibrato.Mapper
