/-
C10 helpers, part 3: the dictionary builders of `Model/Dict.lean`
(`buildMatrixDict`, `DictM.resetUser`, `DictM.mapIds`) and the well-formedness predicate
`DictWF` they establish and preserve.
-/
import Vibrato.Proofs.Builders
import Vibrato.Proofs.BuildersCsv
import Vibrato.Proofs.TokenizerEnv

namespace Vibrato

/-- an `i16` -/
def I16 (x : Int) : Prop := -32768 ≤ x ∧ x ≤ 32767

/-- Connection ids inside the connector, word cost an `i16`. -/
def ParamOK (numLeft numRight : Nat) (p : WordParam) : Prop :=
  p.leftId < numLeft ∧ p.rightId < numRight ∧ I16 p.wordCost

/-- A lexicon whose ids are inside the connector and whose feature table is as long as its
entry table. -/
def LexWF (numLeft numRight : Nat) (L : LexM) : Prop :=
  (∀ e ∈ L.entries, ParamOK numLeft numRight e.param) ∧ L.features.length = L.entries.length

/-- A compiled character table: every entry names a defined primary category which is a
member of its category set, the set only has bits of defined categories, and the fields fit
the packed `CharInfo` word. -/
def CharsWF (P : CharProp) : Prop :=
  P.names.length ≤ CATE_IDSET_BITS ∧ ∀ c, C10.InfoOK P.names.length (P.entry c)

/-- **Well-formed dictionary**: what the builders guarantee and the tokenizer relies on. -/
structure DictWF (D : DictM) : Prop where
  conn_len : D.conn.length = D.numRight * D.numLeft
  conn_i16 : ∀ x ∈ D.conn, I16 x
  sys_ok : LexWF D.numLeft D.numRight D.sys
  sys_ne : D.sys.entries ≠ []
  user_ok : ∀ u, D.user = some u → LexWF D.numLeft D.numRight u
  unk_ok : ∀ e ∈ D.unk, ParamOK D.numLeft D.numRight e.param ∧ e.cateId < D.chars.names.length
  mapper_ok : ∀ ml mr, D.mapper = some (ml, mr) →
    ml.length = D.numLeft ∧ mr.length = D.numRight ∧
      (∀ x ∈ ml, x < D.numLeft) ∧ (∀ x ∈ mr, x < D.numRight)
  chars_ok : CharsWF D.chars

namespace C10

/-! ### List helpers -/

theorem mapM_some_spec {α β : Type} {f : α → Option β} {l : List α} {out : List β}
    (h : l.mapM f = some out) :
    out.length = l.length ∧ ∀ (i : Nat) (b : β), out[i]? = some b →
      ∃ a, l[i]? = some a ∧ f a = some b := by
  induction l generalizing out with
  | nil => simp at h; subst h; simp
  | cons a l ih =>
    simp only [List.mapM_cons, Option.bind_eq_bind, Option.bind_eq_some_iff, Option.pure_def,
      Option.some.injEq] at h
    obtain ⟨b, hb, bs, hbs, rfl⟩ := h
    obtain ⟨i1, i2⟩ := ih hbs
    refine ⟨by simp [i1], ?_⟩
    intro i b' hi
    cases i with
    | zero => simp at hi; subst hi; exact ⟨a, by simp, hb⟩
    | succ j => simp at hi ⊢; exact i2 j b' hi

theorem mapM_some_mem {α β : Type} {f : α → Option β} {l : List α} {out : List β}
    (h : l.mapM f = some out) : ∀ b ∈ out, ∃ a ∈ l, f a = some b := by
  intro b hb
  obtain ⟨i, hi, rfl⟩ := List.mem_iff_getElem.mp hb
  obtain ⟨a, ha, hfa⟩ := (mapM_some_spec h).2 i out[i] (by simp [hi])
  exact ⟨a, List.mem_of_getElem? ha, hfa⟩

theorem mapM_isSome {α β : Type} {f : α → Option β} {l : List α}
    (h : ∀ a ∈ l, ∃ b, f a = some b) : ∃ out, l.mapM f = some out := by
  induction l with
  | nil => exact ⟨[], by simp⟩
  | cons a l ih =>
    obtain ⟨b, hb⟩ := h a (by simp)
    obtain ⟨bs, hbs⟩ := ih fun a ha => h a (by simp [ha])
    exact ⟨b :: bs, by simp [List.mapM_cons, hb, hbs]⟩

theorem length_flatMap_const {α β : Type} (l : List α) (f : α → List β) (k : Nat)
    (h : ∀ a ∈ l, (f a).length = k) : (l.flatMap f).length = l.length * k := by
  induction l with
  | nil => simp
  | cons a l ih =>
    simp only [List.flatMap_cons, List.length_append, List.length_cons]
    rw [ih fun a ha => h a (by simp [ha]), h a (by simp), Nat.add_mul, Nat.one_mul, Nat.add_comm]

theorem paramsInRange_iff (ps : List WordParam) (nl nr : Nat) :
    paramsInRange ps nl nr = true ↔ ∀ p ∈ ps, p.leftId < nl ∧ p.rightId < nr := by
  simp [paramsInRange]

/-! ### lexicon rows -/

/-- a CSV row with `u16` ids and an `i16` cost -/
def RowOK (r : SimpleCsv.Row) : Prop := r.left ≤ 65535 ∧ r.right ≤ 65535 ∧ I16 r.cost

theorem parseLexCsv_ne_panic (bytes : List UInt8) : parseLexCsv Fixes.all bytes ≠ .panic := by
  unfold parseLexCsv
  have := LexCsv.parseCsv_ne_panic bytes
  simp only [Fixes.all]
  split
  · simp
  · simp
  · rename_i h; exact absurd h this

theorem parseLexCsv_rows {fx : Fixes} {bytes : List UInt8} {rows : List SimpleCsv.Row}
    (h : parseLexCsv fx bytes = .ok rows) : ∀ r ∈ rows, RowOK r := by
  unfold parseLexCsv at h
  split at h
  · rename_i es hes
    cases h
    intro r hr
    simp only [List.mem_map] at hr
    obtain ⟨e, he, rfl⟩ := hr
    obtain ⟨h1, h2, h3, h4⟩ := LexCsv.parseCsv_range hes e he
    exact ⟨h1, h2, h3, h4⟩
  · cases h
  · cases h

theorem lexOfRows_spec {rows : List SimpleCsv.Row} {L : LexM} (h : lexOfRows rows = some L) :
    L.features.length = L.entries.length ∧ L.entries ≠ [] ∧
      ∀ e ∈ L.entries, ∃ r ∈ rows, e.param = ⟨r.left, r.right, r.cost⟩ := by
  unfold lexOfRows at h
  simp only [Option.bind_eq_bind, Option.bind_eq_some_iff, Option.pure_def] at h
  obtain ⟨es, hes, h⟩ := h
  split at h
  · cases h
  · rename_i hne
    split at h
    · cases h
    · cases h
      have h1 := mapM_some_spec hes
      refine ⟨by simp [h1.1], by simpa using hne, ?_⟩
      intro e he
      obtain ⟨r, hr, hre⟩ := mapM_some_mem hes e he
      simp only [Option.bind_eq_some_iff, Option.some.injEq] at hre
      obtain ⟨cps, _, rfl⟩ := hre
      exact ⟨r, hr, rfl⟩

theorem lexWF_of_rows {rows : List SimpleCsv.Row} {L : LexM} {nl nr : Nat}
    (hrows : ∀ r ∈ rows, RowOK r) (h : lexOfRows rows = some L)
    (hp : paramsInRange (L.entries.map (·.param)) nl nr = true) : LexWF nl nr L := by
  obtain ⟨h1, _, h2⟩ := lexOfRows_spec h
  refine ⟨?_, h1⟩
  intro e he
  obtain ⟨r, hr, hre⟩ := h2 e he
  have := (paramsInRange_iff _ _ _).1 hp e.param (List.mem_map.mpr ⟨e, he, rfl⟩)
  refine ⟨this.1, this.2, ?_⟩
  rw [hre]
  exact (hrows r hr).2.2

theorem unkOfRows_spec {P : CharProp} {rows : List SimpleCsv.Row} {U : List UnkEntryM}
    (h : unkOfRows P rows = some U) :
    ∀ e ∈ U, e.cateId < P.names.length ∧ ∃ r ∈ rows, e.param = ⟨r.left, r.right, r.cost⟩ := by
  unfold unkOfRows at h
  simp only [Option.bind_eq_bind, Option.bind_eq_some_iff, Option.pure_def, Option.some.injEq] at h
  obtain ⟨es, hes, rfl⟩ := h
  intro e he
  simp only [List.mem_flatMap, List.mem_range, List.mem_filter, beq_iff_eq] at he
  obtain ⟨c, hc, hees, hce⟩ := he
  refine ⟨by omega, ?_⟩
  obtain ⟨r, hr, hre⟩ := mapM_some_mem hes e hees
  simp only [Option.bind_eq_some_iff, Option.some.injEq] at hre
  obtain ⟨_, _, _, _, rfl⟩ := hre
  exact ⟨r, hr, rfl⟩


/-! ### char.def → `CharsWF` -/

theorem charsWF_of_parse {bytes : List UInt8} {P : CharProp} (h : CharDef.parse bytes = .ok P) :
    CharsWF P := by
  obtain ⟨st, _, hok, hn, hd, hlen, hrs⟩ := chardef_parse_ok h
  have hnl : P.names.length = st.names.length := by simp [hn]
  refine ⟨hnl ▸ hok.names_le, ?_⟩
  intro c
  rw [hnl]
  unfold CharProp.entry
  split
  · rename_i r hr
    have hmem := List.mem_of_find?_eq_some hr
    simp only [List.mem_reverse] at hmem
    obtain ⟨i, hi, hri⟩ := List.mem_iff_getElem.mp hmem
    have hi' : i < (rangeLines bytes).length := hlen ▸ hi
    obtain ⟨ci, hci, hpi⟩ := hrs i (rangeLines bytes)[i] (by simp [hi'])
    have : P.ranges[i]? = some r := by simp [hi, hri]
    rw [this] at hpi
    cases hpi
    exact ((encodeCateInfo_spec st _).2 ci hci).2.2.2 hok
  · exact ((encodeCateInfo_spec st _).2 _ hd).2.2.2 hok

theorem charInfo_ok {P : CharProp} (h : CharsWF P) (c : Nat) :
    InfoOK P.names.length (P.charInfo c) := by
  unfold CharProp.charInfo
  split
  · exact h.2 c
  · exact h.2 0

/-! ### `SystemDictionaryBuilder::from_readers` -/

theorem cost_i16_of_data {M : Matrix} (h : ∀ x ∈ M.data, I16 x) (r l : Nat) : I16 (M.cost r l) := by
  unfold Matrix.cost Matrix.cost?
  cases hx : M.data[l * M.numRight + r]? with
  | none => simp [I16]
  | some x => exact h x (List.mem_of_getElem? hx)

theorem buildMatrixDict_ne_panic (lex matrix chardef unk : List UInt8) :
    buildMatrixDict Fixes.all lex matrix chardef unk ≠ .panic := by
  unfold buildMatrixDict
  split
  · simp
  · rename_i h; exact absurd h (parseLexCsv_ne_panic lex)
  · split
    · simp
    · rename_i h; exact absurd h (matrix_parse_spec matrix).1
    · split
      · simp
      · rename_i h; exact absurd h (chardef_parse_ne_panic chardef)
      · split
        · simp
        · rename_i h; exact absurd h (parseLexCsv_ne_panic unk)
        · split
          · simp
          · split
            · simp
            · split
              · simp
              · split <;> simp

theorem buildMatrixDict_wf {fx : Fixes} {lex matrix chardef unk : List UInt8} {D : DictM}
    (h : buildMatrixDict fx lex matrix chardef unk = .ok D) :
    DictWF D ∧ D.user = none ∧ D.mapper = none ∧ D.numLeft ≤ 65535 ∧ D.numRight ≤ 65535 := by
  unfold buildMatrixDict at h
  split at h
  · cases h
  · cases h
  · rename_i lrows hl
    split at h
    · cases h
    · cases h
    · rename_i M hM
      split at h
      · cases h
      · cases h
      · rename_i P hP
        split at h
        · cases h
        · cases h
        · rename_i urows hu
          split at h
          · cases h
          · rename_i U hU
            split at h
            · cases h
            · rename_i L hL
              split at h
              · cases h
              · rename_i hp1
                split at h
                · cases h
                · rename_i hp2
                  cases h
                  simp only [Bool.not_eq_true, Bool.not_eq_false] at hp1 hp2
                  obtain ⟨m1, m2, m3, m4⟩ := (matrix_parse_spec matrix).2 M hM
                  refine ⟨⟨?_, ?_, ?_, (lexOfRows_spec hL).2.1, ?_, ?_, ?_, ?_⟩, rfl, rfl, m3, m2⟩
                  · dsimp only
                    rw [length_flatMap_const _ _ M.numLeft (by simp)]
                    simp
                  · dsimp only
                    intro x hx
                    simp only [List.mem_flatMap, List.mem_range, List.mem_map] at hx
                    obtain ⟨r, _, l, _, rfl⟩ := hx
                    exact cost_i16_of_data m4 r l
                  · exact lexWF_of_rows (parseLexCsv_rows hl) hL hp1
                  · intro u hu; cases hu
                  · dsimp only
                    intro e he
                    obtain ⟨u1, r, hr, hre⟩ := unkOfRows_spec hU e he
                    have := (paramsInRange_iff _ _ _).1 hp2 e.param (List.mem_map.mpr ⟨e, he, rfl⟩)
                    refine ⟨⟨this.1, this.2, ?_⟩, u1⟩
                    rw [hre]
                    exact (parseLexCsv_rows hu r hr).2.2
                  · intro ml mr hm; cases hm
                  · exact charsWF_of_parse hP


/-! ### `ConnIdMapper::parse` -/

/-- the loop body of `parseMap` -/
def pmStep (n : Nat) (acc : Option (List (Option Nat))) (p : Nat × Nat) :
    Option (List (Option Nat)) := do
  let a ← acc
  let (old, i) := p
  if old ≥ n then none
  else match a.getD old none with
    | some _ => none
    | none => if i + 1 > 65535 then none else pure (a.set old (some (i + 1)))

theorem pmFold_none (n : Nat) (ps : List (Nat × Nat)) : ps.foldl (pmStep n) none = none := by
  induction ps with
  | nil => rfl
  | cons p ps ih => simpa [pmStep] using ih

theorem pmFold_spec (n k : Nat) (ps : List (Nat × Nat)) (a out : List (Option Nat))
    (hps : ∀ p ∈ ps, p.2 + 1 < k)
    (h : ps.foldl (pmStep n) (some a) = some out) :
    out.length = a.length ∧ ((∀ v, some v ∈ a → v < k) → ∀ v, some v ∈ out → v < k) := by
  induction ps generalizing a with
  | nil => simp only [List.foldl_nil, Option.some.injEq] at h; subst h; exact ⟨rfl, id⟩
  | cons p ps ih =>
    simp only [List.foldl_cons] at h
    cases hs : pmStep n (some a) p with
    | none => rw [hs, pmFold_none] at h; cases h
    | some a' =>
      rw [hs] at h
      obtain ⟨i1, i2⟩ := ih a' (fun q hq => hps q (by simp [hq])) h
      have hp := hps p (by simp)
      obtain ⟨old, i⟩ := p
      simp only [pmStep, Option.bind_eq_bind, Option.bind_some, ge_iff_le, Option.pure_def] at hs
      split at hs
      · cases hs
      · split at hs
        · cases hs
        · split at hs
          · cases hs
          · cases hs
            refine ⟨by simpa using i1, ?_⟩
            intro ha
            apply i2
            intro v hv
            rcases List.mem_or_eq_of_mem_set hv with hv | hv
            · exact ha v hv
            · cases hv; exact hp

/-- An accepted mapping is a table over `0 ..= m.length` whose values are again such ids. -/
theorem parseMap_spec {m ml : List Nat} (h : parseMap m = some ml) :
    ml.length = m.length + 1 ∧ ∀ x ∈ ml, x < ml.length := by
  unfold parseMap at h
  split at h
  · cases h
  · dsimp only at h
    simp only [Option.bind_eq_some_iff] at h
    obtain ⟨a, ha, hml⟩ := h
    have ha' : m.zipIdx.foldl (pmStep (m.length + 1))
        (some (some 0 :: List.replicate m.length none)) = some a := ha
    obtain ⟨h1, h2⟩ := pmFold_spec (m.length + 1) (m.length + 1) m.zipIdx _ a (by
      intro p hp
      have := List.mem_zipIdx hp
      simp at this
      omega) ha'
    have hlen := (mapM_some_spec hml).1
    simp only [List.length_cons, List.length_replicate] at h1
    refine ⟨by omega, ?_⟩
    intro x hx
    obtain ⟨o, ho, hox⟩ := mapM_some_mem hml x hx
    simp only [id] at hox
    subst hox
    have := h2 (by
      intro v hv
      simp only [List.mem_cons, Option.some.injEq, List.mem_replicate] at hv
      rcases hv with rfl | ⟨_, hv⟩
      · omega
      · cases hv) x ho
    omega

/-! ### mapping parameters -/

theorem mapParam_some {ml mr : List Nat} {p : WordParam}
    (hl : p.leftId < ml.length) (hr : p.rightId < mr.length) :
    mapParam ml mr p = some { p with leftId := ml[p.leftId], rightId := mr[p.rightId] } := by
  simp [mapParam, List.getElem?_eq_getElem hl, List.getElem?_eq_getElem hr]

theorem mapParam_ok {ml mr : List Nat} {p q : WordParam} {nl nr : Nat}
    (hml : ∀ x ∈ ml, x < nl) (hmr : ∀ x ∈ mr, x < nr) (hp : I16 p.wordCost)
    (h : mapParam ml mr p = some q) : ParamOK nl nr q := by
  simp only [mapParam, Option.bind_eq_bind, Option.bind_eq_some_iff, Option.pure_def,
    Option.some.injEq] at h
  obtain ⟨l, hl, r, hr, rfl⟩ := h
  exact ⟨hml l (List.mem_of_getElem? hl), hmr r (List.mem_of_getElem? hr), hp⟩

theorem mapLex_isSome {ml mr : List Nat} {L : LexM}
    (h : ∀ e ∈ L.entries, e.param.leftId < ml.length ∧ e.param.rightId < mr.length) :
    ∃ L', mapLex ml mr L = some L' := by
  have hex : ∀ e ∈ L.entries, ∃ b, (do
      let p ← mapParam ml mr e.param
      pure ({ e with param := p } : LexEntry)) = some b := by
    intro e he
    obtain ⟨h1, h2⟩ := h e he
    rw [mapParam_some h1 h2]
    exact ⟨_, rfl⟩
  obtain ⟨es, hes⟩ := mapM_isSome hex
  refine ⟨{ L with entries := es }, ?_⟩
  unfold mapLex
  rw [hes]
  rfl

theorem mapLex_spec {ml mr : List Nat} {L L' : LexM} (h : mapLex ml mr L = some L') :
    L'.features = L.features ∧ L'.entries.length = L.entries.length ∧
      ∀ e' ∈ L'.entries, ∃ e ∈ L.entries, mapParam ml mr e.param = some e'.param ∧
        e'.surface = e.surface := by
  simp only [mapLex, Option.bind_eq_bind, Option.bind_eq_some_iff, Option.pure_def,
    Option.some.injEq] at h
  obtain ⟨es, hes, rfl⟩ := h
  refine ⟨rfl, (mapM_some_spec hes).1, ?_⟩
  intro e' he'
  obtain ⟨e, he, hee⟩ := mapM_some_mem hes e' he'
  simp only [Option.bind_eq_some_iff, Option.some.injEq] at hee
  obtain ⟨p, hp, rfl⟩ := hee
  exact ⟨e, he, hp, rfl⟩

theorem mapLex_wf {ml mr : List Nat} {L L' : LexM} {nl nr nl' nr' : Nat}
    (hml : ∀ x ∈ ml, x < nl') (hmr : ∀ x ∈ mr, x < nr') (hL : LexWF nl nr L)
    (h : mapLex ml mr L = some L') : LexWF nl' nr' L' := by
  obtain ⟨h1, h2, h3⟩ := mapLex_spec h
  refine ⟨?_, by rw [h1, h2]; exact hL.2⟩
  intro e' he'
  obtain ⟨e, he, hp, _⟩ := h3 e' he'
  exact mapParam_ok hml hmr (hL.1 e he).2.2 hp


/-! ### `map_connection_ids_from_iter` -/

theorem cost_i16 {D : DictM} (h : ∀ x ∈ D.conn, I16 x) (r l : Nat) : I16 (D.cost r l) := by
  unfold DictM.cost
  rw [List.getD_eq_getElem?_getD]
  cases hx : D.conn[r * D.numLeft + l]? with
  | none => simp [I16]
  | some x => exact h x (List.mem_of_getElem? hx)

theorem lexWF_in_range {nl nr : Nat} {L : LexM} (h : LexWF nl nr L) {ml mr : List Nat}
    (hl : ml.length = nl) (hr : mr.length = nr) :
    ∀ e ∈ L.entries, e.param.leftId < ml.length ∧ e.param.rightId < mr.length := by
  intro e he
  have := h.1 e he
  exact ⟨hl ▸ this.1, hr ▸ this.2.1⟩

theorem mapIds_spec {D : DictM} (hD : DictWF D) (lmap rmap : List Nat) :
    D.mapIds Fixes.all lmap rmap ≠ .panic ∧
      ∀ D', D.mapIds Fixes.all lmap rmap = .ok D' →
        DictWF D' ∧ D'.numLeft = D.numLeft ∧ D'.numRight = D.numRight ∧ D'.chars = D.chars := by
  unfold DictM.mapIds
  split
  · rename_i ml mr hml hmr
    obtain ⟨l1, l2⟩ := parseMap_spec hml
    obtain ⟨r1, r2⟩ := parseMap_spec hmr
    simp only [Fixes.all, true_and]
    split
    · simp
    · rename_i hlen
      have hlen' : ml.length = D.numLeft ∧ mr.length = D.numRight := by
        constructor
        · apply Classical.byContradiction; intro hc; exact hlen (Or.inl hc)
        · apply Classical.byContradiction; intro hc; exact hlen (Or.inr hc)
      obtain ⟨hL, hR⟩ := hlen'
      have hmlv : ∀ x ∈ ml, x < D.numLeft := fun x hx => hL ▸ l2 x hx
      have hmrv : ∀ x ∈ mr, x < D.numRight := fun x hx => hR ▸ r2 x hx
      split
      · rename_i hnone
        obtain ⟨L', hL'⟩ := mapLex_isSome (lexWF_in_range hD.sys_ok hL hR)
        rw [hL'] at hnone; cases hnone
      · rename_i sys' hsys
        split
        · rename_i hnone
          exfalso
          cases hu : D.user with
          | none => rw [hu] at hnone; cases hnone
          | some u =>
            rw [hu] at hnone
            obtain ⟨L', hL'⟩ := mapLex_isSome (lexWF_in_range (hD.user_ok u hu) hL hR)
            simp [hL'] at hnone
        · rename_i user' huser
          split
          · rename_i hnone
            exfalso
            obtain ⟨out, hout⟩ := mapM_isSome (f := fun e : UnkEntryM =>
                (mapParam ml mr e.param).map fun p => { e with param := p }) (l := D.unk) (by
              intro e he
              have := (hD.unk_ok e he).1
              rw [mapParam_some (hL ▸ this.1) (hR ▸ this.2.1)]
              exact ⟨_, rfl⟩)
            rw [hout] at hnone; cases hnone
          · rename_i unk' hunk
            refine ⟨by simp, ?_⟩
            intro D' hD'
            cases hD'
            refine ⟨⟨?_, ?_, ?_, ?_, ?_, ?_, ?_, hD.chars_ok⟩, rfl, rfl, rfl⟩
            · dsimp only
              rw [length_flatMap_const _ _ D.numLeft (by simp)]
              simp
            · dsimp only
              intro x hx
              simp only [List.mem_flatMap, List.mem_map] at hx
              obtain ⟨r, _, l, _, rfl⟩ := hx
              exact cost_i16 hD.conn_i16 r l
            · exact mapLex_wf hmlv hmrv hD.sys_ok hsys
            · intro hnil
              have := (mapLex_spec hsys).2.1
              rw [show sys'.entries = [] from hnil] at this
              exact hD.sys_ne (List.length_eq_zero_iff.mp this.symm)
            · dsimp only
              intro u hu
              subst hu
              cases hdu : D.user with
              | none => rw [hdu] at huser; cases huser
              | some u0 =>
                rw [hdu] at huser
                simp only [Option.map_eq_some_iff, Option.some.injEq] at huser
                obtain ⟨u1, hu1, rfl⟩ := huser
                exact mapLex_wf hmlv hmrv (hD.user_ok u0 hdu) hu1
            · dsimp only
              intro e' he'
              obtain ⟨e, he, hee⟩ := mapM_some_mem hunk e' he'
              simp only [Option.map_eq_some_iff] at hee
              obtain ⟨p, hp, rfl⟩ := hee
              exact ⟨mapParam_ok hmlv hmrv (hD.unk_ok e he).1.2.2 hp, (hD.unk_ok e he).2⟩
            · dsimp only
              intro sl sr hs
              simp only [Option.some.injEq] at hs
              split at hs
              · rename_i ol or hm _
                obtain ⟨o1, o2, o3, o4⟩ := hD.mapper_ok ol or hm
                cases hs
                refine ⟨by simpa using o1, by simpa using o2, ?_, ?_⟩
                · intro x hx
                  simp only [List.mem_map] at hx
                  obtain ⟨y, hy, rfl⟩ := hx
                  have hy' : y < ml.length := hL ▸ o3 y hy
                  rw [List.getD_eq_getElem?_getD, List.getElem?_eq_getElem hy']
                  exact hmlv _ (List.getElem_mem hy')
                · intro x hx
                  simp only [List.mem_map] at hx
                  obtain ⟨y, hy, rfl⟩ := hx
                  have hy' : y < mr.length := hR ▸ o4 y hy
                  rw [List.getD_eq_getElem?_getD, List.getElem?_eq_getElem hy']
                  exact hmrv _ (List.getElem_mem hy')
              · cases hs
                exact ⟨hL, hR, hmlv, hmrv⟩
  · simp


/-! ### `reset_user_lexicon_from_reader` -/

theorem resetUser_spec {D : DictM} (hD : DictWF D) (csv : Option (List UInt8)) :
    D.resetUser Fixes.all csv ≠ .panic ∧
      ∀ D', D.resetUser Fixes.all csv = .ok D' →
        DictWF D' ∧ D'.numLeft = D.numLeft ∧ D'.numRight = D.numRight ∧ D'.chars = D.chars ∧
          D'.sys = D.sys ∧ D'.conn = D.conn ∧ D'.unk = D.unk ∧ D'.mapper = D.mapper := by
  unfold DictM.resetUser
  split
  · refine ⟨by simp, ?_⟩
    intro D' hD'
    cases hD'
    refine ⟨⟨hD.conn_len, hD.conn_i16, hD.sys_ok, hD.sys_ne, ?_, hD.unk_ok, hD.mapper_ok, hD.chars_ok⟩,
      rfl, rfl, rfl, rfl, rfl, rfl, rfl⟩
    intro u hu; cases hu
  · rename_i bytes
    split
    · simp
    · rename_i hp
      exfalso
      cases hrows : parseLexCsv Fixes.all bytes with
      | panic => exact parseLexCsv_ne_panic bytes hrows
      | err => rw [hrows] at hp; cases hp
      | ok rows =>
        rw [hrows] at hp
        simp only [Outcome.bind, Outcome.ofOption] at hp
        cases hl : lexOfRows rows <;> rw [hl] at hp <;> cases hp
    · rename_i u hu
      have hu' : ∃ rows, parseLexCsv Fixes.all bytes = .ok rows ∧ lexOfRows rows = some u := by
        cases hrows : parseLexCsv Fixes.all bytes with
        | panic => rw [hrows] at hu; cases hu
        | err => rw [hrows] at hu; cases hu
        | ok rows =>
          rw [hrows] at hu
          simp only [Outcome.bind, Outcome.ofOption] at hu
          cases hl : lexOfRows rows with
          | none => rw [hl] at hu; cases hu
          | some u' => rw [hl] at hu; cases hu; exact ⟨rows, rfl, hl⟩
      obtain ⟨rows, hrows, hlex⟩ := hu'
      simp only [Fixes.all, true_and]
      split
      · simp
      · rename_i hin
        simp only [Bool.not_eq_true, Bool.not_eq_false] at hin
        have huwf : LexWF D.numLeft D.numRight u := lexWF_of_rows (parseLexCsv_rows hrows) hlex hin
        split
        · rename_i hnone
          exfalso
          split at hnone
          · cases hnone
          · rename_i ml mr hm
            obtain ⟨o1, o2, _, _⟩ := hD.mapper_ok ml mr hm
            obtain ⟨L', hL'⟩ := mapLex_isSome (lexWF_in_range huwf o1 o2)
            rw [hL'] at hnone; cases hnone
        · rename_i u' hu'
          split
          · simp
          · rename_i hin'
            simp only [Bool.not_eq_true, Bool.not_eq_false] at hin'
            refine ⟨by simp, ?_⟩
            intro D' hD'
            cases hD'
            refine ⟨⟨hD.conn_len, hD.conn_i16, hD.sys_ok, hD.sys_ne, ?_, hD.unk_ok, hD.mapper_ok, hD.chars_ok⟩,
              rfl, rfl, rfl, rfl, rfl, rfl, rfl⟩
            intro u2 hu2
            cases hu2
            split at hu'
            · cases hu'; exact huwf
            · rename_i ml mr hm
              obtain ⟨_, _, o3, o4⟩ := hD.mapper_ok ml mr hm
              exact mapLex_wf o3 o4 huwf hu'


/-! ### What a well-formed dictionary gives the tokenizer -/

theorem dims_pos {D : DictM} (hD : DictWF D) : 0 < D.numLeft ∧ 0 < D.numRight := by
  obtain ⟨e, he⟩ := List.exists_mem_of_ne_nil _ hD.sys_ne
  have := hD.sys_ok.1 e he
  exact ⟨by have := this.1; omega, by have := this.2.1; omega⟩

/-- The index `MatrixConnector::cost` computes is inside the table whenever both ids are
inside the connector (so the `getD` default of `DictM.cost` is never used for such ids). -/
theorem conn_index_lt {D : DictM} (hD : DictWF D) {r l : Nat} (hr : r < D.numRight)
    (hl : l < D.numLeft) : r * D.numLeft + l < D.conn.length := by
  rw [hD.conn_len]
  calc r * D.numLeft + l < r * D.numLeft + D.numLeft := by omega
    _ = (r + 1) * D.numLeft := by rw [Nat.add_mul, Nat.one_mul]
    _ ≤ D.numRight * D.numLeft := Nat.mul_le_mul_right _ hr

theorem unkOf_mem {D : DictM} {b : Nat} {p : Nat × WordParam} (h : p ∈ D.unkOf b) :
    ∃ e, D.unk[p.1]? = some e ∧ e.cateId = b ∧ e.param = p.2 := by
  simp only [DictM.unkOf, List.mem_map, List.mem_filter, beq_iff_eq] at h
  obtain ⟨⟨e, i⟩, ⟨hmem, hb⟩, rfl⟩ := h
  have := List.mem_zipIdx hmem
  simp only [Nat.zero_add] at this
  refine ⟨e, ?_, hb, rfl⟩
  obtain ⟨_, h2, h3⟩ := this
  simp only [Nat.sub_zero] at h3
  rw [List.getElem?_eq_getElem (by omega), h3]

theorem dictOK_of_wf {D : DictM} (hD : DictWF D) : DictOK D.tokDict 32767 32767 := by
  refine ⟨?_, ?_, ?_, ?_, by decide, by decide⟩
  · intro r l; exact (cost_i16 hD.conn_i16 r l).2
  · intro e he; exact (hD.sys_ok.1 e he).2.2.2
  · intro u hu e he
    simp only [DictM.tokDict, Option.map_eq_some_iff] at hu
    obtain ⟨u0, hu0, rfl⟩ := hu
    exact ((hD.user_ok u0 hu0).1 e he).2.2.2
  · intro b p hp
    obtain ⟨e, he, _, hep⟩ := unkOf_mem hp
    rw [← hep]
    exact (hD.unk_ok e (List.mem_of_getElem? he)).1.2.2.2

/-! ### char.def: what the table contains -/

section CharTable
open Text CharDef

/-- The bounds of an accepted range line are the hexadecimal numbers written in the file,
both inclusive: `r.start = lo`, `r.stop = hi + 1` (`hi = lo` for a single code point). -/
theorem parseRange_inclusive {line : List Char} {r : CharRange} (h : parseRange line = .ok r) :
    ∃ c0 rest lo hi, splitWhitespace line = c0 :: rest ∧ rest ≠ [] ∧
      parseHexUsize (trimStart0x ((splitDotDot c0).headD [])) = some lo ∧
      (match splitDotDot c0 with
        | _ :: r1 :: _ => parseHexUsize (trimStart0x r1) = some hi
        | _ => hi = lo) ∧
      r.start = lo ∧ r.stop = hi + 1 ∧ lo ≤ hi ∧ hi ≤ 0xFFFF ∧
      r.cates = rest.takeWhile (fun col => ¬ startsWith ['#'] col) := by
  unfold parseRange at h
  dsimp only at h
  split at h
  · rename_i _ c0 x xs hsw
    split at h
    · cases h
    · rename_i lo hlo
      split at h
      · cases h
      · cases h
      · rename_i stop hstop
        split at h
        · cases h
        · split at h
          · cases h
          · cases h
            refine ⟨c0, x :: xs, lo, stop - 1, hsw, by simp, hlo, ?_, rfl, ?_, ?_, ?_, rfl⟩
            · split at hstop
              · rename_i hd r1 tl heq
                rw [heq]
                dsimp only
                split at hstop
                · cases hstop
                · rename_i e he
                  split at hstop
                  · cases hstop
                  · cases hstop; simpa using he
              · rename_i hno
                split
                · rename_i hd r1 tl heq
                  exact absurd heq (hno hd r1 tl)
                · split at hstop
                  · cases hstop
                  · cases hstop; simp
            · dsimp only; omega
            · omega
            · omega
  · cases h

/-- **The compiled table entry** for an index `c`: the encoding of the LAST range line of the
file covering `c`, otherwise the encoding of DEFAULT; categories are resolved against the
final category state `st` of the file. -/
theorem entry_last_range {bytes : List UInt8} {P : CharProp} (h : CharDef.parse bytes = .ok P) :
    ∃ st, foldLines st0 (rawLines bytes) = .ok st ∧ StOK st ∧
      P.names = st.names.map String.ofList ∧
      ∀ c : Nat,
        (∃ (i : Nat) (r : CharRange) (ci : CharInfo), (rangeLines bytes)[i]? = some r ∧
            r.start ≤ c ∧ c < r.stop ∧
            (∀ (j : Nat) (r' : CharRange), i < j → (rangeLines bytes)[j]? = some r' →
              ¬ (r'.start ≤ c ∧ c < r'.stop)) ∧
            encodeCateInfo st r.cates = .ok ci ∧ P.entry c = ci) ∨
        ((∀ r ∈ rangeLines bytes, ¬ (r.start ≤ c ∧ c < r.stop)) ∧
            encodeCateInfo st ["DEFAULT".toList] = .ok (P.entry c)) := by
  obtain ⟨st, hst, hok, hn, hd, hlen, hrs⟩ := chardef_parse_ok h
  refine ⟨st, hst, hok, hn, ?_⟩
  intro c
  rcases find?_reverse_spec (fun r : Nat × Nat × CharInfo => decide (r.1 ≤ c ∧ c < r.2.1)) P.ranges
    with ⟨i, x, hix, hpx, hlater, hfind⟩ | ⟨hall, hfind⟩
  · left
    have hi : i < P.ranges.length := by
      rcases Nat.lt_or_ge i P.ranges.length with hi | hi
      · exact hi
      · rw [List.getElem?_eq_none hi] at hix; cases hix
    have hi' : i < (rangeLines bytes).length := hlen ▸ hi
    obtain ⟨ci, hci, hpi⟩ := hrs i (rangeLines bytes)[i] (by simp [hi'])
    rw [hix] at hpi
    cases hpi
    simp only [decide_eq_true_eq] at hpx
    refine ⟨i, (rangeLines bytes)[i], ci, by simp [hi'], hpx.1, hpx.2, ?_, hci, ?_⟩
    · intro j r' hij hj
      obtain ⟨ci', _, hpj⟩ := hrs j r' hj
      have := hlater j _ hij hpj
      simpa using this
    · simp only [CharProp.entry, hfind]
  · right
    constructor
    · intro r hr
      obtain ⟨i, hi, rfl⟩ := List.mem_iff_getElem.mp hr
      obtain ⟨ci, _, hpi⟩ := hrs i (rangeLines bytes)[i] (by simp [hi])
      have := hall _ (List.mem_of_getElem? hpi)
      simpa using this
    · simp only [CharProp.entry, hfind]
      exact hd

end CharTable

/-! ### F9: an uncovered category -/

/-- A one-character sentence whose only start position offers no candidate: `ends[1]` stays
empty, `search_min_node` returns `INVALID_IDX`, and `append_top_nodes` indexes out of range. -/
theorem lattice_dead (E : LatEnv) (hlen : E.len = 1) (hskip : E.skip 0 = 0) (hc : E.cands 0 = []) :
    tokensOf (buildLattice E) = none := by
  have hL : resetEnds 0 E.len = [[bosNode], []] := by
    simp [resetEnds, hlen, pushAt, List.replicate]
  have h1 : buildLoop E [[bosNode], []] 1 = ([[bosNode], []], 1) := by
    rw [buildLoop]; simp [hlen]
  have h0 : buildLoop E [[bosNode], []] 0 = ([[bosNode], []], 1) := by
    rw [buildLoop]
    simp [hlen, endsAt, hskip, addEdges, hc, h1]
  simp only [tokensOf, topNodes, buildLattice, hL, h0, Option.map_eq_none_iff]
  rw [walkBack]
  simp [eosNode, endsAt, searchMin, searchMinGo, INVALID_IDX]

/-- **F9 (general form).**  For a one-character sentence `[c]` without `ignore_space`, if no
lexicon entry and no unknown-word entry is offered for `c` — in particular when the primary
category of `c` has no `unk.def` entry and no lexicon surface starts with `c` — `tokenize`
panics. -/
theorem tokenize_single_uncovered (D : TokDict) (mg : Option Nat) (c : Nat)
    (h : candsAt D (compileSent D [c]) ⟨none, mg⟩ 0 = []) :
    tokenize D ⟨none, mg⟩ [c] = none := by
  unfold tokenize
  simp only [List.isEmpty_cons, Bool.false_eq_true, if_false]
  apply lattice_dead
  · simp [latEnvOf, compileSent]
  · simp [latEnvOf, skipAt]
  · exact h

end C10
end Vibrato
