/-
C10 helpers, part 2: `matrix.def` and `char.def` parsers (`Model/MatrixDef.lean`,
`Model/CharDef.lean`), the `CharInfo` packing, and list helpers.

* `MatrixDef.parse_spec` — never panics; accepted matrices are full tables of `i16`s;
* `CharInfo.pack_unpack` — packing round trip under the bit-width bounds;
* `CharDef.StOK`, `CharDef.encodeCateInfo_spec`, `CharDef.parse_ne_panic`, `CharDef.parse_ok`,
  `CharDef.rangeLines` — what an accepted char.def compiles to;
* `find?_reverse_spec` — the last matching element.
-/
import Vibrato.Model.Dict

namespace Vibrato.C10
open Text


/-! ### Text number parsers -/

theorem parseUnsigned_le {radix : Nat} {dv : Char → Option Nat} {max : Nat} {s : List Char}
    {v : Nat} (h : parseUnsigned radix dv max s = some v) : v ≤ max := by
  unfold parseUnsigned at h
  grind

theorem parseSigned_range {max : Nat} {s : List Char} {v : Int}
    (h : parseSigned max s = some v) : -((max : Int) + 1) ≤ v ∧ v ≤ max := by
  unfold parseSigned at h
  split at h <;> split at h <;>
    first | (cases h; done) | (split at h <;> first | (cases h; done) | (cases h; omega))

theorem parseI16_range' {s : List Char} {v : Int} (h : parseI16 s = some v) :
    -32768 ≤ v ∧ v ≤ 32767 := by
  have := parseSigned_range h
  omega

/-! ### matrix.def -/

section Matrix
open MatrixDef

theorem bodyLines_spec (nr nl : Nat) (data : List Int) (lines : List (List UInt8)) :
    bodyLines nr nl data lines ≠ .panic ∧
      ∀ d, bodyLines nr nl data lines = .ok d → d.length = data.length ∧
        ((∀ x ∈ data, -32768 ≤ x ∧ x ≤ 32767) → ∀ x ∈ d, -32768 ≤ x ∧ x ≤ 32767) := by
  induction lines generalizing data with
  | nil => simp [bodyLines]
  | cons raw rest ih =>
    simp only [bodyLines]
    split
    · simp
    · split
      · exact ih data
      · split
        · simp
        · split
          · simp
          · rename_i r l v hpb _
            obtain ⟨ih1, ih2⟩ := ih (data.set (l * nr + r) v)
            refine ⟨ih1, ?_⟩
            intro d hd
            obtain ⟨h1, h2⟩ := ih2 d hd
            refine ⟨by simpa using h1, ?_⟩
            intro hdata
            apply h2
            intro x hx
            rcases List.mem_or_eq_of_mem_set hx with hx | rfl
            · exact hdata x hx
            · unfold parseBody at hpb
              split at hpb
              · simp only [Option.bind_eq_bind, Option.bind_eq_some_iff, Option.pure_def,
                  Option.some.injEq, Prod.mk.injEq] at hpb
                obtain ⟨_, _, _, _, v', hv', _, _, rfl⟩ := hpb
                exact parseI16_range' hv'
              · cases hpb

end Matrix


section Matrix
open MatrixDef

/-- `MatrixConnector::from_reader` never panics; an accepted matrix has `numRight * numLeft`
cells, each of them a parsed `i16` (or the initial 0), and `u16` dimensions. -/
theorem matrix_parse_spec (bytes : List UInt8) :
    parse bytes ≠ .panic ∧
      ∀ M, parse bytes = .ok M → M.data.length = M.numRight * M.numLeft ∧
        M.numRight ≤ 65535 ∧ M.numLeft ≤ 65535 ∧ ∀ x ∈ M.data, -32768 ≤ x ∧ x ≤ 32767 := by
  unfold parse
  split
  · simp
  · split
    · simp
    · split
      · simp
      · rename_i nr nl hh
        obtain ⟨h1, h2⟩ := bodyLines_spec nr nl (List.replicate (nr * nl) 0) ‹_›
        split
        · rename_i d hd
          refine ⟨by simp, ?_⟩
          intro M hM
          cases hM
          obtain ⟨h3, h4⟩ := h2 d hd
          unfold parseHeader at hh
          split at hh
          · simp only [Option.bind_eq_bind, Option.bind_eq_some_iff, Option.pure_def,
              Option.some.injEq, Prod.mk.injEq] at hh
            obtain ⟨r, hr, l, hl, rfl, rfl⟩ := hh
            refine ⟨by simpa using h3, parseUnsigned_le hr, parseUnsigned_le hl, ?_⟩
            apply h4
            intro x hx
            rw [List.mem_replicate] at hx
            rw [hx.2]; omega
          · cases hh
        · simp
        · rename_i hp; exact absurd hp h1

end Matrix




theorem shiftRight_eq_zero_iff_lt (x k : Nat) : x >>> k = 0 ↔ x < 2 ^ k := by
  rw [Nat.shiftRight_eq_div_pow, Nat.div_eq_zero_iff]
  have : 2 ^ k ≠ 0 := Nat.pos_iff_ne_zero.mp (Nat.two_pow_pos k)
  simp

theorem or_shift_eq_add {x k : Nat} (y : Nat) (h : x < 2 ^ k) : x ||| y <<< k = y * 2 ^ k + x := by
  rw [Nat.or_comm, ← Nat.shiftLeft_add_eq_or_of_lt h, Nat.shiftLeft_eq]

/-- **Packing round trip.**  When the category set, base id and length fit the widths
`CATE_IDSET_BITS`, `BASE_ID_BITS`, `LENGTH_BITS`, `CharInfo::new` succeeds, the packed word
fits a `u32`, and the getters return the packed fields. -/
theorem pack_unpack (cs b : Nat) (inv grp : Bool) (len : Nat)
    (h1 : cs < 2 ^ CATE_IDSET_BITS) (h2 : b < 2 ^ BASE_ID_BITS) (h3 : len < 2 ^ LENGTH_BITS) :
    ∃ w, CharInfo.pack cs b inv grp len = some w ∧ w < 2 ^ 32 ∧
      CharInfo.unpack w = ⟨cs, b, inv, grp, len⟩ := by
  have z1 := (shiftRight_eq_zero_iff_lt cs _).2 h1
  have z2 := (shiftRight_eq_zero_iff_lt b _).2 h2
  have z3 := (shiftRight_eq_zero_iff_lt len _).2 h3
  have hp : CharInfo.pack cs b inv grp len = some (cs
      ||| (b <<< CATE_IDSET_BITS)
      ||| ((if inv then 1 else 0) <<< (CATE_IDSET_BITS + BASE_ID_BITS))
      ||| ((if grp then 1 else 0) <<< (CATE_IDSET_BITS + BASE_ID_BITS + 1))
      ||| (len <<< (CATE_IDSET_BITS + BASE_ID_BITS + 2))) := by
    simp only [CharInfo.pack, z1, z2, z3, ne_eq, not_true_eq_false, if_false]
  refine ⟨_, hp, ?_⟩
  clear hp z1 z2 z3
  simp only [CATE_IDSET_BITS, BASE_ID_BITS, LENGTH_BITS, Nat.reduceAdd, Nat.reducePow] at *
  generalize hi : (if inv = true then 1 else 0 : Nat) = iv
  generalize hg : (if grp = true then 1 else 0 : Nat) = gv
  have hiv : iv < 2 := by subst hi; split <;> omega
  have hgv : gv < 2 := by subst hg; split <;> omega
  have e1 : cs ||| b <<< 18 = b * 2 ^ 18 + cs := or_shift_eq_add b (by omega)
  have e2 : (b * 2 ^ 18 + cs) ||| iv <<< 26 = iv * 2 ^ 26 + (b * 2 ^ 18 + cs) :=
    or_shift_eq_add iv (by omega)
  have e3 : (iv * 2 ^ 26 + (b * 2 ^ 18 + cs)) ||| gv <<< 27 =
      gv * 2 ^ 27 + (iv * 2 ^ 26 + (b * 2 ^ 18 + cs)) := or_shift_eq_add gv (by omega)
  have e4 : (gv * 2 ^ 27 + (iv * 2 ^ 26 + (b * 2 ^ 18 + cs))) ||| len <<< 28 =
      len * 2 ^ 28 + (gv * 2 ^ 27 + (iv * 2 ^ 26 + (b * 2 ^ 18 + cs))) :=
    or_shift_eq_add len (by omega)
  rw [e1, e2, e3, e4]
  refine ⟨by omega, ?_⟩
  simp only [CharInfo.unpack, CATE_IDSET_BITS, BASE_ID_BITS, Nat.reduceAdd, Nat.shiftRight_eq_div_pow,
    Nat.and_one_is_mod, CharInfo.mk.injEq]
  have a1 : ∀ x, x &&& 262143 = x % 2 ^ 18 := fun x => Nat.and_two_pow_sub_one_eq_mod x 18
  have a2 : ∀ x, x &&& 255 = x % 2 ^ 8 := fun x => Nat.and_two_pow_sub_one_eq_mod x 8
  simp only [Nat.reducePow, Nat.reduceSub, a1, a2]
  refine ⟨by omega, by omega, ?_, ?_, by omega⟩
  · subst hi; cases inv <;> simp <;> omega
  · subst hg; cases grp <;> simp <;> omega


section Chars
open CharDef

theorem parseRange_ne_panic (line : List Char) : parseRange line ≠ .panic := by
  unfold parseRange
  dsimp only
  repeat' split
  all_goals first | (simp; done) | skip
  rename_i h
  repeat' split at h
  all_goals cases h

/-- An accepted range line lies inside the 65 536-entry table and is non-empty. -/
theorem parseRange_bounds {line : List Char} {r : CharRange} (h : parseRange line = .ok r) :
    r.start < r.stop ∧ r.stop ≤ 65536 := by
  unfold parseRange at h
  dsimp only at h
  repeat' split at h
  all_goals first | (cases h; done) | skip
  cases h
  simp only
  omega

/-- Invariant of the char.def parser state. -/
structure StOK (st : CharDefState) : Prop where
  names_pos : 0 < st.names.length
  names_le : st.names.length ≤ CATE_IDSET_BITS
  infos_ok : ∀ p ∈ st.infos, p.1 < st.names.length ∧ p.2.length >>> LENGTH_BITS = 0
  ranges_ok : ∀ r ∈ st.ranges, r.start < r.stop ∧ r.stop ≤ 65536

theorem idOf_lt {names : List (List Char)} {n : List Char} {i : Nat} (h : idOf names n = some i) :
    i < names.length := by
  unfold idOf at h
  dsimp only at h
  split at h
  · cases h; assumption
  · cases h

theorem infoOf_mem {infos : List (Nat × CateDef)} {id : Nat} {d : CateDef}
    (h : infoOf infos id = some d) : (id, d) ∈ infos := by
  unfold infoOf at h
  simp only [Option.map_eq_some_iff] at h
  obtain ⟨p, hp, rfl⟩ := h
  have h1 := List.mem_of_find?_eq_some hp
  have h2 := List.find?_some hp
  simp only [beq_iff_eq] at h2
  rw [← h2]; exact h1

theorem parseCategory_spec (st : CharDefState) (line : List Char) :
    parseCategory st line ≠ .panic ∧
      ∀ st', parseCategory st line = .ok st' → st'.ranges = st.ranges ∧ (StOK st → StOK st') := by
  unfold parseCategory
  dsimp only
  split
  · split
    · simp
    · split
      · simp
      · split
        · simp
        · rename_i c0 c1 c2 c3 _ _ _ len hlen
          split
          · rename_i i hi
            have hi' := idOf_lt hi
            dsimp only
            split
            · simp
            · split
              · simp
              · rename_i hl
                refine ⟨by simp, ?_⟩
                intro st' hst'
                cases hst'
                refine ⟨rfl, fun hok => ⟨hok.names_pos, hok.names_le, ?_, hok.ranges_ok⟩⟩
                intro p hp
                simp only [List.mem_cons] at hp
                rcases hp with rfl | hp
                · exact ⟨hi', by simpa using hl⟩
                · exact hok.infos_ok p hp
          · dsimp only
            split
            · simp
            · split
              · simp
              · rename_i hid hl
                refine ⟨by simp, ?_⟩
                intro st' hst'
                cases hst'
                refine ⟨rfl, fun hok => ⟨by simp, by simp; omega, ?_, hok.ranges_ok⟩⟩
                intro p hp
                simp only [List.mem_cons] at hp
                rcases hp with rfl | hp
                · exact ⟨by simp, by simpa using hl⟩
                · have := hok.infos_ok p hp
                  exact ⟨by simp; omega, this.2⟩
  · simp

theorem stepLine_spec (st : CharDefState) (raw : List UInt8) :
    stepLine st raw ≠ .panic ∧ ∀ st', stepLine st raw = .ok st' → (StOK st → StOK st') := by
  unfold stepLine
  split
  · simp
  · dsimp only
    split
    · simp
    · split
      · have := parseCategory_spec st (trim ‹String›.toList)
        exact ⟨this.1, fun st' h => (this.2 st' h).2⟩
      · split
        · rename_i r hr
          refine ⟨by simp, ?_⟩
          intro st' hst'
          cases hst'
          intro hok
          refine ⟨hok.names_pos, hok.names_le, hok.infos_ok, ?_⟩
          intro r' hr'
          simp only [List.mem_cons] at hr'
          rcases hr' with rfl | hr'
          · exact parseRange_bounds hr
          · exact hok.ranges_ok r' hr'
        · simp
        · rename_i hp; exact absurd hp (parseRange_ne_panic _)

theorem foldLines_spec (st : CharDefState) (lines : List (List UInt8)) :
    foldLines st lines ≠ .panic ∧ ∀ st', foldLines st lines = .ok st' → (StOK st → StOK st') := by
  induction lines generalizing st with
  | nil => simp [foldLines]
  | cons l ls ih =>
    simp only [foldLines]
    obtain ⟨h1, h2⟩ := stepLine_spec st l
    split
    · rename_i st1 hst1
      obtain ⟨i1, i2⟩ := ih st1
      exact ⟨i1, fun st' h hok => i2 st' h (h2 st1 hst1 hok)⟩
    · simp
    · rename_i hp; exact absurd hp h1


/-- The category-set accumulation of `encode_cate_info`. -/
def setStep (st : CharDefState) (acc : Option Nat) (t : List Char) : Option Nat := do
  let a ← acc
  let tid ← idOf st.names t
  let _ ← infoOf st.infos tid
  pure (a ||| (1 <<< tid))

theorem setFold_none (st : CharDefState) (ts : List (List Char)) :
    ts.foldl (setStep st) none = none := by
  induction ts with
  | nil => rfl
  | cons t ts ih => simpa [setStep] using ih

/-- The accumulated word has exactly the bits of the start value and of the ids of the listed
(defined) categories. -/
theorem setFold_spec (st : CharDefState) (ts : List (List Char)) (a cs : Nat)
    (h : ts.foldl (setStep st) (some a) = some cs) :
    (∀ t ∈ ts, ∃ tid d, idOf st.names t = some tid ∧ infoOf st.infos tid = some d) ∧
    (∀ i, cs.testBit i = (a.testBit i || ts.any fun t => idOf st.names t == some i)) := by
  induction ts generalizing a with
  | nil =>
    simp only [List.foldl_nil, Option.some.injEq] at h
    subst h; simp
  | cons t ts ih =>
    simp only [List.foldl_cons] at h
    cases hid : idOf st.names t with
    | none => simp [setStep, hid, setFold_none] at h
    | some tid =>
      cases hinf : infoOf st.infos tid with
      | none => simp [setStep, hid, hinf, setFold_none] at h
      | some d =>
        have hs : setStep st (some a) t = some (a ||| 1 <<< tid) := by simp [setStep, hid, hinf]
        rw [hs] at h
        obtain ⟨i1, i2⟩ := ih _ h
        constructor
        · intro t' ht'
          simp only [List.mem_cons] at ht'
          rcases ht' with rfl | ht'
          · exact ⟨tid, d, hid, hinf⟩
          · exact i1 t' ht'
        · intro i
          rw [i2 i, Nat.testBit_or, Nat.one_shiftLeft, Nat.testBit_two_pow]
          simp only [List.any_cons, hid, Bool.or_assoc]
          congr 2

/-- fields fit their bit widths; ids name defined categories -/
structure InfoOK (n : Nat) (ci : CharInfo) : Prop where
  base_lt : ci.baseId < n
  set_lt : ci.cateSet < 2 ^ n
  len_ok : ci.length >>> LENGTH_BITS = 0
  base_in : ci.cateSet.testBit ci.baseId = true

/-- `encode_cate_info` never panics (repaired tree); its result is: base id = id of the first
listed category, invoke/group/length from that category's (latest) definition, category set =
exactly the ids of the listed categories, all of them defined. -/
theorem encodeCateInfo_spec (st : CharDefState) (targets : List (List Char)) :
    encodeCateInfo st targets ≠ .panic ∧
      ∀ ci, encodeCateInfo st targets = .ok ci →
        (∃ first rest d, targets = first :: rest ∧ idOf st.names first = some ci.baseId ∧
          infoOf st.infos ci.baseId = some d ∧ ci.invoke = d.invoke ∧ ci.group = d.group ∧
          ci.length = d.length) ∧
        (∀ t ∈ targets, ∃ tid d, idOf st.names t = some tid ∧ infoOf st.infos tid = some d) ∧
        (∀ i, ci.cateSet.testBit i = targets.any fun t => idOf st.names t == some i) ∧
        (StOK st → InfoOK st.names.length ci) := by
  unfold encodeCateInfo
  split
  · simp
  · rename_i first rest
    split
    · simp
    · rename_i id d hfd
      simp only [Option.bind_eq_some_iff, Option.map_eq_some_iff, Prod.mk.injEq] at hfd
      obtain ⟨id', hid, d', hd, rfl, rfl⟩ := hfd
      dsimp only
      split
      · simp
      · rename_i cs hcs
        refine ⟨by simp, ?_⟩
        intro ci hci
        cases hci
        have hcs' : (first :: rest).foldl (setStep st) (some 0) = some cs := hcs
        obtain ⟨s1, s2⟩ := setFold_spec st _ 0 cs hcs'
        have hbits : ∀ i, cs.testBit i = (first :: rest).any fun t => idOf st.names t == some i := by
          intro i; rw [s2 i]; simp
        refine ⟨⟨first, rest, d', rfl, hid, hd, rfl, rfl, rfl⟩, s1, hbits, ?_⟩
        intro hok
        refine ⟨idOf_lt hid, ?_, (hok.infos_ok _ (infoOf_mem hd)).2, ?_⟩
        · apply Nat.lt_pow_two_of_testBit
          intro i hi
          rw [hbits i]
          simp only [List.any_eq_false, beq_iff_eq]
          intro t _ ht
          have := idOf_lt ht
          omega
        · dsimp only
          rw [hbits id']
          simp [hid]

theorem encodeRanges_spec (st : CharDefState) (rs : List CharRange) :
    encodeRanges st rs ≠ .panic ∧
      ∀ out, encodeRanges st rs = .ok out → out.length = rs.length ∧
        ∀ (i : Nat) (r : CharRange), rs[i]? = some r → ∃ ci, encodeCateInfo st r.cates = .ok ci ∧
          out[i]? = some (r.start, r.stop, ci) := by
  induction rs with
  | nil => simp [encodeRanges]
  | cons r rs ih =>
    simp only [encodeRanges]
    split
    · rename_i ci hci
      split
      · rename_i out' hout'
        refine ⟨by simp, ?_⟩
        intro out hout
        cases hout
        obtain ⟨l1, l2⟩ := ih.2 out' hout'
        refine ⟨by simp [l1], ?_⟩
        intro i r' hr'
        cases i with
        | zero =>
          simp only [List.getElem?_cons_zero, Option.some.injEq] at hr'
          subst hr'
          exact ⟨ci, hci, by simp⟩
        | succ j =>
          simp only [List.getElem?_cons_succ] at hr' ⊢
          exact l2 j r' hr'
      · simp
      · rename_i hp; exact absurd hp ih.1
    · simp
    · rename_i hp; exact absurd hp (encodeCateInfo_spec st r.cates).1


/-- Parser state before the first line: only DEFAULT (id 0) is known. -/
def st0 : CharDefState := { names := ["DEFAULT".toList], infos := [], ranges := [] }

theorem st0_ok : StOK st0 := by
  refine ⟨by simp [st0], by simp [st0, CATE_IDSET_BITS], ?_, ?_⟩ <;> simp [st0]

/-- The range a raw line of char.def contributes (`none` for blank, comment, category and
rejected lines). -/
def rangeOfLine (raw : List UInt8) : Option CharRange :=
  match decodeLine raw with
  | none => none
  | some s =>
    let line := trim s.toList
    if line.isEmpty ∨ startsWith ['#'] line then none
    else if ¬ startsWith ['0', 'x'] line then none
    else match parseRange line with
      | .ok r => some r
      | _ => none

/-- The range lines of a char.def file in file order. -/
def rangeLines (bytes : List UInt8) : List CharRange := (rawLines bytes).filterMap rangeOfLine

theorem stepLine_ranges {st st' : CharDefState} {raw : List UInt8}
    (h : stepLine st raw = .ok st') : st'.ranges = (rangeOfLine raw).toList ++ st.ranges := by
  unfold stepLine at h
  unfold rangeOfLine
  split at h
  · cases h
  · rename_i s hs
    simp only [hs]
    dsimp only at h ⊢
    split at h
    · rename_i hc; cases h; rw [if_pos hc]; rfl
    · rename_i hc
      rw [if_neg hc]
      split at h
      · rename_i hc2
        rw [if_pos hc2]
        simpa using ((parseCategory_spec st _).2 st' h).1
      · rename_i hc2
        rw [if_neg hc2]
        split at h
        · rename_i r hr
          cases h
          simp [hr]
        · cases h
        · cases h

theorem foldLines_ranges {st st' : CharDefState} {lines : List (List UInt8)}
    (h : foldLines st lines = .ok st') :
    st'.ranges.reverse = st.ranges.reverse ++ lines.filterMap rangeOfLine := by
  induction lines generalizing st with
  | nil => simp only [foldLines, Outcome.ok.injEq] at h; subst h; simp
  | cons l ls ih =>
    simp only [foldLines] at h
    split at h
    · rename_i st1 hst1
      rw [ih h, stepLine_ranges hst1, List.filterMap_cons]
      cases rangeOfLine l <;> simp
    · cases h
    · cases h

theorem chardef_parse_ne_panic (bytes : List UInt8) : parse bytes ≠ .panic := by
  unfold parse
  dsimp only
  split
  · simp
  · rename_i hp; exact absurd hp (foldLines_spec _ _).1
  · split
    · simp
    · rename_i hp; exact absurd hp (encodeCateInfo_spec _ _).1
    · split
      · simp
      · rename_i hp; exact absurd hp (encodeRanges_spec _ _).1
      · simp

/-- An accepted char.def: the final category state `st`, the DEFAULT entry and the encoded
range lines of the file, in file order. -/
theorem chardef_parse_ok {bytes : List UInt8} {P : CharProp} (h : parse bytes = .ok P) :
    ∃ st, foldLines st0 (rawLines bytes) = .ok st ∧ StOK st ∧
      P.names = st.names.map String.ofList ∧
      encodeCateInfo st ["DEFAULT".toList] = .ok P.defInfo ∧
      P.ranges.length = (rangeLines bytes).length ∧
      ∀ (i : Nat) (r : CharRange), (rangeLines bytes)[i]? = some r →
        ∃ ci, encodeCateInfo st r.cates = .ok ci ∧ P.ranges[i]? = some (r.start, r.stop, ci) := by
  unfold parse at h
  dsimp only at h
  split at h
  · cases h
  · cases h
  · rename_i st hst
    split at h
    · cases h
    · cases h
    · rename_i d hd
      split at h
      · cases h
      · cases h
      · rename_i rs hrs
        cases h
        have hst' : foldLines st0 (rawLines bytes) = .ok st := hst
        have hr := foldLines_ranges hst'
        simp only [st0, List.reverse_nil, List.nil_append] at hr
        obtain ⟨e1, e2⟩ := (encodeRanges_spec st _).2 rs hrs
        rw [hr] at e1 e2
        exact ⟨st, hst', (foldLines_spec _ _).2 st hst' st0_ok, rfl, hd, e1, e2⟩

end Chars

/-! ### The compiled table -/

/-- `find?` on the reversed list returns the last matching element. -/
theorem find?_reverse_spec {α : Type} (p : α → Bool) (l : List α) :
    (∃ (i : Nat) (x : α), l[i]? = some x ∧ p x = true ∧
        (∀ (j : Nat) (y : α), i < j → l[j]? = some y → p y = false) ∧
      l.reverse.find? p = some x) ∨
    ((∀ x ∈ l, p x = false) ∧ l.reverse.find? p = none) := by
  cases hf : l.reverse.find? p with
  | none =>
    right
    rw [List.find?_eq_none] at hf
    exact ⟨fun x hx => by simpa using hf x (by simpa using hx), rfl⟩
  | some x =>
    left
    rw [List.find?_eq_some_iff_append] at hf
    obtain ⟨hpx, as, bs, hl, has⟩ := hf
    have hl' : l = bs.reverse ++ x :: as.reverse := by
      have := congrArg List.reverse hl
      simpa using this
    refine ⟨bs.length, x, ?_, hpx, ?_, rfl⟩
    · rw [hl']; simp
    · intro j y hj hy
      rw [hl'] at hy
      rw [List.getElem?_append_right (by simp; omega)] at hy
      simp only [List.length_reverse] at hy
      obtain ⟨k, hk⟩ : ∃ k, j - bs.length = k + 1 := ⟨j - bs.length - 1, by omega⟩
      rw [hk, List.getElem?_cons_succ] at hy
      have hmem := List.mem_of_getElem? hy
      simpa using has y (by simpa using hmem)


end Vibrato.C10
