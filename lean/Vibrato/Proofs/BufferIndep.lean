import Vibrato.Proofs.LatticeInv

namespace Vibrato

/-- Two `ends` buffers that read the same at every boundary. -/
def EqReads (L L' : Ends) : Prop := ∀ j, endsAt L j = endsAt L' j

theorem EqReads.refl (L : Ends) : EqReads L L := fun _ => rfl

theorem eqReads_pushAt {L L' : Ends} (h : EqReads L L') (i : Nat) (n : Node)
    (hi : i < L.length) (hi' : i < L'.length) : EqReads (pushAt L i n) (pushAt L' i n) := by
  intro j
  rw [endsAt_pushAt, endsAt_pushAt]
  simp only [hi, hi', and_true]
  split
  · rw [h i]
  · exact h j

theorem eqReads_insertNode {E : LatEnv} {L L' : Ends} (h : EqReads L L') (p sw : Nat) (c : Cand)
    (hi : c.endWord < L.length) (hi' : c.endWord < L'.length) :
    EqReads (insertNode E L p sw c) (insertNode E L' p sw c) := by
  unfold insertNode
  rw [h p]
  exact eqReads_pushAt h _ _ hi hi'

theorem eqReads_foldl {E : LatEnv} (p sw : Nat) :
    ∀ (cs : List Cand) (L L' : Ends), EqReads L L' →
      (∀ c ∈ cs, c.endWord < L.length ∧ c.endWord < L'.length) →
      EqReads (cs.foldl (fun L c => insertNode E L p sw c) L)
        (cs.foldl (fun L c => insertNode E L p sw c) L') ∧
      (cs.foldl (fun L c => insertNode E L p sw c) L).length = L.length ∧
      (cs.foldl (fun L c => insertNode E L p sw c) L').length = L'.length := by
  intro cs
  induction cs with
  | nil => intro L L' h _; exact ⟨h, rfl, rfl⟩
  | cons c cs ih =>
    intro L L' h hc
    simp only [List.foldl_cons]
    obtain ⟨h1, h2⟩ := hc c (by simp)
    have hl : (insertNode E L p sw c).length = L.length := by simp [insertNode]
    have hl' : (insertNode E L' p sw c).length = L'.length := by simp [insertNode]
    obtain ⟨r1, r2, r3⟩ := ih _ _ (eqReads_insertNode h p sw c h1 h2)
      (fun c' hc' => by rw [hl, hl']; exact hc c' (by simp [hc']))
    exact ⟨r1, by rw [r2, hl], by rw [r3, hl']⟩

/-- candidates of positions inside the sentence end inside the sentence -/
def CandsInRange (E : LatEnv) : Prop := ∀ sw, sw < E.len → ∀ c ∈ E.cands sw, c.endWord ≤ E.len

theorem EnvOK.candsInRange {E C W} (h : EnvOK E C W) : CandsInRange E :=
  fun sw hsw c hc => (h.cands_range sw hsw c hc).2

theorem eqReads_buildLoop {E : LatEnv} (hr : CandsInRange E) (L : Ends) (p : Nat) :
    ∀ L' : Ends, EqReads L L' → E.len < L.length → E.len < L'.length →
      EqReads (buildLoop E L p).1 (buildLoop E L' p).1 ∧
        (buildLoop E L p).2 = (buildLoop E L' p).2 := by
  fun_induction buildLoop E L p with
  | case1 L p hlt hemp ih =>
    intro L' h hl hl'
    rw [buildLoop.eq_1 E L' p]
    have : (endsAt L' p).isEmpty = true := by rw [← h p]; exact hemp
    simp only [hlt, if_true, this]
    exact ih L' h hl hl'
  | case2 L p hlt hemp sw hbreak =>
    intro L' h hl hl'
    rw [buildLoop.eq_1 E L' p]
    have : ¬ (endsAt L' p).isEmpty = true := by rw [← h p]; exact hemp
    simp only [hlt, if_true, this, if_false]
    have hb : E.len ≤ p + E.skip p := hbreak
    simp only [hb, if_true]
    exact ⟨h, rfl⟩
  | case3 L p hlt hemp sw hcont ih =>
    intro L' h hl hl'
    rw [buildLoop.eq_1 E L' p]
    have : ¬ (endsAt L' p).isEmpty = true := by rw [← h p]; exact hemp
    simp only [hlt, if_true, this, if_false]
    have hb : ¬ E.len ≤ p + E.skip p := hcont
    simp only [hb, if_false]
    have hsw : p + E.skip p < E.len := by omega
    have hf := eqReads_foldl (E := E) p (p + E.skip p) (E.cands (p + E.skip p)) L L' h
      (fun c hc => by have := hr _ hsw c hc; exact ⟨by omega, by omega⟩)
    exact ih _ hf.1 (by unfold addEdges; rw [hf.2.1]; exact hl)
      (by unfold addEdges; rw [hf.2.2]; exact hl')
  | case4 L p hge =>
    intro L' h _ _
    rw [buildLoop.eq_1 E L' p]
    simp only [hge, if_false]
    exact ⟨h, trivial⟩

theorem eqReads_walkBack {L L' : Ends} (h : EqReads L L') (e i : Nat) :
    walkBack L e i = walkBack L' e i := by
  induction e using Nat.strongRecOn generalizing i with
  | _ e ih =>
    rw [walkBack, walkBack.eq_1 L']
    split
    · rfl
    · rw [h e]
      split
      · rfl
      · rename_i n _
        split
        · rename_i hlt
          rw [ih n.startNode hlt]
        · rfl

/-- **The result does not depend on the state of the reused buffer**: tokens (and every
`ends` read) of a lattice built on a buffer of any previous length equal those built on a
fresh buffer. -/
theorem buildLattice_buffer_indep (E : LatEnv) (hr : CandsInRange E) (b : Nat) :
    EqReads (buildLattice E b).ends (buildLattice E 0).ends ∧
      (buildLattice E b).eos = (buildLattice E 0).eos ∧
      topNodes (buildLattice E b) = topNodes (buildLattice E 0) := by
  have h0 : EqReads (resetEnds b E.len) (resetEnds 0 E.len) := fun j => endsAt_resetEnds_buf b 0 E.len j
  obtain ⟨h1, h2⟩ := eqReads_buildLoop hr (resetEnds b E.len) 0 (resetEnds 0 E.len) h0
    (by rw [length_resetEnds]; omega) (by rw [length_resetEnds]; omega)
  have heos : (buildLattice E b).eos = (buildLattice E 0).eos := by
    simp only [buildLattice, eosNode]
    rw [h2, h1]
  refine ⟨h1, heos, ?_⟩
  unfold topNodes
  rw [heos]
  exact eqReads_walkBack h1 _ _

end Vibrato
