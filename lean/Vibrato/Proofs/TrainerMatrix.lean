/-
Closed form of the matrix built by `merge` (`Vibrato/Model/Trainer.lean`), used by C16:
which weight indices contribute to the entry of a (right class, left class) pair, to a BOS
entry and to an EOS entry, and where the entry is stored.
-/
import Vibrato.Model.Trainer

namespace Vibrato.Trainer
open Vibrato.Bincode Vibrato.Image Vibrato.ModelImage WeightOps

/-! ## Which weights are added -/

/-- Weight indices added by `sumPair`, in order: template positions where both classes carry
a feature id and the bigram index has the pair. -/
def pairHits (bidx : List (List (Nat × Nat))) : List (Option Nat) → List (Option Nat) → List Nat
  | some r :: rs, some l :: ls =>
    match (bidx[r]?).bind (fun hm => lookupLast hm l) with
    | some widx => widx :: pairHits bidx rs ls
    | none => pairHits bidx rs ls
  | _ :: rs, _ :: ls => pairHits bidx rs ls
  | _, _ => []

/-- Weight indices added by `sumEos` (right-class features followed by EOS). -/
def eosHits (bidx : List (List (Nat × Nat))) : List (Option Nat) → List Nat
  | [] => []
  | none :: rest => eosHits bidx rest
  | some fid :: rest =>
    match (bidx[fid]?).bind (fun hm => lookupLast hm 0) with
    | some widx => widx :: eosHits bidx rest
    | none => eosHits bidx rest

/-- Weight indices added by `sumBos` (BOS followed by left-class features). -/
def bosHits (hm : List (Nat × Nat)) : List (Option Nat) → List Nat
  | [] => []
  | none :: rest => bosHits hm rest
  | some fid :: rest =>
    match lookupLast hm fid with
    | some widx => widx :: bosHits hm rest
    | none => bosHits hm rest

theorem pairHits_length_le (bidx : List (List (Nat × Nat))) :
    ∀ (rs ls : List (Option Nat)), (pairHits bidx rs ls).length ≤ rs.length := by
  intro rs
  induction rs with
  | nil => intro ls; simp [pairHits]
  | cons r rs ih =>
    intro ls
    cases ls with
    | nil => simp [pairHits]
    | cons l ls =>
      have := ih ls
      cases r <;> cases l <;> simp only [pairHits] <;> (try split) <;>
        simp only [List.length_cons] <;> omega

theorem eosHits_length_le (bidx : List (List (Nat × Nat))) :
    ∀ (rs : List (Option Nat)), (eosHits bidx rs).length ≤ rs.length := by
  intro rs
  induction rs with
  | nil => simp [eosHits]
  | cons r rs ih =>
    cases r <;> simp only [eosHits] <;> (try split) <;>
      simp only [List.length_cons] <;> omega

theorem bosHits_length_le (hm : List (Nat × Nat)) :
    ∀ (ls : List (Option Nat)), (bosHits hm ls).length ≤ ls.length := by
  intro ls
  induction ls with
  | nil => simp [bosHits]
  | cons l ls ih =>
    cases l <;> simp only [bosHits] <;> (try split) <;>
      simp only [List.length_cons] <;> omega

section
variable {W S : Type} [WeightOps W S]

/-- `weight += weights[i]` for the indices in order (`panic` = index out of range). -/
def sumIdx (wt : List W) : List Nat → W → Outcome W
  | [], acc => .ok acc
  | i :: is, acc =>
    match wt[i]? with
    | some w => sumIdx wt is (add acc w)
    | none => .panic

theorem sumPair_eq (wt : List W) (bidx : List (List (Nat × Nat))) :
    ∀ (rs ls : List (Option Nat)) (acc : W),
      sumPair wt bidx rs ls acc = sumIdx wt (pairHits bidx rs ls) acc := by
  intro rs
  induction rs with
  | nil => intro ls acc; cases ls <;> simp [sumPair, pairHits, sumIdx]
  | cons r rs ih =>
    intro ls acc
    cases ls with
    | nil => cases r <;> simp [sumPair, pairHits, sumIdx]
    | cons l ls =>
      cases r with
      | none => simp only [sumPair, pairHits]; exact ih ls acc
      | some r =>
        cases l with
        | none => simp only [sumPair, pairHits]; exact ih ls acc
        | some l =>
          simp only [sumPair, pairHits]
          cases (bidx[r]?).bind (fun hm => lookupLast hm l) with
          | none => exact ih ls acc
          | some widx =>
            simp only [sumIdx]
            cases wt[widx]? with
            | none => rfl
            | some w => exact ih ls _

theorem sumEos_eq (wt : List W) (bidx : List (List (Nat × Nat))) :
    ∀ (rs : List (Option Nat)) (acc : W), sumEos wt bidx rs acc = sumIdx wt (eosHits bidx rs) acc := by
  intro rs
  induction rs with
  | nil => intro acc; simp [sumEos, eosHits, sumIdx]
  | cons r rs ih =>
    intro acc
    cases r with
    | none => simp only [sumEos, eosHits]; exact ih acc
    | some fid =>
      simp only [sumEos, eosHits]
      cases (bidx[fid]?).bind (fun hm => lookupLast hm 0) with
      | none => exact ih acc
      | some widx =>
        simp only [sumIdx]
        cases wt[widx]? with
        | none => rfl
        | some w => exact ih _

theorem sumBos_eq (wt : List W) (hm : List (Nat × Nat)) :
    ∀ (ls : List (Option Nat)) (acc : W),
      sumBos wt (some hm) ls acc = sumIdx wt (bosHits hm ls) acc := by
  intro ls
  induction ls with
  | nil => intro acc; simp [sumBos, bosHits, sumIdx]
  | cons l ls ih =>
    intro acc
    cases l with
    | none => simp only [sumBos, bosHits]; exact ih acc
    | some fid =>
      simp only [sumBos, bosHits]
      cases lookupLast hm fid with
      | none => exact ih acc
      | some widx =>
        simp only [sumIdx]
        cases wt[widx]? with
        | none => rfl
        | some w => exact ih _

/-- Without a BOS table the sum is `0.0` as long as no class carries a feature id (then the
code does not evaluate `bigram_weight_indices[0]`). -/
theorem sumBos_none_ok (wt : List W) :
    ∀ (ls : List (Option Nat)) (acc w : W), sumBos wt none ls acc = .ok w → w = acc := by
  intro ls
  induction ls with
  | nil => intro acc w h; simp only [sumBos] at h; cases h; rfl
  | cons l ls ih =>
    intro acc w h
    cases l with
    | none => simp only [sumBos] at h; exact ih acc w h
    | some fid => simp only [sumBos] at h; cases h

/-! ## Where the entries are stored -/

/-- The entries kept from the class weights `ws` (class `j` gets key `i + j + 1`). -/
def keep : List W → Nat → List (Nat × W)
  | [], _ => []
  | w :: ws, i => if geEps w then (i + 1, w) :: keep ws (i + 1) else keep ws (i + 1)

/-- `sumF` succeeds on every class with the listed results. -/
inductive AllOk {α : Type} (sumF : α → Outcome W) : List α → List W → Prop where
  | nil : AllOk sumF [] []
  | cons {x : α} {xs : List α} {w : W} {ws : List W} :
      sumF x = .ok w → AllOk sumF xs ws → AllOk sumF (x :: xs) (w :: ws)

theorem AllOk.length {α : Type} {sumF : α → Outcome W} {xs : List α} {ws : List W}
    (h : AllOk sumF xs ws) : ws.length = xs.length := by
  induction h with
  | nil => rfl
  | cons _ _ ih => simp [ih]

theorem AllOk.get {α : Type} {sumF : α → Outcome W} {xs : List α} {ws : List W}
    (h : AllOk sumF xs ws) : ∀ (j : Nat) (x : α), xs[j]? = some x →
      ∃ w, ws[j]? = some w ∧ sumF x = .ok w := by
  induction h with
  | nil => intro j x hx; simp at hx
  | cons h0 _ ih =>
    intro j x hx
    cases j with
    | zero => simp only [List.getElem?_cons_zero, Option.some.injEq] at hx; subst hx; exact ⟨_, by simp, h0⟩
    | succ j => simp only [List.getElem?_cons_succ] at hx ⊢; exact ih j x hx

theorem rowEntries_closed (sumF : List (Option Nat) → Outcome W) :
    ∀ (L : List (List (Option Nat))) (i : Nat) (acc row : List (Nat × W)),
      rowEntries sumF L i acc = .ok row →
      ∃ ws, AllOk sumF L ws ∧ row = acc.reverse ++ keep ws i := by
  intro L
  induction L with
  | nil =>
    intro i acc row h
    simp only [rowEntries] at h
    cases h
    exact ⟨[], .nil, by simp [keep]⟩
  | cons lf rest ih =>
    intro i acc row h
    simp only [rowEntries] at h
    split at h
    · cases h
    · cases h
    · rename_i w hw
      split at h
      · rename_i hge
        split at h
        · cases h
        · obtain ⟨ws, hall, hrow⟩ := ih (i + 1) _ row h
          exact ⟨w :: ws, .cons hw hall, by simp [hrow, keep, hge]⟩
      · rename_i hge
        obtain ⟨ws, hall, hrow⟩ := ih (i + 1) _ row h
        exact ⟨w :: ws, .cons hw hall, by simp [hrow, keep, hge]⟩

/-- The stored value for key `k` in a row (`hm.get(&k)`; keys are distinct). -/
def entryOf (row : List (Nat × W)) (k : Nat) : Option W :=
  (row.find? (fun e => e.1 == k)).map (·.2)

theorem keep_keys_gt (ws : List W) (i : Nat) : ∀ e ∈ keep ws i, i < e.1 := by
  induction ws generalizing i with
  | nil => intro e he; simp [keep] at he
  | cons w ws ih =>
    intro e he
    simp only [keep] at he
    split at he
    · simp only [List.mem_cons] at he
      rcases he with rfl | he
      · exact Nat.lt_succ_self i
      · have := ih (i + 1) e he; omega
    · have := ih (i + 1) e he; omega

/-- The entry for class `j` (key `i + j + 1`) is its weight iff `|w| ≥ EPSILON`. -/
theorem entryOf_keep (ws : List W) : ∀ (i j : Nat) (w : W), ws[j]? = some w →
    entryOf (keep ws i) (i + j + 1) = if geEps w then some w else none := by
  induction ws with
  | nil => intro i j w h; simp at h
  | cons w0 ws ih =>
    intro i j w h
    cases j with
    | zero =>
      simp only [List.getElem?_cons_zero, Option.some.injEq] at h
      subst h
      simp only [keep, Nat.add_zero]
      split
      · simp [entryOf]
      · -- no later entry has this key
        have hgt := keep_keys_gt ws (i + 1)
        have : (keep ws (i + 1)).find? (fun e => e.1 == i + 1) = none := by
          rw [List.find?_eq_none]
          intro e he
          have := hgt e he
          simp only [beq_iff_eq]; omega
        simp [entryOf, this]
    | succ j =>
      simp only [List.getElem?_cons_succ] at h
      have := ih (i + 1) j w h
      have hk : i + 1 + j + 1 = i + (j + 1) + 1 := by omega
      rw [hk] at this
      simp only [keep]
      split
      · have hne : ¬ (i + 1 = i + (j + 1) + 1) := by omega
        simpa [entryOf, hne] using this
      · exact this

theorem matrixRows_closed (wt : List W) (bidx : List (List (Nat × Nat)))
    (L : List (List (Option Nat))) :
    ∀ (Rs : List (List (Option Nat))) (acc rows : List (List (Nat × W))),
      matrixRows wt bidx L Rs acc = .ok rows →
      ∃ news, rows = acc.reverse ++ news ∧ news.length = Rs.length ∧
        ∀ (q : Nat) (rf : List (Option Nat)), Rs[q]? = some rf →
          ∃ we ws, sumEos wt bidx rf zero = .ok we ∧
            AllOk (fun lf => sumPair wt bidx rf lf zero) L ws ∧
            news[q]? = some ((if geEps we then [(0, we)] else []) ++ keep ws 0) := by
  intro Rs
  induction Rs with
  | nil =>
    intro acc rows h
    simp only [matrixRows] at h
    cases h
    exact ⟨[], by simp, rfl, by simp⟩
  | cons rf0 rest ih =>
    intro acc rows h
    simp only [matrixRows] at h
    split at h
    · cases h
    · cases h
    · rename_i we hwe
      split at h
      · cases h
      · cases h
      · rename_i row hrow
        obtain ⟨ws, hall, hr⟩ := rowEntries_closed _ L 0 _ row hrow
        obtain ⟨news, hrows, hlen, hq⟩ := ih _ rows h
        refine ⟨row :: news, by simp [hrows], by simp [hlen], ?_⟩
        intro q rf hrf
        cases q with
        | zero =>
          simp only [List.getElem?_cons_zero, Option.some.injEq] at hrf
          subst hrf
          refine ⟨we, ws, hwe, hall, ?_⟩
          simp only [List.getElem?_cons_zero, hr, List.reverse_reverse]
        | succ q =>
          simp only [List.getElem?_cons_succ] at hrf ⊢
          exact hq q rf hrf

end
end Vibrato.Trainer
