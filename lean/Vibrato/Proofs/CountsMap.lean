/-
Helper lemmas for C13 (worker side): a permutation of `1..n` is accepted by the dictionary
model's `parseMap` (`ConnIdMapper::parse`, `Model/Dict.lean`) and `DictM.mapIds` succeeds with
it on a dictionary of matching dimensions whose parameters are in range.  Core Lean only.
-/
import Vibrato.Model.Dict
import Vibrato.Proofs.Counts

namespace Vibrato

/-- the loop of `parseMap` (same function as the inline `fun` there) -/
def pmFold (n : Nat) (zs : List (Nat × Nat)) (init : Option (List (Option Nat))) :
    Option (List (Option Nat)) :=
  zs.foldl (fun (acc : Option (List (Option Nat))) (p : Nat × Nat) => do
      let a ← acc
      let (old, i) := p
      if old ≥ n then none
      else match a.getD old none with
        | some _ => none
        | none => if i + 1 > 65535 then none else pure (a.set old (some (i + 1)))) init

theorem parseMap_eq (m : List Nat) :
    parseMap m = if m.any (· == 0) then none
      else (pmFold (m.length + 1) m.zipIdx
        (some (some 0 :: List.replicate m.length none))).bind fun a => a.mapM id := rfl

theorem pmFold_ok (n : Nat) :
    ∀ (m : List Nat) (k : Nat) (a : List (Option Nat)), a.length = n → m.Nodup →
      (∀ x ∈ m, x < n ∧ a[x]? = some none) → k + m.length ≤ 65535 →
      ∃ a', pmFold n (m.zipIdx k) (some a) = some a' ∧ a'.length = n ∧
        (∀ j, j ∉ m → a'[j]? = a[j]?) ∧ (∀ x ∈ m, ∃ v, a'[x]? = some (some v)) := by
  intro m
  induction m with
  | nil => intro k a hlen _ _ _; exact ⟨a, rfl, hlen, fun _ _ => rfl, by simp⟩
  | cons x xs ih =>
    intro k a hlen hnd hall hk
    obtain ⟨hx1, hx2⟩ := hall x (by simp)
    have hnd' := List.nodup_cons.1 hnd
    have hstep : pmFold n ((x :: xs).zipIdx k) (some a) =
        pmFold n (xs.zipIdx (k + 1)) (some (a.set x (some (k + 1)))) := by
      have hg : a.getD x none = none := by
        rw [List.getD_eq_getElem?_getD, hx2]; rfl
      have hk' : ¬ (k + 1 > 65535) := by simp at hk; omega
      have hx' : ¬ (x ≥ n) := by omega
      simp only [pmFold, List.zipIdx_cons, List.foldl_cons, Option.bind_eq_bind, Option.bind_some,
        hx', if_false, hg, hk']
      rfl
    obtain ⟨a', h1, h2, h3, h4⟩ := ih (k + 1) (a.set x (some (k + 1))) (by simpa using hlen) hnd'.2
      (fun y hy => by
        obtain ⟨hy1, hy2⟩ := hall y (by simp [hy])
        have hne : x ≠ y := fun h => hnd'.1 (h ▸ hy)
        exact ⟨hy1, by rw [List.getElem?_set_ne hne]; exact hy2⟩)
      (by simp at hk; omega)
    refine ⟨a', by rw [hstep]; exact h1, h2, ?_, ?_⟩
    · intro j hj
      simp only [List.mem_cons, not_or] at hj
      rw [h3 j hj.2, List.getElem?_set_ne (Ne.symm hj.1)]
    · intro y hy
      rcases List.mem_cons.1 hy with rfl | hy
      · refine ⟨k + 1, ?_⟩
        rw [h3 y hnd'.1, List.getElem?_set_self (by omega)]
      · exact h4 y hy

theorem mapM_id_some (a : List (Option Nat)) (h : ∀ x ∈ a, ∃ v, x = some v) :
    ∃ ml, a.mapM id = some ml ∧ ml.length = a.length := by
  induction a with
  | nil => exact ⟨[], rfl, rfl⟩
  | cons x xs ih =>
    obtain ⟨v, rfl⟩ := h x (by simp)
    obtain ⟨ml, h1, h2⟩ := ih (fun y hy => h y (by simp [hy]))
    refine ⟨v :: ml, ?_, by simp [h2]⟩
    rw [List.mapM_cons, h1]
    rfl

/-- A permutation of `1..k` (`k ≤ 65535`) is accepted by `ConnIdMapper::parse`; the table has
`k + 1` entries. -/
theorem parseMap_perm (m : List Nat) (hp : m.Perm (List.range' 1 m.length)) (hlen : m.length ≤ 65535) :
    ∃ ml, parseMap m = some ml ∧ ml.length = m.length + 1 := by
  have hmem : ∀ x, x ∈ m ↔ 1 ≤ x ∧ x < 1 + m.length := by
    intro x; rw [hp.mem_iff, List.mem_range'_1]
  have hnd : m.Nodup := hp.nodup_iff.2 List.nodup_range'
  have hany : m.any (· == 0) = false := by
    rw [List.any_eq_false]
    intro x hx
    have := (hmem x).1 hx
    simp; omega
  obtain ⟨a', h1, h2, h3, h4⟩ := pmFold_ok (m.length + 1) m 0 (some 0 :: List.replicate m.length none)
    (by simp) hnd (fun x hx => by
      obtain ⟨hx1, hx2⟩ := (hmem x).1 hx
      refine ⟨by omega, ?_⟩
      obtain ⟨y, rfl⟩ : ∃ y, x = y + 1 := ⟨x - 1, by omega⟩
      rw [List.getElem?_cons_succ, List.getElem?_replicate]
      simp; omega) (by omega)
  have hall : ∀ x ∈ a', ∃ v, x = some v := by
    intro x hx
    obtain ⟨j, hj⟩ := List.mem_iff_getElem?.1 hx
    have hjlt : j < a'.length := by
      rcases Nat.lt_or_ge j a'.length with h | h
      · exact h
      · rw [List.getElem?_eq_none h] at hj; cases hj
    by_cases hjm : j ∈ m
    · obtain ⟨v, hv⟩ := h4 j hjm
      rw [hv] at hj; exact ⟨v, by simpa using hj.symm⟩
    · have hj0 : j = 0 := by
        have : ¬ (1 ≤ j ∧ j < 1 + m.length) := fun h => hjm ((hmem j).2 h)
        have := h2 ▸ hjlt
        omega
      subst hj0
      rw [h3 0 hjm] at hj
      exact ⟨0, by simpa using hj.symm⟩
  obtain ⟨ml, hm1, hm2⟩ := mapM_id_some a' hall
  refine ⟨ml, ?_, by rw [hm2, h2]⟩
  rw [parseMap_eq, hany]
  simp only [Bool.false_eq_true, if_false, h1, Option.bind_some]
  exact hm1

/-- the statistics of a counter (`probsOf`) are accepted by `ConnIdMapper::parse` -/
theorem probsOf_parseMap (counts ids : List Nat) (hlen : counts.length ≤ 65536)
    (h : probsOf counts = some ids) : ∃ ml, parseMap ids = some ml ∧ ml.length = counts.length := by
  have hne : counts ≠ [] := by
    intro h0; subst h0; rw [probsOf_nil] at h; cases h
  obtain ⟨ids', h1, h2, _⟩ := probsOf_spec counts hne
  rw [h] at h1
  simp only [Option.some.injEq] at h1
  subst h1
  have hl : ids.length = counts.length - 1 := by
    have := h2.length_eq; simpa using this
  have hpos : 0 < counts.length := List.length_pos_iff.2 hne
  obtain ⟨ml, hm1, hm2⟩ := parseMap_perm ids (by rw [hl]; exact h2) (by omega)
  exact ⟨ml, hm1, by omega⟩

/-! ### `mapIds` -/

theorem mapM_some_of_all {α β : Type} (f : α → Option β) (l : List α)
    (h : ∀ x ∈ l, (f x).isSome) : ∃ r, l.mapM f = some r := by
  induction l with
  | nil => exact ⟨[], rfl⟩
  | cons x xs ih =>
    obtain ⟨r, hr⟩ := ih (fun y hy => h y (by simp [hy]))
    have hx := h x (by simp)
    cases hfx : f x with
    | none => rw [hfx] at hx; cases hx
    | some b =>
      refine ⟨b :: r, ?_⟩
      rw [List.mapM_cons, hfx, hr]
      rfl

theorem mapParam_isSome (ml mr : List Nat) (p : WordParam) (h1 : p.leftId < ml.length)
    (h2 : p.rightId < mr.length) : (mapParam ml mr p).isSome := by
  simp [mapParam, List.getElem?_eq_getElem h1, List.getElem?_eq_getElem h2]

theorem paramsInRange_iff (ps : List WordParam) (nl nr : Nat) :
    paramsInRange ps nl nr = true ↔ ∀ p ∈ ps, p.leftId < nl ∧ p.rightId < nr := by
  simp [paramsInRange, List.all_eq_true]

theorem mapLex_some (ml mr : List Nat) (L : LexM)
    (h : paramsInRange (L.entries.map (·.param)) ml.length mr.length = true) :
    ∃ L', mapLex ml mr L = some L' := by
  rw [paramsInRange_iff] at h
  obtain ⟨es, hes⟩ := mapM_some_of_all
    (fun e : LexEntry => do
      let p ← mapParam ml mr e.param
      pure { e with param := p }) L.entries (fun e he => by
        have := h e.param (List.mem_map.2 ⟨e, he, rfl⟩)
        have hs := mapParam_isSome ml mr e.param this.1 this.2
        cases hp : mapParam ml mr e.param with
        | none => rw [hp] at hs; cases hs
        | some p => simp)
  refine ⟨{ L with entries := es }, ?_⟩
  unfold mapLex
  rw [hes]
  rfl

/-- `map_connection_ids_from_iter` succeeds for mappings that parse to tables of the connector's
dimensions, on a dictionary whose stored parameters are in range (what the builders verify). -/
theorem mapIds_ok_of_parse (fx : Fixes) (D : DictM) (l r ml mr : List Nat)
    (hl : parseMap l = some ml) (hr : parseMap r = some mr)
    (hml : ml.length = D.numLeft) (hmr : mr.length = D.numRight)
    (hsys : paramsInRange (D.sys.entries.map (·.param)) D.numLeft D.numRight = true)
    (huser : ∀ u, D.user = some u →
      paramsInRange (u.entries.map (·.param)) D.numLeft D.numRight = true)
    (hunk : paramsInRange (D.unk.map (·.param)) D.numLeft D.numRight = true) :
    ∃ D', D.mapIds fx l r = .ok D' := by
  obtain ⟨sys', hs⟩ := mapLex_some ml mr D.sys (by rw [hml, hmr]; exact hsys)
  obtain ⟨unk', hu⟩ := mapM_some_of_all
    (fun e : UnkEntryM => (mapParam ml mr e.param).map fun p => { e with param := p }) D.unk
    (fun e he => by
      have := (paramsInRange_iff _ _ _).1 hunk e.param (List.mem_map.2 ⟨e, he, rfl⟩)
      have hs := mapParam_isSome ml mr e.param (by rw [hml]; exact this.1) (by rw [hmr]; exact this.2)
      cases hp : mapParam ml mr e.param with
      | none => rw [hp] at hs; cases hs
      | some p => simp)
  have hlen : ¬ (ml.length ≠ D.numLeft ∨ mr.length ≠ D.numRight) := by simp [hml, hmr]
  cases hU : D.user with
  | none =>
    simp only [DictM.mapIds, hl, hr, hlen, and_false, if_false, hs, hU, hu]
    exact ⟨_, rfl⟩
  | some u =>
    obtain ⟨u', hu'⟩ := mapLex_some ml mr u (by rw [hml, hmr]; exact huser u hU)
    simp only [DictM.mapIds, hl, hr, hlen, and_false, if_false, hs, hU, hu, hu', Option.map_some]
    exact ⟨_, rfl⟩

end Vibrato
