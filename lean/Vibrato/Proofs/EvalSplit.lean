/-
Helper lemmas for `Props/C19cli.lean` (programs `split`, `evaluate`, `tokenize -O wakati|detail`).
Core Lean only.

A. `split`: the three runs of a permuted list.
B. sets as lists: `distinct`, sizes of duplicate-free lists.
C. `evaluate`: the accumulator loop; evaluate's own `parse_csv_row` versus the library's.
D. self-evaluation for an abstract tokenizer that reports the reference segmentation.
E. `wakati` / `detail` output: splitting on a separator byte.
-/
import Vibrato.Model.EvalSplit
import Vibrato.Proofs.Corpus
import Vibrato.Proofs.CsvRowTotal

namespace Vibrato.EvalSplit

open Vibrato.Corpus

/-! ## A. `split` -/

theorem take_drop_perm {α : Type} (s : List α) (v t : Nat) :
    (s.take v ++ (s.drop v).take t ++ (s.drop v).drop t).Perm s := by
  rw [List.append_assoc, List.take_append_drop, List.take_append_drop]

theorem take_drop_lengths {α : Type} (s : List α) (v t : Nat) (h : v + t ≤ s.length) :
    (s.take v).length = v ∧ ((s.drop v).take t).length = t ∧
      ((s.drop v).drop t).length = s.length - v - t := by
  refine ⟨?_, ?_, ?_⟩ <;> simp only [List.length_take, List.length_drop] <;> omega

theorem splitExamples_ok (sh : List Example → List Example) (v t : Nat) (exs : List Example)
    (h : v + t ≤ exs.length) :
    splitExamples sh v t exs =
      .ok (writeCorpus ((sh exs).take v), writeCorpus (((sh exs).drop v).take t),
           writeCorpus (((sh exs).drop v).drop t)) := by
  unfold splitExamples
  rw [if_neg (by omega)]

theorem splitExamples_err (sh : List Example → List Example) (v t : Nat) (exs : List Example)
    (h : exs.length < v + t) : splitExamples sh v t exs = .err := by
  unfold splitExamples
  rw [if_pos (by omega)]

/-! ## B. sets as lists -/

theorem mem_distinct {α : Type} [DecidableEq α] {a : α} {l : List α} :
    a ∈ distinct l ↔ a ∈ l := by
  induction l with
  | nil => simp [distinct]
  | cons b l ih =>
    simp only [distinct]
    split
    · rename_i hb
      rw [ih, List.mem_cons]
      constructor
      · exact Or.inr
      · rintro (rfl | h)
        · exact hb
        · exact h
    · simp only [List.mem_cons, ih]

theorem nodup_distinct {α : Type} [DecidableEq α] (l : List α) : (distinct l).Nodup := by
  induction l with
  | nil => simp [distinct]
  | cons b l ih =>
    simp only [distinct]
    split
    · exact ih
    · rename_i hb
      rw [List.nodup_cons]
      exact ⟨fun h => hb (mem_distinct.mp h), ih⟩

theorem length_distinct_le {α : Type} [DecidableEq α] (l : List α) :
    (distinct l).length ≤ l.length := by
  induction l with
  | nil => simp [distinct]
  | cons b l ih =>
    simp only [distinct]
    split
    · simp only [List.length_cons]; omega
    · simp only [List.length_cons]; omega

theorem distinct_of_nodup {α : Type} [DecidableEq α] {l : List α} (h : l.Nodup) :
    distinct l = l := by
  induction l with
  | nil => rfl
  | cons b l ih =>
    rw [List.nodup_cons] at h
    simp only [distinct, h.1, if_false, ih h.2]

/-- A duplicate-free list whose elements all occur in `l₂` is not longer than `l₂`. -/
theorem nodup_length_le_of_subset {α : Type} [DecidableEq α] :
    ∀ {l₁ l₂ : List α}, l₁.Nodup → (∀ x ∈ l₁, x ∈ l₂) → l₁.length ≤ l₂.length
  | [], _, _, _ => Nat.zero_le _
  | a :: t, l₂, hn, hs => by
    rw [List.nodup_cons] at hn
    have ha : a ∈ l₂ := hs a (by simp)
    have ht : ∀ x ∈ t, x ∈ l₂.erase a := by
      intro x hx
      have hxa : x ≠ a := fun e => hn.1 (e ▸ hx)
      exact (List.mem_erase_of_ne hxa).mpr (hs x (by simp [hx]))
    have ih := nodup_length_le_of_subset hn.2 ht
    rw [List.length_erase_of_mem ha] at ih
    have : 0 < l₂.length := List.length_pos_of_mem ha
    simp only [List.length_cons]
    omega

/-- The size of a finite set does not depend on the duplicate-free list that enumerates it. -/
theorem nodup_length_unique {α : Type} [DecidableEq α] {l₁ l₂ : List α}
    (h₁ : l₁.Nodup) (h₂ : l₂.Nodup) (h : ∀ x, x ∈ l₁ ↔ x ∈ l₂) : l₁.length = l₂.length :=
  Nat.le_antisymm (nodup_length_le_of_subset h₁ fun x hx => (h x).mp hx)
    (nodup_length_le_of_subset h₂ fun x hx => (h x).mpr hx)

theorem countsOf_cor_le_ref (refs syss : List Item) :
    (countsOf refs syss).cor ≤ (countsOf refs syss).ref := by
  simp only [countsOf]
  exact List.length_filter_le _ _

theorem countsOf_cor_le_sys (refs syss : List Item) :
    (countsOf refs syss).cor ≤ (countsOf refs syss).sys := by
  simp only [countsOf]
  apply nodup_length_le_of_subset
  · exact (nodup_distinct refs).filter _
  · intro x hx
    simp only [List.mem_filter, decide_eq_true_eq] at hx
    exact mem_distinct.mpr hx.2

theorem countsOf_self (r : List Item) :
    countsOf r r = ⟨(distinct r).length, (distinct r).length, (distinct r).length⟩ := by
  simp only [countsOf]
  congr 1
  rw [List.filter_eq_self.mpr]
  intro x hx
  simpa using mem_distinct.mp hx

/-! ## C. `evaluate` -/

section Generic

variable (rowp : List UInt8 → Outcome Feats)

/-- Component-wise sum of counts. -/
def sumCounts : List Counts → Counts
  | [] => ⟨0, 0, 0⟩
  | c :: cs => ⟨c.ref + (sumCounts cs).ref, c.sys + (sumCounts cs).sys, c.cor + (sumCounts cs).cor⟩

/-- The per-example results of the scoring loop; `none` when some example fails. -/
def exampleCounts (rowp : List UInt8 → Outcome Feats)
    (tok : List UInt8 → Outcome (List SysTok)) (idx : List Nat) :
    List Example → Option (List Counts)
  | [] => some []
  | e :: es =>
    match evalExample rowp tok idx e, exampleCounts rowp tok idx es with
    | .ok c, some cs => some (c :: cs)
    | _, _ => none

theorem evalLoop_ok_iff (tok : List UInt8 → Outcome (List SysTok)) (idx : List Nat)
    (es : List Example) : ∀ (acc c : Counts),
    evalLoop rowp tok idx acc es = .ok c ↔
      ∃ cs, exampleCounts rowp tok idx es = some cs ∧
        c = ⟨acc.ref + (sumCounts cs).ref, acc.sys + (sumCounts cs).sys,
             acc.cor + (sumCounts cs).cor⟩ := by
  induction es with
  | nil =>
    intro acc c
    simp only [evalLoop, exampleCounts, Option.some.injEq]
    constructor
    · intro h; cases h; exact ⟨[], rfl, by simp [sumCounts]⟩
    · rintro ⟨cs, rfl, rfl⟩; simp [sumCounts]
  | cons e es ih =>
    intro acc c
    simp only [evalLoop, exampleCounts]
    cases he : evalExample rowp tok idx e with
    | ok c1 =>
      simp only
      rw [ih]
      constructor
      · rintro ⟨cs, hcs, rfl⟩
        refine ⟨c1 :: cs, by simp [hcs], ?_⟩
        simp only [sumCounts, Counts.mk.injEq]
        omega
      · rintro ⟨cs', hcs', rfl⟩
        cases hx : exampleCounts rowp tok idx es with
        | none => simp [hx] at hcs'
        | some cs =>
          simp only [hx, Option.some.injEq] at hcs'
          subst hcs'
          refine ⟨cs, rfl, ?_⟩
          simp only [sumCounts, Counts.mk.injEq]
          omega
    | err => simp
    | panic => simp

theorem evaluate_ok_iff (tok : List UInt8 → Outcome (List SysTok)) (idx : List Nat)
    (es : List Example) (c : Counts) :
    evaluateWith rowp tok idx es = .ok c ↔
      ∃ cs, exampleCounts rowp tok idx es = some cs ∧ c = sumCounts cs := by
  unfold evaluateWith
  rw [evalLoop_ok_iff]
  constructor
  · rintro ⟨cs, h, rfl⟩; exact ⟨cs, h, by simp⟩
  · rintro ⟨cs, h, rfl⟩; exact ⟨cs, h, by simp⟩

theorem exampleCounts_cons_some {tok : List UInt8 → Outcome (List SysTok)} {idx : List Nat}
    {e : Example} {es : List Example} {cs : List Counts}
    (h : exampleCounts rowp tok idx (e :: es) = some cs) :
    ∃ c cs', cs = c :: cs' ∧ evalExample rowp tok idx e = .ok c ∧
      exampleCounts rowp tok idx es = some cs' := by
  simp only [exampleCounts] at h
  cases he : evalExample rowp tok idx e with
  | ok c =>
    cases hx : exampleCounts rowp tok idx es with
    | none => simp [he, hx] at h
    | some cs' =>
      simp only [he, hx, Option.some.injEq] at h
      exact ⟨c, cs', h.symm, rfl, rfl⟩
  | err => simp [he] at h
  | panic => simp [he] at h

/-- The items inserted into `refs`: one per token. -/
theorem refItems_length (idx : List Nat) : ∀ (ws : List Word) (s : Nat) (r : List Item),
    refItems rowp idx s ws = .ok r → r.length = ws.length
  | [], _, r, h => by simp only [refItems] at h; cases h; rfl
  | w :: ws, s, r, h => by
    simp only [refItems] at h
    split at h
    · split at h
      · rename_i r' hr'
        cases h
        simp [refItems_length idx ws _ r' hr']
      · cases h
      · cases h
    · cases h
    · cases h

theorem sysItems_length (idx : List Nat) : ∀ (ts : List SysTok) (r : List Item),
    sysItems rowp idx ts = .ok r → r.length = ts.length
  | [], r, h => by simp only [sysItems] at h; cases h; rfl
  | t :: ts, r, h => by
    simp only [sysItems] at h
    split at h
    · split at h
      · rename_i r' hr'
        cases h
        simp [sysItems_length idx ts r' hr']
      · cases h
      · cases h
    · cases h
    · cases h

theorem evalExample_ok_inv {tok : List UInt8 → Outcome (List SysTok)} {idx : List Nat}
    {e : Example} {c : Counts} (h : evalExample rowp tok idx e = .ok c) :
    ∃ refs toks syss, refItems rowp idx 0 e.tokens = .ok refs ∧
      tok (sentenceOf e.tokens) = .ok toks ∧ sysItems rowp idx toks = .ok syss ∧
      c = countsOf refs syss := by
  unfold evalExample at h
  split at h
  · rename_i refs hr
    split at h
    · rename_i toks ht
      split at h
      · rename_i syss hs
        cases h
        exact ⟨refs, toks, syss, hr, ht, hs, rfl⟩
      · cases h
      · cases h
    · cases h
    · cases h
  · cases h
  · cases h

theorem exampleCounts_bounds (tok : List UInt8 → Outcome (List SysTok)) (idx : List Nat) :
    ∀ (es : List Example) (cs : List Counts), exampleCounts rowp tok idx es = some cs →
      (sumCounts cs).cor ≤ (sumCounts cs).ref ∧ (sumCounts cs).cor ≤ (sumCounts cs).sys ∧
      (sumCounts cs).ref ≤ (es.map fun e => e.tokens.length).sum
  | [], cs, h => by
    simp only [exampleCounts, Option.some.injEq] at h
    subst h
    simp [sumCounts]
  | e :: es, cs, h => by
    obtain ⟨c, cs', rfl, he, hes⟩ := exampleCounts_cons_some rowp h
    obtain ⟨h1, h2, h3⟩ := exampleCounts_bounds tok idx es cs' hes
    obtain ⟨refs, toks, syss, hr, _, _, rfl⟩ := evalExample_ok_inv rowp he
    have a1 := countsOf_cor_le_ref refs syss
    have a2 := countsOf_cor_le_sys refs syss
    have a3 : (countsOf refs syss).ref ≤ e.tokens.length := by
      rw [← refItems_length rowp idx e.tokens 0 refs hr]
      exact length_distinct_le refs
    simp only [sumCounts, List.map_cons, List.sum_cons]
    omega

end Generic

/-! ### evaluate's `parse_csv_row` panics wherever the library's pinned copy does -/

theorem evalRowLoop_panic_of_rowLoop (fuel : Nat) :
    ∀ (rdr : Csv.Reader) (bytes : List UInt8) (acc : Feats),
      LexCsv.rowLoop LexCsv.outCap fuel rdr bytes acc = some .panic →
      evalRowLoop fuel rdr bytes acc = some .panic := by
  induction fuel with
  | zero => intro rdr bytes acc h; simp [LexCsv.rowLoop] at h
  | succ n ih =>
    intro rdr bytes acc h
    simp only [LexCsv.rowLoop] at h
    simp only [evalRowLoop]
    generalize Csv.readField rdr bytes LexCsv.outCap = rr at h ⊢
    obtain ⟨res, nin, out, rdr'⟩ := rr
    cases res with
    | inputEmpty =>
      simp only at h ⊢
      split at h
      · cases h
      · rename_i hv; simp [hv]
    | outputFull => rfl
    | end_ => rfl
    | field re =>
      simp only at h ⊢
      split at h
      · rename_i hv
        simp only [hv, if_true]
        exact ih _ _ _ h
      · rename_i hv; simp [hv]

theorem evalCsvRow_panic_of_pinned {row : List UInt8}
    (h : LexCsv.parseCsvRowBytes false row = .panic) : evalCsvRow row = .panic := by
  unfold LexCsv.parseCsvRowBytes at h
  unfold evalCsvRow
  have hcap : LexCsv.rowCap false row = LexCsv.outCap := by simp [LexCsv.rowCap]
  rw [hcap] at h
  have htot := LexCsv.rowLoop_total LexCsv.outCap row
  cases hr : LexCsv.rowLoop LexCsv.outCap (LexCsv.parseFuel row) Csv.Reader.new row [] with
  | none => rw [hr] at htot; cases htot
  | some r =>
    rw [hr] at h
    simp only at h
    subst h
    rw [evalRowLoop_panic_of_rowLoop _ _ _ _ hr]

/-- The empty row: the first `read_field` call returns `End`. -/
theorem evalCsvRow_nil : evalCsvRow [] = .panic := by decide

theorem evalRowLoop_ne_err (fuel : Nat) :
    ∀ (rdr : Csv.Reader) (bytes : List UInt8) (acc : Feats),
      evalRowLoop fuel rdr bytes acc ≠ some .err := by
  induction fuel with
  | zero => intro rdr bytes acc; simp [evalRowLoop]
  | succ n ih =>
    intro rdr bytes acc
    simp only [evalRowLoop]
    generalize Csv.readField rdr bytes LexCsv.outCap = rr
    obtain ⟨res, nin, out, rdr'⟩ := rr
    cases res with
    | inputEmpty => simp only; split <;> simp
    | outputFull => simp
    | end_ => simp
    | field re =>
      simp only
      split
      · exact ih _ _ _
      · simp

/-- evaluate's `parse_csv_row` has no error path. -/
theorem evalCsvRow_ne_err (row : List UInt8) : evalCsvRow row ≠ .err := by
  unfold evalCsvRow
  cases h : evalRowLoop (LexCsv.parseFuel row) Csv.Reader.new row [] with
  | none => simp
  | some r =>
    simp only
    intro hr
    subst hr
    exact evalRowLoop_ne_err _ _ _ _ h

/-- The fuel always suffices (same measure as for the library's loop). -/
theorem evalRowLoop_isSome (fuel : Nat) (rdr : Csv.Reader) (bytes : List UInt8) (acc : Feats)
    (h : 2 * bytes.length + (if LexCsv.flushed rdr.state then 0 else 1) < fuel) :
    (evalRowLoop fuel rdr bytes acc).isSome = true := by
  induction fuel generalizing rdr bytes acc with
  | zero => omega
  | succ n ih =>
    simp only [evalRowLoop]
    have hm := @LexCsv.readField_field_measure rdr bytes LexCsv.outCap
    generalize Csv.readField rdr bytes LexCsv.outCap = rr at hm
    obtain ⟨res, nin, out, rdr'⟩ := rr
    simp only at hm ⊢
    cases res with
    | inputEmpty => simp only; split <;> rfl
    | outputFull => rfl
    | end_ => rfl
    | field re =>
      simp only
      split
      · exact ih rdr' (bytes.drop nin) _ (by have := hm rfl; omega)
      · rfl

theorem evalRowLoop_total (row : List UInt8) :
    (evalRowLoop (LexCsv.parseFuel row) Csv.Reader.new row []).isSome = true := by
  apply evalRowLoop_isSome
  simp [Csv.Reader.new, LexCsv.flushed, Csv.NfaState.idx, Csv.numClasses, LexCsv.parseFuel]

/-! ## D. self-evaluation for a tokenizer that reports the reference segmentation -/

section GenericD

variable (rowp : List UInt8 → Outcome Feats)

/-- What a tokenizer reports when its tokens are exactly the words `ws` laid out from character
position `start`: ranges are the accumulated character counts of the surfaces. -/
def accumToks : Nat → List Word → List SysTok
  | _, [] => []
  | start, w :: ws =>
    ⟨start, start + charCount w.surface, w.feature⟩ ::
      accumToks (start + charCount w.surface) ws

/-- With the same words the two insertion loops insert the same items. -/
theorem sysItems_accumToks (idx : List Nat) : ∀ (ws : List Word) (s : Nat),
    sysItems rowp idx (accumToks s ws) = refItems rowp idx s ws
  | [], _ => rfl
  | w :: ws, s => by
    simp only [accumToks, sysItems, refItems, sysItems_accumToks idx ws]

theorem refItems_start_ge (idx : List Nat) : ∀ (ws : List Word) (s : Nat) (r : List Item),
    refItems rowp idx s ws = .ok r → ∀ x ∈ r, s ≤ x.1.1
  | [], _, r, h, x, hx => by simp only [refItems] at h; cases h; cases hx
  | w :: ws, s, r, h, x, hx => by
    simp only [refItems] at h
    split at h
    · split at h
      · rename_i r' hr'
        cases h
        simp only [List.mem_cons] at hx
        rcases hx with rfl | hx
        · exact Nat.le_refl _
        · have := refItems_start_ge idx ws _ r' hr' x hx
          omega
      · cases h
      · cases h
    · cases h
    · cases h

/-- Non-empty surfaces give pairwise different ranges, hence pairwise different items. -/
theorem refItems_nodup (idx : List Nat) : ∀ (ws : List Word) (s : Nat) (r : List Item),
    (∀ w ∈ ws, 0 < charCount w.surface) → refItems rowp idx s ws = .ok r → r.Nodup
  | [], _, r, _, h => by simp only [refItems] at h; cases h; simp
  | w :: ws, s, r, hpos, h => by
    simp only [refItems] at h
    split at h
    · split at h
      · rename_i r' hr'
        cases h
        rw [List.nodup_cons]
        refine ⟨?_, refItems_nodup idx ws _ r' (fun x hx => hpos x (by simp [hx])) hr'⟩
        intro hm
        have := refItems_start_ge rowp idx ws _ r' hr' _ hm
        have := hpos w (by simp)
        simp only at *
        omega
      · cases h
      · cases h
    · cases h
    · cases h

variable (hrne : ∀ f, rowp f ≠ .err)

include hrne in
theorem refItems_ok_of_no_panic (idx : List Nat) : ∀ (ws : List Word) (s : Nat),
    (∀ w ∈ ws, rowp w.feature ≠ .panic) → ∃ r, refItems rowp idx s ws = .ok r
  | [], _, _ => ⟨[], rfl⟩
  | w :: ws, s, h => by
    simp only [refItems]
    cases hw : rowp w.feature with
    | ok fs =>
      obtain ⟨r, hr⟩ := refItems_ok_of_no_panic idx ws (s + charCount w.surface)
        (fun x hx => h x (by simp [hx]))
      refine ⟨((s, s + charCount w.surface), choose idx fs) :: r, ?_⟩
      simp only [hr]
    | err => exact absurd hw (hrne _)
    | panic => exact absurd hw (h w (by simp))

include hrne in
theorem refItems_panic_of_panic (idx : List Nat) : ∀ (ws : List Word) (s : Nat),
    (∃ w ∈ ws, rowp w.feature = .panic) → refItems rowp idx s ws = .panic
  | [], _, h => by obtain ⟨w, hw, _⟩ := h; cases hw
  | w :: ws, s, h => by
    simp only [refItems]
    cases hw : rowp w.feature with
    | ok fs =>
      have : ∃ x ∈ ws, rowp x.feature = .panic := by
        obtain ⟨x, hx, hp⟩ := h
        simp only [List.mem_cons] at hx
        rcases hx with rfl | hx
        · rw [hw] at hp; cases hp
        · exact ⟨x, hx, hp⟩
      simp only [refItems_panic_of_panic idx ws _ this]
    | err => exact absurd hw (hrne _)
    | panic => rfl

include hrne in
/-- One example of a self-evaluation: all three counts are the number of tokens. -/
theorem evalExample_self (tok : List UInt8 → Outcome (List SysTok)) (idx : List Nat)
    (ws : List Word) (htok : tok (sentenceOf ws) = .ok (accumToks 0 ws))
    (hpos : ∀ w ∈ ws, 0 < charCount w.surface)
    (hrow : ∀ w ∈ ws, rowp w.feature ≠ .panic) :
    evalExample rowp tok idx ⟨ws⟩ = .ok ⟨ws.length, ws.length, ws.length⟩ := by
  obtain ⟨r, hr⟩ := refItems_ok_of_no_panic rowp hrne idx ws 0 hrow
  have hs : sysItems rowp idx (accumToks 0 ws) = .ok r := by rw [sysItems_accumToks rowp, hr]
  have hnd := refItems_nodup rowp idx ws 0 r hpos hr
  have hlen := refItems_length rowp idx ws 0 r hr
  unfold evalExample
  simp only [hr, htok, hs, countsOf_self, distinct_of_nodup hnd, hlen]

include hrne in
theorem evalLoop_self (tok : List UInt8 → Outcome (List SysTok)) (idx : List Nat) :
    ∀ (sents : List (List Word)) (acc : Counts),
      (∀ ws ∈ sents, tok (sentenceOf ws) = .ok (accumToks 0 ws)) →
      (∀ ws ∈ sents, ∀ w ∈ ws, 0 < charCount w.surface) →
      (∀ ws ∈ sents, ∀ w ∈ ws, rowp w.feature ≠ .panic) →
      evalLoop rowp tok idx acc (sents.map Example.mk) =
        .ok ⟨acc.ref + (sents.map List.length).sum, acc.sys + (sents.map List.length).sum,
             acc.cor + (sents.map List.length).sum⟩
  | [], acc, _, _, _ => by simp [evalLoop]
  | ws :: rest, acc, htok, hpos, hrow => by
    simp only [List.map_cons, evalLoop]
    rw [evalExample_self rowp hrne tok idx ws (htok ws (by simp)) (hpos ws (by simp)) (hrow ws (by simp))]
    simp only
    rw [evalLoop_self tok idx rest _ (fun x hx => htok x (by simp [hx]))
      (fun x hx => hpos x (by simp [hx])) (fun x hx => hrow x (by simp [hx]))]
    simp only [List.sum_cons, Outcome.ok.injEq, Counts.mk.injEq]
    omega

include hrne in
/-- A panic of `parse_csv_row` in some example makes the whole loop panic, provided the
examples before it do not fail with an error (they cannot: no error path exists when the
tokenizer has none). -/
theorem evalLoop_panic_of_row_panic (tok : List UInt8 → Outcome (List SysTok)) (idx : List Nat)
    (hne : ∀ b, tok b ≠ .err) :
    ∀ (es : List Example) (acc : Counts),
      (∃ e ∈ es, ∃ w ∈ e.tokens, rowp w.feature = .panic) →
      evalLoop rowp tok idx acc es = .panic
  | [], _, h => by obtain ⟨e, he, _⟩ := h; cases he
  | e :: es, acc, h => by
    simp only [evalLoop]
    cases he : evalExample rowp tok idx e with
    | ok c =>
      simp only
      apply evalLoop_panic_of_row_panic tok idx hne es
      obtain ⟨e', he', w, hw, hp⟩ := h
      simp only [List.mem_cons] at he'
      rcases he' with rfl | he'
      · exfalso
        have := refItems_panic_of_panic rowp hrne idx e'.tokens 0 ⟨w, hw, hp⟩
        unfold evalExample at he
        rw [this] at he
        cases he
      · exact ⟨e', he', w, hw, hp⟩
    | panic => rfl
    | err =>
      exfalso
      unfold evalExample at he
      split at he
      · split at he
        · split at he
          · cases he
          · rename_i toks _ hs
            -- `sysItems` has no error path either
            have : ∀ (ts : List SysTok), sysItems rowp idx ts ≠ .err := by
              intro ts
              induction ts with
              | nil => simp [sysItems]
              | cons t ts ih =>
                simp only [sysItems]
                cases ht : rowp t.feature with
                | ok fs =>
                  simp only
                  cases hx : sysItems rowp idx ts with
                  | ok r => simp
                  | err => exact absurd hx ih
                  | panic => simp
                | err => exact absurd ht (hrne _)
                | panic => simp
            exact this _ hs
          · cases he
        · rename_i ht; exact hne _ ht
        · cases he
      · rename_i hr
        have : ∀ (ws : List Word) (s : Nat), refItems rowp idx s ws ≠ .err := by
          intro ws
          induction ws with
          | nil => intro s; simp [refItems]
          | cons w ws ih =>
            intro s
            simp only [refItems]
            cases hw : rowp w.feature with
            | ok fs =>
              simp only
              cases hx : refItems rowp idx (s + charCount w.surface) ws with
              | ok r => simp
              | err => exact absurd hx (ih _)
              | panic => simp
            | err => exact absurd hw (hrne _)
            | panic => simp
        exact this _ _ hr
      · cases he

end GenericD

/-! ## E. splitting on a separator byte -/

theorem splitOnByte_ne_nil (sep : UInt8) (l : List UInt8) : splitOnByte sep l ≠ [] := by
  induction l with
  | nil => simp [splitOnByte]
  | cons b bs ih =>
    simp only [splitOnByte]
    split
    · simp
    · split <;> simp

theorem splitOnByte_no_sep {sep : UInt8} {l : List UInt8} (h : sep ∉ l) :
    splitOnByte sep l = [l] := by
  induction l with
  | nil => rfl
  | cons b bs ih =>
    have hb : b ≠ sep := fun e => h (by simp [e])
    have hbs : sep ∉ bs := fun e => h (by simp [e])
    simp [splitOnByte, hb, ih hbs]

theorem splitOnByte_append {sep : UInt8} {a : List UInt8} (h : sep ∉ a) (rest : List UInt8) :
    splitOnByte sep (a ++ sep :: rest) = a :: splitOnByte sep rest := by
  induction a with
  | nil => simp [splitOnByte]
  | cons b bs ih =>
    have hb : b ≠ sep := fun e => h (by simp [e])
    have hbs : sep ∉ bs := fun e => h (by simp [e])
    simp [splitOnByte, hb, ih hbs]

theorem splitOnByte_length (sep : UInt8) (l : List UInt8) :
    (splitOnByte sep l).length = l.count sep + 1 := by
  induction l with
  | nil => simp [splitOnByte]
  | cons b bs ih =>
    simp only [splitOnByte]
    by_cases hb : b = sep
    · subst hb; simp [ih]
    · simp only [hb, if_false]
      have hne := splitOnByte_ne_nil sep bs
      cases hs : splitOnByte sep bs with
      | nil => exact absurd hs hne
      | cons p ps =>
        rw [hs] at ih
        simp only [List.length_cons] at ih ⊢
        have hc : List.count sep (b :: bs) = List.count sep bs := by
          rw [List.count_cons]; simp [hb]
        omega

theorem wakatiBody_cons_cons (s t : List UInt8) (rest : List (List UInt8)) :
    wakatiBody (s :: t :: rest) = s ++ SP :: wakatiBody (t :: rest) := rfl

theorem wakatiBody_count (ss : List (List UInt8)) (hne : ss ≠ []) :
    (wakatiBody ss).count SP = (ss.length - 1) + (ss.map (List.count SP)).sum := by
  induction ss with
  | nil => exact absurd rfl hne
  | cons s rest ih =>
    cases rest with
    | nil => simp [wakatiBody]
    | cons t rest' =>
      rw [wakatiBody_cons_cons, List.count_append, List.count_cons_self, ih (by simp)]
      simp only [List.length_cons, List.map_cons, List.sum_cons]
      omega

theorem splitOnByte_wakatiBody (ss : List (List UInt8)) (hne : ss ≠ [])
    (h : ∀ s ∈ ss, SP ∉ s) : splitOnByte SP (wakatiBody ss) = ss := by
  induction ss with
  | nil => exact absurd rfl hne
  | cons s rest ih =>
    cases rest with
    | nil => simp [wakatiBody, splitOnByte_no_sep (h s (by simp))]
    | cons t rest' =>
      rw [wakatiBody_cons_cons, splitOnByte_append (h s (by simp)),
        ih (by simp) (fun x hx => h x (by simp [hx]))]

/-! ### decimal digits contain no tab -/

theorem decDigits_digit (fuel n : Nat) : ∀ b ∈ decDigits fuel n, 48 ≤ b.toNat ∧ b.toNat ≤ 57 := by
  induction fuel generalizing n with
  | zero => intro b hb; simp [decDigits] at hb
  | succ f ih =>
    intro b hb
    simp only [decDigits] at hb
    split at hb
    · rename_i hlt
      simp only [List.mem_singleton] at hb
      subst hb
      simp only [UInt8.toNat_ofNat']
      omega
    · simp only [List.mem_append, List.mem_singleton] at hb
      rcases hb with hb | rfl
      · exact ih _ b hb
      · simp only [UInt8.toNat_ofNat']
        omega

theorem tab_not_mem_natDec (n : Nat) : TAB ∉ natDec n := by
  intro h
  have := decDigits_digit _ _ _ h
  have ht : TAB.toNat = 9 := by decide
  omega

theorem tab_not_mem_intDec (i : Int) : TAB ∉ intDec i := by
  unfold intDec
  split
  · simp only [List.mem_cons, not_or]
    exact ⟨by decide, tab_not_mem_natDec _⟩
  · exact tab_not_mem_natDec _

theorem tab_not_mem_lexTypeDebug (k : Nat) : TAB ∉ lexTypeDebug k := by
  unfold lexTypeDebug
  split <;> decide

/-! ## F. the repaired `parse_csv_row`; the two UTF-8 automata of the models agree -/

def convU8 : Utf8State → LexCsv.U8State
  | .start => .start | .c1 => .c1 | .c2 => .c2 | .c3 => .c3
  | .e0 => .e0 | .ed => .ed | .f0 => .f0 | .f4 => .f4

theorem utf8Step_agree_nat (q : Utf8State) : ∀ n, n < 256 →
    LexCsv.utf8Step (convU8 q) (UInt8.ofNat n) = (Corpus.utf8Step q (UInt8.ofNat n)).map convU8 := by
  cases q <;> (set_option maxRecDepth 4000 in decide)

theorem utf8Step_agree (q : Utf8State) (b : UInt8) :
    LexCsv.utf8Step (convU8 q) b = (Corpus.utf8Step q b).map convU8 := by
  have := utf8Step_agree_nat q b.toNat (UInt8.toNat_lt b)
  simpa using this

theorem utf8Run_agree (q : Utf8State) (bs : List UInt8) :
    (LexCsv.utf8Run (convU8 q) bs = some .start) = (Corpus.utf8Run q bs = true) := by
  induction bs generalizing q with
  | nil => cases q <;> simp [LexCsv.utf8Run, Corpus.utf8Run, convU8]
  | cons b bs ih =>
    simp only [LexCsv.utf8Run, Corpus.utf8Run, utf8Step_agree]
    cases Corpus.utf8Step q b with
    | none => simp
    | some q' => simpa using ih q'

theorem validUtf8_agree (bs : List UInt8) : LexCsv.validUtf8 bs = Corpus.validUtf8 bs := by
  have := utf8Run_agree .start bs
  simp only [convU8] at this
  unfold LexCsv.validUtf8 Corpus.validUtf8
  cases h : Corpus.utf8Run .start bs <;> simp_all

/-- The repaired `parse_csv_row` has no error path. -/
theorem evalCsvRowFixed_ne_err (row : List UInt8) : evalCsvRowFixed row ≠ .err := by
  unfold evalCsvRowFixed
  cases h : LexCsv.parseCsvRowBytes true row with
  | ok c => simp
  | panic => simp
  | err =>
    exfalso
    unfold LexCsv.parseCsvRowBytes at h
    cases hr : LexCsv.rowLoop (LexCsv.rowCap true row) (LexCsv.parseFuel row) Csv.Reader.new row [] with
    | none => rw [hr] at h; cases h
    | some r =>
      rw [hr] at h
      simp only at h
      subst h
      exact LexCsv.rowLoop_ne_err _ _ _ _ _ hr

/-- The repaired `parse_csv_row` never panics on a `&str`. -/
theorem evalCsvRowFixed_ne_panic (row : List UInt8) (hv : Corpus.validUtf8 row = true) :
    evalCsvRowFixed row ≠ .panic := by
  unfold evalCsvRowFixed
  have := LexCsv.parseCsvRowBytes_fixed_ne_panic row (by rw [validUtf8_agree]; exact hv)
  cases h : LexCsv.parseCsvRowBytes true row with
  | ok c => simp
  | err => simp
  | panic => exact absurd h this

theorem csvRowOf_ne_err (fixed : Bool) (row : List UInt8) : csvRowOf fixed row ≠ .err := by
  cases fixed
  · exact evalCsvRow_ne_err row
  · exact evalCsvRowFixed_ne_err row

end Vibrato.EvalSplit
