/-
The model tokenizer (`Model/Tokenizer.lean`) as the tokenizer inside `evaluate`: on its own
`-O mecab` output it reports exactly the reference segmentation (`modelSysTokenize_self`).
Used by `Props/C19cli.lean::evaluate_self_perfect`.  Core Lean only.

Ingredients: C01 (`tokenize_total`, `cover_no_ignore`: without `ignore_space` the tokens tile the
sentence), UTF-8 facts (`charCount (encChars cs) = cs.length`; decoding the encoding gives the
characters back, `MecabRT.fromUTF8_encs`).
-/
import Vibrato.Proofs.EvalSplit
import Vibrato.Props.C01
import Vibrato.Proofs.MecabRoundTrip
import Vibrato.Proofs.EmittedCompiles

namespace Vibrato.EvalSplit

open Vibrato.Corpus

/-! ### UTF-8 -/

theorem isCont_ofNat (n : Nat) :
    isCont (UInt8.ofNat n) = decide (128 ≤ n % 256 ∧ n % 256 < 192) := by
  simp [isCont, UInt8.toNat_ofNat']

theorem isCont_tail (x : Nat) : isCont (UInt8.ofNat (x % 64 + 128)) = true := by
  rw [isCont_ofNat]; simp only [decide_eq_true_eq]; omega

/-- `c.encode_utf8(..)` has exactly one byte that is not a continuation byte. -/
theorem charCount_utf8EncodeChar (c : Char) : charCount (String.utf8EncodeChar c) = 1 := by
  unfold String.utf8EncodeChar charCount
  generalize c.val.toNat = v
  simp only
  split
  · have : isCont (UInt8.ofNat v) = false := by
      rw [isCont_ofNat]; simp only [decide_eq_false_iff_not]; omega
    simp only [List.filter, this, Bool.not_false, List.length_cons, List.length_nil]
  · split
    · have : isCont (UInt8.ofNat (v / 64 % 32 + 192)) = false := by
        rw [isCont_ofNat]; simp only [decide_eq_false_iff_not]; omega
      simp only [List.filter, this, isCont_tail, Bool.not_false, Bool.not_true, List.length_cons,
        List.length_nil]
    · split
      · have : isCont (UInt8.ofNat (v / 4096 % 16 + 224)) = false := by
          rw [isCont_ofNat]; simp only [decide_eq_false_iff_not]; omega
        simp only [List.filter, this, isCont_tail, Bool.not_false, Bool.not_true,
          List.length_cons, List.length_nil]
      · have : isCont (UInt8.ofNat (v / 262144 % 8 + 240)) = false := by
          rw [isCont_ofNat]; simp only [decide_eq_false_iff_not]; omega
        simp only [List.filter, this, isCont_tail, Bool.not_false, Bool.not_true,
          List.length_cons, List.length_nil]

theorem charCount_append (a b : List UInt8) : charCount (a ++ b) = charCount a + charCount b := by
  simp [charCount]

/-- `s.chars().count()` of an encoded character list is its length. -/
theorem charCount_encChars (cs : List Char) : charCount (encChars cs) = cs.length := by
  induction cs with
  | nil => rfl
  | cons c cs ih =>
    have : encChars (c :: cs) = String.utf8EncodeChar c ++ encChars cs := by simp [encChars]
    rw [this, charCount_append, charCount_utf8EncodeChar, ih, List.length_cons]
    omega

theorem encChars_append (a b : List Char) : encChars (a ++ b) = encChars a ++ encChars b := by
  simp [encChars]

/-- Decoding the UTF-8 bytes of a character list gives the characters back. -/
theorem decodeChars_encChars (cs : List Char) : decodeChars (encChars cs) = some cs := by
  unfold decodeChars
  have := Vibrato.MecabRT.fromUTF8_encs cs
  unfold Vibrato.MecabRT.encs at this
  unfold encChars
  rw [this]
  simp

/-! ### Tokens that tile the sentence -/

theorem segments_le : ∀ (ts : List Tok) (a b : Nat), Segments (fun _ => 0) a ts b → a ≤ b
  | [], a, b, h => by simp only [Segments] at h; omega
  | t :: ts, a, b, h => by
    obtain ⟨h1, h2, h3⟩ := h
    have := segments_le ts _ _ h3
    simp only [Nat.add_zero] at h1
    omega

theorem slice_append (cs : List Char) {a e n : Nat} (hae : a ≤ e) (hen : e ≤ n) :
    (cs.drop a).take (e - a) ++ (cs.drop e).take (n - e) = (cs.drop a).take (n - a) := by
  have h1 : cs.drop e = (cs.drop a).drop (e - a) := by
    rw [List.drop_drop]; congr 1; omega
  have h2 : n - a = (e - a) + (n - e) := by omega
  rw [h1, h2, List.take_add]

/-- The system tokens the scoring loop reads from a tokenization. -/
def sysToksOf (feat : Nat → Nat → List UInt8) (ts : List Tok) : List SysTok :=
  ts.map fun t => ⟨t.startWord, t.endWord, feat t.node.lexType t.node.wordId⟩

theorem words_of_segments (feat : Nat → Nat → List UInt8) (cs : List Char) :
    ∀ (ts : List Tok) (a n : Nat), Segments (fun _ => 0) a ts n → n ≤ cs.length →
      sentenceOf (modelWords feat cs ts) = encChars ((cs.drop a).take (n - a)) ∧
      sysToksOf feat ts = accumToks a (modelWords feat cs ts) ∧
      ∀ w ∈ modelWords feat cs ts, 0 < charCount w.surface
  | [], a, n, h, _ => by
    simp only [Segments] at h
    subst h
    simp [modelWords, sentenceOf, sysToksOf, accumToks, encChars]
  | t :: ts, a, n, h, hn => by
    obtain ⟨h1, h2, h3⟩ := h
    simp only [Nat.add_zero] at h1
    have hen := segments_le ts _ _ h3
    obtain ⟨ih1, ih2, ih3⟩ := words_of_segments feat cs ts t.endWord n h3 hn
    have hsurf : surfaceOf cs t = encChars ((cs.drop a).take (t.endWord - a)) := by
      simp only [surfaceOf, h1]
    have hcount : charCount (surfaceOf cs t) = t.endWord - a := by
      rw [hsurf, charCount_encChars, List.length_take, List.length_drop]
      omega
    have hmw : modelWords feat cs (t :: ts) =
        ⟨surfaceOf cs t, feat t.node.lexType t.node.wordId⟩ :: modelWords feat cs ts := rfl
    refine ⟨?_, ?_, ?_⟩
    · rw [hmw]
      have : sentenceOf (⟨surfaceOf cs t, feat t.node.lexType t.node.wordId⟩ ::
          modelWords feat cs ts) = surfaceOf cs t ++ sentenceOf (modelWords feat cs ts) := by
        simp [sentenceOf]
      rw [this, ih1, hsurf, ← encChars_append, slice_append cs (by omega) hen]
    · rw [hmw]
      simp only [sysToksOf, List.map_cons, accumToks, hcount]
      have he : a + (t.endWord - a) = t.endWord := by omega
      rw [he, h1]
      congr 1
    · intro w hw
      rw [hmw] at hw
      simp only [List.mem_cons] at hw
      rcases hw with rfl | hw
      · simp only [hcount]; omega
      · exact ih3 w hw

/-- The words the model tokenizer produces for the sentence `cs` (no `ignore_space`), as the
`-O mecab` printing loop reads them (`[]` if the tokenizer panicked, which `tokenize_total`
excludes under the C01 hypotheses). -/
def tokWords (D : TokDict) (mg : Option Nat) (feat : Nat → Nat → List UInt8) (cs : List Char) :
    List Word :=
  match Vibrato.tokenize D ⟨none, mg⟩ (cs.map Char.toNat) with
  | some ts => modelWords feat cs ts
  | none => []

/-- **Self-consistency of the model tokenizer.**  Under the C01 hypotheses, re-tokenizing the
concatenated surfaces of its own tokens for `cs` gives tokens whose character ranges are the
accumulated surface lengths and whose features are the same; every surface is non-empty. -/
theorem modelSysTokenize_self (D : TokDict) (C W : Int) (hD : DictOK D C W) (hcov : UnkCovered D)
    (mg : Option Nat) (feat : Nat → Nat → List UInt8) (cs : List Char)
    (hb : ((cs.length : Int) + 1) * (C + W) ≤ MAX_COST) :
    modelSysTokenize D mg feat (sentenceOf (tokWords D mg feat cs)) =
        .ok (accumToks 0 (tokWords D mg feat cs)) ∧
      ∀ w ∈ tokWords D mg feat cs, 0 < charCount w.surface := by
  have hlen : (cs.map Char.toNat).length = cs.length := by simp
  obtain ⟨ts, hts⟩ := tokenize_total D C W hD hcov ⟨none, mg⟩ (cs.map Char.toNat)
    (by rw [hlen]; exact hb)
  have hseg := cover_no_ignore D C W hD hcov mg (cs.map Char.toNat) (by rw [hlen]; exact hb) ts hts
  rw [hlen] at hseg
  obtain ⟨h1, h2, h3⟩ := words_of_segments feat cs ts 0 cs.length hseg (Nat.le_refl _)
  have htw : tokWords D mg feat cs = modelWords feat cs ts := by
    simp only [tokWords, hts]
  rw [htw]
  refine ⟨?_, h3⟩
  have hsent : sentenceOf (modelWords feat cs ts) = encChars cs := by
    rw [h1]; simp
  unfold modelSysTokenize
  rw [hsent, decodeChars_encChars]
  simp only [hts]
  exact congrArg Corpus.Outcome.ok h2

/-! ### Well-formedness of the model tokenizer's words from sentence-level hypotheses -/

theorem validUtf8_encChars (cs : List Char) : Corpus.validUtf8 (encChars cs) = true := by
  rw [← validUtf8_agree]
  exact Vibrato.EmitC.validUtf8_encs cs

/-- An ASCII byte occurs in the encoding only as the character with that code. -/
theorem ascii_not_mem_encChars {b : UInt8} (hb : b.toNat < 128) {cs : List Char}
    (h : ∀ c ∈ cs, c.val.toNat ≠ b.toNat) : b ∉ encChars cs := by
  intro hm
  obtain ⟨c, hc, hbc⟩ := Vibrato.MecabRT.mem_encs (s := cs) hm
  exact h c hc (Vibrato.MecabRT.enc_ascii_byte c b hbc hb).1

/-- If the sentence contains neither a tab nor a line feed and every feature string of the
dictionary is representable in the corpus format, every word the tokenizer prints is well-formed
(`WordWF`, the hypothesis of `tokenizer_output_parses`). -/
theorem tokWords_wf (D : TokDict) (mg : Option Nat) (feat : Nat → Nat → List UInt8)
    (cs : List Char)
    (hfeat : ∀ l i, Corpus.validUtf8 (feat l i) = true ∧ TAB ∉ feat l i ∧ LF ∉ feat l i ∧
      (feat l i).getLast? ≠ some CR)
    (hcs : ∀ c ∈ cs, c.val.toNat ≠ 9 ∧ c.val.toNat ≠ 10) :
    ∀ w ∈ tokWords D mg feat cs, WordWF w := by
  intro w hw
  unfold tokWords at hw
  split at hw
  · rename_i ts _
    simp only [modelWords, List.mem_map] at hw
    obtain ⟨t, _, rfl⟩ := hw
    have hsub : ∀ c ∈ (cs.drop t.startWord).take (t.endWord - t.startWord), c ∈ cs :=
      fun c hc => List.mem_of_mem_drop (List.mem_of_mem_take hc)
    obtain ⟨f1, f2, f3, f4⟩ := hfeat t.node.lexType t.node.wordId
    refine ⟨⟨validUtf8_encChars _, f1, ?_, ?_, f2, f3⟩, f4⟩
    · exact ascii_not_mem_encChars (b := TAB) (by decide)
        (fun c hc => by have := (hcs c (hsub c hc)).1; simpa [TAB] using this)
    · exact ascii_not_mem_encChars (b := LF) (by decide)
        (fun c hc => by have := (hcs c (hsub c hc)).2; simpa [LF] using this)
  · cases hw

end Vibrato.EvalSplit
