/-
Helper lemmas for property C18 (`Vibrato/Props/C18.lean`):
* §1 the regex scanner of `Model/Extractor.lean` against a declarative decomposition of a template
  into literal characters and placeholders (`Decomp`), and expansion = substitution;
* §2 the interning state machine (`MapOK`, `Extends`, `extractIds_spec`);
* §3 the connection-class numbering of `rucrf::RawModel::merge` (`classesGo_spec`).
Core Lean only.
-/
import Vibrato.Model.Extractor

namespace Vibrato.Extractor

open Vibrato (Outcome)

/-! ## 1. Templates -/

/-- One element of a decomposed template: a literal character or a placeholder. -/
inductive Seg where
  | chr (c : Char)
  | tok (t : Tok)
  deriving Repr, DecidableEq

/-- A placeholder as the regexes accept it: `%t`, or a non-empty run of ASCII digits. -/
def Tok.Valid : Tok → Prop
  | .idx ds _ => ds ≠ [] ∧ ∀ c ∈ ds, isDigit c = true
  | .cate => True

def Seg.text (k : Kind) : Seg → Str
  | .chr c => [c]
  | .tok t => t.text k

/-- The template text of a decomposition. -/
def render (k : Kind) (segs : List Seg) : Str := segs.flatMap (Seg.text k)

/-- **Declarative reading of a template** for the regex of kind `k`: the text is a sequence of
placeholders (`%F[12]`, `%F?[0]`, `%t` for `U`; `%L[..]`, `%L?[..]` for `L`; `%R..` for `R`) and
literal characters, where a character is literal exactly when no placeholder of this kind begins
at it (leftmost, non-overlapping reading). -/
inductive Decomp (k : Kind) : Str → List Seg → Prop where
  | nil : Decomp k [] []
  | chr (c : Char) (s : Str) (segs : List Seg) :
      matchAt k (c :: s) = none → Decomp k s segs → Decomp k (c :: s) (.chr c :: segs)
  | tok (t : Tok) (s : Str) (segs : List Seg) :
      t.Valid → (k = .U ∨ t ≠ .cate) → Decomp k s segs →
      Decomp k (t.text k ++ s) (.tok t :: segs)

/-- What a placeholder stands for: `%F[i]`/`%L[i]`/`%R[i]` ↦ the `i`-th feature or `*` if
absent; `%t` ↦ the decimal category id. -/
def Tok.value (feats : List Str) (cate : Nat) : Tok → Str
  | .idx ds _ => featOrStar feats (digitsVal ds)
  | .cate => natToStr cate

/-- A `?` placeholder whose feature is `*` or absent. -/
def Tok.missing (feats : List Str) : Tok → Bool
  | .idx ds true => featOrStar feats (digitsVal ds) == ['*']
  | _ => false

def Seg.value (feats : List Str) (cate : Nat) : Seg → Str
  | .chr c => [c]
  | .tok t => t.value feats cate

def Seg.missing (feats : List Str) : Seg → Bool
  | .chr _ => false
  | .tok t => t.missing feats

/-- A placeholder index above `usize::MAX`. -/
def Seg.tooBig : Seg → Bool
  | .tok (.idx ds _) => decide (usizeMax < digitsVal ds)
  | _ => false

/-- **Declarative substitution**: no feature when a `?` placeholder is missing, otherwise the
template with every placeholder replaced by its value. -/
def substitute (segs : List Seg) (feats : List Str) (cate : Nat) : Option Str :=
  if segs.any (Seg.missing feats) then none
  else some (segs.flatMap (Seg.value feats cate))

/-! ### The scanner on a decomposition -/

theorem takeWhile_digits_append (ds : Str) (c : Char) (s : Str)
    (h : ∀ d ∈ ds, isDigit d = true) (hc : isDigit c = false) :
    (ds ++ c :: s).takeWhile isDigit = ds := by
  induction ds with
  | nil => simp [hc]
  | cons d ds ih =>
    have hd : isDigit d = true := h d (by simp)
    simp only [List.cons_append, List.takeWhile_cons, hd, if_true]
    rw [ih (fun x hx => h x (by simp [hx]))]

theorem matchBracket_text (ds : Str) (s : Str) (hne : ds ≠ [])
    (h : ∀ d ∈ ds, isDigit d = true) :
    matchBracket ('[' :: (ds ++ ']' :: s)) = some ds := by
  have htw := takeWhile_digits_append ds ']' s h (by decide)
  simp only [matchBracket, htw]
  have : ds.isEmpty = false := by cases ds <;> simp_all
  simp only [this, Bool.false_eq_true, if_false, List.drop_left']

theorem letter_ne_q (k : Kind) : k.letter ≠ '?' := by cases k <;> decide
theorem letter_ne_t (k : Kind) : k.letter ≠ 't' := by cases k <;> decide

/-- A valid placeholder text is matched as exactly that placeholder, whatever follows. -/
theorem matchAt_text (k : Kind) (t : Tok) (s : Str) (hv : t.Valid) (hk : k = .U ∨ t ≠ .cate) :
    matchAt k (t.text k ++ s) = some t := by
  cases t with
  | cate =>
    have hU : k = .U := by rcases hk with h | h <;> simp_all
    subst hU; rfl
  | idx ds req =>
    obtain ⟨hne, hd⟩ := hv
    cases req with
    | false =>
      simp only [Tok.text, List.cons_append, List.append_assoc, List.nil_append, matchAt,
        if_true]
      -- the character after the letter is `[`, not `?`
      rw [matchBracket_text ds s hne hd]; rfl
    | true =>
      simp only [Tok.text, List.cons_append, List.append_assoc, List.nil_append, matchAt,
        if_true]
      rw [matchBracket_text ds s hne hd]; rfl

/-- Skipping over the rest of a match. -/
theorem scan_skip (k : Kind) (a s : Str) (pos : Nat) :
    scan k (a ++ s) pos a.length = scan k s (pos + a.length) 0 := by
  induction a generalizing pos with
  | nil => simp
  | cons c a ih =>
    simp only [List.cons_append, List.length_cons, scan]
    rw [ih]; congr 1; omega

/-- The tokens with their start offsets. -/
def toksAt (k : Kind) : Nat → List Seg → List (Nat × Tok)
  | _, [] => []
  | pos, .chr _ :: segs => toksAt k (pos + 1) segs
  | pos, .tok t :: segs => (pos, t) :: toksAt k (pos + (t.text k).length) segs

theorem text_length_pos (k : Kind) (t : Tok) : 0 < (t.text k).length := by
  cases t with
  | cate => simp [Tok.text]
  | idx ds req => cases req <;> simp [Tok.text]

/-- `captures_iter` finds exactly the placeholders of the decomposition. -/
theorem scan_decomp (k : Kind) (s : Str) (segs : List Seg) (h : Decomp k s segs) (pos : Nat) :
    scan k s pos 0 = toksAt k pos segs := by
  induction h generalizing pos with
  | nil => rfl
  | chr c s segs hm _ ih => simp only [scan, hm, toksAt, ih]
  | tok t s segs hv hk _ ih =>
    have hm := matchAt_text k t s hv hk
    have hpos := text_length_pos k t
    match htx : t.text k, hpos with
    | c :: a, _ =>
      rw [htx] at hm
      simp only [List.cons_append] at hm
      simp only [List.cons_append, scan, hm, toksAt, htx, List.length_cons, Nat.add_sub_cancel]
      rw [scan_skip, ih]
      congr 2; omega

/-! ### `collect` and the expansion loop on a decomposition -/

def Tok.ft : Tok → FeatureType
  | .idx ds _ => .index (digitsVal ds)
  | .cate => .charType

/-- The capture ranges the code stores. -/
def capsAt (k : Kind) : Nat → List Seg → List Capture
  | _, [] => []
  | pos, .chr _ :: segs => capsAt k (pos + 1) segs
  | pos, .tok t :: segs =>
    ⟨pos, pos + (t.text k).length, t.ft⟩ :: capsAt k (pos + (t.text k).length) segs

/-- `required_indices`. -/
def reqOf : List Seg → List Nat
  | [] => []
  | .tok (.idx ds true) :: segs => digitsVal ds :: reqOf segs
  | _ :: segs => reqOf segs

theorem collect_toksAt (k : Kind) (segs : List Seg) (pos : Nat) :
    collect k (toksAt k pos segs) =
      if segs.any Seg.tooBig then none else some (reqOf segs, capsAt k pos segs) := by
  induction segs generalizing pos with
  | nil => simp [toksAt, collect, reqOf, capsAt]
  | cons sg segs ih =>
    cases sg with
    | chr c => simp [toksAt, ih, reqOf, capsAt, Seg.tooBig]
    | tok t =>
      cases t with
      | cate =>
        simp only [toksAt, collect, ih, List.any_cons, Seg.tooBig, Bool.false_or, reqOf, capsAt,
          Tok.ft]
        split <;> simp
      | idx ds req =>
        simp only [toksAt, collect, ih, List.any_cons, Seg.tooBig, capsAt, Tok.ft]
        by_cases hb : digitsVal ds ≤ usizeMax
        · have : ¬ usizeMax < digitsVal ds := by omega
          simp only [hb, if_true, this, decide_false, Bool.false_or]
          by_cases hany : segs.any Seg.tooBig = true
          · simp [hany]
          · cases req <;> simp [hany, reqOf]
        · have : usizeMax < digitsVal ds := by omega
          simp [hb, this]

theorem requiredMissing_reqOf (feats : List Str) (segs : List Seg) :
    requiredMissing feats (reqOf segs) = segs.any (Seg.missing feats) := by
  induction segs with
  | nil => rfl
  | cons sg segs ih =>
    cases sg with
    | chr c => simpa [reqOf, Seg.missing] using ih
    | tok t =>
      cases t with
      | cate => simpa [reqOf, Seg.missing, Tok.missing] using ih
      | idx ds req =>
        cases req with
        | false => simpa [reqOf, Seg.missing, Tok.missing] using ih
        | true =>
          simp only [requiredMissing] at ih
          simp [reqOf, Seg.missing, Tok.missing, requiredMissing, ih]

theorem slice_mid (a b c : Str) : slice (a ++ b ++ c) a.length (a.length + b.length) = some b := by
  simp only [slice, List.length_append]
  rw [if_pos (by omega)]
  simp [List.append_assoc]

theorem slice_end (a b : Str) : slice (a ++ b) a.length (a ++ b).length = some b := by
  have := slice_mid a b []
  simpa using this

theorem ftValue_ft (feats : List Str) (cate : Nat) (t : Tok) :
    ftValue feats cate t.ft = t.value feats cate := by
  cases t <;> rfl

/-- The string assembly loop, started behind `a ++ b` with `start = |a|`, on the captures of a
template `a ++ b ++ render segs`: appends `b` and every segment's value. -/
theorem expandLoop_render (k : Kind) (feats : List Str) (cate : Nat) (segs : List Seg) :
    ∀ (a b acc : Str),
      expandLoop (a ++ b ++ render k segs) feats cate (capsAt k (a.length + b.length) segs)
        a.length acc = some (acc ++ b ++ segs.flatMap (Seg.value feats cate)) := by
  induction segs with
  | nil =>
    intro a b acc
    simp only [render, List.flatMap_nil, List.append_nil, capsAt, expandLoop]
    rw [slice_end]; simp
  | cons sg segs ih =>
    intro a b acc
    cases sg with
    | chr c =>
      have h := ih a (b ++ [c]) acc
      simp only [List.length_append, List.length_singleton, ← Nat.add_assoc] at h
      simp only [render, List.flatMap_cons, Seg.text, capsAt, Seg.value] at h ⊢
      simp only [List.append_assoc, List.singleton_append] at h ⊢
      exact h
    | tok t =>
      simp only [render, List.flatMap_cons, Seg.text, capsAt, expandLoop, Seg.value]
      have hs : slice (a ++ b ++ (t.text k ++ List.flatMap (Seg.text k) segs)) a.length
          (a.length + b.length) = some b := slice_mid a b _
      rw [hs]
      simp only
      have h := ih (a ++ b ++ t.text k) [] (acc ++ b ++ ftValue feats cate t.ft)
      simp only [List.length_append, List.length_nil, Nat.add_zero, List.append_nil, render,
        List.append_assoc] at h
      simp only [List.append_assoc, Nat.add_assoc]
      rw [h, ftValue_ft]

theorem render_decomp (k : Kind) (s : Str) (segs : List Seg) (h : Decomp k s segs) :
    render k segs = s := by
  induction h with
  | nil => rfl
  | chr c s segs _ _ ih => simp only [render, List.flatMap_cons, Seg.text] at ih ⊢; simp [ih]
  | tok t s segs _ _ _ ih => simp only [render, List.flatMap_cons, Seg.text] at ih ⊢; rw [ih]

/-- Parsing a template with a decomposition. -/
theorem parseTemplate_decomp (k : Kind) (raw : Str) (segs : List Seg) (h : Decomp k raw segs) :
    parseTemplate k raw =
      if segs.any Seg.tooBig then .panic else .ok ⟨raw, reqOf segs, capsAt k 0 segs⟩ := by
  simp only [parseTemplate, scan_decomp k raw segs h 0, collect_toksAt]
  by_cases hany : segs.any Seg.tooBig = true <;> simp [hany]

/-- Expansion of the parsed template = substitution. -/
theorem expand_decomp (k : Kind) (raw : Str) (segs : List Seg) (h : Decomp k raw segs)
    (feats : List Str) (cate : Nat) :
    expand ⟨raw, reqOf segs, capsAt k 0 segs⟩ feats cate = .ok (substitute segs feats cate) := by
  simp only [expand, substitute, requiredMissing_reqOf]
  split
  · rfl
  · have hl := expandLoop_render k feats cate segs [] [] []
    simp only [List.nil_append, List.length_nil, Nat.add_zero, render_decomp k raw segs h] at hl
    rw [hl]

/-! ### Existence and uniqueness of the decomposition -/

theorem takeWhile_append_drop (p : Char → Bool) (l : Str) :
    l.takeWhile p ++ l.drop (l.takeWhile p).length = l := by
  induction l with
  | nil => rfl
  | cons c l ih =>
    simp only [List.takeWhile_cons]
    split
    · simp only [List.length_cons, List.drop_succ_cons, List.cons_append, ih]
    · rfl

theorem matchBracket_some (r ds : Str) (h : matchBracket r = some ds) :
    (ds ≠ [] ∧ ∀ c ∈ ds, isDigit c = true) ∧ ∃ rest, r = '[' :: (ds ++ ']' :: rest) := by
  unfold matchBracket at h
  split at h
  · rename_i r'
    simp only at h
    split at h
    · cases h
    · split at h
      · rename_i rest hdrop
        cases h
        refine ⟨⟨?_, fun c hc => (List.all_eq_true.mp List.all_takeWhile) c hc⟩, rest, ?_⟩
        · intro hnil; simp_all
        · have := takeWhile_append_drop isDigit r'
          rw [hdrop] at this
          rw [this]
      · cases h
  · cases h

theorem matchAt_valid (k : Kind) (s : Str) (t : Tok) (h : matchAt k s = some t) :
    t.Valid ∧ (k = .U ∨ t ≠ .cate) ∧ ∃ rest, s = t.text k ++ rest := by
  unfold matchAt at h
  split at h
  · rename_i c r
    split at h
    · rename_i hc
      subst hc
      split at h
      · rename_i r'
        cases hm : matchBracket r' with
        | none => simp [hm] at h
        | some ds =>
          simp only [hm, Option.map_some, Option.some.injEq] at h
          subst h
          obtain ⟨hv, rest, hr⟩ := matchBracket_some r' ds hm
          exact ⟨hv, Or.inr (by simp), rest, by simp [Tok.text, hr]⟩
      · cases hm : matchBracket r with
        | none => simp [hm] at h
        | some ds =>
          simp only [hm, Option.map_some, Option.some.injEq] at h
          subst h
          obtain ⟨hv, rest, hr⟩ := matchBracket_some r ds hm
          exact ⟨hv, Or.inr (by simp), rest, by simp [Tok.text, hr]⟩
    · split at h
      · rename_i hU
        cases h
        obtain ⟨hk, hc⟩ := hU
        subst hk; subst hc
        exact ⟨trivial, Or.inl rfl, r, rfl⟩
      · cases h
  · cases h

/-- Every template has a decomposition … -/
theorem decomp_exists (k : Kind) (s : Str) : ∃ segs, Decomp k s segs := by
  generalize hn : s.length = n
  induction n using Nat.strongRecOn generalizing s with
  | _ n ih =>
    cases s with
    | nil => exact ⟨[], .nil⟩
    | cons c s' =>
      cases hm : matchAt k (c :: s') with
      | none =>
        obtain ⟨segs, hs⟩ := ih s'.length (by simp at hn; omega) s' rfl
        exact ⟨_, .chr c s' segs hm hs⟩
      | some t =>
        obtain ⟨hv, hk, rest, hr⟩ := matchAt_valid k _ t hm
        have hpos := text_length_pos k t
        have hlen : rest.length < n := by
          rw [← hn, hr, List.length_append]; omega
        obtain ⟨segs, hs⟩ := ih rest.length hlen rest rfl
        exact ⟨_, by rw [hr]; exact Decomp.tok t rest segs hv hk hs⟩

/-- … and only one. -/
theorem decomp_unique (k : Kind) (s : Str) (s1 s2 : List Seg) (h1 : Decomp k s s1)
    (h2 : Decomp k s s2) : s1 = s2 := by
  induction h1 generalizing s2 with
  | nil =>
    generalize he : ([] : Str) = e at h2
    cases h2 with
    | nil => rfl
    | chr c s segs _ _ => cases he
    | tok t s segs hv hk _ =>
      have := text_length_pos k t
      have hl := (List.append_eq_nil_iff.mp he.symm).1
      rw [hl] at this; simp at this
  | chr c s segs hm _ ih =>
    generalize hcs : c :: s = cs at h2
    cases h2 with
    | nil => cases hcs
    | chr c' s' segs' _ h' =>
      cases hcs
      rw [ih _ h']
    | tok t s' segs' hv hk _ =>
      rw [hcs, matchAt_text k t s' hv hk] at hm
      cases hm
  | tok t s segs hv hk _ ih =>
    generalize hts : t.text k ++ s = ts at h2
    have hmt := matchAt_text k t s hv hk
    cases h2 with
    | nil =>
      have := text_length_pos k t
      have hl := (List.append_eq_nil_iff.mp hts).1
      rw [hl] at this; simp at this
    | chr c' s' segs' hm' _ =>
      rw [hts] at hmt
      rw [hmt] at hm'; cases hm'
    | tok t' s' segs' hv' hk' h' =>
      have hmt' := matchAt_text k t' s' hv' hk'
      rw [hts, hmt'] at hmt
      cases hmt
      have : s = s' := List.append_cancel_left hts
      subst this
      rw [ih _ h']

/-! ## 2. Interning -/

theorem lookup_mem {α : Type} [DecidableEq α] {m : List (α × Nat)} {s : α} {id : Nat}
    (h : lookup m s = some id) : (s, id) ∈ m := by
  induction m with
  | nil => simp [lookup] at h
  | cons e m ih =>
    obtain ⟨k, v⟩ := e
    simp only [lookup] at h
    split at h
    · rename_i hk; cases h; subst hk; simp
    · exact List.mem_cons_of_mem _ (ih h)

theorem lookup_none {α : Type} [DecidableEq α] {m : List (α × Nat)} {s : α}
    (h : lookup m s = none) : s ∉ m.map Prod.fst := by
  induction m with
  | nil => simp
  | cons e m ih =>
    obtain ⟨k, v⟩ := e
    simp only [lookup] at h
    split at h
    · cases h
    · rename_i hk
      simp only [List.map_cons, List.mem_cons, not_or]
      exact ⟨fun h' => hk h'.symm, ih h⟩

theorem mem_lookup {α : Type} [DecidableEq α] {m : List (α × Nat)} {s : α} {id : Nat}
    (hn : (m.map Prod.fst).Nodup) (h : (s, id) ∈ m) : lookup m s = some id := by
  induction m with
  | nil => cases h
  | cons e m ih =>
    obtain ⟨k, v⟩ := e
    simp only [List.map_cons, List.nodup_cons] at hn
    simp only [lookup]
    rcases List.mem_cons.mp h with heq | hmem
    · cases heq; simp
    · split
      · rename_i hk
        subst hk
        exact absurd (List.mem_map.mpr ⟨_, hmem, rfl⟩) hn.1
      · exact ih hn.2 hmem

theorem lookup_append {α : Type} [DecidableEq α] (m m2 : List (α × Nat)) (s : α) :
    lookup (m ++ m2) s = match lookup m s with
      | some id => some id
      | none => lookup m2 s := by
  induction m with
  | nil => cases h : lookup m2 s <;> simp [lookup, h]
  | cons e m ih =>
    obtain ⟨k, v⟩ := e
    simp only [List.cons_append, lookup]
    split
    · rfl
    · exact ih

/-- Well-formedness of one interning map with its counter: a finite injective function from
strings to ids in `[1, next)`. -/
structure MapOK (m : IdMap) (next : Nat) : Prop where
  keys : (m.map Prod.fst).Nodup
  inj : ∀ a ∈ m, ∀ b ∈ m, a.2 = b.2 → a.1 = b.1
  rng : ∀ a ∈ m, 0 < a.2 ∧ a.2 < next

/-- Every binding of `m` is a binding of `m'`. -/
def Extends (m m' : IdMap) : Prop := ∀ s id, lookup m s = some id → lookup m' s = some id

theorem Extends.refl (m : IdMap) : Extends m m := fun _ _ h => h
theorem Extends.trans {a b c : IdMap} (h1 : Extends a b) (h2 : Extends b c) : Extends a c :=
  fun s id h => h2 s id (h1 s id h)

theorem MapOK.mono {m : IdMap} {n n' : Nat} (h : MapOK m n) (hn : n ≤ n') : MapOK m n' :=
  ⟨h.keys, h.inj, fun a ha => ⟨(h.rng a ha).1, Nat.lt_of_lt_of_le (h.rng a ha).2 hn⟩⟩

/-- Different strings have different ids, equal strings equal ids. -/
theorem MapOK.lookup_inj {m : IdMap} {n : Nat} (h : MapOK m n) {a b : Str} {i j : Nat}
    (ha : lookup m a = some i) (hb : lookup m b = some j) : i = j ↔ a = b := by
  constructor
  · intro hij
    exact h.inj _ (lookup_mem ha) _ (lookup_mem hb) hij
  · intro hab
    subst hab
    rw [ha] at hb; cases hb; rfl

theorem MapOK.lookup_rng {m : IdMap} {n : Nat} (h : MapOK m n) {a : Str} {i : Nat}
    (ha : lookup m a = some i) : 0 < i ∧ i < n := h.rng _ (lookup_mem ha)

/-- Removing entries (the trainer drops unused strings after training) keeps the map well formed. -/
theorem MapOK.sublist {m m' : IdMap} {n : Nat} (h : MapOK m n) (hs : m'.Sublist m) : MapOK m' n :=
  ⟨(hs.map Prod.fst).nodup h.keys,
   fun a ha b hb => h.inj a (hs.subset ha) b (hs.subset hb),
   fun a ha => h.rng a (hs.subset ha)⟩

/-- Reloading (`HashMap → Vec → HashMap`) permutes the entries. -/
theorem MapOK.perm {m m' : IdMap} {n : Nat} (h : MapOK m n) (hp : m'.Perm m) : MapOK m' n :=
  ⟨(hp.map Prod.fst).nodup_iff.mpr h.keys,
   fun a ha b hb => h.inj a (hp.subset ha) b (hp.subset hb),
   fun a ha => h.rng a (hp.subset ha)⟩

theorem lookup_perm {m m' : IdMap} {n : Nat} (h : MapOK m n) (hp : m'.Perm m) (s : Str) :
    lookup m' s = lookup m s := by
  have h' := h.perm hp
  cases hl : lookup m s with
  | some id => exact mem_lookup h'.keys (hp.symm.subset (lookup_mem hl))
  | none =>
    cases hl' : lookup m' s with
    | none => rfl
    | some id =>
      have := mem_lookup h.keys (hp.subset (lookup_mem hl'))
      rw [hl] at this; cases this

theorem intern_spec {m : IdMap} {next : Nat} (h : MapOK m next) {s : Str} {id : Nat} {m' : IdMap}
    {n' : Nat} (hi : intern m next s = .ok (id, m', n')) :
    MapOK m' n' ∧ Extends m m' ∧ lookup m' s = some id ∧ next ≤ n' := by
  unfold intern at hi
  split at hi
  · cases hi
  · cases hl : lookup m s with
    | some id0 =>
      have hr := h.lookup_rng hl
      simp only [hl] at hi
      have hne : ¬ next = id0 := by omega
      simp only [hne, if_false, Outcome.ok.injEq, Prod.mk.injEq] at hi
      obtain ⟨rfl, rfl, rfl⟩ := hi
      exact ⟨h, Extends.refl _, hl, Nat.le_refl _⟩
    | none =>
      simp only [hl, if_true] at hi
      split at hi
      · cases hi
      · simp only [Outcome.ok.injEq, Prod.mk.injEq] at hi
        obtain ⟨rfl, rfl, rfl⟩ := hi
        have hnot := lookup_none hl
        refine ⟨⟨?_, ?_, ?_⟩, ?_, ?_, Nat.le_succ _⟩
        · simp only [List.map_append, List.map_cons, List.map_nil]
          refine List.nodup_append.mpr ⟨h.keys, by simp, ?_⟩
          intro a ha b hb
          simp only [List.mem_singleton] at hb
          subst hb
          intro hab; subst hab; exact hnot ha
        · intro a ha b hb hab
          simp only [List.mem_append, List.mem_singleton] at ha hb
          rcases ha with ha | ha <;> rcases hb with hb | hb
          · exact h.inj a ha b hb hab
          · subst hb; have := (h.rng a ha).2; simp only at hab; omega
          · subst ha; have := (h.rng b hb).2; simp only at hab; omega
          · subst ha; subst hb; rfl
        · intro a ha
          simp only [List.mem_append, List.mem_singleton] at ha
          rcases ha with ha | ha
          · have := h.rng a ha; omega
          · subst ha; simp only; omega
        · intro s' id' hs'
          rw [lookup_append, hs']
        · rw [lookup_append, hl]; simp [lookup]

/-- The id a template gets in map `m`: the id of its expansion. -/
def idOf (m : IdMap) (feats : List Str) (cate : Nat) (pt : ParsedTemplate) : Option Nat :=
  match expand pt feats cate with
  | .ok (some s) => lookup m s
  | _ => none

theorem extractIds_spec (feats : List Str) (cate : Nat) (pts : List ParsedTemplate) :
    ∀ {m : IdMap} {next : Nat} {res : List (Option Nat)} {m' : IdMap} {n' : Nat},
      MapOK m next → extractIds feats cate pts m next = .ok (res, m', n') →
      MapOK m' n' ∧ Extends m m' ∧ next ≤ n' ∧ res = pts.map (idOf m' feats cate) ∧
      ∀ pt ∈ pts, ∀ s, expand pt feats cate = .ok (some s) → ∃ id, lookup m' s = some id := by
  induction pts with
  | nil =>
    intro m next res m' n' h he
    simp only [extractIds, Outcome.ok.injEq, Prod.mk.injEq] at he
    obtain ⟨rfl, rfl, rfl⟩ := he
    exact ⟨h, Extends.refl _, Nat.le_refl _, rfl, by simp⟩
  | cons pt pts ih =>
    intro m next res m' n' h he
    simp only [extractIds] at he
    cases hx : expand pt feats cate with
    | err => simp [hx] at he
    | panic => simp [hx] at he
    | ok o =>
      cases o with
      | none =>
        simp only [hx] at he
        cases hr : extractIds feats cate pts m next with
        | err => simp [hr] at he
        | panic => simp [hr] at he
        | ok r =>
          obtain ⟨res0, m0, n0⟩ := r
          simp only [hr, Outcome.ok.injEq, Prod.mk.injEq] at he
          obtain ⟨rfl, rfl, rfl⟩ := he
          obtain ⟨h1, h2, h3, h4, h5⟩ := ih h hr
          refine ⟨h1, h2, h3, ?_, ?_⟩
          · simp only [List.map_cons, idOf, hx, h4]
          · intro pt' hpt' s hs
            rcases List.mem_cons.mp hpt' with rfl | hmem
            · rw [hx] at hs; cases hs
            · exact h5 pt' hmem s hs
      | some str =>
        simp only [hx] at he
        cases hin : intern m next str with
        | err => simp [hin] at he
        | panic => simp [hin] at he
        | ok r1 =>
          obtain ⟨id, m1, n1⟩ := r1
          simp only [hin] at he
          obtain ⟨g1, g2, g3, g4⟩ := intern_spec h hin
          cases hr : extractIds feats cate pts m1 n1 with
          | err => simp [hr] at he
          | panic => simp [hr] at he
          | ok r =>
            obtain ⟨res0, m0, n0⟩ := r
            simp only [hr, Outcome.ok.injEq, Prod.mk.injEq] at he
            obtain ⟨rfl, rfl, rfl⟩ := he
            obtain ⟨h1, h2, h3, h4, h5⟩ := ih g1 hr
            refine ⟨h1, g2.trans h2, Nat.le_trans g4 h3, ?_, ?_⟩
            · simp only [List.map_cons, idOf, hx, h4, h2 _ _ g3]
            · intro pt' hpt' s hs
              rcases List.mem_cons.mp hpt' with rfl | hmem
              · rw [hx] at hs; cases hs
                exact ⟨id, h2 _ _ g3⟩
              · exact h5 pt' hmem s hs

/-! ## 3. Connection classes -/

abbrev Tuple := List (Option Nat)

/-- The distinct tuples in order of first appearance, not counting those already `seen`. -/
def firstOcc (seen : List Tuple) : List Tuple → List Tuple
  | [] => []
  | t :: ts => if t ∈ seen then firstOcc seen ts else t :: firstOcc (seen ++ [t]) ts

/-- Loop invariant of `merge`: `map` sends exactly the rows of `table` to their 1-based index. -/
structure CInv (map : List (Tuple × Nat)) (table : List Tuple) : Prop where
  nodup : table.Nodup
  iff : ∀ t id, lookup map t = some id ↔ (0 < id ∧ table[id - 1]? = some t)

theorem CInv.none_iff {map : List (Tuple × Nat)} {table : List Tuple} (h : CInv map table)
    (t : Tuple) : lookup map t = none ↔ t ∉ table := by
  constructor
  · intro hn hmem
    obtain ⟨i, hi, hget⟩ := List.getElem_of_mem hmem
    have := (h.iff t (i + 1)).mpr ⟨by omega, by simp [hget, hi]⟩
    rw [hn] at this; cases this
  · intro hn
    cases hl : lookup map t with
    | none => rfl
    | some id =>
      have := ((h.iff t id).mp hl).2
      exact absurd (List.mem_of_getElem? this) hn

theorem CInv.push {map : List (Tuple × Nat)} {table : List Tuple} (h : CInv map table)
    {t : Tuple} (hn : lookup map t = none) :
    CInv (map ++ [(t, table.length + 1)]) (table ++ [t]) := by
  have hnot := (h.none_iff t).mp hn
  refine ⟨List.nodup_append.mpr ⟨h.nodup, by simp, ?_⟩, ?_⟩
  · intro a ha b hb
    simp only [List.mem_singleton] at hb
    subst hb; intro hab; subst hab; exact hnot ha
  · intro t' id
    rw [lookup_append]
    constructor
    · intro hl
      cases hm : lookup map t' with
      | some id0 =>
        simp only [hm, Option.some.injEq] at hl
        subst hl
        have ⟨hp, hg⟩ := (h.iff t' id0).mp hm
        refine ⟨hp, ?_⟩
        have hlt : id0 - 1 < table.length := by
          have := List.getElem?_eq_some_iff.mp hg
          exact this.1
        rw [List.getElem?_append_left hlt]; exact hg
      | none =>
        simp only [hm, lookup] at hl
        split at hl
        · rename_i htt
          cases hl; subst htt
          exact ⟨by omega, by simp⟩
        · cases hl
    · intro ⟨hp, hg⟩
      by_cases hlt : id - 1 < table.length
      · rw [List.getElem?_append_left hlt] at hg
        rw [(h.iff t' id).mpr ⟨hp, hg⟩]
      · have hlen := (List.getElem?_eq_some_iff.mp hg).1
        simp only [List.length_append, List.length_singleton] at hlen
        have hid : id - 1 = table.length := by omega
        rw [hid] at hg
        simp only [List.getElem?_concat_length, Option.some.injEq] at hg
        subst hg
        rw [hn]
        simp only [lookup, if_true]
        congr 1; omega

theorem classesGo_spec (ts : List Tuple) :
    ∀ (map : List (Tuple × Nat)) (table : List Tuple), CInv map table →
      (classesGo ts map table).2 = table ++ firstOcc table ts ∧
      (classesGo ts map table).2.Nodup ∧
      (classesGo ts map table).1.length = ts.length ∧
      ∀ i (hi : i < ts.length), ∃ id, (classesGo ts map table).1[i]? = some id ∧ 0 < id ∧
        (classesGo ts map table).2[id - 1]? = some ts[i] := by
  induction ts with
  | nil =>
    intro map table h
    exact ⟨by simp [classesGo, firstOcc], h.nodup, rfl, fun i hi => absurd hi (by simp)⟩
  | cons t ts ih =>
    intro map table h
    simp only [classesGo]
    cases hl : lookup map t with
    | some id =>
      obtain ⟨h1, h2, h3, h4⟩ := ih map table h
      have hmem : t ∈ table := List.mem_of_getElem? ((h.iff t id).mp hl).2
      refine ⟨by simp only [h1, firstOcc, hmem, if_true], h2, by simp [h3], ?_⟩
      intro i hi
      cases i with
      | zero =>
        refine ⟨id, by simp, ((h.iff t id).mp hl).1, ?_⟩
        have hg := ((h.iff t id).mp hl).2
        have hlt := (List.getElem?_eq_some_iff.mp hg).1
        simp only [h1, List.getElem_cons_zero]
        rw [List.getElem?_append_left hlt]; exact hg
      | succ j =>
        obtain ⟨id', g1, g2, g3⟩ := h4 j (by simpa using hi)
        exact ⟨id', by simpa using g1, g2, by simpa using g3⟩
    | none =>
      have hinv := h.push hl
      obtain ⟨h1, h2, h3, h4⟩ := ih _ _ hinv
      have hmem : t ∉ table := (h.none_iff t).mp hl
      refine ⟨by simp only [h1, firstOcc, hmem, if_false, List.append_assoc, List.singleton_append],
        h2, by simp [h3], ?_⟩
      intro i hi
      cases i with
      | zero =>
        refine ⟨table.length + 1, by simp, by omega, ?_⟩
        simp only [h1, Nat.add_sub_cancel, List.getElem_cons_zero, List.append_assoc,
          List.singleton_append]
        simp
      | succ j =>
        obtain ⟨id', g1, g2, g3⟩ := h4 j (by simpa using hi)
        exact ⟨id', by simpa using g1, g2, by simpa using g3⟩

theorem cinv_init : CInv [] [] := ⟨List.nodup_nil, fun t id => by simp [lookup]⟩

/-! ## 4. The extractor state -/

/-- All three interning maps are injective functions into `[1, next)`. -/
structure StateOK (st : ExtractorState) : Prop where
  uni : MapOK st.uni st.uniNext
  left : MapOK st.left st.leftNext
  right : MapOK st.right st.rightNext

/-- A state whose maps contain those of `a` and whose templates are the same. -/
structure After (a b : ExtractorState) : Prop where
  uni : Extends a.uni b.uni
  left : Extends a.left b.left
  right : Extends a.right b.right
  uniT : b.uniT = a.uniT
  leftT : b.leftT = a.leftT
  rightT : b.rightT = a.rightT

theorem After.refl (a : ExtractorState) : After a a :=
  ⟨Extends.refl _, Extends.refl _, Extends.refl _, rfl, rfl, rfl⟩

theorem After.trans {a b c : ExtractorState} (h1 : After a b) (h2 : After b c) : After a c :=
  ⟨h1.uni.trans h2.uni, h1.left.trans h2.left, h1.right.trans h2.right,
   h2.uniT.trans h1.uniT, h2.leftT.trans h1.leftT, h2.rightT.trans h1.rightT⟩

/-- Every expansion of the templates `pts` on `feats` is interned in `m`. -/
def Defined (m : IdMap) (pts : List ParsedTemplate) (feats : List Str) (cate : Nat) : Prop :=
  ∀ pt ∈ pts, ∀ s, expand pt feats cate = .ok (some s) → ∃ id, lookup m s = some id

theorem Defined.mono {m m' : IdMap} {pts : List ParsedTemplate} {feats : List Str} {cate : Nat}
    (h : Defined m pts feats cate) (hext : Extends m m') : Defined m' pts feats cate :=
  fun pt hpt s hs => let ⟨id, hid⟩ := h pt hpt s hs; ⟨id, hext s id hid⟩

/-- `idOf` is stable under extension once it is defined for every expansion. -/
theorem map_idOf_extends {m m' : IdMap} (hext : Extends m m') (feats : List Str) (cate : Nat)
    (pts : List ParsedTemplate) (hdef : Defined m pts feats cate) :
    pts.map (idOf m' feats cate) = pts.map (idOf m feats cate) := by
  apply List.map_congr_left
  intro pt hpt
  simp only [idOf]
  split
  · rename_i s hs
    obtain ⟨id, hid⟩ := hdef pt hpt s hs
    rw [hid, hext s id hid]
  · rfl

/-- What a left extraction call returns: position `t` of the result is the id that the map AFTER
the call gives to the expansion of left template `t` (`none` where the template yields no
feature); every expansion is in the map afterwards; old bindings are kept; nothing else changes. -/
theorem extractLeft_spec (st st' : ExtractorState) (feats : List Str) (ids : List (Option Nat))
    (h : StateOK st) (he : extractLeft st feats = .ok (ids, st')) :
    StateOK st' ∧ After st st' ∧ st'.uni = st.uni ∧ st'.right = st.right ∧
      ids = st.leftT.map (idOf st'.left feats 0) ∧ Defined st'.left st.leftT feats 0 := by
  unfold extractLeft at he
  split at he
  · rename_i res m n hx
    cases he
    obtain ⟨h1, h2, _, h4, h5⟩ := extractIds_spec feats 0 _ h.left hx
    exact ⟨⟨h.uni, h1, h.right⟩, ⟨Extends.refl _, h2, Extends.refl _, rfl, rfl, rfl⟩, rfl, rfl, h4, h5⟩
  · cases he
  · cases he

theorem extractRight_spec (st st' : ExtractorState) (feats : List Str) (ids : List (Option Nat))
    (h : StateOK st) (he : extractRight st feats = .ok (ids, st')) :
    StateOK st' ∧ After st st' ∧ st'.uni = st.uni ∧ st'.left = st.left ∧
      ids = st.rightT.map (idOf st'.right feats 0) ∧ Defined st'.right st.rightT feats 0 := by
  unfold extractRight at he
  split at he
  · rename_i res m n hx
    cases he
    obtain ⟨h1, h2, _, h4, h5⟩ := extractIds_spec feats 0 _ h.right hx
    exact ⟨⟨h.uni, h.left, h1⟩, ⟨Extends.refl _, Extends.refl _, h2, rfl, rfl, rfl⟩, rfl, rfl, h4, h5⟩
  · cases he
  · cases he

theorem extractUnigram_spec (st st' : ExtractorState) (feats : List Str) (cate : Nat)
    (ids : List Nat) (h : StateOK st) (he : extractUnigram st feats cate = .ok (ids, st')) :
    StateOK st' ∧ After st st' ∧ st'.left = st.left ∧ st'.right = st.right ∧
      ids = (st.uniT.map (idOf st'.uni feats cate)).filterMap id ∧
      Defined st'.uni st.uniT feats cate := by
  unfold extractUnigram at he
  split at he
  · rename_i res m n hx
    cases he
    obtain ⟨h1, h2, _, h4, h5⟩ := extractIds_spec feats cate _ h.uni hx
    exact ⟨⟨h1, h.left, h.right⟩, ⟨h2, Extends.refl _, Extends.refl _, rfl, rfl, rfl⟩, rfl, rfl,
      by rw [h4], h5⟩
  · cases he
  · cases he

theorem stateOK_new (u : List Str) (b : List (Str × Str)) (st : ExtractorState)
    (h : ExtractorState.new u b = .ok st) :
    StateOK st ∧ st.leftT.length = b.length ∧ st.rightT.length = b.length := by
  have hm : MapOK [] 1 := ⟨by simp, by simp, by simp⟩
  have hlen : ∀ (k : Kind) (ts : List Str) (ps : List ParsedTemplate),
      parseTemplates k ts = .ok ps → ps.length = ts.length := by
    intro k ts
    induction ts with
    | nil => intro ps hp; simp only [parseTemplates, Outcome.ok.injEq] at hp; subst hp; rfl
    | cons t ts ih =>
      intro ps hp
      simp only [parseTemplates] at hp
      split at hp
      · split at hp
        · rename_i ps' hps'
          cases hp
          simp [ih ps' hps']
        · cases hp
        · cases hp
      · cases hp
      · cases hp
  unfold ExtractorState.new at h
  split at h
  · split at h
    · rename_i l hl
      split at h
      · rename_i r hr
        cases h
        exact ⟨⟨hm, hm, hm⟩, by simpa using hlen _ _ _ hl, by simpa using hlen _ _ _ hr⟩
      · cases h
      · cases h
    · cases h
    · cases h
  · cases h
  · cases h

end Vibrato.Extractor
