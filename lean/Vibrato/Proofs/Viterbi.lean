import Vibrato.Proofs.LatticeInv

namespace Vibrato

/-- A reversed path (last word first, the order of `top_nodes`) through the
lattice from boundary 0 to boundary `e`: every word is a stored node, ends where
the previous list element says, and starts (as a *node*) where its predecessor
ends. -/
def RPath (L : Ends) : List (Nat × Node) → Nat → Prop
  | [], e => e = 0
  | (e1, n) :: rest, e => e1 = e ∧ 0 < e ∧ n ∈ endsAt L e ∧ RPath L rest n.startNode

/-- right id of the last word of a reversed path (BOS: connection id 0) -/
def lastRight : List (Nat × Node) → Nat
  | [] => 0
  | (_, n) :: _ => n.rightId

/-- accumulated cost of a reversed path: connection and word costs from BOS up to
and including the last word -/
def rcost (conn : Nat → Nat → Int) : List (Nat × Node) → Int
  | [] => 0
  | (_, n) :: rest => rcost conn rest + conn (lastRight rest) n.leftId + n.wordCost

/-- cost of a complete segmentation: the path plus the connection to EOS (id 0) -/
def totalCost (conn : Nat → Nat → Int) (π : List (Nat × Node)) : Int :=
  rcost conn π + conn (lastRight π) 0

/-- Lower bound: the stored `min_cost` of a node is at most the accumulated cost
of every path that ends with that node. -/
theorem minCost_le_path {E C W L q} (h : LInv E C W L q) :
    ∀ (e : Nat) (n : Node) (rest : List (Nat × Node)), 0 < e → n ∈ endsAt L e →
      RPath L rest n.startNode → n.minCost ≤ rcost E.conn ((e, n) :: rest) := by
  intro e
  induction e using Nat.strongRecOn with
  | _ e ih =>
    intro n rest he hn hpath
    obtain ⟨hok, _⟩ := h.nodes e he n hn
    cases rest with
    | nil =>
      simp only [RPath] at hpath
      have hb : bosNode ∈ endsAt L n.startNode := by rw [hpath, h.bos]; simp
      have := hok.locMin bosNode hb
      simpa [rcost, lastRight, stepCost, bosNode] using this
    | cons hd rest' =>
      obtain ⟨e1, m⟩ := hd
      simp only [RPath] at hpath
      obtain ⟨he1, hpos, hm, hrest⟩ := hpath
      subst he1
      have hlt : n.startNode < e := by have := hok.sn_le_sw; have := hok.sw_lt; omega
      have ihm := ih n.startNode hlt m rest' hpos hm hrest
      have hloc := hok.locMin m hm
      simp only [rcost, lastRight, stepCost] at *
      omega

/-- The back-pointer walk succeeds from every stored node and yields a path whose
accumulated cost is that node's `min_cost`. -/
theorem walkBack_spec {E C W L q} (h : LInv E C W L q) :
    ∀ (e i : Nat) (n : Node), 0 < e → (endsAt L e)[i]? = some n →
      ∃ rest, walkBack L e i = some ((e, n) :: rest) ∧ RPath L ((e, n) :: rest) e ∧
        rcost E.conn ((e, n) :: rest) = n.minCost := by
  intro e
  induction e using Nat.strongRecOn with
  | _ e ih =>
    intro i n he hget
    have hn : n ∈ endsAt L e := List.mem_of_getElem? hget
    obtain ⟨hok, _⟩ := h.nodes e he n hn
    have hlt : n.startNode < e := by have := hok.sn_le_sw; have := hok.sw_lt; omega
    obtain ⟨m, hm, hcost⟩ := hok.back
    rw [walkBack]
    simp only [Nat.ne_of_gt he, if_false, hget, hlt, if_true]
    rcases Nat.eq_zero_or_pos n.startNode with h0 | hpos
    · -- predecessor is BOS
      refine ⟨[], ?_, ?_, ?_⟩
      · rw [h0, walkBack]; simp
      · simp [RPath, he, hn, h0]
      · rw [h0, h.bos] at hm
        have : m = bosNode := by
          cases hidx : n.minIdx with
          | zero => simp [hidx] at hm; exact hm.symm
          | succ k => simp [hidx] at hm
        subst this
        simp [rcost, lastRight, hcost, stepCost, bosNode]
    · obtain ⟨rest, hw, hp, hc⟩ := ih n.startNode hlt n.minIdx m hpos hm
      refine ⟨(n.startNode, m) :: rest, ?_, ?_, ?_⟩
      · rw [hw]; rfl
      · exact ⟨rfl, he, hn, hp⟩
      · simp only [rcost, lastRight] at hc ⊢
        rw [hc, hcost]; simp [stepCost]

/-- Shape of reversed paths produced from an invariant lattice: consecutive words
do not overlap and lie inside the sentence. -/
theorem rpath_shape {E C W L q} (h : LInv E C W L q) :
    ∀ (π : List (Nat × Node)) (e : Nat), RPath L π e →
      ∀ x ∈ π, x.2.startNode ≤ x.2.startWord ∧ x.2.startWord < x.1 ∧ x.1 ≤ e ∧ x.1 ≤ E.len ∧
        x.2.isBos = false := by
  intro π
  induction π with
  | nil => intro _ _ x hx; cases hx
  | cons hd rest ih =>
    intro e hp x hx
    obtain ⟨e1, n⟩ := hd
    simp only [RPath] at hp
    obtain ⟨rfl, hpos, hn, hrest⟩ := hp
    obtain ⟨hok, _⟩ := h.nodes e1 hpos n hn
    simp only [List.mem_cons] at hx
    rcases hx with rfl | hx
    · exact ⟨hok.sn_le_sw, hok.sw_lt, Nat.le_refl _, hok.e_le, hok.notBos⟩
    · have := ih n.startNode hrest x hx
      have h1 := hok.sn_le_sw; have h2 := hok.sw_lt
      exact ⟨this.1, this.2.1, by omega, this.2.2.2.1, this.2.2.2.2⟩

end Vibrato
