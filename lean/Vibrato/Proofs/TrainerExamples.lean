/-
A concrete small trained model used by the non-vacuity examples of C14 / C15 / C16:
three seed rows (a homograph pair, one surface that needs CSV quoting), one unknown entry,
one unigram template, two bigram templates (one with a `?` capture), six weights of both
signs (read as integer units by the exact weight structure `exactOps 1`).
-/
import Vibrato.Model.Trainer
import Vibrato.Proofs.ImageExamples

namespace Vibrato.Trainer.Examples
open Vibrato.Bincode Vibrato.Image Vibrato.ModelImage Vibrato.Trainer

/-- ASCII string to bytes (reduces in the kernel, unlike `String.toUTF8`). -/
def b (s : String) : Str := s.toList.map fun c => UInt8.ofNat c.toNat

/-- Two's complement bit pattern of a small integer (`exactOps.ofBits` reads it back). -/
def bits (i : Int) : Nat := ofSigned 64 i

def tpl (raw : Str) (req : List Nat) (caps : List Capture) : Template := ⟨raw, req, caps⟩

def extractor : Extractor :=
  { unigramIds := [([117, 58, 78] /- u:N -/, 1), ([117, 58, 86] /- u:V -/, 2), ([117, 58, 85] /- u:U -/, 3)]
    leftIds := [([108, 58, 78] /- l:N -/, 1), ([97] /- a -/, 2), ([108, 58, 86] /- l:V -/, 3), ([98] /- b -/, 4), ([108, 58, 85] /- l:U -/, 5)]
    rightIds := [([114, 58, 78] /- r:N -/, 1), ([113, 58, 97] /- q:a -/, 2), ([114, 58, 86] /- r:V -/, 3), ([113, 58, 98] /- q:b -/, 4), ([114, 58, 85] /- r:U -/, 5), ([113, 58, 42] /- q:∗ -/, 6)]
    unigramNext := 4, leftNext := 6, rightNext := 7
    unigramT := [tpl ([117, 58, 37, 70, 91, 48, 93] /- u:%F[0] -/) [] [⟨2, 7, .index 0⟩]]
    leftT := [tpl ([108, 58, 37, 76, 91, 48, 93] /- l:%L[0] -/) [] [⟨2, 7, .index 0⟩], tpl ([37, 76, 63, 91, 49, 93] /- %L?[1] -/) [1] [⟨0, 6, .index 1⟩]]
    rightT := [tpl ([114, 58, 37, 82, 91, 48, 93] /- r:%R[0] -/) [] [⟨2, 7, .index 0⟩], tpl ([113, 58, 37, 82, 91, 49, 93] /- q:%R[1] -/) [] [⟨2, 7, .index 1⟩]] }

def dict : Dict :=
  { systemLexicon :=
      { map := { trie := Image.Examples.blob, postings := [] }, params := [⟨0, 0, 0⟩, ⟨0, 0, 0⟩, ⟨0, 0, 0⟩]
        features := [[78, 44, 97] /- N,a -/, [86, 44, 98] /- V,b -/, [78, 44, 97] /- N,a -/], lexType := .system }
    userLexicon := none
    connector := .matrix { data := [0], numRight := 1, numLeft := 1 }
    mapper := none
    charProp := { chr2inf := [0], categories := [[68, 69, 70, 65, 85, 76, 84] /- DEFAULT -/] }
    unkHandler := { offsets := [0, 1], entries := [⟨0, 0, 0, 0, [85] /- U -/⟩] } }

def config : Config :=
  { extractor := extractor
    unigramRw := [[.trans (.exact ([86] /- V -/)) 1], [.rw [.text ([86] /- V -/), .ref 1]]]
    leftRw := [[]]
    rightRw := [[.trans (.multiple [[78] /- N -/, [88] /- X -/]) 1], [.rw [.ref 0, .ref 1]]]
    dict := dict
    surfaces := [[120] /- x -/, [121, 44, 122] /- y,z -/, [120] /- x -/] }

def fsN : FeatureSet := ⟨[1], [some 1, some 2], [some 1, some 2]⟩
def fsV : FeatureSet := ⟨[2], [some 3, some 4], [some 3, some 4]⟩
def fsU : FeatureSet := ⟨[3], [some 5, some 6], [some 5, none]⟩

def raw : RawModel :=
  { weights := [bits 5, bits (-3), bits 7, bits 2, bits (-4), bits 1]
    unigramIdx := [some 1, some 2, none]
    bigramIdx := [[(1, 2), (3, 3)], [(3, 4), (0, 5)], [(4, 2)], [], [(2, 0)], []]
    featureSets := [fsN, fsV, fsN, fsU] }

def model : ModelData := ⟨config, raw⟩

/-- The same model with the weights `5, -3, 7, 2, -4, 1` stored as `f64` bit patterns (for the
`Float` weight structure of the driver). -/
def modelF : ModelData :=
  { model with raw := { raw with weights :=
      [0x4014000000000000, 0xC008000000000000, 0x401C000000000000, 0x4000000000000000,
       0xC010000000000000, 0x3FF0000000000000] } }

/-- The same model with every hash container listed in a different order. -/
def modelPerm : ModelData :=
  { config := { config with
      extractor := { extractor with
        unigramIds := extractor.unigramIds.reverse
        leftIds := extractor.leftIds.reverse
        rightIds := extractor.rightIds.reverse }
      rightRw := [[.trans (.multiple [[88] /- X -/, [78] /- N -/]) 1], [.rw [.ref 0, .ref 1]]] }
    raw := { raw with bigramIdx := raw.bigramIdx.map List.reverse } }

/-- A user lexicon: one row with `0,0,0` (gets model parameters), one with explicit parameters. -/
def userCsv : List UInt8 := [120, 44, 48, 44, 48, 44, 48, 44, 86, 44, 98, 10, 119, 44, 51, 44, 50, 44, 45, 49, 55, 44, 78, 44, 97, 10] /- two rows: x,0,0,0,V,b and w,3,2,-17,N,a -/

theorem wf_dict : wfDict dict = true := by decide
theorem wf_extractor : wfExtractor extractor = true := by decide
theorem wf_raw : wfRawModel raw = true := by decide
theorem wf_model : WFmodel model := by
  simp only [WFmodel, wfModel, wfConfig, model, config, wf_dict, wf_extractor, wf_raw, Bool.and_true,
    Bool.true_and]
  decide

end Vibrato.Trainer.Examples
