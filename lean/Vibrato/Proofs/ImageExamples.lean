/-
Concrete dictionaries used by the non-vacuity examples of C05 / C09 (one per connector
kind).  Small, but every field is populated: trie blob, postings, parameters with negative
costs, multi-byte UTF-8 features, user lexicon, mapper, unknown entries, scorer arrays.
-/
import Vibrato.Model.Image

namespace Vibrato.Image.Examples
open Vibrato.Bincode Vibrato.Image

/-- A crawdad blob: code table of 2 entries, alphabet size 2, one node. -/
def blob : List UInt8 :=
  [2,0,0,0,  1,0,0,0,  0,0,0,0x80,  2,0,0,0,  1,0,0,0,  7,0,0,0, 0xff,0xff,0xff,0xff]

/-- "名詞,A" in UTF-8. -/
def feat : Str := [0xe5, 0x90, 0x8d, 0xe8, 0xa9, 0x9e, 0x2c, 0x41]

def lex (t : LexType) : Lexicon :=
  { map := { trie := blob, postings := [1, 0, 2, 1, 2] }
    params := [⟨1, 2, -32768⟩, ⟨65535, 0, 32767⟩, ⟨3, 3, 0⟩]
    features := [feat, [], [0xf0, 0x9f, 0x98, 0x80]]
    lexType := t }

def mat : Matrix := { data := [0, -1, 300, -32768, 32767, 5], numRight := 2, numLeft := 3 }

def scorer : Scorer :=
  { bases := [0, 4294967295], checks := [0, 1, 4294967295], costs := [-2147483648, 2147483647, 0] }

def lanes : List (List Nat) := [[0, 1, 2, 3, 4, 5, 6, 2147483647], [7, 7, 7, 7, 0, 0, 0, 0]]

def charProp : CharProp := { chr2inf := [0, 4294967295, 65536], categories := [[0x44], feat] }

def unk : UnkHandler :=
  { offsets := [0, 1, 2], entries := [⟨0, 1, 2, -5, feat⟩, ⟨1, 0, 0, 7, []⟩] }

def dMatrix : Dict :=
  { systemLexicon := lex .system, userLexicon := some (lex .user), connector := .matrix mat
    mapper := some { left := [0, 2, 1], right := [0, 1] }, charProp := charProp, unkHandler := unk }

def dRaw : Dict :=
  { systemLexicon := lex .system, userLexicon := none
    connector := .raw { rightFeatIds := lanes, leftFeatIds := lanes.reverse, featTemplateSize := 5,
                        scorer := scorer }
    mapper := none, charProp := charProp, unkHandler := unk }

def dDual : Dict :=
  { systemLexicon := lex .system, userLexicon := none
    connector := .dual { matrix := mat, rightConnIdMap := [0, 1], leftConnIdMap := [2, 0, 1],
                         rightFeatIds := lanes, leftFeatIds := lanes, rawScorer := scorer }
    mapper := some { left := [0, 1, 2], right := [0, 1] }, charProp := charProp, unkHandler := unk }

theorem wf_dMatrix : WFsize dMatrix := by decide
theorem wf_dRaw : WFsize dRaw := by decide
theorem wf_dDual : WFsize dDual := by decide

end Vibrato.Image.Examples
