/-
Soundness of the decoders: whatever the reader accepts is a well-formed dictionary
(`WFsize`).  Together with the round-trip lemmas this removes the hypothesis `WFsize` for
dictionaries that were themselves obtained by reading an image.
-/
import Vibrato.Proofs.Image

namespace Vibrato.Bincode

/-- Every value the decoder can return satisfies `P`. -/
def Sound (d : Dec α) (P : α → Prop) : Prop := ∀ bs v r, d bs = .ok v r → P v

theorem sound_ret {a : α} {P : α → Prop} (h : P a) : Sound (Dec.ret a) P := by
  intro bs v r hd; cases hd; exact h

theorem sound_fail {P : α → Prop} : Sound (Dec.fail : Dec α) P := by
  intro bs v r hd; cases hd

theorem sound_crash {P : α → Prop} : Sound (Dec.crash : Dec α) P := by
  intro bs v r hd; cases hd

theorem sound_andThen {d : Dec α} {f : α → Dec β} {Q : α → Prop} {P : β → Prop}
    (hd : Sound d Q) (hf : ∀ a, Q a → Sound (f a) P) : Sound (d.andThen f) P := by
  intro bs v r h
  obtain ⟨a, r1, h1, h2⟩ := andThen_eq_ok h
  exact hf a (hd _ _ _ h1) _ _ _ h2

theorem sound_map {d : Dec α} {f : α → β} {Q : α → Prop} {P : β → Prop}
    (hd : Sound d Q) (hf : ∀ a, Q a → P (f a)) : Sound (d.map f) P :=
  sound_andThen hd fun a ha => sound_ret (hf a ha)

theorem sound_ite {c : Prop} [Decidable c] {d1 d2 : Dec α} {P : α → Prop}
    (h1 : c → Sound d1 P) (h2 : ¬ c → Sound d2 P) : Sound (if c then d1 else d2) P := by
  split
  · exact h1 ‹_›
  · exact h2 ‹_›

theorem sound_true (d : Dec α) : Sound d (fun _ => True) := fun _ _ _ _ => trivial

theorem sound_leN (k : Nat) : Sound (leN k) (fun n => n < 256 ^ k) := by
  induction k with
  | zero => exact sound_ret (by decide)
  | succ k ih =>
    rw [leN_succ]
    refine sound_andThen (sound_true _) fun b _ => sound_andThen ih fun v hv => sound_ret ?_
    have := b.toNat_lt
    rw [Nat.pow_succ]
    omega

theorem sound_rep {d : Dec α} {P : α → Prop} (hd : Sound d P) (n : Nat) :
    Sound (rep d n) (fun l => l.length = n ∧ ∀ a ∈ l, P a) := by
  induction n with
  | zero => exact sound_ret ⟨rfl, by simp⟩
  | succ n ih =>
    rw [rep_succ]
    refine sound_andThen hd fun a ha => sound_andThen ih fun l hl => sound_ret ⟨by simp [hl.1], ?_⟩
    intro x hx
    rcases List.mem_cons.mp hx with rfl | hx
    · exact ha
    · exact hl.2 x hx

theorem sound_vec (sz : Nat) {d : Dec α} {P : α → Prop} (hd : Sound d P) :
    Sound (vec sz d) (VecOk sz P) := by
  unfold vec
  refine sound_andThen (sound_true _) fun n _ => sound_ite (fun _ => sound_crash) fun hn => ?_
  intro bs l r h
  obtain ⟨hlen, hl⟩ := sound_rep hd n _ _ _ h
  exact ⟨by rw [hlen]; omega, hl⟩

end Vibrato.Bincode

namespace Vibrato.Image
open Vibrato.Bincode

theorem wfVec_of_ok {sz : Nat} {p : α → Bool} {l : List α}
    (h : VecOk sz (fun a => p a = true) l) : wfVec sz p l = true := by
  simp only [wfVec, Bool.and_eq_true, decide_eq_true_eq, List.all_eq_true]
  exact h

theorem sound_wfVec (sz : Nat) {d : Dec α} {p : α → Bool} (hd : Sound d (fun a => p a = true)) :
    Sound (vec sz d) (fun l => wfVec sz p l = true) :=
  fun bs v r h => wfVec_of_ok (sound_vec sz hd bs v r h)

theorem sound_wfU16 : Sound u16 (fun n => wfU16 n = true) :=
  fun bs v r h => by simpa [wfU16] using sound_leN 2 bs v r h
theorem sound_wfU32 : Sound u32 (fun n => wfU32 n = true) :=
  fun bs v r h => by simpa [wfU32] using sound_leN 4 bs v r h
theorem sound_wfU64 : Sound u64 (fun n => wfU64 n = true) :=
  fun bs v r h => by simpa [wfU64] using sound_leN 8 bs v r h

theorem sound_wfI16 : Sound i16 (fun i => wfI16 i = true) := by
  refine sound_map (sound_leN 2) fun v hv => ?_
  have : -2 ^ 15 ≤ toSigned 16 v ∧ toSigned 16 v < 2 ^ 15 := by
    simp only [toSigned]; omega
  simpa [wfI16] using this

theorem sound_wfI32 : Sound i32 (fun i => wfI32 i = true) := by
  refine sound_map (sound_leN 4) fun v hv => ?_
  have : -2 ^ 31 ≤ toSigned 32 v ∧ toSigned 32 v < 2 ^ 31 := by
    simp only [toSigned]; omega
  simpa [wfI32] using this

theorem sound_wfStr : Sound str (fun s => wfStr s = true) := by
  unfold str
  refine sound_andThen (sound_vec 1 (sound_true u8)) fun bs hbs =>
    sound_ite (fun hv => sound_ret ?_) fun _ => sound_fail
  have := hbs.1
  simp only [wfStr, Bool.and_eq_true, decide_eq_true_eq]
  exact ⟨by omega, hv⟩

theorem sound_wfU31x8 : Sound u31x8 (fun l => wfU31x8 l = true) := by
  have h31 : Sound u31 (fun n => wfU31 n = true) := by
    unfold u31
    exact sound_andThen (sound_true _) fun x _ =>
      sound_ite (fun hx => sound_ret (by simpa [wfU31] using hx)) fun _ => sound_fail
  intro bs l r h
  obtain ⟨hlen, hl⟩ := sound_rep h31 8 bs l r h
  simp only [wfU31x8, Bool.and_eq_true, decide_eq_true_eq, List.all_eq_true]
  exact ⟨hlen, hl⟩

/-- The part of a blob that the crawdad parser walks over is itself exactly one trie. -/
theorem crawdadLen_take {b : List UInt8} {n : Nat} (h : crawdadLen b = some n) :
    n ≤ b.length ∧ crawdadLen (b.take n) = some (b.take n).length := by
  have hf : Framed crawdadWalk := by
    unfold crawdadWalk
    exact framed_andThen framed_u32 fun _ => framed_andThen (framed_readExact _) fun _ =>
      framed_andThen framed_u32 fun _ => framed_map _ (framed_readExact _)
  unfold crawdadLen at h
  split at h
  · rename_i u rest hw
    cases h
    obtain ⟨used, e, x, _⟩ := hf _ _ _ hw
    subst e
    have hx := x []
    rw [List.append_nil] at hx
    refine ⟨by simp, ?_⟩
    have : (used ++ rest).length - rest.length = used.length := by simp
    rw [this, List.take_left']
    · simp [crawdadLen, hx]
    · rfl
  · cases h

theorem sound_trie : Sound decTrie (fun b => wfTrie b = true) := by
  unfold decTrie
  refine sound_andThen (sound_vec szU8 (sound_true u8)) fun blob hb => ?_
  split
  · exact sound_crash
  · rename_i n hn
    obtain ⟨hle, hc⟩ := crawdadLen_take hn
    refine sound_ret ?_
    have := hb.1
    simp only [szU8] at this
    simp only [wfTrie, Bool.and_eq_true, decide_eq_true_eq]
    exact ⟨by simp; omega, hc⟩

theorem sound_wordParam : Sound decWordParam (fun p => wfWordParam p = true) := by
  unfold decWordParam
  exact sound_andThen sound_wfU16 fun _ h1 => sound_andThen sound_wfU16 fun _ h2 =>
    sound_andThen sound_wfI16 fun _ h3 => sound_ret (by simp [wfWordParam, h1, h2, h3])

theorem sound_wordMap : Sound decWordMap (fun m => wfWordMap m = true) := by
  unfold decWordMap
  exact sound_andThen sound_trie fun _ h1 => sound_andThen (sound_wfVec _ sound_wfU32) fun _ h2 =>
    sound_ret (by simp [wfWordMap, h1, h2])

theorem sound_lexicon : Sound decLexicon (fun l => wfLexicon l = true) := by
  unfold decLexicon
  exact sound_andThen sound_wordMap fun _ h1 =>
    sound_andThen (sound_wfVec _ sound_wordParam) fun _ h2 =>
    sound_andThen (sound_wfVec _ sound_wfStr) fun _ h3 =>
    sound_andThen (sound_true _) fun _ _ => sound_ret (by simp [wfLexicon, h1, h2, h3])

theorem sound_matrix : Sound decMatrix (fun m => wfMatrix m = true) := by
  unfold decMatrix
  exact sound_andThen (sound_wfVec _ sound_wfI16) fun _ h1 => sound_andThen sound_wfU64 fun _ h2 =>
    sound_andThen sound_wfU64 fun _ h3 => sound_ret (by simp [wfMatrix, h1, h2, h3])

theorem sound_scorer : Sound decScorer (fun s => wfScorer s = true) := by
  unfold decScorer
  exact sound_andThen (sound_wfVec _ sound_wfU32) fun _ h1 =>
    sound_andThen (sound_wfVec _ sound_wfU32) fun _ h2 =>
    sound_andThen (sound_wfVec _ sound_wfI32) fun _ h3 =>
    sound_ite (fun h4 => sound_ret (by simp [wfScorer, h1, h2, h3, h4])) fun _ => sound_fail

theorem sound_raw : Sound decRaw (fun c => wfRaw c = true) := by
  unfold decRaw
  exact sound_andThen (sound_wfVec _ sound_wfU31x8) fun _ h1 =>
    sound_andThen (sound_wfVec _ sound_wfU31x8) fun _ h2 =>
    sound_andThen sound_wfU64 fun _ h3 => sound_andThen sound_scorer fun _ h4 =>
    sound_ret (by simp [wfRaw, h1, h2, h3, h4])

theorem sound_dual : Sound decDual (fun c => wfDual c = true) := by
  unfold decDual
  exact sound_andThen sound_matrix fun _ h1 =>
    sound_andThen (sound_wfVec _ sound_wfU16) fun _ h2 =>
    sound_andThen (sound_wfVec _ sound_wfU16) fun _ h3 =>
    sound_andThen (sound_wfVec _ sound_wfU31x8) fun _ h4 =>
    sound_andThen (sound_wfVec _ sound_wfU31x8) fun _ h5 =>
    sound_andThen sound_scorer fun _ h6 => sound_ret (by simp [wfDual, h1, h2, h3, h4, h5, h6])

theorem sound_connector : Sound decConnector (fun c => wfConnector c = true) := by
  unfold decConnector
  exact sound_andThen (sound_true _) fun _ _ =>
    sound_ite (fun _ => sound_map sound_matrix fun _ h => by simpa [wfConnector] using h) fun _ =>
    sound_ite (fun _ => sound_map sound_raw fun _ h => by simpa [wfConnector] using h) fun _ =>
    sound_map sound_dual fun _ h => by simpa [wfConnector] using h

theorem sound_mapper : Sound decMapper (fun m => wfMapper m = true) := by
  unfold decMapper
  exact sound_andThen (sound_wfVec _ sound_wfU16) fun _ h1 =>
    sound_andThen (sound_wfVec _ sound_wfU16) fun _ h2 => sound_ret (by simp [wfMapper, h1, h2])

theorem sound_charProp : Sound decCharProp (fun c => wfCharProp c = true) := by
  unfold decCharProp
  exact sound_andThen (sound_wfVec _ sound_wfU32) fun _ h1 =>
    sound_andThen (sound_wfVec _ sound_wfStr) fun _ h2 => sound_ret (by simp [wfCharProp, h1, h2])

theorem sound_unkEntry : Sound decUnkEntry (fun e => wfUnkEntry e = true) := by
  unfold decUnkEntry
  exact sound_andThen sound_wfU16 fun _ h1 => sound_andThen sound_wfU16 fun _ h2 =>
    sound_andThen sound_wfU16 fun _ h3 => sound_andThen sound_wfI16 fun _ h4 =>
    sound_andThen sound_wfStr fun _ h5 => sound_ret (by simp [wfUnkEntry, h1, h2, h3, h4, h5])

theorem sound_unkHandler : Sound decUnkHandler (fun u => wfUnkHandler u = true) := by
  unfold decUnkHandler
  exact sound_andThen (sound_wfVec _ sound_wfU64) fun _ h1 =>
    sound_andThen (sound_wfVec _ sound_unkEntry) fun _ h2 =>
    sound_ret (by simp [wfUnkHandler, h1, h2])

theorem sound_opt {d : Dec α} {p : α → Bool} (hd : Sound d (fun a => p a = true)) :
    Sound (opt d) (fun o => wfOpt p o = true) := by
  unfold opt
  exact sound_andThen (sound_true _) fun _ _ =>
    sound_ite (fun _ => sound_ret rfl) fun _ =>
    sound_ite (fun _ => sound_map hd fun _ h => h) fun _ => sound_fail

theorem sound_decodeDict : Sound decodeDict (fun d => wfDict d = true) := by
  unfold decodeDict
  exact sound_andThen sound_lexicon fun _ h1 => sound_andThen (sound_opt sound_lexicon) fun _ h2 =>
    sound_andThen sound_connector fun _ h3 => sound_andThen (sound_opt sound_mapper) fun _ h4 =>
    sound_andThen sound_charProp fun _ h5 => sound_andThen sound_unkHandler fun _ h6 =>
    sound_ret (by simp [wfDict, h1, h2, h3, h4, h5, h6])

theorem sound_decodeImage : Sound decodeImage (fun d => wfDict d = true) := by
  unfold decodeImage
  exact sound_andThen (sound_true _) fun _ _ => sound_ite (fun _ => sound_decodeDict) fun _ => sound_fail

end Vibrato.Image
