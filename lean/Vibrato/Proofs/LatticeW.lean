/-
Helper lemmas for `Props/C02u16`: relation between the lattice construction with
back pointers stored modulo `W` (`Model/LatticeW`) and the one with exact back
pointers (`Model/Lattice`).
-/
import Vibrato.Model.LatticeW
import Vibrato.Proofs.LatticeBasic

namespace Vibrato

/-! ### 1. Everything except the back pointers always agrees -/

/-- A node with its back pointer erased. -/
def stripIdx (n : Node) : Node := { n with minIdx := 0 }

/-- Two `ends` buffers that differ at most in stored back pointers. -/
def Agree (L L' : Ends) : Prop :=
  L.length = L'.length ∧ ∀ j, (endsAt L j).map stripIdx = (endsAt L' j).map stripIdx

theorem Agree.refl (L : Ends) : Agree L L := ⟨rfl, fun _ => rfl⟩

theorem Agree.length_endsAt {L L' : Ends} (h : Agree L L') (j : Nat) :
    (endsAt L j).length = (endsAt L' j).length := by
  have := congrArg List.length (h.2 j)
  simpa using this

/-- The cost found by `search_min_node` does not depend on how indices are stored,
nor on the back pointers of the scanned nodes. -/
theorem searchMinGoW_snd (W : Nat) (conn : Nat → Nat → Int) (l : Nat) :
    ∀ (ns ns' : List Node) (i i' : Nat) (acc acc' : Nat × Int),
      ns.map stripIdx = ns'.map stripIdx → acc.2 = acc'.2 →
      (searchMinGoW W conn l ns i acc).2 = (searchMinGo conn l ns' i' acc').2 := by
  intro ns
  induction ns with
  | nil =>
    intro ns' i i' acc acc' h hacc
    cases ns' with
    | nil => simpa [searchMinGoW, searchMinGo] using hacc
    | cons _ _ => simp at h
  | cons n ns ih =>
    intro ns' i i' acc acc' h hacc
    cases ns' with
    | nil => simp at h
    | cons n' ns' =>
      simp only [List.map_cons, List.cons.injEq] at h
      obtain ⟨hn, hns⟩ := h
      have h1 : n.minCost = n'.minCost := by
        have := congrArg Node.minCost hn; exact this
      have h2 : n.rightId = n'.rightId := by
        have := congrArg Node.rightId hn; exact this
      simp only [searchMinGoW, searchMinGo, h1, h2, hacc]
      split
      · exact ih ns' _ _ _ _ hns rfl
      · exact ih ns' _ _ _ _ hns hacc

theorem searchMinW_snd (W : Nat) (conn : Nat → Nat → Int) (l : Nat) (prev prev' : List Node)
    (h : prev.map stripIdx = prev'.map stripIdx) :
    (searchMinW W conn prev l).2 = (searchMin conn prev' l).2 :=
  searchMinGoW_snd W conn l prev prev' 0 0 _ _ h rfl

theorem agree_pushAt {L L' : Ends} (h : Agree L L') (i : Nat) (n n' : Node)
    (hn : stripIdx n = stripIdx n') : Agree (pushAt L i n) (pushAt L' i n') := by
  refine ⟨by simpa using h.1, ?_⟩
  intro j
  rw [endsAt_pushAt, endsAt_pushAt, h.1]
  split
  · simp [h.2 i, hn]
  · exact h.2 j

theorem insertNodeW_agree (W : Nat) (E : LatEnv) {L L' : Ends} (h : Agree L L')
    (sn sw : Nat) (c : Cand) : Agree (insertNodeW W E L sn sw c) (insertNode E L' sn sw c) := by
  unfold insertNodeW insertNode
  apply agree_pushAt h
  simp only [stripIdx, searchMinW_snd W E.conn c.leftId _ _ (h.2 sn)]

theorem foldl_insertW_agree (W : Nat) (E : LatEnv) (sn sw : Nat) :
    ∀ (cs : List Cand) (L L' : Ends), Agree L L' →
      Agree (cs.foldl (fun L c => insertNodeW W E L sn sw c) L)
        (cs.foldl (fun L c => insertNode E L sn sw c) L')
  | [], _, _, h => h
  | c :: cs, L, L', h => by
    simp only [List.foldl_cons]
    exact foldl_insertW_agree W E sn sw cs _ _ (insertNodeW_agree W E h sn sw c)

theorem addEdgesW_agree (W : Nat) (E : LatEnv) {L L' : Ends} (h : Agree L L') (sn sw : Nat) :
    Agree (addEdgesW W E L sn sw) (addEdges E L' sn sw) :=
  foldl_insertW_agree W E sn sw _ _ _ h

theorem buildLoopW_agree (W : Nat) (E : LatEnv) (L L' : Ends) (p : Nat) (h : Agree L L') :
    Agree (buildLoopW W E L p).1 (buildLoop E L' p).1 ∧
      (buildLoopW W E L p).2 = (buildLoop E L' p).2 := by
  fun_induction buildLoop E L' p generalizing L with
  | case1 L' p hlt hemp ih =>
    have hemp' : (endsAt L p).isEmpty = true := by
      have := h.length_endsAt p
      simp only [List.isEmpty_iff] at hemp ⊢
      rw [hemp] at this
      simpa using this
    rw [buildLoopW]; simp only [hlt, if_true, hemp']
    exact ih L h
  | case2 L' p hlt hemp sw hbreak =>
    have hemp' : ¬ (endsAt L p).isEmpty = true := by
      have := h.length_endsAt p
      simp only [List.isEmpty_iff] at hemp ⊢
      intro h0; rw [h0] at this
      exact hemp (List.eq_nil_of_length_eq_zero this.symm)
    rw [buildLoopW]; simp only [hlt, if_true, hemp']
    have : E.len ≤ p + E.skip p := hbreak
    simp only [this, if_true]
    exact ⟨h, by simp⟩
  | case3 L' p hlt hemp sw hcont ih =>
    have hemp' : ¬ (endsAt L p).isEmpty = true := by
      have := h.length_endsAt p
      simp only [List.isEmpty_iff] at hemp ⊢
      intro h0; rw [h0] at this
      exact hemp (List.eq_nil_of_length_eq_zero this.symm)
    rw [buildLoopW]; simp only [hlt, if_true, hemp']
    have : ¬ E.len ≤ p + E.skip p := hcont
    simp only [this, if_false]
    exact ih _ (addEdgesW_agree W E h p sw)
  | case4 L' p hge =>
    rw [buildLoopW]; simp only [hge, if_false]
    exact ⟨h, by simp⟩

theorem eosNodeW_strip (W : Nat) (E : LatEnv) {L L' : Ends} (h : Agree L L') (sn : Nat) :
    stripIdx (eosNodeW W E L sn) = stripIdx (eosNode E L' sn) := by
  simp only [eosNodeW, eosNode, stripIdx, searchMinW_snd W E.conn 0 _ _ (h.2 sn)]

theorem agree_map_length {L L' : Ends} (h : Agree L L') :
    L.map List.length = L'.map List.length := by
  apply List.ext_getElem (by simpa using h.1)
  intro j h1 h2
  simp only [List.length_map] at h1 h2
  have := h.length_endsAt j
  simp only [endsAt, List.getD_eq_getElem?_getD, List.getElem?_eq_getElem h1,
    List.getElem?_eq_getElem h2, Option.getD_some] at this
  simpa using this

/-! ### 2. Boundary lengths only grow -/

theorem length_endsAt_pushAt_ge (L : Ends) (i j : Nat) (n : Node) :
    (endsAt L j).length ≤ (endsAt (pushAt L i n) j).length := by
  rw [endsAt_pushAt]
  split
  · rename_i h; rw [h.1]; simp
  · exact Nat.le_refl _

theorem insertNode_length_ge (E : LatEnv) (L : Ends) (sn sw : Nat) (c : Cand) (j : Nat) :
    (endsAt L j).length ≤ (endsAt (insertNode E L sn sw c) j).length :=
  length_endsAt_pushAt_ge _ _ _ _

theorem foldl_insert_length_ge (E : LatEnv) (sn sw : Nat) (j : Nat) :
    ∀ (cs : List Cand) (L : Ends),
      (endsAt L j).length ≤ (endsAt (cs.foldl (fun L c => insertNode E L sn sw c) L) j).length
  | [], _ => Nat.le_refl _
  | c :: cs, L => by
    simp only [List.foldl_cons]
    exact Nat.le_trans (insertNode_length_ge E L sn sw c j) (foldl_insert_length_ge E sn sw j cs _)

theorem addEdges_length_ge (E : LatEnv) (L : Ends) (sn sw : Nat) (j : Nat) :
    (endsAt L j).length ≤ (endsAt (addEdges E L sn sw) j).length :=
  foldl_insert_length_ge E sn sw j _ L

theorem buildLoop_length_ge (E : LatEnv) (L : Ends) (p : Nat) (j : Nat) :
    (endsAt L j).length ≤ (endsAt (buildLoop E L p).1 j).length := by
  fun_induction buildLoop E L p with
  | case1 L p hlt hemp ih => exact ih
  | case2 L p hlt hemp sw hbreak => exact Nat.le_refl _
  | case3 L p hlt hemp sw hcont ih => exact Nat.le_trans (addEdges_length_ge E L p sw j) ih
  | case4 L p hge => exact Nat.le_refl _

/-! ### 3. With at most `W` nodes per boundary the two constructions coincide -/

/-- Every boundary holds at most `W` nodes. -/
def Bounded (W : Nat) (L : Ends) : Prop := ∀ j, (endsAt L j).length ≤ W

theorem bounded_of_forall_mem {W : Nat} {L : Ends} (h : ∀ l ∈ L, l.length ≤ W) : Bounded W L := by
  intro j
  unfold endsAt
  rw [List.getD_eq_getElem?_getD]
  cases hj : L[j]? with
  | none => simp
  | some l => exact h l (List.mem_of_getElem? hj)

theorem searchMinGoW_eq (W : Nat) (conn : Nat → Nat → Int) (l : Nat) :
    ∀ (ns : List Node) (i : Nat) (acc : Nat × Int), i + ns.length ≤ W →
      searchMinGoW W conn l ns i acc = searchMinGo conn l ns i acc
  | [], _, _, _ => rfl
  | n :: ns, i, acc, h => by
    simp only [List.length_cons] at h
    have hi : i % W = i := Nat.mod_eq_of_lt (by omega)
    simp only [searchMinGoW, searchMinGo, hi]
    split
    · exact searchMinGoW_eq W conn l ns (i + 1) _ (by omega)
    · exact searchMinGoW_eq W conn l ns (i + 1) _ (by omega)

theorem searchMinW_eq (W : Nat) (conn : Nat → Nat → Int) (prev : List Node) (l : Nat)
    (h : prev.length ≤ W) : searchMinW W conn prev l = searchMin conn prev l :=
  searchMinGoW_eq W conn l prev 0 _ (by omega)

theorem insertNodeW_eq (W : Nat) (E : LatEnv) (L : Ends) (sn sw : Nat) (c : Cand)
    (h : (endsAt L sn).length ≤ W) : insertNodeW W E L sn sw c = insertNode E L sn sw c := by
  unfold insertNodeW insertNode
  rw [searchMinW_eq W E.conn _ _ h]

theorem foldl_insertW_eq (W : Nat) (E : LatEnv) (sn sw : Nat) :
    ∀ (cs : List Cand) (L : Ends),
      (endsAt (cs.foldl (fun L c => insertNode E L sn sw c) L) sn).length ≤ W →
      cs.foldl (fun L c => insertNodeW W E L sn sw c) L =
        cs.foldl (fun L c => insertNode E L sn sw c) L
  | [], _, _ => rfl
  | c :: cs, L, h => by
    simp only [List.foldl_cons] at h ⊢
    have h1 : (endsAt L sn).length ≤ W :=
      Nat.le_trans (Nat.le_trans (insertNode_length_ge E L sn sw c sn)
        (foldl_insert_length_ge E sn sw sn cs _)) h
    rw [insertNodeW_eq W E L sn sw c h1]
    exact foldl_insertW_eq W E sn sw cs _ h

theorem addEdgesW_eq (W : Nat) (E : LatEnv) (L : Ends) (sn sw : Nat)
    (h : (endsAt (addEdges E L sn sw) sn).length ≤ W) :
    addEdgesW W E L sn sw = addEdges E L sn sw :=
  foldl_insertW_eq W E sn sw _ L h

theorem buildLoopW_eq (W : Nat) (E : LatEnv) (L : Ends) (p : Nat)
    (h : Bounded W (buildLoop E L p).1) : buildLoopW W E L p = buildLoop E L p := by
  fun_induction buildLoop E L p with
  | case1 L p hlt hemp ih =>
    rw [buildLoopW]; simp only [hlt, if_true, hemp]
    exact ih h
  | case2 L p hlt hemp sw hbreak =>
    rw [buildLoopW]; simp only [hlt, if_true, hemp]
    have : E.len ≤ p + E.skip p := hbreak
    simp [this]
  | case3 L p hlt hemp sw hcont ih =>
    rw [buildLoopW]; simp only [hlt, if_true, hemp]
    have : ¬ E.len ≤ p + E.skip p := hcont
    simp only [this, if_false]
    have hadd : addEdgesW W E L p (p + E.skip p) = addEdges E L p (p + E.skip p) :=
      addEdgesW_eq W E L p _ (Nat.le_trans (buildLoop_length_ge E _ (sw + 1) p) (h p))
    rw [hadd]
    exact ih h
  | case4 L p hge =>
    rw [buildLoopW]; simp only [hge, if_false]

theorem eosNodeW_eq (W : Nat) (E : LatEnv) (L : Ends) (sn : Nat) (h : (endsAt L sn).length ≤ W) :
    eosNodeW W E L sn = eosNode E L sn := by
  unfold eosNodeW eosNode
  rw [searchMinW_eq W E.conn _ _ h]

/-! ### 4. `maxBoundary` -/

theorem foldl_max_le (W : Nat) :
    ∀ (L : Ends) (a : Nat), L.foldl (fun m l => max m l.length) a ≤ W ↔
      a ≤ W ∧ ∀ l ∈ L, l.length ≤ W
  | [], a => by simp
  | x :: xs, a => by
    simp only [List.foldl_cons, foldl_max_le W xs, List.mem_cons, forall_eq_or_imp]
    constructor
    · rintro ⟨h1, h2⟩; exact ⟨by omega, by omega, h2⟩
    · rintro ⟨h1, h2, h3⟩; exact ⟨by omega, h3⟩

theorem maxBoundary_le_iff (W : Nat) (L : Ends) : maxBoundary L ≤ W ↔ ∀ l ∈ L, l.length ≤ W := by
  unfold maxBoundary
  rw [foldl_max_le]; simp

theorem maxBoundary_congr {L L' : Ends} (h : L.map List.length = L'.map List.length) :
    maxBoundary L = maxBoundary L' := by
  have key : ∀ W, maxBoundary L ≤ W ↔ maxBoundary L' ≤ W := by
    intro W
    rw [maxBoundary_le_iff, maxBoundary_le_iff]
    have e : ∀ M : Ends, (∀ l ∈ M, l.length ≤ W) ↔ ∀ k ∈ M.map List.length, k ≤ W := by
      intro M; simp
    rw [e L, e L', h]
  have h1 := (key (maxBoundary L')).mpr (Nat.le_refl _)
  have h2 := (key (maxBoundary L)).mp (Nat.le_refl _)
  omega

/-! ### 5. How many nodes a boundary can receive -/

theorem length_endsAt_pushAt_le (L : Ends) (i j : Nat) (n : Node) :
    (endsAt (pushAt L i n) j).length ≤ (endsAt L j).length + (if i = j then 1 else 0) := by
  rw [endsAt_pushAt]
  split
  · rename_i h; rw [← h.1]; simp
  · omega

theorem foldl_insert_length_le (E : LatEnv) (sn sw : Nat) (j : Nat) :
    ∀ (cs : List Cand) (L : Ends),
      (endsAt (cs.foldl (fun L c => insertNode E L sn sw c) L) j).length ≤
        (endsAt L j).length + cs.countP (fun c => c.endWord == j)
  | [], _ => by simp
  | c :: cs, L => by
    simp only [List.foldl_cons]
    have h1 := foldl_insert_length_le E sn sw j cs (insertNode E L sn sw c)
    have h2 : (endsAt (insertNode E L sn sw c) j).length ≤
        (endsAt L j).length + (if c.endWord = j then 1 else 0) :=
      length_endsAt_pushAt_le _ _ _ _
    rw [List.countP_cons]
    by_cases hc : c.endWord = j
    · simp only [hc, if_true, beq_self_eq_true] at h2 ⊢; omega
    · have : (c.endWord == j) = false := by simpa using hc
      simp only [hc, if_false, this] at h2 ⊢; omega

theorem buildLoop_length_le (E : LatEnv) (m : Nat)
    (hm : ∀ sw, sw < E.len → ∀ e, (E.cands sw).countP (fun c => c.endWord == e) ≤ m)
    (L : Ends) (p : Nat) (j : Nat) :
    (endsAt (buildLoop E L p).1 j).length ≤ (endsAt L j).length + (E.len - p) * m := by
  fun_induction buildLoop E L p with
  | case1 L p hlt hemp ih =>
    have : (E.len - (p + 1)) * m ≤ (E.len - p) * m := Nat.mul_le_mul_right _ (by omega)
    omega
  | case2 L p hlt hemp sw hbreak => exact Nat.le_add_right _ _
  | case3 L p hlt hemp sw hcont ih =>
    have h1 : (endsAt (addEdges E L p sw) j).length ≤ (endsAt L j).length + m :=
      Nat.le_trans (foldl_insert_length_le E p sw j _ L)
        (Nat.add_le_add_left (hm sw (by omega) j) _)
    have h2 : (E.len - (sw + 1)) * m + m ≤ (E.len - p) * m := by
      have : E.len - (sw + 1) + 1 ≤ E.len - p := by omega
      calc (E.len - (sw + 1)) * m + m = (E.len - (sw + 1) + 1) * m := by
            rw [Nat.add_mul, Nat.one_mul]
        _ ≤ (E.len - p) * m := Nat.mul_le_mul_right _ this
    omega
  | case4 L p hge => exact Nat.le_add_right _ _

/-! ### 6. The wrap-around family: `W + 1` homographs at one boundary -/

theorem searchMinGoW_append (W : Nat) (conn : Nat → Nat → Int) (l : Nat) :
    ∀ (xs ys : List Node) (i : Nat) (acc : Nat × Int),
      searchMinGoW W conn l (xs ++ ys) i acc =
        searchMinGoW W conn l ys (i + xs.length) (searchMinGoW W conn l xs i acc)
  | [], ys, i, acc => by simp [searchMinGoW]
  | x :: xs, ys, i, acc => by
    simp only [List.cons_append, searchMinGoW, List.length_cons]
    have e : i + (xs.length + 1) = i + 1 + xs.length := by omega
    split
    · rw [searchMinGoW_append W conn l xs ys, e]
    · rw [searchMinGoW_append W conn l xs ys, e]

theorem searchMinGoW_snd_ge (W : Nat) (conn : Nat → Nat → Int) (l : Nat) (k : Int) :
    ∀ (xs : List Node) (i : Nat) (acc : Nat × Int), k ≤ acc.2 →
      (∀ n ∈ xs, k ≤ n.minCost + conn n.rightId l) → k ≤ (searchMinGoW W conn l xs i acc).2
  | [], _, _, h, _ => h
  | x :: xs, i, acc, h, hx => by
    simp only [searchMinGoW]
    have hx0 := hx x (by simp)
    have hxs : ∀ n ∈ xs, k ≤ n.minCost + conn n.rightId l := fun n hn => hx n (by simp [hn])
    split
    · exact searchMinGoW_snd_ge W conn l k xs _ _ hx0 hxs
    · exact searchMinGoW_snd_ge W conn l k xs _ _ h hxs

/-- Word ids and costs of the homographs offered at position 0: `W` rows of cost 100,
then the cheapest row (cost 1) last. -/
def wrapPairs (W : Nat) : List (Nat × Int) := (List.range W).map (fun i => (i, 100)) ++ [(W, 1)]

def wrapCand (p : Nat × Int) : Cand :=
  { endWord := 1, wordId := p.1, lexType := 0, leftId := 0, rightId := 0, wordCost := p.2 }

/-- Sentence of two characters; `W + 1` one-character homographs at position 0 (the last
one the cheapest), one word for the second character; all connection costs 0. -/
def wrapEnv (W : Nat) : LatEnv :=
  { len := 2
    conn := fun _ _ => 0
    skip := fun _ => 0
    cands := fun sw =>
      if sw = 0 then (wrapPairs W).map wrapCand
      else if sw = 1 then [⟨2, W + 1, 0, 0, 0, 5⟩] else [] }

/-- The node `insert_node` stores for `wrapCand p`. -/
def wrapNode (p : Nat × Int) : Node :=
  { wordId := p.1, lexType := 0, startNode := 0, startWord := 0, leftId := 0, rightId := 0,
    minIdx := 0, minCost := p.2, wordCost := p.2, isBos := false }

/-- The node stored for the second word when the search stored back pointer `idx`. -/
def wrapSecond (W idx : Nat) : Node :=
  { wordId := W + 1, lexType := 0, startNode := 1, startWord := 1, leftId := 0, rightId := 0,
    minIdx := idx, minCost := 6, wordCost := 5, isBos := false }

def wrapEos : Node :=
  { wordId := 4294967295, lexType := 0, startNode := 2, startWord := 2, leftId := 0,
    rightId := 65535, minIdx := 0, minCost := 6, wordCost := 0, isBos := false }

theorem wrap_insert_first (M W : Nat) (acc : List Node) (p : Nat × Int) :
    insertNodeW M (wrapEnv W) [[bosNode], acc, []] 0 0 (wrapCand p) =
      [[bosNode], acc ++ [wrapNode p], []] := by
  simp [insertNodeW, searchMinW, searchMinGoW, endsAt, pushAt, wrapEnv, wrapCand, wrapNode,
    bosNode, MAX_COST]

theorem wrap_fold_first (M W : Nat) :
    ∀ (ps : List (Nat × Int)) (acc : List Node),
      (ps.map wrapCand).foldl (fun L c => insertNodeW M (wrapEnv W) L 0 0 c) [[bosNode], acc, []] =
        [[bosNode], acc ++ ps.map wrapNode, []]
  | [], acc => by simp
  | p :: ps, acc => by
    simp only [List.map_cons, List.foldl_cons, wrap_insert_first]
    rw [wrap_fold_first M W ps]; simp

theorem wrap_search_second (M W : Nat) :
    searchMinW M (fun _ _ => 0) ((wrapPairs W).map wrapNode) 0 = (W % M, 1) := by
  unfold searchMinW wrapPairs
  rw [List.map_append, searchMinGoW_append]
  have hge : (1 : Int) ≤ (searchMinGoW M (fun _ _ => 0) 0
      (List.map wrapNode (List.map (fun i => (i, (100 : Int))) (List.range W))) 0
      (INVALID_IDX, MAX_COST)).2 := by
    apply searchMinGoW_snd_ge
    · simp [MAX_COST]
    · intro n hn
      simp only [List.mem_map] at hn
      obtain ⟨q, ⟨i, _, rfl⟩, rfl⟩ := hn
      simp [wrapNode]
  simp only [List.map_cons, List.map_nil, searchMinGoW, wrapNode, Int.add_zero, hge, if_true,
    List.length_map, List.length_range, Nat.zero_add]

theorem wrap_ends (M W : Nat) :
    buildLoopW M (wrapEnv W) (resetEnds 0 (wrapEnv W).len) 0 =
      ([[bosNode], (wrapPairs W).map wrapNode, [wrapSecond W (W % M)]], 2) := by
  have hreset : resetEnds 0 (wrapEnv W).len = [[bosNode], [], []] := rfl
  have hlen : (wrapEnv W).len = 2 := rfl
  have hskip : ∀ p, (wrapEnv W).skip p = 0 := fun _ => rfl
  have hc0 : (wrapEnv W).cands 0 = (wrapPairs W).map wrapCand := rfl
  have hc1 : (wrapEnv W).cands 1 = [⟨2, W + 1, 0, 0, 0, 5⟩] := rfl
  have hconn : (wrapEnv W).conn = fun _ _ => 0 := rfl
  have hne : ((wrapPairs W).map wrapNode).isEmpty = false := by simp [wrapPairs]
  rw [hreset, buildLoopW]
  simp only [hlen, hskip, addEdgesW, hc0, wrap_fold_first, List.nil_append]
  simp only [endsAt, List.getD_cons_zero, List.isEmpty_cons]
  simp only [Nat.zero_lt_succ, ↓reduceIte, Bool.false_eq_true, Nat.add_zero, Nat.le_zero_eq, reduceCtorEq,
    Nat.zero_add]
  rw [buildLoopW]
  simp only [hlen, hskip, addEdgesW, hc1, endsAt, List.getD_cons_succ, List.getD_cons_zero, hne,
    List.foldl_cons, List.foldl_nil, insertNodeW, hconn, wrap_search_second]
  simp only [Nat.lt_add_one, ↓reduceIte, Bool.false_eq_true, Nat.add_zero, Nat.reduceLeDiff, Int.reduceAdd,
    Nat.reduceAdd]
  rw [buildLoopW]
  simp [hlen, pushAt, wrapSecond]

theorem wrap_lattice (M W : Nat) :
    (buildLatticeW M (wrapEnv W)).ends =
        [[bosNode], (wrapPairs W).map wrapNode, [wrapSecond W (W % M)]] ∧
      (buildLatticeW M (wrapEnv W)).eos = wrapEos := by
  unfold buildLatticeW
  simp only [wrap_ends, true_and]
  simp [eosNodeW, searchMinW, searchMinGoW, endsAt, wrapSecond, wrapEos, wrapEnv, MAX_COST]

/-- The tokens reported for `wrapEnv W` when back pointers are stored modulo `M`: the first
token is row `W % M` of the homographs. -/
theorem wrap_topNodes (M W : Nat) (n : Node) (hn : ((wrapPairs W).map wrapNode)[W % M]? = some n)
    (hs : n.startNode = 0) :
    topNodes (buildLatticeW M (wrapEnv W)) = some [(2, wrapSecond W (W % M)), (1, n)] := by
  obtain ⟨he, heos⟩ := wrap_lattice M W
  unfold topNodes
  rw [he, heos]
  rw [walkBack]
  simp only [wrapEos, endsAt, List.getD_cons_succ, List.getD_cons_zero]
  simp only [reduceCtorEq, ↓reduceIte, wrapSecond, List.length_cons, List.length_nil, Nat.zero_add,
    Nat.lt_add_one, getElem?_pos, List.getElem_cons_zero, Option.map_eq_some_iff, List.cons.injEq,
    true_and, exists_eq_right]
  rw [walkBack]
  simp only [Nat.succ_ne_self, ↓reduceIte, endsAt, List.getD_eq_getElem?_getD, List.length_cons,
    List.length_nil, Nat.zero_add, Nat.reduceAdd, Nat.reduceLT, getElem?_pos, List.getElem_cons_succ,
    List.getElem_cons_zero, Option.getD_some, hn, hs, Nat.lt_add_one, Option.map_eq_some_iff,
    List.cons.injEq, true_and, exists_eq_right]
  rw [walkBack]
  simp only [↓reduceIte]

end Vibrato
