/-
The writer side: `csv_core::quote`, `Writer::field`, `Writer::finish` and vibrato's
`quote_csv_cell`; and the reader/writer round trip `parse_csv_row (quote_csv_cell x) = [x]`.
-/
import Vibrato.Proofs.LexCsvRows
import Vibrato.Proofs.CsvRowTotal

namespace Vibrato.Csv

/-! ## `memchr`, `escapeQuotes` -/

theorem escapeQuotes_append (a b : List UInt8) :
    escapeQuotes (a ++ b) = escapeQuotes a ++ escapeQuotes b := by
  induction a with
  | nil => simp [escapeQuotes]
  | cons x a ih => simp only [List.cons_append, escapeQuotes, ih]; split <;> simp

theorem escapeQuotes_of_no_quote {a : List UInt8} (h : ∀ b ∈ a, b ≠ 34) : escapeQuotes a = a := by
  induction a with
  | nil => simp [escapeQuotes]
  | cons x a ih =>
    have hx := h x (by simp)
    simp [escapeQuotes, hx, ih fun b hb => h b (by simp [hb])]

theorem memchrQuote_none {a : List UInt8} (h : memchrQuote a = none) : ∀ b ∈ a, b ≠ 34 := by
  induction a with
  | nil => simp
  | cons x a ih =>
    simp only [memchrQuote] at h
    split at h
    · cases h
    · rename_i hx
      simp only [Option.map_eq_none_iff] at h
      intro b hb
      rcases List.mem_cons.mp hb with rfl | hb
      · exact hx
      · exact ih h b hb

theorem memchrQuote_some {a : List UInt8} {q : Nat} (h : memchrQuote a = some q) :
    (∀ b ∈ a.take q, b ≠ 34) ∧ a = a.take q ++ 34 :: a.drop (q + 1) := by
  induction a generalizing q with
  | nil => simp [memchrQuote] at h
  | cons x a ih =>
    simp only [memchrQuote] at h
    split at h
    · rename_i hx
      cases h
      simp [hx]
    · rename_i hx
      simp only [Option.map_eq_some_iff] at h
      obtain ⟨q', hq', rfl⟩ := h
      obtain ⟨h1, h2⟩ := ih hq'
      constructor
      · intro b hb
        simp only [List.take_succ_cons, List.mem_cons] at hb
        rcases hb with rfl | hb
        · exact hx
        · exact h1 b hb
      · simp only [List.take_succ_cons, List.drop_succ_cons, List.cons_append]
        rw [← h2]

/-! ## `csv_core::quote` -/

/-- What one call of `quote` does with any output size: it consumes a prefix of the input and
writes exactly that prefix with the quotes doubled; `InputEmpty` means everything was
consumed; `OutputFull` with at least two bytes of room means progress. -/
theorem quoteLoop_spec (fuel : Nat) (input : List UInt8) (cap : Nat)
    (hf : input.length < fuel) :
    (quoteLoop fuel input cap).2.2 = escapeQuotes (input.take (quoteLoop fuel input cap).2.1) ∧
    (quoteLoop fuel input cap).2.1 ≤ input.length ∧
    ((quoteLoop fuel input cap).1 = .inputEmpty →
      (quoteLoop fuel input cap).2.1 = input.length) ∧
    ((quoteLoop fuel input cap).1 = .outputFull → 2 ≤ cap →
      1 ≤ (quoteLoop fuel input cap).2.1) := by
  induction fuel generalizing input cap with
  | zero => omega
  | succ n ih =>
    simp only [quoteLoop]
    cases hm : memchrQuote input with
    | none =>
      have hnq := memchrQuote_none hm
      simp only [writeOptimistic]
      split
      · rename_i hgt
        refine ⟨?_, by simp; omega, by simp, by simp; omega⟩
        simp only
        rw [escapeQuotes_of_no_quote]
        intro b hb
        exact hnq b (List.mem_of_mem_take hb)
      · refine ⟨?_, by simp, by simp, by simp⟩
        simp [escapeQuotes_of_no_quote hnq]
    | some q =>
      obtain ⟨hnq, hsplit⟩ := memchrQuote_some hm
      have hq : q < input.length := by
        have := congrArg List.length hsplit
        simp at this; omega
      simp only [writeOptimistic, List.length_take, Nat.min_eq_left (Nat.le_of_lt hq)]
      by_cases hqc : q > cap
      · -- the segment before the quote does not fit
        simp only [hqc, if_true]
        have ht : (input.take q).take cap = input.take cap := by
          rw [List.take_take, Nat.min_eq_left (by omega)]
        refine ⟨?_, ?_, ?_, ?_⟩
        · simp only [ht]
          rw [escapeQuotes_of_no_quote]
          intro b hb
          have : b ∈ input.take q := by
            rw [← ht] at hb; exact List.mem_of_mem_take hb
          exact hnq b this
        · omega
        · intro h; cases h
        · intro _ h2; omega
      · simp only [hqc, if_false, reduceCtorEq, List.length_take,
          Nat.min_eq_left (Nat.le_of_lt hq), writePessimistic, List.length_cons,
          List.length_nil]
        by_cases hp : 2 > cap - q
        · -- no room for the doubled quote
          have hp' : 0 + 1 + 1 > cap - q := by omega
          simp only [hp', if_true]
          refine ⟨?_, ?_, ?_, ?_⟩
          · simp [escapeQuotes_of_no_quote hnq]
          · omega
          · intro h; cases h
          · intro _ h2
            omega
        · have hp' : ¬ (0 + 1 + 1 > cap - q) := by omega
          simp only [hp', if_false, reduceCtorEq]
          have hdrop : (input.drop q).drop 1 = input.drop (q + 1) := by
            rw [List.drop_drop]
          rw [hdrop]
          have hlen : (input.drop (q + 1)).length < n := by
            simp only [List.length_drop]; omega
          obtain ⟨i1, i2, i3, i4⟩ := ih (input.drop (q + 1)) (cap - q - (0 + 1 + 1)) hlen
          generalize quoteLoop n (input.drop (q + 1)) (cap - q - (0 + 1 + 1)) = rr at i1 i2 i3 i4
          obtain ⟨res3, n3, o3⟩ := rr
          simp only at i1 i2 i3 i4 ⊢
          simp only [List.length_drop] at i2 i3
          refine ⟨?_, by omega, ?_, by intro _ _; omega⟩
          · have htk : input.take (q + 1 + n3) =
                input.take q ++ 34 :: (input.drop (q + 1)).take n3 := by
              conv => lhs; rw [hsplit]
              rw [List.take_append]
              simp only [List.length_take, Nat.min_eq_left (Nat.le_of_lt hq)]
              have e1 : q + 1 + n3 - q = n3 + 1 := by omega
              rw [e1, List.take_succ_cons]
              rw [List.take_of_length_le (by simp; omega)]
            rw [htk, escapeQuotes_append]
            simp [escapeQuotes, escapeQuotes_of_no_quote hnq, i1]
          · intro h
            have := i3 h
            omega

theorem quoteFn_spec (input : List UInt8) (cap : Nat) :
    (quoteFn input cap).2.2 = escapeQuotes (input.take (quoteFn input cap).2.1) ∧
    (quoteFn input cap).2.1 ≤ input.length ∧
    ((quoteFn input cap).1 = .inputEmpty → (quoteFn input cap).2.1 = input.length) ∧
    ((quoteFn input cap).1 = .outputFull → 2 ≤ cap → 1 ≤ (quoteFn input cap).2.1) :=
  quoteLoop_spec _ input cap (by omega)

/-- With enough room `quote` writes the whole input with doubled quotes. -/
theorem quoteFn_eq (input : List UInt8) (cap : Nat)
    (h : (quoteFn input cap).1 = .inputEmpty) :
    (quoteFn input cap).2.2 = escapeQuotes input := by
  obtain ⟨h1, _, h3, _⟩ := quoteFn_spec input cap
  rw [h1, h3 h, List.take_length]

theorem writeOptimistic_spec (input : List UInt8) (cap : Nat) :
    (writeOptimistic input cap).2.2 = input.take (writeOptimistic input cap).2.1 ∧
    (writeOptimistic input cap).2.1 ≤ input.length ∧
    ((writeOptimistic input cap).1 = .inputEmpty →
      (writeOptimistic input cap).2.1 = input.length) ∧
    ((writeOptimistic input cap).1 = .outputFull → 2 ≤ cap →
      1 ≤ (writeOptimistic input cap).2.1) := by
  unfold writeOptimistic
  split
  · refine ⟨rfl, ?_, ?_, ?_⟩
    · simp only; omega
    · intro h; cases h
    · intro _ h2; simp only; omega
  · refine ⟨by simp, by simp, by simp, ?_⟩
    intro h; cases h

/-! ## `Writer::field` -/

/-- The field data as written: quotes doubled when the field is quoted. -/
def wbody (quoting : Bool) (data : List UInt8) : List UInt8 :=
  if quoting then escapeQuotes data else data

theorem wbody_append (q : Bool) (a b : List UInt8) :
    wbody q (a ++ b) = wbody q a ++ wbody q b := by
  cases q <;> simp [wbody, escapeQuotes_append]

/-- A call of `field` that continues a field (`in_field` already set). -/
theorem field_later (w : Writer) (hin : w.inField = true) (data : List UInt8) (cap : Nat)
    (hcap : 2 ≤ cap) :
    (w.field data cap).2.2.1 = wbody w.quoting (data.take (w.field data cap).2.1) ∧
    (w.field data cap).2.1 ≤ data.length ∧
    ((w.field data cap).1 = .inputEmpty → (w.field data cap).2.1 = data.length) ∧
    ((w.field data cap).1 = .outputFull → 1 ≤ (w.field data cap).2.1) ∧
    (w.field data cap).2.2.2 =
      { w with recordBytes := w.recordBytes + (w.field data cap).2.2.1.length } := by
  unfold Writer.field
  simp only [hin, Bool.not_true, Bool.false_eq_true, if_false, List.length_nil, Nat.sub_zero,
    List.nil_append]
  cases hq : w.quoting with
  | true =>
    obtain ⟨h1, h2, h3, h4⟩ := quoteFn_spec data cap
    simp only [if_true, wbody]
    exact ⟨h1, h2, h3, fun h => h4 h hcap, trivial⟩
  | false =>
    obtain ⟨h1, h2, h3, h4⟩ := writeOptimistic_spec data cap
    simp only [Bool.false_eq_true, if_false, wbody]
    exact ⟨h1, h2, h3, fun h => h4 h hcap, trivial⟩

/-- The first call of `field` on a fresh writer. -/
theorem field_first (data : List UInt8) (cap : Nat) (hcap : 3 ≤ cap) :
    (Writer.new.field data cap).2.2.1 =
      (if needsQuotes data then [34] else []) ++
        wbody (needsQuotes data) (data.take (Writer.new.field data cap).2.1) ∧
    (Writer.new.field data cap).2.1 ≤ data.length ∧
    ((Writer.new.field data cap).1 = .inputEmpty →
      (Writer.new.field data cap).2.1 = data.length) ∧
    ((Writer.new.field data cap).1 = .outputFull → 1 ≤ (Writer.new.field data cap).2.1) ∧
    (Writer.new.field data cap).2.2.2 =
      { inField := true, quoting := needsQuotes data,
        recordBytes := (Writer.new.field data cap).2.2.1.length } := by
  unfold Writer.field
  have hc1 : ¬ (1 > cap) := by omega
  cases hq : needsQuotes data with
  | true =>
    obtain ⟨h1, h2, h3, h4⟩ := quoteFn_spec data (cap - 1)
    simp only [Writer.new, Bool.not_false, if_true, writePessimistic, List.length_cons,
      List.length_nil, Nat.zero_add, hc1, if_false, Nat.succ_ne_zero, wbody]
    refine ⟨by rw [h1], h2, h3, fun h => h4 h (by omega), ?_⟩
    simp [Nat.add_comm]
  | false =>
    obtain ⟨h1, h2, h3, h4⟩ := writeOptimistic_spec data cap
    simp only [Writer.new, Bool.not_false, if_true, Bool.false_eq_true, if_false,
      List.length_nil, Nat.sub_zero, List.nil_append, wbody]
    exact ⟨h1, h2, h3, fun h => h4 h (by omega), by simp⟩

end Vibrato.Csv

namespace Vibrato.LexCsv

open Vibrato.Csv

/-! ## `quote_csv_cell` -/

theorem quoteFieldLoop_later (fuel : Nat) (w : Writer) (hin : w.inField = true)
    (data acc : List UInt8) (hf : data.length < fuel) :
    ∃ w', quoteFieldLoop fuel w data acc = some (acc ++ wbody w.quoting data, w') ∧
      w'.inField = true ∧ w'.quoting = w.quoting ∧
      w'.recordBytes = w.recordBytes + (wbody w.quoting data).length := by
  induction fuel generalizing w data acc with
  | zero => omega
  | succ n ih =>
    obtain ⟨h1, h2, h3, h4, h5⟩ := field_later w hin data outCap (by decide)
    simp only [quoteFieldLoop]
    generalize w.field data outCap = rr at h1 h2 h3 h4 h5
    obtain ⟨res, nin, out, w1⟩ := rr
    simp only at h1 h2 h3 h4 h5 ⊢
    cases res with
    | inputEmpty =>
      have := h3 rfl
      subst this
      simp only [List.take_length] at h1
      simp only [if_true]
      exact ⟨w1, by rw [h1], by rw [h5]; exact hin, by rw [h5], by rw [h5, h1]⟩
    | outputFull =>
      have hpos := h4 rfl
      simp only [reduceCtorEq, if_false]
      have hin1 : w1.inField = true := by rw [h5]; exact hin
      have hq1 : w1.quoting = w.quoting := by rw [h5]
      obtain ⟨w', e1, e2, e3, e4⟩ := ih w1 hin1 (data.drop nin) (acc ++ out)
        (by simp only [List.length_drop]; omega)
      refine ⟨w', ?_, e2, by rw [e3, hq1], ?_⟩
      · rw [e1, hq1, h1, List.append_assoc, ← wbody_append, List.take_append_drop]
      · rw [e4, hq1, h5]
        simp only
        rw [h1, Nat.add_assoc, ← List.length_append, ← wbody_append, List.take_append_drop]

/-- **`quote_csv_cell` writes `quoteCell`**: the cell itself if it is non-empty and free of
`,` `"` `\r` `\n`; `""` if it is empty; otherwise the cell with doubled quotes between quotes.
Never panics, for cells of any length (the 4096 byte buffer is refilled). -/
theorem quoteCsvCell_eq (data : List UInt8) : quoteCsvCell data = .ok (quoteCell data) := by
  unfold quoteCsvCell
  obtain ⟨h1, h2, h3, h4, h5⟩ := field_first data outCap (by decide)
  have hloop : ∃ w', quoteFieldLoop (data.length + 1) Writer.new data [] =
      some ((if needsQuotes data then [34] else []) ++ wbody (needsQuotes data) data, w') ∧
      w'.inField = true ∧ w'.quoting = needsQuotes data ∧
      w'.recordBytes = ((if needsQuotes data then [34] else []) ++
        wbody (needsQuotes data) data).length := by
    simp only [quoteFieldLoop]
    generalize Writer.new.field data outCap = rr at h1 h2 h3 h4 h5
    obtain ⟨res, nin, out, w1⟩ := rr
    simp only at h1 h2 h3 h4 h5 ⊢
    cases res with
    | inputEmpty =>
      have := h3 rfl
      subst this
      simp only [List.take_length] at h1
      simp only [if_true, List.nil_append]
      exact ⟨w1, by rw [h1], by rw [h5], by rw [h5], by rw [h5, h1]⟩
    | outputFull =>
      have hpos := h4 rfl
      simp only [reduceCtorEq, if_false, List.nil_append]
      have hin1 : w1.inField = true := by rw [h5]
      have hq1 : w1.quoting = needsQuotes data := by rw [h5]
      obtain ⟨w', e1, e2, e3, e4⟩ := quoteFieldLoop_later data.length w1 hin1 (data.drop nin)
        out (by simp only [List.length_drop]; omega)
      refine ⟨w', ?_, e2, by rw [e3, hq1], ?_⟩
      · rw [e1, hq1, h1, List.append_assoc, ← wbody_append, List.take_append_drop]
      · rw [e4, hq1, h5]
        simp only
        rw [h1, ← List.length_append, List.append_assoc, ← wbody_append,
          List.take_append_drop]
  obtain ⟨w', e1, e2, e3, e4⟩ := hloop
  rw [e1]
  simp only
  cases hq : needsQuotes data with
  | true =>
    simp only [hq, if_true, wbody, List.cons_append, List.nil_append, List.length_cons] at e3 e4
    have hrb : ¬ (w'.recordBytes = 0) := by omega
    simp [Writer.finish, e2, e3, hrb, writePessimistic, outCap, quoteCell, hq, wbody]
  | false =>
    simp only [hq, Bool.false_eq_true, if_false, wbody, List.nil_append] at e3 e4
    by_cases hd : data = []
    · subst hd
      simp only [List.length_nil] at e4
      simp [Writer.finish, e2, e3, e4, writePessimistic, outCap, quoteCell, hq, wbody]
    · have hrb : ¬ (w'.recordBytes = 0) := by
        rw [e4]; simpa using hd
      simp [Writer.finish, e2, e3, hrb, quoteCell, hq, wbody, hd]

/-! ## `parse_csv_row` on rendered cells -/

/-- The cell `quote_csv_cell` writes for a value. -/
def cellOfValue (x : List UInt8) : Cell :=
  if needsQuotes x then .quoted x else if x.isEmpty then .quoted [] else .plain x

theorem cellOfValue_render (x : List UInt8) : (cellOfValue x).render = quoteCell x := by
  unfold cellOfValue quoteCell
  split
  · simp [Cell.render]
  · split <;> simp [Cell.render, escapeQuotes]

theorem cellOfValue_value (x : List UInt8) : (cellOfValue x).value = x := by
  unfold cellOfValue
  split
  · rfl
  · split
    · rename_i h; simp only [List.isEmpty_iff] at h; simp [Cell.value, h]
    · rfl

theorem cellOfValue_wf (x : List UInt8) : (cellOfValue x).wf = true := by
  unfold cellOfValue
  split
  · rfl
  · split
    · rfl
    · rename_i h _
      simp only [needsQuotes, Bool.not_eq_true, List.any_eq_false] at h
      simp only [Cell.wf, List.all_eq_true, Bool.not_eq_true']
      intro b hb
      simpa using h b hb

theorem cellOfValue_render_ne (x : List UInt8) : (cellOfValue x).render ≠ [] := by
  rw [cellOfValue_render]
  unfold quoteCell
  split
  · simp
  · split
    · simp
    · rename_i h; simpa [List.isEmpty_iff] using h

/-- `parse_csv_row` (buffer of `cap` bytes) on `c_1 , … , c_k , last` where `last` is not
empty in the file: the unquoted values.  Every cell but the last must be shorter than the
buffer; for the last one it suffices that the rendered cell fits. -/
theorem rowLoop_cells (cap fuel : Nat) (rdr : Reader) (hfs : FieldStart rdr.state)
    (cs : List Cell) (last : Cell) (acc : List (List UInt8))
    (hnb : NoBom rdr (featInitBytes cs ++ last.render))
    (hcs : ∀ c ∈ cs, c.wf = true ∧ c.value.length < cap ∧ validUtf8 c.value = true)
    (hlast : last.wf = true ∧ (last.value.length < cap ∨ last.render.length ≤ cap) ∧
      validUtf8 last.value = true) (hne : last.render ≠ [])
    (hf : cs.length < fuel) :
    rowLoop cap fuel rdr (featInitBytes cs ++ last.render) acc =
      some (.ok (acc ++ cs.map Cell.value ++ [last.value])) := by
  induction cs generalizing fuel rdr acc with
  | nil =>
    cases fuel with
    | zero => simp at hf
    | succ n =>
      simp only [featInitBytes, List.flatMap_nil, List.nil_append] at hnb ⊢
      simp only [rowLoop]
      have hrf : readField rdr last.render cap =
          (.inputEmpty, last.render.length, last.value,
            { state := last.after rdr.state, hasRead := true }) := by
        rcases hlast.2.1 with h | h
        · exact readField_cell_eof hfs last hlast.1 hne h hnb
        · exact readField_cell_eof_le hfs last hlast.1 hne h hnb
      rw [hrf]
      simp [hlast.2.2]
  | cons c cs ih =>
    cases fuel with
    | zero => simp at hf
    | succ n =>
      have hb : featInitBytes (c :: cs) ++ last.render =
          c.render ++ 44 :: (featInitBytes cs ++ last.render) := by simp [featInitBytes]
      obtain ⟨hc, hcl, hcu⟩ := hcs c (by simp)
      rw [hb] at hnb ⊢
      simp only [rowLoop]
      rw [readField_cell_delim hfs c hc _ hcl hnb]
      simp only [hcu, if_true, drop_cell']
      rw [ih n ⟨.endFieldDelim, true⟩ (Or.inr (Or.inl rfl)) (acc ++ [c.value]) (Or.inl rfl)
        (fun x hx => hcs x (by simp [hx])) (by simp only [List.length_cons] at hf; omega)]
      simp

theorem featInitBytes_length_ge (cs : List Cell) : cs.length ≤ (featInitBytes cs).length := by
  induction cs with
  | nil => simp
  | cons c cs ih =>
    have : featInitBytes (c :: cs) = c.render ++ 44 :: featInitBytes cs := by
      simp [featInitBytes]
    rw [this]
    simp; omega

/-- A cell that is followed by its comma inside `featInitBytes cs` is strictly shorter than
the whole. -/
theorem render_lt_featInitBytes {cs : List Cell} {c : Cell} (h : c ∈ cs) :
    c.render.length < (featInitBytes cs).length := by
  induction cs with
  | nil => simp at h
  | cons d cs ih =>
    have e : featInitBytes (d :: cs) = d.render ++ 44 :: featInitBytes cs := by
      simp [featInitBytes]
    rw [e]
    rcases List.mem_cons.mp h with rfl | h
    · simp
    · have := ih h
      simp; omega

/-- **parse_csv_row on a written row (pinned tree, 4096 byte buffer).**  A row
`c_1,…,c_k,last` of well-formed cells (values valid UTF-8 and shorter than 4096 bytes,
`last` not empty in the file, no BOM at the start) parses into the unquoted values. -/
theorem parse_csv_row_cells (cs : List Cell) (last : Cell)
    (hnb : ¬ (bom <+: featInitBytes cs ++ last.render))
    (hcs : ∀ c ∈ cs, cellOk c ∧ validUtf8 c.value = true)
    (hlast : cellOk last ∧ validUtf8 last.value = true) (hne : last.render ≠ []) :
    parseCsvRowBytes false (featInitBytes cs ++ last.render) =
      .ok (cs.map Cell.value ++ [last.value]) := by
  unfold parseCsvRowBytes
  have hlen := featInitBytes_length_ge cs
  rw [rowLoop_cells _ _ Reader.new (Or.inr (Or.inr (Or.inl rfl))) cs last [] (Or.inr hnb)
    (fun c hc => ⟨(hcs c hc).1.1, by simpa [rowCap] using (hcs c hc).1.2, (hcs c hc).2⟩)
    ⟨hlast.1.1, Or.inl (by simpa [rowCap] using hlast.1.2), hlast.2⟩ hne
    (by simp only [parseFuel, List.length_append]; omega)]
  simp

/-- **parse_csv_row on a written row (repaired tree, F18).**  No length restriction: a row
`c_1,…,c_k,last` of well-formed cells with valid UTF-8 values, `last` not empty in the file,
no BOM at the start, parses into the unquoted values. -/
theorem parse_csv_row_cells_fixed (cs : List Cell) (last : Cell)
    (hnb : ¬ (bom <+: featInitBytes cs ++ last.render))
    (hcs : ∀ c ∈ cs, c.wf = true ∧ validUtf8 c.value = true)
    (hlast : last.wf = true ∧ validUtf8 last.value = true) (hne : last.render ≠ []) :
    parseCsvRowBytes true (featInitBytes cs ++ last.render) =
      .ok (cs.map Cell.value ++ [last.value]) := by
  unfold parseCsvRowBytes
  have hlen := featInitBytes_length_ge cs
  rw [rowLoop_cells _ _ Reader.new (Or.inr (Or.inr (Or.inl rfl))) cs last [] (Or.inr hnb)
    (fun c hc => ⟨(hcs c hc).1, by
      have h1 := Cell.value_le_render c
      have h2 := render_lt_featInitBytes hc
      simp only [rowCap, if_true, List.length_append]; omega, (hcs c hc).2⟩)
    ⟨hlast.1, Or.inr (by simp [rowCap]), hlast.2⟩ hne
    (by simp only [parseFuel, List.length_append]; omega)]
  simp

/-- **unquote_quote (pinned tree).**  What `quote_csv_cell` writes for `x` is read back by
`parse_csv_row` as the single cell `x`, for every valid UTF-8 `x` shorter than 4096 bytes
that does not start with a BOM. -/
theorem unquote_quote (x : List UInt8) (hu : validUtf8 x = true) (hlen : x.length < 4096)
    (hbom : ¬ (bom <+: quoteCell x)) :
    parseCsvRowBytes false (quoteCell x) = .ok [x] := by
  have := parse_csv_row_cells [] (cellOfValue x)
    (by simpa [featInitBytes, cellOfValue_render] using hbom)
    (by simp)
    ⟨⟨cellOfValue_wf x, by rw [cellOfValue_value]; exact hlen⟩,
      by rw [cellOfValue_value]; exact hu⟩
    (cellOfValue_render_ne x)
  simpa [featInitBytes, cellOfValue_render, cellOfValue_value] using this

/-- **unquote_quote (repaired tree, F18).**  For every valid UTF-8 `x` of any length that
does not start with a BOM. -/
theorem unquote_quote_fixed (x : List UInt8) (hu : validUtf8 x = true)
    (hbom : ¬ (bom <+: quoteCell x)) :
    parseCsvRowBytes true (quoteCell x) = .ok [x] := by
  have := parse_csv_row_cells_fixed [] (cellOfValue x)
    (by simpa [featInitBytes, cellOfValue_render] using hbom)
    (by simp)
    ⟨cellOfValue_wf x, by rw [cellOfValue_value]; exact hu⟩
    (cellOfValue_render_ne x)
  simpa [featInitBytes, cellOfValue_render, cellOfValue_value] using this

end Vibrato.LexCsv
