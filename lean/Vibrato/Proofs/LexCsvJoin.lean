/-
The "lines joined by `\n`" presentation of a lexicon file, and its translation into the
`Line* Tail` grammar of `Proofs/LexCsvRows.lean`.
-/
import Vibrato.Proofs.LexCsvRows

namespace Vibrato.LexCsv

open Vibrato.Csv

/-- The bytes of one line: a row, or nothing for a blank line. -/
def itemBytes : Option Row → List UInt8
  | none => []
  | some r => r.render

/-- `xs` joined by `"\n"` (= `[10].intercalate xs`). -/
def joinNl : List (List UInt8) → List UInt8
  | [] => []
  | [x] => x
  | x :: y :: rest => x ++ 10 :: joinNl (y :: rest)

def finBytes (finalNl : Bool) : List UInt8 := if finalNl then [10] else []

/-- The file whose lines are `items`, joined by `"\n"`, with an optional final `"\n"`. -/
def joinedFile (items : List (Option Row)) (finalNl : Bool) : List UInt8 :=
  joinNl (items.map itemBytes) ++ finBytes finalNl

/-- Translation into terminated lines and a tail; `pending` are the line feeds of the blank
lines seen since the last row. -/
def toGrammar (pending : List UInt8) : List (Option Row) → Bool → List Line × Tail
  | [], fin => ([], .blank (pending ++ finBytes fin))
  | [none], fin => ([], .blank (pending ++ finBytes fin))
  | [some r], fin =>
    if fin then ([⟨pending, r, 10⟩], .blank []) else ([], .lastRow pending r)
  | none :: y :: rest, fin => toGrammar (pending ++ [10]) (y :: rest) fin
  | some r :: y :: rest, fin =>
    (⟨pending, r, 10⟩ :: (toGrammar [] (y :: rest) fin).1, (toGrammar [] (y :: rest) fin).2)

theorem toGrammar_render (pending : List UInt8) (items : List (Option Row)) (fin : Bool) :
    renderFile (toGrammar pending items fin).1 (toGrammar pending items fin).2 =
      pending ++ joinedFile items fin := by
  fun_induction toGrammar pending items fin with
  | case1 pending fin => simp [renderFile, Tail.render, joinedFile, joinNl]
  | case2 pending fin => simp [renderFile, Tail.render, joinedFile, joinNl, itemBytes]
  | case3 pending r =>
    simp [renderFile, Tail.render, Line.render, joinedFile, joinNl, itemBytes, finBytes]
  | case4 pending r =>
    rename_i fin h
    have hf : fin = false := by simpa using h
    subst hf
    simp [renderFile, Tail.render, joinedFile, joinNl, itemBytes, finBytes]
  | case5 pending y rest fin ih =>
    rw [ih]
    simp [joinedFile, joinNl, itemBytes]
  | case6 pending r y rest fin ih =>
    simp only [renderFile, List.flatMap_cons, List.append_assoc] at ih ⊢
    rw [ih]
    simp [Line.render, joinedFile, joinNl, itemBytes]

theorem toGrammar_wf (pending : List UInt8) (items : List (Option Row)) (fin : Bool)
    (hp : ∀ b ∈ pending, isNl b) (hrows : ∀ r, some r ∈ items → r.WF) :
    (∀ ln ∈ (toGrammar pending items fin).1, ln.WF) ∧ (toGrammar pending items fin).2.WF := by
  have h10 : isNl 10 := Or.inl rfl
  fun_induction toGrammar pending items fin with
  | case1 pending fin =>
    refine ⟨by simp, ?_⟩
    intro b hb
    cases fin <;> simp [finBytes] at hb
    · exact hp b hb
    · rcases hb with hb | rfl
      · exact hp b hb
      · exact h10
  | case2 pending fin =>
    refine ⟨by simp, ?_⟩
    intro b hb
    cases fin <;> simp [finBytes] at hb
    · exact hp b hb
    · rcases hb with hb | rfl
      · exact hp b hb
      · exact h10
  | case3 pending r =>
    refine ⟨?_, by simp [Tail.WF]⟩
    intro ln hln
    simp only [List.mem_cons, List.mem_nil_iff, or_false] at hln
    subst hln
    exact ⟨hp, h10, hrows r (by simp)⟩
  | case4 pending r => exact ⟨by simp, hp, hrows r (by simp)⟩
  | case5 pending y rest fin ih =>
    apply ih
    · intro b hb
      rcases List.mem_append.mp hb with hb | hb
      · exact hp b hb
      · simp only [List.mem_cons, List.mem_nil_iff, or_false] at hb; subst hb; exact h10
    · intro r hr; exact hrows r (by simp [hr])
  | case6 pending r y rest fin ih =>
    obtain ⟨ih1, ih2⟩ := ih (by simp) (fun r' hr => hrows r' (List.mem_cons_of_mem _ hr))
    refine ⟨?_, ih2⟩
    intro ln hln
    rcases List.mem_cons.mp hln with rfl | hln
    · exact ⟨hp, h10, hrows r (by simp)⟩
    · exact ih1 ln hln

theorem toGrammar_entries (pending : List UInt8) (items : List (Option Row)) (fin : Bool) :
    fileEntries (toGrammar pending items fin).1 (toGrammar pending items fin).2 =
      (items.filterMap id).flatMap Row.entries := by
  fun_induction toGrammar pending items fin with
  | case1 pending fin => simp [fileEntries, Tail.entries]
  | case2 pending fin => simp [fileEntries, Tail.entries]
  | case3 pending r => simp [fileEntries, Tail.entries]
  | case4 pending r => simp [fileEntries, Tail.entries]
  | case5 pending y rest fin ih => rw [ih]; simp
  | case6 pending r y rest fin ih =>
    simp only [fileEntries, List.flatMap_cons, List.append_assoc] at ih ⊢
    rw [ih]; simp

theorem toGrammar_pinned (pending : List UInt8) (items : List (Option Row)) (fin : Bool)
    (hlast : items = [] ∧ fin = false ∧ pending = [] ∨
      ∃ r, items.getLast? = some (some r) ∧ (fin = true ∨ r.fLast.render ≠ [])) :
    (toGrammar pending items fin).2.PinnedOk := by
  fun_induction toGrammar pending items fin with
  | case1 pending fin =>
    rcases hlast with ⟨_, h2, h3⟩ | ⟨r, h, _⟩
    · simp [Tail.PinnedOk, finBytes, h2, h3]
    · simp at h
  | case2 pending fin =>
    rcases hlast with ⟨h, _⟩ | ⟨r, h, _⟩ <;> simp at h
  | case3 pending r => simp [Tail.PinnedOk]
  | case4 pending r =>
    rcases hlast with ⟨h1, _⟩ | ⟨r', h1, h2⟩
    · simp at h1
    · simp only [List.getLast?_singleton, Option.some.injEq] at h1
      subst h1
      rcases h2 with h2 | h2
      · rename_i h; exact absurd h2 h
      · exact h2
  | case5 pending y rest fin ih =>
    apply ih
    rcases hlast with ⟨h1, _⟩ | ⟨r, h1, h2⟩
    · simp at h1
    · exact Or.inr ⟨r, by simpa [List.getLast?_cons_cons] using h1, h2⟩
  | case6 pending r y rest fin ih =>
    apply ih
    rcases hlast with ⟨h1, _⟩ | ⟨r', h1, h2⟩
    · simp at h1
    · exact Or.inr ⟨r', by simpa [List.getLast?_cons_cons] using h1, h2⟩

/-- Every "joined" file is a file of the `Line* Tail` grammar with the same entries. -/
theorem joined_as_grammar (items : List (Option Row)) (finalNl : Bool)
    (hrows : ∀ r, some r ∈ items → r.WF) :
    ∃ lines tail, joinedFile items finalNl = renderFile lines tail ∧
      (∀ ln ∈ lines, ln.WF) ∧ tail.WF ∧
      fileEntries lines tail = (items.filterMap id).flatMap Row.entries := by
  refine ⟨(toGrammar [] items finalNl).1, (toGrammar [] items finalNl).2, ?_, ?_, ?_, ?_⟩
  · simpa using (toGrammar_render [] items finalNl).symm
  · exact (toGrammar_wf [] items finalNl (by simp) hrows).1
  · exact (toGrammar_wf [] items finalNl (by simp) hrows).2
  · exact toGrammar_entries [] items finalNl

theorem joined_as_grammar_pinned (items : List (Option Row)) (finalNl : Bool)
    (hrows : ∀ r, some r ∈ items → r.WF)
    (hlast : items = [] ∧ finalNl = false ∨
      ∃ r, items.getLast? = some (some r) ∧ (finalNl = true ∨ r.fLast.render ≠ [])) :
    ∃ lines tail, joinedFile items finalNl = renderFile lines tail ∧
      (∀ ln ∈ lines, ln.WF) ∧ tail.WF ∧
      fileEntries lines tail = (items.filterMap id).flatMap Row.entries ∧ tail.PinnedOk := by
  refine ⟨(toGrammar [] items finalNl).1, (toGrammar [] items finalNl).2, ?_, ?_, ?_, ?_, ?_⟩
  · simpa using (toGrammar_render [] items finalNl).symm
  · exact (toGrammar_wf [] items finalNl (by simp) hrows).1
  · exact (toGrammar_wf [] items finalNl (by simp) hrows).2
  · exact toGrammar_entries [] items finalNl
  · apply toGrammar_pinned
    rcases hlast with ⟨h1, h2⟩ | h
    · exact Or.inl ⟨h1, h2, rfl⟩
    · exact Or.inr h

theorem joinNl_eq_intercalate (xs : List (List UInt8)) : joinNl xs = [10].intercalate xs := by
  fun_induction joinNl xs with
  | case1 => rfl
  | case2 x => simp [List.intercalate]
  | case3 x y rest ih => rw [ih]; simp [List.intercalate]

end Vibrato.LexCsv
