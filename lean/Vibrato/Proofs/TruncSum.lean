/-
Arithmetic of truncation (C16): for a common positive denominator `D`, the sum of the
truncated quotients `trunc (x_k / D)` stays within `K` (resp. `K + 1`) of the truncated
quotient of the sum (resp. of any `X` with `|X - Σ x_k| < D`).  Rationals are represented by
their numerators over `D`; `trunc (x / D) = Int.tdiv x D`.  Core Lean only.
-/
namespace Vibrato.TruncSum

def sum : List Int → Int
  | [] => 0
  | x :: xs => x + sum xs

/-- `Σ trunc (x_k / D)`. -/
def truncSum (D : Int) : List Int → Int
  | [] => 0
  | x :: xs => x.tdiv D + truncSum D xs

/-- `Σ (x_k - D * trunc (x_k / D))`, the sum of the remainders. -/
def remSum (D : Int) : List Int → Int
  | [] => 0
  | x :: xs => x.tmod D + remSum D xs

theorem sum_decomp (D : Int) (xs : List Int) : sum xs = D * truncSum D xs + remSum D xs := by
  induction xs with
  | nil => simp [sum, truncSum, remSum]
  | cons x xs ih =>
    simp only [sum, truncSum, remSum, ih, Int.mul_add]
    have := Int.mul_tdiv_add_tmod x D
    omega

theorem remSum_bound {D : Int} (hD : 0 < D) (xs : List Int) :
    -(D * xs.length - xs.length) ≤ remSum D xs ∧ remSum D xs ≤ D * xs.length - xs.length := by
  induction xs with
  | nil => simp [remSum]
  | cons x xs ih =>
    have h1 := Int.tmod_lt_of_pos x hD
    have h2 := Int.lt_tmod_of_pos x hD
    simp only [remSum, List.length_cons, Int.natCast_add, Int.natCast_one, Int.mul_add,
      Int.mul_one]
    omega

theorem tmod_bound {D : Int} (hD : 0 < D) (x : Int) : -(D - 1) ≤ x.tmod D ∧ x.tmod D ≤ D - 1 := by
  have h1 := Int.tmod_lt_of_pos x hD
  have h2 := Int.lt_tmod_of_pos x hD
  omega

/-- Core inequality: `D * |Σ trunc x_k - trunc X| ≤ |Σ x_k - X| + (K + 1) (D - 1)`. -/
theorem core {D : Int} (hD : 0 < D) (xs : List Int) (X d : Int)
    (h1 : sum xs - X ≤ d) (h2 : X - sum xs ≤ d) :
    D * (truncSum D xs - X.tdiv D) ≤ d + (D * xs.length - xs.length) + (D - 1) ∧
    -(d + (D * xs.length - xs.length) + (D - 1)) ≤ D * (truncSum D xs - X.tdiv D) := by
  have hs := sum_decomp D xs
  have hr := remSum_bound hD xs
  have hx := Int.mul_tdiv_add_tmod X D
  have hm := tmod_bound hD X
  rw [Int.mul_sub]
  generalize D * truncSum D xs = P at *
  generalize D * X.tdiv D = Q at *
  generalize D * (xs.length : Int) = DK at *
  omega

/-- **trunc_sum_bound (exact sum).**  `|Σ trunc (x_k / D) - trunc ((Σ x_k) / D)| ≤ K`. -/
theorem trunc_sum_bound_eq {D : Int} (hD : 0 < D) (xs : List Int) :
    truncSum D xs - (sum xs).tdiv D ≤ xs.length ∧
    -(xs.length : Int) ≤ truncSum D xs - (sum xs).tdiv D := by
  obtain ⟨h1, h2⟩ := core hD xs (sum xs) 0 (by omega) (by omega)
  have hK : (0 : Int) ≤ xs.length := Int.natCast_nonneg _
  constructor
  · have : D * (truncSum D xs - (sum xs).tdiv D) < D * ((xs.length : Int) + 1) := by
      rw [Int.mul_add, Int.mul_one]
      generalize D * (xs.length : Int) = DK at *
      omega
    have := Int.lt_of_mul_lt_mul_left this (Int.le_of_lt hD)
    omega
  · have : D * (-((xs.length : Int) + 1)) < D * (truncSum D xs - (sum xs).tdiv D) := by
      rw [Int.mul_neg, Int.mul_add, Int.mul_one]
      generalize D * (xs.length : Int) = DK at *
      omega
    have := Int.lt_of_mul_lt_mul_left this (Int.le_of_lt hD)
    omega

/-- **trunc_sum_bound (with slack).**  If `|X - Σ x_k| < D` (the two rationals differ by less
than 1) then `|Σ trunc (x_k / D) - trunc (X / D)| ≤ K + 1`. -/
theorem trunc_sum_bound {D : Int} (hD : 0 < D) (xs : List Int) (X : Int)
    (h1 : sum xs - X < D) (h2 : X - sum xs < D) :
    truncSum D xs - X.tdiv D ≤ xs.length + 1 ∧
    -((xs.length : Int) + 1) ≤ truncSum D xs - X.tdiv D := by
  obtain ⟨c1, c2⟩ := core hD xs X (D - 1) (by omega) (by omega)
  have hK : (0 : Int) ≤ xs.length := Int.natCast_nonneg _
  constructor
  · have : D * (truncSum D xs - X.tdiv D) < D * ((xs.length : Int) + 2) := by
      rw [Int.mul_add]
      generalize D * (xs.length : Int) = DK at *
      omega
    have := Int.lt_of_mul_lt_mul_left this (Int.le_of_lt hD)
    omega
  · have : D * (-((xs.length : Int) + 2)) < D * (truncSum D xs - X.tdiv D) := by
      rw [Int.mul_neg, Int.mul_add]
      generalize D * (xs.length : Int) = DK at *
      omega
    have := Int.lt_of_mul_lt_mul_left this (Int.le_of_lt hD)
    omega

/-- The bound `K + 1` is attained: `x = (5, 5)`, `D = 10`, `X = 19`: `0 + 0` against `1`…
and the bound `K` of the exact case is attained by `x = (9, 9)`, `D = 10`: `0 + 0` against
`trunc 1.8 = 1`; with `K = 2`: `(9, 9, -9, ...)`. -/
example : truncSum 10 [9, 9] - (sum [9, 9]).tdiv 10 = -1 := by decide
example : truncSum 10 [19, 19] - (sum [19, 19]).tdiv 10 = -1 := by decide
example : truncSum 10 [9, 9, 9] - (sum [9, 9, 9]).tdiv 10 = -2 := by decide
example : truncSum 10 [9, 9] - (27 : Int).tdiv 10 = -2 := by decide

/-- A quotient of absolute value below 1 truncates to 0. -/
theorem tdiv_eq_zero_of_abs_lt {a D : Int} (h1 : a < D) (h2 : -D < a) : a.tdiv D = 0 := by
  have hD : 0 < D := by omega
  have hn : (a.tdiv D).natAbs = 0 := by
    rw [Int.natAbs_tdiv]
    apply Nat.div_eq_of_lt
    omega
  omega

/-- `|a| ≤ c * D` gives `|trunc (a / D)| ≤ c`. -/
theorem tdiv_abs_le {a D c : Int} (hD : 0 < D) (h1 : a ≤ c * D) (h2 : -(c * D) ≤ a) :
    a.tdiv D ≤ c ∧ -c ≤ a.tdiv D := by
  constructor
  · have := Int.tdiv_le_tdiv hD h1
    rwa [Int.mul_tdiv_cancel _ (by omega)] at this
  · have := Int.tdiv_le_tdiv hD h2
    rw [← Int.neg_mul, Int.mul_tdiv_cancel _ (by omega)] at this
    exact this

end Vibrato.TruncSum
