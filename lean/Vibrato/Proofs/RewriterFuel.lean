/-
Termination of the explicit-stack DFS of `FeatureRewriter::rewrite`: the fuel `fuelBound`
given to `loop` always suffices (for every node vector, built or not).
-/
import Vibrato.Model.Rewriter

namespace Vibrato.Rewriter

/-! ### `maxActs` bounds every node -/

theorem foldl_max_ge (nodes : Trie) (m : Nat) :
    m ≤ nodes.foldl (fun m a => max m a.length) m ∧
    ∀ a ∈ nodes, a.length ≤ nodes.foldl (fun m a => max m a.length) m := by
  induction nodes generalizing m with
  | nil => simp
  | cons a as ih =>
    simp only [List.foldl_cons, List.mem_cons, forall_eq_or_imp]
    have h := ih (max m a.length)
    refine ⟨by omega, by omega, h.2⟩

theorem length_le_maxActs {nodes : Trie} {n : Nat} {acts : List Action}
    (h : nodes[n]? = some acts) : acts.length ≤ maxActs nodes :=
  (foldl_max_ge nodes 0).2 acts (List.mem_of_getElem? h)

/-! ### facts about `scan` -/

theorem scan_push {f : List Str} {d : Nat} {as : List Action} {i j t : Nat}
    (h : scan f d as i = .push j t) : i ≤ j ∧ j < i + as.length ∧ d < f.length := by
  induction as generalizing i with
  | nil => simp [scan] at h
  | cons a as ih =>
    cases a with
    | rw r => simp [scan] at h
    | trans p t' =>
      simp only [scan] at h
      split at h
      · rename_i x hx
        have hd : d < f.length := by
          rcases Nat.lt_or_ge d f.length with hlt | hge
          · exact hlt
          · rw [List.getElem?_eq_none hge] at hx; cases hx
        split at h
        · cases h; simp; omega
        · have := ih h; simp only [List.length_cons]; omega
      · have := ih h; simp only [List.length_cons]; omega

/-! ### the measure -/

def entryCost (A L : Nat) (top : Bool) (e depth : Nat) : Nat :=
  match L - depth with
  | 0 => 1
  | l + 1 => (A - (if top then e else e + 1)) * (work A l + 1) + 1

def restCost (A L : Nat) : List (Nat × Nat) → Nat
  | [] => 0
  | (_, e) :: r => entryCost A L false e r.length + restCost A L r

def mu (A L : Nat) : List (Nat × Nat) → Nat
  | [] => 0
  | (_, e) :: r => entryCost A L true e r.length + restCost A L r

theorem entryCost_pos (A L : Nat) (top : Bool) (e d : Nat) : 1 ≤ entryCost A L top e d := by
  unfold entryCost; split <;> omega

theorem entryCost_top_zero (A L d : Nat) : entryCost A L true 0 d = work A (L - d) := by
  unfold entryCost
  split
  · rename_i h; rw [h]; rfl
  · rename_i l h; rw [h]; simp [work]

theorem entryCost_succ (A L e d : Nat) :
    entryCost A L true (e + 1) d = entryCost A L false e d := by
  unfold entryCost; split <;> simp

theorem push_decreases (A L e i d : Nat) (hd : d < L) (hei : e ≤ i) (hi : i + 1 ≤ A) :
    entryCost A L true 0 (d + 1) + entryCost A L false i d + 1 ≤ entryCost A L true e d := by
  rw [entryCost_top_zero]
  unfold entryCost
  have hl : L - d = (L - (d + 1)) + 1 := by omega
  rw [hl]
  simp only [Bool.false_eq_true, if_false, if_true]
  generalize work A (L - (d + 1)) = W
  have h1 : A - i = (A - (i + 1)) + 1 := by omega
  have h2 : (A - i) * (W + 1) ≤ (A - e) * (W + 1) := Nat.mul_le_mul_right _ (by omega)
  rw [h1, Nat.add_mul, Nat.one_mul] at h2
  omega

theorem loop_ne_hang (nodes : Trie) (f : List Str) :
    ∀ (fuel : Nat) (stack : List (Nat × Nat)),
      mu (maxActs nodes) f.length stack < fuel → loop nodes f fuel stack ≠ .hang := by
  intro fuel
  induction fuel with
  | zero => intro stack h; omega
  | succ fuel ih =>
    intro stack h
    match stack with
    | [] => simp [loop]
    | (n, e) :: rest =>
      simp only [loop]
      cases hn : nodes[n]? with
      | none => simp
      | some acts =>
        simp only
        cases hs : scan f rest.length (acts.drop e) e with
        | done out => simp
        | push i t =>
          simp only
          apply ih
          have hp := scan_push hs
          have hlen := length_le_maxActs hn
          simp only [List.length_drop] at hp
          have := push_decreases (maxActs nodes) f.length e i rest.length hp.2.2 hp.1 (by omega)
          simp only [mu, restCost, List.length_cons] at h ⊢
          omega
        | exhausted =>
          simp only
          match rest with
          | [] =>
            have : 1 ≤ fuel := by
              have := entryCost_pos (maxActs nodes) f.length true e 0
              simp only [mu, restCost, List.length_nil] at h; omega
            obtain ⟨k, rfl⟩ : ∃ k, fuel = k + 1 := ⟨fuel - 1, by omega⟩
            simp [loop]
          | (n', e') :: rest' =>
            simp only
            apply ih
            have := entryCost_pos (maxActs nodes) f.length true e (rest'.length + 1)
            simp only [mu, restCost, List.length_cons, entryCost_succ] at h ⊢
            omega

/-- `rewrite` never runs out of fuel: the `while` loop of the code terminates on every node
vector and every feature list. -/
theorem rewrite_ne_hang (nodes : Trie) (f : List Str) : rewrite nodes f ≠ .hang := by
  unfold rewrite fuelBound
  apply loop_ne_hang
  simp only [mu, restCost, List.length_nil, entryCost_top_zero, Nat.sub_zero]
  omega

/-- More fuel does not change a result. -/
theorem loop_mono (nodes : Trie) (f : List Str) :
    ∀ (fuel : Nat) (stack : List (Nat × Nat)),
      loop nodes f fuel stack ≠ .hang →
      loop nodes f (fuel + 1) stack = loop nodes f fuel stack := by
  intro fuel
  induction fuel with
  | zero => intro stack h; simp [loop] at h
  | succ fuel ih =>
    intro stack h
    match stack with
    | [] => simp [loop]
    | (n, e) :: rest =>
      simp only [loop] at h ⊢
      cases hn : nodes[n]? with
      | none => rfl
      | some acts =>
        simp only [hn] at h ⊢
        cases hs : scan f rest.length (acts.drop e) e with
        | done out => rfl
        | push i t => simp only [hs] at h ⊢; exact ih _ h
        | exhausted =>
          simp only [hs] at h ⊢
          match rest with
          | [] => exact ih _ h
          | (n', e') :: rest' => exact ih _ h

theorem loop_mono_add (nodes : Trie) (f : List Str) (fuel k : Nat) (stack : List (Nat × Nat))
    (h : loop nodes f fuel stack ≠ .hang) :
    loop nodes f (fuel + k) stack = loop nodes f fuel stack := by
  induction k with
  | zero => rfl
  | succ k ih =>
    rw [← Nat.add_assoc, loop_mono nodes f (fuel + k) stack (by rw [ih]; exact h), ih]

end Vibrato.Rewriter
