/-
`build true rules` searched depth-first = "first registered matching rule".
Also: exactly when `build` panics.
-/
import Vibrato.Model.Rewriter
import Vibrato.Proofs.RewriterTrie

namespace Vibrato.Rewriter

/-! ### parsing of the rewrite side -/

theorem parseRewrite_ok_or_panic (p : Str) :
    (∃ r, parseRewrite p = .ok r) ∨ parseRewrite p = .panic := by
  unfold parseRewrite
  split
  · split
    · simp only; split
      · exact .inr rfl
      · split
        · exact .inr rfl
        · exact .inl ⟨_, rfl⟩
    · exact .inl ⟨_, rfl⟩
  · exact .inl ⟨_, rfl⟩

theorem parseRewrites_ok_or_panic (ps : List Str) :
    (∃ rs, parseRewrites ps = .ok rs) ∨ parseRewrites ps = .panic := by
  induction ps with
  | nil => exact .inl ⟨[], rfl⟩
  | cons p ps ih =>
    simp only [parseRewrites]
    rcases parseRewrite_ok_or_panic p with ⟨r, hr⟩ | hr
    · rw [hr]
      rcases ih with ⟨rs, hrs⟩ | hrs
      · rw [hrs]; exact .inl ⟨_, rfl⟩
      · rw [hrs]; exact .inr rfl
    · rw [hr]; exact .inr rfl

theorem parseRewrites_panic_iff (ps : List Str) :
    parseRewrites ps = .panic ↔ ∃ p ∈ ps, parseRewrite p = .panic := by
  induction ps with
  | nil => simp [parseRewrites]
  | cons p ps ih =>
    simp only [parseRewrites, List.mem_cons, exists_eq_or_imp]
    rcases parseRewrite_ok_or_panic p with ⟨r, hr⟩ | hr
    · rw [hr]
      rcases parseRewrites_ok_or_panic ps with ⟨rs, hrs⟩ | hrs
      · rw [hrs] at ih ⊢; simpa using ih
      · rw [hrs] at ih ⊢; simpa using ih
    · rw [hr]; simp

/-- Spec-level value of one output cell, given the parsed form. -/
def Rewrite.eval (f : List Str) : Rewrite → Str
  | .ref i => (f[i]?).getD ['*']
  | .text s => s

theorem applyRewrite_eq (rs : List Rewrite) (f : List Str) :
    applyRewrite rs f = rs.map (Rewrite.eval f) := by
  unfold applyRewrite
  congr 1

theorem parseRewrites_ok_map {ps : List Str} {rs : List Rewrite} (h : parseRewrites ps = .ok rs)
    (g : Rewrite → Str) (g' : Str → Str) (hg : ∀ p r, parseRewrite p = .ok r → g r = g' p) :
    rs.map g = ps.map g' := by
  induction ps generalizing rs with
  | nil => simp [parseRewrites] at h; subst h; rfl
  | cons p ps ih =>
    simp only [parseRewrites] at h
    rcases parseRewrite_ok_or_panic p with ⟨r, hr⟩ | hr
    · rw [hr] at h
      rcases parseRewrites_ok_or_panic ps with ⟨rs', hrs⟩ | hrs
      · rw [hrs] at h
        simp only [Outcome.ok.injEq] at h
        subst h
        simp [hg p r hr, ih hrs]
      · rw [hrs] at h; cases h
    · rw [hr] at h; cases h

/-! ### `addPattern` never fails on a valid cursor with in-range targets; in general it is
`ok` or `panic` -/

theorem addPattern_ok_or_panic (fixed : Bool) (ps : List Str) (nodes : Trie) (c : Nat) :
    (∃ r, addPattern fixed ps nodes c = .ok r) ∨ addPattern fixed ps nodes c = .panic := by
  induction ps generalizing nodes c with
  | nil => exact .inl ⟨_, rfl⟩
  | cons p ps ih =>
    simp only [addPattern]
    cases nodes[c]? with
    | none => exact .inr rfl
    | some acts =>
      simp only
      cases findEdge fixed acts (parsePattern p) with
      | some t => exact ih nodes t
      | none => exact ih _ _

theorem addRule_panic_of_rewrites (fixed : Bool) (nodes : Trie) (pat rew : List Str)
    (h : parseRewrites rew = .panic) : addRule fixed nodes pat rew = .panic := by
  unfold addRule
  rcases addPattern_ok_or_panic fixed pat nodes 0 with ⟨⟨n', c⟩, hr⟩ | hr
  · rw [hr, h]
  · rw [hr]

/-! ### well-formed tries (pre-order numbered trees) -/

/-- The invariant of the repaired builder: the root exists and the whole vector is the pre-order
numbered tree below it. -/
def WF (nodes : Trie) : Prop :=
  ∃ acts, nodes[0]? = some acts ∧ SubA nodes acts 1 nodes.length

theorem WF_init : WF [[]] := ⟨[], rfl, .nil (Nat.le_refl _)⟩

theorem addRule_true (f : List Str) (nodes : Trie) (pat rew : List Str) (rs : List Rewrite)
    (hwf : WF nodes) (hrs : parseRewrites rew = .ok rs) :
    ∃ nodes', addRule true nodes pat rew = .ok nodes' ∧ WF nodes' ∧
      dfsNode nodes' f f 0 =
        (dfsNode nodes f f 0).orElse (ruleRes f (pat.map parsePattern) rs f) := by
  obtain ⟨acts, h0, hsub⟩ := hwf
  obtain ⟨nodes', cur, cacts, hadd, hcur, _, _, acts'', h0'', hsub'', hdfs⟩ :=
    insert_true f rs pat nodes 0 acts h0 hsub
  refine ⟨finish nodes' cur rs, ?_, ⟨acts'', h0'', hsub''⟩, ?_⟩
  · simp only [addRule, hadd, hrs, hcur, finish]
  · rw [dfsNode_eq, dfsNode_eq, h0'', h0]
    exact hdfs f

/-- Priority search over a rule list, as a `Res`. -/
def firstRes (f : List Str) : List (List Pattern × List Rewrite) → Res
  | [] => .exhausted
  | r :: rs => (ruleRes f r.1 r.2 f).orElse (firstRes f rs)

/-- The parsed form of a rule list (all rewrite cells parse). -/
def ParsedAs : List RawRule → List (List Pattern × List Rewrite) → Prop
  | [], [] => True
  | r :: rs, q :: qs => q.1 = r.1.map parsePattern ∧ parseRewrites r.2 = .ok q.2 ∧ ParsedAs rs qs
  | _, _ => False

theorem buildFrom_true (f : List Str) :
    ∀ (rules : List RawRule) (parsed : List (List Pattern × List Rewrite)) (nodes : Trie),
      WF nodes → ParsedAs rules parsed →
      ∃ nodes', buildFrom true nodes rules = .ok nodes' ∧ WF nodes' ∧
        dfsNode nodes' f f 0 = (dfsNode nodes f f 0).orElse (firstRes f parsed) := by
  intro rules
  induction rules with
  | nil =>
    intro parsed nodes hwf hp
    cases parsed with
    | nil => exact ⟨nodes, rfl, hwf, by simp [firstRes]⟩
    | cons q qs => cases hp
  | cons r rules ih =>
    intro parsed nodes hwf hp
    cases parsed with
    | nil => cases hp
    | cons q qs =>
      obtain ⟨hq1, hq2, hrest⟩ := hp
      obtain ⟨nodes1, hadd, hwf1, hdfs1⟩ := addRule_true f nodes r.1 r.2 q.2 hwf hq2
      obtain ⟨nodes2, hb, hwf2, hdfs2⟩ := ih qs nodes1 hwf1 hrest
      refine ⟨nodes2, ?_, hwf2, ?_⟩
      · simp only [buildFrom, hadd, hb]
      · rw [hdfs2, hdfs1, Res.orElse_assoc, firstRes, hq1]

theorem parsedAs_exists (rules : List RawRule)
    (h : ∀ r ∈ rules, ∀ p ∈ r.2, parseRewrite p ≠ .panic) : ∃ parsed, ParsedAs rules parsed := by
  induction rules with
  | nil => exact ⟨[], trivial⟩
  | cons r rules ih =>
    obtain ⟨qs, hqs⟩ := ih (fun r' hr' => h r' (List.mem_cons_of_mem _ hr'))
    rcases parseRewrites_ok_or_panic r.2 with ⟨rs, hrs⟩ | hrs
    · exact ⟨(r.1.map parsePattern, rs) :: qs, rfl, hrs, hqs⟩
    · obtain ⟨p, hp, hpp⟩ := (parseRewrites_panic_iff r.2).mp hrs
      exact absurd hpp (h r List.mem_cons_self p hp)

/-- `build` panics as soon as one rewrite cell is a bad `$n` reference (either policy). -/
theorem buildFrom_panic (fixed : Bool) (rules : List RawRule) (nodes : Trie)
    (h : ∃ r ∈ rules, ∃ p ∈ r.2, parseRewrite p = .panic)
    (hnodes : ∀ nodes' r, r ∈ rules → addRule fixed nodes' r.1 r.2 ≠ .err ∧
      addRule fixed nodes' r.1 r.2 ≠ .hang) :
    buildFrom fixed nodes rules = .panic := by
  induction rules generalizing nodes with
  | nil => obtain ⟨r, hr, _⟩ := h; cases hr
  | cons r rules ih =>
    simp only [buildFrom]
    by_cases hbad : ∃ p ∈ r.2, parseRewrite p = .panic
    · rw [addRule_panic_of_rewrites fixed nodes r.1 r.2 ((parseRewrites_panic_iff r.2).mpr hbad)]
    · have h' : ∃ r' ∈ rules, ∃ p ∈ r'.2, parseRewrite p = .panic := by
        obtain ⟨r', hr', hp⟩ := h
        rcases List.mem_cons.mp hr' with rfl | hr''
        · exact absurd hp hbad
        · exact ⟨r', hr'', hp⟩
      have hn := hnodes nodes r List.mem_cons_self
      cases hres : addRule fixed nodes r.1 r.2 with
      | ok nodes' =>
        exact ih nodes' h' (fun n r' hr' => hnodes n r' (List.mem_cons_of_mem _ hr'))
      | err => exact absurd hres hn.1
      | panic => rfl
      | hang => exact absurd hres hn.2

theorem addRule_ne_err_hang (fixed : Bool) (nodes : Trie) (pat rew : List Str) :
    addRule fixed nodes pat rew ≠ .err ∧ addRule fixed nodes pat rew ≠ .hang := by
  unfold addRule
  rcases addPattern_ok_or_panic fixed pat nodes 0 with ⟨⟨n', c⟩, hr⟩ | hr
  · rw [hr]
    rcases parseRewrites_ok_or_panic rew with ⟨rs, hrs⟩ | hrs
    · rw [hrs]; simp only; cases n'[c]? <;> simp
    · rw [hrs]; simp
  · rw [hr]; simp

theorem build_panic (fixed : Bool) (rules : List RawRule)
    (h : ∃ r ∈ rules, ∃ p ∈ r.2, parseRewrite p = .panic) : build fixed rules = .panic :=
  buildFrom_panic fixed rules [[]] h (fun n r _ => addRule_ne_err_hang fixed n r.1 r.2)

end Vibrato.Rewriter
