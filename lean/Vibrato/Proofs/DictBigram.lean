/-
C10 for the bigram builders (`SystemDictionaryBuilder::from_readers_with_bigram_info`):
helper lemmas for `Props/C10big.lean` about `Model/DictBigram.lean`.

Part 0  the array-probing `build` equals `Scorer.build` (so `rawFromReaders` /
        `dualFromReaders` are `RawConnector.fromReaders` / `DualConnector.fromReaders`);
Part 1  acceptance establishes the structural part of `DictWF`;
Part 2  totality of the builder (no panic) under the size bounds of the `u32` / `U31` / `u16`
        counters of the Rust code;
Part 3  totality of the connector cost function on the whole table.
-/
import Vibrato.Model.DictBigram
import Vibrato.Proofs.BuildersDict
import Vibrato.Proofs.CsvRowTotal
import Vibrato.Proofs.DualConnector

namespace Vibrato.Bigram
open Vibrato.Scorer Vibrato.RawConnector

/-! ## Part 0: `buildCheckedA = buildChecked` -/

theorem checkBaseA_eq (base : Nat) (row : Row) (checks : List Nat) :
    checkBaseA base row checks.toArray = checkBase base row checks := by
  unfold checkBaseA checkBase
  simp only [List.getElem?_toArray]
  rfl

theorem findBaseLoopA_eq (row : Row) (checks : List Nat) : ∀ (fuel base : Nat),
    findBaseLoopA row checks.toArray fuel base = findBaseLoop row checks fuel base := by
  intro fuel
  induction fuel with
  | zero => intro base; rfl
  | succ n ih =>
    intro base
    simp only [findBaseLoopA, findBaseLoop, checkBaseA_eq, ih]

theorem findBaseA_eq (row : Row) (checks : List Nat) : findBaseA row checks = findBase row checks := by
  unfold findBaseA findBase
  exact findBaseLoopA_eq row checks _ _

theorem buildLoopA_eq : ∀ (rows : List Row) (k : Nat) (st : Scorer),
    buildLoopA rows k st = Scorer.buildLoop rows k st := by
  intro rows
  induction rows with
  | nil => intro k st; rfl
  | cons row rest ih =>
    intro k st
    simp only [buildLoopA, Scorer.buildLoop, findBaseA_eq, ih]

theorem buildA_eq (t : Trie) : buildA t = build t := by
  unfold buildA build
  exact buildLoopA_eq _ _ _

theorem buildCheckedA_eq (t : Trie) : buildCheckedA t = buildChecked t := by
  unfold buildCheckedA buildChecked
  rw [buildA_eq]

theorem rawFromReaders_eq (fixed : Bool) (csv : Str → Scorer.Outcome (List Str))
    (right left cost : List (Option Str)) :
    rawFromReaders fixed csv right left cost = RawConnector.fromReaders fixed csv right left cost := by
  unfold rawFromReaders RawConnector.fromReaders
  simp only [buildCheckedA_eq]
  rfl

theorem dualFromReaders_eq (fixed oc : Bool) (csv : Str → Scorer.Outcome (List Str))
    (split : List Nat) (right left cost : List (Option Str)) :
    dualFromReaders fixed oc csv split right left cost =
      DualConnector.fromReaders fixed oc csv split right left cost := by
  unfold dualFromReaders DualConnector.fromReaders
  simp only [buildCheckedA_eq]
  rfl

end Vibrato.Bigram

namespace Vibrato

/-! ## Part 1: what acceptance establishes -/

/-- `DictWF` with the `i16` bound on the connection costs replaced by a bound `C`: the compact
connectors return `i32` sums of listed costs, not `i16` matrix entries. -/
structure DictWFc (C : Int) (D : DictM) : Prop where
  conn_len : D.conn.length = D.numRight * D.numLeft
  conn_le : ∀ x ∈ D.conn, x ≤ C
  C_nonneg : 0 ≤ C
  sys_ok : LexWF D.numLeft D.numRight D.sys
  sys_ne : D.sys.entries ≠ []
  user_ok : ∀ u, D.user = some u → LexWF D.numLeft D.numRight u
  unk_ok : ∀ e ∈ D.unk, ParamOK D.numLeft D.numRight e.param ∧ e.cateId < D.chars.names.length
  mapper_ok : ∀ ml mr, D.mapper = some (ml, mr) →
    ml.length = D.numLeft ∧ mr.length = D.numRight ∧
      (∀ x ∈ ml, x < D.numLeft) ∧ (∀ x ∈ mr, x < D.numRight)
  chars_ok : CharsWF D.chars

theorem DictWF.toWFc {D : DictM} (h : DictWF D) : DictWFc 32767 D :=
  ⟨h.conn_len, fun x hx => (h.conn_i16 x hx).2, by decide, h.sys_ok, h.sys_ne, h.user_ok, h.unk_ok,
    h.mapper_ok, h.chars_ok⟩

theorem DictWFc.toWF {C : Int} {D : DictM} (h : DictWFc C D) (hc : ∀ x ∈ D.conn, I16 x) : DictWF D :=
  ⟨h.conn_len, hc, h.sys_ok, h.sys_ne, h.user_ok, h.unk_ok, h.mapper_ok, h.chars_ok⟩

/-- The largest connection cost of the table (at least 0). -/
def connBound (D : DictM) : Int := D.conn.foldl max 0

theorem foldl_max_ge (l : List Int) : ∀ (a : Int), a ≤ l.foldl max a ∧ ∀ x ∈ l, x ≤ l.foldl max a := by
  induction l with
  | nil => intro a; simp
  | cons y ys ih =>
    intro a
    simp only [List.foldl_cons]
    obtain ⟨h1, h2⟩ := ih (max a y)
    refine ⟨by omega, ?_⟩
    intro x hx
    rcases List.mem_cons.1 hx with rfl | hx
    · omega
    · exact h2 x hx

theorem le_connBound (D : DictM) : 0 ≤ connBound D ∧ ∀ x ∈ D.conn, x ≤ connBound D :=
  foldl_max_ge D.conn 0

namespace Bigram

theorem costRow_spec (oc : Bool) (c : Conn) (r : Nat) : ∀ (ls : List Nat) (xs : List Int),
    costRow oc c r ls = .ok xs → xs.length = ls.length ∧
      ∀ (i l : Nat), ls[i]? = some l → ∃ x, xs[i]? = some x ∧ c.cost oc r l = .ok x := by
  intro ls
  induction ls with
  | nil => intro xs h; simp only [costRow, Outcome.ok.injEq] at h; subst h; simp
  | cons l ls ih =>
    intro xs h
    simp only [costRow] at h
    cases hc : c.cost oc r l with
    | err => rw [hc] at h; cases h
    | panic => rw [hc] at h; cases h
    | ok x =>
      rw [hc] at h
      simp only at h
      cases hr : costRow oc c r ls with
      | err => rw [hr] at h; cases h
      | panic => rw [hr] at h; cases h
      | ok ys =>
        rw [hr] at h
        simp only [Outcome.ok.injEq] at h
        subst h
        obtain ⟨i1, i2⟩ := ih ys hr
        refine ⟨by simp [i1], ?_⟩
        intro i l' hi
        cases i with
        | zero => simp at hi; subst hi; exact ⟨x, by simp, hc⟩
        | succ i => simp at hi; simpa using i2 i l' hi

theorem costRows_length (oc : Bool) (c : Conn) (nl : Nat) : ∀ (rs : List Nat) (t : List Int),
    costRows oc c nl rs = .ok t → t.length = rs.length * nl := by
  intro rs
  induction rs with
  | nil => intro t h; simp only [costRows, Outcome.ok.injEq] at h; subst h; simp
  | cons r rs ih =>
    intro t h
    simp only [costRows] at h
    cases hr : costRow oc c r (List.range nl) with
    | err => rw [hr] at h; cases h
    | panic => rw [hr] at h; cases h
    | ok row =>
      rw [hr] at h
      simp only at h
      cases hrs : costRows oc c nl rs with
      | err => rw [hrs] at h; cases h
      | panic => rw [hrs] at h; cases h
      | ok rest =>
        rw [hrs] at h
        simp only [Outcome.ok.injEq] at h
        subst h
        have := (costRow_spec oc c r _ _ hr).1
        simp only [List.length_append, List.length_cons, this, List.length_range, ih rest hrs]
        rw [Nat.add_mul, Nat.one_mul, Nat.add_comm]

/-- What `build` checks (`Lexicon::verify`, `UnkHandler::verify`) and what the parsers guarantee,
for the dictionary as returned by the builder. -/
theorem buildBigram_spec {fx : Fixes} {oc : Bool} {split : Option (List Nat)}
    {lex right left cost chardef unk : List UInt8} {dual : Bool} {B : Built}
    (h : buildBigram fx oc split lex right left cost chardef unk dual = .ok B) :
    buildConn fx.f14 oc split right left cost dual = .ok B.conn ∧
    LexWF B.numLeft B.numRight B.sys ∧ B.sys.entries ≠ [] ∧
    (∀ e ∈ B.unk, ParamOK B.numLeft B.numRight e.param ∧ e.cateId < B.chars.names.length) ∧
    CharsWF B.chars := by
  unfold buildBigram at h
  split at h
  · cases h
  · cases h
  · rename_i lrows hl
    split at h
    · cases h
    · cases h
    · rename_i conn hconn
      split at h
      · cases h
      · cases h
      · rename_i P hP
        split at h
        · cases h
        · cases h
        · rename_i urows hu
          split at h
          · cases h
          · rename_i U hU
            split at h
            · cases h
            · rename_i L hL
              split at h
              · cases h
              · rename_i hp1
                split at h
                · cases h
                · rename_i hp2
                  cases h
                  simp only [Bool.not_eq_true, Bool.not_eq_false] at hp1 hp2
                  refine ⟨hconn, ?_, (C10.lexOfRows_spec hL).2.1, ?_, C10.charsWF_of_parse hP⟩
                  · exact C10.lexWF_of_rows (C10.parseLexCsv_rows hl) hL hp1
                  · intro e he
                    obtain ⟨u1, r, hr, hre⟩ := C10.unkOfRows_spec hU e he
                    have := (C10.paramsInRange_iff _ _ _).1 hp2 e.param (List.mem_map.mpr ⟨e, he, rfl⟩)
                    refine ⟨⟨this.1, this.2, ?_⟩, u1⟩
                    rw [hre]
                    exact (C10.parseLexCsv_rows hu r hr).2.2

theorem buildBigramDictWith_ok {fx : Fixes} {oc : Bool} {split : Option (List Nat)}
    {lex right left cost chardef unk : List UInt8} {dual : Bool} {D : DictM}
    (h : buildBigramDictWith fx oc split lex right left cost chardef unk dual = .ok D) :
    ∃ B t, buildBigram fx oc split lex right left cost chardef unk dual = .ok B ∧
      B.table oc = .ok t ∧ D = B.toDict t := by
  unfold buildBigramDictWith at h
  split at h
  · cases h
  · cases h
  · rename_i B hB
    split at h
    · rename_i t ht
      cases h
      exact ⟨B, t, hB, ht, rfl⟩
    · cases h
    · cases h

/-- Acceptance establishes everything `DictWF` asks for except the `i16` range of the
connection costs; the costs are bounded by the largest table entry. -/
theorem buildBigramDictWith_wfc {fx : Fixes} {oc : Bool} {split : Option (List Nat)}
    {lex right left cost chardef unk : List UInt8} {dual : Bool} {D : DictM}
    (h : buildBigramDictWith fx oc split lex right left cost chardef unk dual = .ok D) :
    DictWFc (connBound D) D ∧ D.user = none ∧ D.mapper = none := by
  obtain ⟨B, t, hB, ht, rfl⟩ := buildBigramDictWith_ok h
  obtain ⟨_, h1, h2, h3, h4⟩ := buildBigram_spec hB
  refine ⟨⟨?_, (le_connBound _).2, (le_connBound _).1, h1, h2, ?_, h3, ?_, h4⟩, rfl, rfl⟩
  · have := costRows_length oc B.conn B.numLeft _ _ ht
    simpa [Built.toDict] using this
  · intro u hu; cases hu
  · intro ml mr hm; cases hm

end Bigram
end Vibrato

/-! ## Part 2: totality of the builder -/

namespace Vibrato.Bigram
open Vibrato.Scorer Vibrato.RawConnector

/-! ### 2a. Lines are images of valid UTF-8 byte strings -/

theorem charOfByte_toNat (n : Nat) (h : n < 256) : (Char.ofNat n).toNat = n := by
  have hv : n.isValidChar := Or.inl (by omega)
  simp [Char.ofNat, hv, Char.toNat, Char.ofNatAux]

theorem byteOfChar_charOfByte (b : UInt8) : byteOfChar (charOfByte b) = b := by
  unfold byteOfChar charOfByte
  rw [charOfByte_toNat _ b.toNat_lt]
  simp

theorem map_byteOfChar_charOfByte (l : List UInt8) : (l.map charOfByte).map byteOfChar = l := by
  induction l with
  | nil => rfl
  | cons b l ih => simp [byteOfChar_charOfByte, ih]

/-- The characters of `s` are the bytes of a valid UTF-8 string (a Rust `&str`). -/
def LineOK (s : Str) : Prop := ∃ l : List UInt8, LexCsv.validUtf8 l = true ∧ s = l.map charOfByte

/-- Every line of a reader is `Err` or a `&str`. -/
def LinesOK (lines : List (Option Str)) : Prop := ∀ s, some s ∈ lines → LineOK s

theorem readLines_ok (bytes : List UInt8) : LinesOK (readLines bytes) := by
  intro s hs
  unfold readLines at hs
  simp only [List.mem_map] at hs
  obtain ⟨l, _, hl⟩ := hs
  split at hl
  · rename_i hv
    simp only [Option.some.injEq] at hl
    exact ⟨l, hv, hl.symm⟩
  · cases hl

theorem LinesOK.tail {a : Option Str} {lines : List (Option Str)} (h : LinesOK (a :: lines)) :
    LinesOK lines := fun s hs => h s (List.mem_cons_of_mem _ hs)

/-! ### 2b. `str::split` at an ASCII character and `parse_csv_row` on the remainder -/

theorem splitOn_ne_nil (c : Char) (s : Str) : splitOn c s ≠ [] := by
  cases s with
  | nil => simp [splitOn]
  | cons x xs =>
    simp only [splitOn]
    split
    · simp
    · split <;> simp

theorem splitOn_one (c : Char) : ∀ (s a : Str), splitOn c s = [a] → s = a := by
  intro s
  induction s with
  | nil => intro a h; simp [splitOn] at h; exact h.symm
  | cons x xs ih =>
    intro a h
    simp only [splitOn] at h
    split at h
    · rename_i hnil; exact absurd hnil (splitOn_ne_nil c xs)
    · rename_i cur rest hs
      split at h
      · simp at h
      · simp only [List.cons.injEq] at h
        obtain ⟨rfl, rfl⟩ := h
        rw [ih cur hs]

theorem splitOn_two (c : Char) : ∀ (s a b : Str), splitOn c s = [a, b] → s = a ++ c :: b := by
  intro s
  induction s with
  | nil => intro a b h; simp [splitOn] at h
  | cons x xs ih =>
    intro a b h
    simp only [splitOn] at h
    split at h
    · rename_i hnil; exact absurd hnil (splitOn_ne_nil c xs)
    · rename_i cur rest hs
      split at h
      · rename_i hx
        simp only [List.cons.injEq] at h
        obtain ⟨rfl, rfl, rfl⟩ := h
        rw [hx, splitOn_one c xs cur hs]
        rfl
      · simp only [List.cons.injEq] at h
        obtain ⟨rfl, rfl⟩ := h
        rw [ih cur b hs]
        rfl

theorem utf8Step_ascii {u u' : LexCsv.U8State} {b : UInt8} (hb : b < 0x80)
    (h : LexCsv.utf8Step u b = some u') : u = .start ∧ u' = .start := by
  have hb' : b.toNat < 128 := hb
  cases u <;> simp only [LexCsv.utf8Step] at h
  · simp [hb] at h; exact ⟨rfl, h.symm⟩
  all_goals
    split at h
    · rename_i hc
      have := hc.1
      have h2 : (128 : Nat) ≤ b.toNat ∨ (144 : Nat) ≤ b.toNat ∨ (160 : Nat) ≤ b.toNat := by
        first
          | exact Or.inl this
          | exact Or.inr (Or.inl this)
          | exact Or.inr (Or.inr this)
      omega
    · cases h

/-- The part of a `&str` after an ASCII byte is a `&str`. -/
theorem validUtf8_after_ascii (l1 l2 : List UInt8) (x : UInt8) (hx : x < 0x80)
    (h : LexCsv.validUtf8 (l1 ++ x :: l2) = true) : LexCsv.validUtf8 l2 = true := by
  simp only [LexCsv.validUtf8, decide_eq_true_eq] at h ⊢
  rw [LexCsv.utf8Run_append] at h
  cases h1 : LexCsv.utf8Run .start l1 with
  | none => rw [h1] at h; simp at h
  | some s1 =>
    rw [h1] at h
    simp only [Option.bind_some, LexCsv.utf8Run] at h
    cases h2 : LexCsv.utf8Step s1 x with
    | none => rw [h2] at h; simp at h
    | some s2 =>
      rw [h2] at h
      simp only at h
      obtain ⟨_, rfl⟩ := utf8Step_ascii hx h2
      exact h

theorem csvRow_ne_panic_of_valid (l : List UInt8) (hv : LexCsv.validUtf8 l = true) :
    csvRow (l.map charOfByte) ≠ .panic := by
  unfold csvRow
  rw [map_byteOfChar_charOfByte]
  have := LexCsv.parseCsvRowBytes_fixed_ne_panic l hv
  split
  · simp
  · simp
  · rename_i h; exact absurd h this

/-- `parse_features` on a `&str` line does not panic. -/
theorem parseFeatureLine_ne_panic {line : Str} (h : LineOK line) :
    parseFeatureLine csvRow line ≠ .panic := by
  unfold parseFeatureLine
  split
  · rename_i idStr featuresStr hs
    split
    · rename_i id hid
      have hline := splitOn_two '\t' line idStr featuresStr hs
      obtain ⟨l, hv, rfl⟩ := h
      obtain ⟨l1, l2', h1, h2, h3⟩ := List.map_eq_append_iff.1 hline
      obtain ⟨x, l2, rfl, hx, h4⟩ := List.map_eq_cons_iff.1 h3
      have hx9 : x = 9 := by
        have := congrArg byteOfChar hx
        rw [byteOfChar_charOfByte] at this
        rw [this]; decide
      subst hx9
      subst h1
      have hv2 := validUtf8_after_ascii l1 l2 9 (by decide) hv
      have := csvRow_ne_panic_of_valid l2 hv2
      rw [h4] at this
      split
      · simp
      · simp
      · rename_i hp; exact absurd hp this
    · simp
  · simp

theorem featLoop_ne_panic (m : List Str) : ∀ (lines : List (Option Str)) (i K : Nat)
    (rows : List (List Nat)), LinesOK lines → featLoop csvRow m lines i K rows ≠ .panic := by
  intro lines
  induction lines with
  | nil => intro i K rows _; simp [featLoop]
  | cons a rest ih =>
    intro i K rows hok
    cases a with
    | none => simp [featLoop]
    | some line =>
      simp only [featLoop]
      have hl := parseFeatureLine_ne_panic (hok line List.mem_cons_self)
      split
      · split
        · simp
        · exact ih _ _ _ hok.tail
      · simp
      · rename_i hp; exact absurd hp hl

/-! ### 2c. `bigram.cost`: the `U31::new(map.len()).unwrap()` site -/

theorem intern_ne_panic {m : List Str} (s : Str) (h : m.length ≤ INVALID) : intern m s ≠ .panic := by
  unfold intern
  split
  · simp
  · rw [if_pos h]; simp

theorem costStep_ne_panic {st : CostState} (line : Str) (hr : st.rmap.length ≤ INVALID)
    (hl : st.lmap.length ≤ INVALID) : costStep st line ≠ .panic := by
  unfold costStep
  cases hp : parseCostLine line with
  | none => simp
  | some e =>
    obtain ⟨rs, ls, c⟩ := e
    simp only
    have h1 := intern_ne_panic (m := st.rmap) rs hr
    cases hi : intern st.rmap rs with
    | err => simp
    | panic => exact absurd hi h1
    | ok pr =>
      obtain ⟨rmap, rid⟩ := pr
      simp only
      have h2 := intern_ne_panic (m := st.lmap) ls hl
      cases hj : intern st.lmap ls with
      | err => simp
      | panic => exact absurd hj h2
      | ok pl => simp

theorem costStep_lengths {st st' : CostState} {line : Str} (h : costStep st line = .ok st') :
    st'.rmap.length ≤ st.rmap.length + 1 ∧ st'.lmap.length ≤ st.lmap.length + 1 := by
  unfold costStep at h
  cases hp : parseCostLine line with
  | none => rw [hp] at h; cases h
  | some e =>
    obtain ⟨rs, ls, c⟩ := e
    rw [hp] at h
    simp only at h
    cases hi : intern st.rmap rs with
    | err => rw [hi] at h; cases h
    | panic => rw [hi] at h; cases h
    | ok pr =>
      obtain ⟨rmap, rid⟩ := pr
      rw [hi] at h
      simp only at h
      cases hj : intern st.lmap ls with
      | err => rw [hj] at h; cases h
      | panic => rw [hj] at h; cases h
      | ok pl =>
        obtain ⟨lmap, lid⟩ := pl
        rw [hj] at h
        simp only [Scorer.Outcome.ok.injEq] at h
        subst h
        exact ⟨(intern_spec hi).2.2, (intern_spec hj).2.2⟩

theorem costLoop_ne_panic : ∀ (lines : List (Option Str)) (st : CostState),
    st.rmap.length + lines.length ≤ INVALID + 1 → st.lmap.length + lines.length ≤ INVALID + 1 →
    costLoop lines st ≠ .panic := by
  intro lines
  induction lines with
  | nil => intro st _ _; simp [costLoop]
  | cons a rest ih =>
    intro st hr hl
    cases a with
    | none => simp [costLoop]
    | some line =>
      simp only [costLoop, List.length_cons] at hr hl ⊢
      have hs := costStep_ne_panic (st := st) line (by omega) (by omega)
      split
      · rename_i st' hst
        obtain ⟨a1, a2⟩ := costStep_lengths hst
        exact ih st' (by omega) (by omega)
      · exact hs

/-- `RawConnectorBuilder::from_readers` does not panic on readers of at most `2^31 - 1` cost
lines. -/
theorem builderFromReaders_ne_panic (right left cost : List (Option Str))
    (hR : LinesOK right) (hL : LinesOK left) (hC : cost.length ≤ INVALID) :
    builderFromReaders csvRow right left cost ≠ .panic := by
  unfold builderFromReaders
  have hc := costLoop_ne_panic cost ⟨[[]], [[]], []⟩ (by simp; omega) (by simp; omega)
  split
  · rename_i st _
    have h1 := featLoop_ne_panic st.rmap right 0 0 [] hR
    split
    · rename_i rrows K1 _
      have h2 := featLoop_ne_panic st.lmap left 0 K1 [] hL
      split
      · simp
      · simp
      · rename_i hp; exact absurd hp h2
    · simp
    · rename_i hp; exact absurd hp h1
  · simp
  · rename_i hp; exact absurd hp hc

end Vibrato.Bigram

/-! ### 2d. `ScorerBuilder::build`: the `u32` base cannot overflow for at most 65535 entries -/

namespace Vibrato.Bigram
open Vibrato.Scorer Vibrato.RawConnector

theorem xor_xor_cancel_right (a b : Nat) : (a ^^^ b) ^^^ b = a := by
  rw [Nat.xor_assoc, Nat.xor_self, Nat.xor_zero]

/-- The first-fit base is at most (number of keys of the row) × (number of used slots): every
smaller base is blocked by a pair (key of the row, used slot), and distinct bases are blocked
by distinct pairs. -/
theorem findBase_le_mul (row : Row) (checks U : List Nat)
    (hU : ∀ p, chk checks p ≠ UNUSED_CHECK → p ∈ U) :
    findBase row checks ≤ row.length * U.length := by
  have hspec := (findBase_spec row checks).2
  have hsub : List.range (findBase row checks) ⊆
      row.flatMap (fun e => U.map fun p => p ^^^ e.1) := by
    intro b hb
    have hf := hspec b (List.mem_range.1 hb)
    have hnall : ¬ ∀ e ∈ row, chk checks (b ^^^ e.1) = UNUSED_CHECK := by
      intro hall
      have := (checkBase_iff b row checks).2 hall
      rw [hf] at this; cases this
    have hex : ∃ e ∈ row, chk checks (b ^^^ e.1) ≠ UNUSED_CHECK := by
      apply Classical.byContradiction
      intro hno
      apply hnall
      intro e he
      apply Classical.byContradiction
      intro hc
      exact hno ⟨e, he, hc⟩
    obtain ⟨e, he, hne⟩ := hex
    simp only [List.mem_flatMap, List.mem_map]
    exact ⟨e, he, b ^^^ e.1, hU _ hne, xor_xor_cancel_right b e.1⟩
  have hlen := List.Nodup.length_le_of_subset List.nodup_range hsub
  rw [C10.length_flatMap_const _ _ U.length (by simp)] at hlen
  simpa using hlen

/-- number of entries of a builder -/
def tsize (t : Trie) : Nat := (t.map List.length).sum

theorem buildLoop_bases_le (T : Nat) : ∀ (rows : List Row) (i : Nat) (st : Scorer) (U : List Nat),
    (∀ row ∈ rows, (row.map Prod.fst).Nodup) →
    st.checks.length = st.costs.length →
    (∀ p, chk st.checks p ≠ UNUSED_CHECK → p ∈ U) →
    U.length + tsize rows ≤ T →
    (∀ b ∈ st.bases, b ≤ T * T) →
    ∀ b ∈ (Scorer.buildLoop rows i st).bases, b ≤ T * T := by
  intro rows
  induction rows with
  | nil => intro i st U _ _ _ _ hb; simpa [Scorer.buildLoop] using hb
  | cons row rest ih =>
    intro i st U hnd hlen hU hT hb
    simp only [Scorer.buildLoop]
    have hndrow := hnd row List.mem_cons_self
    obtain ⟨p1, p2, p3⟩ := placeRow_spec i (findBase row st.checks) row st.checks st.costs hlen hndrow
    have hT' : U.length + (row.length + tsize rest) ≤ T := by
      simpa [tsize] using hT
    have hbase : findBase row st.checks ≤ T * T := by
      have h1 := findBase_le_mul row st.checks U hU
      have h2 : row.length * U.length ≤ T * T := Nat.mul_le_mul (by omega) (by omega)
      omega
    apply ih (i + 1) _ (U ++ row.map fun e => findBase row st.checks ^^^ e.1)
      (fun r hr => hnd r (List.mem_cons_of_mem _ hr)) p1
    · intro p hp
      simp only at hp
      by_cases hex : ∃ e ∈ row, p = findBase row st.checks ^^^ e.1
      · obtain ⟨e, he, rfl⟩ := hex
        exact List.mem_append_right _ (List.mem_map.2 ⟨e, he, rfl⟩)
      · have hne : ∀ e ∈ row, p ≠ findBase row st.checks ^^^ e.1 := fun e he h => hex ⟨e, he, h⟩
        rw [(p3 p hne).1] at hp
        exact List.mem_append_left _ (hU p hp)
    · simp only [List.length_append, List.length_map]; omega
    · intro b hb'
      simp only at hb'
      rcases List.mem_or_eq_of_mem_set hb' with h | h
      · exact hb b h
      · rw [h]; exact hbase

theorem build_bases_le (t : Trie) (ht : TrieOK t) : ∀ b ∈ (build t).bases, b ≤ tsize t * tsize t := by
  unfold build
  apply buildLoop_bases_le (tsize t) t 0 _ [] ht.nodup rfl
  · intro p hp; simp [chk] at hp
  · simp
  · intro b hb
    rw [List.mem_replicate] at hb
    rw [hb.2]; exact Nat.zero_le _

/-- `build` does not overflow the `u32` base (nor `u32::try_from(key1)`) for at most 65535
entries. -/
theorem buildChecked_ne_panic (t : Trie) (ht : TrieOK t) (hs : tsize t ≤ 65535) :
    buildChecked t ≠ .panic := by
  unfold buildChecked
  have hb := build_bases_le t ht
  have hlen : t.length ≤ 4294967296 := by have := ht.len; unfold UNUSED_CHECK at this; omega
  have hall : (build t).bases.all (· < 4294967296) = true := by
    rw [List.all_eq_true]
    intro b hbm
    have h1 := hb b hbm
    have h2 : tsize t * tsize t ≤ 65535 * 65535 := Nat.mul_le_mul hs hs
    simp only [decide_eq_true_eq]
    omega
  simp [hlen, hall]

/-! #### The number of entries of the builder -/

theorem sum_length_modify (f : Row → Row) (hf : ∀ r, (f r).length ≤ r.length + 1) :
    ∀ (t : Trie) (k : Nat), tsize (t.modify k f) ≤ tsize t + 1 := by
  intro t
  induction t with
  | nil => intro k; simp [tsize]
  | cons r rest ih =>
    intro k
    cases k with
    | zero =>
      simp only [List.modify_cons, tsize, List.map_cons, List.sum_cons, if_true]
      have := hf r
      omega
    | succ k =>
      have := ih k
      simp only [tsize] at this
      simp only [List.modify_cons, tsize, List.map_cons, List.sum_cons]
      simp only [Nat.add_one_ne_zero, if_false, List.map_cons, List.sum_cons, Nat.add_sub_cancel]
      omega

theorem rowInsert_length (k : Nat) (c : Int) : ∀ (row : Row), (rowInsert k c row).length ≤ row.length + 1 := by
  intro row
  induction row with
  | nil => simp [rowInsert]
  | cons x rest ih =>
    obtain ⟨k', c'⟩ := x
    simp only [rowInsert]
    split
    · simp
    · split
      · simp
      · simp only [List.length_cons]; omega

theorem tsize_resize (t : Trie) (n : Nat) (h : t.length ≤ n) : tsize (resize t n []) = tsize t := by
  unfold resize tsize
  rw [List.take_of_length_le h]
  simp

theorem tsize_insert (t : Trie) (k1 k2 : Nat) (c : Int) : tsize (Scorer.insert t k1 k2 c) ≤ tsize t + 1 := by
  unfold Scorer.insert
  split
  · rename_i hk
    have := sum_length_modify (rowInsert k2 c) (rowInsert_length k2 c) (resize t (k1 + 1) []) k1
    rw [tsize_resize t (k1 + 1) (by omega)] at this
    exact this
  · exact sum_length_modify (rowInsert k2 c) (rowInsert_length k2 c) t k1

theorem tsize_foldl_insert (es : List (Nat × Nat × Int)) : ∀ (t : Trie),
    tsize (es.foldl (fun t e => Scorer.insert t e.1 e.2.1 e.2.2) t) ≤ tsize t + es.length := by
  induction es with
  | nil => intro t; simp
  | cons e es ih =>
    intro t
    simp only [List.foldl_cons, List.length_cons]
    have h1 := ih (Scorer.insert t e.1 e.2.1 e.2.2)
    have h2 := tsize_insert t e.1 e.2.1 e.2.2
    omega

theorem tsize_ofEntries (es : List (Nat × Nat × Int)) : tsize (ofEntries es) ≤ es.length := by
  have := tsize_foldl_insert es []
  simpa [ofEntries, tsize] using this

theorem tsize_zipWith_le {α : Type} (f : α → Row → Row) (hf : ∀ a r, (f a r).length ≤ r.length) :
    ∀ (l : List α) (t : Trie), tsize (List.zipWith f l t) ≤ tsize t := by
  intro l
  induction l with
  | nil => intro t; simp [tsize]
  | cons a l ih =>
    intro t
    cases t with
    | nil => simp [tsize]
    | cons r t =>
      have h1 := ih t
      have h2 := hf a r
      simp only [tsize] at h1
      simp only [List.zipWith_cons_cons, tsize, List.map_cons, List.sum_cons]
      omega

theorem tsize_pruneTrie (t : Trie) (ru lu : List Nat) :
    tsize (DualConnector.pruneTrie t ru lu) ≤ tsize t := by
  unfold DualConnector.pruneTrie
  apply tsize_zipWith_le
  intro i row
  split
  · exact List.length_filter_le _ _
  · simp

/-- What the builder guarantees about its scorer builder: well-formed, at most one entry per
cost line. -/
theorem builder_trie {right left cost : List (Option Str)} {b : Builder}
    (h : builderFromReaders csvRow right left cost = .ok b) (hC : cost.length < INVALID) :
    TrieOK b.trie ∧ tsize b.trie ≤ cost.length ∧
      b.rightRows.length = right.length ∧ b.leftRows.length = left.length := by
  obtain ⟨st, es, rfs, lfs, hinv, hes, hr, hl, hrr, hlr, _, htrie⟩ := builder_spec h
  have hlen := costEntries_length cost es hes
  have h1 := hinv.rlen
  rw [htrie]
  refine ⟨trieOK_of_cinv hinv (by omega), ?_, ?_, ?_⟩
  · rw [hinv.trie]
    have := tsize_ofEntries (es.map (enc st.rmap st.lmap))
    simpa [hlen] using this
  · rw [hrr, List.length_map, featLines_length csvRow right 0 rfs hr]
  · rw [hlr, List.length_map, featLines_length csvRow left 0 lfs hl]

/-- **`RawConnector::from_readers` is total** (repaired tree) for at most 65535 cost lines. -/
theorem raw_fromReaders_ne_panic (right left cost : List (Option Str))
    (hR : LinesOK right) (hL : LinesOK left) (hC : cost.length ≤ 65535) :
    RawConnector.fromReaders true csvRow right left cost ≠ .panic := by
  unfold RawConnector.fromReaders
  have hb := builderFromReaders_ne_panic right left cost hR hL (by unfold INVALID; omega)
  split
  · rename_i b hbo
    obtain ⟨t1, t2, _, _⟩ := builder_trie hbo (by unfold INVALID; omega)
    have := buildChecked_ne_panic b.trie t1 (by omega)
    split
    · simp
    · split
      · simp
      · simp
      · rename_i hp; exact absurd hp this
  · simp
  · rename_i hp; exact absurd hp hb

end Vibrato.Bigram

/-! ### 2e. `DualConnector::from_readers` -/

namespace Vibrato.Bigram
open Vibrato.Scorer Vibrato.RawConnector Vibrato.DualConnector

/-- `retrieve_cost` never fails on this scorer. -/
def RetrOK (s : Scorer) : Prop := ∀ k1 k2, ∃ o, retrieve s k1 k2 = .ok o

theorem retrOK_build (t : Trie) (ht : TrieOK t) : RetrOK (build t) :=
  fun k1 k2 => ⟨_, retrieve_build_aux t ht k1 k2⟩

theorem addI32_false_ok (a b : Int) : ∃ x, addI32 false a b = .ok x := by
  unfold addI32
  by_cases h : inI32 (a + b) = true
  · exact ⟨a + b, by simp [h]⟩
  · exact ⟨wrapI32 (a + b), by simp [h]⟩

/-- Without overflow checks (`wrapping` arithmetic of the release profile) the lane loop of
`accumulate_cost` always returns a value. -/
theorem accLanes_false_ok (s : Scorer) (hs : RetrOK s) : ∀ (a b : List Nat) (acc : Int),
    ∃ x, accLanes false s a b acc = .ok x := by
  intro a
  induction a with
  | nil => intro b acc; exact ⟨acc, by simp [accLanes]⟩
  | cons k1 r1 ih =>
    intro b acc
    cases b with
    | nil => exact ⟨acc, by simp [accLanes]⟩
    | cons k2 r2 =>
      simp only [accLanes]
      obtain ⟨o, ho⟩ := hs k1 k2
      rw [ho]
      cases o with
      | none => exact ih r2 acc
      | some w =>
        obtain ⟨x, hx⟩ := addI32_false_ok acc w
        simp only [hx]
        exact ih r2 x

theorem accChunks_false_ok (s : Scorer) (hs : RetrOK s) : ∀ (a b : List U31x8) (acc : Int),
    ∃ x, accChunks false s a b acc = .ok x := by
  intro a
  induction a with
  | nil => intro b acc; exact ⟨acc, by simp [accChunks]⟩
  | cons c1 r1 ih =>
    intro b acc
    cases b with
    | nil => exact ⟨acc, by simp [accChunks]⟩
    | cons c2 r2 =>
      simp only [accChunks]
      obtain ⟨x, hx⟩ := accLanes_false_ok s hs c1 c2 acc
      simp only [hx]
      exact ih r2 x

theorem accumulate_false_ok (s : Scorer) (hs : RetrOK s) (a b : List U31x8) :
    ∃ x, accumulate false s a b = .ok x :=
  accChunks_false_ok s hs a b 0

theorem mapO_ok {α β : Type} (f : α → Scorer.Outcome β) (hf : ∀ x, ∃ y, f x = .ok y) :
    ∀ (xs : List α), ∃ ys, mapO f xs = .ok ys := by
  intro xs
  induction xs with
  | nil => exact ⟨[], rfl⟩
  | cons x xs ih =>
    obtain ⟨y, hy⟩ := hf x
    obtain ⟨ys, hys⟩ := ih
    exact ⟨y :: ys, by simp [mapO, hy, hys]⟩

theorem mapO_ne_panic {α β : Type} {f : α → Scorer.Outcome β} (hf : ∀ x, f x ≠ .panic) :
    ∀ (xs : List α), mapO f xs ≠ .panic := by
  intro xs
  induction xs with
  | nil => simp [mapO]
  | cons x xs ih =>
    simp only [mapO]
    cases hx : f x with
    | panic => exact absurd hx (hf x)
    | err => simp
    | ok y =>
      simp only
      cases hm : mapO f xs with
      | panic => exact absurd hm ih
      | err => simp
      | ok ys => simp

theorem lookupVec_lt {v : List Nat} : ∀ {m : List (List Nat)} {i : Nat},
    lookupVec v m = some i → i < m.length := by
  intro m i h
  have := lookupVec_getElem h
  exact (List.getElem?_eq_some_iff.1 this).1

theorem internVec_le {m m' : List (List Nat)} {v : List Nat} {id : Nat}
    (h : internVec m v = (m', id)) : id ≤ m.length ∧ m'.length ≤ m.length + 1 := by
  unfold internVec at h
  cases hl : lookupVec v m with
  | some j =>
    rw [hl] at h
    simp only [Prod.mk.injEq] at h
    obtain ⟨rfl, rfl⟩ := h
    have := lookupVec_lt hl
    omega
  | none =>
    rw [hl] at h
    simp only [Prod.mk.injEq] at h
    obtain ⟨rfl, rfl⟩ := h
    simp

/-- `u16::try_from(conn_id).unwrap()` cannot fail while at most `65536` distinct feature
vectors exist. -/
theorem featureMapLoop_ok (idxs : List Nat) : ∀ (rows : List (List Nat)) (cm : List Nat)
    (f0 : List (List Nat)), f0.length + rows.length ≤ 65536 →
    ∃ r, featureMapLoop idxs rows cm f0 = .ok r := by
  intro rows
  induction rows with
  | nil => intro cm f0 _; exact ⟨_, rfl⟩
  | cons row rest ih =>
    intro cm f0 hlen
    simp only [featureMapLoop]
    cases hi : internVec f0 (project idxs row) with
    | mk f1 id =>
      obtain ⟨h1, h2⟩ := internVec_le hi
      simp only [List.length_cons] at hlen
      simp only
      rw [if_pos (by omega)]
      exact ih _ _ (by omega)

theorem createMatrix_ne_panic (rightRows leftRows : List (List Nat)) (matrixIdx : List Nat) (K : Nat)
    (scorer : Scorer) (hs : RetrOK scorer) (hR : rightRows.length ≤ 65535) (hL : leftRows.length ≤ 65535) :
    createMatrix true false rightRows leftRows matrixIdx K scorer ≠ .panic := by
  unfold createMatrix
  simp only [Bool.not_true, Bool.false_and, Bool.false_eq_true, if_false, if_true]
  obtain ⟨⟨rmap, rfeats⟩, hr⟩ := featureMapLoop_ok matrixIdx rightRows [0]
    [List.replicate matrixIdx.length 0] (by simp; omega)
  obtain ⟨⟨lmap, lfeats⟩, hl⟩ := featureMapLoop_ok matrixIdx leftRows [0]
    [List.replicate matrixIdx.length 0] (by simp; omega)
  rw [hr]
  simp only
  rw [hl]
  simp only
  split
  · simp
  · simp
  · rename_i hp
    refine absurd hp (mapO_ne_panic (fun lf => mapO_ne_panic (fun rf => ?_) _) _)
    obtain ⟨x, hx⟩ := accumulate_false_ok scorer hs (toSimdVecPad INVALID rf.length rf)
      (toSimdVecPad INVALID lf.length lf)
    simp only [hx]
    simp

/-- **`DualConnector::from_readers` is total** (repaired tree, wrapping arithmetic) for at most
65535 cost lines and at most 65535 lines in `bigram.right` / `bigram.left`, whatever template
split the greedy search returns. -/
theorem dual_fromReaders_ne_panic (split : List Nat) (right left cost : List (Option Str))
    (hR : LinesOK right) (hL : LinesOK left) (hC : cost.length ≤ 65535)
    (hRn : right.length ≤ 65535) (hLn : left.length ≤ 65535) :
    DualConnector.fromReaders true false csvRow split right left cost ≠ .panic := by
  unfold DualConnector.fromReaders
  have hb := builderFromReaders_ne_panic right left cost hR hL (by unfold INVALID; omega)
  cases hbo : builderFromReaders csvRow right left cost with
  | panic => exact absurd hbo hb
  | err => simp
  | ok b =>
    obtain ⟨t1, t2, t3, t4⟩ := builder_trie hbo (by unfold INVALID; omega)
    have hbc := buildChecked_ne_panic b.trie t1 (by omega)
    simp only [true_and]
    by_cases hK : b.K = 0
    · simp [hK]
    · rw [if_neg hK]
      cases hsc : buildChecked b.trie with
      | panic => exact absurd hsc hbc
      | err => simp
      | ok scorer =>
        have hsc' := buildChecked_ok hsc
        have hcm := createMatrix_ne_panic b.rightRows b.leftRows (matrixIndices b.K split) b.K scorer
          (hsc' ▸ retrOK_build b.trie t1) (by omega) (by omega)
        simp only
        cases hcmx : createMatrix true false b.rightRows b.leftRows (matrixIndices b.K split) b.K scorer with
        | panic => exact absurd hcmx hcm
        | err => simp
        | ok m =>
          obtain ⟨matrix, rmap, lmap⟩ := m
          have htp := tsize_pruneTrie b.trie (rawLanes true (rawIndices b.K split) b.rightRows)
            (rawLanes true (rawIndices b.K split) b.leftRows)
          have hpr := buildChecked_ne_panic
            (pruneTrie b.trie (rawLanes true (rawIndices b.K split) b.rightRows)
              (rawLanes true (rawIndices b.K split) b.leftRows))
            (trieOK_pruneTrie t1 _ _) (by omega)
          simp only
          cases hpx : buildChecked (pruneTrie b.trie (rawLanes true (rawIndices b.K split) b.rightRows)
              (rawLanes true (rawIndices b.K split) b.leftRows)) with
          | panic => exact absurd hpx hpr
          | err => simp
          | ok rs => simp

end Vibrato.Bigram

/-! ### 2f. The whole builder -/

namespace Vibrato.Bigram
open Vibrato.Scorer Vibrato.RawConnector

/-- Number of lines `BufRead::lines()` yields for a file. -/
def lineCount (bytes : List UInt8) : Nat := (RawConnector.splitLines bytes []).length

theorem readLines_length (bytes : List UInt8) : (readLines bytes).length = lineCount bytes := by
  simp [readLines, lineCount]

theorem splitLines_length_le : ∀ (bytes cur : List UInt8),
    (RawConnector.splitLines bytes cur).length ≤ bytes.length + (if cur.isEmpty then 0 else 1) := by
  intro bytes
  induction bytes with
  | nil => intro cur; simp only [RawConnector.splitLines]; split <;> simp
  | cons b rest ih =>
    intro cur
    simp only [RawConnector.splitLines]
    split
    · have := ih []
      simp only [List.length_cons, List.isEmpty_nil, if_true] at this ⊢
      split <;> omega
    · have := ih (b :: cur)
      simp only [List.length_cons, List.isEmpty_cons] at this ⊢
      split <;> simp_all <;> omega

/-- A file has at most as many lines as bytes. -/
theorem lineCount_le (bytes : List UInt8) : lineCount bytes ≤ bytes.length := by
  have := splitLines_length_le bytes []
  simpa [lineCount] using this

theorem buildConn_ne_panic (split : Option (List Nat)) (right left cost : List UInt8) (dual : Bool)
    (hC : lineCount cost ≤ 65535)
    (hD : dual = true → lineCount right ≤ 65535 ∧ lineCount left ≤ 65535) :
    buildConn true false split right left cost dual ≠ .panic := by
  unfold buildConn
  simp only
  cases dual with
  | true =>
    simp only [if_true]
    rw [dualFromReaders_eq]
    obtain ⟨h1, h2⟩ := hD rfl
    have := dual_fromReaders_ne_panic (chooseSplit split (readLines right) (readLines left) (readLines cost))
      (readLines right) (readLines left) (readLines cost) (readLines_ok _) (readLines_ok _)
      (by rw [readLines_length]; exact hC) (by rw [readLines_length]; exact h1)
      (by rw [readLines_length]; exact h2)
    split
    · simp
    · simp
    · rename_i hp; exact absurd hp this
  | false =>
    simp only [Bool.false_eq_true, if_false]
    rw [rawFromReaders_eq]
    have := raw_fromReaders_ne_panic (readLines right) (readLines left) (readLines cost)
      (readLines_ok _) (readLines_ok _) (by rw [readLines_length]; exact hC)
    split
    · simp
    · simp
    · rename_i hp; exact absurd hp this

/-- **`from_readers_with_bigram_info` is total** (repaired tree, release arithmetic). -/
theorem buildBigram_ne_panic (split : Option (List Nat))
    (lex right left cost chardef unk : List UInt8) (dual : Bool)
    (hC : lineCount cost ≤ 65535)
    (hD : dual = true → lineCount right ≤ 65535 ∧ lineCount left ≤ 65535) :
    buildBigram Fixes.all false split lex right left cost chardef unk dual ≠ .panic := by
  unfold buildBigram
  have hconn := buildConn_ne_panic split right left cost dual hC hD
  split
  · simp
  · rename_i h; exact absurd h (C10.parseLexCsv_ne_panic lex)
  · split
    · simp
    · rename_i h; exact absurd h hconn
    · split
      · simp
      · rename_i h; exact absurd h (C10.chardef_parse_ne_panic chardef)
      · split
        · simp
        · rename_i h; exact absurd h (C10.parseLexCsv_ne_panic unk)
        · split
          · simp
          · split
            · simp
            · split
              · simp
              · split <;> simp

end Vibrato.Bigram

/-! ## Part 3: the cost function is defined on the whole table -/

namespace Vibrato.Bigram
open Vibrato.Scorer Vibrato.RawConnector Vibrato.DualConnector

/-! ### 3a. Raw connector -/

theorem featureIds_ok (ids : List U31x8) (fts id : Nat) (h : id < numIds ids fts) (h16 : id < 65535) :
    ∃ x, featureIds ids fts id = .ok x := by
  unfold numIds at h
  unfold featureIds
  rw [if_neg (by omega)]
  have h2 : (id + 1) * fts ≤ ids.length :=
    Nat.le_trans (Nat.mul_le_mul_right _ h) (Nat.div_mul_le_self _ _)
  rw [if_neg (by omega)]
  exact ⟨_, rfl⟩

theorem raw_fromReaders_scorer {fixed : Bool} {right left cost : List (Option Str)} {c : RawConnector.Conn}
    (h : RawConnector.fromReaders fixed csvRow right left cost = .ok c) (hC : cost.length < INVALID) :
    RetrOK c.scorer := by
  unfold RawConnector.fromReaders at h
  cases hbo : builderFromReaders csvRow right left cost with
  | panic => rw [hbo] at h; cases h
  | err => rw [hbo] at h; cases h
  | ok b =>
    rw [hbo] at h
    simp only at h
    obtain ⟨t1, _, _, _⟩ := builder_trie hbo hC
    split at h
    · split at h <;> cases h
    · cases hsc : buildChecked b.trie with
      | panic => rw [hsc] at h; cases h
      | err => rw [hsc] at h; cases h
      | ok scorer =>
        rw [hsc] at h
        simp only [Scorer.Outcome.ok.injEq] at h
        subst h
        simp only
        rw [buildChecked_ok hsc]
        exact retrOK_build b.trie t1

/-- `RawConnector::cost` (wrapping arithmetic) is defined for all ids inside the connector
below `u16::MAX`. -/
theorem rawCost_false_ok {fixed : Bool} {right left cost : List (Option Str)} {c : RawConnector.Conn}
    (h : RawConnector.fromReaders fixed csvRow right left cost = .ok c) (hC : cost.length < INVALID)
    (r l : Nat) (hr : r < numIds c.rightFeatIds c.fts) (hl : l < numIds c.leftFeatIds c.fts)
    (hr16 : r < 65535) (hl16 : l < 65535) : ∃ x, rawCost false c r l = .ok x := by
  unfold rawCost
  obtain ⟨rs, hrs⟩ := featureIds_ok c.rightFeatIds c.fts r hr hr16
  obtain ⟨ls, hls⟩ := featureIds_ok c.leftFeatIds c.fts l hl hl16
  rw [hrs, hls]
  exact accumulate_false_ok c.scorer (raw_fromReaders_scorer h hC) rs ls

/-- At `u16::MAX` the slice bounds `usize::from(id + 1) * feat_template_size` overflow `u16`:
`RawConnector::cost` panics, whatever the connector. -/
theorem rawCost_panics_at_u16_max (oc : Bool) (c : RawConnector.Conn) (l : Nat) :
    rawCost oc c 65535 l = .panic ∧
      (l < 65535 → l < numIds c.rightFeatIds c.fts → rawCost oc c l 65535 = .panic) := by
  constructor
  · simp [rawCost, featureIds]
  · intro h1 h2
    unfold rawCost
    obtain ⟨x, hx⟩ := featureIds_ok c.rightFeatIds c.fts l h2 h1
    rw [hx]
    simp [featureIds]

/-! ### 3b. Dual connector -/

theorem featureMapLoop_ids (idxs : List Nat) (rows : List (List Nat)) (z : List Nat)
    {cm : List Nat} {feats : List (List Nat)}
    (h : featureMapLoop idxs rows [0] [z] = .ok (cm, feats)) :
    cm.length = rows.length + 1 ∧ ∀ x ∈ cm, x < feats.length := by
  obtain ⟨i1, i2, i3, i4⟩ := featureMapLoop_spec idxs rows [0] [z] cm feats h
  refine ⟨by simpa [Nat.add_comm] using i1, ?_⟩
  intro x hx
  obtain ⟨j, hj, rfl⟩ := List.mem_iff_getElem.1 hx
  cases j with
  | zero =>
    have h0 := i2 0 0 (by simp)
    have hf := i3 0 z (by simp)
    have : cm[0] = 0 := by
      have := List.getElem?_eq_getElem hj
      rw [h0] at this
      exact (Option.some.inj this).symm
    rw [this]
    exact (List.getElem?_eq_some_iff.1 hf).1
  | succ j =>
    have hjr : j < rows.length := by simp at i1; omega
    obtain ⟨id, a, b⟩ := i4 j rows[j] (List.getElem?_eq_getElem hjr)
    simp only [List.length_singleton] at a
    have : cm[j + 1] = id := by
      have h2 := List.getElem?_eq_getElem hj
      rw [Nat.add_comm] at a
      rw [a] at h2
      exact (Option.some.inj h2).symm
    rw [this]
    exact (List.getElem?_eq_some_iff.1 b).1

theorem createMatrix_struct {fixed oc : Bool} {rightRows leftRows : List (List Nat)} {matrixIdx : List Nat}
    {K : Nat} {scorer : Scorer} {m : DualConnector.Matrix} {rmap lmap : List Nat}
    (h : createMatrix fixed oc rightRows leftRows matrixIdx K scorer = .ok (m, rmap, lmap)) :
    rmap.length = rightRows.length + 1 ∧ lmap.length = leftRows.length + 1 ∧
      m.data.length = m.numLeft * m.numRight ∧
      (∀ x ∈ rmap, x < m.numRight) ∧ (∀ x ∈ lmap, x < m.numLeft) := by
  unfold createMatrix at h
  split at h
  · cases h
  · simp only at h
    split at h
    · rename_i rmap' rfeats hr
      split at h
      · rename_i lmap' lfeats hl
        split at h
        · rename_i rowsM hm
          simp only [Scorer.Outcome.ok.injEq, Prod.mk.injEq] at h
          obtain ⟨rfl, rfl, rfl⟩ := h
          obtain ⟨r1, r2⟩ := featureMapLoop_ids _ _ _ hr
          obtain ⟨l1, l2⟩ := featureMapLoop_ids _ _ _ hl
          refine ⟨r1, l1, ?_, r2, l2⟩
          obtain ⟨m1, m2⟩ := mapO_spec _ _ _ hm
          simp only
          rw [length_flatten_uniform rfeats.length rowsM, m1]
          intro row hrow
          obtain ⟨i, hi, rfl⟩ := List.mem_iff_getElem.1 hrow
          have hil : i < lfeats.length := by omega
          obtain ⟨y, hy, hfy⟩ := m2 i lfeats[i] (List.getElem?_eq_getElem hil)
          rw [List.getElem?_eq_getElem hi] at hy
          cases hy
          exact (mapO_spec _ _ _ hfy).1
        · cases h
        · cases h
      · cases h
      · cases h
    · cases h
    · cases h

/-- The raw lanes of the repaired code are 8-lane blocks, one for the BOS/EOS id and one per
row, when at most 8 raw templates were chosen. -/
theorem rawLanes_simd (rawIdx : List Nat) (rows : List (List Nat)) (h8 : rawIdx.length ≤ 8) :
    (toSimdVecPad INVALID (rawLanes true rawIdx rows).length (rawLanes true rawIdx rows)).length =
      rows.length + 1 := by
  have hL : rawLanes true rawIdx rows =
      ((List.replicate rawIdx.length 0 ++ List.replicate (SIMD_SIZE - rawIdx.length) INVALID) ::
        rows.map fun row => project rawIdx row ++ List.replicate (SIMD_SIZE - rawIdx.length) INVALID).flatten := by
    simp [rawLanes]
  rw [hL, toSimdVecPad_rows8]
  · simp
  · intro row hrow
    rcases List.mem_cons.1 hrow with rfl | hrow
    · simp [SIMD_SIZE]; omega
    · obtain ⟨r0, _, rfl⟩ := List.mem_map.1 hrow
      simp [project, SIMD_SIZE]; omega

/-- A split that leaves at most `SIMD_SIZE` raw templates (what `SIMD_SIZE` greedy rounds do). -/
def SplitOK (split : List Nat) : Prop := ∀ K, (rawIndices K split).length ≤ 8

theorem dual_fromReaders_struct {oc : Bool} {split : List Nat} {right left cost : List (Option Str)}
    {c : DualConnector.Conn}
    (h : DualConnector.fromReaders true oc csvRow split right left cost = .ok c)
    (hC : cost.length < INVALID) (hs : SplitOK split) :
    RetrOK c.rawScorer ∧ c.rightFeatIds.length = c.rightConnIdMap.length ∧
      c.leftFeatIds.length = c.leftConnIdMap.length ∧
      c.matrix.data.length = c.matrix.numLeft * c.matrix.numRight ∧
      (∀ x ∈ c.rightConnIdMap, x < c.matrix.numRight) ∧ (∀ x ∈ c.leftConnIdMap, x < c.matrix.numLeft) ∧
      DualConnector.numRight c = right.length + 1 ∧ DualConnector.numLeft c = left.length + 1 := by
  unfold DualConnector.fromReaders at h
  cases hbo : builderFromReaders csvRow right left cost with
  | panic => rw [hbo] at h; cases h
  | err => rw [hbo] at h; cases h
  | ok b =>
    rw [hbo] at h
    obtain ⟨t1, _, t3, t4⟩ := builder_trie hbo hC
    simp only [true_and] at h
    by_cases hK : b.K = 0
    · simp [hK] at h
    · rw [if_neg hK] at h
      cases hsc : buildChecked b.trie with
      | panic => rw [hsc] at h; cases h
      | err => rw [hsc] at h; cases h
      | ok scorer =>
        rw [hsc] at h
        simp only at h
        cases hcm : createMatrix true oc b.rightRows b.leftRows (matrixIndices b.K split) b.K scorer with
        | panic => rw [hcm] at h; cases h
        | err => rw [hcm] at h; cases h
        | ok m =>
          obtain ⟨matrix, rmap, lmap⟩ := m
          rw [hcm] at h
          simp only at h
          cases hpx : buildChecked (pruneTrie b.trie (rawLanes true (rawIndices b.K split) b.rightRows)
              (rawLanes true (rawIndices b.K split) b.leftRows)) with
          | panic => rw [hpx] at h; cases h
          | err => rw [hpx] at h; cases h
          | ok rs =>
            rw [hpx] at h
            simp only [if_true, Scorer.Outcome.ok.injEq] at h
            subst h
            obtain ⟨c1, c2, c3, c4, c5⟩ := createMatrix_struct hcm
            refine ⟨?_, ?_, ?_, c3, c4, c5, by simp only [DualConnector.numRight]; omega,
              by simp only [DualConnector.numLeft]; omega⟩
            · simp only
              rw [buildChecked_ok hpx]
              exact retrOK_build _ (trieOK_pruneTrie t1 _ _)
            · simp only
              rw [rawLanes_simd _ _ (hs b.K), c1]
            · simp only
              rw [rawLanes_simd _ _ (hs b.K), c2]

/-- `DualConnector::cost` (wrapping arithmetic) is defined for all ids inside the connector. -/
theorem dualCost_false_ok {oc : Bool} {split : List Nat} {right left cost : List (Option Str)}
    {c : DualConnector.Conn}
    (h : DualConnector.fromReaders true oc csvRow split right left cost = .ok c)
    (hC : cost.length < INVALID) (hs : SplitOK split)
    (r l : Nat) (hr : r < DualConnector.numRight c) (hl : l < DualConnector.numLeft c) :
    ∃ x, dualCost false c r l = .ok x := by
  obtain ⟨s1, s2, s3, s4, s5, s6, _, _⟩ := dual_fromReaders_struct h hC hs
  unfold DualConnector.numRight at hr
  unfold DualConnector.numLeft at hl
  unfold dualCost
  rw [List.getElem?_eq_getElem hr, List.getElem?_eq_getElem hl]
  simp only
  have hrc := s5 _ (List.getElem_mem hr)
  have hlc := s6 _ (List.getElem_mem hl)
  have hidx : c.leftConnIdMap[l] * c.matrix.numRight + c.rightConnIdMap[r] < c.matrix.data.length := by
    rw [s4]
    calc c.leftConnIdMap[l] * c.matrix.numRight + c.rightConnIdMap[r]
        < c.leftConnIdMap[l] * c.matrix.numRight + c.matrix.numRight := by omega
      _ = (c.leftConnIdMap[l] + 1) * c.matrix.numRight := by rw [Nat.add_mul, Nat.one_mul]
      _ ≤ c.matrix.numLeft * c.matrix.numRight := Nat.mul_le_mul_right _ hlc
  unfold matrixCost
  rw [List.getElem?_eq_getElem hidx]
  simp only
  rw [List.getElem?_eq_getElem (s2 ▸ hr), List.getElem?_eq_getElem (s3 ▸ hl)]
  simp only
  obtain ⟨x, hx⟩ := accumulate_false_ok c.rawScorer s1 [c.rightFeatIds[r]'(s2 ▸ hr)] [c.leftFeatIds[l]'(s3 ▸ hl)]
  rw [hx]
  exact addI32_false_ok _ _

end Vibrato.Bigram

/-! ### 3c. The template split -/

namespace Vibrato.Bigram
open Vibrato.Scorer Vibrato.RawConnector Vibrato.DualConnector

theorem splitOK_of_length {split : List Nat} (h : split.length ≤ 8) : SplitOK split := by
  intro K
  unfold rawIndices
  have hnd : ((List.range K).filter fun i => split.contains i).Nodup :=
    List.Nodup.sublist List.filter_sublist List.nodup_range
  have hsub : ((List.range K).filter fun i => split.contains i) ⊆ split := by
    intro x hx
    simp only [List.mem_filter, List.contains_iff_mem] at hx
    exact hx.2
  exact Nat.le_trans (List.Nodup.length_le_of_subset hnd hsub) h

theorem greedyLoop_removed (R L : List (List Nat)) (K : Nat) : ∀ (n : Nat) (m : List Nat),
    ((List.range K).filter fun i => !(greedyLoop R L n m).contains i).length ≤
      ((List.range K).filter fun i => !m.contains i).length + n := by
  intro n
  induction n with
  | zero => intro m; simp [greedyLoop]
  | succ n ih =>
    intro m
    simp only [greedyLoop]
    have h1 := ih (m.erase (greedyCandidate m R L))
    have hnd : ((List.range K).filter fun i => !(m.erase (greedyCandidate m R L)).contains i).Nodup :=
      List.Nodup.sublist List.filter_sublist List.nodup_range
    have hsub : ((List.range K).filter fun i => !(m.erase (greedyCandidate m R L)).contains i) ⊆
        greedyCandidate m R L :: ((List.range K).filter fun i => !m.contains i) := by
      intro x hx
      simp only [List.mem_filter, List.mem_range, Bool.not_eq_eq_eq_not, Bool.not_true,
        List.contains_eq_mem, decide_eq_false_iff_not] at hx
      by_cases hxc : x = greedyCandidate m R L
      · rw [hxc]; exact List.mem_cons_self
      · apply List.mem_cons_of_mem
        simp only [List.mem_filter, List.mem_range, Bool.not_eq_eq_eq_not, Bool.not_true,
          List.contains_eq_mem, decide_eq_false_iff_not]
        refine ⟨hx.1, ?_⟩
        intro hm
        exact hx.2 ((List.mem_erase_of_ne hxc).2 hm)
    have h2 := List.Nodup.length_le_of_subset hnd hsub
    simp only [List.length_cons] at h2
    omega

/-- `SIMD_SIZE` greedy rounds move at most `SIMD_SIZE` templates to the raw part. -/
theorem greedySplit_ok (K : Nat) (R L : List (List Nat)) : SplitOK (greedySplit K R L) := by
  apply splitOK_of_length
  unfold greedySplit
  have := greedyLoop_removed R L K SIMD_SIZE (List.range K)
  have h0 : ((List.range K).filter fun i => !(List.range K).contains i) = [] := by
    rw [List.filter_eq_nil_iff]
    intro x hx
    simp [List.mem_range.1 hx]
  rw [h0] at this
  simpa [SIMD_SIZE] using this

theorem chooseSplit_ok (split : Option (List Nat)) (right left cost : List (Option Str))
    (h : ∀ s, split = some s → s.length ≤ 8) : SplitOK (chooseSplit split right left cost) := by
  unfold chooseSplit
  split
  · rename_i s; exact splitOK_of_length (h s rfl)
  · split
    · exact greedySplit_ok _ _ _
    · exact splitOK_of_length (by simp)

/-! ### 3d. The cost table of a built dictionary -/

theorem buildConn_raw {fixed oc : Bool} {split : Option (List Nat)} {right left cost : List UInt8}
    {c : Conn} (h : buildConn fixed oc split right left cost false = .ok c) :
    ∃ rc, c = .raw rc ∧
      RawConnector.fromReaders fixed csvRow (readLines right) (readLines left) (readLines cost) = .ok rc := by
  unfold buildConn at h
  simp only [Bool.false_eq_true, if_false, rawFromReaders_eq] at h
  split at h
  · rename_i rc hrc
    cases h
    exact ⟨rc, rfl, hrc⟩
  · cases h
  · cases h

theorem buildConn_dual {fixed oc : Bool} {split : Option (List Nat)} {right left cost : List UInt8}
    {c : Conn} (h : buildConn fixed oc split right left cost true = .ok c) :
    ∃ dc, c = .dual dc ∧
      DualConnector.fromReaders fixed oc csvRow
        (chooseSplit split (readLines right) (readLines left) (readLines cost))
        (readLines right) (readLines left) (readLines cost) = .ok dc := by
  unfold buildConn at h
  simp only [if_true, dualFromReaders_eq] at h
  split at h
  · rename_i dc hdc
    cases h
    exact ⟨dc, rfl, hdc⟩
  · cases h
  · cases h

/-- **The connector of an accepted dictionary has a cost for every pair of its table**
(repaired tree, wrapping arithmetic; raw connector: ids below `u16::MAX`). -/
theorem conn_cost_total {oc : Bool} {split : Option (List Nat)} {right left cost : List UInt8}
    {dual : Bool} {c : Conn}
    (h : buildConn true oc split right left cost dual = .ok c)
    (hC : lineCount cost < 2147483647) (hs : ∀ s, split = some s → s.length ≤ 8)
    (r l : Nat) (hr : r < c.numRight) (hl : l < c.numLeft)
    (h16 : dual = false → r < 65535 ∧ l < 65535) : ∃ x, c.cost false r l = .ok x := by
  have hC' : (readLines cost).length < INVALID := by rw [readLines_length]; exact hC
  cases dual with
  | false =>
    obtain ⟨rc, rfl, hrc⟩ := buildConn_raw h
    obtain ⟨a, b⟩ := h16 rfl
    exact rawCost_false_ok hrc hC' r l hr hl a b
  | true =>
    obtain ⟨dc, rfl, hdc⟩ := buildConn_dual h
    exact dualCost_false_ok hdc hC' (chooseSplit_ok split _ _ _ hs) r l hr hl

theorem costRow_ok (oc : Bool) (c : Conn) (r : Nat) : ∀ (ls : List Nat),
    (∀ l ∈ ls, ∃ x, c.cost oc r l = .ok x) → ∃ xs, costRow oc c r ls = .ok xs := by
  intro ls
  induction ls with
  | nil => intro _; exact ⟨[], rfl⟩
  | cons l ls ih =>
    intro h
    obtain ⟨x, hx⟩ := h l List.mem_cons_self
    obtain ⟨xs, hxs⟩ := ih fun l' hl' => h l' (List.mem_cons_of_mem _ hl')
    exact ⟨x :: xs, by simp [costRow, hx, hxs]⟩

theorem costRows_ok (oc : Bool) (c : Conn) (nl : Nat) : ∀ (rs : List Nat),
    (∀ r ∈ rs, ∀ l, l < nl → ∃ x, c.cost oc r l = .ok x) → ∃ t, costRows oc c nl rs = .ok t := by
  intro rs
  induction rs with
  | nil => intro _; exact ⟨[], rfl⟩
  | cons r rs ih =>
    intro h
    obtain ⟨row, hrow⟩ := costRow_ok oc c r (List.range nl)
      (fun l hl => h r List.mem_cons_self l (List.mem_range.1 hl))
    obtain ⟨t, ht⟩ := ih fun r' hr' => h r' (List.mem_cons_of_mem _ hr')
    exact ⟨row ++ t, by simp [costRows, hrow, ht]⟩

/-- The table entry `r * numLeft + l` is `Connector::cost(r, l)`. -/
theorem costRows_entry (oc : Bool) (c : Conn) (nl : Nat) : ∀ (rs : List Nat) (t : List Int),
    costRows oc c nl rs = .ok t → ∀ (i r l : Nat), rs[i]? = some r → l < nl →
      ∃ x, t[i * nl + l]? = some x ∧ c.cost oc r l = .ok x := by
  intro rs
  induction rs with
  | nil => intro t _ i r l hi; simp at hi
  | cons r0 rs ih =>
    intro t h i r l hi hl
    simp only [costRows] at h
    cases hr : costRow oc c r0 (List.range nl) with
    | err => rw [hr] at h; cases h
    | panic => rw [hr] at h; cases h
    | ok row =>
      rw [hr] at h
      simp only at h
      cases hrs : costRows oc c nl rs with
      | err => rw [hrs] at h; cases h
      | panic => rw [hrs] at h; cases h
      | ok rest =>
        rw [hrs] at h
        simp only [Outcome.ok.injEq] at h
        subst h
        obtain ⟨r1, r2⟩ := costRow_spec oc c r0 _ _ hr
        simp only [List.length_range] at r1
        cases i with
        | zero =>
          simp only [List.getElem?_cons_zero, Option.some.injEq] at hi
          subst hi
          obtain ⟨x, hx, hc⟩ := r2 l l (by simp [hl])
          refine ⟨x, ?_, hc⟩
          rw [Nat.zero_mul, Nat.zero_add, List.getElem?_append_left (by omega)]
          exact hx
        | succ i =>
          simp only [List.getElem?_cons_succ] at hi
          obtain ⟨x, hx, hc⟩ := ih rest hrs i r l hi hl
          refine ⟨x, ?_, hc⟩
          rw [List.getElem?_append_right (by rw [r1, Nat.succ_mul]; omega)]
          rw [r1]
          have : (i + 1) * nl + l - nl = i * nl + l := by rw [Nat.succ_mul]; omega
          rw [this]
          exact hx

end Vibrato.Bigram

/-! ### 3e. Dimensions, the whole table, and the generalised safety statement -/

namespace Vibrato.Bigram
open Vibrato.Scorer Vibrato.RawConnector Vibrato.DualConnector

/-- `num_right` / `num_left` of the connector: one more than the number of lines of
`bigram.right` / `bigram.left` (id 0 is BOS/EOS). -/
theorem buildConn_dims {oc : Bool} {split : Option (List Nat)} {right left cost : List UInt8}
    {dual : Bool} {c : Conn}
    (h : buildConn true oc split right left cost dual = .ok c)
    (hC : lineCount cost < 2147483647) (hs : ∀ s, split = some s → s.length ≤ 8) :
    c.numRight = lineCount right + 1 ∧ c.numLeft = lineCount left + 1 := by
  have hC' : (readLines cost).length < INVALID := by rw [readLines_length]; exact hC
  cases dual with
  | false =>
    obtain ⟨rc, rfl, hrc⟩ := buildConn_raw h
    obtain ⟨es, rfs, lfs, _, h2, h3, h4, h5, _⟩ :=
      rawCost_spec true false csvRow _ _ _ rc (by omega) hrc
    have a := featLines_length csvRow _ 0 rfs h2
    have b := featLines_length csvRow _ 0 lfs h3
    rw [readLines_length] at a b
    simp only [Conn.numRight, Conn.numLeft]
    omega
  | true =>
    obtain ⟨dc, rfl, hdc⟩ := buildConn_dual h
    obtain ⟨_, _, _, _, _, _, a, b⟩ := dual_fromReaders_struct hdc hC' (chooseSplit_ok split _ _ _ hs)
    rw [readLines_length] at a b
    exact ⟨a, b⟩

/-- The whole cost table of an accepted dictionary can be evaluated. -/
theorem table_ok {split : Option (List Nat)} {lex right left cost chardef unk : List UInt8}
    {dual : Bool} {B : Built}
    (h : buildBigram Fixes.all false split lex right left cost chardef unk dual = .ok B)
    (hC : lineCount cost < 2147483647) (hs : ∀ s, split = some s → s.length ≤ 8)
    (h16 : dual = false → lineCount right ≤ 65534 ∧ lineCount left ≤ 65534) :
    ∃ t, B.table false = .ok t := by
  obtain ⟨hconn, _⟩ := buildBigram_spec h
  have hconn' : buildConn true false split right left cost dual = .ok B.conn := hconn
  obtain ⟨d1, d2⟩ := buildConn_dims hconn' hC hs
  unfold Built.table
  apply costRows_ok
  intro r hr l hl
  have hr' : r < B.conn.numRight := List.mem_range.1 hr
  apply conn_cost_total hconn' hC hs r l hr' hl
  intro hd
  obtain ⟨a, b⟩ := h16 hd
  unfold Built.numLeft at hl
  omega

end Vibrato.Bigram

namespace Vibrato

theorem cost_le_of_conn_le {D : DictM} {C : Int} (h : ∀ x ∈ D.conn, x ≤ C) (h0 : 0 ≤ C) (r l : Nat) :
    D.cost r l ≤ C := by
  unfold DictM.cost
  rw [List.getD_eq_getElem?_getD]
  cases hx : D.conn[r * D.numLeft + l]? with
  | none => simpa using h0
  | some x => exact h x (List.mem_of_getElem? hx)

theorem dictOK_of_wfc {C : Int} {D : DictM} (hD : DictWFc C D) : DictOK D.tokDict C 32767 := by
  refine ⟨?_, ?_, ?_, ?_, hD.C_nonneg, by decide⟩
  · intro r l; exact cost_le_of_conn_le hD.conn_le hD.C_nonneg r l
  · intro e he; exact (hD.sys_ok.1 e he).2.2.2
  · intro u hu e he
    simp only [DictM.tokDict, Option.map_eq_some_iff] at hu
    obtain ⟨u0, hu0, rfl⟩ := hu
    exact ((hD.user_ok u0 hu0).1 e he).2.2.2
  · intro b p hp
    obtain ⟨e, he, _, hep⟩ := C10.unkOf_mem hp
    rw [← hep]
    exact (hD.unk_ok e (List.mem_of_getElem? he)).1.2.2.2

end Vibrato

/-! ### 3f. `DictWFc` is preserved by the public mutations

The proofs are those of `C10.mapIds_spec` / `C10.resetUser_spec` (`Proofs/BuildersDict.lean`)
with the `i16` clause of the connection costs replaced by the bound `C`: neither function looks at
the values of the table (`map_connection_ids` permutes them). -/

namespace Vibrato
namespace C10

theorem mapIds_spec_c {C : Int} {D : DictM} (hD : DictWFc C D) (lmap rmap : List Nat) :
    D.mapIds Fixes.all lmap rmap ≠ .panic ∧
      ∀ D', D.mapIds Fixes.all lmap rmap = .ok D' →
        DictWFc C D' ∧ D'.numLeft = D.numLeft ∧ D'.numRight = D.numRight ∧ D'.chars = D.chars := by
  unfold DictM.mapIds
  split
  · rename_i ml mr hml hmr
    obtain ⟨l1, l2⟩ := parseMap_spec hml
    obtain ⟨r1, r2⟩ := parseMap_spec hmr
    simp only [Fixes.all, true_and]
    split
    · simp
    · rename_i hlen
      have hlen' : ml.length = D.numLeft ∧ mr.length = D.numRight := by
        constructor
        · apply Classical.byContradiction; intro hc; exact hlen (Or.inl hc)
        · apply Classical.byContradiction; intro hc; exact hlen (Or.inr hc)
      obtain ⟨hL, hR⟩ := hlen'
      have hmlv : ∀ x ∈ ml, x < D.numLeft := fun x hx => hL ▸ l2 x hx
      have hmrv : ∀ x ∈ mr, x < D.numRight := fun x hx => hR ▸ r2 x hx
      split
      · rename_i hnone
        obtain ⟨L', hL'⟩ := mapLex_isSome (lexWF_in_range hD.sys_ok hL hR)
        rw [hL'] at hnone; cases hnone
      · rename_i sys' hsys
        split
        · rename_i hnone
          exfalso
          cases hu : D.user with
          | none => rw [hu] at hnone; cases hnone
          | some u =>
            rw [hu] at hnone
            obtain ⟨L', hL'⟩ := mapLex_isSome (lexWF_in_range (hD.user_ok u hu) hL hR)
            simp [hL'] at hnone
        · rename_i user' huser
          split
          · rename_i hnone
            exfalso
            obtain ⟨out, hout⟩ := mapM_isSome (f := fun e : UnkEntryM =>
                (mapParam ml mr e.param).map fun p => { e with param := p }) (l := D.unk) (by
              intro e he
              have := (hD.unk_ok e he).1
              rw [mapParam_some (hL ▸ this.1) (hR ▸ this.2.1)]
              exact ⟨_, rfl⟩)
            rw [hout] at hnone; cases hnone
          · rename_i unk' hunk
            refine ⟨by simp, ?_⟩
            intro D' hD'
            cases hD'
            refine ⟨⟨?_, ?_, hD.C_nonneg, ?_, ?_, ?_, ?_, ?_, hD.chars_ok⟩, rfl, rfl, rfl⟩
            · dsimp only
              rw [length_flatMap_const _ _ D.numLeft (by simp)]
              simp
            · dsimp only
              intro x hx
              simp only [List.mem_flatMap, List.mem_map] at hx
              obtain ⟨r, _, l, _, rfl⟩ := hx
              exact cost_le_of_conn_le hD.conn_le hD.C_nonneg r l
            · exact mapLex_wf hmlv hmrv hD.sys_ok hsys
            · intro hnil
              have := (mapLex_spec hsys).2.1
              rw [show sys'.entries = [] from hnil] at this
              exact hD.sys_ne (List.length_eq_zero_iff.mp this.symm)
            · dsimp only
              intro u hu
              subst hu
              cases hdu : D.user with
              | none => rw [hdu] at huser; cases huser
              | some u0 =>
                rw [hdu] at huser
                simp only [Option.map_eq_some_iff, Option.some.injEq] at huser
                obtain ⟨u1, hu1, rfl⟩ := huser
                exact mapLex_wf hmlv hmrv (hD.user_ok u0 hdu) hu1
            · dsimp only
              intro e' he'
              obtain ⟨e, he, hee⟩ := mapM_some_mem hunk e' he'
              simp only [Option.map_eq_some_iff] at hee
              obtain ⟨p, hp, rfl⟩ := hee
              exact ⟨mapParam_ok hmlv hmrv (hD.unk_ok e he).1.2.2 hp, (hD.unk_ok e he).2⟩
            · dsimp only
              intro sl sr hs
              simp only [Option.some.injEq] at hs
              split at hs
              · rename_i ol or hm _
                obtain ⟨o1, o2, o3, o4⟩ := hD.mapper_ok ol or hm
                cases hs
                refine ⟨by simpa using o1, by simpa using o2, ?_, ?_⟩
                · intro x hx
                  simp only [List.mem_map] at hx
                  obtain ⟨y, hy, rfl⟩ := hx
                  have hy' : y < ml.length := hL ▸ o3 y hy
                  rw [List.getD_eq_getElem?_getD, List.getElem?_eq_getElem hy']
                  exact hmlv _ (List.getElem_mem hy')
                · intro x hx
                  simp only [List.mem_map] at hx
                  obtain ⟨y, hy, rfl⟩ := hx
                  have hy' : y < mr.length := hR ▸ o4 y hy
                  rw [List.getD_eq_getElem?_getD, List.getElem?_eq_getElem hy']
                  exact hmrv _ (List.getElem_mem hy')
              · cases hs
                exact ⟨hL, hR, hmlv, hmrv⟩
  · simp



theorem resetUser_spec_c {C : Int} {D : DictM} (hD : DictWFc C D) (csv : Option (List UInt8)) :
    D.resetUser Fixes.all csv ≠ .panic ∧
      ∀ D', D.resetUser Fixes.all csv = .ok D' →
        DictWFc C D' ∧ D'.numLeft = D.numLeft ∧ D'.numRight = D.numRight ∧ D'.chars = D.chars ∧
          D'.sys = D.sys ∧ D'.conn = D.conn ∧ D'.unk = D.unk ∧ D'.mapper = D.mapper := by
  unfold DictM.resetUser
  split
  · refine ⟨by simp, ?_⟩
    intro D' hD'
    cases hD'
    refine ⟨⟨hD.conn_len, hD.conn_le, hD.C_nonneg, hD.sys_ok, hD.sys_ne, ?_, hD.unk_ok, hD.mapper_ok, hD.chars_ok⟩,
      rfl, rfl, rfl, rfl, rfl, rfl, rfl⟩
    intro u hu; cases hu
  · rename_i bytes
    split
    · simp
    · rename_i hp
      exfalso
      cases hrows : parseLexCsv Fixes.all bytes with
      | panic => exact parseLexCsv_ne_panic bytes hrows
      | err => rw [hrows] at hp; cases hp
      | ok rows =>
        rw [hrows] at hp
        simp only [Outcome.bind, Outcome.ofOption] at hp
        cases hl : lexOfRows rows <;> rw [hl] at hp <;> cases hp
    · rename_i u hu
      have hu' : ∃ rows, parseLexCsv Fixes.all bytes = .ok rows ∧ lexOfRows rows = some u := by
        cases hrows : parseLexCsv Fixes.all bytes with
        | panic => rw [hrows] at hu; cases hu
        | err => rw [hrows] at hu; cases hu
        | ok rows =>
          rw [hrows] at hu
          simp only [Outcome.bind, Outcome.ofOption] at hu
          cases hl : lexOfRows rows with
          | none => rw [hl] at hu; cases hu
          | some u' => rw [hl] at hu; cases hu; exact ⟨rows, rfl, hl⟩
      obtain ⟨rows, hrows, hlex⟩ := hu'
      simp only [Fixes.all, true_and]
      split
      · simp
      · rename_i hin
        simp only [Bool.not_eq_true, Bool.not_eq_false] at hin
        have huwf : LexWF D.numLeft D.numRight u := lexWF_of_rows (parseLexCsv_rows hrows) hlex hin
        split
        · rename_i hnone
          exfalso
          split at hnone
          · cases hnone
          · rename_i ml mr hm
            obtain ⟨o1, o2, _, _⟩ := hD.mapper_ok ml mr hm
            obtain ⟨L', hL'⟩ := mapLex_isSome (lexWF_in_range huwf o1 o2)
            rw [hL'] at hnone; cases hnone
        · rename_i u' hu'
          split
          · simp
          · rename_i hin'
            simp only [Bool.not_eq_true, Bool.not_eq_false] at hin'
            refine ⟨by simp, ?_⟩
            intro D' hD'
            cases hD'
            refine ⟨⟨hD.conn_len, hD.conn_le, hD.C_nonneg, hD.sys_ok, hD.sys_ne, ?_, hD.unk_ok, hD.mapper_ok, hD.chars_ok⟩,
              rfl, rfl, rfl, rfl, rfl, rfl, rfl⟩
            intro u2 hu2
            cases hu2
            split at hu'
            · cases hu'; exact huwf
            · rename_i ml mr hm
              obtain ⟨_, _, o3, o4⟩ := hD.mapper_ok ml mr hm
              exact mapLex_wf o3 o4 huwf hu'



end C10
end Vibrato
