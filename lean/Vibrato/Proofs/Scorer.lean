import Vibrato.Model.Scorer
/-! Helper lemmas for C07 (scorer part). -/
namespace Vibrato.Scorer

/-! ### XOR facts -/

theorem xor_cancel_left (a b : Nat) : a ^^^ (a ^^^ b) = b := by
  rw [← Nat.xor_assoc, Nat.xor_self, Nat.zero_xor]

theorem xor_left_inj {a b c : Nat} (h : a ^^^ b = a ^^^ c) : b = c := by
  have := congrArg (a ^^^ ·) h
  simpa [xor_cancel_left] using this

theorem two_pow_le_xor {k j : Nat} (h : k < 2 ^ j) : 2 ^ j ≤ 2 ^ j ^^^ k := by
  apply Nat.ge_two_pow_of_testBit
  rw [Nat.testBit_xor, Nat.testBit_two_pow, Nat.testBit_lt_two_pow h]
  simp

/-! ### The doubling loop -/

theorem pow2AboveLoop_spec (n : Nat) : ∀ (fuel p j : Nat), p = 2 ^ j → n < p * 2 ^ fuel →
    n < pow2AboveLoop n fuel p ∧ ∃ j', pow2AboveLoop n fuel p = 2 ^ j' := by
  intro fuel
  induction fuel with
  | zero => intro p j hp h; simp [pow2AboveLoop] at *; exact ⟨h, j, hp⟩
  | succ f ih =>
    intro p j hp h
    simp only [pow2AboveLoop]
    split
    · exact ⟨by assumption, j, hp⟩
    · apply ih (2 * p) (j + 1)
      · rw [hp, Nat.pow_succ]; omega
      · rw [Nat.pow_succ] at h
        calc n < p * (2 ^ f * 2) := h
          _ = 2 * p * 2 ^ f := by rw [Nat.mul_comm (2^f) 2, ← Nat.mul_assoc, Nat.mul_comm p 2]

theorem pow2Above_spec (n : Nat) : n < pow2Above n ∧ ∃ j, pow2Above n = 2 ^ j := by
  apply pow2AboveLoop_spec n n 1 0 rfl
  simpa using Nat.lt_two_pow_self

theorem lt_rowKeyBound {row : Row} {e : Nat × Int} (h : e ∈ row) : e.1 < rowKeyBound row := by
  induction row with
  | nil => cases h
  | cons x rest ih =>
    simp only [rowKeyBound]
    rcases List.mem_cons.1 h with rfl | h
    · omega
    · have := ih h; omega

/-! ### Termination of the base search -/

/-- The base `baseFuel row checks` (a power of two above all keys and above `checks.len()`) is
always free. -/
theorem checkBase_baseFuel (row : Row) (checks : List Nat) :
    checkBase (baseFuel row checks) row checks = true := by
  obtain ⟨hlt, j, hj⟩ := pow2Above_spec (max (rowKeyBound row) checks.length)
  unfold checkBase baseFuel
  rw [List.all_eq_true]
  intro e he
  have h1 : e.1 < 2 ^ j := by have := lt_rowKeyBound he; omega
  have h2 := two_pow_le_xor h1
  have h3 : checks.length ≤ pow2Above (max (rowKeyBound row) checks.length) ^^^ e.1 := by
    rw [hj]; omega
  rw [List.getElem?_eq_none h3]

theorem findBaseLoop_spec (row : Row) (checks : List Nat) :
    ∀ (fuel base : Nat), (∃ b, base ≤ b ∧ b ≤ base + fuel ∧ checkBase b row checks = true) →
      checkBase (findBaseLoop row checks fuel base) row checks = true ∧
      (∀ b, base ≤ b → b < findBaseLoop row checks fuel base → checkBase b row checks = false) ∧
      base ≤ findBaseLoop row checks fuel base ∧
      findBaseLoop row checks fuel base ≤ base + fuel := by
  intro fuel
  induction fuel with
  | zero =>
    intro base ⟨b, h1, h2, h3⟩
    have : b = base := by omega
    subst this
    simp only [findBaseLoop]
    exact ⟨h3, fun b h1 h2 => by omega, Nat.le_refl _, by omega⟩
  | succ f ih =>
    intro base ⟨b, h1, h2, h3⟩
    simp only [findBaseLoop]
    by_cases hc : checkBase base row checks = true
    · rw [if_pos hc]
      exact ⟨hc, fun b h1 h2 => by omega, Nat.le_refl _, by omega⟩
    · rw [if_neg hc]
      have hb : b ≠ base := by intro h; subst h; exact hc h3
      obtain ⟨i1, i2, i3, i4⟩ := ih (base + 1) ⟨b, by omega, by omega, h3⟩
      refine ⟨i1, ?_, by omega, by omega⟩
      intro b' hb1 hb2
      by_cases hbb : b' = base
      · subst hbb; simpa using hc
      · exact i2 b' (by omega) hb2

/-- **Termination / first-fit**: the fuel-bounded search returns the least free base. -/
theorem findBase_spec (row : Row) (checks : List Nat) :
    checkBase (findBase row checks) row checks = true ∧
    ∀ b, b < findBase row checks → checkBase b row checks = false := by
  have := findBaseLoop_spec row checks (baseFuel row checks) 0
    ⟨baseFuel row checks, Nat.zero_le _, by omega, checkBase_baseFuel row checks⟩
  exact ⟨this.1, fun b hb => this.2.1 b (Nat.zero_le _) hb⟩

theorem findBase_le (row : Row) (checks : List Nat) : findBase row checks ≤ baseFuel row checks := by
  have := findBaseLoop_spec row checks (baseFuel row checks) 0
    ⟨baseFuel row checks, Nat.zero_le _, by omega, checkBase_baseFuel row checks⟩
  unfold findBase; omega

/-! ### Virtual (infinite) views of `checks` and `costs` -/

/-- `checks[p]`, reading `UNUSED` beyond the end. -/
def chk (checks : List Nat) (p : Nat) : Nat := checks[p]?.getD UNUSED_CHECK
/-- `costs[p]`, reading `0` beyond the end. -/
def cst (costs : List Int) (p : Nat) : Int := costs[p]?.getD 0

theorem checkBase_iff (base : Nat) (row : Row) (checks : List Nat) :
    checkBase base row checks = true ↔ ∀ e ∈ row, chk checks (base ^^^ e.1) = UNUSED_CHECK := by
  unfold checkBase chk
  rw [List.all_eq_true]
  constructor
  · intro h e he
    have := h e he
    cases hc : checks[base ^^^ e.1]? <;> simp_all
  · intro h e he
    have := h e he
    cases hc : checks[base ^^^ e.1]? <;> simp_all

theorem resize_length {α : Type} (l : List α) (n : Nat) (v : α) : (resize l n v).length = n := by
  unfold resize; simp; omega

theorem getElem?_resize_ge {α : Type} (l : List α) (n : Nat) (v : α) (h : l.length ≤ n) (p : Nat) :
    (resize l n v)[p]? = if p < l.length then l[p]? else if p < n then some v else none := by
  unfold resize
  rw [List.take_of_length_le h, List.getElem?_append, List.getElem?_replicate]
  split
  · rfl
  · congr 1
    apply propext; omega

/-- One `checks[pos] = key1; costs[pos] = cost` step (with the preceding resize). -/
theorem store_spec (checks : List Nat) (costs : List Int) (pos key1 : Nat) (cost : Int)
    (hlen : checks.length = costs.length) :
    let grow : Bool := decide (pos ≥ checks.length)
    let checks1 := if grow then resize checks (pos + 1) UNUSED_CHECK else checks
    let costs1 := if grow then resize costs (pos + 1) 0 else costs
    (checks1.set pos key1).length = (costs1.set pos cost).length ∧
    pos < checks1.length ∧ pos < costs1.length ∧
    (∀ p, chk (checks1.set pos key1) p = if p = pos then key1 else chk checks p) ∧
    (∀ p, cst (costs1.set pos cost) p = if p = pos then cost else cst costs p) := by
  intro grow checks1 costs1
  by_cases hg : pos ≥ checks.length
  · have hg' : grow = true := by simp [grow, hg]
    have e1 : checks1 = resize checks (pos + 1) UNUSED_CHECK := by simp [checks1, hg']
    have e2 : costs1 = resize costs (pos + 1) 0 := by simp [costs1, hg']
    rw [e1, e2]
    refine ⟨by simp [resize_length], by simp [resize_length], by simp [resize_length], ?_, ?_⟩
    · intro p
      unfold chk
      rw [List.getElem?_set, resize_length, getElem?_resize_ge _ _ _ (by omega)]
      by_cases hp : p = pos
      · subst hp; simp
      · rw [if_neg (Ne.symm hp), if_neg hp]
        split
        · rfl
        · split
          · rw [List.getElem?_eq_none (by omega)]; rfl
          · rw [List.getElem?_eq_none (by omega)]
    · intro p
      unfold cst
      rw [List.getElem?_set, resize_length, getElem?_resize_ge _ _ _ (by omega)]
      by_cases hp : p = pos
      · subst hp; simp
      · rw [if_neg (Ne.symm hp), if_neg hp]
        split
        · rfl
        · split
          · rw [List.getElem?_eq_none (by omega)]; rfl
          · rw [List.getElem?_eq_none (by omega)]
  · have hg' : grow = false := by simp [grow, hg]
    have e1 : checks1 = checks := by simp [checks1, hg']
    have e2 : costs1 = costs := by simp [costs1, hg']
    rw [e1, e2]
    refine ⟨by simp [hlen], by omega, by omega, ?_, ?_⟩
    · intro p
      unfold chk
      rw [List.getElem?_set]
      by_cases hp : p = pos
      · subst hp; rw [if_pos rfl, if_pos (by omega), if_pos rfl]; rfl
      · rw [if_neg (Ne.symm hp), if_neg hp]
    · intro p
      unfold cst
      rw [List.getElem?_set]
      by_cases hp : p = pos
      · subst hp; rw [if_pos rfl, if_pos (by omega), if_pos rfl]; rfl
      · rw [if_neg (Ne.symm hp), if_neg hp]

/-- Effect of the inner loop of `build` for a row with pairwise distinct keys. -/
theorem placeRow_spec (key1 base : Nat) : ∀ (row : Row) (checks : List Nat) (costs : List Int),
    checks.length = costs.length → (row.map Prod.fst).Nodup →
    let r := placeRow key1 base row (checks, costs)
    r.1.length = r.2.length ∧
    (∀ e ∈ row, chk r.1 (base ^^^ e.1) = key1 ∧ cst r.2 (base ^^^ e.1) = e.2) ∧
    (∀ p, (∀ e ∈ row, p ≠ base ^^^ e.1) → chk r.1 p = chk checks p ∧ cst r.2 p = cst costs p) := by
  intro row
  induction row with
  | nil => intro checks costs hlen _; simp [placeRow, hlen]
  | cons x rest ih =>
    intro checks costs hlen hnd
    obtain ⟨key2, cost⟩ := x
    simp only [List.map_cons, List.nodup_cons] at hnd
    obtain ⟨hnotin, hnd'⟩ := hnd
    obtain ⟨s1, _, _, s4, s5⟩ := store_spec checks costs (base ^^^ key2) key1 cost hlen
    simp only [placeRow]
    obtain ⟨i1, i2, i3⟩ := ih _ _ s1 hnd'
    refine ⟨i1, ?_, ?_⟩
    · intro e he
      rcases List.mem_cons.1 he with rfl | he
      · have hne : ∀ e' ∈ rest, base ^^^ key2 ≠ base ^^^ e'.1 := by
          intro e' he' h
          have := xor_left_inj h
          apply hnotin
          rw [this]
          exact List.mem_map_of_mem he'
        obtain ⟨a, b⟩ := i3 (base ^^^ key2) hne
        rw [a, b, s4, s5]
        simp
      · exact i2 e he
    · intro p hp
      obtain ⟨a, b⟩ := i3 p (fun e he => hp e (List.mem_cons_of_mem _ he))
      have hpk : p ≠ base ^^^ key2 := hp (key2, cost) List.mem_cons_self
      rw [a, b, s4, s5, if_neg hpk, if_neg hpk]
      exact ⟨rfl, rfl⟩

/-! ### Row lookup -/

theorem rowLookup_eq_some_of_mem : ∀ {row : Row} {k : Nat} {v : Int},
    (row.map Prod.fst).Nodup → (k, v) ∈ row → rowLookup k row = some v := by
  intro row
  induction row with
  | nil => intro k v _ h; cases h
  | cons x rest ih =>
    intro k v hnd h
    obtain ⟨k', c⟩ := x
    simp only [List.map_cons, List.nodup_cons] at hnd
    simp only [rowLookup]
    rcases List.mem_cons.1 h with h | h
    · cases h; simp
    · have : k' ≠ k := by
        intro hk; subst hk
        exact hnd.1 (List.mem_map_of_mem (f := Prod.fst) h)
      rw [if_neg this]
      exact ih hnd.2 h

theorem mem_of_rowLookup_eq_some : ∀ {row : Row} {k : Nat} {v : Int},
    rowLookup k row = some v → (k, v) ∈ row := by
  intro row
  induction row with
  | nil => intro k v h; cases h
  | cons x rest ih =>
    intro k v h
    obtain ⟨k', c⟩ := x
    simp only [rowLookup] at h
    split at h
    · cases h; subst_vars; exact List.mem_cons_self
    · exact List.mem_cons_of_mem _ (ih h)

theorem rowLookup_eq_none_iff {row : Row} {k : Nat} :
    rowLookup k row = none ↔ ∀ e ∈ row, e.1 ≠ k := by
  induction row with
  | nil => simp [rowLookup]
  | cons x rest ih =>
    obtain ⟨k', c⟩ := x
    simp only [rowLookup]
    by_cases h : k' = k
    · subst h; simp
    · rw [if_neg h, ih]
      constructor
      · intro hh e he
        rcases List.mem_cons.1 he with rfl | he
        · exact h
        · exact hh e he
      · intro hh e he
        exact hh e (List.mem_cons_of_mem _ he)

/-! ### The slot invariant of `build` -/

/-- Invariant of the outer loop of `build` after the rows `0 .. i-1` have been placed:
* `fwd`: every entry `(k, key2) ↦ cost` with `k < i` sits in slot `bases[k] ^ key2`;
* `bwd`: every used slot `p` (check `≠ UNUSED`) is owned by some key `k < i` and is of the
  form `bases[k] ^ key2` for an entry of row `k`. -/
structure BInv (t : Trie) (i : Nat) (st : Scorer) : Prop where
  len : st.checks.length = st.costs.length
  blen : st.bases.length = t.length
  fwd : ∀ k row b, k < i → t[k]? = some row → st.bases[k]? = some b →
    ∀ e ∈ row, chk st.checks (b ^^^ e.1) = k ∧ cst st.costs (b ^^^ e.1) = e.2
  bwd : ∀ p, chk st.checks p ≠ UNUSED_CHECK → chk st.checks p < i ∧
    ∃ row b e, t[chk st.checks p]? = some row ∧ st.bases[chk st.checks p]? = some b ∧
      e ∈ row ∧ p = b ^^^ e.1

/-- Builder well-formedness needed by `build`: fewer than `2^32 - 1` first keys (always true
for `U31` keys: `trie.len() ≤ 2^31`) and rows without duplicate keys (true for `BTreeMap`). -/
structure TrieOK (t : Trie) : Prop where
  len : t.length ≤ UNUSED_CHECK
  nodup : ∀ row ∈ t, (row.map Prod.fst).Nodup

theorem buildLoop_inv (t : Trie) (ht : TrieOK t) : ∀ (rows : List Row) (i : Nat) (st : Scorer),
    t.drop i = rows → BInv t i st → BInv t t.length (buildLoop rows i st) := by
  intro rows
  induction rows with
  | nil =>
    intro i st hdrop hinv
    have hi : t.length ≤ i := by
      have := congrArg List.length hdrop
      simp at this; omega
    simp only [buildLoop]
    refine ⟨hinv.len, hinv.blen, ?_, ?_⟩
    · intro k row b hk hrow
      have : k < i := by
        have := (List.getElem?_eq_some_iff.1 hrow).1; omega
      exact hinv.fwd k row b this hrow
    · intro p hp
      obtain ⟨h1, row, b, e, h2, h3, h4, h5⟩ := hinv.bwd p hp
      refine ⟨?_, row, b, e, h2, h3, h4, h5⟩
      exact (List.getElem?_eq_some_iff.1 h2).1
  | cons row rest ih =>
    intro i st hdrop hinv
    simp only [buildLoop]
    have hi : i < t.length := by
      have := congrArg List.length hdrop
      simp at this; omega
    have hrow : t[i]? = some row := by
      have := congrArg (fun l => l[0]?) hdrop
      simpa using this
    have hmem : row ∈ t := List.mem_of_getElem? hrow
    have hnd := ht.nodup row hmem
    have hfree := (checkBase_iff _ _ _).1 (findBase_spec row st.checks).1
    obtain ⟨p1, p2, p3⟩ := placeRow_spec i (findBase row st.checks) row st.checks st.costs hinv.len hnd
    apply ih (i + 1)
    · rw [← List.drop_drop, hdrop]; rfl
    · have hiU : ∀ k, k < t.length → k ≠ UNUSED_CHECK := by
        intro k hk h; have := ht.len; omega
      refine ⟨p1, by simp [hinv.blen], ?_, ?_⟩
      · intro k row' b hk hrow' hb e he
        by_cases hki : k = i
        · subst hki
          rw [hrow] at hrow'
          cases hrow'
          simp only [List.getElem?_set, if_true, hinv.blen, hi] at hb
          cases hb
          exact p2 e he
        · have hk' : k < i := by omega
          simp only [List.getElem?_set] at hb
          rw [if_neg (Ne.symm hki)] at hb
          obtain ⟨f1, f2⟩ := hinv.fwd k row' b hk' hrow' hb e he
          have hne : ∀ e' ∈ row, b ^^^ e.1 ≠ findBase row st.checks ^^^ e'.1 := by
            intro e' he' h
            have := hfree e' he'
            rw [← h, f1] at this
            exact hiU k (by omega) this
          obtain ⟨a, b'⟩ := p3 _ hne
          simp only
          rw [a, b']
          exact ⟨f1, f2⟩
      · intro p hp
        simp only at hp ⊢
        by_cases hex : ∃ e ∈ row, p = findBase row st.checks ^^^ e.1
        · obtain ⟨e, he, hpe⟩ := hex
          have := (p2 e he).1
          rw [← hpe] at this
          rw [this]
          refine ⟨by omega, row, findBase row st.checks, e, hrow, ?_, he, hpe⟩
          simp [hinv.blen, hi]
        · have hne : ∀ e ∈ row, p ≠ findBase row st.checks ^^^ e.1 := by
            intro e he h; exact hex ⟨e, he, h⟩
          obtain ⟨a, _⟩ := p3 p hne
          rw [a] at hp ⊢
          obtain ⟨h1, row', b, e, h2, h3, h4, h5⟩ := hinv.bwd p hp
          refine ⟨by omega, row', b, e, h2, ?_, h4, h5⟩
          rw [List.getElem?_set, if_neg (by omega)]
          exact h3

theorem build_inv (t : Trie) (ht : TrieOK t) : BInv t t.length (build t) := by
  apply buildLoop_inv t ht t 0 _ (by simp)
  refine ⟨rfl, by simp, ?_, ?_⟩
  · intro k row b hk; omega
  · intro p hp; simp [chk] at hp

/-- `retrieve (build t)` is the two-level map lookup. -/
theorem retrieve_build_aux (t : Trie) (ht : TrieOK t) (k1 k2 : Nat) :
    retrieve (build t) k1 k2 = .ok ((t[k1]?).bind (rowLookup k2)) := by
  have inv := build_inv t ht
  unfold retrieve
  cases hrow : t[k1]? with
  | none =>
    have : (build t).bases[k1]? = none := by
      rw [List.getElem?_eq_none_iff] at hrow ⊢
      rw [inv.blen]; exact hrow
    rw [this]; rfl
  | some row =>
    have hk1 : k1 < t.length := (List.getElem?_eq_some_iff.1 hrow).1
    have hk1U : k1 ≠ UNUSED_CHECK := by have := ht.len; omega
    have hb : ∃ b, (build t).bases[k1]? = some b := by
      have : k1 < (build t).bases.length := by rw [inv.blen]; exact hk1
      exact ⟨_, List.getElem?_eq_getElem this⟩
    obtain ⟨b, hb⟩ := hb
    rw [hb]
    simp only [Option.bind_some]
    cases hl : rowLookup k2 row with
    | some v =>
      have hmem := mem_of_rowLookup_eq_some hl
      obtain ⟨f1, f2⟩ := inv.fwd k1 row b hk1 hrow hb _ hmem
      simp only at f1 f2
      have hc : (build t).checks[b ^^^ k2]? = some k1 := by
        unfold chk at f1
        cases h : (build t).checks[b ^^^ k2]? with
        | none => rw [h] at f1; exact absurd f1.symm hk1U
        | some c => rw [h] at f1; simpa using f1
      have hlt : b ^^^ k2 < (build t).costs.length := by
        rw [← inv.len]; exact (List.getElem?_eq_some_iff.1 hc).1
      have hv : (build t).costs[b ^^^ k2]? = some v := by
        unfold cst at f2
        rw [List.getElem?_eq_getElem hlt] at f2 ⊢
        simpa using f2
      simp only [hc, hv, if_true]
    | none =>
      have hnone := rowLookup_eq_none_iff.1 hl
      cases hc : (build t).checks[b ^^^ k2]? with
      | none => rfl
      | some c =>
        simp only
        by_cases hck : c = k1
        · exfalso
          subst hck
          have hchk : chk (build t).checks (b ^^^ k2) = c := by simp [chk, hc]
          obtain ⟨_, row', b', e, h2, h3, h4, h5⟩ := inv.bwd (b ^^^ k2) (by rw [hchk]; exact hk1U)
          rw [hchk] at h2 h3
          rw [hrow] at h2; cases h2
          rw [hb] at h3; cases h3
          exact hnone e h4 (xor_left_inj h5).symm
        · rw [if_neg hck]

/-! ### `insert` keeps the builder a finite map with sorted rows -/

/-- Two-level lookup in the builder. -/
def get2 (t : Trie) (k1 k2 : Nat) : Option Int := (t[k1]?).bind (rowLookup k2)

/-- Strictly ascending keys (the `BTreeMap` iteration order). -/
def RowSorted (row : Row) : Prop := row.Pairwise (fun a b => a.1 < b.1)

theorem rowLookup_rowInsert (k : Nat) (c : Int) (k' : Nat) : ∀ (row : Row),
    rowLookup k' (rowInsert k c row) = if k' = k then some c else rowLookup k' row := by
  intro row
  induction row with
  | nil =>
    by_cases h : k' = k
    · subst h; simp [rowInsert, rowLookup]
    · simp [rowInsert, rowLookup, h, Ne.symm h]
  | cons x rest ih =>
    obtain ⟨k0, c0⟩ := x
    simp only [rowInsert]
    by_cases hlt : k < k0
    · rw [if_pos hlt]
      by_cases h : k' = k
      · subst h; simp [rowLookup]
      · simp [rowLookup, h, Ne.symm h]
    · rw [if_neg hlt]
      by_cases heq : k = k0
      · rw [if_pos heq]
        by_cases h : k' = k
        · simp [rowLookup, h]
        · have h2 : ¬ k0 = k' := by omega
          simp [rowLookup, h, Ne.symm h, h2]
      · rw [if_neg heq]
        simp only [rowLookup]
        by_cases h0 : k0 = k'
        · have : ¬ k' = k := by omega
          simp [h0, this]
        · simp only [h0, if_false]; exact ih

theorem mem_rowInsert {k : Nat} {c : Int} {e : Nat × Int} : ∀ {row : Row},
    e ∈ rowInsert k c row → e = (k, c) ∨ e ∈ row := by
  intro row
  induction row with
  | nil => intro h; simp [rowInsert] at h; exact Or.inl h
  | cons x rest ih =>
    obtain ⟨k0, c0⟩ := x
    simp only [rowInsert]
    split
    · intro h
      rcases List.mem_cons.1 h with h | h
      · exact Or.inl h
      · exact Or.inr h
    · split
      · intro h
        rcases List.mem_cons.1 h with h | h
        · exact Or.inl h
        · exact Or.inr (List.mem_cons_of_mem _ h)
      · intro h
        rcases List.mem_cons.1 h with h | h
        · exact Or.inr (h ▸ List.mem_cons_self)
        · rcases ih h with h | h
          · exact Or.inl h
          · exact Or.inr (List.mem_cons_of_mem _ h)

theorem rowSorted_rowInsert (k : Nat) (c : Int) : ∀ (row : Row),
    RowSorted row → RowSorted (rowInsert k c row) := by
  intro row
  induction row with
  | nil => intro _; simp [rowInsert, RowSorted]
  | cons x rest ih =>
    obtain ⟨k0, c0⟩ := x
    intro hs
    unfold RowSorted at hs ⊢
    rw [List.pairwise_cons] at hs
    simp only [rowInsert]
    split
    · rw [List.pairwise_cons]
      refine ⟨?_, List.pairwise_cons.2 hs⟩
      intro e he
      rcases List.mem_cons.1 he with rfl | he
      · assumption
      · have := hs.1 e he; simp only at this ⊢; omega
    · split
      · subst_vars
        rw [List.pairwise_cons]; exact hs
      · rw [List.pairwise_cons]
        refine ⟨?_, ih hs.2⟩
        intro e he
        rcases mem_rowInsert he with rfl | he
        · simp only; omega
        · exact hs.1 e he

theorem RowSorted.nodup {row : Row} (h : RowSorted row) : (row.map Prod.fst).Nodup := by
  unfold RowSorted at h
  induction row with
  | nil => simp
  | cons x rest ih =>
    rw [List.pairwise_cons] at h
    simp only [List.map_cons, List.nodup_cons]
    refine ⟨?_, ih h.2⟩
    intro hm
    obtain ⟨e, he, hk⟩ := List.mem_map.1 hm
    have := h.1 e he
    omega

theorem insert_length (t : Trie) (k1 k2 : Nat) (c : Int) :
    (insert t k1 k2 c).length = max t.length (k1 + 1) := by
  unfold insert
  split
  · simp [resize_length]; omega
  · simp; omega

theorem getElem?_insert (t : Trie) (k1 k2 : Nat) (c : Int) (j : Nat) :
    (insert t k1 k2 c)[j]? =
      if j = k1 then some (rowInsert k2 c (t[k1]?.getD []))
      else if j < t.length then t[j]? else if j < k1 then some [] else none := by
  unfold insert
  by_cases h : k1 ≥ t.length
  · simp only [h, if_true]
    rw [List.getElem?_modify, getElem?_resize_ge _ _ _ (by omega)]
    by_cases hj : j = k1
    · subst hj
      rw [if_neg (by omega), if_pos (by omega), if_pos rfl, List.getElem?_eq_none (by omega)]
      simp
    · rw [if_neg hj]
      have hj' : ¬ k1 = j := Ne.symm hj
      by_cases hlt : j < t.length
      · simp [hlt, hj']
      · by_cases hlt2 : j < k1
        · have : j < k1 + 1 := by omega
          simp [hlt, hlt2, this, hj']
        · have : ¬ j < k1 + 1 := by omega
          simp [hlt, hlt2, this]
  · simp only [h, if_false]
    rw [List.getElem?_modify]
    by_cases hj : j = k1
    · subst hj
      rw [if_pos rfl, List.getElem?_eq_getElem (by omega)]
      simp
    · rw [if_neg hj]
      have hj' : ¬ k1 = j := Ne.symm hj
      by_cases hlt : j < t.length
      · simp [hlt, hj']
      · have : ¬ j < k1 := by omega
        rw [List.getElem?_eq_none (by omega)]
        simp [hlt, this]

theorem get2_insert (t : Trie) (k1 k2 : Nat) (c : Int) (j1 j2 : Nat) :
    get2 (insert t k1 k2 c) j1 j2 = if j1 = k1 ∧ j2 = k2 then some c else get2 t j1 j2 := by
  unfold get2
  rw [getElem?_insert]
  by_cases h1 : j1 = k1
  · subst h1
    simp only [if_true, Option.bind_some, rowLookup_rowInsert, true_and]
    split
    · rfl
    · cases h : t[j1]? <;> simp [rowLookup]
  · simp only [h1, if_false, false_and]
    split
    · rfl
    · rw [List.getElem?_eq_none (by omega)]
      split <;> simp [rowLookup]

/-- Rows sorted (hence duplicate-free), all first keys `< bound`. -/
structure TrieSorted (t : Trie) (bound : Nat) : Prop where
  len : t.length ≤ bound
  sorted : ∀ row ∈ t, RowSorted row

theorem trieSorted_insert {t : Trie} {bound : Nat} (h : TrieSorted t bound) (k1 k2 : Nat) (c : Int)
    (hk : k1 < bound) : TrieSorted (insert t k1 k2 c) bound := by
  refine ⟨by rw [insert_length]; have := h.len; omega, ?_⟩
  intro row hrow
  obtain ⟨j, hj⟩ := List.getElem?_of_mem hrow
  rw [getElem?_insert] at hj
  split at hj
  · cases hj
    apply rowSorted_rowInsert
    cases ht : t[k1]? with
    | none => simp [RowSorted]
    | some r => exact h.sorted r (List.mem_of_getElem? ht)
  · split at hj
    · exact h.sorted row (List.mem_of_getElem? hj)
    · split at hj
      · cases hj; simp [RowSorted]
      · cases hj

theorem trieSorted_ofEntries (es : List (Nat × Nat × Int)) (bound : Nat)
    (hk : ∀ e ∈ es, e.1 < bound) : TrieSorted (ofEntries es) bound := by
  unfold ofEntries
  suffices ∀ (t : Trie), TrieSorted t bound →
      TrieSorted (es.foldl (fun t e => insert t e.1 e.2.1 e.2.2) t) bound from
    this [] ⟨Nat.zero_le _, by simp⟩
  induction es with
  | nil => intro t ht; exact ht
  | cons e rest ih =>
    intro t ht
    simp only [List.foldl_cons]
    apply ih (fun e he => hk e (List.mem_cons_of_mem _ he))
    exact trieSorted_insert ht _ _ _ (hk e List.mem_cons_self)

theorem TrieSorted.ok {t : Trie} {bound : Nat} (h : TrieSorted t bound) (hb : bound ≤ UNUSED_CHECK) :
    TrieOK t :=
  ⟨Nat.le_trans h.len hb, fun row hrow => (h.sorted row hrow).nodup⟩

/-- The cost most recently inserted for `(k1, k2)` (`BTreeMap::insert` overwrites). -/
def lastEntry : List (Nat × Nat × Int) → Nat → Nat → Option Int
  | [], _, _ => none
  | e :: rest, k1, k2 =>
    match lastEntry rest k1 k2 with
    | some c => some c
    | none => if e.1 = k1 ∧ e.2.1 = k2 then some e.2.2 else none

theorem get2_foldl_insert (es : List (Nat × Nat × Int)) (k1 k2 : Nat) : ∀ (t : Trie),
    get2 (es.foldl (fun t e => insert t e.1 e.2.1 e.2.2) t) k1 k2 =
      match lastEntry es k1 k2 with
      | some c => some c
      | none => get2 t k1 k2 := by
  induction es with
  | nil => intro t; rfl
  | cons e rest ih =>
    intro t
    simp only [List.foldl_cons, lastEntry]
    rw [ih, get2_insert]
    cases lastEntry rest k1 k2 with
    | some c => rfl
    | none =>
      simp only
      by_cases h : e.1 = k1 ∧ e.2.1 = k2
      · rw [if_pos h, if_pos ⟨h.1.symm, h.2.symm⟩]
      · rw [if_neg h, if_neg (fun h' => h ⟨h'.1.symm, h'.2.symm⟩)]

theorem get2_ofEntries (es : List (Nat × Nat × Int)) (k1 k2 : Nat) :
    get2 (ofEntries es) k1 k2 = lastEntry es k1 k2 := by
  unfold ofEntries
  rw [get2_foldl_insert]
  cases lastEntry es k1 k2 <;> simp [get2]

end Vibrato.Scorer
