/-
The rewriter of `Model/Rewriter.lean` only asks its patterns whether they accept a cell:
tries that agree on `Pattern.accepts` (e.g. `Pattern::Multiple` sets enumerated in a different
order) rewrite every feature list alike.  Used by C15.
-/
import Vibrato.Model.Rewriter
import Vibrato.Model.Trainer

namespace Vibrato.Rewriter

/-- Two actions that the DFS cannot tell apart. -/
inductive ActEq : Action → Action → Prop where
  | trans {p p' : Pattern} {t : Nat} : (∀ x, p.accepts x = p'.accepts x) →
      ActEq (.trans p t) (.trans p' t)
  | rw {r : List Rewrite} : ActEq (.rw r) (.rw r)

inductive ActsEq : List Action → List Action → Prop where
  | nil : ActsEq [] []
  | cons {a a' : Action} {l l' : List Action} : ActEq a a' → ActsEq l l' → ActsEq (a :: l) (a' :: l')

inductive TrieEq : Trie → Trie → Prop where
  | nil : TrieEq [] []
  | cons {a a' : List Action} {l l' : Trie} : ActsEq a a' → TrieEq l l' → TrieEq (a :: l) (a' :: l')

theorem ActsEq.length {a a' : List Action} (h : ActsEq a a') : a.length = a'.length := by
  induction h with
  | nil => rfl
  | cons _ _ ih => simp [ih]

theorem ActsEq.drop {a a' : List Action} (h : ActsEq a a') : ∀ n, ActsEq (a.drop n) (a'.drop n) := by
  induction h with
  | nil => intro n; simpa using ActsEq.nil
  | cons h1 h2 ih =>
    intro n
    cases n with
    | zero => exact .cons h1 h2
    | succ n => simpa using ih n

theorem scan_congr (f : List Str) (depth : Nat) {a a' : List Action} (h : ActsEq a a') :
    ∀ i, scan f depth a i = scan f depth a' i := by
  induction h with
  | nil => intro i; rfl
  | cons h1 _ ih =>
    intro i
    cases h1 with
    | trans hp =>
      simp only [scan]
      cases f[depth]? with
      | none => exact ih _
      | some x => simp only [hp x, ih]
    | rw => rfl

theorem TrieEq.get {t t' : Trie} (h : TrieEq t t') : ∀ n : Nat,
    (t[n]? = none ∧ t'[n]? = none) ∨ ∃ a a', t[n]? = some a ∧ t'[n]? = some a' ∧ ActsEq a a' := by
  induction h with
  | nil => intro n; left; simp
  | cons h1 _ ih =>
    intro n
    cases n with
    | zero => right; exact ⟨_, _, by simp, by simp, h1⟩
    | succ n => simpa using ih n

theorem loop_congr (f : List Str) {t t' : Trie} (h : TrieEq t t') :
    ∀ (fuel : Nat) (stack : List (Nat × Nat)), loop t f fuel stack = loop t' f fuel stack := by
  intro fuel
  induction fuel with
  | zero => intro stack; rfl
  | succ fuel ih =>
    intro stack
    cases stack with
    | nil => rfl
    | cons top rest =>
      obtain ⟨n, e⟩ := top
      simp only [loop]
      rcases h.get n with ⟨h1, h2⟩ | ⟨a, a', h1, h2, ha⟩
      · rw [h1, h2]
      · rw [h1, h2]
        simp only [scan_congr f rest.length (ha.drop e) e]
        cases scan f rest.length (a'.drop e) e with
        | push i tgt => exact ih _
        | done out => rfl
        | exhausted =>
          cases rest with
          | nil => exact ih _
          | cons top' rest' => exact ih _

theorem maxActs_congr {t t' : Trie} (h : TrieEq t t') : maxActs t = maxActs t' := by
  unfold maxActs
  generalize (0 : Nat) = m
  induction h generalizing m with
  | nil => rfl
  | cons h1 _ ih => simp only [List.foldl_cons, h1.length]; exact ih _

theorem rewrite_congr (f : List Str) {t t' : Trie} (h : TrieEq t t') :
    rewrite t f = rewrite t' f := by
  simp only [rewrite, fuelBound, maxActs_congr h, loop_congr f h]

end Vibrato.Rewriter

namespace Vibrato.Trainer
open Vibrato.ModelImage

/-- Image-level patterns that accept the same cells: equal, or `Multiple` sets that are
permutations of each other. -/
inductive PatEq : Pattern → Pattern → Prop where
  | refl (p : Pattern) : PatEq p p
  | multiple {l l' : List Bincode.Str} : l.Perm l' → PatEq (.multiple l) (.multiple l')

inductive ActionEq : Action → Action → Prop where
  | trans {p p' : Pattern} {t : Nat} : PatEq p p' → ActionEq (.trans p t) (.trans p' t)
  | rw (r : List Rewrite) : ActionEq (.rw r) (.rw r)

inductive NodeEq : List Action → List Action → Prop where
  | nil : NodeEq [] []
  | cons {a a' : Action} {l l' : List Action} : ActionEq a a' → NodeEq l l' → NodeEq (a :: l) (a' :: l')

/-- Rewriter tries that differ only in the enumeration order of `Pattern::Multiple` sets. -/
inductive RwTrieEq : RwTrie → RwTrie → Prop where
  | nil : RwTrieEq [] []
  | cons {a a' : List Action} {l l' : RwTrie} : NodeEq a a' → RwTrieEq l l' → RwTrieEq (a :: l) (a' :: l')

theorem NodeEq.refl : ∀ (a : List Action), NodeEq a a
  | [] => .nil
  | x :: xs => .cons (by cases x <;> constructor; exact .refl _) (NodeEq.refl xs)

theorem RwTrieEq.refl : ∀ (t : RwTrie), RwTrieEq t t
  | [] => .nil
  | a :: l => .cons (NodeEq.refl a) (RwTrieEq.refl l)

theorem convPattern_accepts {p p' : Pattern} (h : PatEq p p') (x : Rewriter.Str) :
    (convPattern p).accepts x = (convPattern p').accepts x := by
  cases h with
  | refl => rfl
  | multiple hp =>
    rename_i l l'
    simp only [convPattern, Rewriter.Pattern.accepts]
    have := (hp.map toChars).mem_iff (a := x)
    by_cases h1 : x ∈ List.map toChars l
    · rw [List.contains_iff_mem.mpr h1, List.contains_iff_mem.mpr (this.mp h1)]
    · have h2 : ¬ x ∈ List.map toChars l' := fun hc => h1 (this.mpr hc)
      rw [Bool.eq_false_iff.mpr (fun hc => h1 (List.contains_iff_mem.mp hc)),
        Bool.eq_false_iff.mpr (fun hc => h2 (List.contains_iff_mem.mp hc))]

theorem convTrie_eq {t t' : RwTrie} (h : RwTrieEq t t') :
    Rewriter.TrieEq (convTrie t) (convTrie t') := by
  induction h with
  | nil => exact .nil
  | cons hn _ ih =>
    refine .cons ?_ ih
    induction hn with
    | nil => exact .nil
    | cons ha _ ih2 =>
      refine .cons ?_ ih2
      cases ha with
      | trans hp => exact .trans (convPattern_accepts hp)
      | rw r => exact .rw

theorem rewriteOrSame_congr {t t' : RwTrie} (h : RwTrieEq t t') (f : List Bincode.Str) :
    rewriteOrSame t f = rewriteOrSame t' f := by
  simp only [rewriteOrSame, Rewriter.rewrite_congr _ (convTrie_eq h)]

end Vibrato.Trainer
