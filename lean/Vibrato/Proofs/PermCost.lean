/-
Viterbi minima do not depend on the insertion order of the candidates (helper lemmas for
C08 `perm_min_cost`): if at every start position the candidate lists of `E` and `E'` are
permutations of each other, then at every boundary the stored nodes are the same multiset up
to the back pointer `min_idx` (which is an index into a differently ordered vector), and the
EOS nodes agree in everything but `min_idx`.
-/
import Vibrato.Proofs.BufferIndep

namespace Vibrato

/-- forget the back pointer -/
def Node.strip (n : Node) : Node := { n with minIdx := 0 }

/-- same multiset of nodes (up to `min_idx`) at every boundary -/
def PermReads (L L' : Ends) : Prop :=
  ∀ j, ((endsAt L j).map Node.strip).Perm ((endsAt L' j).map Node.strip)

theorem PermReads.refl (L : Ends) : PermReads L L := fun _ => List.Perm.refl _

/-! ### the minimum found by `search_min_node` is order independent -/

/-- one comparison of `search_min_node`, costs only -/
def minStep (conn : Nat → Nat → Int) (l : Nat) (a : Int) (n : Node) : Int :=
  if n.minCost + conn n.rightId l ≤ a then n.minCost + conn n.rightId l else a

theorem searchMinGo_snd (conn : Nat → Nat → Int) (l : Nat) :
    ∀ (ns : List Node) (i : Nat) (acc : Nat × Int),
      (searchMinGo conn l ns i acc).2 = ns.foldl (minStep conn l) acc.2 := by
  intro ns
  induction ns with
  | nil => intro i acc; rfl
  | cons n ns ih =>
    intro i acc
    simp only [searchMinGo, List.foldl_cons, minStep]
    split
    · rw [ih]
    · rw [ih]

theorem minStep_comm (conn : Nat → Nat → Int) (l : Nat) (z : Int) (x y : Node) :
    minStep conn l (minStep conn l z x) y = minStep conn l (minStep conn l z y) x := by
  unfold minStep
  generalize x.minCost + conn x.rightId l = a
  generalize y.minCost + conn y.rightId l = b
  grind

theorem minStep_strip (conn : Nat → Nat → Int) (l : Nat) (a : Int) (n : Node) :
    minStep conn l a n.strip = minStep conn l a n := rfl

theorem searchMin_snd_perm (conn : Nat → Nat → Int) (l : Nat) (ns ns' : List Node)
    (h : (ns.map Node.strip).Perm (ns'.map Node.strip)) :
    (searchMin conn ns l).2 = (searchMin conn ns' l).2 := by
  unfold searchMin
  rw [searchMinGo_snd, searchMinGo_snd]
  have e : ∀ (xs : List Node) (a : Int),
      xs.foldl (minStep conn l) a = (xs.map Node.strip).foldl (minStep conn l) a := by
    intro xs a
    rw [List.foldl_map]
    rfl
  rw [e ns, e ns']
  exact h.foldl_eq' (fun x _ y _ z => minStep_comm conn l z x y) _

/-! ### closed form of `add_lattice_edges` -/

/-- the node `insert_node` pushes, as a function of the predecessor vector -/
def mkNode (conn : Nat → Nat → Int) (prev : List Node) (p sw : Nat) (c : Cand) : Node :=
  { wordId := c.wordId, lexType := c.lexType, startNode := p, startWord := sw,
    leftId := c.leftId, rightId := c.rightId, minIdx := (searchMin conn prev c.leftId).1,
    minCost := (searchMin conn prev c.leftId).2 + c.wordCost, wordCost := c.wordCost, isBos := false }

theorem insertNode_mkNode (E : LatEnv) (L : Ends) (p sw : Nat) (c : Cand) :
    insertNode E L p sw c = pushAt L c.endWord (mkNode E.conn (endsAt L p) p sw c) := rfl

theorem strip_mkNode_perm (conn : Nat → Nat → Int) (prev prev' : List Node) (p sw : Nat) (c : Cand)
    (h : (prev.map Node.strip).Perm (prev'.map Node.strip)) :
    (mkNode conn prev p sw c).strip = (mkNode conn prev' p sw c).strip := by
  simp only [mkNode, Node.strip, searchMin_snd_perm conn c.leftId prev prev' h]

theorem foldl_insert_closed (E : LatEnv) (p sw : Nat) :
    ∀ (cs : List Cand) (L : Ends), (∀ c ∈ cs, c.endWord ≠ p ∧ c.endWord < L.length) →
      (cs.foldl (fun L c => insertNode E L p sw c) L).length = L.length ∧
      ∀ j, endsAt (cs.foldl (fun L c => insertNode E L p sw c) L) j =
        endsAt L j ++ (cs.filter (fun c => c.endWord == j)).map (mkNode E.conn (endsAt L p) p sw) := by
  intro cs
  induction cs with
  | nil => intro L _; simp
  | cons c cs ih =>
    intro L h
    obtain ⟨hc1, hc2⟩ := h c (by simp)
    have hlen : (insertNode E L p sw c).length = L.length := by simp [insertNode]
    have hp : endsAt (insertNode E L p sw c) p = endsAt L p := insert_endsAt_le p sw c p (Ne.symm hc1)
    obtain ⟨i1, i2⟩ := ih (insertNode E L p sw c)
      (fun c' hc' => by rw [hlen]; exact h c' (by simp [hc']))
    simp only [List.foldl_cons]
    refine ⟨by rw [i1, hlen], ?_⟩
    intro j
    rw [i2 j, hp, insertNode_mkNode, endsAt_pushAt, List.filter_cons]
    by_cases hj : c.endWord = j
    · subst hj
      simp [hc2]
    · have : (c.endWord == j) = false := by simpa using hj
      simp [hj, this]

/-- Environments that differ only in the order of the candidates at each position. -/
structure PermEnv (E E' : LatEnv) : Prop where
  len : E'.len = E.len
  conn : E'.conn = E.conn
  skip : E'.skip = E.skip
  cands : ∀ sw, (E.cands sw).Perm (E'.cands sw)

/-- candidates end after their start and inside the sentence (part of `EnvOK`) -/
def CandsForward (E : LatEnv) : Prop :=
  ∀ sw, sw < E.len → ∀ c ∈ E.cands sw, sw < c.endWord ∧ c.endWord ≤ E.len

theorem EnvOK.candsForward {E C W} (h : EnvOK E C W) : CandsForward E := h.cands_range

theorem permReads_isEmpty {L L' : Ends} (h : PermReads L L') (j : Nat) :
    (endsAt L j).isEmpty = (endsAt L' j).isEmpty := by
  have := (h j).length_eq
  simp only [List.length_map] at this
  cases h1 : endsAt L j <;> cases h2 : endsAt L' j <;> simp_all

theorem addEdges_perm {E E' : LatEnv} (hE : PermEnv E E') (hf : CandsForward E) (L L' : Ends)
    (h : PermReads L L') (p : Nat) (hsw : p + E.skip p < E.len) (hl : E.len < L.length)
    (hl' : E.len < L'.length) :
    PermReads (addEdges E L p (p + E.skip p)) (addEdges E' L' p (p + E.skip p)) ∧
      (addEdges E L p (p + E.skip p)).length = L.length ∧
      (addEdges E' L' p (p + E.skip p)).length = L'.length := by
  unfold addEdges
  have hc : ∀ c ∈ E.cands (p + E.skip p), c.endWord ≠ p ∧ c.endWord < L.length := by
    intro c hc
    have := hf _ hsw c hc
    exact ⟨by omega, by omega⟩
  have hc' : ∀ c ∈ E'.cands (p + E.skip p), c.endWord ≠ p ∧ c.endWord < L'.length := by
    intro c hc
    have := hf _ hsw c ((hE.cands _).mem_iff.mpr hc)
    exact ⟨by omega, by omega⟩
  obtain ⟨a1, a2⟩ := foldl_insert_closed E p (p + E.skip p) _ L hc
  obtain ⟨b1, b2⟩ := foldl_insert_closed E' p (p + E.skip p) _ L' hc'
  refine ⟨?_, a1, b1⟩
  intro j
  rw [a2 j, b2 j, List.map_append, List.map_append, List.map_map, List.map_map, hE.conn]
  apply List.Perm.append (h j)
  have hfun : (Node.strip ∘ mkNode E.conn (endsAt L p) p (p + E.skip p)) =
      (Node.strip ∘ mkNode E.conn (endsAt L' p) p (p + E.skip p)) := by
    funext c
    exact strip_mkNode_perm E.conn _ _ p _ c (h p)
  rw [hfun]
  exact ((hE.cands _).filter _).map _

theorem buildLoop_perm {E E' : LatEnv} (hE : PermEnv E E') (hf : CandsForward E) (L : Ends) (p : Nat) :
    ∀ L' : Ends, PermReads L L' → E.len < L.length → E.len < L'.length →
      PermReads (buildLoop E L p).1 (buildLoop E' L' p).1 ∧
        (buildLoop E L p).2 = (buildLoop E' L' p).2 := by
  fun_induction buildLoop E L p with
  | case1 L p hlt hemp ih =>
    intro L' h hl hl'
    rw [buildLoop.eq_1 E' L' p]
    have : (endsAt L' p).isEmpty = true := by rw [← permReads_isEmpty h p]; exact hemp
    simp only [hE.len, hlt, if_true, this]
    exact ih L' h hl hl'
  | case2 L p hlt hemp sw hbreak =>
    intro L' h hl hl'
    rw [buildLoop.eq_1 E' L' p]
    have : ¬ (endsAt L' p).isEmpty = true := by rw [← permReads_isEmpty h p]; exact hemp
    have hb : E.len ≤ p + E.skip p := hbreak
    simp only [hE.len, hE.skip, hlt, if_true, this, hb]
    exact ⟨h, rfl⟩
  | case3 L p hlt hemp sw hcont ih =>
    intro L' h hl hl'
    rw [buildLoop.eq_1 E' L' p]
    have : ¬ (endsAt L' p).isEmpty = true := by rw [← permReads_isEmpty h p]; exact hemp
    have hb : ¬ E.len ≤ p + E.skip p := hcont
    simp only [hE.len, hE.skip, hlt, if_true, this, if_false, hb]
    obtain ⟨r1, r2, r3⟩ := addEdges_perm hE hf L L' h p (by omega) hl hl'
    exact ih _ r1 (by rw [r2]; exact hl) (by rw [r3]; exact hl')
  | case4 L p hge =>
    intro L' h _ _
    rw [buildLoop.eq_1 E' L' p]
    simp only [hE.len, hge, if_false]
    exact ⟨h, trivial⟩

/-- The lattices of two environments that differ only in candidate order: same node multisets
(up to `min_idx`) at every boundary, EOS equal up to `min_idx`. -/
theorem buildLattice_perm {E E' : LatEnv} (hE : PermEnv E E') (hf : CandsForward E) (b : Nat) :
    PermReads (buildLattice E b).ends (buildLattice E' b).ends ∧
      (buildLattice E b).eos.strip = (buildLattice E' b).eos.strip := by
  obtain ⟨h1, h2⟩ := buildLoop_perm hE hf (resetEnds b E.len) 0 (resetEnds b E.len)
    (PermReads.refl _) (by rw [length_resetEnds]; omega) (by rw [length_resetEnds]; omega)
  unfold buildLattice
  simp only [hE.len]
  refine ⟨h1, ?_⟩
  simp only [eosNode, Node.strip, hE.len, hE.conn, h2,
    searchMin_snd_perm E.conn 0 _ _ (h1 (buildLoop E' (resetEnds b E.len) 0).2)]

theorem PermEnv.envOK {E E' : LatEnv} (hE : PermEnv E E') {C W : Int} (h : EnvOK E C W) :
    EnvOK E' C W := by
  refine ⟨?_, by rw [hE.conn]; exact h.conn_le, ?_, h.C_nonneg, h.W_nonneg, by rw [hE.len]; exact h.bound⟩
  · intro sw hsw c hc
    rw [hE.len] at hsw ⊢
    exact h.cands_range sw hsw c ((hE.cands sw).mem_iff.mpr hc)
  · intro sw hsw c hc
    rw [hE.len] at hsw
    exact h.word_le sw hsw c ((hE.cands sw).mem_iff.mpr hc)

theorem PermEnv.covered {E E' : LatEnv} (hE : PermEnv E E') (h : Covered E) : Covered E' := by
  intro sw hsw hnil
  rw [hE.len] at hsw
  apply h sw hsw
  have := hE.cands sw
  rw [hnil] at this
  exact List.Perm.eq_nil this

end Vibrato
