/-
The explicit-stack loop of `FeatureRewriter::rewrite` computes the recursive depth-first search
`dfsNode` (for every node vector).
-/
import Vibrato.Model.Rewriter
import Vibrato.Proofs.RewriterFuel

namespace Vibrato.Rewriter

/-- Result of a recursive DFS below a node. -/
inductive Res where
  | found (out : List Str)
  | exhausted
  | panic
  deriving Repr, DecidableEq

def Res.orElse : Res → Res → Res
  | .exhausted, b => b
  | a, _ => a

@[simp] theorem Res.exhausted_orElse (b : Res) : Res.orElse .exhausted b = b := rfl
@[simp] theorem Res.found_orElse (o : List Str) (b : Res) : Res.orElse (.found o) b = .found o := rfl
@[simp] theorem Res.panic_orElse (b : Res) : Res.orElse .panic b = .panic := rfl
@[simp] theorem Res.orElse_exhausted (a : Res) : Res.orElse a .exhausted = a := by cases a <;> rfl
theorem Res.orElse_assoc (a b c : Res) : (a.orElse b).orElse c = a.orElse (b.orElse c) := by
  cases a <;> rfl

/-- DFS over an action list: `child t` is the search below node `t` one level deeper,
`x` the feature at the current depth (`none` when the feature list is too short). -/
def dfsActs (f : List Str) (child : Nat → Res) (x : Option Str) : List Action → Res
  | [] => .exhausted
  | .trans p t :: as =>
    match x with
    | some x => if p.accepts x then (child t).orElse (dfsActs f child x as)
                else dfsActs f child x as
    | none => dfsActs f child x as
  | .rw r :: _ => .found (applyRewrite r f)

/-- DFS below node `n` with the remaining features `rem` (`f` is the whole feature list, used
for `$n` references). -/
def dfsNode (nodes : Trie) (f : List Str) : List Str → Nat → Res
  | [], n =>
    match nodes[n]? with
    | none => .panic
    | some acts => dfsActs f (fun _ => .exhausted) none acts
  | x :: rem, n =>
    match nodes[n]? with
    | none => .panic
    | some acts => dfsActs f (dfsNode nodes f rem) (some x) acts

/-- The search below the current node's children. -/
def child (nodes : Trie) (f : List Str) : List Str → Nat → Res
  | [] => fun _ => .exhausted
  | _ :: rem => dfsNode nodes f rem

/-- DFS over an action list at remaining features `rem`. -/
def dfsFrom (nodes : Trie) (f : List Str) (rem : List Str) (acts : List Action) : Res :=
  dfsActs f (child nodes f rem) rem.head? acts

theorem dfsNode_eq (nodes : Trie) (f rem : List Str) (n : Nat) :
    dfsNode nodes f rem n =
      match nodes[n]? with
      | none => .panic
      | some acts => dfsFrom nodes f rem acts := by
  cases rem <;> simp [dfsNode, dfsFrom, child]

theorem dfsActs_append (f : List Str) (ch : Nat → Res) (x : Option Str) (as bs : List Action) :
    dfsActs f ch x (as ++ bs) = (dfsActs f ch x as).orElse (dfsActs f ch x bs) := by
  induction as with
  | nil => simp [dfsActs]
  | cons a as ih =>
    cases a with
    | rw r => simp [dfsActs]
    | trans p t =>
      cases x with
      | none => simpa [dfsActs] using ih
      | some x =>
        simp only [List.cons_append, dfsActs]
        split
        · rw [ih, Res.orElse_assoc]
        · exact ih

theorem dfsFrom_append (nodes : Trie) (f rem : List Str) (as bs : List Action) :
    dfsFrom nodes f rem (as ++ bs) = (dfsFrom nodes f rem as).orElse (dfsFrom nodes f rem bs) :=
  dfsActs_append ..

@[simp] theorem dfsFrom_nil (nodes : Trie) (f rem : List Str) :
    dfsFrom nodes f rem [] = .exhausted := rfl

@[simp] theorem dfsFrom_rw (nodes : Trie) (f rem : List Str) (r : List Rewrite)
    (as : List Action) : dfsFrom nodes f rem (.rw r :: as) = .found (applyRewrite r f) := rfl

@[simp] theorem dfsFrom_nil_trans (nodes : Trie) (f : List Str) (p : Pattern) (t : Nat)
    (as : List Action) : dfsFrom nodes f [] (.trans p t :: as) = dfsFrom nodes f [] as := rfl

theorem dfsFrom_cons_trans (nodes : Trie) (f : List Str) (x : Str) (rem : List Str)
    (p : Pattern) (t : Nat) (as : List Action) :
    dfsFrom nodes f (x :: rem) (.trans p t :: as) =
      if p.accepts x then (dfsNode nodes f rem t).orElse (dfsFrom nodes f (x :: rem) as)
      else dfsFrom nodes f (x :: rem) as := rfl

/-- What the loop does after the search below the top entry is over. -/
def resume (nodes : Trie) (f : List Str) (fuel : Nat) (rest : List (Nat × Nat)) : Res →
    Outcome (Option (List Str))
  | .found out => .ok (some out)
  | .panic => .panic
  | .exhausted =>
    match rest with
    | [] => loop nodes f fuel []
    | (n', e') :: rest' => loop nodes f fuel ((n', e' + 1) :: rest')

/-- Two entries on the same node whose scans agree behave the same. -/
theorem loop_congr_scan (nodes : Trie) (f : List Str) (fuel n e e' : Nat)
    (rest : List (Nat × Nat)) (acts : List Action) (hn : nodes[n]? = some acts)
    (h : scan f rest.length (acts.drop e) e = scan f rest.length (acts.drop e') e') :
    loop nodes f (fuel + 1) ((n, e) :: rest) = loop nodes f (fuel + 1) ((n, e') :: rest) := by
  simp only [loop, hn, h]

theorem loop_step_push (nodes : Trie) (f : List Str) (fuel n e i t : Nat)
    (rest : List (Nat × Nat)) (acts : List Action) (hn : nodes[n]? = some acts)
    (h : scan f rest.length (acts.drop e) e = .push i t) :
    loop nodes f (fuel + 1) ((n, e) :: rest) = loop nodes f fuel ((t, 0) :: (n, i) :: rest) := by
  simp only [loop, hn, h]

theorem getElem?_eq_head?_drop (f : List Str) (d : Nat) : f[d]? = (f.drop d).head? := by
  simp [List.head?_drop]

/-- Main simulation lemma: started on entry `(n, e)` at depth `rest.length`, the loop ends up
(after `k + 1` more iterations) where the recursive DFS over the unvisited actions says. -/
theorem loop_sim (nodes : Trie) (f : List Str) :
    ∀ (rem : List Str) (rest : List (Nat × Nat)) (n : Nat) (acts as : List Action) (e : Nat),
      f.drop rest.length = rem → nodes[n]? = some acts → acts.drop e = as →
      ∃ k, ∀ fuel, loop nodes f (fuel + (k + 1)) ((n, e) :: rest) =
        resume nodes f fuel rest (dfsFrom nodes f rem as) := by
  intro rem
  induction rem with
  | nil =>
    intro rest n acts as
    induction as with
    | nil =>
      intro e hrem hn has
      refine ⟨0, fun fuel => ?_⟩
      simp only [loop, hn, has, scan, dfsFrom, dfsActs, resume]
      cases rest <;> rfl
    | cons a as ih =>
      intro e hrem hn has
      have has' : acts.drop (e + 1) = as := by
        rw [← List.drop_drop, has]; rfl
      cases a with
      | rw r =>
        refine ⟨0, fun fuel => ?_⟩
        simp only [loop, hn, has, scan, dfsFrom, dfsActs, resume]
      | trans p t =>
        obtain ⟨k, hk⟩ := ih (e + 1) hrem hn has'
        refine ⟨k, fun fuel => ?_⟩
        rw [← Nat.add_assoc, loop_congr_scan nodes f (fuel + k) n e (e + 1) rest acts hn,
          Nat.add_assoc, hk]
        · simp [dfsFrom, dfsActs]
        · have hx : f[rest.length]? = none := by
            rw [getElem?_eq_head?_drop, hrem]; rfl
          rw [has, has']; simp only [scan, hx]
  | cons x rem' ihrem =>
    intro rest n acts as
    induction as with
    | nil =>
      intro e hrem hn has
      refine ⟨0, fun fuel => ?_⟩
      simp only [loop, hn, has, scan, dfsFrom, dfsActs, resume]
      cases rest <;> rfl
    | cons a as ih =>
      intro e hrem hn has
      have has' : acts.drop (e + 1) = as := by
        rw [← List.drop_drop, has]; rfl
      have hx : f[rest.length]? = some x := by
        rw [getElem?_eq_head?_drop, hrem]; rfl
      cases a with
      | rw r =>
        refine ⟨0, fun fuel => ?_⟩
        simp only [loop, hn, has, scan, dfsFrom, dfsActs, resume]
      | trans p t =>
        obtain ⟨k2, hk2⟩ := ih (e + 1) hrem hn has'
        by_cases hp : p.accepts x = true
        · -- the edge matches: descend
          have hrem' : f.drop ((n, e) :: rest).length = rem' := by
            simp only [List.length_cons]
            rw [← List.drop_drop, hrem]; rfl
          have hpush : scan f rest.length (acts.drop e) e = .push e t := by
            rw [has]; simp only [scan, hx, hp, if_true]
          cases ht : nodes[t]? with
          | none =>
            refine ⟨1, fun fuel => ?_⟩
            rw [← Nat.add_assoc, loop_step_push nodes f _ n e e t rest acts hn hpush]
            simp only [loop, ht, dfsFrom_cons_trans, dfsNode_eq, hp, if_true, Res.panic_orElse,
              resume]
          | some tacts =>
            obtain ⟨k1, hk1⟩ := ihrem ((n, e) :: rest) t tacts tacts 0 hrem' ht (by simp)
            refine ⟨k1 + 1 + (k2 + 1), fun fuel => ?_⟩
            have e1 : fuel + (k1 + 1 + (k2 + 1) + 1) = (fuel + (k2 + 1) + (k1 + 1)) + 1 := by omega
            rw [e1, loop_step_push nodes f _ n e e t rest acts hn hpush, hk1]
            simp only [dfsFrom_cons_trans, hp, if_true, dfsNode_eq, ht]
            generalize dfsFrom nodes f rem' tacts = r
            cases r with
            | found out => simp [resume]
            | panic => simp [resume]
            | exhausted =>
              simp only [resume, Res.exhausted_orElse]
              exact hk2 fuel
        · refine ⟨k2, fun fuel => ?_⟩
          rw [← Nat.add_assoc, loop_congr_scan nodes f (fuel + k2) n e (e + 1) rest acts hn,
            Nat.add_assoc, hk2]
          · simp [dfsFrom_cons_trans, hp]
          · rw [has, has']; simp only [scan, hx, hp]; simp

/-- `rewrite` = recursive DFS from the root. -/
theorem rewrite_eq_dfs (nodes : Trie) (f : List Str) :
    rewrite nodes f =
      match dfsNode nodes f f 0 with
      | .found out => .ok (some out)
      | .exhausted => .ok none
      | .panic => .panic := by
  have hne := rewrite_ne_hang nodes f
  unfold rewrite at hne ⊢
  cases h0 : nodes[0]? with
  | none =>
    rw [dfsNode_eq, h0]
    have : fuelBound nodes f = (fuelBound nodes f - 1) + 1 := by unfold fuelBound; omega
    rw [this]; simp [loop, h0]
  | some acts =>
    obtain ⟨k, hk⟩ := loop_sim nodes f f [] 0 acts acts 0 (by simp) h0 (by simp)
    have h1 := hk 1
    have h2 : loop nodes f (1 + (k + 1)) [(0, 0)] ≠ .hang := by
      rw [h1]; cases dfsFrom nodes f f acts <;> simp [resume, loop]
    -- both fuels give the same answer
    have h3 := loop_mono_add nodes f (1 + (k + 1)) (fuelBound nodes f) [(0, 0)] h2
    have h4 := loop_mono_add nodes f (fuelBound nodes f) (1 + (k + 1)) [(0, 0)] hne
    rw [Nat.add_comm] at h3
    rw [← h4, h3, h1, dfsNode_eq, h0]
    simp only
    generalize dfsFrom nodes f f acts = r
    cases r <;> simp [resume, loop]

end Vibrato.Rewriter
