/-
Trie invariants for `add_rule` with the repaired edge-reuse policy (`fixed = true`):
the node numbering is a DFS pre-order, every insertion walks the right-most path, and the new
rule gets the lowest priority in the depth-first search.
-/
import Vibrato.Model.Rewriter
import Vibrato.Proofs.RewriterDfs

namespace Vibrato.Rewriter

/-! ### pattern equality respects matching -/

theorem subset_contains {a b : List Str} (h : subset a b = true) {x : Str}
    (hx : a.contains x = true) : b.contains x = true := by
  unfold subset at h
  rw [List.all_eq_true] at h
  have hm : x ∈ a := by simpa using hx
  exact h x hm

theorem same_accepts {p q : Pattern} (h : p.same q = true) (x : Str) :
    p.accepts x = q.accepts x := by
  cases p <;> cases q <;> simp [Pattern.same] at h
  · rfl
  · subst h; rfl
  · rename_i a b
    simp only [Pattern.accepts]
    cases ha : a.contains x
    · cases hb : b.contains x
      · rfl
      · rw [subset_contains h.2 hb] at ha; cases ha
    · rw [subset_contains h.1 ha]

/-- Position-wise prefix match of a parsed pattern against the remaining features: the feature
list must be at least as long as the pattern. -/
def matchPats : List Pattern → List Str → Bool
  | [], _ => true
  | _ :: _, [] => false
  | p :: ps, x :: xs => p.accepts x && matchPats ps xs

/-! ### `SubA`: the subtrees below an action list occupy consecutive index ranges -/

/-- `SubA nodes acts lo hi`: the targets of the transitions in `acts` and everything below them
lie in `[lo, hi)`, in action order (pre-order numbering). -/
inductive SubA (nodes : Trie) : List Action → Nat → Nat → Prop where
  | nil {lo hi : Nat} : lo ≤ hi → SubA nodes [] lo hi
  | rw {r : List Rewrite} {as : List Action} {lo hi : Nat} :
      SubA nodes as lo hi → SubA nodes (.rw r :: as) lo hi
  | edge {p : Pattern} {t : Nat} {tacts as : List Action} {lo mid hi : Nat} :
      lo ≤ t → nodes[t]? = some tacts → SubA nodes tacts (t + 1) mid → SubA nodes as mid hi →
      SubA nodes (.trans p t :: as) lo hi

theorem SubA.le {nodes : Trie} {acts : List Action} {lo hi : Nat} (h : SubA nodes acts lo hi) :
    lo ≤ hi := by
  induction h with
  | nil h => exact h
  | rw _ ih => exact ih
  | edge h1 _ _ _ ih1 ih2 => omega

theorem SubA.mono {nodes : Trie} {acts : List Action} {lo hi hi' : Nat}
    (h : SubA nodes acts lo hi) (hh : hi ≤ hi') : SubA nodes acts lo hi' := by
  induction h with
  | nil h => exact .nil (by omega)
  | rw _ ih => exact .rw (ih hh)
  | edge h1 h2 h3 _ _ ih2 => exact .edge h1 h2 h3 (ih2 hh)

theorem SubA.append {nodes : Trie} {as bs : List Action} {lo mid hi : Nat}
    (h1 : SubA nodes as lo mid) (h2 : SubA nodes bs mid hi) : SubA nodes (as ++ bs) lo hi := by
  induction h1 with
  | nil h => 
    rename_i lo' hi'
    clear mid
    -- widen the lower end of `bs`
    have : ∀ {bs : List Action} {m hi : Nat}, SubA nodes bs m hi → ∀ l, l ≤ m → SubA nodes bs l hi := by
      intro bs m hi hb
      induction hb with
      | nil h => intro l hl; exact .nil (by omega)
      | rw _ ih => intro l hl; exact .rw (ih l hl)
      | edge a b c d _ _ => intro l hl; exact .edge (by omega) b c d
    exact this h2 _ h
  | rw _ ih => exact .rw (ih h2)
  | edge a b c _ _ ih2 => exact .edge a b c (ih2 h2)

theorem SubA.split {nodes : Trie} {as bs : List Action} {lo hi : Nat}
    (h : SubA nodes (as ++ bs) lo hi) : ∃ mid, SubA nodes as lo mid ∧ SubA nodes bs mid hi := by
  induction as generalizing lo with
  | nil => exact ⟨lo, .nil (Nat.le_refl _), h⟩
  | cons a as ih =>
    cases h with
    | rw h' =>
      obtain ⟨mid, h1, h2⟩ := ih h'
      exact ⟨mid, .rw h1, h2⟩
    | edge a b c d =>
      obtain ⟨mid, h1, h2⟩ := ih d
      exact ⟨mid, .edge a b c h1, h2⟩

theorem SubA.frame {nodes nodes' : Trie} {acts : List Action} {lo hi : Nat}
    (h : SubA nodes acts lo hi) (hag : ∀ i, lo ≤ i → i < hi → nodes'[i]? = nodes[i]?) :
    SubA nodes' acts lo hi := by
  induction h with
  | nil h => exact .nil h
  | rw _ ih => exact .rw (ih hag)
  | @edge p t tacts as lo mid hi h1 h2 h3 h4 ih3 ih4 =>
    have l3 := h3.le
    have l4 := h4.le
    refine .edge h1 ?_ (ih3 ?_) (ih4 ?_)
    · rw [hag t h1 (by omega)]; exact h2
    · intro i hi1 hi2; exact hag i (by omega) (by omega)
    · intro i hi1 hi2; exact hag i (by omega) hi2

/-- The search below an action list only reads the nodes of its index range. -/
theorem dfsFrom_frame {nodes nodes' : Trie} (f : List Str) :
    ∀ (rem : List Str) {acts : List Action} {lo hi : Nat}, SubA nodes acts lo hi →
      (∀ i, lo ≤ i → i < hi → nodes'[i]? = nodes[i]?) →
      dfsFrom nodes' f rem acts = dfsFrom nodes f rem acts := by
  intro rem
  induction rem with
  | nil => intro acts lo hi _ _; rfl
  | cons x rem ihrem =>
    intro acts lo hi h
    induction h with
    | nil h => intro _; rfl
    | rw _ _ => intro _; rfl
    | @edge p t tacts as lo mid hi h1 h2 h3 h4 _ ih4 =>
      intro hag
      have l3 := h3.le
      have l4 := h4.le
      rw [dfsFrom_cons_trans, dfsFrom_cons_trans,
        ih4 (fun i hi1 hi2 => hag i (by omega) hi2), dfsNode_eq, dfsNode_eq,
        hag t h1 (by omega), h2]
      simp only
      rw [ihrem h3 (fun i hi1 hi2 => hag i (by omega) (by omega))]

/-! ### vector updates -/

theorem getElem?_grow_ne (nodes : Trie) (c : Nat) (g : List Action → List Action) (i : Nat)
    (hi : i < nodes.length) (hc : i ≠ c) :
    (nodes.modify c g ++ [[]])[i]? = nodes[i]? := by
  rw [List.getElem?_append_left (by simpa using hi), List.getElem?_modify]
  simp [Ne.symm hc]

theorem getElem?_grow_eq (nodes : Trie) (c : Nat) (g : List Action → List Action)
    (acts : List Action) (h : nodes[c]? = some acts) :
    (nodes.modify c g ++ [[]])[c]? = some (g acts) := by
  have hc : c < nodes.length := by
    rcases Nat.lt_or_ge c nodes.length with h' | h'
    · exact h'
    · rw [List.getElem?_eq_none h'] at h; cases h
  rw [List.getElem?_append_left (by simpa using hc), List.getElem?_modify]
  simp [h]

theorem getElem?_grow_new (nodes : Trie) (c : Nat) (g : List Action → List Action) :
    (nodes.modify c g ++ [[]])[nodes.length]? = some [] := by
  rw [List.getElem?_append_right (by simp)]
  simp

theorem lt_length_of_getElem? {α : Type} {l : List α} {i : Nat} {a : α} (h : l[i]? = some a) :
    i < l.length := by
  rcases Nat.lt_or_ge i l.length with h' | h'
  · exact h'
  · rw [List.getElem?_eq_none h'] at h; cases h

/-! ### `findEdge true` -/

theorem findEdge_true_some {acts : List Action} {parsed : Pattern} {t : Nat}
    (h : findEdge true acts parsed = some t) :
    ∃ q ys, parsed.same q = true ∧ acts = ys ++ [.trans q t] := by
  simp only [findEdge, if_true] at h
  cases hl : acts.getLast? with
  | none => simp [hl] at h
  | some a =>
    simp only [hl] at h
    cases a with
    | rw r => simp [edgeTo] at h
    | trans q t' =>
      simp only [edgeTo] at h
      split at h
      · rename_i hs
        cases h
        obtain ⟨ys, hys⟩ := List.getLast?_eq_some_iff.mp hl
        exact ⟨q, ys, hs, hys⟩
      · cases h

/-! ### the insertion lemma -/

/-- The last step of `add_rule`: push the rewrite action at the final cursor. -/
def finish (nodes : Trie) (cur : Nat) (rs : List Rewrite) : Trie :=
  nodes.modify cur (fun a => a ++ [Action.rw rs])

/-- What the new rule contributes to the search at remaining features `rem`. -/
def ruleRes (f : List Str) (ps : List Pattern) (rs : List Rewrite) (rem : List Str) : Res :=
  if matchPats ps rem then .found (applyRewrite rs f) else .exhausted

theorem insert_true (f : List Str) (rs : List Rewrite) :
    ∀ (ps : List Str) (nodes : Trie) (c : Nat) (acts : List Action),
      nodes[c]? = some acts → SubA nodes acts (c + 1) nodes.length →
      ∃ nodes' cur cacts, addPattern true ps nodes c = .ok (nodes', cur) ∧
        nodes'[cur]? = some cacts ∧
        nodes.length ≤ (finish nodes' cur rs).length ∧
        (∀ i, i < c → (finish nodes' cur rs)[i]? = nodes[i]?) ∧
        ∃ acts'', (finish nodes' cur rs)[c]? = some acts'' ∧
          SubA (finish nodes' cur rs) acts'' (c + 1) (finish nodes' cur rs).length ∧
          ∀ rem, dfsFrom (finish nodes' cur rs) f rem acts'' =
            (dfsFrom nodes f rem acts).orElse (ruleRes f (ps.map parsePattern) rs rem) := by
  intro ps
  induction ps with
  | nil =>
    intro nodes c acts hc hsub
    have hclt := lt_length_of_getElem? hc
    have hag : ∀ i, i ≠ c → (finish nodes c rs)[i]? = nodes[i]? := by
      intro i hi
      simp only [finish, List.getElem?_modify]
      simp [Ne.symm hi]
    refine ⟨nodes, c, acts, rfl, hc, by simp [finish], fun i hi => hag i (by omega),
      acts ++ [.rw rs], ?_, ?_, ?_⟩
    · simp [finish, hc]
    · have : (finish nodes c rs).length = nodes.length := by simp [finish]
      rw [this]
      exact (hsub.frame (fun i h1 _ => hag i (by omega))).append (.rw (.nil (Nat.le_refl _)))
    · intro rem
      rw [dfsFrom_append, dfsFrom_frame f rem hsub (fun i h1 _ => hag i (by omega))]
      simp [ruleRes, matchPats]
  | cons p ps ih =>
    intro nodes c acts hc hsub
    have hclt := lt_length_of_getElem? hc
    simp only [addPattern, hc]
    cases hfe : findEdge true acts (parsePattern p) with
    | some t =>
      -- reuse the last edge of the node
      simp only
      obtain ⟨q, ys, hsame, hacts⟩ := findEdge_true_some hfe
      have hsub' := hsub
      rw [hacts] at hsub'
      obtain ⟨mid, hs1, hs2⟩ := hsub'.split
      cases hs2 with
      | edge hmt htn hst hnil =>
        rename_i tacts mid2
        have hle1 := hs1.le
        have hle2 := hst.le
        have hle3 := hnil.le
        obtain ⟨nodes', cur, cacts, hadd, hcur, hlen, hag, tacts'', htn'', hsub'', hdfs⟩ :=
          ih nodes t tacts htn (hst.mono hle3)
        refine ⟨nodes', cur, cacts, hadd, hcur, hlen, fun i hi => hag i (by omega), acts, ?_, ?_, ?_⟩
        · rw [hag c (by omega)]; exact hc
        · rw [hacts]
          refine (hs1.frame (fun i h1 h2 => hag i (by omega))).append ?_
          exact .edge hmt htn'' hsub'' (.nil (Nat.le_refl _))
        · intro rem
          rw [hacts, dfsFrom_append, dfsFrom_append,
            dfsFrom_frame f rem hs1 (fun i h1 h2 => hag i (by omega)), Res.orElse_assoc]
          congr 1
          cases rem with
          | nil => simp [ruleRes, matchPats]
          | cons x rem =>
            simp only [dfsFrom_cons_trans, dfsFrom_nil, Res.orElse_exhausted, dfsNode_eq, htn,
              htn'', hdfs rem, ruleRes, List.map_cons, matchPats, same_accepts hsame x]
            cases q.accepts x <;> simp
    | none =>
      -- create a new edge and a new node
      simp only
      have hnew := getElem?_grow_new nodes c (fun a => a ++ [Action.trans (parsePattern p) nodes.length])
      have hlen1 : (nodes.modify c (fun a => a ++ [Action.trans (parsePattern p) nodes.length])
          ++ [[]]).length = nodes.length + 1 := by simp
      obtain ⟨nodes', cur, cacts, hadd, hcur, hlen, hag, nacts'', hn'', hsub'', hdfs⟩ :=
        ih _ nodes.length [] hnew (by rw [hlen1]; exact .nil (Nat.le_refl _))
      have hag' : ∀ i, i < nodes.length → i ≠ c → (finish nodes' cur rs)[i]? = nodes[i]? := by
        intro i h1 h2
        rw [hag i h1, getElem?_grow_ne nodes c _ i h1 h2]
      refine ⟨nodes', cur, cacts, hadd, hcur, by omega, fun i hi => hag' i (by omega) (by omega),
        acts ++ [.trans (parsePattern p) nodes.length], ?_, ?_, ?_⟩
      · rw [hag c hclt, getElem?_grow_eq nodes c _ acts hc]
      · refine (hsub.frame (fun i h1 h2 => hag' i h2 (by omega))).append ?_
        exact .edge (Nat.le_refl _) hn'' hsub'' (.nil (Nat.le_refl _))
      · intro rem
        rw [dfsFrom_append, dfsFrom_frame f rem hsub (fun i h1 h2 => hag' i h2 (by omega))]
        congr 1
        cases rem with
        | nil => simp [ruleRes, matchPats]
        | cons x rem =>
          simp only [dfsFrom_cons_trans, dfsFrom_nil, Res.orElse_exhausted, dfsNode_eq, hn'',
            hdfs rem, ruleRes, List.map_cons, matchPats]
          cases (parsePattern p).accepts x <;> simp

end Vibrato.Rewriter
