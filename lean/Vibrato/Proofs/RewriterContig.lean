/-
Pinned policy (`fixed = false`): when no two rules share a pattern prefix with a different rule
registered in between, `add_rule` only ever reuses the LAST action of a node, so it builds the
same trie as the repaired policy.
-/
import Vibrato.Model.Rewriter
import Vibrato.Model.RewriterSpec
import Vibrato.Proofs.RewriterFlat

namespace Vibrato.Rewriter

/-- The first `n` cells exist in both patterns and are pairwise equal (`Pattern.same`). -/
def shareB : Nat → List Pattern → List Pattern → Bool
  | 0, _, _ => true
  | n + 1, p :: ps, q :: qs => p.same q && shareB n ps qs
  | _ + 1, _, _ => false

/-- No earlier pair of stored rules is separated by the new rule's prefixes: if an earlier rule
`a` shares its first `n` cells with the new rule, every rule after `a` shares them too. -/
def ContigNew (R : List PRule) (new : List Pattern) : Prop :=
  R.Pairwise (fun a b => ∀ n, shareB n a.1 new = true → shareB n a.1 b.1 = true)

def edgesDiffer : Action → Action → Prop
  | .trans p _, .trans q _ => p.same q = false
  | _, _ => True

/-- The transitions of a node have pairwise different patterns. -/
def DistinctEdges (acts : List Action) : Prop := acts.Pairwise edgesDiffer

def DistinctAll (nodes : Trie) : Prop :=
  ∀ (c : Nat) (acts : List Action), nodes[c]? = some acts → DistinctEdges acts

theorem flat_singleton_ne_nil {nodes : Trie} {a : Action} {R : List PRule}
    (h : FlatA nodes [a] R) : R ≠ [] := by
  cases h with
  | rw _ => simp
  | edge _ b _ _ _ =>
    intro h
    exact b (List.append_eq_nil_iff.mp h).1

/-- Under the contiguity hypothesis the pinned lookup finds what the repaired lookup finds. -/
theorem findEdge_false_eq_true {nodes : Trie} {acts : List Action} {Rc : List PRule}
    {P : Pattern} {rest : List Pattern} (hflat : FlatA nodes acts Rc)
    (hd : DistinctEdges acts) (hc : ContigNew Rc (P :: rest)) :
    findEdge false acts P = findEdge true acts P := by
  rcases List.eq_nil_or_concat acts with rfl | ⟨ys, a, rfl⟩
  · rfl
  · rw [List.concat_eq_append] at hflat hd ⊢
    simp only [findEdge, Bool.false_eq_true, if_false, if_true, List.getLast?_concat,
      List.findSome?_append]
    suffices hnone : List.findSome? (edgeTo P) ys = none by
      rw [hnone]; simp [List.findSome?]
      cases edgeTo P a <;> rfl
    cases hfs : List.findSome? (edgeTo P) ys with
    | none => rfl
    | some t' =>
      exfalso
      obtain ⟨b, hb, hbt⟩ := List.exists_of_findSome?_eq_some hfs
      cases b with
      | rw r => simp [edgeTo] at hbt
      | trans q t =>
        simp only [edgeTo] at hbt
        have hPq : P.same q = true := by
          cases hs : P.same q
          · rw [hs] at hbt; cases hbt
          · rfl
        obtain ⟨y1, y2, rfl⟩ := List.append_of_mem hb
        -- split the flattened list along `y1 ++ trans q t :: y2 ++ [a]`
        rw [List.append_assoc] at hflat hd
        obtain ⟨R1, R2, rfl, _, hf2⟩ := hflat.split
        rw [List.cons_append] at hf2 hd
        cases hf2 with
        | edge hq1 hBne hBh hq4 hq5 =>
          rename_i tacts B Rr
          obtain ⟨R3, R4, rfl, _, hfa⟩ := hq5.split
          obtain ⟨ri, B', rfl⟩ := List.exists_cons_of_ne_nil hBne
          -- the relation between `ri` and every rule of the last action's block
          have hrel : ∀ rj ∈ R4, ∀ n, shareB n ri.1 (P :: rest) = true →
              shareB n ri.1 rj.1 = true := by
            intro rj hrj
            unfold ContigNew at hc
            rw [List.pairwise_append] at hc
            have h2 := hc.2.1
            rw [List.pairwise_append] at h2
            exact h2.2.2 ri List.mem_cons_self rj (by simp [hrj])
          have hri := hBh ri List.mem_cons_self
          -- the two edges `q` (earlier) and `a` (last) must differ
          have hdiff : edgesDiffer (.trans q t) a := by
            unfold DistinctEdges at hd
            rw [List.pairwise_append] at hd
            have := hd.2.1
            rw [List.pairwise_cons] at this
            exact this.1 a (by simp)
          cases hri1 : ri.1 with
          | nil => rw [hri1] at hri; simp [headSame] at hri
          | cons h u =>
            rw [hri1] at hri hrel
            simp only [headSame] at hri
            have hshare : shareB 1 (h :: u) (P :: rest) = true := by
              simp only [shareB, Bool.and_true]
              exact same_trans hri (same_symm hPq)
            cases hfa with
            | rw _ =>
              have h1 := hrel _ List.mem_cons_self 1 hshare
              simp [shareB] at h1
            | @edge q2 t2 tacts2 _ B2 Rn _ hB2ne hBh2 _ hnil =>
              cases hnil
              obtain ⟨rj, B2', rfl⟩ := List.exists_cons_of_ne_nil hB2ne
              have h1 := hrel rj (by simp) 1 hshare
              have hrj := hBh2 rj List.mem_cons_self
              cases hrj1 : rj.1 with
              | nil => rw [hrj1] at hrj; simp [headSame] at hrj
              | cons h2 u2 =>
                rw [hrj1] at hrj h1
                simp only [headSame] at hrj
                simp only [shareB, Bool.and_true] at h1
                have : q.same q2 = true := same_trans (same_trans (same_symm hri) h1) hrj
                simp only [edgesDiffer] at hdiff
                rw [this] at hdiff
                cases hdiff

/-- Descending along a reused edge keeps the contiguity hypothesis. -/
theorem contigNew_descend {R1 B : List PRule} {q P : Pattern} {rest : List Pattern}
    (hc : ContigNew (R1 ++ (B ++ [])) (P :: rest)) (hB : ∀ b ∈ B, headSame q b.1 = true)
    (hPq : P.same q = true) : ContigNew (B.map tl) rest := by
  unfold ContigNew at hc ⊢
  rw [List.pairwise_append] at hc
  have h2 := hc.2.1
  rw [List.append_nil] at h2
  rw [List.pairwise_map]
  refine List.Pairwise.imp_of_mem ?_ h2
  intro a b ha hb hrel n hn
  have hha := hB a ha
  have hhb := hB b hb
  cases ha1 : a.1 with
  | nil => rw [ha1] at hha; simp [headSame] at hha
  | cons h u =>
    cases hb1 : b.1 with
    | nil => rw [hb1] at hhb; simp [headSame] at hhb
    | cons h2 u2 =>
      rw [ha1] at hha hrel
      rw [hb1] at hrel
      simp only [tl, ha1, hb1, List.tail_cons] at hn ⊢
      simp only [headSame] at hha
      have := hrel (n + 1) (by
        simp only [shareB, Bool.and_eq_true]
        exact ⟨same_trans hha (same_symm hPq), hn⟩)
      simp only [shareB, Bool.and_eq_true] at this
      exact this.2

/-- From a fresh (empty) node both policies only create new nodes. -/
theorem addPattern_fresh (ps : List Str) :
    ∀ (nodes : Trie) (c : Nat), nodes[c]? = some [] →
      addPattern false ps nodes c = addPattern true ps nodes c := by
  induction ps with
  | nil => intro nodes c _; rfl
  | cons p ps ih =>
    intro nodes c hc
    simp only [addPattern, hc, findEdge, List.findSome?, List.getLast?]
    simp only [Bool.false_eq_true, if_false, if_true]
    exact ih _ _ (getElem?_grow_new nodes c _)

theorem addPattern_false_eq_true :
    ∀ (ps : List Str) (nodes : Trie) (c : Nat) (acts : List Action) (Rc : List PRule),
      nodes[c]? = some acts → SubA nodes acts (c + 1) nodes.length → FlatA nodes acts Rc →
      DistinctAll nodes → ContigNew Rc (ps.map parsePattern) →
      addPattern false ps nodes c = addPattern true ps nodes c := by
  intro ps
  induction ps with
  | nil => intros; rfl
  | cons p ps ih =>
    intro nodes c acts Rc hc hsub hflat hd hcn
    simp only [addPattern, hc]
    rw [List.map_cons] at hcn
    rw [findEdge_false_eq_true hflat (hd c acts hc) hcn]
    cases hfe : findEdge true acts (parsePattern p) with
    | none => exact addPattern_fresh ps _ _ (getElem?_grow_new nodes c _)
    | some t =>
      simp only
      obtain ⟨q, ys, hsame, rfl⟩ := findEdge_true_some hfe
      obtain ⟨mid, hs1, hs2⟩ := hsub.split
      obtain ⟨R1, R2, rfl, hf1, hf2⟩ := hflat.split
      cases hs2 with
      | edge hmt htn hst hnil =>
        cases hf2 with
        | edge a b cc d e =>
          rename_i tacts' B R
          cases e
          rw [htn] at a
          cases a
          exact ih nodes t _ (B.map tl) htn (hst.mono hnil.le) d hd
            (contigNew_descend hcn cc hsame)

/-! ### `DistinctAll` is preserved by the pinned builder -/

theorem distinctEdges_snoc_rw {acts : List Action} {r : List Rewrite} (h : DistinctEdges acts) :
    DistinctEdges (acts ++ [.rw r]) := by
  unfold DistinctEdges at h ⊢
  rw [List.pairwise_append]
  refine ⟨h, by simp, ?_⟩
  intro a _ b hb
  simp only [List.mem_singleton] at hb
  subst hb
  cases a <;> trivial

theorem distinctEdges_snoc_trans {acts : List Action} {P : Pattern} {t : Nat}
    (h : DistinctEdges acts) (hnone : findEdge false acts P = none) :
    DistinctEdges (acts ++ [.trans P t]) := by
  unfold DistinctEdges at h ⊢
  rw [List.pairwise_append]
  refine ⟨h, by simp, ?_⟩
  intro a ha b hb
  simp only [List.mem_singleton] at hb
  subst hb
  simp only [findEdge, Bool.false_eq_true, if_false, List.findSome?_eq_none_iff] at hnone
  have := hnone a ha
  cases a with
  | rw r => trivial
  | trans q t' =>
    simp only [edgeTo] at this
    simp only [edgesDiffer]
    cases hs : q.same P
    · rfl
    · rw [same_symm hs] at this; simp at this

theorem distinctAll_modify {nodes : Trie} {c : Nat} {g : List Action → List Action}
    (h : DistinctAll nodes) (hg : ∀ acts, nodes[c]? = some acts → DistinctEdges (g acts)) :
    DistinctAll (nodes.modify c g) := by
  intro i acts hi
  rw [List.getElem?_modify] at hi
  by_cases hci : c = i
  · subst hci
    simp only [if_true] at hi
    cases hn : nodes[c]? with
    | none => rw [hn] at hi; cases hi
    | some a => rw [hn] at hi; simp at hi; subst hi; exact hg a hn
  · simp only [hci, if_false] at hi
    exact h i acts (by simpa using hi)

theorem distinctAll_grow {nodes : Trie} (h : DistinctAll nodes) :
    DistinctAll (nodes ++ [[]]) := by
  intro i acts hi
  by_cases hlt : i < nodes.length
  · rw [List.getElem?_append_left hlt] at hi; exact h i acts hi
  · rw [List.getElem?_append_right (by omega)] at hi
    have : acts = [] := by
      cases hk : i - nodes.length with
      | zero => rw [hk] at hi; simp at hi; exact hi
      | succ k => rw [hk] at hi; simp at hi
    subst this
    exact List.Pairwise.nil

theorem addPattern_false_distinct :
    ∀ (ps : List Str) (nodes : Trie) (c : Nat) (nodes' : Trie) (cur : Nat),
      DistinctAll nodes → addPattern false ps nodes c = .ok (nodes', cur) → DistinctAll nodes' := by
  intro ps
  induction ps with
  | nil =>
    intro nodes c nodes' cur hd h
    simp only [addPattern, Outcome.ok.injEq, Prod.mk.injEq] at h
    obtain ⟨rfl, _⟩ := h
    exact hd
  | cons p ps ih =>
    intro nodes c nodes' cur hd h
    simp only [addPattern] at h
    cases hc : nodes[c]? with
    | none => rw [hc] at h; cases h
    | some acts =>
      rw [hc] at h
      simp only at h
      cases hfe : findEdge false acts (parsePattern p) with
      | some t => rw [hfe] at h; exact ih nodes t nodes' cur hd h
      | none =>
        rw [hfe] at h
        refine ih _ _ nodes' cur ?_ h
        apply distinctAll_grow
        apply distinctAll_modify hd
        intro acts' hacts'
        rw [hc] at hacts'
        cases hacts'
        exact distinctEdges_snoc_trans (hd c acts hc) hfe

theorem addRule_false_distinct {nodes nodes' : Trie} {pat rew : List Str}
    (hd : DistinctAll nodes) (h : addRule false nodes pat rew = .ok nodes') :
    DistinctAll nodes' := by
  unfold addRule at h
  rcases addPattern_ok_or_panic false pat nodes 0 with ⟨⟨n1, cur⟩, hr⟩ | hr
  · rw [hr] at h
    simp only at h
    rcases parseRewrites_ok_or_panic rew with ⟨rs, hrs⟩ | hrs
    · rw [hrs] at h
      simp only at h
      cases hcur : n1[cur]? with
      | none => rw [hcur] at h; cases h
      | some a =>
        rw [hcur] at h
        simp only [Outcome.ok.injEq] at h
        subst h
        apply distinctAll_modify (addPattern_false_distinct pat nodes 0 n1 cur hd hr)
        intro acts' hacts'
        exact distinctEdges_snoc_rw (addPattern_false_distinct pat nodes 0 n1 cur hd hr cur acts' hacts')
    · rw [hrs] at h; cases h
  · rw [hr] at h; cases h

/-! ### the two builders agree -/

/-- Trie invariant carried along the rule list: well-formed, flattening = the rules registered
so far, pairwise different edges. -/
def TrieInv (nodes : Trie) (R : List PRule) : Prop :=
  ∃ acts, nodes[0]? = some acts ∧ SubA nodes acts 1 nodes.length ∧ FlatA nodes acts R ∧
    DistinctAll nodes

theorem inv_init : TrieInv [[]] [] := by
  refine ⟨[], rfl, .nil (Nat.le_refl _), .nil, ?_⟩
  intro c acts h
  cases c with
  | zero => simp at h; subst h; exact List.Pairwise.nil
  | succ c => simp at h

theorem addRule_false_eq_true {nodes : Trie} {R : List PRule} (hinv : TrieInv nodes R)
    (pat rew : List Str) (hc : ContigNew R (pat.map parsePattern)) :
    addRule false nodes pat rew = addRule true nodes pat rew := by
  obtain ⟨acts, h0, hsub, hflat, hd⟩ := hinv
  unfold addRule
  rw [addPattern_false_eq_true pat nodes 0 acts R h0 hsub hflat hd hc]

theorem addRule_inv {nodes : Trie} {R : List PRule} (hinv : TrieInv nodes R)
    (pat rew : List Str) (rs : List Rewrite) (hrs : parseRewrites rew = .ok rs)
    (hc : ContigNew R (pat.map parsePattern)) :
    ∃ nodes', addRule true nodes pat rew = .ok nodes' ∧
      TrieInv nodes' (R ++ [(pat.map parsePattern, rs)]) := by
  have heq := addRule_false_eq_true hinv pat rew hc
  obtain ⟨acts, h0, hsub, hflat, hd⟩ := hinv
  obtain ⟨nodes', cur, cacts, hadd, hcur, _, _, acts'', h0'', hsub'', _⟩ :=
    insert_true [] rs pat nodes 0 acts h0 hsub
  obtain ⟨acts2, h02, hflat2⟩ := insert_true_flat rs pat nodes 0 acts R h0 hsub hflat nodes' cur hadd
  rw [h0''] at h02
  cases h02
  have hres : addRule true nodes pat rew = .ok (finish nodes' cur rs) := by
    simp only [addRule, hadd, hrs, hcur, finish]
  refine ⟨finish nodes' cur rs, hres, ⟨acts'', h0'', hsub'', hflat2, ?_⟩⟩
  rw [← heq] at hres
  exact addRule_false_distinct hd hres

/-- Contiguity of a whole rule list relative to what is already stored: every rule is
`ContigNew` w.r.t. everything registered before it. -/
def ContigFrom (R : List (List Pattern)) : List RawRule → Prop
  | [] => True
  | r :: rs =>
    R.Pairwise (fun a b => ∀ n, shareB n a (r.1.map parsePattern) = true → shareB n a b = true) ∧
    ContigFrom (R ++ [r.1.map parsePattern]) rs

theorem buildFrom_false_eq_true :
    ∀ (rules : List RawRule) (nodes : Trie) (R : List PRule), TrieInv nodes R →
      ContigFrom (R.map (·.1)) rules → buildFrom false nodes rules = buildFrom true nodes rules := by
  intro rules
  induction rules with
  | nil => intros; rfl
  | cons r rules ih =>
    intro nodes R hinv hc
    obtain ⟨hc1, hc2⟩ := hc
    have hcn : ContigNew R (r.1.map parsePattern) := by
      unfold ContigNew
      rw [List.pairwise_map] at hc1
      exact hc1
    simp only [buildFrom]
    rw [addRule_false_eq_true hinv r.1 r.2 hcn]
    rcases parseRewrites_ok_or_panic r.2 with ⟨rs, hrs⟩ | hrs
    · obtain ⟨nodes', hadd, hinv'⟩ := addRule_inv hinv r.1 r.2 rs hrs hcn
      rw [hadd]
      simp only
      apply ih nodes' _ hinv'
      simpa using hc2
    · rw [addRule_panic_of_rewrites true nodes r.1 r.2 hrs]

end Vibrato.Rewriter

namespace Vibrato.Rewriter

theorem shareB_map (n : Nat) (xs ys : List Str) :
    shareB n (xs.map parsePattern) (ys.map parsePattern) = sharePrefix n xs ys := by
  induction n generalizing xs ys with
  | zero => rfl
  | succ n ih =>
    cases xs with
    | nil => rfl
    | cons x xs =>
      cases ys with
      | nil => rfl
      | cons y ys => simp [shareB, sharePrefix, sameCell, ih]

theorem contigFrom_of_noInterleaving :
    ∀ (B A : List RawRule), NoInterleaving (A ++ B) →
      ContigFrom (A.map (fun r => r.1.map parsePattern)) B := by
  intro B
  induction B with
  | nil => intros; trivial
  | cons r B ih =>
    intro A h
    refine ⟨?_, ?_⟩
    · rw [List.pairwise_map, List.pairwise_iff_getElem]
      intro i j hi hj hij n hn
      rw [shareB_map] at hn ⊢
      refine h i j A.length A[i] A[j] r hij hj ?_ ?_ ?_ n hn
      · rw [List.getElem?_append_left hi]; exact List.getElem?_eq_getElem hi
      · rw [List.getElem?_append_left hj]; exact List.getElem?_eq_getElem hj
      · rw [List.getElem?_append_right (Nat.le_refl _)]; simp
    · have := ih (A ++ [r]) (by rw [List.append_assoc]; exact h)
      simpa using this

/-- On rule lists without interleaving the pinned builder produces the same trie (or the same
panic) as the repaired one. -/
theorem build_false_eq_true (rules : List RawRule) (h : NoInterleaving rules) :
    build false rules = build true rules := by
  unfold build
  apply buildFrom_false_eq_true rules [[]] [] inv_init
  exact contigFrom_of_noInterleaving rules [] h

end Vibrato.Rewriter
