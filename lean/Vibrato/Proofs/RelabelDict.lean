/-
Relabelling of connection ids at the level of the tokenizer's view of a dictionary
(`TokDict`): if every parameter triple of `T'` is that of `T` with ids mapped by `σL`/`σR`
and connection costs between mapped ids are the original costs, tokenization is the same up to
the ids.  Helper lemmas for C06.
-/
import Vibrato.Proofs.Relabel
import Vibrato.Proofs.TokenizerEnv

namespace Vibrato

def relParam (σL σR : Nat → Nat) (p : WordParam) : WordParam :=
  { p with leftId := σL p.leftId, rightId := σR p.rightId }

def relEntry (σL σR : Nat → Nat) (e : LexEntry) : LexEntry :=
  { e with param := relParam σL σR e.param }

/-- right ids occurring in the dictionary (plus 0 for BOS) -/
def DUsedR (T : TokDict) (r : Nat) : Prop :=
  r = 0 ∨ (∃ e ∈ T.sys, e.param.rightId = r) ∨ (∃ u, T.user = some u ∧ ∃ e ∈ u, e.param.rightId = r) ∨
    (∃ b, ∃ p ∈ T.unkOf b, p.2.rightId = r)

/-- left ids occurring in the dictionary (plus 0 for EOS) -/
def DUsedL (T : TokDict) (l : Nat) : Prop :=
  l = 0 ∨ (∃ e ∈ T.sys, e.param.leftId = l) ∨ (∃ u, T.user = some u ∧ ∃ e ∈ u, e.param.leftId = l) ∨
    (∃ b, ∃ p ∈ T.unkOf b, p.2.leftId = l)

/-- `T'` is `T` with connection ids relabelled by `σL`, `σR`. -/
structure TokDictRel (σL σR : Nat → Nat) (T T' : TokDict) : Prop where
  sys : T'.sys = T.sys.map (relEntry σL σR)
  user : T'.user = T.user.map (·.map (relEntry σL σR))
  unkOf : ∀ b, T'.unkOf b = (T.unkOf b).map fun p => (p.1, relParam σL σR p.2)
  charInfo : ∀ c, T'.charInfo c = T.charInfo c
  zeroL : σL 0 = 0
  zeroR : σR 0 = 0
  conn : ∀ r l, DUsedR T r → DUsedL T l → T'.conn (σR r) (σL l) = T.conn r l

theorem lexMatches_rel (σL σR : Nat → Nat) (es : List LexEntry) (lt : Nat) (suffix : List Nat)
    (sw : Nat) :
    lexMatches (es.map (relEntry σL σR)) lt suffix sw =
      (lexMatches es lt suffix sw).map (Ren.ofIds σL σR).cand := by
  unfold lexMatches
  rw [List.map_flatMap]
  congr 1
  funext l
  rw [List.zipIdx_map, List.filter_map, List.map_map, List.map_map]
  have : ((fun x : LexEntry × Nat => x.1.surface == List.take l suffix) ∘
      Prod.map (relEntry σL σR) id) = fun x : LexEntry × Nat => x.1.surface == List.take l suffix := by
    funext x; rfl
  rw [this]
  apply List.map_congr_left
  intro x _
  rfl

theorem scanEntries_rel (σL σR : Nat → Nat) (unk : List (Nat × WordParam)) (e : Nat) :
    scanEntries (unk.map fun p => (p.1, relParam σL σR p.2)) e =
      (scanEntries unk e).map (Ren.ofIds σL σR).cand := by
  unfold scanEntries
  rw [List.map_map, List.map_map]
  apply List.map_congr_left
  intro x _
  rfl

theorem genUnk_rel (σL σR : Nat → Nat) (ci : CharInfo) (g len start : Nat) (hm : Bool)
    (mg : Option Nat) (unk : List (Nat × WordParam)) :
    genUnk ci g len start hm mg (unk.map fun p => (p.1, relParam σL σR p.2)) =
      (genUnk ci g len start hm mg unk).map (Ren.ofIds σL σR).cand := by
  unfold genUnk
  simp only [scanEntries_rel]
  split
  · rfl
  · simp only [List.map_append, List.map_flatMap]
    congr 1
    · congr 1
      split <;> rfl
    · split <;> rfl

theorem compileSent_rel {σL σR : Nat → Nat} {T T' : TokDict} (h : TokDictRel σL σR T T')
    (chars : List Nat) : compileSent T' chars = compileSent T chars := by
  unfold compileSent
  have : chars.map T'.charInfo = chars.map T.charInfo :=
    List.map_congr_left (fun c _ => h.charInfo c)
  rw [this]

theorem candsAt_rel {σL σR : Nat → Nat} {T T' : TokDict} (h : TokDictRel σL σR T T')
    (S : Sent) (o : TokOpts) (sw : Nat) :
    candsAt T' S o sw = (candsAt T S o sw).map (Ren.ofIds σL σR).cand := by
  unfold candsAt
  simp only [h.sys, h.user, h.unkOf, lexMatches_rel, genUnk_rel, List.map_append]
  cases T.user with
  | none => simp
  | some u => simp [lexMatches_rel]

theorem latEnvOf_rel {σL σR : Nat → Nat} {T T' : TokDict} (h : TokDictRel σL σR T T')
    (chars : List Nat) (o : TokOpts) :
    RenOK (Ren.ofIds σL σR) (latEnvOf T (compileSent T chars) o)
      (latEnvOf T' (compileSent T' chars) o) := by
  rw [compileSent_rel h]
  have hlen : (latEnvOf T (compileSent T chars) o).len = chars.length := by
    simp [latEnvOf, compileSent]
  refine ⟨rfl, fun _ _ => rfl, fun sw _ => candsAt_rel h _ o sw, h.zeroL, h.zeroR, ?_⟩
  intro r l hr hl
  apply h.conn
  · rcases hr with rfl | ⟨sw, hsw, c, hc, rfl⟩
    · exact Or.inl rfl
    · rw [hlen] at hsw
      rcases (candsAt_spec T chars o sw hsw c hc).2.2 with ⟨_, e, he, _, hp⟩ | ⟨_, u, e, hu, he, _, hp⟩ |
          ⟨_, p, hp, _, hpp⟩
      · exact Or.inr (Or.inl ⟨e, List.mem_of_getElem? he, by rw [hp]⟩)
      · exact Or.inr (Or.inr (Or.inl ⟨u, hu, e, List.mem_of_getElem? he, by rw [hp]⟩))
      · exact Or.inr (Or.inr (Or.inr ⟨_, p, hp, by rw [hpp]⟩))
  · rcases hl with rfl | ⟨sw, hsw, c, hc, rfl⟩
    · exact Or.inl rfl
    · rw [hlen] at hsw
      rcases (candsAt_spec T chars o sw hsw c hc).2.2 with ⟨_, e, he, _, hp⟩ | ⟨_, u, e, hu, he, _, hp⟩ |
          ⟨_, p, hp, _, hpp⟩
      · exact Or.inr (Or.inl ⟨e, List.mem_of_getElem? he, by rw [hp]⟩)
      · exact Or.inr (Or.inr (Or.inl ⟨u, hu, e, List.mem_of_getElem? he, by rw [hp]⟩))
      · exact Or.inr (Or.inr (Or.inr ⟨_, p, hp, by rw [hpp]⟩))

/-- Tokenization with a relabelled dictionary: same tokens, ids relabelled. -/
theorem tokenize_rel {σL σR : Nat → Nat} {T T' : TokDict} (h : TokDictRel σL σR T T')
    (o : TokOpts) (chars : List Nat) :
    tokenize T' o chars = (tokenize T o chars).map (·.map (Ren.ofIds σL σR).tok) := by
  unfold tokenize
  split
  · rfl
  · obtain ⟨h1, h2⟩ := buildLattice_ren (latEnvOf_rel h chars o) 0
    exact tokensOf_ren _ _ _ h1 h2

end Vibrato
