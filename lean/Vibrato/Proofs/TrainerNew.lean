/-
Helper lemmas for `Vibrato/Props/C18new.lean`: the label loop of `Trainer::new`
(`Vibrato/Model/TrainerNew.lean`) tied to the interning invariants of `Proofs/Extractor.lean`,
the `rewrite.def` parser tied to the rule lists of the three sections, totality.
-/
import Vibrato.Model.TrainerNew
import Vibrato.Proofs.Extractor
import Vibrato.Proofs.RewriterFirstMatch
import Vibrato.Proofs.BuildersDict

namespace Vibrato.TrainerNew

open Vibrato (Outcome Fixes DictM LexEntry UnkEntryM CharProp)
open Vibrato.Extractor

/-! ## 1. One label -/

/-- The feature set of a row with rewritten feature lists `fu` / `fl` / `fr`, read off the maps of
the state `fin`: every id is the id `fin` gives to the expansion of the template at that
position. -/
def setOf (fin : ExtractorState) (fu fl fr : List Str) (cate : Nat) : FeatureSet :=
  ⟨(fin.uniT.map (idOf fin.uni fu cate)).filterMap id,
   fin.rightT.map (idOf fin.right fr 0),
   fin.leftT.map (idOf fin.left fl 0)⟩

theorem extractFeatureSet_spec (st st' : ExtractorState) (u l r : Rewriter.Trie) (f : Str)
    (cate : Nat) (fs : FeatureSet) (h : StateOK st)
    (he : extractFeatureSet st u l r f cate = .ok (fs, st')) :
    ∃ feats fu fl fr, csvRow f = .ok feats ∧
      ofRewriter (Rewriter.rewriteOrSame u feats) = .ok fu ∧
      ofRewriter (Rewriter.rewriteOrSame l feats) = .ok fl ∧
      ofRewriter (Rewriter.rewriteOrSame r feats) = .ok fr ∧
      StateOK st' ∧ After st st' ∧
      Defined st'.uni st'.uniT fu cate ∧ Defined st'.left st'.leftT fl 0 ∧
      Defined st'.right st'.rightT fr 0 ∧
      ∀ fin, After st' fin → fs = setOf fin fu fl fr cate := by
  unfold extractFeatureSet at he
  cases h0 : csvRow f with
  | err => simp [h0] at he
  | panic => simp [h0] at he
  | ok feats =>
    simp only [h0] at he
    cases h1 : ofRewriter (Rewriter.rewriteOrSame u feats) with
    | err => simp [h1] at he
    | panic => simp [h1] at he
    | ok fu =>
      simp only [h1] at he
      cases h2 : extractUnigram st fu cate with
      | err => simp [h2] at he
      | panic => simp [h2] at he
      | ok r1 =>
        obtain ⟨uids, st1⟩ := r1
        simp only [h2] at he
        cases h3 : ofRewriter (Rewriter.rewriteOrSame l feats) with
        | err => simp [h3] at he
        | panic => simp [h3] at he
        | ok fl =>
          simp only [h3] at he
          cases h4 : extractLeft st1 fl with
          | err => simp [h4] at he
          | panic => simp [h4] at he
          | ok r2 =>
            obtain ⟨lids, st2⟩ := r2
            simp only [h4] at he
            cases h5 : ofRewriter (Rewriter.rewriteOrSame r feats) with
            | err => simp [h5] at he
            | panic => simp [h5] at he
            | ok fr =>
              simp only [h5] at he
              cases h6 : extractRight st2 fr with
              | err => simp [h6] at he
              | panic => simp [h6] at he
              | ok r3 =>
                obtain ⟨rids, st3⟩ := r3
                simp only [h6, Outcome.ok.injEq, Prod.mk.injEq] at he
                obtain ⟨rfl, rfl⟩ := he
                obtain ⟨a1, a2, _, _, a5, a6⟩ := extractUnigram_spec st st1 fu cate uids h h2
                obtain ⟨b1, b2, _, _, b5, b6⟩ := extractLeft_spec st1 st2 fl lids a1 h4
                obtain ⟨c1, c2, _, _, c5, c6⟩ := extractRight_spec st2 st3 fr rids b1 h6
                have a23 : After st1 st3 := b2.trans c2
                refine ⟨feats, fu, fl, fr, rfl, h1, h3, h5, c1, a2.trans a23, ?_, ?_, ?_, ?_⟩
                · rw [a23.uniT, a2.uniT]
                  exact Defined.mono a6 a23.uni
                · rw [c2.leftT, b2.leftT]
                  exact Defined.mono b6 c2.left
                · rw [c2.rightT]
                  exact c6
                · intro fin hfin
                  have hu : Extends st1.uni fin.uni := a23.uni.trans hfin.uni
                  have hl : Extends st2.left fin.left := c2.left.trans hfin.left
                  have hr : Extends st3.right fin.right := hfin.right
                  simp only [setOf]
                  rw [hfin.uniT, a23.uniT, a2.uniT, hfin.leftT, c2.leftT, b2.leftT,
                    hfin.rightT, c2.rightT]
                  rw [map_idOf_extends hu fu cate st.uniT a6,
                    map_idOf_extends hl fl 0 st1.leftT b6,
                    map_idOf_extends hr fr 0 st2.rightT c6, ← a5, ← b5, ← c5]


/-- What the feature set `fs` registered for a label row must be, judged by the FINAL extractor
state `fin` and the three rewriters: the row's OWN feature string is split into cells
(`parse_csv_row`), rewritten by the unigram / left / right rewriter (or kept when no rule matches),
and `fs` lists, template by template, the ids that `fin`'s maps give to the expansions — the
unigram templates over the unigram-rewritten cells (with the row's category id), the RIGHT
templates over the right-rewritten cells in `bigram_right`, the LEFT templates over the
left-rewritten cells in `bigram_left`; every such expansion is interned in `fin`. -/
def RowSpec (rw : Rewriters) (fin : ExtractorState) (row : LabelRow) (fs : FeatureSet) : Prop :=
  ∃ f feats fu fl fr, strOfBytes row.feature = some f ∧ csvRow f = .ok feats ∧
    ofRewriter (Rewriter.rewriteOrSame rw.uni feats) = .ok fu ∧
    ofRewriter (Rewriter.rewriteOrSame rw.left feats) = .ok fl ∧
    ofRewriter (Rewriter.rewriteOrSame rw.right feats) = .ok fr ∧
    fs = setOf fin fu fl fr row.cate ∧
    Defined fin.uni fin.uniT fu row.cate ∧ Defined fin.left fin.leftT fl 0 ∧
    Defined fin.right fin.rightT fr 0

theorem addLabel_spec (rw : Rewriters) (acc acc' : Acc) (feature : List UInt8) (cate : Nat)
    (h : StateOK acc.2) (he : addLabel rw acc feature cate = .ok acc') :
    ∃ fs, acc'.1 = acc.1 ++ [fs] ∧ StateOK acc'.2 ∧ After acc.2 acc'.2 ∧
      ∀ fin, After acc'.2 fin → RowSpec rw fin ⟨feature, cate⟩ fs := by
  unfold addLabel at he
  cases h0 : strOfBytes feature with
  | none => simp [h0] at he
  | some f =>
    simp only [h0] at he
    cases h1 : extractFeatureSet acc.2 rw.uni rw.left rw.right f cate with
    | err => simp [h1] at he
    | panic => simp [h1] at he
    | ok r =>
      obtain ⟨fs, st'⟩ := r
      simp only [h1] at he
      split at he
      · cases he
      · simp only [Outcome.ok.injEq] at he
        subst he
        obtain ⟨feats, fu, fl, fr, e0, e1, e2, e3, hok, haft, d1, d2, d3, hfs⟩ :=
          extractFeatureSet_spec acc.2 st' rw.uni rw.left rw.right f cate fs h h1
        refine ⟨fs, rfl, hok, haft, ?_⟩
        intro fin hfin
        refine ⟨f, feats, fu, fl, fr, h0, e0, e1, e2, e3, hfs fin hfin, ?_, ?_, ?_⟩
        · rw [hfin.uniT]; exact Defined.mono d1 hfin.uni
        · rw [hfin.leftT]; exact Defined.mono d2 hfin.left
        · rw [hfin.rightT]; exact Defined.mono d3 hfin.right

/-! ## 2. The label loops as one loop over the label rows -/

/-- The loop body of `Trainer::new` over explicit rows. -/
def rowsLoop (rw : Rewriters) : List LabelRow → Acc → Outcome Acc
  | [], acc => .ok acc
  | r :: rs, acc =>
    match addLabel rw acc r.feature r.cate with
    | .ok acc' => rowsLoop rw rs acc'
    | .err => .err
    | .panic => .panic

theorem unkLoop_eq (rw : Rewriters) (U : List UnkEntryM) (acc : Acc) :
    unkLoop rw U acc = rowsLoop rw (unkLabelRows U) acc := by
  induction U generalizing acc with
  | nil => rfl
  | cons e es ih =>
    simp only [unkLoop, unkLabelRows, List.map_cons, rowsLoop]
    cases addLabel rw acc e.feature e.cateId with
    | ok acc' => exact ih acc'
    | err => rfl
    | panic => rfl

theorem lexLoop_ok (P : CharProp) (rw : Rewriters) (es : List LexEntry) :
    ∀ (fs : List (List UInt8)) (acc acc' : Acc), lexLoop P rw es fs acc = .ok acc' →
      rowsLoop rw (lexLabelRows P es fs) acc = .ok acc' ∧
      (lexLabelRows P es fs).length = es.length := by
  induction es with
  | nil => intro fs acc acc' h; cases fs <;> simpa [lexLoop, lexLabelRows, rowsLoop] using h
  | cons e es ih =>
    intro fs acc acc' h
    cases fs with
    | nil => simp [lexLoop] at h
    | cons f fs =>
      simp only [lexLoop] at h
      cases hs : e.surface.head? with
      | none => simp [hs] at h
      | some c =>
        simp only [hs] at h
        have hd : e.surface.headD 0 = c := by
          cases hsurf : e.surface with
          | nil => simp [hsurf] at hs
          | cons a t => simp [hsurf] at hs; simp [hs]
        simp only [lexLabelRows, rowsLoop, hd, List.length_cons]
        cases ha : addLabel rw acc f (P.charInfo c).baseId with
        | err => simp [ha] at h
        | panic => simp [ha] at h
        | ok acc1 =>
          simp only [ha] at h
          obtain ⟨g1, g2⟩ := ih fs acc1 acc' h
          exact ⟨g1, by rw [g2]⟩

theorem rowsLoop_append (rw : Rewriters) (a b : List LabelRow) (acc : Acc) :
    rowsLoop rw (a ++ b) acc =
      match rowsLoop rw a acc with
      | .ok acc' => rowsLoop rw b acc'
      | .err => .err
      | .panic => .panic := by
  induction a generalizing acc with
  | nil => rfl
  | cons r rs ih =>
    simp only [List.cons_append, rowsLoop]
    cases addLabel rw acc r.feature r.cate with
    | ok acc' => exact ih acc'
    | err => rfl
    | panic => rfl

/-- The loop registers exactly one feature set per row, in order, and each is the one `RowSpec`
prescribes for ITS row, judged by any later state. -/
theorem rowsLoop_spec (rw : Rewriters) (rows : List LabelRow) :
    ∀ (acc acc' : Acc), StateOK acc.2 → rowsLoop rw rows acc = .ok acc' →
      ∃ news, acc'.1 = acc.1 ++ news ∧ news.length = rows.length ∧ StateOK acc'.2 ∧
        After acc.2 acc'.2 ∧
        ∀ fin, After acc'.2 fin → ∀ (i : Nat) (row : LabelRow), rows[i]? = some row →
          ∃ fs, news[i]? = some fs ∧ RowSpec rw fin row fs := by
  induction rows with
  | nil =>
    intro acc acc' h he
    simp only [rowsLoop, Outcome.ok.injEq] at he
    subst he
    exact ⟨[], by simp, rfl, h, After.refl _, by simp⟩
  | cons r rs ih =>
    intro acc acc' h he
    simp only [rowsLoop] at he
    cases ha : addLabel rw acc r.feature r.cate with
    | err => simp [ha] at he
    | panic => simp [ha] at he
    | ok acc1 =>
      simp only [ha] at he
      obtain ⟨fs0, e0, ok1, aft1, spec1⟩ := addLabel_spec rw acc acc1 r.feature r.cate h ha
      obtain ⟨news, e1, len1, ok2, aft2, spec2⟩ := ih acc1 acc' ok1 he
      refine ⟨fs0 :: news, by rw [e1, e0]; simp, by simp [len1], ok2, aft1.trans aft2, ?_⟩
      intro fin hfin i row hrow
      cases i with
      | zero =>
        simp only [List.getElem?_cons_zero, Option.some.injEq] at hrow
        subst hrow
        exact ⟨fs0, rfl, spec1 fin (aft2.trans hfin)⟩
      | succ j =>
        simp only [List.getElem?_cons_succ] at hrow ⊢
        exact spec2 fin hfin j row hrow

/-- `Trainer::new` is the loop over `labelRows`. -/
theorem trainerNew_rows (cfg : Config) (r : Acc) (h : trainerNew cfg = .ok r) :
    rowsLoop cfg.rw (labelRows cfg) ([], cfg.ext) = .ok r := by
  unfold trainerNew at h
  split at h
  · cases h
  · cases h1 : lexLoop cfg.dict.chars cfg.rw cfg.dict.sys.entries cfg.dict.sys.features
        ([], cfg.ext) with
    | err => simp [h1] at h
    | panic => simp [h1] at h
    | ok acc =>
      simp only [h1] at h
      split at h
      · cases h
      · obtain ⟨g1, _⟩ := lexLoop_ok _ _ _ _ _ _ h1
        rw [labelRows, rowsLoop_append, g1]
        simp only
        rw [← unkLoop_eq]
        exact h


/-! ## 3. `rewrite.def`: the three tries are built from the rules of their sections -/

open Vibrato.Rewriter (RawRule RewriteConfig GoodRules BadRef firstMatch)

theorem buildFrom_append (fixed : Bool) (a b : List RawRule) (nodes : Rewriter.Trie) :
    Rewriter.buildFrom fixed nodes (a ++ b) =
      match Rewriter.buildFrom fixed nodes a with
      | .ok n => Rewriter.buildFrom fixed n b
      | .err => .err
      | .panic => .panic
      | .hang => .hang := by
  induction a generalizing nodes with
  | nil => rfl
  | cons r rs ih =>
    simp only [List.cons_append, Rewriter.buildFrom]
    cases Rewriter.addRule fixed nodes r.1 r.2 with
    | ok n => exact ih n
    | err => rfl
    | panic => rfl
    | hang => rfl

/-- Registering one more rule: `build (rules ++ [r])` is `add_rule` on `build rules`. -/
theorem build_snoc (fixed : Bool) (rules : List RawRule) (r : RawRule) (nodes : Rewriter.Trie)
    (h : Rewriter.build fixed rules = .ok nodes) :
    Rewriter.build fixed (rules ++ [r]) = Rewriter.addRule fixed nodes r.1 r.2 := by
  unfold Rewriter.build at *
  rw [buildFrom_append, h]
  simp only [Rewriter.buildFrom]
  cases Rewriter.addRule fixed nodes r.1 r.2 <;> rfl

/-- The three tries are what `add_rule` builds from the rule lists of the three sections. -/
structure BuiltFrom (fixed : Bool) (rw : Rewriters) (c : RewriteConfig) : Prop where
  uni : Rewriter.build fixed c.unigram = .ok rw.uni
  left : Rewriter.build fixed c.left = .ok rw.left
  right : Rewriter.build fixed c.right = .ok rw.right

theorem builtFrom_init (fixed : Bool) : BuiltFrom fixed {} {} := ⟨rfl, rfl, rfl⟩

theorem ofRewriter_ok {α : Type} {x : Rewriter.Outcome α} {a : α} (h : ofRewriter x = .ok a) :
    x = .ok a := by
  cases x <;> simp [ofRewriter] at h
  subst h; rfl

theorem builtFrom_push (fixed : Bool) (rw : Rewriters) (c : RewriteConfig)
    (s : Rewriter.Section) (r : RawRule) (t : Rewriter.Trie) (hb : BuiltFrom fixed rw c)
    (ht : Rewriter.addRule fixed (rw.get s) r.1 r.2 = .ok t) :
    BuiltFrom fixed (rw.set s t) (c.push s r) := by
  cases s with
  | unigram => exact ⟨by simpa [RewriteConfig.push, Rewriters.set, Rewriters.get, build_snoc fixed _ r _ hb.uni] using ht,
      hb.left, hb.right⟩
  | left => exact ⟨hb.uni, by simpa [RewriteConfig.push, Rewriters.set, Rewriters.get, build_snoc fixed _ r _ hb.left] using ht,
      hb.right⟩
  | right => exact ⟨hb.uni, hb.left,
      by simpa [RewriteConfig.push, Rewriters.set, Rewriters.get, build_snoc fixed _ r _ hb.right] using ht⟩

/-- A successful run of the line loop: all lines were valid UTF-8, the section parser of
`Model/Rewriter.lean` accepts them, and the tries are built from the resulting rule lists. -/
theorem rewriteLines_built (fixed : Bool) (ls : List (Option Str)) :
    ∀ (sec : Option Rewriter.Section) (rw rw' : Rewriters) (c : RewriteConfig),
      BuiltFrom fixed rw c → rewriteLines fixed ls sec rw = .ok rw' →
      ∃ strs c', ls = strs.map some ∧ Rewriter.parseRewriteConfig strs sec c = some c' ∧
        BuiltFrom fixed rw' c' := by
  induction ls with
  | nil =>
    intro sec rw rw' c hb h
    simp only [rewriteLines, Outcome.ok.injEq] at h
    subst h
    exact ⟨[], c, rfl, rfl, hb⟩
  | cons l ls ih =>
    intro sec rw rw' c hb h
    cases l with
    | none => simp [rewriteLines] at h
    | some line =>
      simp only [rewriteLines] at h
      by_cases h1 : ((Rewriter.trim line).isEmpty || (Rewriter.trim line).head? = some '#') = true
      · rw [if_pos h1] at h
        obtain ⟨strs, c', e1, e2, e3⟩ := ih sec rw rw' c hb h
        exact ⟨line :: strs, c', by rw [e1]; rfl, by simp only [Rewriter.parseRewriteConfig, if_pos h1, e2], e3⟩
      · rw [if_neg h1] at h
        by_cases h2 : Rewriter.trim line = "[unigram rewrite]".toList
        · rw [if_pos h2] at h
          obtain ⟨strs, c', e1, e2, e3⟩ := ih _ rw rw' c hb h
          exact ⟨line :: strs, c', by rw [e1]; rfl,
            by simp only [Rewriter.parseRewriteConfig, if_neg h1, if_pos h2, e2], e3⟩
        · rw [if_neg h2] at h
          by_cases h3 : Rewriter.trim line = "[left rewrite]".toList
          · rw [if_pos h3] at h
            obtain ⟨strs, c', e1, e2, e3⟩ := ih _ rw rw' c hb h
            exact ⟨line :: strs, c', by rw [e1]; rfl,
              by simp only [Rewriter.parseRewriteConfig, if_neg h1, if_neg h2, if_pos h3, e2], e3⟩
          · rw [if_neg h3] at h
            by_cases h4 : Rewriter.trim line = "[right rewrite]".toList
            · rw [if_pos h4] at h
              obtain ⟨strs, c', e1, e2, e3⟩ := ih _ rw rw' c hb h
              exact ⟨line :: strs, c', by rw [e1]; rfl,
                by simp only [Rewriter.parseRewriteConfig, if_neg h1, if_neg h2, if_neg h3,
                  if_pos h4, e2], e3⟩
            · rw [if_neg h4] at h
              cases sec with
              | none => simp at h
              | some s =>
                simp only at h
                cases hr : Rewriter.parseRewriteRule (Rewriter.trim line) with
                | none => simp [hr] at h
                | some r =>
                  simp only [hr] at h
                  cases ha : ofRewriter (Rewriter.addRule fixed (rw.get s) r.1 r.2) with
                  | err => simp [ha] at h
                  | panic => simp [ha] at h
                  | ok t =>
                    simp only [ha] at h
                    have hb' := builtFrom_push fixed rw c s r t hb (ofRewriter_ok ha)
                    obtain ⟨strs, c', e1, e2, e3⟩ := ih _ _ rw' _ hb' h
                    exact ⟨line :: strs, c', by rw [e1]; rfl,
                      by simp only [Rewriter.parseRewriteConfig, if_neg h1, if_neg h2, if_neg h3,
                        if_neg h4, hr, e2], e3⟩

/-- A trie that `build` produced comes from a rule list without unregistrable references. -/
theorem goodRules_of_build (fixed : Bool) (rules : List RawRule) (nodes : Rewriter.Trie)
    (h : Rewriter.build fixed rules = .ok nodes) : GoodRules rules := by
  intro r hr c hc hbad
  have := Rewriter.build_panic fixed rules
    ⟨r, hr, c, hc, (Rewriter.parseRewrite_panic_iff c).mpr hbad⟩
  rw [this] at h; cases h

/-- Repaired builder: on a built trie `rewrite` + fallback is "first registered matching rule of
THIS rule list, else the features unchanged". -/
theorem rewriteOrSame_built (rules : List RawRule) (nodes : Rewriter.Trie)
    (hb : Rewriter.build true rules = .ok nodes) (f : List Str) :
    ofRewriter (Rewriter.rewriteOrSame nodes f) = .ok ((firstMatch rules f).getD f) := by
  have h := Rewriter.buildAndRewrite_true rules f (goodRules_of_build true rules nodes hb)
  unfold Rewriter.buildAndRewrite at h
  rw [hb] at h
  simp only at h
  unfold Rewriter.rewriteOrSame
  rw [h]
  cases firstMatch rules f <;> rfl


/-! ## 4. The dictionary of the configuration in terms of the files -/

theorem mapM_fwd {α β : Type} {f : α → Option β} {l : List α} {out : List β}
    (h : l.mapM f = some out) (i : Nat) (a : α) (ha : l[i]? = some a) :
    ∃ b, out[i]? = some b ∧ f a = some b := by
  obtain ⟨hlen, hspec⟩ := Vibrato.C10.mapM_some_spec h
  have hi : i < out.length := by
    rw [hlen]; exact (List.getElem?_eq_some_iff.mp ha).1
  refine ⟨out[i], List.getElem?_eq_getElem hi, ?_⟩
  obtain ⟨a', ha', hf⟩ := hspec i out[i] (List.getElem?_eq_getElem hi)
  rw [ha] at ha'
  cases ha'
  exact hf

/-- What `SystemDictionaryBuilder::build` keeps of the two CSV files: the lexicon rows in file
order (surface as code points, feature string verbatim), the unk.def rows bucketed by the category
id of their first column (buckets in category order, file order inside a bucket). -/
theorem dict_of_files {fx : Fixes} {lex matrix chardef unk : List UInt8} {D : DictM}
    (h : Vibrato.buildMatrixDict fx lex matrix chardef unk = .ok D) :
    ∃ (es us : List LexCsv.RawEntry) (ues : List UnkEntryM),
      LexCsv.parseCsv fx.f8 lex = .ok es ∧ LexCsv.parseCsv fx.f8 unk = .ok us ∧
      Vibrato.CharDef.parse chardef = .ok D.chars ∧
      D.sys.features = es.map (·.feature) ∧ D.sys.entries.length = es.length ∧
      (∀ (i : Nat) (e : LexCsv.RawEntry), es[i]? = some e →
        ∃ le, D.sys.entries[i]? = some le ∧ Vibrato.codePoints e.surface = some le.surface) ∧
      ues.length = us.length ∧
      (∀ (i : Nat) (u : LexCsv.RawEntry), us[i]? = some u →
        ∃ name ue, Text.decodeLine u.surface = some name ∧ ues[i]? = some ue ∧
          D.chars.cateId name = some ue.cateId ∧ ue.feature = u.feature) ∧
      D.unk = (List.range D.chars.names.length).flatMap fun c => ues.filter (·.cateId == c) := by
  unfold Vibrato.buildMatrixDict at h
  split at h
  · cases h
  · cases h
  · rename_i lrows hl
    split at h
    · cases h
    · cases h
    · split at h
      · cases h
      · cases h
      · rename_i P hP
        split at h
        · cases h
        · cases h
        · rename_i urows hu
          split at h
          · cases h
          · rename_i U hU
            split at h
            · cases h
            · rename_i L hL
              split at h
              · cases h
              · split at h
                · cases h
                · cases h
                  -- the two CSV files
                  unfold Vibrato.parseLexCsv at hl hu
                  split at hl
                  · rename_i es hes
                    cases hl
                    split at hu
                    · rename_i us hus
                      cases hu
                      -- the lexicon
                      unfold Vibrato.lexOfRows at hL
                      simp only [Option.bind_eq_bind, Option.bind_eq_some_iff, Option.pure_def] at hL
                      obtain ⟨les, hles, hL⟩ := hL
                      split at hL
                      · cases hL
                      · split at hL
                        · cases hL
                        · cases hL
                          -- the unknown entries
                          unfold Vibrato.unkOfRows at hU
                          simp only [Option.bind_eq_bind, Option.bind_eq_some_iff, Option.pure_def,
                            Option.some.injEq] at hU
                          obtain ⟨ues, hues, rfl⟩ := hU
                          have l1 := Vibrato.C10.mapM_some_spec hles
                          have u1 := Vibrato.C10.mapM_some_spec hues
                          refine ⟨es, us, ues, hes, hus, hP, ?_, ?_, ?_, ?_, ?_, rfl⟩
                          · simp [List.map_map, Function.comp_def]
                          · simpa using l1.1
                          · intro i e hie
                            obtain ⟨le, g1, g2⟩ := mapM_fwd hles i _
                              (by rw [List.getElem?_map, hie]; rfl)
                            simp only [Option.bind_eq_some_iff, Option.some.injEq] at g2
                            obtain ⟨cps, hc, rfl⟩ := g2
                            exact ⟨_, g1, hc⟩
                          · simpa using u1.1
                          · intro i u hiu
                            obtain ⟨ue, g1, g2⟩ := mapM_fwd hues i _
                              (by rw [List.getElem?_map, hiu]; rfl)
                            simp only [Option.bind_eq_some_iff, Option.some.injEq] at g2
                            obtain ⟨name, hn, id, hid, rfl⟩ := g2
                            exact ⟨name, _, hn, g1, hid, rfl⟩
                    · cases hu
                    · cases hu
                  · cases hl
                  · cases hl

theorem fromReaders_ok {fx : Fixes} {lex chardef unk fdef rdef : List UInt8} {cfg : Config}
    (h : fromReaders fx lex chardef unk fdef rdef = .ok cfg) :
    parseFeatureConfig fdef = .ok cfg.ext ∧ parseRewriteDef fx.f10 rdef = .ok cfg.rw ∧
      Vibrato.buildMatrixDict fx lex matrix11 chardef unk = .ok cfg.dict := by
  unfold fromReaders at h
  cases h1 : parseFeatureConfig fdef with
  | err => simp [h1] at h
  | panic => simp [h1] at h
  | ok ext =>
    simp only [h1] at h
    cases h2 : parseRewriteDef fx.f10 rdef with
    | err => simp [h2] at h
    | panic => simp [h2] at h
    | ok rw =>
      simp only [h2] at h
      cases h3 : Vibrato.buildMatrixDict fx lex matrix11 chardef unk with
      | err => simp [h3] at h
      | panic => simp [h3] at h
      | ok D =>
        simp only [h3, Outcome.ok.injEq] at h
        subst h
        exact ⟨rfl, rfl, rfl⟩

/-- The extractor of a freshly read configuration is well formed (empty maps, counters 1). -/
theorem stateOK_of_parse {fdef : List UInt8} {st : ExtractorState}
    (h : parseFeatureConfig fdef = .ok st) : StateOK st := by
  unfold parseFeatureConfig at h
  split at h
  · cases h
  · rename_i u b _
    exact (stateOK_new u b st h).1


/-! ## 5. Label rows by index; templates of a parsed configuration -/

theorem lexLabelRows_getElem (P : CharProp) (es : List LexEntry) :
    ∀ (fs : List (List UInt8)) (i : Nat) (e : LexEntry) (f : List UInt8),
      es[i]? = some e → fs[i]? = some f →
      (lexLabelRows P es fs)[i]? = some ⟨f, (P.charInfo (e.surface.headD 0)).baseId⟩ := by
  induction es with
  | nil => intro fs i e f he; simp at he
  | cons e0 es ih =>
    intro fs i e f he hf
    cases fs with
    | nil => simp at hf
    | cons f0 fs =>
      cases i with
      | zero =>
        simp only [List.getElem?_cons_zero, Option.some.injEq] at he hf
        subst he; subst hf
        simp [lexLabelRows]
      | succ j =>
        simp only [List.getElem?_cons_succ] at he hf
        simp only [lexLabelRows, List.getElem?_cons_succ]
        exact ih fs j e f he hf

theorem lexLabelRows_length (P : CharProp) (es : List LexEntry) :
    ∀ (fs : List (List UInt8)), fs.length = es.length → (lexLabelRows P es fs).length = es.length := by
  induction es with
  | nil => intro fs _; cases fs <;> simp [lexLabelRows]
  | cons e0 es ih =>
    intro fs h
    cases fs with
    | nil => simp at h
    | cons f0 fs =>
      simp only [lexLabelRows, List.length_cons]
      rw [ih fs (by simpa using h)]

theorem parseTemplates_mem (k : Kind) (ts : List Str) :
    ∀ (ps : List ParsedTemplate), parseTemplates k ts = .ok ps →
      ∀ p ∈ ps, ∃ t, parseTemplate k t = .ok p := by
  induction ts with
  | nil =>
    intro ps h p hp
    simp only [parseTemplates, Outcome.ok.injEq] at h
    subst h
    cases hp
  | cons t ts ih =>
    intro ps h p hp
    simp only [parseTemplates] at h
    cases h1 : parseTemplate k t with
    | err => simp [h1] at h
    | panic => simp [h1] at h
    | ok p0 =>
      simp only [h1] at h
      cases h2 : parseTemplates k ts with
      | err => simp [h2] at h
      | panic => simp [h2] at h
      | ok ps0 =>
        simp only [h2, Outcome.ok.injEq] at h
        subst h
        rcases List.mem_cons.mp hp with rfl | hp'
        · exact ⟨t, h1⟩
        · exact ih ps0 h2 p hp'

/-- All templates of a parsed `feature.def` come out of `FeatureExtractor::new`. -/
structure TemplatesParsed (st : ExtractorState) : Prop where
  uni : ∀ p ∈ st.uniT, ∃ t, parseTemplate .U t = .ok p
  left : ∀ p ∈ st.leftT, ∃ t, parseTemplate .L t = .ok p
  right : ∀ p ∈ st.rightT, ∃ t, parseTemplate .R t = .ok p

theorem templatesParsed_of_parse {fdef : List UInt8} {st : ExtractorState}
    (h : parseFeatureConfig fdef = .ok st) : TemplatesParsed st := by
  unfold parseFeatureConfig at h
  split at h
  · cases h
  · rename_i u b _
    unfold ExtractorState.new at h
    cases h1 : parseTemplates .U u with
    | err => simp [h1] at h
    | panic => simp [h1] at h
    | ok pu =>
      simp only [h1] at h
      cases h2 : parseTemplates .L (b.map (·.1)) with
      | err => simp [h2] at h
      | panic => simp [h2] at h
      | ok pl =>
        simp only [h2] at h
        cases h3 : parseTemplates .R (b.map (·.2)) with
        | err => simp [h3] at h
        | panic => simp [h3] at h
        | ok pr =>
          simp only [h3, Outcome.ok.injEq] at h
          subst h
          exact ⟨parseTemplates_mem _ _ _ h1, parseTemplates_mem _ _ _ h2,
            parseTemplates_mem _ _ _ h3⟩

theorem TemplatesParsed.after {a b : ExtractorState} (h : TemplatesParsed a) (hab : After a b) :
    TemplatesParsed b :=
  ⟨hab.uniT ▸ h.uni, hab.leftT ▸ h.left, hab.rightT ▸ h.right⟩

/-- A template produced by `FeatureExtractor::new` expands without panic. -/
theorem expand_ok_of_parsed {k : Kind} {pt : ParsedTemplate} (h : ∃ t, parseTemplate k t = .ok pt)
    (feats : List Str) (cate : Nat) : ∃ o, expand pt feats cate = .ok o := by
  obtain ⟨raw, hraw⟩ := h
  obtain ⟨segs, hd⟩ := decomp_exists k raw
  rw [parseTemplate_decomp k raw segs hd] at hraw
  split at hraw
  · cases hraw
  · cases hraw
    rw [expand_decomp k raw segs hd]
    exact ⟨_, rfl⟩

end Vibrato.TrainerNew
