/-
Row grammar for `lex.csv` and the symbolic execution of the `parse_csv` model over rendered
rows (`Runs` / `Reaches` of `Proofs/LexCsv.lean`).

Grammar (specification vocabulary used by `Props/C11.lean`):

  Row  := c0 , c1 , c2 , c3 , f_1 , … , f_k , f_last        (k ≥ 0; cells plain or quoted)
  Line := seps  Row  term                                   (seps ∈ {\n,\r}*, term ∈ {\n,\r})
  Tail := seps | seps Row                                   (rest of the file after the lines)
  file := Line* Tail

`seps` in front of a row are blank lines (or the `\n` of a preceding `\r`).
-/
import Vibrato.Proofs.LexCsv

namespace Vibrato.LexCsv

open Vibrato.Csv

/-! ## Grammar -/

/-- A cell the reader can take in one piece: well-formed and shorter than the 4096 byte
output buffer. -/
def cellOk (c : Cell) : Prop := c.wf = true ∧ c.value.length < outCap

instance (c : Cell) : Decidable (cellOk c) := by unfold cellOk; infer_instance

/-- The feature cells before the last one, each followed by its comma. -/
def featInitBytes (cells : List Cell) : List UInt8 := cells.flatMap fun c => c.render ++ [44]

/-- A lexicon row `c0,c1,c2,c3,fInit…,fLast` together with the numbers its cells denote. -/
structure Row where
  c0 : Cell
  c1 : Cell
  c2 : Cell
  c3 : Cell
  fInit : List Cell
  fLast : Cell
  left : Nat
  right : Nat
  cost : Int
  deriving Repr, DecidableEq

/-- The raw remainder of the row after the fourth comma. -/
def Row.feature (r : Row) : List UInt8 := featInitBytes r.fInit ++ r.fLast.render

/-- The row up to (excluding) the last feature cell. -/
def Row.head (r : Row) : List UInt8 :=
  r.c0.render ++ 44 :: (r.c1.render ++ 44 :: (r.c2.render ++ 44 :: (r.c3.render ++ 44 ::
    featInitBytes r.fInit)))

/-- The bytes of the row in the file. -/
def Row.render (r : Row) : List UInt8 := r.head ++ r.fLast.render

theorem Row.render_eq (r : Row) :
    r.render = r.c0.render ++ 44 :: (r.c1.render ++ 44 :: (r.c2.render ++ 44 ::
      (r.c3.render ++ 44 :: r.feature))) := by
  simp [Row.render, Row.head, Row.feature]

/-- Well-formed row: cells readable, surface and feature valid UTF-8, numbers in range. -/
structure Row.WF (r : Row) : Prop where
  h0 : cellOk r.c0
  h1 : cellOk r.c1
  h2 : cellOk r.c2
  h3 : cellOk r.c3
  hInit : ∀ c ∈ r.fInit, cellOk c
  hLast : cellOk r.fLast
  surfaceUtf8 : validUtf8 r.c0.value = true
  leftOk : parseU16 r.c1.value = some r.left
  rightOk : parseU16 r.c2.value = some r.right
  costOk : parseI16 r.c3.value = some r.cost
  featureUtf8 : validUtf8 r.feature = true

/-- The entry a row stands for. -/
def Row.entry (r : Row) : RawEntry :=
  { surface := r.c0.value, leftId := r.left, rightId := r.right, wordCost := r.cost,
    feature := r.feature }

/-- Rows with an empty surface are skipped. -/
def Row.entries (r : Row) : List RawEntry := if r.c0.value = [] then [] else [r.entry]

def isNl (b : UInt8) : Prop := b = 10 ∨ b = 13

instance (b : UInt8) : Decidable (isNl b) := by unfold isNl; infer_instance

/-- A terminated row, possibly after blank lines. -/
structure Line where
  seps : List UInt8
  row : Row
  term : UInt8
  deriving Repr, DecidableEq

def Line.render (l : Line) : List UInt8 := l.seps ++ (l.row.render ++ [l.term])

structure Line.WF (l : Line) : Prop where
  hseps : ∀ b ∈ l.seps, isNl b
  hterm : isNl l.term
  hrow : l.row.WF

/-- What follows the terminated rows. -/
inductive Tail where
  | blank (seps : List UInt8)
  | lastRow (seps : List UInt8) (row : Row)
  deriving Repr, DecidableEq

def Tail.render : Tail → List UInt8
  | .blank seps => seps
  | .lastRow seps row => seps ++ row.render

def Tail.WF : Tail → Prop
  | .blank seps => ∀ b ∈ seps, isNl b
  | .lastRow seps row => (∀ b ∈ seps, isNl b) ∧ row.WF

def Tail.entries : Tail → List RawEntry
  | .blank _ => []
  | .lastRow _ row => row.entries

/-- What the pinned code needs in addition: after the last terminated row there is nothing
at all (in particular the last row ends with a single `\n` or `\r`, not `\r\n`, and no blank
line follows), or an unterminated last row whose last cell is not empty in the file (the
row does not end with a comma). -/
def Tail.PinnedOk : Tail → Prop
  | .blank seps => seps = []
  | .lastRow _ row => row.fLast.render ≠ []

def renderFile (lines : List Line) (tail : Tail) : List UInt8 :=
  lines.flatMap Line.render ++ tail.render

def fileEntries (lines : List Line) (tail : Tail) : List RawEntry :=
  lines.flatMap (fun l => l.row.entries) ++ tail.entries

/-! ## Single iterations -/

/-- States between records. -/
def RecStart (s : NfaState) : Prop := s = .startRecord ∨ s = .endRecord ∨ s = .crlf

/-- The reader after a delimiter. -/
def efd : Reader := { state := .endFieldDelim, hasRead := true }

theorem drop_cell (seps cr rest : List UInt8) (x : UInt8) :
    (seps ++ (cr ++ x :: rest)).drop (seps.length + cr.length + 1) = rest := by
  have : seps ++ (cr ++ x :: rest) = (seps ++ cr ++ [x]) ++ rest := by simp
  rw [this, drop_app (by simp; omega)]

theorem drop_cell' (cr rest : List UInt8) (x : UInt8) :
    (cr ++ x :: rest).drop (cr.length + 1) = rest := by
  have : cr ++ x :: rest = (cr ++ [x]) ++ rest := by simp
  rw [this, drop_app (by simp)]

theorem step_field0 (fixed : Bool) {rdr : Reader} (hrs : RecStart rdr.state)
    (seps : List UInt8) (hseps : ∀ b ∈ seps, isNl b) (c : Cell) (hc : cellOk c)
    (hutf : validUtf8 c.value = true) (rest : List UInt8)
    (hnb : NoBom rdr (seps ++ (c.render ++ 44 :: rest)))
    (fb rb : List UInt8) (fl rep : Nat) (surf : List UInt8) (l r : Nat) (co : Int)
    (es : List RawEntry) :
    step fixed ⟨rdr, seps ++ (c.render ++ 44 :: rest), fb, rb, 0, fl, rep, surf, l, r, co, es⟩ =
      .next ⟨efd, rest, fb, seps ++ (c.render ++ 44 :: rest), 1, fl,
        rep + (seps.length + c.render.length + 1), c.value, l, r, co, es⟩ := by
  have hd := drop_cell seps c.render rest 44
  have hrf := readField_terms_cell_delim hrs seps hseps c hc.1 rest hc.2
    (by rw [List.append_assoc]; exact hnb)
  rw [List.append_assoc] at hrf
  simp only [step]
  rw [hrf]
  simp [fieldUpdate, hutf, recordTail, hd, efd]

theorem readField_efd_delim (c : Cell) (hc : cellOk c) (rest : List UInt8) :
    readField efd (c.render ++ 44 :: rest) outCap =
      (.field false, c.render.length + 1, c.value, efd) :=
  readField_cell_delim (r := efd) (Or.inr (Or.inl rfl)) c hc.1 rest hc.2 (Or.inl rfl)

theorem step_field1 (fixed : Bool) (c : Cell) (hc : cellOk c) {v : Nat}
    (hv : parseU16 c.value = some v) (rest : List UInt8)
    (fb rb : List UInt8) (fl rep : Nat) (surf : List UInt8) (l r : Nat) (co : Int)
    (es : List RawEntry) :
    step fixed ⟨efd, c.render ++ 44 :: rest, fb, rb, 1, fl, rep, surf, l, r, co, es⟩ =
      .next ⟨efd, rest, fb, rb, 2, fl, rep + (c.render.length + 1), surf, v, r, co, es⟩ := by
  have hd := drop_cell' c.render rest 44
  have hutf := validUtf8_ascii (parseU16_ascii hv)
  simp only [step]
  rw [readField_efd_delim c hc rest]
  simp [fieldUpdate, hutf, hv, recordTail, hd]

theorem step_field2 (fixed : Bool) (c : Cell) (hc : cellOk c) {v : Nat}
    (hv : parseU16 c.value = some v) (rest : List UInt8)
    (fb rb : List UInt8) (fl rep : Nat) (surf : List UInt8) (l r : Nat) (co : Int)
    (es : List RawEntry) :
    step fixed ⟨efd, c.render ++ 44 :: rest, fb, rb, 2, fl, rep, surf, l, r, co, es⟩ =
      .next ⟨efd, rest, fb, rb, 3, fl, rep + (c.render.length + 1), surf, l, v, co, es⟩ := by
  have hd := drop_cell' c.render rest 44
  have hutf := validUtf8_ascii (parseU16_ascii hv)
  simp only [step]
  rw [readField_efd_delim c hc rest]
  simp [fieldUpdate, hutf, hv, recordTail, hd]

theorem step_field3 (fixed : Bool) (c : Cell) (hc : cellOk c) {v : Int}
    (hv : parseI16 c.value = some v) (rest : List UInt8)
    (fb rb : List UInt8) (fl rep : Nat) (surf : List UInt8) (l r : Nat) (co : Int)
    (es : List RawEntry) :
    step fixed ⟨efd, c.render ++ 44 :: rest, fb, rb, 3, fl, rep, surf, l, r, co, es⟩ =
      .next ⟨efd, rest, rest, rb, 4, 0, rep + (c.render.length + 1), surf, l, r, v, es⟩ := by
  have hd := drop_cell' c.render rest 44
  have hutf := validUtf8_ascii (parseI16_ascii hv)
  simp only [step]
  rw [readField_efd_delim c hc rest]
  simp [fieldUpdate, hutf, hv, recordTail, hd]

theorem step_feat (fixed : Bool) (c : Cell) (hc : cellOk c) (rest : List UInt8) (k : Nat)
    (fb rb : List UInt8) (fl rep : Nat) (surf : List UInt8) (l r : Nat) (co : Int)
    (es : List RawEntry) :
    step fixed ⟨efd, c.render ++ 44 :: rest, fb, rb, k + 4, fl, rep, surf, l, r, co, es⟩ =
      .next ⟨efd, rest, fb, rb, k + 5, fl + (c.render.length + 1), rep + (c.render.length + 1),
        surf, l, r, co, es⟩ := by
  have hd := drop_cell' c.render rest 44
  simp only [step]
  rw [readField_efd_delim c hc rest]
  simp [fieldUpdate, recordTail, hd]

/-- The entry list after a record with surface `surf` has ended. -/
def pushEntry (es : List RawEntry) (surf : List UInt8) (l r : Nat) (co : Int)
    (feature : List UInt8) : List RawEntry :=
  es ++ (if surf = [] then [] else [⟨surf, l, r, co, feature⟩])

/-- The checks of the `Skipped an empty surface` branch succeed. -/
def SkipOk (surf rb : List UInt8) (n : Nat) : Prop :=
  surf = [] → n ≤ rb.length ∧ validUtf8 (rb.take n) = true

/-- Last feature cell, followed by a record terminator. -/
theorem step_last_term (fixed : Bool) (c : Cell) (hc : cellOk c) {t : UInt8} (ht : isNl t)
    (rest : List UInt8) (k : Nat) (F fbRest rb : List UInt8) (fl rep : Nat)
    (hF : F.length = fl + c.render.length) (hFu : validUtf8 F = true)
    (surf : List UInt8) (l r : Nat) (co : Int) (es : List RawEntry)
    (hskip : SkipOk surf rb (rep + (c.render.length + 1))) :
    step fixed ⟨efd, c.render ++ t :: rest, F ++ fbRest, rb, k + 4, fl, rep, surf, l, r, co, es⟩ =
      .next ⟨⟨if t = 10 then .endRecord else .crlf, true⟩, rest, F ++ fbRest, rb, 0,
        fl + (c.render.length + 1), 0, [], l, r, co, pushEntry es surf l r co F⟩ := by
  have hd := drop_cell' c.render rest t
  have hrf := readField_cell_term (r := efd) (Or.inr rfl) c hc.1 ht rest hc.2 (Or.inl rfl)
  have h43 : ¬ (k + 4 ≤ 3) := by omega
  have hsub : fl + (c.render.length + 1) - 1 = F.length := by omega
  have hle : ¬ (F.length > (F ++ fbRest).length) := by simp
  have htake : (F ++ fbRest).take F.length = F := take_app rfl
  simp only [step]
  rw [hrf]
  by_cases hs : surf = []
  · obtain ⟨h1, h2⟩ := hskip hs
    have h1' : ¬ (rep + (c.render.length + 1) > rb.length) := by omega
    subst hs
    simp [fieldUpdate, recordTail, hd, h43, hsub, htake, hFu, h1', h2, pushEntry]
  · simp [fieldUpdate, recordTail, hd, h43, hsub, htake, hFu, hs, pushEntry]

/-- Last feature cell (non-empty in the file) at the end of the data: `InputEmpty`. -/
theorem step_last_eof (fixed : Bool) (c : Cell) (hc : cellOk c) (hne : c.render ≠ [])
    (k : Nat) (F fbRest rb : List UInt8) (fl rep : Nat)
    (hF : F.length = fl + c.render.length) (hFu : validUtf8 F = true)
    (surf : List UInt8) (l r : Nat) (co : Int) (es : List RawEntry)
    (hskip : SkipOk surf rb (rep + c.render.length)) :
    step fixed ⟨efd, c.render, F ++ fbRest, rb, k + 4, fl, rep, surf, l, r, co, es⟩ =
      .next ⟨⟨c.after .endFieldDelim, true⟩, [], F ++ fbRest, rb, 0,
        fl + (c.render.length + 1), 0, [], l, r, co, pushEntry es surf l r co F⟩ := by
  have hrf := readField_cell_eof (r := efd) (Or.inr (Or.inl rfl)) c hc.1 hne hc.2 (Or.inl rfl)
  have h43 : ¬ (k + 4 ≤ 3) := by omega
  have hsub : fl + (c.render.length + 1) - 1 = F.length := by omega
  have htake : (F ++ fbRest).take F.length = F := take_app rfl
  simp only [step]
  rw [hrf]
  by_cases hs : surf = []
  · obtain ⟨h1, h2⟩ := hskip hs
    have h1' : ¬ (rep + c.render.length > rb.length) := by omega
    subst hs
    simp [recordTail, efd, h43, hsub, htake, hFu, h1', h2, pushEntry]
  · simp [recordTail, efd, h43, hsub, htake, hFu, hs, pushEntry]

/-- After `InputEmpty` closed the last record: the flushed empty field is skipped
(`continue`). -/
theorem step_flush_continue (fixed : Bool) {rdr : Reader}
    (hs : rdr.state = .inField ∨ rdr.state = .inDoubleEscapedQuote)
    (fb rb : List UInt8) (fl rep : Nat) (surf : List UInt8) (l r : Nat) (co : Int)
    (es : List RawEntry) :
    step fixed ⟨rdr, [], fb, rb, 0, fl, rep, surf, l, r, co, es⟩ =
      .next ⟨⟨.endRecord, true⟩, [], fb, [], 0, fl, rep, [], l, r, co, es⟩ := by
  have hrf := readField_flush (r := rdr) (by rcases hs with h | h <;> simp [h]) outCap
  simp only [step]
  rw [hrf]
  simp [fieldUpdate, validUtf8_nil, recordTail]

/-- No data left between records: `End`, the function returns the entries. -/
theorem step_end (fixed : Bool) {rdr : Reader} (hs : RecStart rdr.state)
    (fb rb : List UInt8) (cnt fl rep : Nat) (surf : List UInt8) (l r : Nat) (co : Int)
    (es : List RawEntry) :
    step fixed ⟨rdr, [], fb, rb, cnt, fl, rep, surf, l, r, co, es⟩ = .done (.ok es) := by
  have hrf := readField_end (r := rdr) hs outCap
  simp only [step]
  rw [hrf]

/-- Repaired code: only record terminators left — `break`. -/
theorem step_blank_fixed {rdr : Reader} (hs : RecStart rdr.state)
    (seps : List UInt8) (hseps : ∀ b ∈ seps, isNl b) (hne : seps ≠ []) (hnb : NoBom rdr seps)
    (fb rb : List UInt8) (fl rep : Nat) (surf : List UInt8) (l r : Nat) (co : Int)
    (es : List RawEntry) :
    step true ⟨rdr, seps, fb, rb, 0, fl, rep, surf, l, r, co, es⟩ = .done (.ok es) := by
  have hrf := readField_terms_only (r := rdr) hs seps hseps hne (cap := outCap) (by decide) hnb
  simp only [step]
  rw [hrf]
  simp
  intro x hx h10 h13
  rcases hseps x hx with h | h <;> contradiction

/-- Pinned code: only record terminators left — "must have five items" error. -/
theorem step_blank_pinned {rdr : Reader} (hs : RecStart rdr.state)
    (seps : List UInt8) (hseps : ∀ b ∈ seps, isNl b) (hne : seps ≠ []) (hnb : NoBom rdr seps)
    (fb rb : List UInt8) (fl : Nat) (hrb : seps.length ≤ rb.length) (surf : List UInt8)
    (l r : Nat) (co : Int) (es : List RawEntry) :
    step false ⟨rdr, seps, fb, rb, 0, fl, 0, surf, l, r, co, es⟩ = .done .err := by
  have hrf := readField_terms_only (r := rdr) hs seps hseps hne (cap := outCap) (by decide) hnb
  have hl : ¬ (seps.length = 0) := by simpa using hne
  have hrb' : ¬ (seps.length > rb.length) := by omega
  simp only [step]
  rw [hrf]
  simp [recordTail, hl, hrb']

/-- Repaired code: the last feature cell is empty and the data ends after its comma. -/
theorem step_lastEmpty_eof_fixed (k : Nat) (F fbRest rb : List UInt8) (fl rep : Nat)
    (hF : F.length = fl) (hFu : validUtf8 F = true)
    (surf : List UInt8) (l r : Nat) (co : Int) (es : List RawEntry)
    (hskip : SkipOk surf rb rep) :
    step true ⟨efd, [], F ++ fbRest, rb, k + 4, fl, rep, surf, l, r, co, es⟩ =
      .next ⟨⟨.endRecord, true⟩, [], F ++ fbRest, rb, 0, fl + 1, 0, [], l, r, co,
        pushEntry es surf l r co F⟩ := by
  have hrf := readField_flush (r := efd) (Or.inr (Or.inl rfl)) outCap
  have h43 : ¬ (k + 4 ≤ 3) := by omega
  have h44 : 4 ≤ k + 4 := by omega
  have htake : (F ++ fbRest).take fl = F := take_app hF.symm
  have hle : ¬ (fl > F.length + fbRest.length) := by omega
  simp only [step]
  rw [hrf]
  by_cases hs : surf = []
  · obtain ⟨h1, h2⟩ := hskip hs
    have h1' : ¬ (rep > rb.length) := by omega
    subst hs
    simp [fieldUpdate, recordTail, h43, h44, htake, hFu, h1', h2, pushEntry, hle]
  · simp [fieldUpdate, recordTail, h43, h44, htake, hFu, hs, pushEntry, hle]

/-- Pinned code: the data ends directly after the fourth comma — `features_len - 1`
underflows. -/
theorem step_lastEmpty_eof_pinned_panic (fb rb : List UInt8) (rep : Nat)
    (surf : List UInt8) (l r : Nat) (co : Int) (es : List RawEntry) :
    step false ⟨efd, [], fb, rb, 4, 0, rep, surf, l, r, co, es⟩ = .done .panic := by
  have hrf := readField_flush (r := efd) (Or.inr (Or.inl rfl)) outCap
  simp only [step]
  rw [hrf]
  simp [fieldUpdate, recordTail]

/-- Pinned code: the data ends after the comma that precedes an empty last feature cell —
the feature loses that comma. -/
theorem step_lastEmpty_eof_pinned (k : Nat) (F fbRest rb : List UInt8) (fl rep : Nat)
    (hF : (F ++ [44]).length = fl) (hFu : validUtf8 F = true)
    (surf : List UInt8) (l r : Nat) (co : Int) (es : List RawEntry)
    (hskip : SkipOk surf rb rep) :
    step false ⟨efd, [], (F ++ [44]) ++ fbRest, rb, k + 4, fl, rep, surf, l, r, co, es⟩ =
      .next ⟨⟨.endRecord, true⟩, [], (F ++ [44]) ++ fbRest, rb, 0, fl, 0, [], l, r, co,
        pushEntry es surf l r co F⟩ := by
  have hrf := readField_flush (r := efd) (Or.inr (Or.inl rfl)) outCap
  have h43 : ¬ (k + 4 ≤ 3) := by omega
  simp only [List.length_append, List.length_cons, List.length_nil] at hF
  have hfl0 : ¬ (fl = 0) := by omega
  have htake : (F ++ 44 :: fbRest).take (fl - 1) = F := take_app (by omega)
  have hle : ¬ (fl - 1 > F.length + (fbRest.length + 1)) := by omega
  simp only [step]
  rw [hrf]
  by_cases hs : surf = []
  · obtain ⟨h1, h2⟩ := hskip hs
    have h1' : ¬ (rep > rb.length) := by omega
    subst hs
    simp [fieldUpdate, recordTail, h43, hfl0, htake, hFu, h1', h2, pushEntry, hle]
  · simp [fieldUpdate, recordTail, h43, hfl0, htake, hFu, hs, pushEntry, hle]

/-! ## Rows -/

theorem runs_featInit (fixed : Bool) (cells : List Cell) (hcells : ∀ c ∈ cells, cellOk c)
    (rest : List UInt8) (k : Nat) (fb rb : List UInt8) (fl rep : Nat) (surf : List UInt8)
    (l r : Nat) (co : Int) (es : List RawEntry) (cnt' fl' rep' : Nat)
    (h1 : cnt' = k + cells.length + 4) (h2 : fl' = fl + (featInitBytes cells).length)
    (h3 : rep' = rep + (featInitBytes cells).length) :
    Runs fixed ⟨efd, featInitBytes cells ++ rest, fb, rb, k + 4, fl, rep, surf, l, r, co, es⟩
      ⟨efd, rest, fb, rb, cnt', fl', rep', surf, l, r, co, es⟩ := by
  induction cells generalizing k fl rep with
  | nil =>
    subst h1 h2 h3
    exact Runs.refl _
  | cons c cells ih =>
    have hb : featInitBytes (c :: cells) ++ rest =
        c.render ++ 44 :: (featInitBytes cells ++ rest) := by simp [featInitBytes]
    have hlen : (featInitBytes (c :: cells)).length =
        c.render.length + 1 + (featInitBytes cells).length := by
      rw [show featInitBytes (c :: cells) = c.render ++ 44 :: featInitBytes cells by
        simp [featInitBytes]]
      simp; omega
    rw [hb]
    refine Runs.head (step_feat fixed c (hcells c (by simp)) _ k fb rb fl rep surf l r co es) ?_
    exact ih (fun x hx => hcells x (by simp [hx])) (k + 1) _ _
      (by simp only [List.length_cons] at h1; omega) (by omega) (by omega)

/-- The four fixed fields and all feature cells but the last. -/
theorem row_head_runs (fixed : Bool) {rdr : Reader} (hrs : RecStart rdr.state)
    (seps : List UInt8) (hseps : ∀ b ∈ seps, isNl b) (row : Row) (hrow : row.WF)
    (rest : List UInt8) (hnb : NoBom rdr (seps ++ (row.head ++ rest)))
    (fb rb : List UInt8) (fl : Nat) (l r : Nat) (co : Int) (es : List RawEntry)
    (fb' : List UInt8) (rep' : Nat) (hfb : fb' = featInitBytes row.fInit ++ rest)
    (hrep : rep' = seps.length + row.head.length) :
    Runs fixed ⟨rdr, seps ++ (row.head ++ rest), fb, rb, 0, fl, 0, [], l, r, co, es⟩
      ⟨efd, rest, fb', seps ++ (row.head ++ rest), row.fInit.length + 4,
        (featInitBytes row.fInit).length, rep', row.c0.value, row.left, row.right, row.cost,
        es⟩ := by
  have hh : row.head ++ rest = row.c0.render ++ 44 :: (row.c1.render ++ 44 ::
      (row.c2.render ++ 44 :: (row.c3.render ++ 44 :: (featInitBytes row.fInit ++ rest)))) := by
    simp [Row.head]
  have hlen : row.head.length = row.c0.render.length + 1 + (row.c1.render.length + 1) +
      (row.c2.render.length + 1) + (row.c3.render.length + 1) +
      (featInitBytes row.fInit).length := by
    simp [Row.head]; omega
  subst hfb
  rw [hh] at hnb ⊢
  refine Runs.head (step_field0 fixed hrs seps hseps row.c0 hrow.h0 hrow.surfaceUtf8 _ hnb
    fb rb fl 0 [] l r co es) ?_
  refine Runs.head (step_field1 fixed row.c1 hrow.h1 hrow.leftOk _ _ _ _ _ _ _ _ _ _) ?_
  refine Runs.head (step_field2 fixed row.c2 hrow.h2 hrow.rightOk _ _ _ _ _ _ _ _ _ _) ?_
  refine Runs.head (step_field3 fixed row.c3 hrow.h3 hrow.costOk _ _ _ _ _ _ _ _ _ _) ?_
  exact runs_featInit fixed row.fInit hrow.hInit rest 0 _ _ 0 _ _ _ _ _ _ _ _ _
    (by omega) (by omega) (by omega)

/-! ### The raw record of a skipped (empty-surface) row is valid UTF-8 -/

theorem escapeQuotes_ascii {v : List UInt8} (h : ∀ b ∈ v, b < 128) :
    ∀ b ∈ escapeQuotes v, b < 128 := by
  induction v with
  | nil => simp [escapeQuotes]
  | cons x v ih =>
    have hx := h x (by simp)
    have hv := ih fun b hb => h b (by simp [hb])
    simp only [escapeQuotes]
    split
    · intro b hb
      rcases List.mem_cons.mp hb with rfl | hb
      · decide
      · rcases List.mem_cons.mp hb with rfl | hb
        · decide
        · exact hv b hb
    · intro b hb
      rcases List.mem_cons.mp hb with rfl | hb
      · exact hx
      · exact hv b hb

theorem render_ascii {c : Cell} (h : ∀ b ∈ c.value, b < 128) : ∀ b ∈ c.render, b < 128 := by
  cases c with
  | plain v => exact h
  | quoted v =>
    intro b hb
    simp only [Cell.render, List.mem_cons, List.mem_append, List.mem_nil_iff, or_false] at hb
    rcases hb with (rfl | hb) | rfl
    · decide
    · exact escapeQuotes_ascii h b hb
    · decide

theorem validUtf8_seps {seps : List UInt8} (hseps : ∀ b ∈ seps, isNl b) :
    validUtf8 seps = true := by
  apply validUtf8_ascii
  intro b hb
  rcases hseps b hb with h | h <;> subst h <;> decide

theorem validUtf8_row {row : Row} (hrow : row.WF) (h0 : row.c0.value = []) :
    validUtf8 row.render = true := by
  rw [Row.render_eq]
  have a0 : ∀ b ∈ row.c0.render, b < 128 := render_ascii (by simp [h0])
  have a1 : ∀ b ∈ row.c1.render, b < 128 := render_ascii (parseU16_ascii hrow.leftOk)
  have a2 : ∀ b ∈ row.c2.render, b < 128 := render_ascii (parseU16_ascii hrow.rightOk)
  have a3 : ∀ b ∈ row.c3.render, b < 128 := render_ascii (parseI16_ascii hrow.costOk)
  have e : row.c0.render ++ 44 :: (row.c1.render ++ 44 :: (row.c2.render ++ 44 ::
      (row.c3.render ++ 44 :: row.feature))) =
      (row.c0.render ++ 44 :: (row.c1.render ++ 44 :: (row.c2.render ++ 44 ::
      (row.c3.render ++ [44])))) ++ row.feature := by simp
  rw [e]
  apply validUtf8_append _ hrow.featureUtf8
  apply validUtf8_ascii
  intro b hb
  simp only [List.mem_append, List.mem_cons, List.mem_nil_iff, or_false] at hb
  rcases hb with hb | rfl | hb | rfl | hb | rfl | hb | rfl
  · exact a0 b hb
  · decide
  · exact a1 b hb
  · decide
  · exact a2 b hb
  · decide
  · exact a3 b hb
  · decide

/-- `SkipOk` for a row that ends with a terminator. -/
theorem skipOk_term {row : Row} (hrow : row.WF) {seps : List UInt8}
    (hseps : ∀ b ∈ seps, isNl b) {t : UInt8} (ht : isNl t) (rest : List UInt8) :
    SkipOk row.c0.value (seps ++ (row.head ++ (row.fLast.render ++ t :: rest)))
      (seps.length + row.head.length + (row.fLast.render.length + 1)) := by
  intro h0
  have e : seps ++ (row.head ++ (row.fLast.render ++ t :: rest)) =
      (seps ++ (row.render ++ [t])) ++ rest := by simp [Row.render]
  have hn : seps.length + row.head.length + (row.fLast.render.length + 1) =
      (seps ++ (row.render ++ [t])).length := by simp [Row.render]; omega
  rw [e, hn]
  constructor
  · simp
  · rw [take_app rfl]
    apply validUtf8_append (validUtf8_seps hseps)
    apply validUtf8_append (validUtf8_row hrow h0)
    apply validUtf8_ascii
    intro b hb
    simp only [List.mem_cons, List.mem_nil_iff, or_false] at hb
    subst hb
    rcases ht with h | h <;> subst h <;> decide

/-- `SkipOk` for a row at the end of the data. -/
theorem skipOk_eof {row : Row} (hrow : row.WF) {seps : List UInt8}
    (hseps : ∀ b ∈ seps, isNl b) :
    SkipOk row.c0.value (seps ++ (row.head ++ row.fLast.render))
      (seps.length + row.head.length + row.fLast.render.length) := by
  intro h0
  have hn : seps.length + row.head.length + row.fLast.render.length =
      (seps ++ (row.head ++ row.fLast.render)).length := by simp; omega
  rw [hn]
  constructor
  · simp
  · rw [List.take_length]
    exact validUtf8_append (validUtf8_seps hseps) (validUtf8_row hrow h0)

/-! ### Whole lines -/

/-- The loop is between two records: `rest` is still to be read, `es` has been collected. -/
structure Between (st : PState) (rest : List UInt8) (es : List RawEntry) : Prop where
  rs : RecStart st.rdr.state
  nb : NoBom st.rdr st.bytes
  bytes : st.bytes = rest
  cnt : st.fieldCnt = 0
  rep : st.recordEndPos = 0
  surf : st.surface = []
  rbLen : rest.length ≤ st.recordBytes.length
  entries : st.entries = es

theorem pushEntry_row (es : List RawEntry) (row : Row) :
    pushEntry es row.c0.value row.left row.right row.cost row.feature = es ++ row.entries := by
  simp [pushEntry, Row.entries, Row.entry]

/-- One terminated row (with blank lines in front) is consumed and its entry appended. -/
theorem line_runs (fixed : Bool) (st : PState) (ln : Line) (rest : List UInt8)
    (es : List RawEntry) (hst : Between st (ln.render ++ rest) es) (hl : ln.WF) :
    ∃ st', Runs fixed st st' ∧ Between st' rest (es ++ ln.row.entries) := by
  obtain ⟨rdr, bytes, fb, rb, cnt, fl, rep, surf, l, r, co, es0⟩ := st
  obtain ⟨hrs, hnb, hbytes, hcnt, hrep, hsurf, hrb, hes⟩ := hst
  simp only at hrs hnb hbytes hcnt hrep hsurf hrb hes
  subst hcnt hrep hsurf hes
  have hb : ln.render ++ rest =
      ln.seps ++ (ln.row.head ++ (ln.row.fLast.render ++ ln.term :: rest)) := by
    simp [Line.render, Row.render]
  rw [hb] at hbytes
  subst hbytes
  have hF : featInitBytes ln.row.fInit ++ (ln.row.fLast.render ++ ln.term :: rest) =
      ln.row.feature ++ ln.term :: rest := by simp [Row.feature]
  refine ⟨_, Runs.trans
    (row_head_runs fixed hrs ln.seps hl.hseps ln.row hl.hrow _ hnb fb rb fl l r co es0
      (ln.row.feature ++ ln.term :: rest) (ln.seps.length + ln.row.head.length) hF.symm rfl)
    (Runs.single (step_last_term fixed ln.row.fLast hl.hrow.hLast hl.hterm rest _
      ln.row.feature _ _ _ _ (by simp [Row.feature]) hl.hrow.featureUtf8 _ _ _ _ _
      (skipOk_term hl.hrow hl.hseps hl.hterm rest))), ?_⟩
  refine ⟨?_, Or.inl rfl, rfl, rfl, rfl, rfl, ?_, ?_⟩
  · rcases hl.hterm with h | h <;> simp [h, RecStart]
  · simp; omega
  · exact pushEntry_row _ _

/-- All terminated rows are consumed in order. -/
theorem lines_runs (fixed : Bool) (lines : List Line) (rest : List UInt8) (st : PState)
    (es : List RawEntry) (hst : Between st (lines.flatMap Line.render ++ rest) es)
    (hl : ∀ ln ∈ lines, ln.WF) :
    ∃ st', Runs fixed st st' ∧
      Between st' rest (es ++ lines.flatMap (fun ln => ln.row.entries)) := by
  induction lines generalizing st es with
  | nil => exact ⟨st, Runs.refl _, by simpa using hst⟩
  | cons ln lines ih =>
    have hb : (ln :: lines).flatMap Line.render ++ rest =
        ln.render ++ (lines.flatMap Line.render ++ rest) := by simp
    rw [hb] at hst
    obtain ⟨st1, hr1, hb1⟩ := line_runs fixed st ln _ es hst (hl ln (by simp))
    obtain ⟨st2, hr2, hb2⟩ := ih st1 _ hb1 (fun x hx => hl x (by simp [hx]))
    exact ⟨st2, Runs.trans hr1 hr2, by simpa [List.append_assoc] using hb2⟩

/-! ## Tails -/

theorem Cell.after_of_render_ne {c : Cell} (hne : c.render ≠ []) (s : NfaState) :
    c.after s = .inField ∨ c.after s = .inDoubleEscapedQuote := by
  cases c with
  | plain v => cases v <;> simp_all [Cell.after, Cell.render]
  | quoted v => simp [Cell.after]

/-- No data, or only blank lines, after the last terminated row (repaired code). -/
theorem tail_blank_reaches_fixed (st : PState) (seps : List UInt8) (es : List RawEntry)
    (hst : Between st seps es) (hseps : ∀ b ∈ seps, isNl b) :
    Reaches true st (.ok es) := by
  obtain ⟨rdr, bytes, fb, rb, cnt, fl, rep, surf, l, r, co, es0⟩ := st
  obtain ⟨hrs, hnb, hbytes, hcnt, hrep, hsurf, hrb, hes⟩ := hst
  simp only at hrs hnb hbytes hcnt hrep hsurf hrb hes
  subst hcnt hrep hsurf hes hbytes
  by_cases hne : bytes = []
  · subst hne
    exact Reaches.done (step_end true hrs _ _ _ _ _ _ _ _ _ _)
  · exact Reaches.done (step_blank_fixed hrs bytes hseps hne hnb _ _ _ _ _ _ _ _ _)

/-- No data after the last terminated row (any code version). -/
theorem tail_nil_reaches (fixed : Bool) (st : PState) (es : List RawEntry)
    (hst : Between st [] es) : Reaches fixed st (.ok es) := by
  obtain ⟨rdr, bytes, fb, rb, cnt, fl, rep, surf, l, r, co, es0⟩ := st
  obtain ⟨hrs, hnb, hbytes, hcnt, hrep, hsurf, hrb, hes⟩ := hst
  simp only at hrs hnb hbytes hcnt hrep hsurf hrb hes
  subst hcnt hrep hsurf hes hbytes
  exact Reaches.done (step_end fixed hrs _ _ _ _ _ _ _ _ _ _)

/-- Pinned code: blank lines (or the `\n` of a final `\r\n`) after the last terminated row
are rejected. -/
theorem tail_blank_reaches_pinned (st : PState) (seps : List UInt8) (es : List RawEntry)
    (hst : Between st seps es) (hseps : ∀ b ∈ seps, isNl b) (hne : seps ≠ []) :
    Reaches false st .err := by
  obtain ⟨rdr, bytes, fb, rb, cnt, fl, rep, surf, l, r, co, es0⟩ := st
  obtain ⟨hrs, hnb, hbytes, hcnt, hrep, hsurf, hrb, hes⟩ := hst
  simp only at hrs hnb hbytes hcnt hrep hsurf hrb hes
  subst hcnt hrep hsurf hes hbytes
  exact Reaches.done (step_blank_pinned hrs bytes hseps hne hnb _ _ _ hrb _ _ _ _ _)

/-- An unterminated last row whose last cell is not empty in the file (any code version):
`InputEmpty` closes the record, the flushed empty field is skipped, then `End`. -/
theorem tail_lastRow_reaches (fixed : Bool) (st : PState) (seps : List UInt8) (row : Row)
    (es : List RawEntry) (hst : Between st (seps ++ row.render) es)
    (hseps : ∀ b ∈ seps, isNl b) (hrow : row.WF) (hne : row.fLast.render ≠ []) :
    Reaches fixed st (.ok (es ++ row.entries)) := by
  obtain ⟨rdr, bytes, fb, rb, cnt, fl, rep, surf, l, r, co, es0⟩ := st
  obtain ⟨hrs, hnb, hbytes, hcnt, hrep, hsurf, hrb, hes⟩ := hst
  simp only at hrs hnb hbytes hcnt hrep hsurf hrb hes
  subst hcnt hrep hsurf hes
  have hb : seps ++ row.render = seps ++ (row.head ++ row.fLast.render) := by simp [Row.render]
  rw [hb] at hbytes
  subst hbytes
  have hF : featInitBytes row.fInit ++ row.fLast.render = row.feature ++ [] := by
    simp [Row.feature]
  have hafter := Cell.after_of_render_ne hne .endFieldDelim
  apply Reaches.of_runs
    (row_head_runs fixed hrs seps hseps row hrow _ hnb fb rb fl l r co es0
      (row.feature ++ []) (seps.length + row.head.length) hF.symm rfl)
  apply Reaches.next (step_last_eof fixed row.fLast hrow.hLast hne _
      row.feature _ _ _ _ (by simp [Row.feature]) hrow.featureUtf8 _ _ _ _ _
      (skipOk_eof hrow hseps))
  apply Reaches.next (step_flush_continue fixed (rdr := ⟨row.fLast.after .endFieldDelim, true⟩)
      hafter _ _ _ _ _ _ _ _ _)
  rw [pushEntry_row]
  exact Reaches.done (step_end fixed (Or.inr (Or.inl rfl)) _ _ _ _ _ _ _ _ _ _)

/-- `SkipOk` for a row at the end of the data whose last cell is empty in the file. -/
theorem skipOk_eof_empty {row : Row} (hrow : row.WF) {seps : List UInt8}
    (hseps : ∀ b ∈ seps, isNl b) (he : row.fLast.render = []) :
    SkipOk row.c0.value (seps ++ (row.head ++ [])) (seps.length + row.head.length) := by
  have := skipOk_eof hrow hseps
  rw [he] at this
  simpa using this

/-- Repaired code: an unterminated last row that ends with a comma (empty last cell). -/
theorem tail_lastRow_empty_reaches_fixed (st : PState) (seps : List UInt8) (row : Row)
    (es : List RawEntry) (hst : Between st (seps ++ row.render) es)
    (hseps : ∀ b ∈ seps, isNl b) (hrow : row.WF) (he : row.fLast.render = []) :
    Reaches true st (.ok (es ++ row.entries)) := by
  obtain ⟨rdr, bytes, fb, rb, cnt, fl, rep, surf, l, r, co, es0⟩ := st
  obtain ⟨hrs, hnb, hbytes, hcnt, hrep, hsurf, hrb, hes⟩ := hst
  simp only at hrs hnb hbytes hcnt hrep hsurf hrb hes
  subst hcnt hrep hsurf hes
  have hb : seps ++ row.render = seps ++ (row.head ++ []) := by simp [Row.render, he]
  rw [hb] at hbytes
  subst hbytes
  have hF : featInitBytes row.fInit ++ [] = row.feature ++ [] := by
    simp [Row.feature, he]
  apply Reaches.of_runs
    (row_head_runs true hrs seps hseps row hrow _ hnb fb rb fl l r co es0
      (row.feature ++ []) (seps.length + row.head.length) hF.symm rfl)
  apply Reaches.next (step_lastEmpty_eof_fixed _ row.feature _ _ _ _
      (by simp [Row.feature, he]) hrow.featureUtf8 _ _ _ _ _ (skipOk_eof_empty hrow hseps he))
  rw [pushEntry_row]
  exact Reaches.done (step_end true (Or.inr (Or.inl rfl)) _ _ _ _ _ _ _ _ _ _)

/-- Pinned code: the data ends directly after the fourth comma of the last row — panic. -/
theorem tail_lastRow_empty_reaches_pinned_panic (st : PState) (seps : List UInt8) (row : Row)
    (es : List RawEntry) (hst : Between st (seps ++ row.render) es)
    (hseps : ∀ b ∈ seps, isNl b) (hrow : row.WF) (he : row.fLast.render = [])
    (hi : row.fInit = []) :
    Reaches false st .panic := by
  obtain ⟨rdr, bytes, fb, rb, cnt, fl, rep, surf, l, r, co, es0⟩ := st
  obtain ⟨hrs, hnb, hbytes, hcnt, hrep, hsurf, hrb, hes⟩ := hst
  simp only at hrs hnb hbytes hcnt hrep hsurf hrb hes
  subst hcnt hrep hsurf hes
  have hb : seps ++ row.render = seps ++ (row.head ++ []) := by simp [Row.render, he]
  rw [hb] at hbytes
  subst hbytes
  have hrun := row_head_runs false hrs seps hseps row hrow _ hnb fb rb fl l r co es0
      _ (seps.length + row.head.length) rfl rfl
  rw [hi] at hrun
  apply Reaches.of_runs hrun
  exact Reaches.done (step_lastEmpty_eof_pinned_panic _ _ _ _ _ _ _ _)

theorem featInitBytes_ne_nil {cells : List Cell} (h : cells ≠ []) :
    ∃ X, featInitBytes cells = X ++ [44] := by
  induction cells with
  | nil => exact absurd rfl h
  | cons c cells ih =>
    by_cases hc : cells = []
    · subst hc; exact ⟨c.render, by simp [featInitBytes]⟩
    · obtain ⟨X, hX⟩ := ih hc
      refine ⟨c.render ++ 44 :: X, ?_⟩
      have : featInitBytes (c :: cells) = c.render ++ 44 :: featInitBytes cells := by
        simp [featInitBytes]
      rw [this, hX]; simp

/-- The entry the pinned code produces for an unterminated last row ending with a comma:
the feature has lost that comma. -/
def Row.truncatedEntries (r : Row) : List RawEntry :=
  if r.c0.value = [] then [] else [{ r.entry with feature := r.feature.dropLast }]

/-- Pinned code: an unterminated last row that ends with a comma after at least one more
feature cell — accepted, but the feature is stored without its final comma. -/
theorem tail_lastRow_empty_reaches_pinned_truncated (st : PState) (seps : List UInt8)
    (row : Row) (es : List RawEntry) (hst : Between st (seps ++ row.render) es)
    (hseps : ∀ b ∈ seps, isNl b) (hrow : row.WF) (he : row.fLast.render = [])
    (hi : row.fInit ≠ []) :
    Reaches false st (.ok (es ++ row.truncatedEntries)) := by
  obtain ⟨rdr, bytes, fb, rb, cnt, fl, rep, surf, l, r, co, es0⟩ := st
  obtain ⟨hrs, hnb, hbytes, hcnt, hrep, hsurf, hrb, hes⟩ := hst
  simp only at hrs hnb hbytes hcnt hrep hsurf hrb hes
  subst hcnt hrep hsurf hes
  have hb : seps ++ row.render = seps ++ (row.head ++ []) := by simp [Row.render, he]
  rw [hb] at hbytes
  subst hbytes
  obtain ⟨X, hX⟩ := featInitBytes_ne_nil hi
  have hfeat : row.feature = X ++ [44] := by simp [Row.feature, he, hX]
  have hXu : validUtf8 X = true :=
    validUtf8_of_append_ascii (by decide) (hfeat ▸ hrow.featureUtf8)
  have hF : featInitBytes row.fInit ++ [] = (X ++ [44]) ++ [] := by simp [hX]
  apply Reaches.of_runs
    (row_head_runs false hrs seps hseps row hrow _ hnb fb rb fl l r co es0
      ((X ++ [44]) ++ []) (seps.length + row.head.length) hF.symm rfl)
  apply Reaches.next (step_lastEmpty_eof_pinned _ X _ _ _ _
      (by rw [hX]) hXu _ _ _ _ _ (skipOk_eof_empty hrow hseps he))
  have hpe : pushEntry es0 row.c0.value row.left row.right row.cost X =
      es0 ++ row.truncatedEntries := by
    simp [pushEntry, Row.truncatedEntries, Row.entry, hfeat]
  rw [hpe]
  exact Reaches.done (step_end false (Or.inr (Or.inl rfl)) _ _ _ _ _ _ _ _ _ _)

/-! ## Whole files -/

theorem between_init {file : List UInt8} (hbom : ¬ (bom <+: file)) :
    Between (PState.init file) file [] :=
  ⟨Or.inl rfl, Or.inr hbom, rfl, rfl, rfl, rfl, Nat.le_refl _, rfl⟩

/-- Reduction of a whole-file statement to the tail: if the loop, standing between records in
front of the tail with the entries of all terminated rows collected, leaves with `r`, then
`parseCsv` returns `r`. -/
theorem parseCsv_of_tail (fixed : Bool) (lines : List Line) (tail : Tail)
    (r : Outcome (List RawEntry)) (hl : ∀ ln ∈ lines, ln.WF)
    (hbom : ¬ (bom <+: renderFile lines tail))
    (htail : ∀ st, Between st tail.render (lines.flatMap fun ln => ln.row.entries) →
      Reaches fixed st r) :
    parseCsv fixed (renderFile lines tail) = r := by
  apply parseCsv_of_reaches
  obtain ⟨st', hr, hb⟩ := lines_runs fixed lines tail.render _ [] (between_init hbom) hl
  exact Reaches.of_runs hr (htail st' (by simpa using hb))

end Vibrato.LexCsv
