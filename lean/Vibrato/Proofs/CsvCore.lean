/-
Lemmas about the csv-core reader port (`Vibrato/Model/CsvCore.lean`):
the explicit DFA table, the cell grammar (`Cell`), and what `readLoop` / `readField` do on a
rendered cell followed by a delimiter, a record terminator, or the end of the data.
-/
import Vibrato.Model.CsvCore

namespace Vibrato.Csv

/-! ## The DFA table -/

/-- Transitions out of a state in which a field starts. -/
def fieldStart (c : UInt8) : NfaState × Bool :=
  if c = 34 then (.inQuotedField, false)
  else if c = 44 then (.endFieldDelim, false)
  else if c = 13 then (.crlf, false)
  else if c = 10 then (.endRecord, false)
  else (.inField, true)

/-- Transitions out of a state in which a record starts. -/
def recordStart (c : UInt8) : NfaState × Bool :=
  if c = 13 ∨ c = 10 then (.startRecord, false) else fieldStart c

/-- Transitions inside an unquoted field. -/
def inFieldStep (c : UInt8) : NfaState × Bool :=
  if c = 44 then (.endFieldDelim, false)
  else if c = 13 then (.crlf, false)
  else if c = 10 then (.endRecord, false)
  else (.inField, true)

/-- The DFA transition table of the default configuration, written out. -/
def dfaTable (s : NfaState) (c : UInt8) : NfaState × Bool :=
  match s with
  | .startRecord | .endRecord | .crlf => recordStart c
  | .startField | .endFieldDelim => fieldStart c
  | .inField => inFieldStep c
  | .inQuotedField => if c = 34 then (.inDoubleEscapedQuote, false) else (.inQuotedField, true)
  | .inEscapedQuote => (.inQuotedField, true)
  | .inDoubleEscapedQuote => if c = 34 then (.inQuotedField, true) else inFieldStep c
  | .inComment => if c = 10 then (.startRecord, false) else (.inComment, false)
  | .endFieldTerm | .inRecordTerm => if c = 13 then (.crlf, false) else (.endRecord, false)
  | .end_ => (.end_, false)

theorem dfaStep_eq_table (s : NfaState) (c : UInt8) : dfaStep s c = dfaTable s c := by
  by_cases h1 : c = 34 <;> by_cases h2 : c = 44 <;> by_cases h3 : c = 13 <;>
    by_cases h4 : c = 10 <;> cases s <;>
    simp_all [dfaStep, dfaClosure, transitionNfa, isTerm, dfaTable, fieldStart, recordStart,
      inFieldStep]

/-- The fuel of `dfaClosure` in `dfaStep` suffices: from every state the loop of
`build_dfa` ends in a consuming transition (or in `End`). -/
theorem dfaClosure_fuel (s : NfaState) (c : UInt8) :
    (dfaClosure 6 s c).2 ≠ .epsilon ∨ (dfaClosure 6 s c).1 = .end_ := by
  by_cases h1 : c = 34 <;> by_cases h2 : c = 44 <;> by_cases h3 : c = 13 <;>
    by_cases h4 : c = 10 <;> cases s <;>
    simp_all [dfaClosure, transitionNfa, isTerm]

/-- The result of a DFA step is always one of the ten DFA states (`new_state` never sees
one of the three NFA-only states, whose index would not fit in a `u8`). -/
theorem dfaStep_isDfaState (s : NfaState) (c : UInt8) (hs : s ≠ .end_) :
    (dfaStep s c).1.idx < 50 := by
  rw [dfaStep_eq_table]
  by_cases h1 : c = 34 <;> by_cases h2 : c = 44 <;> by_cases h3 : c = 13 <;>
    by_cases h4 : c = 10 <;> cases s <;>
    simp_all [dfaTable, fieldStart, recordStart, inFieldStep, NfaState.idx, numClasses]

/-! ## Generic facts about `readLoop` -/

/-- Post-composition used to state "the loop first reads `k` bytes producing `pre`". -/
def shift (k : Nat) (pre : List UInt8) (r : NfaState × Nat × List UInt8) :
    NfaState × Nat × List UInt8 :=
  (r.1, r.2.1 + k, pre ++ r.2.2)

@[simp] theorem shift_zero (r : NfaState × Nat × List UInt8) : shift 0 [] r = r := by
  simp [shift]

theorem shift_shift (k₁ k₂ : Nat) (p₁ p₂ : List UInt8) (r : NfaState × Nat × List UInt8) :
    shift k₁ p₁ (shift k₂ p₂ r) = shift (k₂ + k₁) (p₁ ++ p₂) r := by
  simp [shift, Nat.add_assoc]

theorem readLoop_nil (cap : Nat) (s : NfaState) (nout : Nat) :
    readLoop cap s [] nout = (s, 0, []) := by
  simp [readLoop]

theorem readLoop_step_nonfinal {cap nout : Nat} {s s' : NfaState} {b : UInt8} {ho : Bool}
    (rest : List UInt8) (hcap : nout < cap) (hstep : dfaTable s b = (s', ho))
    (hnf : s'.idx < finalField) :
    readLoop cap s (b :: rest) nout =
      shift 1 (if ho then [b] else [])
        (readLoop cap s' rest (if ho then nout + 1 else nout)) := by
  have hnf' : ¬ (s'.idx ≥ finalField) := by omega
  cases ho <;> simp [readLoop, hcap, dfaStep_eq_table, hstep, hnf', shift]

theorem readLoop_step_final {cap nout : Nat} {s s' : NfaState} {b : UInt8} {ho : Bool}
    (rest : List UInt8) (hcap : nout < cap) (hstep : dfaTable s b = (s', ho))
    (hf : s'.idx ≥ finalField) :
    readLoop cap s (b :: rest) nout = (s', 1, if ho then [b] else []) := by
  simp [readLoop, hcap, dfaStep_eq_table, hstep, hf]

/-- A run of bytes that are copied without leaving the (non-final) state `s`. -/
theorem readLoop_copy_run {cap : Nat} {s : NfaState} (hs : s.idx < finalField)
    (v rest : List UInt8) (nout : Nat)
    (hv : ∀ b ∈ v, dfaTable s b = (s, true)) (hcap : nout + v.length ≤ cap) :
    readLoop cap s (v ++ rest) nout =
      shift v.length v (readLoop cap s rest (nout + v.length)) := by
  induction v generalizing nout with
  | nil => simp
  | cons b v ih =>
    have hb := hv b (by simp)
    have hv' : ∀ b ∈ v, dfaTable s b = (s, true) := fun x hx => hv x (by simp [hx])
    simp only [List.length_cons] at hcap
    rw [List.cons_append, readLoop_step_nonfinal _ (by omega) hb hs]
    simp only [if_true]
    rw [ih (nout + 1) hv' (by omega), shift_shift]
    simp [Nat.add_assoc, Nat.add_comm 1]

/-- Record terminators at the start of a record are discarded. -/
theorem readLoop_skip_terms {cap : Nat} {s : NfaState}
    (hs : s = .startRecord ∨ s = .endRecord ∨ s = .crlf)
    (seps rest : List UInt8) (nout : Nat) (hseps : ∀ b ∈ seps, b = 10 ∨ b = 13)
    (hne : seps ≠ []) (hcap : nout < cap) :
    readLoop cap s (seps ++ rest) nout =
      shift seps.length [] (readLoop cap .startRecord rest nout) := by
  induction seps generalizing s with
  | nil => exact absurd rfl hne
  | cons b seps ih =>
    have hb := hseps b (by simp)
    have hstep : dfaTable s b = (.startRecord, false) := by
      rcases hs with h | h | h <;> rcases hb with hb | hb <;> subst h <;> subst hb <;>
        simp [dfaTable, recordStart]
    rw [List.cons_append, readLoop_step_nonfinal _ hcap hstep (by decide)]
    simp only [Bool.false_eq_true, if_false]
    by_cases hne' : seps = []
    · subst hne'; simp [shift]
    · rw [ih (Or.inl rfl) (fun x hx => hseps x (by simp [hx])) hne', shift_shift]
      simp

theorem readLoop_nin_le (cap : Nat) (s : NfaState) (input : List UInt8) (nout : Nat) :
    (readLoop cap s input nout).2.1 ≤ input.length := by
  induction input generalizing s nout with
  | nil => simp [readLoop]
  | cons b rest ih =>
    simp only [readLoop]
    split
    · split
      · simp
      · have := ih (dfaStep s b).1 (if (dfaStep s b).2 = true then nout + 1 else nout)
        exact Nat.add_le_add_right this 1
    · simp

theorem readLoop_nin_pos (cap : Nat) (s : NfaState) (b : UInt8) (rest : List UInt8) (nout : Nat)
    (hcap : nout < cap) : 1 ≤ (readLoop cap s (b :: rest) nout).2.1 := by
  simp only [readLoop, hcap, if_true]
  split
  · simp
  · dsimp only
    omega

/-! ## Cells -/

/-- A CSV cell as written in a file: unquoted (`plain`), or between quotes with the quotes
of the value doubled (`quoted`). -/
inductive Cell where
  | plain (v : List UInt8)
  | quoted (v : List UInt8)
  deriving Repr, DecidableEq

/-- The unquoted value. -/
def Cell.value : Cell → List UInt8
  | .plain v => v
  | .quoted v => v

/-- The bytes in the file. -/
def Cell.render : Cell → List UInt8
  | .plain v => v
  | .quoted v => 34 :: escapeQuotes v ++ [34]

/-- A plain cell is free of `,` `"` `\r` `\n`; a quoted cell may contain anything. -/
def Cell.wf : Cell → Bool
  | .plain v => v.all fun b => !requiresQuotes b
  | .quoted _ => true

theorem not_requiresQuotes {b : UInt8} (h : (!requiresQuotes b) = true) :
    b ≠ 44 ∧ b ≠ 34 ∧ b ≠ 13 ∧ b ≠ 10 := by
  simp [requiresQuotes] at h
  exact ⟨h.1.1.1, h.1.1.2, h.1.2, h.2⟩

/-- The reader state after the bytes of a cell have been consumed. -/
def Cell.after (s : NfaState) : Cell → NfaState
  | .plain [] => s
  | .plain (_ :: _) => .inField
  | .quoted _ => .inDoubleEscapedQuote

/-- States in which the next byte starts a field (after skipping epsilon transitions). -/
def FieldStart (s : NfaState) : Prop :=
  s = .startField ∨ s = .endFieldDelim ∨ s = .startRecord ∨ s = .endRecord ∨ s = .crlf

theorem dfaTable_fieldStart_of_not_term {s : NfaState} (hs : FieldStart s) {b : UInt8}
    (h13 : b ≠ 13) (h10 : b ≠ 10) : dfaTable s b = fieldStart b := by
  rcases hs with h | h | h | h | h <;> subst h <;> simp [dfaTable, recordStart, h13, h10]

theorem readLoop_escaped_run {cap : Nat} (v rest : List UInt8) (nout : Nat)
    (hcap : nout + v.length ≤ cap) :
    readLoop cap .inQuotedField (escapeQuotes v ++ rest) nout =
      shift (escapeQuotes v).length v
        (readLoop cap .inQuotedField rest (nout + v.length)) := by
  induction v generalizing nout with
  | nil => simp [escapeQuotes]
  | cons b v ih =>
    simp only [List.length_cons] at hcap
    by_cases hb : b = 34
    · subst hb
      have h1 : dfaTable .inQuotedField 34 = (.inDoubleEscapedQuote, false) := by
        simp [dfaTable]
      have h2 : dfaTable .inDoubleEscapedQuote 34 = (.inQuotedField, true) := by
        simp [dfaTable]
      simp only [escapeQuotes, if_true, List.cons_append]
      rw [readLoop_step_nonfinal _ (by omega) h1 (by decide)]
      simp only [Bool.false_eq_true, if_false]
      rw [readLoop_step_nonfinal _ (by omega) h2 (by decide)]
      simp only [if_true]
      rw [ih (nout + 1) (by omega), shift_shift, shift_shift]
      simp [Nat.add_assoc, Nat.add_comm 1]
    · have h1 : dfaTable .inQuotedField b = (.inQuotedField, true) := by
        simp [dfaTable, hb]
      simp only [escapeQuotes, hb, if_false, List.cons_append]
      rw [readLoop_step_nonfinal _ (by omega) h1 (by decide)]
      simp only [if_true]
      rw [ih (nout + 1) (by omega), shift_shift]
      simp [Nat.add_assoc, Nat.add_comm 1]

/-- Reading the bytes of a well-formed cell from a field-start state: the value is copied,
exactly the rendered bytes are consumed, and the loop goes on in `c.after s`. -/
theorem readLoop_cell {cap : Nat} {s : NfaState} (hs : FieldStart s) (c : Cell)
    (hwf : c.wf = true) (rest : List UInt8) (nout : Nat)
    (hcap : nout + c.value.length < cap) :
    readLoop cap s (c.render ++ rest) nout =
      shift c.render.length c.value
        (readLoop cap (c.after s) rest (nout + c.value.length)) := by
  cases c with
  | plain v =>
    cases v with
    | nil => simp [Cell.render, Cell.value, Cell.after]
    | cons b v =>
      simp only [Cell.wf, List.all_cons, Bool.and_eq_true] at hwf
      obtain ⟨hb, hv⟩ := hwf
      obtain ⟨b44, b34, b13, b10⟩ := not_requiresQuotes hb
      simp only [Cell.value, List.length_cons] at hcap
      have h1 : dfaTable s b = (.inField, true) := by
        rw [dfaTable_fieldStart_of_not_term hs b13 b10]; simp [fieldStart, b34, b44, b13, b10]
      have hrun : ∀ x ∈ v, dfaTable .inField x = (.inField, true) := by
        intro x hx
        have := not_requiresQuotes (List.all_eq_true.mp hv x hx)
        simp [dfaTable, inFieldStep, this.1, this.2.2.1, this.2.2.2]
      simp only [Cell.render, Cell.value, Cell.after, List.cons_append, List.length_cons]
      rw [readLoop_step_nonfinal _ (by omega) h1 (by decide)]
      simp only [if_true]
      rw [readLoop_copy_run (by decide) v rest (nout + 1) hrun (by omega), shift_shift]
      simp [Nat.add_assoc, Nat.add_comm 1]
  | quoted v =>
    simp only [Cell.value] at hcap
    have h1 : dfaTable s 34 = (.inQuotedField, false) := by
      rw [dfaTable_fieldStart_of_not_term hs (by decide) (by decide)]; simp [fieldStart]
    have h2 : dfaTable .inQuotedField 34 = (.inDoubleEscapedQuote, false) := by
      simp [dfaTable]
    simp only [Cell.render, Cell.value, Cell.after, List.cons_append, List.append_assoc,
      List.length_cons, List.length_append, List.length_nil]
    rw [readLoop_step_nonfinal _ (by omega) h1 (by decide)]
    simp only [Bool.false_eq_true, if_false]
    rw [readLoop_escaped_run v _ nout (by omega)]
    rw [readLoop_step_nonfinal _ (by omega) h2 (by decide)]
    simp [shift, Nat.add_assoc, Nat.add_comm 1]

/-- States from which `,` ends the field and `\n` / `\r` end the record. -/
def CellEnd (s : NfaState) : Prop :=
  s = .startField ∨ s = .endFieldDelim ∨ s = .inField ∨ s = .inDoubleEscapedQuote

theorem Cell.after_cellEnd {s : NfaState} (hs : s = .startField ∨ s = .endFieldDelim)
    (c : Cell) : CellEnd (c.after s) := by
  unfold CellEnd
  cases c with
  | plain v => cases v <;> simp [Cell.after]; rcases hs with h | h <;> simp [h]
  | quoted v => simp [Cell.after]

/-- After a cell, or in any field-start state, `,` ends the field. -/
theorem dfaTable_comma_after {s : NfaState} (hs : FieldStart s) (c : Cell) :
    dfaTable (c.after s) 44 = (.endFieldDelim, false) := by
  cases c with
  | plain v =>
    cases v with
    | nil =>
      simp only [Cell.after]
      rw [dfaTable_fieldStart_of_not_term hs (by decide) (by decide)]; simp [fieldStart]
    | cons b v => simp [Cell.after, dfaTable, inFieldStep]
  | quoted v => simp [Cell.after, dfaTable, inFieldStep]

theorem dfaTable_term_cellEnd {s : NfaState} (hs : CellEnd s) {t : UInt8}
    (ht : t = 10 ∨ t = 13) :
    dfaTable s t = (if t = 10 then .endRecord else .crlf, false) := by
  rcases hs with h | h | h | h <;> subst h <;> rcases ht with ht | ht <;> subst ht <;>
    simp [dfaTable, fieldStart, inFieldStep]

/-- `read_cell`, loop level, cell followed by a delimiter. -/
theorem readLoop_cell_delim {cap : Nat} {s : NfaState} (hs : FieldStart s) (c : Cell)
    (hwf : c.wf = true) (rest : List UInt8) (hcap : c.value.length < cap) :
    readLoop cap s (c.render ++ 44 :: rest) 0 =
      (.endFieldDelim, c.render.length + 1, c.value) := by
  rw [readLoop_cell hs c hwf _ 0 (by omega),
    readLoop_step_final _ (by omega) (dfaTable_comma_after hs c) (by decide)]
  simp [shift, Nat.add_comm]

/-- `read_cell`, loop level, cell followed by a record terminator (not at the start of a
record, where an empty plain cell would be a blank line). -/
theorem readLoop_cell_term {cap : Nat} {s : NfaState}
    (hs : s = .startField ∨ s = .endFieldDelim) (c : Cell)
    (hwf : c.wf = true) {t : UInt8} (ht : t = 10 ∨ t = 13) (rest : List UInt8)
    (hcap : c.value.length < cap) :
    readLoop cap s (c.render ++ t :: rest) 0 =
      (if t = 10 then .endRecord else .crlf, c.render.length + 1, c.value) := by
  have hfs : FieldStart s := by rcases hs with h | h <;> simp [FieldStart, h]
  rw [readLoop_cell hfs c hwf _ 0 (by omega),
    readLoop_step_final (nout := 0 + c.value.length) _ (by omega)
      (dfaTable_term_cellEnd (Cell.after_cellEnd hs c) ht)
      (by rcases ht with h | h <;> subst h <;> decide)]
  simp [shift, Nat.add_comm]

/-- `read_cell`, loop level, cell at the end of the data. -/
theorem readLoop_cell_eof {cap : Nat} {s : NfaState} (hs : FieldStart s) (c : Cell)
    (hwf : c.wf = true) (hcap : c.value.length < cap) :
    readLoop cap s c.render 0 = (c.after s, c.render.length, c.value) := by
  have := readLoop_cell (cap := cap) hs c hwf [] 0 (by omega)
  simp only [List.append_nil] at this
  rw [this, readLoop_nil]
  simp [shift]

/-! ## `readField` -/

/-- No BOM is stripped by this call: not the first call, or the input does not start with
EF BB BF. -/
def NoBom (r : Reader) (input : List UInt8) : Prop :=
  r.hasRead = true ∨ ¬ (bom <+: input)

theorem stripBom_of_noBom {r : Reader} {input : List UInt8} (h : NoBom r input) :
    stripBom r input = (input, 0) := by
  unfold stripBom
  rcases h with h | h
  · simp [h]
  · have : ¬ (input.take 3 = bom) := by
      intro heq
      apply h
      rw [← heq]
      exact List.take_prefix 3 input
    simp [this]

theorem noBom_of_hasRead {r : Reader} (input : List UInt8) (h : r.hasRead = true) :
    NoBom r input := Or.inl h

theorem idx_cases (s : NfaState) (h : s.idx < 50) :
    s = .startRecord ∨ s = .startField ∨ s = .inField ∨ s = .inQuotedField ∨
    s = .inEscapedQuote ∨ s = .inDoubleEscapedQuote ∨ s = .inComment ∨ s = .endFieldDelim ∨
    s = .endRecord ∨ s = .crlf := by
  cases s <;> simp_all [NfaState.idx, numClasses]

/-- `read_field` on non-empty input, in terms of `readLoop`. -/
theorem readField_cons {r : Reader} {input : List UInt8} (hnb : NoBom r input)
    (hne : input ≠ []) {cap : Nat} (hcap : 0 < cap) :
    readField r input cap =
      (newReadFieldResult (readLoop cap r.state input 0).1 false
          (decide ((readLoop cap r.state input 0).2.1 ≥ input.length))
          (decide ((readLoop cap r.state input 0).2.2.length ≥ cap)),
        (readLoop cap r.state input 0).2.1, (readLoop cap r.state input 0).2.2,
        { state := (readLoop cap r.state input 0).1, hasRead := true }) := by
  have h0 : cap ≠ 0 := by omega
  have h1 : input.isEmpty = false := by cases input <;> simp_all
  simp [readField, stripBom_of_noBom hnb, readFieldDfa, h0, h1]

/-- `read_field` on empty input: the final transition. -/
theorem readField_nil (r : Reader) (cap : Nat) :
    readField r [] cap =
      (newReadFieldResult (transitionFinalDfa r.state) true false false, 0, [],
        { state := transitionFinalDfa r.state, hasRead := true }) := by
  simp [readField, stripBom, readFieldDfa]

/-- **`read_cell`** (delimiter): from a field-start state, on `render c ++ "," ++ rest` the
reader returns `Field{record_end: false}`, the unquoted value, and consumes exactly
`|render c| + 1` bytes. -/
theorem readField_cell_delim {r : Reader} (hs : FieldStart r.state) (c : Cell)
    (hwf : c.wf = true) (rest : List UInt8) {cap : Nat} (hcap : c.value.length < cap)
    (hnb : NoBom r (c.render ++ 44 :: rest)) :
    readField r (c.render ++ 44 :: rest) cap =
      (.field false, c.render.length + 1, c.value,
        { state := .endFieldDelim, hasRead := true }) := by
  rw [readField_cons hnb (by simp) (by omega), readLoop_cell_delim hs c hwf rest hcap]
  simp [newReadFieldResult, NfaState.idx, finalRecord, finalField, numClasses]

/-- **`read_cell`** (terminator): inside a record, on `render c ++ t ++ rest` with
`t ∈ {\n, \r}` the reader returns `Field{record_end: true}`, the unquoted value, consumes
`|render c| + 1` bytes and is in `EndRecord` (`\n`) or `CRLF` (`\r`). -/
theorem readField_cell_term {r : Reader} (hs : r.state = .startField ∨ r.state = .endFieldDelim)
    (c : Cell) (hwf : c.wf = true) {t : UInt8} (ht : t = 10 ∨ t = 13) (rest : List UInt8)
    {cap : Nat} (hcap : c.value.length < cap) (hnb : NoBom r (c.render ++ t :: rest)) :
    readField r (c.render ++ t :: rest) cap =
      (.field true, c.render.length + 1, c.value,
        { state := if t = 10 then .endRecord else .crlf, hasRead := true }) := by
  rw [readField_cons hnb (by simp) (by omega), readLoop_cell_term hs c hwf ht rest hcap]
  rcases ht with h | h <;> subst h <;>
    simp [newReadFieldResult, NfaState.idx, finalRecord, numClasses]

/-- **`read_cell`** (end of data): a non-empty rendered cell that ends the data gives
`InputEmpty` with the unquoted value; the following call with empty input then yields
`Field{record_end: true}` with no output (`readField_flush`). -/
theorem readField_cell_eof {r : Reader} (hs : FieldStart r.state) (c : Cell)
    (hwf : c.wf = true) (hne : c.render ≠ []) {cap : Nat} (hcap : c.value.length < cap)
    (hnb : NoBom r c.render) :
    readField r c.render cap =
      (.inputEmpty, c.render.length, c.value,
        { state := c.after r.state, hasRead := true }) := by
  rw [readField_cons hnb hne (by omega), readLoop_cell_eof hs c hwf hcap]
  have hafter : c.after r.state = .inField ∨ c.after r.state = .inDoubleEscapedQuote := by
    cases c with
    | plain v => cases v <;> simp_all [Cell.after, Cell.render]
    | quoted v => simp [Cell.after]
  rcases hafter with h | h <;>
    simp [h, newReadFieldResult, NfaState.idx, finalRecord, finalField, numClasses]

/-- Empty input while a record is open: the record is closed. -/
theorem readField_flush {r : Reader}
    (hs : r.state = .startField ∨ r.state = .endFieldDelim ∨ r.state = .inField ∨
      r.state = .inQuotedField ∨ r.state = .inDoubleEscapedQuote) (cap : Nat) :
    readField r [] cap = (.field true, 0, [], { state := .endRecord, hasRead := true }) := by
  rw [readField_nil]
  rcases hs with h | h | h | h | h <;>
    simp [h, transitionFinalDfa, newReadFieldResult, NfaState.idx, finalRecord,
      numClasses]

/-- Empty input between records: `End`. -/
theorem readField_end {r : Reader}
    (hs : r.state = .startRecord ∨ r.state = .endRecord ∨ r.state = .crlf) (cap : Nat) :
    readField r [] cap = (.end_, 0, [], { state := .startRecord, hasRead := true }) := by
  rw [readField_nil]
  rcases hs with h | h | h <;>
    simp [h, transitionFinalDfa, newReadFieldResult, NfaState.idx, finalRecord, finalField,
      numClasses]

/-- Only record terminators left between records: `InputEmpty`, all consumed. -/
theorem readField_terms_only {r : Reader}
    (hs : r.state = .startRecord ∨ r.state = .endRecord ∨ r.state = .crlf)
    (seps : List UInt8) (hseps : ∀ b ∈ seps, b = 10 ∨ b = 13) (hne : seps ≠ [])
    {cap : Nat} (hcap : 0 < cap) (hnb : NoBom r seps) :
    readField r seps cap =
      (.inputEmpty, seps.length, [], { state := .startRecord, hasRead := true }) := by
  rw [readField_cons hnb hne hcap]
  have := readLoop_skip_terms hs seps [] 0 hseps hne hcap
  simp only [List.append_nil, readLoop_nil] at this
  rw [this]
  simp [shift, newReadFieldResult, NfaState.idx, finalRecord, finalField, numClasses]

/-- First cell of a record, after blank lines: the terminators are consumed together with
the cell. -/
theorem readField_terms_cell_delim {r : Reader}
    (hs : r.state = .startRecord ∨ r.state = .endRecord ∨ r.state = .crlf)
    (seps : List UInt8) (hseps : ∀ b ∈ seps, b = 10 ∨ b = 13) (c : Cell) (hwf : c.wf = true)
    (rest : List UInt8) {cap : Nat} (hcap : c.value.length < cap)
    (hnb : NoBom r (seps ++ c.render ++ 44 :: rest)) :
    readField r (seps ++ c.render ++ 44 :: rest) cap =
      (.field false, seps.length + c.render.length + 1, c.value,
        { state := .endFieldDelim, hasRead := true }) := by
  by_cases hne : seps = []
  · subst hne
    have hfs : FieldStart r.state := by rcases hs with h | h | h <;> simp [FieldStart, h]
    simpa using readField_cell_delim hfs c hwf rest hcap (by simpa using hnb)
  · rw [readField_cons hnb (by simp [hne]) (by omega), List.append_assoc,
      readLoop_skip_terms hs seps _ 0 hseps hne (by omega),
      readLoop_cell_delim (Or.inr (Or.inr (Or.inl rfl))) c hwf rest hcap]
    simp [shift, newReadFieldResult, NfaState.idx, finalRecord, finalField, numClasses]
    omega

/-! ## Bounds used for termination of the callers -/

theorem readFieldDfa_nin_le (s : NfaState) (input : List UInt8) (cap : Nat) :
    (readFieldDfa s input cap).2.1 ≤ input.length := by
  simp only [readFieldDfa]
  split
  · simp
  · split
    · simp
    · exact readLoop_nin_le cap s input 0

theorem readField_nin_eq (r : Reader) (input : List UInt8) (cap : Nat) :
    (readField r input cap).2.1 =
      (readFieldDfa r.state (stripBom r input).1 cap).2.1 + (stripBom r input).2 := rfl

theorem stripBom_length (r : Reader) (input : List UInt8) :
    (stripBom r input).1.length + (stripBom r input).2 = input.length := by
  unfold stripBom
  split
  · rename_i h
    simp only [Bool.and_eq_true, decide_eq_true_eq] at h
    simp; omega
  · simp

theorem readField_nin_le (r : Reader) (input : List UInt8) (cap : Nat) :
    (readField r input cap).2.1 ≤ input.length := by
  rw [readField_nin_eq]
  have h1 := readFieldDfa_nin_le r.state (stripBom r input).1 cap
  have h2 := stripBom_length r input
  omega

end Vibrato.Csv
