/-
The UTF-8 automaton of `Model/LexCsv.lean` (`validUtf8`: the well-formedness table that
`core::str::from_utf8` implements) accepts only byte strings that are the UTF-8 encoding of a list
of Unicode scalar values — hence only byte strings Lean's `String.fromUTF8?` accepts
(`validUtf8_decodes`).  Used by `Props/C18new.lean::labels_total`.
Core Lean only.
-/
import Vibrato.Model.LexCsv
import Vibrato.Model.Text

namespace Vibrato.Utf8

open Vibrato.LexCsv

/-- The UTF-8 bytes of a character list. -/
def encs (s : List Char) : List UInt8 := s.flatMap String.utf8EncodeChar

theorem ofNatAux_val (v : Nat) (h : v.isValidChar) : (Char.ofNatAux v h).val.toNat = v := by
  simp [Char.ofNatAux, UInt32.toNat_ofNatLT]

theorem enc1 (b0 : UInt8) (h0 : b0.toNat < 128) : ∃ c, String.utf8EncodeChar c = [b0] := by
  have hvalid : b0.toNat.isValidChar := by left; omega
  refine ⟨Char.ofNatAux b0.toNat hvalid, ?_⟩
  unfold String.utf8EncodeChar
  simp only [ofNatAux_val]
  rw [if_pos (by omega)]
  simp

theorem enc2 (b0 b1 : UInt8) (h0 : 0xC2 ≤ b0.toNat ∧ b0.toNat ≤ 0xDF)
    (h1 : 0x80 ≤ b1.toNat ∧ b1.toNat ≤ 0xBF) : ∃ c, String.utf8EncodeChar c = [b0, b1] := by
  let v := (b0.toNat - 0xC0) * 64 + (b1.toNat - 0x80)
  have hv : v = (b0.toNat - 0xC0) * 64 + (b1.toNat - 0x80) := rfl
  have hvalid : v.isValidChar := by left; omega
  refine ⟨Char.ofNatAux v hvalid, ?_⟩
  unfold String.utf8EncodeChar
  simp only [ofNatAux_val]
  rw [if_neg (by omega), if_pos (by omega)]
  have e0 : v / 64 % 32 + 192 = b0.toNat := by omega
  have e1 : v % 64 + 128 = b1.toNat := by omega
  rw [e0, e1]
  simp

theorem enc3 (b0 b1 b2 : UInt8) (h0 : 0xE0 ≤ b0.toNat ∧ b0.toNat ≤ 0xEF)
    (h1 : 0x80 ≤ b1.toNat ∧ b1.toNat ≤ 0xBF) (h2 : 0x80 ≤ b2.toNat ∧ b2.toNat ≤ 0xBF)
    (hE0 : b0.toNat = 0xE0 → 0xA0 ≤ b1.toNat) (hED : b0.toNat = 0xED → b1.toNat ≤ 0x9F) :
    ∃ c, String.utf8EncodeChar c = [b0, b1, b2] := by
  let v := (b0.toNat - 0xE0) * 4096 + (b1.toNat - 0x80) * 64 + (b2.toNat - 0x80)
  have hv : v = (b0.toNat - 0xE0) * 4096 + (b1.toNat - 0x80) * 64 + (b2.toNat - 0x80) := rfl
  have hvalid : v.isValidChar := by
    by_cases hd : b0.toNat ≤ 0xED
    · left
      by_cases hd' : b0.toNat = 0xED
      · have := hED hd'; omega
      · omega
    · right; omega
  have hlo : 0x800 ≤ v := by
    by_cases he : b0.toNat = 0xE0
    · have := hE0 he; omega
    · omega
  refine ⟨Char.ofNatAux v hvalid, ?_⟩
  unfold String.utf8EncodeChar
  simp only [ofNatAux_val]
  rw [if_neg (by omega), if_neg (by omega), if_pos (by omega)]
  have e0 : v / 4096 % 16 + 224 = b0.toNat := by omega
  have e1 : v / 64 % 64 + 128 = b1.toNat := by omega
  have e2 : v % 64 + 128 = b2.toNat := by omega
  rw [e0, e1, e2]
  simp

theorem enc4 (b0 b1 b2 b3 : UInt8) (h0 : 0xF0 ≤ b0.toNat ∧ b0.toNat ≤ 0xF4)
    (h1 : 0x80 ≤ b1.toNat ∧ b1.toNat ≤ 0xBF) (h2 : 0x80 ≤ b2.toNat ∧ b2.toNat ≤ 0xBF)
    (h3 : 0x80 ≤ b3.toNat ∧ b3.toNat ≤ 0xBF)
    (hF0 : b0.toNat = 0xF0 → 0x90 ≤ b1.toNat) (hF4 : b0.toNat = 0xF4 → b1.toNat ≤ 0x8F) :
    ∃ c, String.utf8EncodeChar c = [b0, b1, b2, b3] := by
  let v := (b0.toNat - 0xF0) * 262144 + (b1.toNat - 0x80) * 4096 + (b2.toNat - 0x80) * 64 +
    (b3.toNat - 0x80)
  have hv : v = (b0.toNat - 0xF0) * 262144 + (b1.toNat - 0x80) * 4096 + (b2.toNat - 0x80) * 64 +
    (b3.toNat - 0x80) := rfl
  have hhi : v < 0x110000 := by
    by_cases h4 : b0.toNat = 0xF4
    · have := hF4 h4; omega
    · omega
  have hlo : 0x10000 ≤ v := by
    by_cases hf : b0.toNat = 0xF0
    · have := hF0 hf; omega
    · omega
  have hvalid : v.isValidChar := by right; omega
  refine ⟨Char.ofNatAux v hvalid, ?_⟩
  unfold String.utf8EncodeChar
  simp only [ofNatAux_val]
  rw [if_neg (by omega), if_neg (by omega), if_neg (by omega)]
  have e0 : v / 262144 % 8 + 240 = b0.toNat := by omega
  have e1 : v / 4096 % 64 + 128 = b1.toNat := by omega
  have e2 : v / 64 % 64 + 128 = b2.toNat := by omega
  have e3 : v % 64 + 128 = b3.toNat := by omega
  rw [e0, e1, e2, e3]
  simp

/-! ## Runs of the automaton -/

/-- A state whose only transitions are `lo ..= hi ↦ s'`. -/
theorem run_range {s s' : U8State} {lo hi : UInt8}
    (hstep : ∀ b, utf8Step s b = if lo ≤ b ∧ b ≤ hi then some s' else none)
    {rest : List UInt8} (h : utf8Run s rest = some .start) (hs : s ≠ .start) :
    ∃ b rest', rest = b :: rest' ∧ lo.toNat ≤ b.toNat ∧ b.toNat ≤ hi.toNat ∧
      utf8Run s' rest' = some .start := by
  cases rest with
  | nil =>
    simp only [utf8Run, Option.some.injEq] at h
    exact absurd h hs
  | cons b rest' =>
    simp only [utf8Run, hstep] at h
    by_cases hc : lo ≤ b ∧ b ≤ hi
    · rw [if_pos hc] at h
      exact ⟨b, rest', rfl, UInt8.le_iff_toNat_le.mp hc.1, UInt8.le_iff_toNat_le.mp hc.2, h⟩
    · rw [if_neg hc] at h
      cases h

theorem run_c1 {rest : List UInt8} (h : utf8Run .c1 rest = some .start) :
    ∃ b rest', rest = b :: rest' ∧ 0x80 ≤ b.toNat ∧ b.toNat ≤ 0xBF ∧
      utf8Run .start rest' = some .start :=
  run_range (s := .c1) (lo := 0x80) (hi := 0xBF) (fun _ => rfl) h (by decide)

theorem run_c2 {rest : List UInt8} (h : utf8Run .c2 rest = some .start) :
    ∃ b rest', rest = b :: rest' ∧ 0x80 ≤ b.toNat ∧ b.toNat ≤ 0xBF ∧
      utf8Run .c1 rest' = some .start :=
  run_range (s := .c2) (lo := 0x80) (hi := 0xBF) (fun _ => rfl) h (by decide)

theorem run_c3 {rest : List UInt8} (h : utf8Run .c3 rest = some .start) :
    ∃ b rest', rest = b :: rest' ∧ 0x80 ≤ b.toNat ∧ b.toNat ≤ 0xBF ∧
      utf8Run .c2 rest' = some .start :=
  run_range (s := .c3) (lo := 0x80) (hi := 0xBF) (fun _ => rfl) h (by decide)

theorem run_e0 {rest : List UInt8} (h : utf8Run .e0 rest = some .start) :
    ∃ b rest', rest = b :: rest' ∧ 0xA0 ≤ b.toNat ∧ b.toNat ≤ 0xBF ∧
      utf8Run .c1 rest' = some .start :=
  run_range (s := .e0) (lo := 0xA0) (hi := 0xBF) (fun _ => rfl) h (by decide)

theorem run_ed {rest : List UInt8} (h : utf8Run .ed rest = some .start) :
    ∃ b rest', rest = b :: rest' ∧ 0x80 ≤ b.toNat ∧ b.toNat ≤ 0x9F ∧
      utf8Run .c1 rest' = some .start :=
  run_range (s := .ed) (lo := 0x80) (hi := 0x9F) (fun _ => rfl) h (by decide)

theorem run_f0 {rest : List UInt8} (h : utf8Run .f0 rest = some .start) :
    ∃ b rest', rest = b :: rest' ∧ 0x90 ≤ b.toNat ∧ b.toNat ≤ 0xBF ∧
      utf8Run .c2 rest' = some .start :=
  run_range (s := .f0) (lo := 0x90) (hi := 0xBF) (fun _ => rfl) h (by decide)

theorem run_f4 {rest : List UInt8} (h : utf8Run .f4 rest = some .start) :
    ∃ b rest', rest = b :: rest' ∧ 0x80 ≤ b.toNat ∧ b.toNat ≤ 0x8F ∧
      utf8Run .c2 rest' = some .start :=
  run_range (s := .f4) (lo := 0x80) (hi := 0x8F) (fun _ => rfl) h (by decide)

theorem encs_cons (c : Char) (l : List Char) : encs (c :: l) = String.utf8EncodeChar c ++ encs l := by
  simp [encs]

/-- Every accepted byte string is the encoding of a character list. -/
theorem run_encs (n : Nat) : ∀ (bs : List UInt8), bs.length ≤ n →
    utf8Run .start bs = some .start → ∃ l : List Char, bs = encs l := by
  induction n with
  | zero =>
    intro bs hlen _
    have : bs = [] := List.eq_nil_of_length_eq_zero (by omega)
    subst this
    exact ⟨[], rfl⟩
  | succ n ih =>
    intro bs hlen h
    cases bs with
    | nil => exact ⟨[], rfl⟩
    | cons b0 rest =>
      simp only [List.length_cons] at hlen
      simp only [utf8Run] at h
      cases hst : utf8Step .start b0 with
      | none => rw [hst] at h; cases h
      | some s1 =>
        rw [hst] at h
        simp only at h
        simp only [utf8Step] at hst
        split at hst
        · -- ASCII
          rename_i h0
          cases hst
          obtain ⟨l, hl⟩ := ih rest (by omega) h
          obtain ⟨c, hc⟩ := enc1 b0 (UInt8.lt_iff_toNat_lt.mp h0)
          exact ⟨c :: l, by rw [encs_cons, hc, hl]; rfl⟩
        · split at hst
          · -- C2..DF
            rename_i _ h0
            cases hst
            obtain ⟨b1, r1, rfl, l1, u1, h1⟩ := run_c1 h
            obtain ⟨l, hl⟩ := ih r1 (by simp only [List.length_cons] at hlen; omega) h1
            obtain ⟨c, hc⟩ := enc2 b0 b1
              ⟨UInt8.le_iff_toNat_le.mp h0.1, UInt8.le_iff_toNat_le.mp h0.2⟩ ⟨l1, u1⟩
            exact ⟨c :: l, by rw [encs_cons, hc, hl]; rfl⟩
          · split at hst
            · -- E0
              rename_i _ _ h0
              cases hst
              obtain ⟨b1, r1, rfl, l1, u1, h1⟩ := run_e0 h
              obtain ⟨b2, r2, rfl, l2, u2, h2⟩ := run_c1 h1
              obtain ⟨l, hl⟩ := ih r2 (by simp only [List.length_cons] at hlen; omega) h2
              have hb0 : b0.toNat = 0xE0 := by rw [h0]; rfl
              obtain ⟨c, hc⟩ := enc3 b0 b1 b2 (by omega) (by omega) ⟨l2, u2⟩
                (fun _ => l1) (fun hx => by omega)
              exact ⟨c :: l, by rw [encs_cons, hc, hl]; rfl⟩
            · split at hst
              · -- ED
                rename_i _ _ _ h0
                cases hst
                obtain ⟨b1, r1, rfl, l1, u1, h1⟩ := run_ed h
                obtain ⟨b2, r2, rfl, l2, u2, h2⟩ := run_c1 h1
                obtain ⟨l, hl⟩ := ih r2 (by simp only [List.length_cons] at hlen; omega) h2
                have hb0 : b0.toNat = 0xED := by rw [h0]; rfl
                obtain ⟨c, hc⟩ := enc3 b0 b1 b2 (by omega) (by omega) ⟨l2, u2⟩
                  (fun hx => by omega) (fun _ => u1)
                exact ⟨c :: l, by rw [encs_cons, hc, hl]; rfl⟩
              · split at hst
                · -- E1..EF without ED
                  rename_i _ _ hnE0 hnED h0
                  cases hst
                  obtain ⟨b1, r1, rfl, l1, u1, h1⟩ := run_c2 h
                  obtain ⟨b2, r2, rfl, l2, u2, h2⟩ := run_c1 h1
                  obtain ⟨l, hl⟩ := ih r2 (by simp only [List.length_cons] at hlen; omega) h2
                  have g1 := UInt8.le_iff_toNat_le.mp h0.1
                  have g2 := UInt8.le_iff_toNat_le.mp h0.2
                  have hne : b0.toNat ≠ 0xED := fun hx => hnED (UInt8.toNat_inj.mp (by rw [hx]; rfl))
                  obtain ⟨c, hc⟩ := enc3 b0 b1 b2 ⟨by simp at g1; omega, by simpa using g2⟩
                    ⟨l1, u1⟩ ⟨l2, u2⟩ (fun hx => by simp at g1; omega) (fun hx => absurd hx hne)
                  exact ⟨c :: l, by rw [encs_cons, hc, hl]; rfl⟩
                · split at hst
                  · -- F0
                    rename_i _ _ _ _ _ h0
                    cases hst
                    obtain ⟨b1, r1, rfl, l1, u1, h1⟩ := run_f0 h
                    obtain ⟨b2, r2, rfl, l2, u2, h2⟩ := run_c2 h1
                    obtain ⟨b3, r3, rfl, l3, u3, h3⟩ := run_c1 h2
                    obtain ⟨l, hl⟩ := ih r3 (by simp only [List.length_cons] at hlen; omega) h3
                    have hb0 : b0.toNat = 0xF0 := by rw [h0]; rfl
                    obtain ⟨c, hc⟩ := enc4 b0 b1 b2 b3 (by omega) (by omega) ⟨l2, u2⟩ ⟨l3, u3⟩
                      (fun _ => l1) (fun hx => by omega)
                    exact ⟨c :: l, by rw [encs_cons, hc, hl]; rfl⟩
                  · split at hst
                    · -- F1..F3
                      rename_i _ _ _ _ _ _ h0
                      cases hst
                      obtain ⟨b1, r1, rfl, l1, u1, h1⟩ := run_c3 h
                      obtain ⟨b2, r2, rfl, l2, u2, h2⟩ := run_c2 h1
                      obtain ⟨b3, r3, rfl, l3, u3, h3⟩ := run_c1 h2
                      obtain ⟨l, hl⟩ := ih r3 (by simp only [List.length_cons] at hlen; omega) h3
                      have g1 := UInt8.le_iff_toNat_le.mp h0.1
                      have g2 := UInt8.le_iff_toNat_le.mp h0.2
                      obtain ⟨c, hc⟩ := enc4 b0 b1 b2 b3
                        ⟨by simp at g1; omega, by simp at g2; omega⟩ ⟨l1, u1⟩ ⟨l2, u2⟩ ⟨l3, u3⟩
                        (fun hx => by simp at g1; omega) (fun hx => by simp at g2; omega)
                      exact ⟨c :: l, by rw [encs_cons, hc, hl]; rfl⟩
                    · split at hst
                      · -- F4
                        rename_i _ _ _ _ _ _ _ h0
                        cases hst
                        obtain ⟨b1, r1, rfl, l1, u1, h1⟩ := run_f4 h
                        obtain ⟨b2, r2, rfl, l2, u2, h2⟩ := run_c2 h1
                        obtain ⟨b3, r3, rfl, l3, u3, h3⟩ := run_c1 h2
                        obtain ⟨l, hl⟩ := ih r3 (by simp only [List.length_cons] at hlen; omega) h3
                        have hb0 : b0.toNat = 0xF4 := by rw [h0]; rfl
                        obtain ⟨c, hc⟩ := enc4 b0 b1 b2 b3 (by omega) (by omega) ⟨l2, u2⟩ ⟨l3, u3⟩
                          (fun hx => by omega) (fun _ => u1)
                        exact ⟨c :: l, by rw [encs_cons, hc, hl]; rfl⟩
                      · cases hst

theorem mk_toArray_encs (l : List Char) : ByteArray.mk (encs l).toArray = l.utf8Encode := by
  have h : (l.utf8Encode).data.toList = encs l := by
    simp [List.utf8Encode, encs]
  cases hb : l.utf8Encode with
  | mk d =>
    rw [hb] at h
    simp only at h
    congr 1
    rw [← h]

/-- **The automaton accepts only what `String.fromUTF8?` accepts.** -/
theorem validUtf8_decodes (bs : List UInt8) (h : validUtf8 bs = true) :
    (Text.decodeLine bs).isSome = true := by
  simp only [validUtf8, decide_eq_true_eq] at h
  obtain ⟨l, rfl⟩ := run_encs bs.length bs (Nat.le_refl _) h
  unfold Text.decodeLine
  rw [mk_toArray_encs]
  have hv : l.utf8Encode.IsValidUTF8 := ByteArray.isValidUTF8_utf8Encode
  simp [String.fromUTF8?, hv]

end Vibrato.Utf8
