/-
`read_user_lexicon` on models that differ in the enumeration order of their hash containers
(used by C15): interning a feature string gives the same id, the maps stay permutations of
each other and stay maps (distinct keys, distinct ids below the counter).
-/
import Vibrato.Proofs.TrainerEquiv
import Vibrato.Proofs.TrainerRewriteEquiv

namespace Vibrato.Trainer
open Vibrato.Bincode Vibrato.Image Vibrato.ModelImage WeightOps

/-- Same kind of outcome, related values. -/
def Rel {α β : Type} (R : α → β → Prop) : Outcome α → Outcome β → Prop
  | .ok a, .ok b => R a b
  | .err, .err => True
  | .panic, .panic => True
  | _, _ => False

theorem rel_cases {α β : Type} {R : α → β → Prop} {x : Outcome α} {y : Outcome β}
    (h : Rel R x y) :
    (x = .err ∧ y = .err) ∨ (x = .panic ∧ y = .panic) ∨ ∃ a b, x = .ok a ∧ y = .ok b ∧ R a b := by
  cases x <;> cases y <;> simp_all [Rel]

/-- One id map is a map with ids handed out by the counter `next`. -/
structure MapOK (m : IdMap) (next : Nat) : Prop where
  keys : (m.map Prod.fst).Nodup
  ids : (m.map Prod.snd).Nodup
  below : ∀ p ∈ m, p.2 < next

theorem foldl_lookup_some {α κ β : Type} [DecidableEq κ] (key : α → κ) (val : α → β) (k : κ) :
    ∀ (l : List α) (acc : Option β) (v : β),
      l.foldl (fun acc p => if key p = k then some (val p) else acc) acc = some v →
      (∃ p ∈ l, key p = k ∧ val p = v) ∨ acc = some v := by
  intro l
  induction l with
  | nil => intro acc v h; right; exact h
  | cons q l ih =>
    intro acc v h
    rw [List.foldl_cons] at h
    rcases ih _ v h with ⟨p, hp, h1, h2⟩ | hacc
    · left; exact ⟨p, by simp [hp], h1, h2⟩
    · by_cases hk : key q = k
      · rw [if_pos hk] at hacc
        left; exact ⟨q, by simp, hk, by simpa using hacc⟩
      · rw [if_neg hk] at hacc
        right; exact hacc

theorem lookupStr_some_mem {m : IdMap} {s : Str} {id : Nat} (h : lookupStr m s = some id) :
    (s, id) ∈ m := by
  rcases foldl_lookup_some Prod.fst Prod.snd s m none id h with ⟨p, hp, h1, h2⟩ | h
  · cases p; simp only at h1 h2; subst h1 h2; exact hp
  · cases h

theorem lookupStr_none_not_mem {m : IdMap} {s : Str} (nd : (m.map Prod.fst).Nodup)
    (h : lookupStr m s = none) : s ∉ m.map Prod.fst := by
  intro hc
  obtain ⟨p, hp, hk⟩ := List.mem_map.mp hc
  have := foldl_lookup_hit Prod.fst Prod.snd s m none nd p hp hk
  unfold lookupStr at h
  rw [h] at this
  cases this

/-- The result of interning, on two enumerations of the same map. -/
def InternRel (a b : Nat × IdMap × Nat) : Prop :=
  a.1 = b.1 ∧ a.2.2 = b.2.2 ∧ a.2.1.Perm b.2.1 ∧ MapOK a.2.1 a.2.2

theorem intern_equiv {m m' : IdMap} {next : Nat} (hp : m.Perm m') (ok : MapOK m next) (s : Str) :
    Rel InternRel (intern m next s) (intern m' next s) := by
  unfold intern
  split
  · trivial
  · rename_i hn
    rw [← lookupStr_perm hp ok.keys s]
    cases hl : lookupStr m s with
    | some id =>
      have hmem := lookupStr_some_mem hl
      have hlt := ok.below _ hmem
      simp only at hlt
      have hne : ¬ id = next := by omega
      simp only [hne, if_false]
      exact ⟨rfl, rfl, hp, ok⟩
    | none =>
      simp only
      split
      · trivial
      · rename_i hlim
        refine ⟨rfl, rfl, hp.append_right _, ?_⟩
        have hnot := lookupStr_none_not_mem ok.keys hl
        refine ⟨?_, ?_, ?_⟩
        · simp only [List.map_append, List.map_cons, List.map_nil]
          rw [List.nodup_append]
          refine ⟨ok.keys, by simp, ?_⟩
          intro a ha b hb
          simp only [List.mem_singleton] at hb
          subst hb
          intro hab; subst hab; exact hnot ha
        · simp only [List.map_append, List.map_cons, List.map_nil]
          rw [List.nodup_append]
          refine ⟨ok.ids, by simp, ?_⟩
          intro a ha b hb
          simp only [List.mem_singleton] at hb
          subst hb
          obtain ⟨p, hp', rfl⟩ := List.mem_map.mp ha
          have := ok.below p hp'
          omega
        · intro p hp'
          simp only [List.mem_append, List.mem_singleton] at hp'
          rcases hp' with hp' | rfl
          · have := ok.below p hp'
            show p.2 < next + 1
            omega
          · simp

theorem MapOK.mono {m : IdMap} {n n' : Nat} (h : MapOK m n) (hn : n ≤ n') : MapOK m n' :=
  ⟨h.keys, h.ids, fun p hp => Nat.lt_of_lt_of_le (h.below p hp) hn⟩

def ExtractRel (a b : List (Option Nat) × IdMap × Nat) : Prop :=
  a.1 = b.1 ∧ a.2.2 = b.2.2 ∧ a.2.1.Perm b.2.1 ∧ MapOK a.2.1 a.2.2

theorem extractIds_equiv (features : List Str) (cate : Nat) :
    ∀ (ts : List Template) (m m' : IdMap) (next : Nat) (acc : List (Option Nat)),
      m.Perm m' → MapOK m next →
      Rel ExtractRel (extractIds features cate ts m next acc)
        (extractIds features cate ts m' next acc) := by
  intro ts
  induction ts with
  | nil => intro m m' next acc hp ok; exact ⟨rfl, rfl, hp, ok⟩
  | cons t ts ih =>
    intro m m' next acc hp ok
    simp only [extractIds]
    split
    · exact ih _ _ _ _ hp ok
    · cases expandCaptures t.raw features cate t.captures 0 [] with
      | none => trivial
      | some s =>
        simp only
        rcases rel_cases (intern_equiv hp ok s) with ⟨h1, h2⟩ | ⟨h1, h2⟩ | ⟨r, r', h1, h2, hi⟩
        · rw [h1, h2]; trivial
        · rw [h1, h2]; trivial
        · rw [h1, h2]
          obtain ⟨id, m1, n1⟩ := r
          obtain ⟨id', m1', n1'⟩ := r'
          obtain ⟨e1, e2, e3, e4⟩ := hi
          simp only at e1 e2 e3 e4
          subst e1 e2
          exact ih _ _ _ _ e3 e4

/-- Two enumerations of the same feature extractor. -/
structure ExtEquiv (e e' : Extractor) : Prop where
  uni : e.unigramIds.Perm e'.unigramIds
  left : e.leftIds.Perm e'.leftIds
  right : e.rightIds.Perm e'.rightIds
  un : e'.unigramNext = e.unigramNext
  ln : e'.leftNext = e.leftNext
  rn : e'.rightNext = e.rightNext
  ut : e'.unigramT = e.unigramT
  lt : e'.leftT = e.leftT
  rt : e'.rightT = e.rightT

structure ExtOK (e : Extractor) : Prop where
  uni : MapOK e.unigramIds e.unigramNext
  left : MapOK e.leftIds e.leftNext
  right : MapOK e.rightIds e.rightNext

/-- Two enumerations of the same trainer configuration. -/
structure CfgEquiv (c c' : Config) : Prop where
  ext : ExtEquiv c.extractor c'.extractor
  urw : RwTrieEq c.unigramRw c'.unigramRw
  lrw : RwTrieEq c.leftRw c'.leftRw
  rrw : RwTrieEq c.rightRw c'.rightRw
  dict : c'.dict = c.dict
  surfaces : c'.surfaces = c.surfaces

def FsRel (a b : FeatureSet × Extractor) : Prop :=
  a.1 = b.1 ∧ ExtEquiv a.2 b.2 ∧ ExtOK a.2

theorem extractFeatureSet_equiv {c c' : Config} (hc : CfgEquiv c c') (ok : ExtOK c.extractor)
    (feature : Str) (cate : Nat) :
    Rel FsRel (extractFeatureSet c feature cate) (extractFeatureSet c' feature cate) := by
  unfold extractFeatureSet
  cases ofLex (LexCsv.parseCsvRowBytes true feature) with
  | err => trivial
  | panic => trivial
  | ok features =>
    simp only [← rewriteOrSame_congr hc.urw, ← rewriteOrSame_congr hc.lrw,
      ← rewriteOrSame_congr hc.rrw, hc.ext.un, hc.ext.ln, hc.ext.rn, hc.ext.ut, hc.ext.lt,
      hc.ext.rt]
    -- unigram
    cases rewriteOrSame c.unigramRw features with
    | err => trivial
    | panic => trivial
    | ok fu =>
      simp only [Outcome.bind]
      rcases rel_cases (extractIds_equiv fu cate c.extractor.unigramT _ _ _ [] hc.ext.uni ok.uni)
        with ⟨h1, h2⟩ | ⟨h1, h2⟩ | ⟨ru, ru', h1, h2, hu⟩
      · rw [h1, h2]; trivial
      · rw [h1, h2]; trivial
      · rw [h1, h2]
        obtain ⟨uni, um, un⟩ := ru
        obtain ⟨uni', um', un'⟩ := ru'
        obtain ⟨a1, a2, a3, a4⟩ := hu
        simp only at a1 a2 a3 a4
        subst a1 a2
        simp only
        -- left
        cases rewriteOrSame c.leftRw features with
        | err => trivial
        | panic => trivial
        | ok fl =>
          simp only
          rcases rel_cases (extractIds_equiv fl 0 c.extractor.leftT _ _ _ [] hc.ext.left ok.left)
            with ⟨h3, h4⟩ | ⟨h3, h4⟩ | ⟨rl, rl', h3, h4, hl⟩
          · rw [h3, h4]; trivial
          · rw [h3, h4]; trivial
          · rw [h3, h4]
            obtain ⟨left, lm, ln⟩ := rl
            obtain ⟨left', lm', ln'⟩ := rl'
            obtain ⟨b1, b2, b3, b4⟩ := hl
            simp only at b1 b2 b3 b4
            subst b1 b2
            simp only
            -- right
            cases rewriteOrSame c.rightRw features with
            | err => trivial
            | panic => trivial
            | ok fr =>
              simp only
              rcases rel_cases (extractIds_equiv fr 0 c.extractor.rightT _ _ _ [] hc.ext.right
                ok.right) with ⟨h5, h6⟩ | ⟨h5, h6⟩ | ⟨rr, rr', h5, h6, hr⟩
              · rw [h5, h6]; trivial
              · rw [h5, h6]; trivial
              · rw [h5, h6]
                obtain ⟨right, rm, rn⟩ := rr
                obtain ⟨right', rm', rn'⟩ := rr'
                obtain ⟨c1, c2, c3, c4⟩ := hr
                simp only at c1 c2 c3 c4
                subst c1 c2
                exact ⟨rfl,
                  ⟨a3, b3, c3, rfl, rfl, rfl, rfl, rfl, rfl⟩,
                  ⟨a4, b4, c4⟩⟩

end Vibrato.Trainer
