import Vibrato.Proofs.LatticeBasic

namespace Vibrato

/-- cost of connecting `m` to a word with left id `l` -/
def stepCost (conn : Nat → Nat → Int) (l : Nat) (m : Node) : Int :=
  m.minCost + conn m.rightId l

theorem searchMinGo_spec (conn : Nat → Nat → Int) (l : Nat) :
    ∀ (ns : List Node) (i : Nat) (acc : Nat × Int) (pre : List Node),
      pre.length = i →
      (∀ m ∈ ns, stepCost conn l m ≤ MAX_COST) →
      ((acc = (INVALID_IDX, MAX_COST) ∧ pre = []) ∨
        (∃ m, pre[acc.1]? = some m ∧ acc.2 = stepCost conn l m ∧ acc.2 ≤ MAX_COST ∧
          ∀ m' ∈ pre, acc.2 ≤ stepCost conn l m')) →
      let r := searchMinGo conn l ns i acc
      ((r = (INVALID_IDX, MAX_COST) ∧ pre ++ ns = []) ∨
        (∃ m, (pre ++ ns)[r.1]? = some m ∧ r.2 = stepCost conn l m ∧ r.2 ≤ MAX_COST ∧
          ∀ m' ∈ pre ++ ns, r.2 ≤ stepCost conn l m')) := by
  intro ns
  induction ns with
  | nil => intro i acc pre _ _ h; simpa [searchMinGo] using h
  | cons n ns ih =>
    intro i acc pre hlen hmax hacc
    have hn : stepCost conn l n ≤ MAX_COST := hmax n (by simp)
    have hmax' : ∀ m ∈ ns, stepCost conn l m ≤ MAX_COST := fun m hm => hmax m (by simp [hm])
    simp only [searchMinGo]
    have happ : pre ++ n :: ns = (pre ++ [n]) ++ ns := by simp
    rw [happ]
    have hlen' : (pre ++ [n]).length = i + 1 := by simp [hlen]
    split
    · rename_i hle
      apply ih (i + 1) (i, n.minCost + conn n.rightId l) (pre ++ [n]) hlen' hmax'
      right
      refine ⟨n, ?_, rfl, hn, ?_⟩
      · simp [← hlen]
      · intro m' hm'
        simp only [List.mem_append, List.mem_singleton] at hm'
        rcases hm' with hm' | rfl
        · rcases hacc with ⟨_, hpre⟩ | ⟨m, _, _, _, hall⟩
          · simp [hpre] at hm'
          · exact Int.le_trans hle (hall m' hm')
        · exact Int.le_refl _
    · rename_i hgt
      apply ih (i + 1) acc (pre ++ [n]) hlen' hmax'
      rcases hacc with ⟨hacc, _⟩ | ⟨m, hget, heq, hle, hall⟩
      · exfalso; apply hgt; rw [hacc]; exact hn
      · right
        refine ⟨m, ?_, heq, hle, ?_⟩
        · have : acc.1 < pre.length := by
            rcases Nat.lt_or_ge acc.1 pre.length with h | h
            · exact h
            · rw [List.getElem?_eq_none h] at hget; cases hget
          rw [List.getElem?_append_left this]; exact hget
        · intro m' hm'
          simp only [List.mem_append, List.mem_singleton] at hm'
          rcases hm' with hm' | rfl
          · exact hall m' hm'
          · exact Int.le_of_lt (Int.lt_of_not_ge hgt)

/-- `search_min_node` returns an index into the non-empty predecessor list whose
connection cost is minimal, provided no candidate exceeds `i32::MAX`. -/
theorem searchMin_spec (conn : Nat → Nat → Int) (l : Nat) (prev : List Node)
    (hne : prev ≠ []) (hmax : ∀ m ∈ prev, stepCost conn l m ≤ MAX_COST) :
    ∃ m, prev[(searchMin conn prev l).1]? = some m ∧
      (searchMin conn prev l).2 = stepCost conn l m ∧
      ∀ m' ∈ prev, (searchMin conn prev l).2 ≤ stepCost conn l m' := by
  have := searchMinGo_spec conn l prev 0 (INVALID_IDX, MAX_COST) [] rfl hmax (Or.inl ⟨rfl, rfl⟩)
  simp only [List.nil_append] at this
  rcases this with ⟨_, h⟩ | ⟨m, h1, h2, _, h4⟩
  · exact absurd h hne
  · exact ⟨m, h1, h2, h4⟩

/-- On an empty predecessor list the search returns the invalid index (the Rust
code then fails `debug_assert_ne!(min_idx, INVALID_IDX)` / indexes out of range). -/
theorem searchMin_nil (conn : Nat → Nat → Int) (l : Nat) :
    searchMin conn [] l = (INVALID_IDX, MAX_COST) := rfl

end Vibrato
