/-
Framedness and round-trip lemmas for every decoder of the dictionary image
(`Vibrato/Model/Image.lean`), assembled from the combinator lemmas of `Proofs/Framed.lean`.
-/
import Vibrato.Model.Image
import Vibrato.Proofs.Framed

namespace Vibrato.Image
open Vibrato.Bincode

/-! ## A small tactic: structural framedness -/

syntax "framed_step" : tactic
macro_rules
  | `(tactic| framed_step) => `(tactic| first
      | exact framed_ret _ | exact framed_fail | exact framed_crash
      | exact framed_u8 | exact framed_u16 | exact framed_u32 | exact framed_u64
      | exact framed_i16 | exact framed_i32 | exact framed_bool | exact framed_str
      | exact framed_u31 | exact framed_u31x8 | exact framed_tag _
      | apply framed_vec | apply framed_opt | apply framed_map | apply framed_ite
      | refine framed_andThen ?_ (fun _ => ?_))
macro "framed" : tactic => `(tactic| repeat framed_step)

/-! ## Framed -/

theorem framed_trie : Framed decTrie := by
  unfold decTrie
  apply framed_andThen (framed_vec _ framed_u8)
  intro blob
  split
  · exact framed_crash
  · exact framed_ret _

theorem framed_lexType : Framed decLexType := by unfold decLexType; framed
theorem framed_wordParam : Framed decWordParam := by unfold decWordParam; framed

theorem framed_wordMap : Framed decWordMap := by
  unfold decWordMap
  apply framed_andThen framed_trie; intro _
  framed

theorem framed_lexicon : Framed decLexicon := by
  unfold decLexicon
  apply framed_andThen framed_wordMap; intro _
  apply framed_andThen (framed_vec _ framed_wordParam); intro _
  apply framed_andThen (framed_vec _ framed_str); intro _
  apply framed_andThen framed_lexType; intro _
  framed

theorem framed_matrix : Framed decMatrix := by unfold decMatrix; framed
theorem framed_scorer : Framed decScorer := by unfold decScorer; framed

theorem framed_raw : Framed decRaw := by
  unfold decRaw
  apply framed_andThen (framed_vec _ framed_u31x8); intro _
  apply framed_andThen (framed_vec _ framed_u31x8); intro _
  apply framed_andThen framed_u64; intro _
  apply framed_andThen framed_scorer; intro _
  framed

theorem framed_dual : Framed decDual := by
  unfold decDual
  apply framed_andThen framed_matrix; intro _
  apply framed_andThen (framed_vec _ framed_u16); intro _
  apply framed_andThen (framed_vec _ framed_u16); intro _
  apply framed_andThen (framed_vec _ framed_u31x8); intro _
  apply framed_andThen (framed_vec _ framed_u31x8); intro _
  apply framed_andThen framed_scorer; intro _
  framed

theorem framed_connector : Framed decConnector := by
  unfold decConnector
  apply framed_andThen (framed_tag _); intro _
  exact framed_ite (framed_map _ framed_matrix)
    (framed_ite (framed_map _ framed_raw) (framed_map _ framed_dual))

theorem framed_mapper : Framed decMapper := by unfold decMapper; framed
theorem framed_charProp : Framed decCharProp := by unfold decCharProp; framed
theorem framed_unkEntry : Framed decUnkEntry := by unfold decUnkEntry; framed

theorem framed_unkHandler : Framed decUnkHandler := by
  unfold decUnkHandler
  apply framed_andThen (framed_vec _ framed_u64); intro _
  apply framed_andThen (framed_vec _ framed_unkEntry); intro _
  framed

theorem framed_decodeDict : Framed decodeDict := by
  unfold decodeDict
  apply framed_andThen framed_lexicon; intro _
  apply framed_andThen (framed_opt framed_lexicon); intro _
  apply framed_andThen framed_connector; intro _
  apply framed_andThen (framed_opt framed_mapper); intro _
  apply framed_andThen framed_charProp; intro _
  apply framed_andThen framed_unkHandler; intro _
  framed

theorem framed_decodeImage : Framed decodeImage := by
  unfold decodeImage
  apply framed_andThen (framed_readExact _); intro _
  exact framed_ite framed_decodeDict framed_fail

/-- The driver's shortcut for cut points is the model. -/
theorem decodeImageCut_eq (bs : List UInt8) (n : Nat) :
    decodeImageCut bs (decodeImage bs) n = decodeImage (bs.take n) := by
  unfold decodeImageCut cutOk
  split
  · rename_i d rest h
    exact (framed_decodeImage.take h n).symm
  · rfl

/-! ## Round trip: primitives with the Boolean predicates of `WFsize` -/

theorem rt_wfU16 : RT u16 encU16 (fun n => wfU16 n = true) :=
  fun n h => rt_u16 n (by simpa [wfU16] using h)
theorem rt_wfU32 : RT u32 encU32 (fun n => wfU32 n = true) :=
  fun n h => rt_u32 n (by simpa [wfU32] using h)
theorem rt_wfU64 : RT u64 encU64 (fun n => wfU64 n = true) :=
  fun n h => rt_u64 n (by simpa [wfU64] using h)
theorem rt_wfI16 : RT i16 encI16 (fun i => wfI16 i = true) :=
  fun i h => rt_i16 i (by simpa [wfI16] using h)
theorem rt_wfI32 : RT i32 encI32 (fun i => wfI32 i = true) :=
  fun i h => rt_i32 i (by simpa [wfI32] using h)
theorem rt_wfStr : RT str encStr (fun s => wfStr s = true) :=
  fun s h => rt_str s (by simpa [wfStr] using h)

theorem rt_wfU31x8 : RT u31x8 encU31x8 (fun l => wfU31x8 l = true) := by
  intro l h
  apply rt_u31x8
  simp only [wfU31x8, Bool.and_eq_true, decide_eq_true_eq, List.all_eq_true, wfU31] at h
  exact h

theorem wfVec_ok {sz : Nat} {p : α → Bool} {l : List α} (h : wfVec sz p l = true) :
    VecOk sz (fun a => p a = true) l := by
  simp only [wfVec, Bool.and_eq_true, decide_eq_true_eq, List.all_eq_true] at h
  exact h

/-- Round trip of a `Vec` field under its `wfVec` hypothesis, in rewriting form. -/
theorem vec_step {sz : Nat} (hsz : 1 ≤ sz) {d : Dec α} {e : α → List UInt8} {p : α → Bool}
    (h : RT d e (fun a => p a = true)) {l : List α} (hl : wfVec sz p l = true)
    (f : List α → Dec β) (rest : List UInt8) :
    (vec sz d).andThen f (encVec e l ++ rest) = f l rest :=
  rt_andThen (rt_vec hsz h) (wfVec_ok hl) f rest

/-! ## Round trip: the image types -/

theorem rt_trie : RT decTrie encTrie (fun b => wfTrie b = true) := by
  intro b h rest
  simp only [wfTrie, Bool.and_eq_true, decide_eq_true_eq] at h
  obtain ⟨hlen, hc⟩ := h
  have hv : VecOk szU8 (fun _ : UInt8 => True) b := ⟨by simpa [szU8] using hlen, fun _ _ => trivial⟩
  simp only [decTrie, encTrie, rt_andThen (rt_vec (by decide) rt_u8) hv, hc, ret_apply,
    List.take_length]

theorem rt_lexType : RT decLexType encLexType (fun _ => True) := by
  intro t _ rest
  have ht : t.toTag < 3 := by cases t <;> decide
  simp only [decLexType, encLexType, Dec.map, rt_andThen (rt_tag 3 (by decide)) ht, ret_apply]
  cases t <;> rfl

theorem rt_wordParam : RT decWordParam encWordParam (fun p => wfWordParam p = true) := by
  intro p h rest
  cases p
  simp only [wfWordParam, Bool.and_eq_true] at h
  obtain ⟨⟨h1, h2⟩, h3⟩ := h
  simp only [decWordParam, encWordParam, List.append_assoc, rt_andThen rt_wfU16 h1,
    rt_andThen rt_wfU16 h2, rt_andThen rt_wfI16 h3, ret_apply]

theorem rt_wordMap : RT decWordMap encWordMap (fun m => wfWordMap m = true) := by
  intro m h rest
  cases m
  simp only [wfWordMap, Bool.and_eq_true] at h
  obtain ⟨h1, h2⟩ := h
  simp only [decWordMap, encWordMap, List.append_assoc, rt_andThen rt_trie h1,
    vec_step (by decide) rt_wfU32 h2, ret_apply]

theorem rt_lexicon : RT decLexicon encLexicon (fun l => wfLexicon l = true) := by
  intro l h rest
  cases l
  simp only [wfLexicon, Bool.and_eq_true] at h
  obtain ⟨⟨h1, h2⟩, h3⟩ := h
  simp only [decLexicon, encLexicon, List.append_assoc, rt_andThen rt_wordMap h1,
    vec_step (by decide) rt_wordParam h2, vec_step (by decide) rt_wfStr h3,
    rt_andThen rt_lexType trivial, ret_apply]

theorem rt_matrix : RT decMatrix encMatrix (fun m => wfMatrix m = true) := by
  intro m h rest
  cases m
  simp only [wfMatrix, Bool.and_eq_true] at h
  obtain ⟨⟨h1, h2⟩, h3⟩ := h
  simp only [decMatrix, encMatrix, List.append_assoc, vec_step (by decide) rt_wfI16 h1,
    rt_andThen rt_wfU64 h2, rt_andThen rt_wfU64 h3, ret_apply]

theorem rt_scorer : RT decScorer encScorer (fun s => wfScorer s = true) := by
  intro s h rest
  cases s
  simp only [wfScorer, Bool.and_eq_true, decide_eq_true_eq] at h
  obtain ⟨⟨⟨h1, h2⟩, h3⟩, h4⟩ := h
  simp only [decScorer, encScorer, List.append_assoc, vec_step (by decide) rt_wfU32 h1,
    vec_step (by decide) rt_wfU32 h2, vec_step (by decide) rt_wfI32 h3, h4, if_true, ret_apply]

theorem rt_raw : RT decRaw encRaw (fun c => wfRaw c = true) := by
  intro c h rest
  cases c
  simp only [wfRaw, Bool.and_eq_true] at h
  obtain ⟨⟨⟨h1, h2⟩, h3⟩, h4⟩ := h
  simp only [decRaw, encRaw, List.append_assoc, vec_step (by decide) rt_wfU31x8 h1,
    vec_step (by decide) rt_wfU31x8 h2, rt_andThen rt_wfU64 h3, rt_andThen rt_scorer h4,
    ret_apply]

theorem rt_dual : RT decDual encDual (fun c => wfDual c = true) := by
  intro c h rest
  cases c
  simp only [wfDual, Bool.and_eq_true] at h
  obtain ⟨⟨⟨⟨⟨h1, h2⟩, h3⟩, h4⟩, h5⟩, h6⟩ := h
  simp only [decDual, encDual, List.append_assoc, rt_andThen rt_matrix h1,
    vec_step (by decide) rt_wfU16 h2, vec_step (by decide) rt_wfU16 h3,
    vec_step (by decide) rt_wfU31x8 h4, vec_step (by decide) rt_wfU31x8 h5,
    rt_andThen rt_scorer h6, ret_apply]

theorem rt_connector : RT decConnector encConnector (fun c => wfConnector c = true) := by
  intro c h rest
  have htag : ∀ t, t < 3 → ∀ (f : Nat → Dec Connector) r,
      (tag 3).andThen f (encU32 t ++ r) = f t r :=
    fun t ht f r => rt_andThen (rt_tag 3 (by decide)) ht f r
  cases c with
  | matrix m =>
    simp only [wfConnector] at h
    simp only [decConnector, encConnector, List.append_assoc, htag 0 (by decide), if_true,
      Dec.map, rt_andThen rt_matrix h, ret_apply]
  | raw r =>
    simp only [wfConnector] at h
    simp only [decConnector, encConnector, List.append_assoc, htag 1 (by decide), Dec.map,
      rt_andThen rt_raw h, ret_apply, if_true, Nat.one_ne_zero, if_false]
  | dual d =>
    simp only [wfConnector] at h
    have h20 : ¬ (2 : Nat) = 0 := by decide
    have h21 : ¬ (2 : Nat) = 1 := by decide
    simp only [decConnector, encConnector, List.append_assoc, htag 2 (by decide), Dec.map,
      rt_andThen rt_dual h, ret_apply, if_neg h20, if_neg h21]

theorem rt_mapper : RT decMapper encMapper (fun m => wfMapper m = true) := by
  intro m h rest
  cases m
  simp only [wfMapper, Bool.and_eq_true] at h
  obtain ⟨h1, h2⟩ := h
  simp only [decMapper, encMapper, List.append_assoc, vec_step (by decide) rt_wfU16 h1,
    vec_step (by decide) rt_wfU16 h2, ret_apply]

theorem rt_charProp : RT decCharProp encCharProp (fun c => wfCharProp c = true) := by
  intro c h rest
  cases c
  simp only [wfCharProp, Bool.and_eq_true] at h
  obtain ⟨h1, h2⟩ := h
  simp only [decCharProp, encCharProp, List.append_assoc, vec_step (by decide) rt_wfU32 h1,
    vec_step (by decide) rt_wfStr h2, ret_apply]

theorem rt_unkEntry : RT decUnkEntry encUnkEntry (fun e => wfUnkEntry e = true) := by
  intro e h rest
  cases e
  simp only [wfUnkEntry, Bool.and_eq_true] at h
  obtain ⟨⟨⟨⟨h1, h2⟩, h3⟩, h4⟩, h5⟩ := h
  simp only [decUnkEntry, encUnkEntry, List.append_assoc, rt_andThen rt_wfU16 h1,
    rt_andThen rt_wfU16 h2, rt_andThen rt_wfU16 h3, rt_andThen rt_wfI16 h4,
    rt_andThen rt_wfStr h5, ret_apply]

theorem rt_unkHandler : RT decUnkHandler encUnkHandler (fun u => wfUnkHandler u = true) := by
  intro u h rest
  cases u
  simp only [wfUnkHandler, Bool.and_eq_true] at h
  obtain ⟨h1, h2⟩ := h
  simp only [decUnkHandler, encUnkHandler, List.append_assoc, vec_step (by decide) rt_wfU64 h1,
    vec_step (by decide) rt_unkEntry h2, ret_apply]

theorem wfOpt_iff {p : α → Bool} {o : Option α} (h : wfOpt p o = true) :
    ∀ a, o = some a → p a = true := by
  intro a ha; subst ha; exact h

theorem rt_decodeDict : RT decodeDict encodeDict (fun d => wfDict d = true) := by
  intro d h rest
  cases d
  simp only [wfDict, Bool.and_eq_true] at h
  obtain ⟨⟨⟨⟨⟨h1, h2⟩, h3⟩, h4⟩, h5⟩, h6⟩ := h
  simp only [decodeDict, encodeDict, List.append_assoc, rt_andThen rt_lexicon h1,
    rt_andThen (rt_opt rt_lexicon) (wfOpt_iff h2), rt_andThen rt_connector h3,
    rt_andThen (rt_opt rt_mapper) (wfOpt_iff h4), rt_andThen rt_charProp h5,
    rt_andThen rt_unkHandler h6, ret_apply]

theorem readExact_append (m rest : List UInt8) :
    readExact m.length (m ++ rest) = .ok m rest := by
  simp [readExact]

theorem rt_decodeImage : RT decodeImage writeImage (fun d => wfDict d = true) := by
  intro d h rest
  simp only [decodeImage, writeImage, List.append_assoc, andThen_ok (readExact_append _ _),
    if_true]
  exact rt_decodeDict d h rest

end Vibrato.Image
