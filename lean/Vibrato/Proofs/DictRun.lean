/-
Histories of `map_connection_ids_from_iter` / `reset_user_lexicon_from_reader` on `DictM`:
after any successful history the dictionary is the original one, carrying the most recently
loaded user lexicon (given in ORIGINAL ids), relabelled by the composition of the applied
mappings.  Helper lemmas for C06 `history_tokenize`.
-/
import Vibrato.Proofs.DictHistory

namespace Vibrato

/-- One public operation that changes the dictionary. -/
inductive DOp where
  | map (l r : List Nat)
  | reset (csv : Option (List UInt8))
  deriving Repr

def DictM.step (fx : Fixes) (D : DictM) : DOp → Outcome DictM
  | .map l r => D.mapIds fx l r
  | .reset csv => D.resetUser fx csv

def DictM.run (fx : Fixes) : DictM → List DOp → Outcome DictM
  | D, [] => .ok D
  | D, op :: ops => (D.step fx op).bind fun D1 => DictM.run fx D1 ops

/-- Specification state: the composed relabelling and the current user lexicon in original ids. -/
structure HState where
  τL : Nat → Nat
  τR : Nat → Nat
  user : Option LexM

def specStep (fx : Fixes) (st : HState) : DOp → HState
  | .map l r =>
    match parseMap l, parseMap r with
    | some ml, some mr => { st with τL := tblFn ml ∘ st.τL, τR := tblFn mr ∘ st.τR }
    | _, _ => st
  | .reset none => { st with user := none }
  | .reset (some b) =>
    match userOfCsv fx b with
    | .ok u => { st with user := some u }
    | _ => st

def specRun (fx : Fixes) (st : HState) (ops : List DOp) : HState := ops.foldl (specStep fx) st

def relLex (σL σR : Nat → Nat) (u : LexM) : LexM :=
  { u with entries := u.entries.map (relEntry σL σR) }

/-- The history invariant. -/
structure HistRel (D0 : DictM) (st : HState) (D : DictM) : Prop where
  sysE : D.sys.entries = D0.sys.entries.map (relEntry st.τL st.τR)
  sysF : D.sys.features = D0.sys.features
  user : D.user = st.user.map (relLex st.τL st.τR)
  unk : D.unk = D0.unk.map (relUnk st.τL st.τR)
  chars : D.chars = D0.chars
  numLeft : D.numLeft = D0.numLeft
  numRight : D.numRight = D0.numRight
  cost : ∀ r l, r < D0.numRight → l < D0.numLeft → D.cost (st.τR r) (st.τL l) = D0.cost r l
  rangeL : ∀ l, l < D0.numLeft → st.τL l < D0.numLeft
  rangeR : ∀ r, r < D0.numRight → st.τR r < D0.numRight
  zeroL : st.τL 0 = 0
  zeroR : st.τR 0 = 0
  userLt : ∀ u, st.user = some u → u.InRange D0.numLeft D0.numRight
  mapper : (D.mapper = none ∧ st.τL = id ∧ st.τR = id) ∨
    (∃ tl tr, D.mapper = some (tl, tr) ∧ st.τL = tblFn tl ∧ st.τR = tblFn tr ∧
      tl.length = D0.numLeft ∧ tr.length = D0.numRight)

theorem HistRel.init (D0 : DictM) (hids : D0.IdsOK) (hm : D0.mapper = none) :
    HistRel D0 ⟨id, id, D0.user⟩ D0 := by
  refine ⟨(relEntry_id _).symm, rfl, ?_, (relUnk_id _).symm, rfl, rfl, rfl, fun _ _ _ _ => rfl,
    fun _ h => h, fun _ h => h, rfl, rfl, fun u hu => hids.user u hu, Or.inl ⟨hm, rfl, rfl⟩⟩
  cases D0.user with
  | none => rfl
  | some u =>
    simp only [Option.map_some, Option.some.injEq, relLex]
    rw [relEntry_id]

theorem tblFn_map (t : List Nat) (f : Nat → Nat) (hf : f 0 = 0) :
    tblFn (t.map f) = f ∘ tblFn t := by
  funext i
  simp only [tblFn, Function.comp, List.getD_eq_getElem?_getD, List.getElem?_map]
  cases t[i]? <;> simp [hf]

theorem LexM.ext' {a b : LexM} (h1 : a.entries = b.entries) (h2 : a.features = b.features) : a = b := by
  cases a; cases b; simp_all

theorem HistRel.step {fx : Fixes} (hf3 : fx.f3 = true) {D0 D D' : DictM} {st : HState}
    (h : HistRel D0 st D) (op : DOp) (hs : D.step fx op = .ok D') :
    HistRel D0 (specStep fx st op) D' := by
  cases op with
  | map l r =>
    obtain ⟨ml, mr, hml, hmr, post⟩ := mapIds_ok hs
    simp only [specStep, hml, hmr]
    have hlL : ml.length = D0.numLeft := by rw [post.llen, h.numLeft]
    have hlR : mr.length = D0.numRight := by rw [post.rlen, h.numRight]
    refine ⟨?_, by rw [post.sysF, h.sysF], ?_, ?_, by rw [post.chars, h.chars],
      by rw [post.numLeft, h.numLeft], by rw [post.numRight, h.numRight], ?_, ?_, ?_, ?_, ?_,
      h.userLt, ?_⟩
    · rw [post.sysE, h.sysE, relEntry_comp]
    · cases hu : st.user with
      | none =>
        have : D.user = none := by rw [h.user, hu]; rfl
        rw [post.userNone this]; rfl
      | some u =>
        have hD : D.user = some (relLex st.τL st.τR u) := by rw [h.user, hu]; rfl
        obtain ⟨u', h1, h2, h3, _⟩ := post.user _ hD
        rw [h1]
        simp only [Option.map_some, Option.some.injEq]
        apply LexM.ext'
        · rw [h2]; simp only [relLex]; rw [relEntry_comp]
        · rw [h3]; rfl
    · rw [post.unk, h.unk, relUnk_comp]
    · intro r l hr hl
      simp only [Function.comp]
      rw [post.cost _ _ (by rw [h.numRight]; exact h.rangeR r hr)
        (by rw [h.numLeft]; exact h.rangeL l hl)]
      exact h.cost r l hr hl
    · intro l hl
      simp only [Function.comp]
      rw [← hlL]; exact post.tl.getD_lt _ (by rw [hlL]; exact h.rangeL l hl)
    · intro r hr
      simp only [Function.comp]
      rw [← hlR]; exact post.tr.getD_lt _ (by rw [hlR]; exact h.rangeR r hr)
    · simp only [Function.comp, h.zeroL]; exact post.tl.getD_zero
    · simp only [Function.comp, h.zeroR]; exact post.tr.getD_zero
    · right
      rcases h.mapper with ⟨hm, e1, e2⟩ | ⟨tl, tr, hm, e1, e2, l1, l2⟩
      · refine ⟨ml, mr, ?_, by rw [e1]; rfl, by rw [e2]; rfl, hlL, hlR⟩
        rw [post.mapper, hm]
      · refine ⟨tl.map fun x => ml.getD x 0, tr.map fun x => mr.getD x 0, ?_, ?_, ?_,
          by simpa using l1, by simpa using l2⟩
        · rw [post.mapper, hm, hf3]
        · rw [e1]; exact (tblFn_map tl (tblFn ml) post.tl.getD_zero).symm
        · rw [e2]; exact (tblFn_map tr (tblFn mr) post.tr.getD_zero).symm
  | reset csv =>
    cases csv with
    | none =>
      have : D' = { D with user := none } := by
        simp only [DictM.step, resetUser_none, Outcome.ok.injEq] at hs; exact hs.symm
      subst this
      simp only [specStep]
      exact ⟨h.sysE, h.sysF, rfl, h.unk, h.chars, h.numLeft, h.numRight, h.cost, h.rangeL, h.rangeR,
        h.zeroL, h.zeroR, fun u hu => (by cases hu), h.mapper⟩
    | some bytes =>
      obtain ⟨u, u', hp, hmap, hr, rfl⟩ := resetUser_some_ok hs
      simp only [specStep, hp]
      -- the loaded lexicon is in range and is stored translated by the composed mapping
      have key : u.InRange D0.numLeft D0.numRight ∧ u' = relLex st.τL st.τR u := by
        rcases hmap with ⟨hm, rfl⟩ | ⟨ml, mr, hm, hl⟩
        · rcases h.mapper with ⟨_, e1, e2⟩ | ⟨tl, tr, hm', _⟩
          · refine ⟨by rw [← h.numLeft, ← h.numRight]; exact hr, ?_⟩
            rw [e1, e2]; simp only [relLex]; rw [relEntry_id]
          · rw [hm] at hm'; cases hm'
        · rcases h.mapper with ⟨hm', _⟩ | ⟨tl, tr, hm', e1, e2, l1, l2⟩
          · rw [hm] at hm'; cases hm'
          · rw [hm] at hm'
            simp only [Option.some.injEq, Prod.mk.injEq] at hm'
            obtain ⟨rfl, rfl⟩ := hm'
            obtain ⟨h1, h2, h3⟩ := mapLex_eq_some hl
            refine ⟨by rw [← l1, ← l2]; exact h3, ?_⟩
            apply LexM.ext'
            · rw [h1, e1, e2]; rfl
            · rw [h2]; rfl
      refine ⟨h.sysE, h.sysF, by rw [key.2]; rfl, h.unk, h.chars, h.numLeft, h.numRight, h.cost,
        h.rangeL, h.rangeR, h.zeroL, h.zeroR, ?_, h.mapper⟩
      intro u0 hu0
      simp only [Option.some.injEq] at hu0
      subst hu0
      exact key.1

theorem HistRel.run {fx : Fixes} (hf3 : fx.f3 = true) {D0 : DictM} :
    ∀ (ops : List DOp) {D D' : DictM} {st : HState}, HistRel D0 st D → D.run fx ops = .ok D' →
      HistRel D0 (specRun fx st ops) D'
  | [], D, D', st, h, hr => by
    simp only [DictM.run, Outcome.ok.injEq] at hr
    subst hr; exact h
  | op :: ops, D, D', st, h, hr => by
    simp only [DictM.run] at hr
    cases hs : D.step fx op with
    | err => rw [hs] at hr; cases hr
    | panic => rw [hs] at hr; cases hr
    | ok D1 =>
      rw [hs] at hr
      exact HistRel.run hf3 ops (h.step hf3 op hs) hr

/-- From the invariant to tokenization. -/
theorem HistRel.tokenize {D0 D : DictM} {st : HState} (h : HistRel D0 st D) (hids : D0.IdsOK)
    (posL : 0 < D0.numLeft) (posR : 0 < D0.numRight) (o : TokOpts) (s : List Nat) :
    tokenize D.tokDict o s =
      (tokenize ({ D0 with user := st.user } : DictM).tokDict o s).map
        (·.map (Ren.ofIds st.τL st.τR).tok) := by
  apply tokenize_rel
  apply tokDictRel_of (D := { D0 with user := st.user }) h.zeroL h.zeroR h.sysE ?_ h.unk h.chars
    ⟨hids.sys, fun u hu => h.userLt u hu, hids.unk⟩ posL posR h.cost
  rw [h.user]
  cases st.user <;> rfl

/-- `mapIds` keeps the stored mapper well-formed (any `fx`). -/
theorem mapIds_mapperOK {fx : Fixes} {D D' : DictM} {l r : List Nat} (hm : D.MapperOK)
    (h : D.mapIds fx l r = .ok D') : D'.MapperOK := by
  obtain ⟨ml, mr, _, _, post⟩ := mapIds_ok h
  intro tl tr htl
  rw [post.mapper] at htl
  rw [post.numLeft, post.numRight]
  have base : ml.length = D.numLeft ∧ mr.length = D.numRight ∧ (∀ x ∈ ml, x < D.numLeft) ∧
      (∀ x ∈ mr, x < D.numRight) :=
    ⟨post.llen, post.rlen, by rw [← post.llen]; exact post.tl.lt, by rw [← post.rlen]; exact post.tr.lt⟩
  cases hmp : D.mapper with
  | none =>
    rw [hmp] at htl
    simp only [Option.some.injEq, Prod.mk.injEq] at htl
    obtain ⟨rfl, rfl⟩ := htl
    exact base
  | some m =>
    obtain ⟨ol, or⟩ := m
    rw [hmp] at htl
    cases hf : fx.f3 with
    | false =>
      rw [hf] at htl
      simp only [Option.some.injEq, Prod.mk.injEq] at htl
      obtain ⟨rfl, rfl⟩ := htl
      exact base
    | true =>
      rw [hf] at htl
      simp only [Option.some.injEq, Prod.mk.injEq] at htl
      obtain ⟨rfl, rfl⟩ := htl
      obtain ⟨h1, h2, h3, h4⟩ := hm ol or hmp
      refine ⟨by simpa using h1, by simpa using h2, ?_, ?_⟩
      · intro x hx
        simp only [List.mem_map] at hx
        obtain ⟨y, hy, rfl⟩ := hx
        rw [← post.llen]
        exact post.tl.getD_lt y (by rw [post.llen]; exact h3 y hy)
      · intro x hx
        simp only [List.mem_map] at hx
        obtain ⟨y, hy, rfl⟩ := hx
        rw [← post.rlen]
        exact post.tr.getD_lt y (by rw [post.rlen]; exact h4 y hy)

theorem resetUser_mapperOK {fx : Fixes} {D D' : DictM} {csv : Option (List UInt8)} (hm : D.MapperOK)
    (h : D.resetUser fx csv = .ok D') : D'.MapperOK := by
  rw [resetUser_shape h]; exact hm

end Vibrato
