/-
Round-trip (`RT`) and framedness lemmas for every decoder of the trained-model image
(`Vibrato/Model/ModelImage.lean`), assembled from `Proofs/Framed.lean` and `Proofs/Image.lean`.
-/
import Vibrato.Model.ModelImage
import Vibrato.Proofs.Image

namespace Vibrato.ModelImage
open Vibrato.Bincode Vibrato.Image

/-! ## Round trip -/

theorem rt_nz32 : RT nz32 encU32 (fun n => wfNz n = true) := by
  intro n h rest
  simp only [wfNz, Bool.and_eq_true, decide_eq_true_eq] at h
  have hne : ¬ n = 0 := by omega
  simp only [nz32, rt_andThen rt_wfU32 h.2, hne, if_false, ret_apply]

theorem rt_optNz : RT (opt nz32) (encOpt encU32) (fun o => wfOptNz o = true) := by
  intro o h rest
  exact rt_opt rt_nz32 o (wfOpt_iff h) rest

theorem tag_step (n t : Nat) (hn : n ≤ 2 ^ 32) (ht : t < n) {β : Type} (f : Nat → Dec β)
    (r : List UInt8) : (tag n).andThen f (encU32 t ++ r) = f t r :=
  rt_andThen (rt_tag n hn) ht f r

theorem rt_featureType : RT decFeatureType encFeatureType (fun t => wfFeatureType t = true) := by
  intro t h rest
  cases t with
  | index i =>
    simp only [wfFeatureType] at h
    simp only [decFeatureType, encFeatureType, List.append_assoc, tag_step 2 0 (by decide) (by decide),
      if_true, Dec.map, rt_andThen rt_wfU64 h, ret_apply]
  | charType =>
    have h10 : ¬ (1 : Nat) = 0 := by decide
    have := tag_step 2 1 (by decide) (by decide)
      (fun t => if t = 0 then u64.map FeatureType.index else Dec.ret FeatureType.charType) rest
    simpa [decFeatureType, encFeatureType, h10] using this

theorem rt_capture : RT decCapture encCapture (fun c => wfCapture c = true) := by
  intro c h rest
  cases c
  simp only [wfCapture, Bool.and_eq_true] at h
  obtain ⟨⟨h1, h2⟩, h3⟩ := h
  simp only [decCapture, encCapture, List.append_assoc, rt_andThen rt_wfU64 h1,
    rt_andThen rt_wfU64 h2, rt_andThen rt_featureType h3, ret_apply]

theorem rt_template : RT decTemplate encTemplate (fun t => wfTemplate t = true) := by
  intro t h rest
  cases t
  simp only [wfTemplate, Bool.and_eq_true] at h
  obtain ⟨⟨h1, h2⟩, h3⟩ := h
  simp only [decTemplate, encTemplate, List.append_assoc, rt_andThen rt_wfStr h1,
    vec_step (by decide) rt_wfU64 h2, vec_step (by decide) rt_capture h3, ret_apply]

theorem rt_idPair : RT decIdPair encIdPair (fun p => wfIdPair p = true) := by
  intro p h rest
  cases p
  simp only [wfIdPair, Bool.and_eq_true] at h
  obtain ⟨h1, h2⟩ := h
  simp only [decIdPair, encIdPair, List.append_assoc, rt_andThen rt_wfStr h1,
    rt_andThen rt_nz32 h2, ret_apply]

theorem rt_idMap : RT decIdMap encIdMap (fun m => wfIdMap m = true) := by
  intro m h rest
  exact rt_vec (by decide) rt_idPair m (wfVec_ok h) rest

theorem rt_extractor : RT decExtractor encExtractor (fun e => wfExtractor e = true) := by
  intro e h rest
  cases e
  simp only [wfExtractor, Bool.and_eq_true] at h
  obtain ⟨⟨⟨⟨⟨⟨⟨⟨h1, h2⟩, h3⟩, h4⟩, h5⟩, h6⟩, h7⟩, h8⟩, h9⟩ := h
  simp only [decExtractor, encExtractor, List.append_assoc, rt_andThen rt_idMap h1,
    rt_andThen rt_idMap h2, rt_andThen rt_idMap h3, rt_andThen rt_wfU32 h4,
    rt_andThen rt_wfU32 h5, rt_andThen rt_wfU32 h6, vec_step (by decide) rt_template h7,
    vec_step (by decide) rt_template h8, vec_step (by decide) rt_template h9, ret_apply]

theorem rt_pattern : RT decPattern encPattern (fun p => wfPattern p = true) := by
  intro p h rest
  have h10 : ¬ (1 : Nat) = 0 := by decide
  have h20 : ¬ (2 : Nat) = 0 := by decide
  have h21 : ¬ (2 : Nat) = 1 := by decide
  cases p with
  | any =>
    simp only [decPattern, encPattern, tag_step 3 0 (by decide) (by decide), if_true, ret_apply]
  | exact s =>
    simp only [wfPattern] at h
    simp only [decPattern, encPattern, List.append_assoc, tag_step 3 1 (by decide) (by decide),
      if_neg h10, if_true, Dec.map, rt_andThen rt_wfStr h, ret_apply]
  | multiple l =>
    simp only [wfPattern] at h
    simp only [decPattern, encPattern, List.append_assoc, tag_step 3 2 (by decide) (by decide),
      if_neg h20, if_neg h21, Dec.map, vec_step (by decide) rt_wfStr h, ret_apply]

theorem rt_rewrite : RT decRewrite encRewrite (fun r => wfRewrite r = true) := by
  intro r h rest
  have h10 : ¬ (1 : Nat) = 0 := by decide
  cases r with
  | ref i =>
    simp only [wfRewrite] at h
    simp only [decRewrite, encRewrite, List.append_assoc, tag_step 2 0 (by decide) (by decide),
      if_true, Dec.map, rt_andThen rt_wfU64 h, ret_apply]
  | text s =>
    simp only [wfRewrite] at h
    simp only [decRewrite, encRewrite, List.append_assoc, tag_step 2 1 (by decide) (by decide),
      if_neg h10, Dec.map, rt_andThen rt_wfStr h, ret_apply]

theorem rt_action : RT decAction encAction (fun a => wfAction a = true) := by
  intro a h rest
  have h10 : ¬ (1 : Nat) = 0 := by decide
  cases a with
  | trans p n =>
    simp only [wfAction, Bool.and_eq_true] at h
    simp only [decAction, encAction, List.append_assoc, tag_step 2 0 (by decide) (by decide),
      if_true, rt_andThen rt_pattern h.1, rt_andThen rt_wfU64 h.2, ret_apply]
  | rw r =>
    simp only [wfAction] at h
    simp only [decAction, encAction, List.append_assoc, tag_step 2 1 (by decide) (by decide),
      if_neg h10, Dec.map, vec_step (by decide) rt_rewrite h, ret_apply]

theorem rt_node : RT (vec szAction decAction) (encVec encAction)
    (fun n => wfVec szAction wfAction n = true) := by
  intro n h rest
  exact rt_vec (by decide) rt_action n (wfVec_ok h) rest

theorem rt_rwTrie : RT decRwTrie encRwTrie (fun t => wfRwTrie t = true) := by
  intro t h rest
  exact rt_vec (by decide) rt_node t (wfVec_ok h) rest

theorem rt_config : RT decConfig encConfig (fun c => wfConfig c = true) := by
  intro c h rest
  cases c
  simp only [wfConfig, Bool.and_eq_true] at h
  obtain ⟨⟨⟨⟨⟨h1, h2⟩, h3⟩, h4⟩, h5⟩, h6⟩ := h
  simp only [decConfig, encConfig, List.append_assoc, rt_andThen rt_extractor h1,
    rt_andThen rt_rwTrie h2, rt_andThen rt_rwTrie h3, rt_andThen rt_rwTrie h4,
    rt_andThen rt_decodeDict h5, vec_step (by decide) rt_wfStr h6, ret_apply]

theorem rt_featureSet : RT decFeatureSet encFeatureSet (fun f => wfFeatureSet f = true) := by
  intro f h rest
  cases f
  simp only [wfFeatureSet, Bool.and_eq_true] at h
  obtain ⟨⟨h1, h2⟩, h3⟩ := h
  simp only [decFeatureSet, encFeatureSet, List.append_assoc, vec_step (by decide) rt_nz32 h1,
    vec_step (by decide) rt_optNz h2, vec_step (by decide) rt_optNz h3, ret_apply]

theorem rt_pair32 : RT decPair32 encPair32 (fun p => wfPair32 p = true) := by
  intro p h rest
  cases p
  simp only [wfPair32, Bool.and_eq_true] at h
  simp only [decPair32, encPair32, List.append_assoc, rt_andThen rt_wfU32 h.1,
    rt_andThen rt_wfU32 h.2, ret_apply]

theorem rt_bigramRow : RT (vec szPair32 decPair32) (encVec encPair32)
    (fun r => wfVec szPair32 wfPair32 r = true) := by
  intro r h rest
  exact rt_vec (by decide) rt_pair32 r (wfVec_ok h) rest

theorem rt_rawModel : RT decRawModel encRawModel (fun m => wfRawModel m = true) := by
  intro m h rest
  cases m
  simp only [wfRawModel, Bool.and_eq_true] at h
  obtain ⟨⟨⟨h1, h2⟩, h3⟩, h4⟩ := h
  simp only [decRawModel, encRawModel, List.append_assoc, vec_step (by decide) rt_wfU64 h1,
    vec_step (by decide) rt_optNz h2, vec_step (by decide) rt_bigramRow h3,
    vec_step (by decide) rt_featureSet h4, ret_apply]

theorem rt_decodeModel : RT decodeModel encodeModel (fun m => wfModel m = true) := by
  intro m h rest
  cases m
  simp only [wfModel, Bool.and_eq_true] at h
  simp only [decodeModel, encodeModel, List.append_assoc, rt_andThen rt_config h.1,
    rt_andThen rt_rawModel h.2, ret_apply]

/-! ## Framed (a truncated model image is an error, never a panic or a wrong model) -/

theorem framed_nz32 : Framed nz32 := by unfold nz32; framed
theorem framed_featureType : Framed decFeatureType := by unfold decFeatureType; framed
theorem framed_capture : Framed decCapture := by
  unfold decCapture
  apply framed_andThen framed_u64; intro _
  apply framed_andThen framed_u64; intro _
  apply framed_andThen framed_featureType; intro _
  framed
theorem framed_template : Framed decTemplate := by
  unfold decTemplate
  apply framed_andThen framed_str; intro _
  apply framed_andThen (framed_vec _ framed_u64); intro _
  apply framed_andThen (framed_vec _ framed_capture); intro _
  framed
theorem framed_idPair : Framed decIdPair := by
  unfold decIdPair
  apply framed_andThen framed_str; intro _
  apply framed_andThen framed_nz32; intro _
  framed
theorem framed_idMap : Framed decIdMap := framed_vec _ framed_idPair
theorem framed_extractor : Framed decExtractor := by
  unfold decExtractor
  apply framed_andThen framed_idMap; intro _
  apply framed_andThen framed_idMap; intro _
  apply framed_andThen framed_idMap; intro _
  apply framed_andThen framed_u32; intro _
  apply framed_andThen framed_u32; intro _
  apply framed_andThen framed_u32; intro _
  apply framed_andThen (framed_vec _ framed_template); intro _
  apply framed_andThen (framed_vec _ framed_template); intro _
  apply framed_andThen (framed_vec _ framed_template); intro _
  framed
theorem framed_pattern : Framed decPattern := by
  unfold decPattern
  apply framed_andThen (framed_tag _); intro _
  exact framed_ite (framed_ret _) (framed_ite (framed_map _ framed_str)
    (framed_map _ (framed_vec _ framed_str)))
theorem framed_rewrite : Framed decRewrite := by
  unfold decRewrite
  apply framed_andThen (framed_tag _); intro _
  exact framed_ite (framed_map _ framed_u64) (framed_map _ framed_str)
theorem framed_action : Framed decAction := by
  unfold decAction
  apply framed_andThen (framed_tag _); intro _
  apply framed_ite
  · apply framed_andThen framed_pattern; intro _
    apply framed_andThen framed_u64; intro _
    framed
  · exact framed_map _ (framed_vec _ framed_rewrite)
theorem framed_rwTrie : Framed decRwTrie := framed_vec _ (framed_vec _ framed_action)
theorem framed_config : Framed decConfig := by
  unfold decConfig
  apply framed_andThen framed_extractor; intro _
  apply framed_andThen framed_rwTrie; intro _
  apply framed_andThen framed_rwTrie; intro _
  apply framed_andThen framed_rwTrie; intro _
  apply framed_andThen framed_decodeDict; intro _
  apply framed_andThen (framed_vec _ framed_str); intro _
  framed
theorem framed_featureSet : Framed decFeatureSet := by
  unfold decFeatureSet
  apply framed_andThen (framed_vec _ framed_nz32); intro _
  apply framed_andThen (framed_vec _ (framed_opt framed_nz32)); intro _
  apply framed_andThen (framed_vec _ (framed_opt framed_nz32)); intro _
  framed
theorem framed_pair32 : Framed decPair32 := by unfold decPair32; framed
theorem framed_rawModel : Framed decRawModel := by
  unfold decRawModel
  apply framed_andThen (framed_vec _ framed_u64); intro _
  apply framed_andThen (framed_vec _ (framed_opt framed_nz32)); intro _
  apply framed_andThen (framed_vec _ (framed_vec _ framed_pair32)); intro _
  apply framed_andThen (framed_vec _ framed_featureSet); intro _
  framed
theorem framed_decodeModel : Framed decodeModel := by
  unfold decodeModel
  apply framed_andThen framed_config; intro _
  apply framed_andThen framed_rawModel; intro _
  framed

end Vibrato.ModelImage
