/-
A sufficient condition for `Scorer.buildChecked` (the `u32` range check of the bases found by the
first-fit search of `ScorerBuilder::build`) to succeed: a base is rejected only if it maps some key
of the row to a slot that is already used, so the least free base is at most `#row · #used ≤ N²`
for a builder with `N` entries.  Hence no overflow for `N < 65536`.

Used by `Props/C20e2e.lean` to discharge the build hypothesis for small models.
-/
import Vibrato.Proofs.RawConnector

namespace Vibrato.Scorer

/-- Pigeonhole: a list containing all of `0 … n-1` has at least `n` elements. -/
theorem le_length_of_range_mem : ∀ (n : Nat) (l : List Nat), (∀ b, b < n → b ∈ l) → n ≤ l.length := by
  intro n
  induction n with
  | zero => intro l _; omega
  | succ n ih =>
    intro l h
    have hn : n ∈ l := h n (by omega)
    have := ih (l.erase n) (fun b hb => (List.mem_erase_of_ne (by omega)).mpr (h b (by omega)))
    rw [List.length_erase_of_mem hn] at this
    have : 0 < l.length := List.length_pos_of_mem hn
    omega

/-- The bases rejected by the first-fit search are of the form `p ^ key2` for a used slot `p`:
the least free base is at most `#row · #used`. -/
theorem findBase_le_mul (row : Row) (checks : List Nat) (U : List Nat)
    (hU : ∀ p, chk checks p ≠ UNUSED_CHECK → p ∈ U) :
    findBase row checks ≤ row.length * U.length := by
  let Bad : List Nat := row.flatMap fun e => U.map (· ^^^ e.1)
  have hlen : Bad.length = row.length * U.length := by
    simp only [Bad, List.length_flatMap, List.length_map]
    induction row with
    | nil => simp
    | cons e r ih => simp [List.sum_cons, ih, Nat.succ_mul, Nat.add_comm]
  rw [← hlen]
  apply le_length_of_range_mem
  intro b hb
  have hbad := (findBase_spec row checks).2 b hb
  have : ¬ ∀ e ∈ row, chk checks (b ^^^ e.1) = UNUSED_CHECK := by
    intro h; rw [(checkBase_iff b row checks).mpr h] at hbad; cases hbad
  have : ∃ e ∈ row, chk checks (b ^^^ e.1) ≠ UNUSED_CHECK := by
    apply Classical.byContradiction
    intro hno
    apply this
    intro e he
    apply Classical.byContradiction
    intro hne
    exact hno ⟨e, he, hne⟩
  obtain ⟨e, he, hne⟩ := this
  simp only [Bad, List.mem_flatMap, List.mem_map]
  refine ⟨e, he, b ^^^ e.1, hU _ hne, ?_⟩
  rw [Nat.xor_assoc, Nat.xor_self, Nat.xor_zero]

/-- One iteration of the outer loop of `build` preserves `BInv` (the `cons` step of
`buildLoop_inv`). -/
theorem buildStep_inv (t : Trie) (ht : TrieOK t) (row : Row) (i : Nat) (st : Scorer)
    (hi : i < t.length) (hrow : t[i]? = some row) (hinv : BInv t i st) :
    BInv t (i + 1) ⟨st.bases.set i (findBase row st.checks),
      (placeRow i (findBase row st.checks) row (st.checks, st.costs)).1,
      (placeRow i (findBase row st.checks) row (st.checks, st.costs)).2⟩ := by
  have hmem : row ∈ t := List.mem_of_getElem? hrow
  have hnd := ht.nodup row hmem
  have hfree := (checkBase_iff _ _ _).1 (findBase_spec row st.checks).1
  obtain ⟨p1, p2, p3⟩ := placeRow_spec i (findBase row st.checks) row st.checks st.costs hinv.len hnd
  have hiU : ∀ k, k < t.length → k ≠ UNUSED_CHECK := by
    intro k hk h; have := ht.len; omega
  refine ⟨p1, by simp [hinv.blen], ?_, ?_⟩
  · intro k row' b hk hrow' hb e he
    by_cases hki : k = i
    · subst hki
      rw [hrow] at hrow'
      cases hrow'
      simp only [List.getElem?_set, if_true, hinv.blen, hi] at hb
      cases hb
      exact p2 e he
    · have hk' : k < i := by omega
      simp only [List.getElem?_set] at hb
      rw [if_neg (Ne.symm hki)] at hb
      obtain ⟨f1, f2⟩ := hinv.fwd k row' b hk' hrow' hb e he
      have hne : ∀ e' ∈ row, b ^^^ e.1 ≠ findBase row st.checks ^^^ e'.1 := by
        intro e' he' h
        have := hfree e' he'
        rw [← h, f1] at this
        exact hiU k (by omega) this
      obtain ⟨a, b'⟩ := p3 _ hne
      simp only
      rw [a, b']
      exact ⟨f1, f2⟩
  · intro p hp
    simp only at hp ⊢
    by_cases hex : ∃ e ∈ row, p = findBase row st.checks ^^^ e.1
    · obtain ⟨e, he, hpe⟩ := hex
      have := (p2 e he).1
      rw [← hpe] at this
      rw [this]
      refine ⟨by omega, row, findBase row st.checks, e, hrow, ?_, he, hpe⟩
      simp [hinv.blen, hi]
    · have hne : ∀ e ∈ row, p ≠ findBase row st.checks ^^^ e.1 := by
        intro e he h; exact hex ⟨e, he, h⟩
      obtain ⟨a, _⟩ := p3 p hne
      rw [a] at hp ⊢
      obtain ⟨h1, row', b, e, h2, h3, h4, h5⟩ := hinv.bwd p hp
      refine ⟨by omega, row', b, e, h2, ?_, h4, h5⟩
      rw [List.getElem?_set, if_neg (by omega)]
      exact h3

/-- Number of entries of a builder. -/
def trieSize (t : Trie) : Nat := (t.map List.length).sum

/-- All slots `bases[k] ^ key2` of all rows. -/
def usedAll (t : Trie) (bases : List Nat) : List Nat :=
  (t.zip bases).flatMap fun rb => rb.1.map fun e => rb.2 ^^^ e.1

theorem usedAll_length_le (t : Trie) (bases : List Nat) : (usedAll t bases).length ≤ trieSize t := by
  unfold usedAll trieSize
  simp only [List.length_flatMap, List.length_map]
  induction t generalizing bases with
  | nil => simp
  | cons r t ih =>
    cases bases with
    | nil => simp
    | cons b bs =>
      simp only [List.zip_cons_cons, List.map_cons, List.sum_cons]
      have := ih bs
      omega

theorem used_mem {t : Trie} {i : Nat} {st : Scorer} (hinv : BInv t i st) (p : Nat)
    (hp : chk st.checks p ≠ UNUSED_CHECK) : p ∈ usedAll t st.bases := by
  obtain ⟨_, row, b, e, h2, h3, h4, h5⟩ := hinv.bwd p hp
  have hz : (t.zip st.bases)[chk st.checks p]? = some (row, b) := by
    rw [List.getElem?_zip_eq_some]; exact ⟨h2, h3⟩
  simp only [usedAll, List.mem_flatMap, List.mem_map]
  exact ⟨(row, b), List.mem_of_getElem? hz, e, h4, h5.symm⟩

theorem row_length_le {t : Trie} {row : Row} (h : row ∈ t) : row.length ≤ trieSize t := by
  unfold trieSize
  induction t with
  | nil => cases h
  | cons r t ih =>
    simp only [List.map_cons, List.sum_cons]
    rcases List.mem_cons.mp h with rfl | h
    · omega
    · have := ih h; omega

theorem buildLoop_bases_le (t : Trie) (ht : TrieOK t) (B : Nat) (hB : trieSize t * trieSize t ≤ B) :
    ∀ (rows : List Row) (i : Nat) (st : Scorer), t.drop i = rows → BInv t i st →
      (∀ b ∈ st.bases, b ≤ B) → ∀ b ∈ (buildLoop rows i st).bases, b ≤ B := by
  intro rows
  induction rows with
  | nil => intro i st _ _ hb; simpa [buildLoop] using hb
  | cons row rest ih =>
    intro i st hdrop hinv hb
    simp only [buildLoop]
    have hi : i < t.length := by
      have := congrArg List.length hdrop
      simp at this; omega
    have hrow : t[i]? = some row := by
      have := congrArg (fun l => l[0]?) hdrop
      simpa using this
    have hbase : findBase row st.checks ≤ B := by
      have h1 := findBase_le_mul row st.checks (usedAll t st.bases) (used_mem hinv)
      have h2 := usedAll_length_le t st.bases
      have h3 := row_length_le (List.mem_of_getElem? hrow)
      calc findBase row st.checks ≤ row.length * (usedAll t st.bases).length := h1
        _ ≤ trieSize t * trieSize t := Nat.mul_le_mul h3 h2
        _ ≤ B := hB
    apply ih (i + 1) _ (by rw [← List.drop_drop, hdrop]; rfl) (buildStep_inv t ht row i st hi hrow hinv)
    intro b hbm
    rcases List.mem_or_eq_of_mem_set hbm with h | h
    · exact hb b h
    · rw [h]; exact hbase

/-- **No `u32` overflow in `build` for small builders**: with `N` entries every base is at most
`N²` (a base is rejected only if it sends some key of the row to a used slot), so for
`N² < 2^32` `buildChecked` does not panic. -/
theorem buildChecked_ok_of_small (t : Trie) (ht : TrieOK t)
    (h : trieSize t * trieSize t < 4294967296) : buildChecked t = .ok (build t) := by
  have hb : ∀ b ∈ (build t).bases, b ≤ 4294967295 := by
    apply buildLoop_bases_le t ht 4294967295 (by omega) t 0 _ (by simp)
    · refine ⟨rfl, by simp, ?_, ?_⟩
      · intro k row b hk; omega
      · intro p hp; simp [chk] at hp
    · intro b hb; simp at hb; omega
  unfold buildChecked
  simp only
  rw [if_pos]
  refine ⟨by have := ht.len; simp only [UNUSED_CHECK] at this; omega, ?_⟩
  rw [List.all_eq_true]
  intro b hbm
  have := hb b hbm
  simp; omega

theorem rowInsert_length_le (k : Nat) (c : Int) : ∀ (row : Row), (rowInsert k c row).length ≤ row.length + 1 := by
  intro row
  induction row with
  | nil => simp [rowInsert]
  | cons e r ih =>
    obtain ⟨k', c'⟩ := e
    simp only [rowInsert]
    split
    · simp
    · split
      · simp
      · simp only [List.length_cons]; omega

theorem trieSize_modify_le (f : Row → Row) (hf : ∀ r, (f r).length ≤ r.length + 1) :
    ∀ (t : Trie) (k : Nat), trieSize (t.modify k f) ≤ trieSize t + 1 := by
  intro t
  induction t with
  | nil => intro k; simp [trieSize]
  | cons r t ih =>
    intro k
    cases k with
    | zero =>
      simp only [List.modify_cons, trieSize, List.map_cons, List.sum_cons, if_true]
      have := hf r; omega
    | succ k =>
      have := ih k
      simp only [trieSize, List.modify_succ_cons, List.map_cons, List.sum_cons] at this ⊢
      omega

theorem trieSize_append_replicate_nil (t : Trie) (n : Nat) :
    trieSize (t ++ List.replicate n []) = trieSize t := by
  unfold trieSize
  induction n with
  | zero => simp
  | succ n ih => simp [List.replicate_succ', ← List.append_assoc]

theorem trieSize_insert_le (t : Trie) (k1 k2 : Nat) (c : Int) :
    trieSize (insert t k1 k2 c) ≤ trieSize t + 1 := by
  unfold insert
  simp only
  refine Nat.le_trans (trieSize_modify_le _ (rowInsert_length_le k2 c) _ k1) ?_
  split
  · rename_i h
    unfold resize
    rw [List.take_of_length_le (by omega), trieSize_append_replicate_nil]
    exact Nat.le_refl _
  · omega

theorem trieSize_foldl_insert (es : List (Nat × Nat × Int)) : ∀ (t : Trie),
    trieSize (es.foldl (fun t e => insert t e.1 e.2.1 e.2.2) t) ≤ trieSize t + es.length := by
  induction es with
  | nil => intro t; simp
  | cons e es ih =>
    intro t
    simp only [List.foldl_cons, List.length_cons]
    have := ih (insert t e.1 e.2.1 e.2.2)
    have := trieSize_insert_le t e.1 e.2.1 e.2.2
    omega

theorem trieSize_ofEntries_le (es : List (Nat × Nat × Int)) : trieSize (ofEntries es) ≤ es.length := by
  have := trieSize_foldl_insert es []
  simpa [ofEntries, trieSize] using this

end Vibrato.Scorer

namespace Vibrato.RawConnector
open Vibrato.Scorer

/-- With fewer than 65536 lines in `bigram.cost` the scorer build of `from_readers` cannot
overflow `u32`. -/
theorem builder_buildChecked_ok {csv : Str → Outcome (List Str)} {right left cost : List (Option Str)}
    {b : Builder} (hb : builderFromReaders csv right left cost = .ok b) (hsmall : cost.length < 65536) :
    buildChecked b.trie = .ok (build b.trie) := by
  obtain ⟨st, es, rfs, lfs, hinv, he, _, _, _, _, _, htrie⟩ := builder_spec hb
  have hlen := costEntries_length _ _ he
  have hr : st.rmap.length ≤ INVALID := by
    have := hinv.rlen; simp only [INVALID]; omega
  have hok := trieOK_of_cinv hinv hr
  rw [htrie]
  apply buildChecked_ok_of_small _ hok
  have hN : trieSize st.trie ≤ 65535 := by
    rw [hinv.trie]
    have := trieSize_ofEntries_le (es.map (enc st.rmap st.lmap))
    simp only [List.length_map] at this
    omega
  calc trieSize st.trie * trieSize st.trie ≤ 65535 * 65535 := Nat.mul_le_mul hN hN
    _ < 4294967296 := by decide

end Vibrato.RawConnector
