/-
TESTS (not proofs) for the codec model: `#guard` evaluates each line at build time.
Differential evidence gathered while building the model (outside this file, with a scratch
probe against the real crate): the model's re-encoding is byte-identical to
`Dictionary::write` for matrix / raw / dual dictionaries with and without user lexicon and
mapper; model and `Dictionary::read` agree on ok/err/panic for 3 × 3 100 truncation points
and ≈ 1 500 single-field corruptions (every case in which the real reader did not die of
an allocation failure); `validUtf8` agrees with `String::from_utf8` on 316 684 byte strings
(all of length 1, all of length 2 with lead byte ≥ 0x70, structured 3- and 4-byte cases).
-/
import Vibrato.Model.Image
import Vibrato.Proofs.ImageExamples

namespace Vibrato.Image.Tests
open Vibrato.Bincode Vibrato.Image

-- the magic is the byte string of the Rust literal
#guard magic = "VibratoTokenizer 0.5\n".toUTF8.toList
#guard magic.length = 21

-- integers
#guard encU16 0x1234 = [0x34, 0x12]
#guard encU32 0x7fffffff = [0xff, 0xff, 0xff, 0x7f]
#guard encU64 6 = [6, 0, 0, 0, 0, 0, 0, 0]
#guard encI16 (-2) = [0xfe, 0xff]
#guard encI32 (-2147483648) = [0, 0, 0, 0x80]
#guard i16 [0x00, 0x80, 7] = .ok (-32768) [7]
#guard i32 [0xff, 0xff, 0xff, 0xff] = .ok (-1) []
#guard u32 [1, 2, 3] = .err
#guard u31 [0, 0, 0, 0x80] = .err
#guard u31 [0xff, 0xff, 0xff, 0x7f, 1] = .ok 0x7fffffff [1]

-- bool / option / enum tag
#guard bool [2] = .err
#guard bool [1, 9] = .ok true [9]
#guard opt u8 [0, 5] = .ok none [5]
#guard opt u8 [1, 5] = .ok (some 5) []
#guard opt u8 [2, 5] = .err
#guard opt u8 [1] = .err
#guard decLexType [2, 0, 0, 0] = .ok .unknown []
#guard decLexType [3, 0, 0, 0] = .err

-- vectors: truthful length, short input, absurd length
#guard vec 2 u16 [2, 0, 0, 0, 0, 0, 0, 0, 1, 0, 2, 0, 9] = .ok [1, 2] [9]
#guard vec 2 u16 [2, 0, 0, 0, 0, 0, 0, 0, 1, 0, 2] = .err
#guard vec 2 u16 [0xff, 0xff, 0xff, 0xff, 0xff, 0xff, 0xff, 0x3f, 1, 0] = .err   -- 2^62-1 items: fits `isize`
#guard vec 2 u16 [0, 0, 0, 0, 0, 0, 0, 0x40, 1, 0] = .panic                      -- 2^62 items: capacity overflow
#guard vec 1 u8 [0xff, 0xff, 0xff, 0xff, 0xff, 0xff, 0xff, 0xff] = .panic

-- strings
#guard validUtf8 "名詞,A😀é".toUTF8.toList
#guard !validUtf8 [0xc0, 0x80]            -- overlong
#guard !validUtf8 [0xed, 0xa0, 0x80]      -- surrogate
#guard !validUtf8 [0xf4, 0x90, 0x80, 0x80] -- > U+10FFFF
#guard !validUtf8 [0xe3, 0x81]            -- truncated
#guard str [2, 0, 0, 0, 0, 0, 0, 0, 0xc3, 0xa9, 1] = .ok [0xc3, 0xa9] [1]
#guard str [2, 0, 0, 0, 0, 0, 0, 0, 0xc3, 0x28] = .err

-- scorer length check
#guard decScorer (encVec encU32 [1] ++ encVec encU32 [1, 2] ++ encVec encI32 [5]) = .err

-- crawdad blob: exact, with trailing bytes (dropped), short (panic)
#guard crawdadLen Examples.blob = some 28
#guard decTrie (encTrie (Examples.blob ++ [9, 9]) ++ [1]) = .ok Examples.blob [1]
#guard decTrie (encTrie (Examples.blob.take 27)) = .panic
#guard decTrie (encTrie []) = .panic

-- whole images
#guard readImage (writeImage Examples.dMatrix) = .ok Examples.dMatrix
#guard readImage (writeImage Examples.dRaw) = .ok Examples.dRaw
#guard readImage (writeImage Examples.dDual ++ [1, 2]) = .ok Examples.dDual
#guard (List.range (writeImage Examples.dDual).length).all fun n =>
  readImage ((writeImage Examples.dDual).take n) == .err
#guard readImage (magic ++ [0xff, 0xff, 0xff, 0xff, 0xff, 0xff, 0xff, 0xff]) == .panic
#guard readImage (magic ++ [0, 0, 0, 0, 0, 0, 0, 0]) == .panic
#guard readImage (magic ++ [0, 0, 0, 0, 0, 0, 0, 0x20]) == .err  -- real reader: allocation failure (abort)

end Vibrato.Image.Tests
