/-
Helper lemmas for `Props/C02spec.lean`: the forward dynamic programme `specMin`
(`Model/SpecMin.lean`) computes the minimum of `segCost` over all candidate segmentations
(`CandSeg` / `FinalB` of `Proofs/CandidateChains.lean`).

Structure:
* `minOver_*` — the running-minimum fold;
* `Reach E b r c` — "some chain of candidates from boundary 0 to boundary `b` has last right id `r`
  and cost `c` (EOS connection not included)", with its introduction rules (`Reach.zero`,
  `Reach.snoc`) and inversion (`Reach.inv`);
* `Sound` — every table entry is a `Reach` fact (no hypothesis on the environment);
* `Comp` — after the boundaries `< k` have been processed, every chain whose last word starts at a
  boundary `< k` is dominated by a table entry; with `cands_range` (words end after their start,
  inside the sentence) the rows `≤ k` are then complete (`Comp.full`);
* `finFold_*` — the fold over the final boundaries.
-/
import Vibrato.Proofs.CandidateChains
import Vibrato.Model.SpecMin

namespace Vibrato
namespace SpecMin

/-! ## The running minimum -/

theorem minOver_nil (conn : Nat → Nat → Int) (l : Nat) (m0 : Option Int) :
    minOver conn [] l m0 = m0 := rfl

theorem minOver_cons_none (conn : Nat → Nat → Int) (p : Nat × Int) (ps : Row) (l : Nat) :
    minOver conn (p :: ps) l none = minOver conn ps l (some (p.2 + conn p.1 l)) := rfl

theorem minOver_cons_some (conn : Nat → Nat → Int) (p : Nat × Int) (ps : Row) (l : Nat) (m : Int) :
    minOver conn (p :: ps) l (some m) = minOver conn ps l (some (min m (p.2 + conn p.1 l))) := rfl

/-- started from a value, the fold returns a value that is below the start value and below the
value of every entry, and that is the start value or the value of an entry -/
theorem minOver_some (conn : Nat → Nat → Int) (l : Nat) : ∀ (here : Row) (m : Int),
    ∃ m', minOver conn here l (some m) = some m' ∧ m' ≤ m ∧
      (∀ p ∈ here, m' ≤ p.2 + conn p.1 l) ∧
      (m' = m ∨ ∃ p ∈ here, m' = p.2 + conn p.1 l)
  | [], m => ⟨m, rfl, Int.le_refl _, fun _ h => absurd h List.not_mem_nil, Or.inl rfl⟩
  | p :: ps, m => by
    obtain ⟨m', h1, h2, h3, h4⟩ := minOver_some conn l ps (min m (p.2 + conn p.1 l))
    refine ⟨m', by rw [minOver_cons_some]; exact h1, by omega, ?_, ?_⟩
    · intro q hq
      rcases List.mem_cons.mp hq with rfl | hq
      · omega
      · exact h3 q hq
    · rcases h4 with h4 | ⟨q, hq, h4⟩
      · rcases Int.le_total m (p.2 + conn p.1 l) with hle | hle
        · left; omega
        · right; exact ⟨p, List.mem_cons_self, by omega⟩
      · right; exact ⟨q, List.mem_cons_of_mem _ hq, h4⟩

/-- started from nothing on a non-empty row, the fold returns the minimum of the entries' values -/
theorem minOver_none (conn : Nat → Nat → Int) (l : Nat) (here : Row) (hne : here ≠ []) :
    ∃ m', minOver conn here l none = some m' ∧
      (∀ p ∈ here, m' ≤ p.2 + conn p.1 l) ∧ ∃ p ∈ here, m' = p.2 + conn p.1 l := by
  cases here with
  | nil => exact absurd rfl hne
  | cons p ps =>
    obtain ⟨m', h1, h2, h3, h4⟩ := minOver_some conn l ps (p.2 + conn p.1 l)
    refine ⟨m', by rw [minOver_cons_none]; exact h1, ?_, ?_⟩
    · intro q hq
      rcases List.mem_cons.mp hq with rfl | hq
      · exact h2
      · exact h3 q hq
    · rcases h4 with h4 | ⟨q, hq, h4⟩
      · exact ⟨p, List.mem_cons_self, h4⟩
      · exact ⟨q, List.mem_cons_of_mem _ hq, h4⟩

/-- whatever the start, a returned value is the start value or the value of an entry -/
theorem minOver_attained (conn : Nat → Nat → Int) (l : Nat) (here : Row) (m0 : Option Int) (m' : Int)
    (h : minOver conn here l m0 = some m') :
    m0 = some m' ∨ ∃ p ∈ here, m' = p.2 + conn p.1 l := by
  cases m0 with
  | none =>
    by_cases hne : here = []
    · subst hne; simp [minOver_nil] at h
    · obtain ⟨m'', h1, _, h3⟩ := minOver_none conn l here hne
      rw [h1] at h; cases h; exact Or.inr h3
  | some m =>
    obtain ⟨m'', h1, _, _, h4⟩ := minOver_some conn l here m
    rw [h1] at h; cases h
    rcases h4 with h4 | h4
    · left; rw [h4]
    · exact Or.inr h4

/-- whatever the start, if the row has an entry the fold returns a value below that entry's -/
theorem minOver_le (conn : Nat → Nat → Int) (l : Nat) (here : Row) (m0 : Option Int)
    (p : Nat × Int) (hp : p ∈ here) :
    ∃ m', minOver conn here l m0 = some m' ∧ m' ≤ p.2 + conn p.1 l := by
  cases m0 with
  | none =>
    obtain ⟨m', h1, h2, _⟩ := minOver_none conn l here (List.ne_nil_of_mem hp)
    exact ⟨m', h1, h2 p hp⟩
  | some m =>
    obtain ⟨m', h1, _, h3, _⟩ := minOver_some conn l here m
    exact ⟨m', h1, h3 p hp⟩

/-! ## Chains of candidates and their cost without the EOS connection -/

/-- cost of the words `cs` after a word with right id `r`, *not* including the connection of the
last word to EOS -/
def preCost (conn : Nat → Nat → Int) (r : Nat) (cs : List Cand) : Int :=
  segCostFrom conn r cs - conn (lastR r cs) 0

theorem segCost_eq_preCost (conn : Nat → Nat → Int) (cs : List Cand) :
    segCost conn cs = preCost conn 0 cs + conn (lastR 0 cs) 0 := by
  simp only [segCost, preCost]; omega

/-- `Reach E b r c`: there is a chain of candidates from boundary 0 to boundary `b` whose last
word has right id `r` (0 = BOS for the empty chain) and whose cost up to `b` is `c`. -/
def Reach (E : LatEnv) (b r : Nat) (c : Int) : Prop :=
  ∃ cs, CandSeg E 0 cs b ∧ lastR 0 cs = r ∧ preCost E.conn 0 cs = c

theorem Reach.zero (E : LatEnv) : Reach E 0 0 0 :=
  ⟨[], rfl, rfl, by simp [preCost, segCostFrom, lastR]⟩

theorem Reach.snoc {E : LatEnv} {b r : Nat} {c : Int} (h : Reach E b r c) (hsw : b + E.skip b < E.len)
    {cand : Cand} (hc : cand ∈ E.cands (b + E.skip b)) :
    Reach E cand.endWord cand.rightId (c + E.conn r cand.leftId + cand.wordCost) := by
  obtain ⟨cs, h1, h2, h3⟩ := h
  refine ⟨cs ++ [cand], candSeg_snoc E cand cs 0 b h1 hsw hc, lastR_snoc cand cs 0, ?_⟩
  simp only [preCost] at h3 ⊢
  rw [segCostFrom_snoc, lastR_snoc, h2]
  rw [h2] at h3
  omega

/-- inversion of `candSeg_snoc` -/
theorem candSeg_snoc_inv (E : LatEnv) (c : Cand) : ∀ (cs : List Cand) (a b : Nat),
    CandSeg E a (cs ++ [c]) b →
      ∃ m, CandSeg E a cs m ∧ m + E.skip m < E.len ∧ c ∈ E.cands (m + E.skip m) ∧ c.endWord = b
  | [], a, b, h => by
    obtain ⟨h1, h2, h3⟩ := h
    exact ⟨a, rfl, h1, h2, h3⟩
  | x :: xs, a, b, h => by
    obtain ⟨h1, h2, h3⟩ := h
    obtain ⟨m, i1, i2, i3, i4⟩ := candSeg_snoc_inv E c xs _ b h3
    exact ⟨m, ⟨h1, h2, i1⟩, i2, i3, i4⟩

/-- a `Reach` fact is the empty chain or arises by `Reach.snoc` -/
theorem Reach.inv {E : LatEnv} {b r : Nat} {c : Int} (h : Reach E b r c) :
    (b = 0 ∧ r = 0 ∧ c = 0) ∨
    ∃ b' r' c' cand, Reach E b' r' c' ∧ b' + E.skip b' < E.len ∧ cand ∈ E.cands (b' + E.skip b') ∧
      cand.endWord = b ∧ cand.rightId = r ∧ c = c' + E.conn r' cand.leftId + cand.wordCost := by
  obtain ⟨cs, h1, h2, h3⟩ := h
  rcases List.eq_nil_or_concat cs with rfl | ⟨cs', x, rfl⟩
  · left
    simp only [CandSeg] at h1
    simp only [lastR] at h2
    simp only [preCost, segCostFrom, lastR] at h3
    exact ⟨h1.symm, h2.symm, by omega⟩
  · right
    rw [List.concat_eq_append] at h1 h2 h3
    obtain ⟨m, i1, i2, i3, i4⟩ := candSeg_snoc_inv E x cs' 0 b h1
    refine ⟨m, lastR 0 cs', preCost E.conn 0 cs', x, ⟨cs', i1, rfl, rfl⟩, i2, i3, i4, ?_, ?_⟩
    · rw [lastR_snoc] at h2; exact h2
    · simp only [preCost] at h3 ⊢
      rw [segCostFrom_snoc, lastR_snoc] at h3
      omega

/-- the range hypothesis on the candidates (first field of `EnvOK`) -/
def CandsInRange (E : LatEnv) : Prop :=
  ∀ sw, sw < E.len → ∀ c, c ∈ E.cands sw → sw < c.endWord ∧ c.endWord ≤ E.len

theorem Reach.le_len {E : LatEnv} (hr : CandsInRange E) {b r : Nat} {c : Int} (h : Reach E b r c) :
    b ≤ E.len := by
  rcases h.inv with ⟨rfl, _, _⟩ | ⟨b', _, _, cand, _, hsw, hc, rfl, _, _⟩
  · exact Nat.zero_le _
  · exact (hr _ hsw cand hc).2

/-! ## Reading the table -/

theorem getD_modify_append (tbl : List Row) (i j : Nat) (e : Nat × Int) :
    (tbl.modify i (· ++ [e])).getD j [] =
      if i = j ∧ j < tbl.length then tbl.getD j [] ++ [e] else tbl.getD j [] := by
  rw [List.getD_eq_getElem?_getD, List.getD_eq_getElem?_getD, List.getElem?_modify]
  by_cases hj : j < tbl.length
  · rw [List.getElem?_eq_getElem hj]
    by_cases hij : i = j <;> simp [hij, hj]
  · rw [List.getElem?_eq_none (by omega)]
    simp [hj]

theorem mem_modify_of_mem {tbl : List Row} {i j : Nat} {e p : Nat × Int} (h : p ∈ tbl.getD j []) :
    p ∈ (tbl.modify i (· ++ [e])).getD j [] := by
  rw [getD_modify_append]
  split
  · exact List.mem_append_left _ h
  · exact h

theorem mem_modify_self {tbl : List Row} {i : Nat} {e : Nat × Int} (hi : i < tbl.length) :
    e ∈ (tbl.modify i (· ++ [e])).getD i [] := by
  rw [getD_modify_append, if_pos ⟨rfl, hi⟩]
  exact List.mem_append_right _ (List.mem_singleton.mpr rfl)

theorem mem_modify_inv {tbl : List Row} {i j : Nat} {e p : Nat × Int}
    (h : p ∈ (tbl.modify i (· ++ [e])).getD j []) : p ∈ tbl.getD j [] ∨ (i = j ∧ p = e) := by
  rw [getD_modify_append] at h
  split at h
  · rename_i hc
    rcases List.mem_append.mp h with h | h
    · exact Or.inl h
    · exact Or.inr ⟨hc.1, List.mem_singleton.mp h⟩
  · exact Or.inl h

theorem init_getD (E : LatEnv) (j : Nat) :
    (init E).getD j [] = if j = 0 then [(0, 0)] else [] := by
  cases j with
  | zero => rfl
  | succ j =>
    simp only [init, List.getD_eq_getElem?_getD, List.getElem?_cons_succ, List.getElem?_replicate]
    split <;> simp

theorem init_length (E : LatEnv) : (init E).length = E.len + 1 := by
  simp [init]

/-! ## Table steps: length, monotonicity -/

theorem stepCand_length (E : LatEnv) (here : Row) (tbl : List Row) (c : Cand) :
    (stepCand E here tbl c).length = tbl.length := by
  unfold stepCand
  split
  · rfl
  · exact List.length_modify _ _ _

theorem stepCand_mono (E : LatEnv) (here : Row) (tbl : List Row) (c : Cand) {j : Nat} {p : Nat × Int}
    (h : p ∈ tbl.getD j []) : p ∈ (stepCand E here tbl c).getD j [] := by
  unfold stepCand
  split
  · exact h
  · exact mem_modify_of_mem h

theorem foldCand_length (E : LatEnv) (here : Row) : ∀ (cs : List Cand) (tbl : List Row),
    (cs.foldl (stepCand E here) tbl).length = tbl.length
  | [], _ => rfl
  | c :: cs, tbl => by
    rw [List.foldl_cons, foldCand_length E here cs, stepCand_length]

theorem foldCand_mono (E : LatEnv) (here : Row) {j : Nat} {p : Nat × Int} :
    ∀ (cs : List Cand) (tbl : List Row), p ∈ tbl.getD j [] →
      p ∈ (cs.foldl (stepCand E here) tbl).getD j []
  | [], _, h => h
  | c :: cs, tbl, h => by
    rw [List.foldl_cons]
    exact foldCand_mono E here cs _ (stepCand_mono E here tbl c h)

theorem stepBoundary_length (E : LatEnv) (tbl : List Row) (x : Nat) :
    (stepBoundary E tbl x).length = tbl.length := by
  unfold stepBoundary
  simp only []
  split
  · rfl
  · split
    · rfl
    · exact foldCand_length E _ _ _

theorem stepBoundary_mono (E : LatEnv) (tbl : List Row) (x : Nat) {j : Nat} {p : Nat × Int}
    (h : p ∈ tbl.getD j []) : p ∈ (stepBoundary E tbl x).getD j [] := by
  unfold stepBoundary
  simp only []
  split
  · exact h
  · split
    · exact h
    · exact foldCand_mono E _ _ _ h

theorem tableUpTo_succ (E : LatEnv) (k : Nat) :
    tableUpTo E (k + 1) = stepBoundary E (tableUpTo E k) k := by
  simp only [tableUpTo, List.range_succ, List.foldl_append, List.foldl_cons, List.foldl_nil]

theorem tableUpTo_length (E : LatEnv) : ∀ k, (tableUpTo E k).length = E.len + 1
  | 0 => init_length E
  | k + 1 => by rw [tableUpTo_succ, stepBoundary_length, tableUpTo_length E k]

/-! ## Soundness: every entry is the cost of a chain -/

/-- every entry of the table is the (right id, cost) of some chain ending at its boundary -/
def Sound (E : LatEnv) (tbl : List Row) : Prop :=
  ∀ b, ∀ p ∈ tbl.getD b [], Reach E b p.1 p.2

theorem init_sound (E : LatEnv) : Sound E (init E) := by
  intro b p hp
  rw [init_getD] at hp
  split at hp
  · rename_i hb
    rw [List.mem_singleton] at hp
    subst hp; subst hb
    exact Reach.zero E
  · exact absurd hp List.not_mem_nil

theorem stepCand_sound {E : LatEnv} {here : Row} {tbl : List Row} {x : Nat} {c : Cand}
    (hs : Sound E tbl) (hh : ∀ p ∈ here, Reach E x p.1 p.2) (hsw : x + E.skip x < E.len)
    (hc : c ∈ E.cands (x + E.skip x)) : Sound E (stepCand E here tbl c) := by
  unfold stepCand
  split
  · exact hs
  · rename_i m hm
    intro b p hp
    rcases mem_modify_inv hp with hp | ⟨rfl, rfl⟩
    · exact hs b p hp
    · rcases minOver_attained E.conn c.leftId here none m hm with h | ⟨q, hq, rfl⟩
      · cases h
      · exact (hh q hq).snoc hsw hc

theorem foldCand_sound {E : LatEnv} {here : Row} {x : Nat}
    (hh : ∀ p ∈ here, Reach E x p.1 p.2) (hsw : x + E.skip x < E.len) :
    ∀ (cs : List Cand) (tbl : List Row), (∀ c ∈ cs, c ∈ E.cands (x + E.skip x)) → Sound E tbl →
      Sound E (cs.foldl (stepCand E here) tbl)
  | [], _, _, hs => hs
  | c :: cs, tbl, hcs, hs => by
    rw [List.foldl_cons]
    exact foldCand_sound hh hsw cs _ (fun d hd => hcs d (List.mem_cons_of_mem _ hd))
      (stepCand_sound hs hh hsw (hcs c List.mem_cons_self))

theorem stepBoundary_sound {E : LatEnv} {tbl : List Row} (x : Nat) (hs : Sound E tbl) :
    Sound E (stepBoundary E tbl x) := by
  unfold stepBoundary
  simp only []
  split
  · exact hs
  · split
    · exact hs
    · rename_i hsw
      exact foldCand_sound (hs x) (by omega) _ _ (fun _ h => h) hs

theorem tableUpTo_sound (E : LatEnv) : ∀ k, Sound E (tableUpTo E k)
  | 0 => init_sound E
  | k + 1 => by rw [tableUpTo_succ]; exact stepBoundary_sound k (tableUpTo_sound E k)

/-! ## Completeness: every chain is dominated by an entry -/

/-- After the boundaries `< k` have been processed: the empty chain is recorded at boundary 0, and
every chain whose last word is offered at a boundary `< k` is dominated by an entry with the same
right id at the boundary where it ends. -/
def Comp (E : LatEnv) (tbl : List Row) (k : Nat) : Prop :=
  (∃ p ∈ tbl.getD 0 [], p.1 = 0 ∧ p.2 ≤ 0) ∧
  ∀ b', b' < k → ∀ r' c', Reach E b' r' c' → b' + E.skip b' < E.len →
    ∀ cand ∈ E.cands (b' + E.skip b'),
      ∃ p ∈ tbl.getD cand.endWord [], p.1 = cand.rightId ∧
        p.2 ≤ c' + E.conn r' cand.leftId + cand.wordCost

/-- with words ending after their start, the rows up to `k` are complete -/
theorem Comp.full {E : LatEnv} (hr : CandsInRange E) {tbl : List Row} {k : Nat} (h : Comp E tbl k)
    {b r : Nat} {c : Int} (hb : b ≤ k) (hreach : Reach E b r c) :
    ∃ p ∈ tbl.getD b [], p.1 = r ∧ p.2 ≤ c := by
  rcases hreach.inv with ⟨rfl, rfl, rfl⟩ | ⟨b', r', c', cand, h1, hsw, hc, rfl, rfl, rfl⟩
  · exact h.1
  · have := (hr _ hsw cand hc).1
    exact h.2 b' (by omega) r' c' h1 hsw cand hc

theorem init_comp (E : LatEnv) : Comp E (init E) 0 :=
  ⟨⟨(0, 0), by rw [init_getD]; simp, rfl, Int.le_refl _⟩, fun _ h => absurd h (Nat.not_lt_zero _)⟩

theorem Comp.mono {E : LatEnv} {tbl tbl' : List Row} {k : Nat} (h : Comp E tbl k)
    (hm : ∀ j p, p ∈ tbl.getD j [] → p ∈ tbl'.getD j []) : Comp E tbl' k := by
  obtain ⟨⟨p, hp, h1⟩, h2⟩ := h
  refine ⟨⟨p, hm 0 p hp, h1⟩, ?_⟩
  intro b' hb' r' c' hre hsw cand hc
  obtain ⟨q, hq, h3⟩ := h2 b' hb' r' c' hre hsw cand hc
  exact ⟨q, hm _ q hq, h3⟩

/-- the inner fold records every candidate of the list, with the minimum over `here` -/
theorem foldCand_records (E : LatEnv) (here : Row) (hne : here ≠ []) :
    ∀ (cs : List Cand) (tbl : List Row), (∀ c ∈ cs, c.endWord < tbl.length) →
      ∀ c ∈ cs, ∃ p ∈ (cs.foldl (stepCand E here) tbl).getD c.endWord [], p.1 = c.rightId ∧
        ∀ q ∈ here, p.2 ≤ q.2 + E.conn q.1 c.leftId + c.wordCost
  | [], _, _, _, hc => absurd hc List.not_mem_nil
  | d :: ds, tbl, hlen, c, hc => by
    rw [List.foldl_cons]
    rcases List.mem_cons.mp hc with rfl | hc
    · obtain ⟨m, hm, hle, _⟩ := minOver_none E.conn c.leftId here hne
      refine ⟨(c.rightId, m + c.wordCost), foldCand_mono E here ds _ ?_, rfl, ?_⟩
      · unfold stepCand
        rw [hm]
        exact mem_modify_self (hlen c List.mem_cons_self)
      · intro q hq
        have := hle q hq
        show m + c.wordCost ≤ _
        omega
    · exact foldCand_records E here hne ds _
        (fun x hx => by rw [stepCand_length]; exact hlen x (List.mem_cons_of_mem _ hx)) c hc

theorem stepBoundary_comp {E : LatEnv} (hr : CandsInRange E) {tbl : List Row} {k : Nat}
    (hlen : tbl.length = E.len + 1) (h : Comp E tbl k) : Comp E (stepBoundary E tbl k) (k + 1) := by
  have hmono := h.mono (fun j p => stepBoundary_mono E tbl k (j := j) (p := p))
  refine ⟨hmono.1, ?_⟩
  intro b' hb' r' c' hre hsw cand hc
  rcases Nat.lt_succ_iff_lt_or_eq.mp hb' with hlt | rfl
  · exact hmono.2 b' hlt r' c' hre hsw cand hc
  · obtain ⟨p0, hp0, hp1, hp2⟩ := h.full hr (Nat.le_refl _) hre
    have hne : tbl.getD b' [] ≠ [] := List.ne_nil_of_mem hp0
    have hemp : (tbl.getD b' []).isEmpty = false := by
      cases hh : tbl.getD b' [] with
      | nil => exact absurd hh hne
      | cons _ _ => rfl
    unfold stepBoundary
    simp only []
    rw [if_neg (by rw [hemp]; exact Bool.false_ne_true), if_neg (by omega)]
    obtain ⟨p, hp, hpr, hple⟩ := foldCand_records E (tbl.getD b' []) hne (E.cands (b' + E.skip b')) tbl
      (fun x hx => by have := (hr _ hsw x hx).2; omega) cand hc
    refine ⟨p, hp, hpr, ?_⟩
    have := hple p0 hp0
    rw [hp1] at this
    omega

theorem tableUpTo_comp {E : LatEnv} (hr : CandsInRange E) : ∀ k, Comp E (tableUpTo E k) k
  | 0 => init_comp E
  | k + 1 => by
    rw [tableUpTo_succ]
    exact stepBoundary_comp hr (tableUpTo_length E k) (tableUpTo_comp hr k)

/-! ## The fold over the final boundaries -/

/-- the last line of `specMin` -/
def finFold (conn : Nat → Nat → Int) (tbl : List Row) (fs : List Nat) (m0 : Option Int) : Option Int :=
  fs.foldl (fun m sn => minOver conn (tbl.getD sn []) 0 m) m0

theorem finFold_some (conn : Nat → Nat → Int) (tbl : List Row) : ∀ (fs : List Nat) (m : Int),
    ∃ m', finFold conn tbl fs (some m) = some m' ∧ m' ≤ m
  | [], m => ⟨m, rfl, Int.le_refl _⟩
  | sn :: fs, m => by
    obtain ⟨m1, h1, h2, _⟩ := minOver_some conn 0 (tbl.getD sn []) m
    obtain ⟨m2, h3, h4⟩ := finFold_some conn tbl fs m1
    refine ⟨m2, ?_, by omega⟩
    simp only [finFold, List.foldl_cons] at h3 ⊢
    rw [h1]; exact h3

/-- if some final boundary has an entry, the fold returns a value below that entry's total -/
theorem finFold_le (conn : Nat → Nat → Int) (tbl : List Row) (sn : Nat) (p : Nat × Int)
    (hp : p ∈ tbl.getD sn []) : ∀ (fs : List Nat) (m0 : Option Int), sn ∈ fs →
    ∃ m', finFold conn tbl fs m0 = some m' ∧ m' ≤ p.2 + conn p.1 0
  | [], _, h => absurd h List.not_mem_nil
  | x :: fs, m0, h => by
    by_cases hx : sn = x
    · subst hx
      obtain ⟨m1, h1, h2⟩ := minOver_le conn 0 (tbl.getD sn []) m0 p hp
      obtain ⟨m2, h3, h4⟩ := finFold_some conn tbl fs m1
      refine ⟨m2, ?_, by omega⟩
      simp only [finFold, List.foldl_cons] at h3 ⊢
      rw [h1]; exact h3
    · rcases List.mem_cons.mp h with h | h
      · exact absurd h hx
      · obtain ⟨m2, h3, h4⟩ := finFold_le conn tbl sn p hp fs (minOver conn (tbl.getD x []) 0 m0) h
        exact ⟨m2, by simp only [finFold, List.foldl_cons] at h3 ⊢; exact h3, h4⟩

/-- a returned value is the start value or the total of an entry at one of the boundaries -/
theorem finFold_attained (conn : Nat → Nat → Int) (tbl : List Row) (m' : Int) :
    ∀ (fs : List Nat) (m0 : Option Int), finFold conn tbl fs m0 = some m' →
      m0 = some m' ∨ ∃ sn ∈ fs, ∃ p ∈ tbl.getD sn [], m' = p.2 + conn p.1 0
  | [], m0, h => Or.inl h
  | x :: fs, m0, h => by
    simp only [finFold, List.foldl_cons] at h
    rcases finFold_attained conn tbl m' fs _ h with h1 | ⟨sn, hsn, p, hp, h1⟩
    · rcases minOver_attained conn 0 _ m0 m' h1 with h2 | ⟨p, hp, h2⟩
      · exact Or.inl h2
      · exact Or.inr ⟨x, List.mem_cons_self, p, hp, h2⟩
    · exact Or.inr ⟨sn, List.mem_cons_of_mem _ hsn, p, hp, h1⟩

theorem specMin_eq_finFold (E : LatEnv) :
    specMin E = finFold E.conn (table E) (finals E) none := rfl

theorem mem_finals (E : LatEnv) (sn : Nat) : sn ∈ finals E ↔ sn ≤ E.len ∧ FinalB E sn := by
  simp only [finals, List.mem_filter, List.mem_range, FinalB, Bool.or_eq_true, beq_iff_eq,
    decide_eq_true_eq]
  omega

end SpecMin
end Vibrato
