/-
`DictM.mapIds` and `DictM.resetUser` (`Model/Dict.lean`): what a successful call returns.
Helper lemmas for C06 (`mapIds_tokenize`, history) and C08 (`reset_last_wins`, `verify_in_range`).
-/
import Vibrato.Proofs.ParseMap
import Vibrato.Proofs.RelabelDict

namespace Vibrato

/-- a mapping table read as a function (ids outside the table go to 0; never used) -/
def tblFn (t : List Nat) : Nat → Nat := fun i => t.getD i 0

/-! ### `mapParam`, `mapLex` -/

theorem mapParam_some {ml mr : List Nat} {p p' : WordParam} (h : mapParam ml mr p = some p') :
    p' = relParam (tblFn ml) (tblFn mr) p ∧ p.leftId < ml.length ∧ p.rightId < mr.length := by
  simp only [mapParam, Option.bind_eq_bind, Option.pure_def] at h
  cases hl : ml[p.leftId]? with
  | none => rw [hl] at h; cases h
  | some l =>
    cases hr : mr[p.rightId]? with
    | none => rw [hl, hr] at h; cases h
    | some r =>
      rw [hl, hr] at h
      simp only [Option.bind_some, Option.some.injEq] at h
      subst h
      have h1 : p.leftId < ml.length := by
        rcases Nat.lt_or_ge p.leftId ml.length with h | h
        · exact h
        · rw [List.getElem?_eq_none h] at hl; cases hl
      have h2 : p.rightId < mr.length := by
        rcases Nat.lt_or_ge p.rightId mr.length with h | h
        · exact h
        · rw [List.getElem?_eq_none h] at hr; cases hr
      refine ⟨?_, h1, h2⟩
      simp [relParam, tblFn, List.getD_eq_getElem?_getD, hl, hr]

theorem mapParam_of_lt {ml mr : List Nat} (p : WordParam) (h1 : p.leftId < ml.length)
    (h2 : p.rightId < mr.length) : mapParam ml mr p = some (relParam (tblFn ml) (tblFn mr) p) := by
  simp [mapParam, relParam, tblFn, List.getD_eq_getElem?_getD, List.getElem?_eq_getElem h1,
    List.getElem?_eq_getElem h2]

theorem mapM_option_some {α β : Type} (f : α → Option β) (g : α → β) (P : α → Prop)
    (hf : ∀ x y, f x = some y → y = g x ∧ P x) :
    ∀ (l : List α) (l' : List β), l.mapM f = some l' → l' = l.map g ∧ ∀ x ∈ l, P x
  | [], l', h => by
    simp only [List.mapM_nil, Option.pure_def, Option.some.injEq] at h
    subst h; simp
  | x :: xs, l', h => by
    simp only [List.mapM_cons, Option.pure_def, Option.bind_eq_bind] at h
    cases h1 : f x with
    | none => rw [h1] at h; cases h
    | some y =>
      cases h2 : xs.mapM f with
      | none => rw [h1, h2] at h; cases h
      | some ys =>
        rw [h1, h2] at h
        simp only [Option.bind_some, Option.some.injEq] at h
        subst h
        obtain ⟨e1, p1⟩ := hf x y h1
        obtain ⟨e2, p2⟩ := mapM_option_some f g P hf xs ys h2
        subst e1 e2
        refine ⟨rfl, ?_⟩
        intro z hz
        simp only [List.mem_cons] at hz
        rcases hz with rfl | hz
        · exact p1
        · exact p2 z hz

theorem mapM_option_of_all {α β : Type} (f : α → Option β) (g : α → β) :
    ∀ (l : List α), (∀ x ∈ l, f x = some (g x)) → l.mapM f = some (l.map g)
  | [], _ => rfl
  | x :: xs, h => by
    simp only [List.mapM_cons, Option.pure_def, Option.bind_eq_bind, h x (by simp),
      mapM_option_of_all f g xs (fun y hy => h y (by simp [hy])), Option.bind_some, List.map_cons]

def IdsLt (nL nR : Nat) (p : WordParam) : Prop := p.leftId < nL ∧ p.rightId < nR

theorem mapLex_eq_some {ml mr : List Nat} {L L' : LexM} (h : mapLex ml mr L = some L') :
    L'.entries = L.entries.map (relEntry (tblFn ml) (tblFn mr)) ∧ L'.features = L.features ∧
      ∀ e ∈ L.entries, IdsLt ml.length mr.length e.param := by
  simp only [mapLex, Option.bind_eq_bind, Option.pure_def] at h
  cases h1 : L.entries.mapM (fun e => (mapParam ml mr e.param).bind fun p => some { e with param := p }) with
  | none => rw [h1] at h; cases h
  | some es =>
    rw [h1] at h
    simp only [Option.bind_some, Option.some.injEq] at h
    subst h
    have := mapM_option_some _ (relEntry (tblFn ml) (tblFn mr))
      (fun e => IdsLt ml.length mr.length e.param) ?_ _ _ h1
    · exact ⟨this.1, rfl, this.2⟩
    · intro e e' he
      cases hp : mapParam ml mr e.param with
      | none => rw [hp] at he; cases he
      | some p =>
        rw [hp] at he
        simp only [Option.bind_some, Option.some.injEq] at he
        subst he
        obtain ⟨rfl, h2, h3⟩ := mapParam_some hp
        exact ⟨rfl, h2, h3⟩

theorem mapLex_of_lt {ml mr : List Nat} (L : LexM)
    (h : ∀ e ∈ L.entries, IdsLt ml.length mr.length e.param) :
    mapLex ml mr L = some { L with entries := L.entries.map (relEntry (tblFn ml) (tblFn mr)) } := by
  simp only [mapLex, Option.bind_eq_bind, Option.pure_def]
  rw [mapM_option_of_all _ (relEntry (tblFn ml) (tblFn mr))]
  · rfl
  · intro e he
    rw [mapParam_of_lt e.param (h e he).1 (h e he).2]
    rfl

theorem paramsInRange_idsLt (ps : List WordParam) (nL nR : Nat) :
    paramsInRange ps nL nR = true ↔ ∀ p ∈ ps, IdsLt nL nR p := by
  simp [paramsInRange, IdsLt]

/-! ### the permuted cost table -/

theorem getD_flatMap_map {α β γ : Type} (f : α → β → γ) (ys : List β) (d : γ) :
    ∀ (xs : List α) (i j : Nat) (hi : i < xs.length) (hj : j < ys.length),
      (xs.flatMap fun x => ys.map (f x)).getD (i * ys.length + j) d = f xs[i] ys[j]
  | [], i, _, hi, _ => by simp at hi
  | x :: xs, 0, j, _, hj => by
    simp only [List.flatMap_cons, Nat.zero_mul, Nat.zero_add, List.getD_eq_getElem?_getD]
    rw [List.getElem?_append_left (by simpa using hj)]
    simp [hj]
  | x :: xs, i + 1, j, hi, hj => by
    simp only [List.flatMap_cons, List.getD_eq_getElem?_getD]
    rw [List.getElem?_append_right (by simp [Nat.add_mul]; omega)]
    have e : (i + 1) * ys.length + j - (ys.map (f x)).length = i * ys.length + j := by
      simp [Nat.add_mul]; omega
    rw [e]
    have := getD_flatMap_map f ys d xs i j (by simpa using hi) hj
    simpa [List.getD_eq_getElem?_getD] using this

/-! ### `mapIds` -/

def relUnk (σL σR : Nat → Nat) (e : UnkEntryM) : UnkEntryM := { e with param := relParam σL σR e.param }

/-- what a successful `mapIds` returns -/
structure MapIdsPost (fx : Fixes) (D : DictM) (ml mr : List Nat) (D' : DictM) : Prop where
  tl : IsTable ml
  tr : IsTable mr
  llen : ml.length = D.numLeft
  rlen : mr.length = D.numRight
  sysE : D'.sys.entries = D.sys.entries.map (relEntry (tblFn ml) (tblFn mr))
  sysF : D'.sys.features = D.sys.features
  sysLt : ∀ e ∈ D.sys.entries, IdsLt D.numLeft D.numRight e.param
  user : ∀ u, D.user = some u → ∃ u', D'.user = some u' ∧
    u'.entries = u.entries.map (relEntry (tblFn ml) (tblFn mr)) ∧ u'.features = u.features ∧
    ∀ e ∈ u.entries, IdsLt D.numLeft D.numRight e.param
  userNone : D.user = none → D'.user = none
  unk : D'.unk = D.unk.map (relUnk (tblFn ml) (tblFn mr))
  unkLt : ∀ e ∈ D.unk, IdsLt D.numLeft D.numRight e.param
  numLeft : D'.numLeft = D.numLeft
  numRight : D'.numRight = D.numRight
  chars : D'.chars = D.chars
  cost : ∀ r l, r < D.numRight → l < D.numLeft → D'.cost (tblFn mr r) (tblFn ml l) = D.cost r l
  mapper : D'.mapper = some (match D.mapper, fx.f3 with
    | some (ol, or), true => (ol.map fun x => ml.getD x 0, or.map fun x => mr.getD x 0)
    | _, _ => (ml, mr))

/-- the tail of `mapIds` after the lexicons have been mapped -/
def mapIdsTail (fx : Fixes) (D : DictM) (ml mr : List Nat) (sys' : LexM) (user' : Option LexM) :
    Outcome DictM :=
  if ml.length ≠ D.numLeft ∨ mr.length ≠ D.numRight then .panic
  else
    match D.unk.mapM (fun e => (mapParam ml mr e.param).map fun p => { e with param := p }) with
    | none => .panic
    | some unk' =>
      let invR := (List.range D.numRight).map fun r' => mr.idxOf r'
      let invL := (List.range D.numLeft).map fun l' => ml.idxOf l'
      let conn' := invR.flatMap fun r => invL.map fun l => D.cost r l
      let stored := match D.mapper, fx.f3 with
        | some (ol, or), true =>
          (ol.map fun x => ml.getD x 0, or.map fun x => mr.getD x 0)
        | _, _ => (ml, mr)
      .ok { D with sys := sys', user := user', conn := conn', unk := unk',
                   mapper := some stored }

theorem mapIdsTail_ok {fx : Fixes} {D D' : DictM} {ml mr : List Nat} {sys' : LexM}
    {user' : Option LexM} (tl : IsTable ml) (tr : IsTable mr)
    (h : mapIdsTail fx D ml mr sys' user' = .ok D') :
    ml.length = D.numLeft ∧ mr.length = D.numRight ∧ D'.sys = sys' ∧ D'.user = user' ∧
    D'.unk = D.unk.map (relUnk (tblFn ml) (tblFn mr)) ∧
    (∀ e ∈ D.unk, IdsLt D.numLeft D.numRight e.param) ∧
    D'.numLeft = D.numLeft ∧ D'.numRight = D.numRight ∧ D'.chars = D.chars ∧
    (∀ r l, r < D.numRight → l < D.numLeft → D'.cost (tblFn mr r) (tblFn ml l) = D.cost r l) ∧
    D'.mapper = some (match D.mapper, fx.f3 with
      | some (ol, or), true => (ol.map fun x => ml.getD x 0, or.map fun x => mr.getD x 0)
      | _, _ => (ml, mr)) := by
  unfold mapIdsTail at h
  by_cases hlen : ml.length ≠ D.numLeft ∨ mr.length ≠ D.numRight
  · rw [if_pos hlen] at h; cases h
  · rw [if_neg hlen] at h
    have hl : ml.length = D.numLeft := by
      apply Classical.byContradiction; intro hc; exact hlen (Or.inl hc)
    have hr : mr.length = D.numRight := by
      apply Classical.byContradiction; intro hc; exact hlen (Or.inr hc)
    cases hunk : D.unk.mapM (fun e => (mapParam ml mr e.param).map fun p => { e with param := p }) with
    | none => rw [hunk] at h; cases h
    | some unk' =>
      rw [hunk] at h
      simp only [Outcome.ok.injEq] at h
      subst h
      have hu := mapM_option_some _ (relUnk (tblFn ml) (tblFn mr))
        (fun e => IdsLt ml.length mr.length e.param) (by
          intro e e' he
          cases hp : mapParam ml mr e.param with
          | none => rw [hp] at he; cases he
          | some p =>
            rw [hp] at he
            simp only [Option.map_some, Option.some.injEq] at he
            subst he
            obtain ⟨rfl, h2, h3⟩ := mapParam_some hp
            exact ⟨rfl, h2, h3⟩) _ _ hunk
      refine ⟨hl, hr, rfl, rfl, hu.1, by rw [← hl, ← hr]; exact hu.2, rfl, rfl, rfl, ?_, rfl⟩
      intro r l hr' hl'
      show List.getD _ (tblFn mr r * D.numLeft + tblFn ml l) 0 = D.cost r l
      have hr2 : tblFn mr r < D.numRight := by
        rw [← hr]; exact tr.getD_lt r (by omega)
      have hl2 : tblFn ml l < D.numLeft := by
        rw [← hl]; exact tl.getD_lt l (by omega)
      have := getD_flatMap_map (fun r l => D.cost r l)
        ((List.range D.numLeft).map fun l' => ml.idxOf l') (0 : Int)
        ((List.range D.numRight).map fun r' => mr.idxOf r') (tblFn mr r) (tblFn ml l)
        (by simpa using hr2) (by simpa using hl2)
      simp only [List.length_map, List.length_range] at this
      rw [this]
      simp only [List.getElem_map, List.getElem_range]
      rw [show mr.idxOf (tblFn mr r) = r from tr.idxOf_getD r (by omega),
        show ml.idxOf (tblFn ml l) = l from tl.idxOf_getD l (by omega)]

theorem mapIds_ok {fx : Fixes} {D D' : DictM} {lmap rmap : List Nat}
    (h : D.mapIds fx lmap rmap = .ok D') :
    ∃ ml mr, parseMap lmap = some ml ∧ parseMap rmap = some mr ∧ MapIdsPost fx D ml mr D' := by
  unfold DictM.mapIds at h
  cases hml : parseMap lmap with
  | none => rw [hml] at h; cases h
  | some ml =>
    cases hmr : parseMap rmap with
    | none => rw [hml, hmr] at h; cases h
    | some mr =>
      rw [hml, hmr] at h
      dsimp only at h
      refine ⟨ml, mr, rfl, rfl, ?_⟩
      obtain ⟨tl, _⟩ := parseMap_table _ _ hml
      obtain ⟨tr, _⟩ := parseMap_table _ _ hmr
      by_cases hc : fx.f2 = true ∧ (ml.length ≠ D.numLeft ∨ mr.length ≠ D.numRight)
      · rw [if_pos hc] at h; cases h
      · rw [if_neg hc] at h
        cases hsys : mapLex ml mr D.sys with
        | none => rw [hsys] at h; cases h
        | some sys' =>
          rw [hsys] at h
          dsimp only at h
          obtain ⟨s1, s2, s3⟩ := mapLex_eq_some hsys
          cases hu : D.user with
          | none =>
            rw [hu] at h
            have h' : mapIdsTail fx D ml mr sys' none = .ok D' := h
            obtain ⟨hl, hr, e1, e2, e3, e4, e5, e6, e7, e8, e9⟩ := mapIdsTail_ok tl tr h'
            exact ⟨tl, tr, hl, hr, by rw [e1]; exact s1, by rw [e1]; exact s2,
              by rw [← hl, ← hr]; exact s3, fun u hu' => (by rw [hu] at hu'; cases hu'), fun _ => e2, e3, e4, e5, e6, e7,
              e8, e9⟩
          | some u =>
            rw [hu] at h
            dsimp only at h
            cases hm : mapLex ml mr u with
            | none => rw [hm] at h; cases h
            | some u' =>
              rw [hm] at h
              have h' : mapIdsTail fx D ml mr sys' (some u') = .ok D' := h
              obtain ⟨hl, hr, e1, e2, e3, e4, e5, e6, e7, e8, e9⟩ := mapIdsTail_ok tl tr h'
              obtain ⟨u1, u2, u3⟩ := mapLex_eq_some hm
              exact ⟨tl, tr, hl, hr, by rw [e1]; exact s1, by rw [e1]; exact s2,
                by rw [← hl, ← hr]; exact s3,
                fun u0 hu' => by
                  rw [hu] at hu'; cases hu'
                  exact ⟨u', e2, u1, u2, by rw [← hl, ← hr]; exact u3⟩,
                fun hn => (by rw [hu] at hn; cases hn), e3, e4, e5, e6, e7, e8, e9⟩

/-! ### `unkOf` -/

theorem unkOf_rel (σL σR : Nat → Nat) (D D' : DictM) (h : D'.unk = D.unk.map (relUnk σL σR))
    (b : Nat) : D'.unkOf b = (D.unkOf b).map fun p => (p.1, relParam σL σR p.2) := by
  unfold DictM.unkOf
  rw [h, List.zipIdx_map, List.filter_map, List.map_map, List.map_map]
  rfl

theorem unkOf_mem (D : DictM) (b : Nat) (p : Nat × WordParam) (hp : p ∈ D.unkOf b) :
    ∃ e ∈ D.unk, e.param = p.2 := by
  unfold DictM.unkOf at hp
  simp only [List.mem_map, List.mem_filter] at hp
  obtain ⟨⟨e, i⟩, ⟨hmem, _⟩, rfl⟩ := hp
  have := List.mem_zipIdx hmem
  exact ⟨e, by
    have h2 := this.2.2
    simp only [Nat.sub_zero] at h2
    rw [h2]; exact List.getElem_mem _, rfl⟩

/-! ### ids in range -/

/-- every parameter triple of the dictionary names ids inside the connector
(`Lexicon::verify` / `UnkHandler::verify` at build time). -/
structure DictM.IdsOK (D : DictM) : Prop where
  sys : ∀ e ∈ D.sys.entries, IdsLt D.numLeft D.numRight e.param
  user : ∀ u, D.user = some u → ∀ e ∈ u.entries, IdsLt D.numLeft D.numRight e.param
  unk : ∀ e ∈ D.unk, IdsLt D.numLeft D.numRight e.param

end Vibrato
