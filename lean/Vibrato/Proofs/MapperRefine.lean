/-
Refinement between the two models of connection-id mapping.

* concrete: `DictM` of `Model/Dict.lean` (`DictM.mapIds`, `DictM.resetUser`, `Vibrato.parseMap`,
  stored `mapper`) -- the model the differential driver compares with the Rust code;
* abstract: `Vibrato.Mapper.Dict` of `Model/Mapper.lean` (`Dict.mapIds`, `Dict.loadUser`,
  `Dict.loadUserChecked`, `Dict.clearUser`, `Mapper.parseMap`) -- the model the theorems of
  `Props/C06map.lean` / `Props/C13probs.lean` are about.

`absDict : DictM → Mapper.Dict` is the abstraction function (the driver's `toMapperDict`); the
theorems `mapIds_refines`, `resetUser_refines`, `step_refines`, `run_refines` are the commuting
squares: the concrete step followed by `absDict` is the abstract step after `absDict`, including
the kind of failure (`err` / `panic`).

Hypotheses: `fx.f2 = fx.f3` (the abstract model has ONE flag `fixed` for both repairs) and
`D.MapperOK` (the stored mapper has the connector's sizes and maps into the id ranges; part of
`DictWF`, preserved by every operation for every `fx`).
-/
import Vibrato.Proofs.Mapper
import Vibrato.Proofs.DictRun

namespace Vibrato.Refine

open Vibrato

/-! ## 1. The two `ConnIdMapper::parse` models agree -/

/-- reading of the concrete loop state (`none` = not yet assigned) as the abstract one
(`u16::MAX` = not yet assigned) -/
def dflt (a : Option Nat) : Nat := a.getD Mapper.u16max

theorem dflt_some (v : Nat) : dflt (some v) = v := rfl
theorem dflt_none : dflt none = Mapper.u16max := rfl

/-- Step-by-step simulation of the assignment loops: `pmStep` (concrete, `Option` cells, item
index `s`) against `assignIds` (abstract, sentinel cells, `new_id = s + 1`). -/
theorem assign_sim (n : Nat) : ∀ (os : List Nat) (s : Nat) (a : List (Option Nat)),
    a.length = n → (∀ (j v : Nat), a[j]? = some (some v) → v ≤ s) →
    (∀ a', (os.zipIdx s).foldl (pmStep n) (some a) = some a' →
      Mapper.assignIds (a.map dflt) (s + 1) os = .ok (a'.map dflt) ∧ a'.length = n ∧
      (∀ o ∈ os, ∃ v, a'[o]? = some (some v)) ∧
      (∀ (j v : Nat), a[j]? = some (some v) → a'[j]? = some (some v))) ∧
    ((os.zipIdx s).foldl (pmStep n) (some a) = none →
      Mapper.assignIds (a.map dflt) (s + 1) os = .err)
  | [], s, a, hn, _ => by
    refine ⟨?_, ?_⟩
    · intro a' h
      simp only [List.zipIdx_nil, List.foldl_nil, Option.some.injEq] at h
      subst h
      exact ⟨rfl, hn, by simp, fun _ _ h => h⟩
    · intro h; simp at h
  | o :: os, s, a, hn, hb => by
    simp only [List.zipIdx_cons, List.foldl_cons]
    have hstep : pmStep n (some a) (o, s) =
        if o ≥ n then none
        else match a.getD o none with
          | some _ => none
          | none => if s + 1 > 65535 then none else some (a.set o (some (s + 1))) := rfl
    by_cases hon : o ≥ n
    · -- out of range on both sides
      have h1 : pmStep n (some a) (o, s) = none := by rw [hstep, if_pos hon]
      have h2 : (a.map dflt)[o]? = none := by
        rw [List.getElem?_eq_none]; simp; omega
      rw [h1, foldl_pmStep_none]
      refine ⟨fun a' h => (by cases h), fun _ => ?_⟩
      simp only [Mapper.assignIds, h2]
    · have holt : o < a.length := by omega
      have hget : a[o]? = some a[o] := List.getElem?_eq_getElem holt
      have hgetD : a.getD o none = a[o] := by
        rw [List.getD_eq_getElem?_getD, hget]; rfl
      have h2 : (a.map dflt)[o]? = some (dflt a[o]) := by
        rw [List.getElem?_map, hget]; rfl
      cases hao : a[o] with
      | some v =>
        -- already assigned: duplicate
        have h1 : pmStep n (some a) (o, s) = none := by
          rw [hstep, if_neg hon, hgetD, hao]
        rw [h1, foldl_pmStep_none]
        refine ⟨fun a' h => (by cases h), fun _ => ?_⟩
        have hv : v ≤ s := hb o v (by rw [hget, hao])
        simp only [Mapper.assignIds, h2, hao, dflt_some]
        by_cases hvm : v = Mapper.u16max
        · have : s + 1 > Mapper.u16max := by omega
          simp [hvm, this]
        · simp [hvm]
      | none =>
        by_cases hov : s + 1 > 65535
        · have h1 : pmStep n (some a) (o, s) = none := by
            rw [hstep, if_neg hon, hgetD, hao]; simp only [if_pos hov]
          rw [h1, foldl_pmStep_none]
          refine ⟨fun a' h => (by cases h), fun _ => ?_⟩
          have : s + 1 > Mapper.u16max := hov
          simp [Mapper.assignIds, h2, hao, dflt_none, this]
        · have h1 : pmStep n (some a) (o, s) = some (a.set o (some (s + 1))) := by
            rw [hstep, if_neg hon, hgetD, hao]; simp only [if_neg hov]
          have hov' : ¬ (s + 1 > Mapper.u16max) := hov
          have hA : Mapper.assignIds (a.map dflt) (s + 1) (o :: os) =
              Mapper.assignIds ((a.set o (some (s + 1))).map dflt) (s + 1 + 1) os := by
            simp only [Mapper.assignIds, h2, hao, dflt_none, ne_eq, not_true_eq_false, if_false,
              hov']
            rw [List.map_set]; rfl
          rw [h1, hA]
          have hb1 : ∀ (j v : Nat), (a.set o (some (s + 1)))[j]? = some (some v) → v ≤ s + 1 := by
            intro j v hj
            by_cases hjo : o = j
            · subst hjo
              rw [List.getElem?_set_self holt] at hj
              simp only [Option.some.injEq] at hj; omega
            · rw [List.getElem?_set_ne hjo] at hj
              have := hb j v hj; omega
          obtain ⟨ih1, ih2⟩ := assign_sim n os (s + 1) (a.set o (some (s + 1)))
            (by simp [hn]) hb1
          refine ⟨?_, ih2⟩
          intro a' h
          obtain ⟨e1, e2, e3, e4⟩ := ih1 a' h
          refine ⟨e1, e2, ?_, ?_⟩
          · intro o' ho'
            simp only [List.mem_cons] at ho'
            rcases ho' with rfl | ho'
            · exact ⟨s + 1, e4 o' (s + 1) (by simp [holt])⟩
            · exact e3 o' ho'
          · intro j v hj
            apply e4
            have hjo : o ≠ j := by
              intro e; subst e; rw [hget, hao] at hj; cases hj
            rw [List.getElem?_set_ne hjo]; exact hj

theorem mapM_id_map_some (σ : List Nat) : (σ.map some).mapM id = some σ := by
  induction σ with
  | nil => rfl
  | cons x xs ih => simp [List.mapM_cons, ih]

/-- all cells assigned: `mapM id` succeeds and reads the cells -/
theorem mapM_id_of_all_some : ∀ (a : List (Option Nat)),
    (∀ j, j < a.length → ∃ v, a[j]? = some (some v)) → a.mapM id = some (a.map dflt)
  | [], _ => rfl
  | x :: xs, h => by
    obtain ⟨v, hv⟩ := h 0 (by simp)
    simp only [List.getElem?_cons_zero, Option.some.injEq] at hv
    subst hv
    have ih := mapM_id_of_all_some xs (fun j hj => by
      have := h (j + 1) (by simp; omega)
      simpa using this)
    simp [List.mapM_cons, ih, dflt]

/-- **The two models of `ConnIdMapper::parse` agree**: the concrete `Vibrato.parseMap`
(`Model/Dict.lean`, `Option`) returns `some σ` exactly when the abstract `Mapper.parseMap`
(`Model/Mapper.lean`, three outcomes) returns `ok σ`, and `none` exactly when it returns `err`
(neither panics). -/
theorem parseMap_refines (m : List Nat) :
    Mapper.parseMap m = (match Vibrato.parseMap m with | some σ => .ok σ | none => .err) := by
  rw [parseMap_unfold]
  unfold Mapper.parseMap
  rw [Mapper.pushIds_eq]
  by_cases h0 : 0 ∈ m
  · have : m.any (· == 0) = true := by
      simp only [List.any_eq_true, beq_iff_eq]; exact ⟨0, h0, rfl⟩
    simp [h0, this]
  · have : m.any (· == 0) = false := by
      rw [Bool.eq_false_iff]
      intro h
      simp only [List.any_eq_true, beq_iff_eq] at h
      obtain ⟨x, hx, rfl⟩ := h
      exact h0 hx
    simp only [h0, this, if_false, Mapper.andThen_ok, Bool.false_eq_true]
    have hinit : ((List.replicate ([0] ++ m).length Mapper.u16max).set 0 0) =
        (some 0 :: List.replicate m.length none).map dflt := by
      simp [List.replicate_succ, dflt]
    have hdrop : ([0] ++ m).drop 1 = m := rfl
    rw [hinit, hdrop]
    have hb0 : ∀ (j v : Nat), (some 0 :: List.replicate m.length (none : Option Nat))[j]? = some (some v) →
        v ≤ 0 := by
      intro j v hj
      cases j with
      | zero => simp at hj; omega
      | succ j =>
        simp only [List.getElem?_cons_succ, List.getElem?_replicate] at hj
        split at hj <;> cases hj
    obtain ⟨s1, s2⟩ := assign_sim (m.length + 1) m 0 (some 0 :: List.replicate m.length none)
      (by simp) hb0
    cases hf : (m.zipIdx 0).foldl (pmStep (m.length + 1))
        (some (some 0 :: List.replicate m.length none)) with
    | none =>
      have := s2 hf
      simp only [Nat.zero_add] at this
      rw [this]; rfl
    | some a' =>
      obtain ⟨e1, e2, e3, e4⟩ := s1 a' hf
      simp only [Nat.zero_add] at e1
      rw [e1]
      simp only [Option.bind_some]
      -- every cell is assigned: `m` is a permutation of `1..|m|`
      have hok : Mapper.parseMap m = .ok (a'.map dflt) := by
        unfold Mapper.parseMap
        rw [Mapper.pushIds_eq]
        simp only [h0, if_false, Mapper.andThen_ok]
        rw [hinit, hdrop]; exact e1
      obtain ⟨hperm, _, _⟩ := (Mapper.parseMap_ok_iff m _).1 hok
      have hall : ∀ j, j < a'.length → ∃ v, a'[j]? = some (some v) := by
        intro j hj
        cases j with
        | zero => exact ⟨0, e4 0 0 (by simp)⟩
        | succ j =>
          apply e3
          rw [List.Perm.mem_iff hperm, List.mem_range'_1]
          omega
      rw [mapM_id_of_all_some a' hall]

theorem parseMap_some {m σ : List Nat} (h : Vibrato.parseMap m = some σ) :
    Mapper.parseMap m = .ok σ := by
  rw [parseMap_refines, h]

theorem parseMap_none {m : List Nat} (h : Vibrato.parseMap m = none) :
    Mapper.parseMap m = .err := by
  rw [parseMap_refines, h]

theorem parseMap_len {m σ : List Nat} (h : Vibrato.parseMap m = some σ) : σ.length ≤ 65536 := by
  obtain ⟨_, h2, h3⟩ := (Mapper.parseMap_ok_iff m σ).1 (parseMap_some h)
  have := h3.1
  omega

theorem IsTable.permTable {σ : List Nat} (h : IsTable σ) : Mapper.PermTable σ := ⟨h.nodup, h.lt⟩

/-- `ConnIdMapper::from_iter` in the two models. -/
theorem fromIter_refines (l r : List Nat) :
    Mapper.Mapper.fromIter l r =
      (match Vibrato.parseMap l, Vibrato.parseMap r with
        | some ml, some mr => .ok ⟨ml, mr⟩
        | _, _ => .err) := by
  unfold Mapper.Mapper.fromIter
  rw [parseMap_refines l, parseMap_refines r]
  cases Vibrato.parseMap l <;> cases Vibrato.parseMap r <;> rfl

/-! ## 2. The abstraction function -/

def absParam (p : WordParam) : Mapper.Param := ⟨p.leftId, p.rightId, p.wordCost⟩

def absEntries (es : List LexEntry) : List Mapper.Param := es.map fun e => absParam e.param

def absUnk (es : List UnkEntryM) : List Mapper.Param := es.map fun e => absParam e.param

/-- a cost function on `nR × nL` as a `MatrixConnector` (cell `(r, l)` at `l * nR + r`) -/
def absMatrix (nR nL : Nat) (cost : Nat → Nat → Int) : Mapper.Matrix :=
  { data := (List.range nL).flatMap fun l => (List.range nR).map fun r => cost r l
    numRight := nR, numLeft := nL }

def absMapper (m : List Nat × List Nat) : Mapper.Mapper := ⟨m.1, m.2⟩

/-- **The abstraction function** from the concrete dictionary model to the state of the abstract
mapper model: parameter triples of the system / user / unknown entries, the connection table as
a matrix connector, the stored mapper.  (Surfaces, features, the character table and the
category of unknown entries are forgotten: no mapping operation reads or changes them.) -/
def absDict (D : DictM) : Mapper.Dict :=
  { sysParams := absEntries D.sys.entries
    userParams := D.user.map fun u => absEntries u.entries
    conn := .matrix (absMatrix D.numRight D.numLeft D.cost)
    unkParams := absUnk D.unk
    stored := D.mapper.map absMapper }

/-- outcomes: same kind, related states -/
def absOut : Outcome DictM → Mapper.Outcome Mapper.Dict
  | .ok D => .ok (absDict D)
  | .err => .err
  | .panic => .panic

theorem absDict_numLeft (D : DictM) : (absDict D).conn.numLeft = D.numLeft := rfl
theorem absDict_numRight (D : DictM) : (absDict D).conn.numRight = D.numRight := rfl

/-! ## 3. Parameters -/

/-- `WordParams::map_connection_ids` in the two models, for any container of parameters
(lexicon entries, unknown entries): the abstract loop returns `ok` of the abstraction of what
the concrete `mapM` returns, and panics exactly when that is `none`. -/
theorem mapParams_mapM {α : Type} (get : α → WordParam) (f : α → Option α) (ml mr : List Nat)
    (hnone : ∀ e, mapParam ml mr (get e) = none → f e = none)
    (hsome : ∀ e p, mapParam ml mr (get e) = some p → ∃ e', f e = some e' ∧ get e' = p) :
    ∀ xs : List α, Mapper.mapParams ⟨ml, mr⟩ (xs.map fun e => absParam (get e)) =
      (match xs.mapM f with
        | some ys => .ok (ys.map fun e => absParam (get e))
        | none => .panic)
  | [] => rfl
  | x :: xs => by
    have ih := mapParams_mapM get f ml mr hnone hsome xs
    simp only [List.map_cons, Mapper.mapParams, List.mapM_cons, Mapper.Mapper.leftAt,
      Mapper.Mapper.rightAt]
    have e1 : (absParam (get x)).left = (get x).leftId := rfl
    have e2 : (absParam (get x)).right = (get x).rightId := rfl
    rw [e1, e2]
    cases hL : ml[(get x).leftId]? with
    | none =>
      have : mapParam ml mr (get x) = none := by simp [mapParam, hL]
      rw [hnone x this]
      rfl
    | some a =>
      cases hR : mr[(get x).rightId]? with
      | none =>
        have : mapParam ml mr (get x) = none := by simp [mapParam, hL, hR]
        rw [hnone x this]
        rfl
      | some b =>
        have : mapParam ml mr (get x) = some { get x with leftId := a, rightId := b } := by
          simp [mapParam, hL, hR]
        obtain ⟨e', he', hg⟩ := hsome x _ this
        rw [he', ih]
        simp only [Mapper.andThen_ok, Option.bind_eq_bind, Option.bind_some]
        cases xs.mapM f with
        | none => rfl
        | some ys =>
          simp only [Mapper.andThen_ok, Option.bind_some, Option.pure_def, List.map_cons, hg]
          rfl

theorem mapLex_refines (ml mr : List Nat) (L : LexM) :
    Mapper.mapParams ⟨ml, mr⟩ (absEntries L.entries) =
      (match mapLex ml mr L with
        | some L' => .ok (absEntries L'.entries)
        | none => .panic) := by
  have := mapParams_mapM (fun e : LexEntry => e.param)
    (fun e => (mapParam ml mr e.param).bind fun p => some { e with param := p }) ml mr
    (fun e h => by simp [h]) (fun e p h => ⟨{ e with param := p }, by simp [h], rfl⟩) L.entries
  unfold absEntries
  rw [this]
  simp only [mapLex, Option.bind_eq_bind, Option.pure_def]
  cases L.entries.mapM (fun e : LexEntry =>
    (mapParam ml mr e.param).bind fun p => some { e with param := p }) <;> rfl

theorem mapUnk_refines (ml mr : List Nat) (U : List UnkEntryM) :
    Mapper.mapParams ⟨ml, mr⟩ (absUnk U) =
      (match U.mapM (fun e => (mapParam ml mr e.param).map fun p => { e with param := p }) with
        | some U' => .ok (absUnk U')
        | none => .panic) := by
  have := mapParams_mapM (fun e : UnkEntryM => e.param)
    (fun e => (mapParam ml mr e.param).map fun p => { e with param := p }) ml mr
    (fun e h => by simp [h]) (fun e p h => ⟨{ e with param := p }, by simp [h], rfl⟩) U
  unfold absUnk
  rw [this]
  cases U.mapM (fun e : UnkEntryM =>
    (mapParam ml mr e.param).map fun p => { e with param := p }) <;> rfl

/-- `Lexicon::verify` in the two models. -/
theorem verifyParams_refines (nL nR : Nat) : ∀ ps : List WordParam,
    Mapper.verifyParams nL nR (ps.map absParam) = paramsInRange ps nL nR
  | [] => rfl
  | p :: ps => by
    have ih := verifyParams_refines nL nR ps
    simp only [paramsInRange] at ih ⊢
    simp only [List.map_cons, Mapper.verifyParams, List.all_cons, ih]
    have e1 : (absParam p).left = p.leftId := rfl
    have e2 : (absParam p).right = p.rightId := rfl
    rw [e1, e2]
    by_cases h1 : nL ≤ p.leftId
    · have : ¬ p.leftId < nL := by omega
      simp [h1, this]
    · by_cases h2 : nR ≤ p.rightId
      · have : ¬ p.rightId < nR := by omega
        simp [h1, h2, this]
      · have a : p.leftId < nL := by omega
        have b : p.rightId < nR := by omega
        simp [h1, h2, a, b]

theorem verify_entries (nL nR : Nat) (u : LexM) :
    Mapper.verifyParams nL nR (absEntries u.entries) =
      paramsInRange (u.entries.map (·.param)) nL nR := by
  rw [← verifyParams_refines]
  simp [absEntries, List.map_map, Function.comp_def]

/-! ## 4. The connector -/

theorem length_flatMap_range (nL nR : Nat) (g : Nat → Nat → Int) :
    ((List.range nL).flatMap fun l => (List.range nR).map (g l)).length = nR * nL := by
  induction nL with
  | zero => simp
  | succ n ih =>
    rw [List.range_succ, List.flatMap_append, List.length_append, ih]
    simp [Nat.mul_succ]

theorem absMatrix_wf (nR nL : Nat) (c : Nat → Nat → Int) : (absMatrix nR nL c).WF :=
  length_flatMap_range nL nR fun l r => c r l

theorem absMatrix_get (nR nL : Nat) (c : Nat → Nat → Int) {r l : Nat} (hr : r < nR) (hl : l < nL) :
    (absMatrix nR nL c).data[l * nR + r]? = some (c r l) := by
  have hlen : l * nR + r < (absMatrix nR nL c).data.length := by
    rw [absMatrix_wf]; exact Mapper.idx_lt hr hl
  have := getD_flatMap_map (fun l r => c r l) (List.range nR) (0 : Int) (List.range nL) l r
    (by simpa using hl) (by simpa using hr)
  simp only [List.length_range, List.getElem_range] at this
  rw [List.getD_eq_getElem?_getD] at this
  have hd : (absMatrix nR nL c).data =
      (List.range nL).flatMap fun x => (List.range nR).map fun r => c r x := rfl
  rw [← hd, List.getElem?_eq_getElem hlen] at this
  rw [List.getElem?_eq_getElem hlen]
  simp only [Option.getD_some] at this
  exact congrArg some this

theorem absMatrix_cost (nR nL : Nat) (c : Nat → Nat → Int) {r l : Nat} (hr : r < nR) (hl : l < nL) :
    (absMatrix nR nL c).cost r l = .ok (c r l) := by
  rw [Mapper.Matrix.cost_eq _ (absMatrix_wf nR nL c) hr hl]
  show (match (absMatrix nR nL c).data[l * nR + r]? with
    | some v => Mapper.Outcome.ok v | none => .panic) = _
  rw [absMatrix_get nR nL c hr hl]

/-- a well-formed matrix connector is determined by its costs -/
theorem matrix_eq_absMatrix (C' : Mapper.Matrix) (hwf : C'.WF) (nR nL : Nat) (c' : Nat → Nat → Int)
    (h1 : C'.numRight = nR) (h2 : C'.numLeft = nL)
    (hc : ∀ r l, r < nR → l < nL → C'.cost r l = .ok (c' r l)) : C' = absMatrix nR nL c' := by
  obtain ⟨data, nR', nL'⟩ := C'
  simp only at h1 h2
  subst h1 h2
  have hlen : data.length = nR' * nL' := hwf
  suffices data = (absMatrix nR' nL' c').data by
    simp only [absMatrix] at this ⊢
    rw [this]
  apply List.ext_getElem?
  intro i
  by_cases hi : i < nR' * nL'
  · have hpos : 0 < nR' := by
      rcases Nat.eq_zero_or_pos nR' with h | h
      · subst h; simp at hi
      · exact h
    have hr : i % nR' < nR' := Nat.mod_lt _ hpos
    have hl : i / nR' < nL' := Nat.div_lt_of_lt_mul hi
    have hidx : i / nR' * nR' + i % nR' = i := Nat.div_add_mod' i nR'
    have h := hc _ _ hr hl
    rw [Mapper.Matrix.cost_eq _ hwf hr hl] at h
    simp only [hidx] at h
    have h' := absMatrix_get nR' nL' c' hr hl
    rw [hidx] at h'
    rw [h']
    cases hd : data[i]? with
    | none => rw [hd] at h; cases h
    | some v => rw [hd] at h; simp only [Mapper.Outcome.ok.injEq] at h; rw [h]
  · rw [List.getElem?_eq_none (by omega), List.getElem?_eq_none (by rw [absMatrix_wf]; show nR' * nL' ≤ i; omega)]

/-- **`MatrixConnector::map_connection_ids` in the two models**: the abstract double loop of
forward writes `mapped[index(σR r, σL l)] = data[index(r, l)]` yields the connector of any cost
function `c'` with `c' (σR r) (σL l) = c r l` -- in particular the table that `DictM.mapIds`
computes with the inverse tables (`idxOf`). -/
theorem matrix_map_refines (nR nL : Nat) (c c' : Nat → Nat → Int) (m : Mapper.Mapper)
    (hl : m.left.length = nL) (hr : m.right.length = nR)
    (hpl : Mapper.PermTable m.left) (hpr : Mapper.PermTable m.right)
    (h16l : nL ≤ 65536) (h16r : nR ≤ 65536)
    (hc : ∀ r l, r < nR → l < nL → c' (tblFn m.right r) (tblFn m.left l) = c r l) :
    (absMatrix nR nL c).map m = .ok (absMatrix nR nL c') := by
  obtain ⟨C', hmap, e1, e2, hwf', hcost⟩ :=
    Mapper.Matrix.map_spec (absMatrix nR nL c) m (absMatrix_wf nR nL c) hl hr hpl hpr h16l h16r
  rw [hmap]
  congr 1
  apply matrix_eq_absMatrix C' hwf' nR nL c' e1 e2
  intro r' l' hr' hl'
  obtain ⟨r, hrr⟩ := hpr.surj (j := r') (by rw [hr]; exact hr')
  obtain ⟨l, hll⟩ := hpl.surj (j := l') (by rw [hl]; exact hl')
  have hr0 : r < nR := by
    rw [← hr]; exact (List.getElem?_eq_some_iff.1 hrr).1
  have hl0 : l < nL := by
    rw [← hl]; exact (List.getElem?_eq_some_iff.1 hll).1
  rw [hcost r l r' l' hrr hll, absMatrix_cost nR nL c hr0 hl0]
  have := hc r l hr0 hl0
  simp only [tblFn, List.getD_eq_getElem?_getD, hrr, hll, Option.getD_some] at this
  rw [this]

/-- the connection table computed by `DictM.mapIds` -/
def permConn (D : DictM) (ml mr : List Nat) : List Int :=
  ((List.range D.numRight).map fun r' => mr.idxOf r').flatMap fun r =>
    ((List.range D.numLeft).map fun l' => ml.idxOf l').map fun l => D.cost r l

theorem permConn_cost {D : DictM} {ml mr : List Nat} (tl : IsTable ml) (tr : IsTable mr)
    (hl : ml.length = D.numLeft) (hr : mr.length = D.numRight) (r l : Nat)
    (hr' : r < D.numRight) (hl' : l < D.numLeft) :
    (permConn D ml mr).getD (tblFn mr r * D.numLeft + tblFn ml l) 0 = D.cost r l := by
  have hr2 : tblFn mr r < D.numRight := by
    rw [← hr]; exact tr.getD_lt r (by omega)
  have hl2 : tblFn ml l < D.numLeft := by
    rw [← hl]; exact tl.getD_lt l (by omega)
  have := getD_flatMap_map (fun r l => D.cost r l)
    ((List.range D.numLeft).map fun l' => ml.idxOf l') (0 : Int)
    ((List.range D.numRight).map fun r' => mr.idxOf r') (tblFn mr r) (tblFn ml l)
    (by simpa using hr2) (by simpa using hl2)
  simp only [List.length_map, List.length_range] at this
  unfold permConn
  rw [this]
  simp only [List.getElem_map, List.getElem_range]
  rw [show mr.idxOf (tblFn mr r) = r from tr.idxOf_getD r (by omega),
    show ml.idxOf (tblFn ml l) = l from tl.idxOf_getD l (by omega)]

/-! ## 5. The stored mapper -/

theorem composeTable_refines (f s : List Nat) (h : ∀ x ∈ f, x < s.length) :
    Mapper.composeTable f s = .ok (f.map fun x => s.getD x 0) := by
  induction f with
  | nil => rfl
  | cons x xs ih =>
    have hx : x < s.length := h x List.mem_cons_self
    simp only [Mapper.composeTable, List.getElem?_eq_getElem hx,
      ih (fun y hy => h y (List.mem_cons_of_mem _ hy)), Mapper.andThen_ok, List.map_cons,
      List.getD_eq_getElem?_getD, Option.getD_some]

/-- the mapper stored by `DictM.mapIds` -/
def storedOf (f3 : Bool) (old : Option (List Nat × List Nat)) (ml mr : List Nat) :
    List Nat × List Nat :=
  match old, f3 with
  | some (ol, or), true => (ol.map fun x => ml.getD x 0, or.map fun x => mr.getD x 0)
  | _, _ => (ml, mr)

theorem storeMapper_refines (f3 : Bool) (old : Option (List Nat × List Nat)) (ml mr : List Nat)
    (hok : f3 = true → ∀ ol or, old = some (ol, or) →
      (∀ x ∈ ol, x < ml.length) ∧ (∀ x ∈ or, x < mr.length)) :
    Mapper.storeMapper f3 (old.map absMapper) ⟨ml, mr⟩ = .ok (absMapper (storedOf f3 old ml mr)) := by
  cases f3 with
  | false => cases old <;> rfl
  | true =>
    cases old with
    | none => rfl
    | some m =>
      obtain ⟨ol, or⟩ := m
      obtain ⟨h1, h2⟩ := hok rfl ol or rfl
      simp only [Option.map_some, absMapper, Mapper.storeMapper, Mapper.Mapper.compose, storedOf,
        composeTable_refines ol ml h1, composeTable_refines or mr h2, Mapper.andThen_ok]

/-! ## 6. `map_connection_ids_from_iter` -/

/-- `DictM.mapIds` after the mapper has been parsed and its length accepted -/
def cTail (fx : Fixes) (D : DictM) (ml mr : List Nat) : Outcome DictM :=
  match mapLex ml mr D.sys with
  | none => .panic
  | some sys' =>
    let userO : Option (Option LexM) := match D.user with
      | none => some none
      | some u => (mapLex ml mr u).map some
    match userO with
    | none => .panic
    | some user' => mapIdsTail fx D ml mr sys' user'

theorem mapIds_eq (fx : Fixes) (D : DictM) (l r : List Nat) :
    D.mapIds fx l r =
      (match Vibrato.parseMap l, Vibrato.parseMap r with
        | some ml, some mr =>
          if fx.f2 ∧ (ml.length ≠ D.numLeft ∨ mr.length ≠ D.numRight) then .err
          else cTail fx D ml mr
        | _, _ => .err) := rfl

/-- `Dict.mapIds` of the abstract model after the mapper has been built and its length accepted -/
def aTail (fixed : Bool) (M : Mapper.Dict) (m : Mapper.Mapper) : Mapper.Outcome Mapper.Dict :=
  (Mapper.mapParams m M.sysParams).andThen fun sys =>
  (Mapper.mapUser m M.userParams).andThen fun usr =>
  (M.conn.map m).andThen fun conn =>
  (Mapper.mapParams m M.unkParams).andThen fun unk =>
  (Mapper.storeMapper fixed M.stored m).andThen fun st =>
  .ok { sysParams := sys, userParams := usr, conn := conn, unkParams := unk, stored := some st }

theorem abs_mapIds_eq (fixed : Bool) (M : Mapper.Dict) (l r : List Nat) :
    M.mapIds fixed l r =
      (Mapper.Mapper.fromIter l r).andThen fun m =>
        if fixed && (m.left.length != M.conn.numLeft || m.right.length != M.conn.numRight) then .err
        else aTail fixed M m := rfl

/-- the commuting square for the part of `mapIds` after the length check -/
theorem tail_refines (fx : Fixes) (D : DictM) (ml mr : List Nat) (tl : IsTable ml) (tr : IsTable mr)
    (h16l : ml.length ≤ 65536) (h16r : mr.length ≤ 65536)
    (hst : fx.f3 = true → ml.length = D.numLeft → mr.length = D.numRight →
      ∀ ol or, D.mapper = some (ol, or) →
        (∀ x ∈ ol, x < ml.length) ∧ (∀ x ∈ or, x < mr.length)) :
    absOut (cTail fx D ml mr) = aTail fx.f3 (absDict D) ⟨ml, mr⟩ := by
  unfold cTail aTail
  have hsys : (absDict D).sysParams = absEntries D.sys.entries := rfl
  rw [hsys, mapLex_refines]
  cases mapLex ml mr D.sys with
  | none => rfl
  | some sys' =>
    simp only [Mapper.andThen_ok]
    -- user lexicon
    have huser : Mapper.mapUser ⟨ml, mr⟩ (absDict D).userParams =
        (match (match D.user with
            | none => some none
            | some u => (mapLex ml mr u).map some : Option (Option LexM)) with
          | some user' => .ok (user'.map fun u => absEntries u.entries)
          | none => .panic) := by
      show Mapper.mapUser ⟨ml, mr⟩ (D.user.map fun u => absEntries u.entries) = _
      cases D.user with
      | none => rfl
      | some u =>
        simp only [Option.map_some, Mapper.mapUser, mapLex_refines]
        cases mapLex ml mr u <;> rfl
    rw [huser]
    cases (match D.user with
            | none => some none
            | some u => (mapLex ml mr u).map some : Option (Option LexM)) with
    | none => rfl
    | some user' =>
      simp only [Mapper.andThen_ok]
      unfold mapIdsTail
      by_cases hmis : ml.length ≠ D.numLeft ∨ mr.length ≠ D.numRight
      · rw [if_pos hmis, Mapper.Conn.map_panic_of_length _ _ hmis]
        rfl
      · rw [if_neg hmis]
        have hl : ml.length = D.numLeft := by
          apply Classical.byContradiction; intro hc; exact hmis (Or.inl hc)
        have hr : mr.length = D.numRight := by
          apply Classical.byContradiction; intro hc; exact hmis (Or.inr hc)
        -- connector
        have hconn : (absDict D).conn.map ⟨ml, mr⟩ = .ok (.matrix (absMatrix D.numRight D.numLeft
            fun r l => (permConn D ml mr).getD (r * D.numLeft + l) 0)) := by
          show (Mapper.Conn.matrix (absMatrix D.numRight D.numLeft D.cost)).map ⟨ml, mr⟩ = _
          simp only [Mapper.Conn.map]
          rw [matrix_map_refines D.numRight D.numLeft D.cost
            (fun r l => (permConn D ml mr).getD (r * D.numLeft + l) 0) ⟨ml, mr⟩ hl hr
            (IsTable.permTable tl) (IsTable.permTable tr) (by omega) (by omega)
            (fun r l hr' hl' => permConn_cost tl tr hl hr r l hr' hl')]
          rfl
        rw [hconn]
        simp only [Mapper.andThen_ok]
        have hunk : (absDict D).unkParams = absUnk D.unk := rfl
        rw [hunk, mapUnk_refines]
        cases D.unk.mapM (fun e : UnkEntryM =>
            (mapParam ml mr e.param).map fun p => { e with param := p }) with
        | none => rfl
        | some unk' =>
          simp only [Mapper.andThen_ok]
          have hstored : (absDict D).stored = D.mapper.map absMapper := rfl
          rw [hstored, storeMapper_refines fx.f3 D.mapper ml mr (fun h3 => hst h3 hl hr)]
          rfl

/-- `Dict.mapIds` of the abstract model with the two repairs switched separately (`f2`: length
check before anything is touched; `f3`: compose with the stored mapper).  The abstract model's
own `Dict.mapIds fixed` is `absMapIds2 fixed fixed` (`absMapIds2_same`). -/
def absMapIds2 (f2 f3 : Bool) (M : Mapper.Dict) (l r : List Nat) : Mapper.Outcome Mapper.Dict :=
  (Mapper.Mapper.fromIter l r).andThen fun m =>
    if f2 && (m.left.length != M.conn.numLeft || m.right.length != M.conn.numRight) then .err
    else aTail f3 M m

theorem absMapIds2_same (fixed : Bool) (M : Mapper.Dict) (l r : List Nat) :
    absMapIds2 fixed fixed M l r = M.mapIds fixed l r := rfl

/-- **Commuting square for `map_connection_ids_from_iter`, every flag setting.**  The concrete
step and the abstract step (two-flag form) have the same kind of outcome (`ok` / `err` /
`panic`) and, on `ok`, the abstraction of the concrete result IS the abstract result.  The stored
mapper must be well-formed when `f3 = true` (the composition `stored ∘ new` reads the new table at
the stored entries). -/
theorem mapIds_refines2 (fx : Fixes) (D : DictM) (hm : fx.f3 = true → D.MapperOK)
    (l r : List Nat) :
    absOut (D.mapIds fx l r) = absMapIds2 fx.f2 fx.f3 (absDict D) l r := by
  rw [mapIds_eq]
  unfold absMapIds2
  rw [fromIter_refines]
  cases hml : Vibrato.parseMap l with
  | none => cases Vibrato.parseMap r <;> rfl
  | some ml =>
    cases hmr : Vibrato.parseMap r with
    | none => rfl
    | some mr =>
      show absOut (if fx.f2 ∧ (ml.length ≠ D.numLeft ∨ mr.length ≠ D.numRight) then .err
          else cTail fx D ml mr) =
        (if (fx.f2 && (ml.length != D.numLeft || mr.length != D.numRight)) then .err
          else aTail fx.f3 (absDict D) ⟨ml, mr⟩)
      obtain ⟨tl, _⟩ := parseMap_table _ _ hml
      obtain ⟨tr, _⟩ := parseMap_table _ _ hmr
      have h16l := parseMap_len hml
      have h16r := parseMap_len hmr
      have hst : fx.f3 = true → ml.length = D.numLeft → mr.length = D.numRight →
          ∀ ol or, D.mapper = some (ol, or) →
            (∀ x ∈ ol, x < ml.length) ∧ (∀ x ∈ or, x < mr.length) := by
        intro hf3 hl hr ol or ho
        obtain ⟨_, _, h3, h4⟩ := hm hf3 ol or ho
        exact ⟨by rw [hl]; exact h3, by rw [hr]; exact h4⟩
      have htail := tail_refines fx D ml mr tl tr h16l h16r hst
      by_cases hc : fx.f2 = true ∧ (ml.length ≠ D.numLeft ∨ mr.length ≠ D.numRight)
      · rw [if_pos hc]
        have : (fx.f2 && (ml.length != D.numLeft || mr.length != D.numRight)) = true := by
          rw [hc.1]; simpa using hc.2
        rw [if_pos this]; rfl
      · rw [if_neg hc]
        have : ¬ (fx.f2 && (ml.length != D.numLeft || mr.length != D.numRight)) = true := by
          intro h
          apply hc
          simpa using h
        rw [if_neg this]
        exact htail

/-- **Commuting square for `map_connection_ids_from_iter`** against the abstract model's own
`Dict.mapIds fixed`: for every flag setting with `f2 = f3` (that model has ONE flag for both
repairs), every dictionary whose stored mapper is well-formed (only needed when `f3 = true`) and
all id sequences. -/
theorem mapIds_refines (fx : Fixes) (hf : fx.f2 = fx.f3) (D : DictM)
    (hm : fx.f3 = true → D.MapperOK) (l r : List Nat) :
    absOut (D.mapIds fx l r) = (absDict D).mapIds fx.f3 l r := by
  rw [mapIds_refines2 fx D hm l r, hf]
  rfl

/-! ## 7. `reset_user_lexicon_from_reader` -/

/-- `DictM.resetUser` after the CSV has been parsed, from the translation through the stored
mapper on (the code of the pinned tree) -/
def cLoadU (D : DictM) (u : LexM) : Outcome DictM :=
  let mapped : Option LexM := match D.mapper with
    | none => some u
    | some (ml, mr) => mapLex ml mr u
  match mapped with
  | none => .panic
  | some u' =>
    if ¬ paramsInRange (u'.entries.map (·.param)) D.numLeft D.numRight then .err
    else .ok { D with user := some u' }

/-- `DictM.resetUser` after the CSV has been parsed -/
def cLoad (fx : Fixes) (D : DictM) (u : LexM) : Outcome DictM :=
  if fx.f2b ∧ ¬ paramsInRange (u.entries.map (·.param)) D.numLeft D.numRight then .err
  else cLoadU D u

theorem resetUser_eq (fx : Fixes) (D : DictM) (b : List UInt8) :
    D.resetUser fx (some b) =
      (match userOfCsv fx b with
        | .err => .err
        | .panic => .panic
        | .ok u => cLoad fx D u) := by
  unfold DictM.resetUser userOfCsv cLoad cLoadU
  rfl

/-- the abstract user-lexicon load chosen by the flag `f2b` -/
def absLoad (f2b : Bool) (M : Mapper.Dict) (u : List Mapper.Param) : Mapper.Outcome Mapper.Dict :=
  if f2b then M.loadUserChecked u else M.loadUser u

/-- the abstract counterpart of `reset_user_lexicon_from_reader`: CSV parsing (shared with the
concrete model: the abstract model starts from parameter triples) followed by the abstract load -/
def absResetSome (fx : Fixes) (M : Mapper.Dict) (b : List UInt8) : Mapper.Outcome Mapper.Dict :=
  match userOfCsv fx b with
  | .ok u => absLoad fx.f2b M (absEntries u.entries)
  | .err => .err
  | .panic => .panic

def absReset (fx : Fixes) (M : Mapper.Dict) : Option (List UInt8) → Mapper.Outcome Mapper.Dict
  | none => .ok M.clearUser
  | some b => absResetSome fx M b

theorem loadUser_refines (D : DictM) (u : LexM) :
    absOut (cLoadU D u) = (absDict D).loadUser (absEntries u.entries) := by
  unfold cLoadU Mapper.Dict.loadUser
  have hstored : (absDict D).stored = D.mapper.map absMapper := rfl
  rw [hstored]
  simp only [absDict_numLeft, absDict_numRight]
  have fin : ∀ (mp : Option (List Nat × List Nat)) (u' : LexM),
      absOut (if ¬ paramsInRange (u'.entries.map (·.param)) D.numLeft D.numRight then .err
        else .ok { D with user := some u', mapper := mp }) =
      (if Mapper.verifyParams D.numLeft D.numRight (absEntries u'.entries) = true then
        Mapper.Outcome.ok { sysParams := (absDict D).sysParams,
                            userParams := some (absEntries u'.entries),
                            conn := (absDict D).conn, unkParams := (absDict D).unkParams,
                            stored := mp.map absMapper }
      else .err) := by
    intro mp u'
    rw [verify_entries]
    cases paramsInRange (u'.entries.map (·.param)) D.numLeft D.numRight <;> rfl
  cases D.mapper with
  | none => exact fin none u
  | some m =>
    obtain ⟨ml, mr⟩ := m
    simp only [Option.map_some, absMapper, mapLex_refines]
    cases mapLex ml mr u with
    | none => rfl
    | some u' => exact fin (some (ml, mr)) u'

theorem load_refines (fx : Fixes) (D : DictM) (u : LexM) :
    absOut (cLoad fx D u) = absLoad fx.f2b (absDict D) (absEntries u.entries) := by
  unfold cLoad absLoad
  cases fx.f2b with
  | false =>
    rw [if_neg (fun h => by cases h.1)]
    exact loadUser_refines D u
  | true =>
    rw [if_pos rfl]
    unfold Mapper.Dict.loadUserChecked
    rw [absDict_numLeft, absDict_numRight, verify_entries]
    by_cases hp : paramsInRange (u.entries.map (·.param)) D.numLeft D.numRight = true
    · rw [if_neg (fun h => h.2 hp), if_pos hp]
      exact loadUser_refines D u
    · rw [if_pos ⟨rfl, hp⟩, if_neg hp]
      rfl

/-- **Commuting square for `reset_user_lexicon_from_reader`** (no hypothesis at all: every flag
setting, every dictionary, every byte string).  `None` clears; `Some(csv)`: a CSV error / panic
is the same error / panic; otherwise the concrete load and the abstract load
(`loadUserChecked` when `f2b`, `loadUser` otherwise) have the same kind of outcome and related
results -- including the index panic of the pinned tree. -/
theorem resetUser_refines (fx : Fixes) (D : DictM) (csv : Option (List UInt8)) :
    absOut (D.resetUser fx csv) = absReset fx (absDict D) csv := by
  cases csv with
  | none => rfl
  | some b =>
    rw [resetUser_eq]
    show _ = absResetSome fx (absDict D) b
    unfold absResetSome
    cases userOfCsv fx b with
    | err => rfl
    | panic => rfl
    | ok u => exact load_refines fx D u

/-! ## 8. Histories -/

/-- the abstract step for a concrete operation -/
def absStep (fx : Fixes) (M : Mapper.Dict) : DOp → Mapper.Outcome Mapper.Dict
  | .map l r => M.mapIds fx.f3 l r
  | .reset csv => absReset fx M csv

/-- the abstract run of a concrete history (a failing call ends it) -/
def absRun (fx : Fixes) : Mapper.Dict → List DOp → Mapper.Outcome Mapper.Dict
  | M, [] => .ok M
  | M, op :: ops => (absStep fx M op).andThen fun M' => absRun fx M' ops

theorem step_refines (fx : Fixes) (hf : fx.f2 = fx.f3) (D : DictM) (hm : D.MapperOK) (op : DOp) :
    absOut (D.step fx op) = absStep fx (absDict D) op := by
  cases op with
  | map l r => exact mapIds_refines fx hf D (fun _ => hm) l r
  | reset csv => exact resetUser_refines fx D csv

theorem step_mapperOK {fx : Fixes} {D D' : DictM} {op : DOp} (hm : D.MapperOK)
    (h : D.step fx op = .ok D') : D'.MapperOK := by
  cases op with
  | map l r => exact mapIds_mapperOK hm h
  | reset csv => exact resetUser_mapperOK hm h

theorem run_mapperOK {fx : Fixes} : ∀ (ops : List DOp) {D D' : DictM}, D.MapperOK →
    D.run fx ops = .ok D' → D'.MapperOK
  | [], D, D', hm, h => by
    simp only [DictM.run, Outcome.ok.injEq] at h; subst h; exact hm
  | op :: ops, D, D', hm, h => by
    simp only [DictM.run] at h
    cases hs : D.step fx op with
    | err => rw [hs] at h; cases h
    | panic => rw [hs] at h; cases h
    | ok D1 =>
      rw [hs] at h
      exact run_mapperOK ops (step_mapperOK hm hs) h

/-- **Refinement for arbitrary histories**: running any sequence of public operations on the
concrete model and abstracting the outcome equals running the abstract steps on the abstraction
-- same kind of outcome at the same position, related final states. -/
theorem run_refines (fx : Fixes) (hf : fx.f2 = fx.f3) : ∀ (ops : List DOp) (D : DictM),
    D.MapperOK → absOut (D.run fx ops) = absRun fx (absDict D) ops
  | [], _, _ => rfl
  | op :: ops, D, hm => by
    simp only [DictM.run, absRun]
    rw [← step_refines fx hf D hm op]
    cases hs : D.step fx op with
    | err => rfl
    | panic => rfl
    | ok D1 => exact run_refines fx hf ops D1 (step_mapperOK hm hs)

/-! ### Successful histories as runs of the abstract model's own `Dict.run` -/

/-- a concrete operation as an operation of the abstract model (`Mapper.Op`); the CSV of a user
lexicon is parsed (an unparsable CSV never occurs in a successful history; it is sent to
`clearUser`) -/
def toOpUser (fx : Fixes) (b : List UInt8) : Mapper.Op :=
  match userOfCsv fx b with
  | .ok u => .loadUser (absEntries u.entries)
  | _ => .clearUser

def toOp (fx : Fixes) : DOp → Mapper.Op
  | .map l r => .map l r
  | .reset none => .clearUser
  | .reset (some b) => toOpUser fx b

theorem absLoad_ok {f2b : Bool} {M M' : Mapper.Dict} {u : List Mapper.Param}
    (h : absLoad f2b M u = .ok M') : M.loadUser u = .ok M' := by
  unfold absLoad at h
  cases f2b with
  | false => exact h
  | true =>
    simp only [if_true, Mapper.Dict.loadUserChecked] at h
    split at h
    · exact h
    · cases h

theorem absStep_ok {fx : Fixes} {M M' : Mapper.Dict} {op : DOp} (h : absStep fx M op = .ok M') :
    M.step fx.f3 (toOp fx op) = .ok M' := by
  cases op with
  | map l r => exact h
  | reset csv =>
    cases csv with
    | none => exact h
    | some b =>
      have h : absResetSome fx M b = .ok M' := h
      show M.step fx.f3 (toOpUser fx b) = .ok M'
      unfold absResetSome at h
      unfold toOpUser
      cases hu : userOfCsv fx b with
      | err => rw [hu] at h; cases h
      | panic => rw [hu] at h; cases h
      | ok u =>
        rw [hu] at h
        exact absLoad_ok h

theorem absRun_ok {fx : Fixes} : ∀ (ops : List DOp) {M M' : Mapper.Dict},
    absRun fx M ops = .ok M' → M.run fx.f3 (ops.map (toOp fx)) = .ok M'
  | [], M, M', h => h
  | op :: ops, M, M', h => by
    simp only [absRun] at h
    obtain ⟨M1, h1, h2⟩ := Mapper.andThen_eq_ok.1 h
    simp only [List.map_cons, Mapper.Dict.run, absStep_ok h1, Mapper.andThen_ok]
    exact absRun_ok ops h2

/-- A successful concrete history is a successful history of the abstract model (its own
`Dict.run`, `fixed = fx.f3`) between the abstractions. -/
theorem run_ok_refines (fx : Fixes) (hf : fx.f2 = fx.f3) {D D' : DictM} (hm : D.MapperOK)
    (ops : List DOp) (h : D.run fx ops = .ok D') :
    (absDict D).run fx.f3 (ops.map (toOp fx)) = .ok (absDict D') := by
  apply absRun_ok
  rw [← run_refines fx hf ops D hm, h]
  rfl

end Vibrato.Refine
