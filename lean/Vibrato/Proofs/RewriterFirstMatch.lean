/-
Declarative reading of a rule (property C17) and its link to the parsed form used by the model.
-/
import Vibrato.Model.Rewriter
import Vibrato.Model.RewriterSpec
import Vibrato.Proofs.RewriterMain

namespace Vibrato.Rewriter

theorem accepts_parse_iff (p x : Str) :
    (parsePattern p).accepts x = true ↔ CellMatches p x := by
  unfold parsePattern CellMatches
  by_cases h1 : p = ['*']
  · simp [h1, Pattern.accepts]
  · by_cases h2 : IsAlt p
    · have h2' := h2
      unfold IsAlt at h2'
      simp [h1, h2, h2', Pattern.accepts, alternatives]
    · have h2' := h2
      unfold IsAlt at h2'
      simp only [h1, if_false, h2', Pattern.accepts, false_or, h2, false_and, not_false_eq_true,
        true_and]
      simp

theorem matchPats_iff (ps f : List Str) :
    matchPats (ps.map parsePattern) f = true ↔ MatchesCells ps f := by
  induction ps generalizing f with
  | nil => simp [matchPats, MatchesCells]
  | cons p ps ih =>
    cases f with
    | nil => simp [matchPats, MatchesCells]
    | cons x xs => simp [matchPats, MatchesCells, ih, accepts_parse_iff]

theorem matchesCells_iff_index (ps f : List Str) :
    MatchesCells ps f ↔
      ps.length ≤ f.length ∧ ∀ (i : Nat) (p x : Str), ps[i]? = some p → f[i]? = some x → CellMatches p x := by
  induction ps generalizing f with
  | nil => simp [MatchesCells]
  | cons p ps ih =>
    cases f with
    | nil => simp [MatchesCells]
    | cons x xs =>
      simp only [MatchesCells, ih, List.length_cons, Nat.add_le_add_iff_right]
      constructor
      · rintro ⟨h0, hl, hi⟩
        refine ⟨hl, fun i p' x' hp hx => ?_⟩
        cases i with
        | zero => simp at hp hx; subst hp hx; exact h0
        | succ i => exact hi i p' x' (by simpa using hp) (by simpa using hx)
      · rintro ⟨hl, hi⟩
        exact ⟨hi 0 p x rfl rfl, hl, fun i p' x' hp hx => hi (i + 1) p' x' (by simpa using hp)
          (by simpa using hx)⟩

/-! ### rewrite cells -/

theorem refNumber_none {cell : Str} (hne : ∀ d ds, cell = '$' :: d :: ds → False) :
    refNumber cell = none := by
  unfold refNumber
  split
  · rename_i d ds; exact absurd rfl (hne d ds)
  · rfl

theorem parseRewrite_panic_iff (cell : Str) : parseRewrite cell = .panic ↔ BadRef cell := by
  unfold parseRewrite BadRef refNumber
  split
  · rename_i d ds
    by_cases hd : (d :: ds).all isDigit = true
    · simp only [hd, if_true, Option.some.injEq, exists_eq_left']
      by_cases h1 : usizeMax < digitsVal (d :: ds) 0
      · simp [h1]
      · by_cases h2 : digitsVal (d :: ds) 0 = 0
        · simp [h2]
        · simp [h1, h2]
    · simp [hd]
  · rename_i hne
    constructor
    · intro h; cases h
    · rintro ⟨n, hn, _⟩
      split at hn
      · rename_i d ds; exact absurd rfl (hne d ds)
      · cases hn

theorem parseRewrite_eval (f : List Str) (cell : Str) (r : Rewrite)
    (h : parseRewrite cell = .ok r) : r.eval f = applyCell f cell := by
  unfold parseRewrite at h
  unfold applyCell refNumber
  split at h
  · rename_i d ds
    by_cases hd : (d :: ds).all isDigit = true
    · simp only [hd, if_true] at h ⊢
      split at h
      · cases h
      · split at h
        · cases h
        · rename_i h2
          cases h
          simp [Rewrite.eval, h2]
    · simp only [hd] at h ⊢
      cases h; rfl
  · rename_i hne
    cases h
    have := refNumber_none hne
    unfold refNumber at this
    rw [this]
    rfl

/-! ### rules -/

theorem firstRes_eq (f : List Str) (rules : List RawRule)
    (parsed : List (List Pattern × List Rewrite)) (h : ParsedAs rules parsed) :
    firstRes f parsed =
      match firstMatch rules f with
      | some out => .found out
      | none => .exhausted := by
  induction rules generalizing parsed with
  | nil =>
    cases parsed with
    | nil => rfl
    | cons q qs => cases h
  | cons r rules ih =>
    cases parsed with
    | nil => cases h
    | cons q qs =>
      obtain ⟨h1, h2, h3⟩ := h
      simp only [firstRes, firstMatch, List.find?_cons]
      by_cases hm : Matches r f
      · have : matchPats q.1 f = true := by rw [h1]; exact (matchPats_iff r.1 f).mpr hm
        simp only [ruleRes, this, if_true, Res.found_orElse, hm, decide_true, Option.map_some,
          applyRule]
        rw [applyRewrite_eq, parseRewrites_ok_map h2 _ (applyCell f)
          (fun p r hr => parseRewrite_eval f p r hr)]
      · have : matchPats q.1 f = false := by
          rw [h1]
          cases hb : matchPats (r.1.map parsePattern) f
          · rfl
          · exact absurd ((matchPats_iff r.1 f).mp hb) hm
        simp only [ruleRes, this, Bool.false_eq_true, if_false, Res.exhausted_orElse, hm,
          decide_false]
        exact ih qs h3

/-- Main theorem for the repaired builder, at the level of `buildAndRewrite`. -/
theorem buildAndRewrite_true (rules : List RawRule) (f : List Str)
    (hgood : GoodRules rules) :
    buildAndRewrite true rules f = .ok (firstMatch rules f) := by
  obtain ⟨parsed, hp⟩ := parsedAs_exists rules
    (fun r hr c hc h => hgood r hr c hc ((parseRewrite_panic_iff c).mp h))
  obtain ⟨nodes, hb, _, hdfs⟩ := buildFrom_true f rules parsed [[]] WF_init hp
  have h0 : dfsNode [[]] f f 0 = .exhausted := by
    rw [dfsNode_eq]; rfl
  rw [h0, Res.exhausted_orElse, firstRes_eq f rules parsed hp] at hdfs
  unfold buildAndRewrite build
  rw [hb]
  simp only
  rw [rewrite_eq_dfs, hdfs]
  cases firstMatch rules f <;> rfl

theorem buildAndRewrite_panic (fixed : Bool) (rules : List RawRule) (f : List Str)
    (hbad : ∃ r ∈ rules, ∃ c ∈ r.2, BadRef c) : buildAndRewrite fixed rules f = .panic := by
  unfold buildAndRewrite
  rw [build_panic fixed rules]
  obtain ⟨r, hr, c, hc, hb⟩ := hbad
  exact ⟨r, hr, c, hc, (parseRewrite_panic_iff c).mpr hb⟩

end Vibrato.Rewriter

namespace Vibrato.Rewriter

theorem badRefB_iff (c : Str) : badRefB c = true ↔ BadRef c := by
  unfold badRefB BadRef
  cases refNumber c with
  | none => simp
  | some n => simp

theorem any_bad_iff (rules : List RawRule) :
    rules.any (fun r => r.2.any badRefB) = true ↔ ¬ GoodRules rules := by
  unfold GoodRules
  simp only [List.any_eq_true, badRefB_iff]
  constructor
  · rintro ⟨r, hr, c, hc, hb⟩ h; exact h r hr c hc hb
  · intro h
    apply Classical.byContradiction
    intro hn
    apply h
    intro r hr c hc hb
    exact hn ⟨r, hr, c, hc, hb⟩

/-- Total form: for every rule list and feature list the repaired builder + rewriter returns
exactly the specified outcome (panic iff a bad `$n` cell is present). -/
theorem buildAndRewrite_true_total (rules : List RawRule) (f : List Str) :
    buildAndRewrite true rules f = specOutcome rules f := by
  unfold specOutcome
  by_cases hg : GoodRules rules
  · have : rules.any (fun r => r.2.any badRefB) = false := by
      cases h : rules.any (fun r => r.2.any badRefB)
      · rfl
      · exact absurd hg ((any_bad_iff rules).mp h)
    rw [this]
    exact buildAndRewrite_true rules f hg
  · have := (any_bad_iff rules).mpr hg
    rw [this]
    simp only [if_true]
    apply buildAndRewrite_panic
    unfold GoodRules at hg
    apply Classical.byContradiction
    intro hn
    apply hg
    intro r hr c hc hb
    exact hn ⟨r, hr, c, hc, hb⟩

end Vibrato.Rewriter
