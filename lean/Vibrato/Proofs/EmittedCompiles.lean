/-
Helper lemmas for `Props/C14compile.lean` (property C14, "the emitted files always compile"):
the text parsers of `Model/Text.lean` / `Model/MatrixDef.lean` on the bytes written by the trainer
model (`Model/Trainer.lean::matrixFile`), the assembly of `Model/Dict.lean::buildMatrixDict`,
and the agreement of the two models of `std::str::from_utf8`.

A. ASCII bytes decode (`Text.decodeLine`) to the characters with the same codes.
B. `Text.rawLines` of a text made of `\n`-terminated lines.
C. `Text.parseU16/parseUsize/parseI16` of `natDec`/`intDec` (Rust `{}` of integers).
D. `Text.splitOn`.
E. `MatrixDef.parseHeader` / `parseBody` / `bodyLines` on rendered lines.
F. The table filled by `bodyLines` (`List.set` fold) read entry by entry (`fill_spec`).
G. `MatrixDef.parse (matrixFile mm s)` (`parse_matrixFile`).
I. `buildMatrixDict_ok`: `from_readers` succeeds when every part does (`lexOfRows_ok`,
   `unkOfRows_ok`).
H. UTF-8: `LexCsv.validUtf8 bs = true ↔ (Text.decodeLine bs).isSome` (`validUtf8_iff_decodes`;
   `exists_encs_of_validUtf8`, `validUtf8_encs`), with the consequences used for surfaces
   (`codePoints_of_valid`) and category names (`decodeLine_of_valid`).
Uses `Proofs/MecabRoundTrip.lean` (`encs`, `fromUTF8_encs`, `enc_of_ascii`).  Core Lean only.
-/
import Vibrato.Props.C14
import Vibrato.Proofs.MecabRoundTrip
import Vibrato.Proofs.DictOps

namespace Vibrato.EmitC
open Vibrato.Text Vibrato.Trainer Vibrato.MatrixDef
open Vibrato.MecabRT (encs fromUTF8_encs enc_of_ascii)

/-! ## A. ASCII -/

/-- The character with the code of a byte. -/
def ch (b : UInt8) : Char := Char.ofNat b.toNat

theorem ch_toNat (b : UInt8) : (ch b).toNat = b.toNat := by
  have hv : b.toNat.isValidChar := Or.inl (by have := b.toNat_lt; omega)
  simp [ch, Char.ofNat, hv, Char.toNat, Char.ofNatAux]

theorem enc_ch {b : UInt8} (h : b < 128) : String.utf8EncodeChar (ch b) = [b] := by
  have h1 : (ch b).val.toNat = b.toNat := ch_toNat b
  have h2 : b.toNat < 128 := h
  rw [enc_of_ascii (ch b) (by omega), h1, UInt8.ofNat_toNat]

theorem encs_map_ch {bs : List UInt8} (h : ∀ b ∈ bs, b < 128) : encs (bs.map ch) = bs := by
  induction bs with
  | nil => rfl
  | cons b bs ih =>
    have := ih (fun x hx => h x (by simp [hx]))
    simp only [encs, List.map_cons, List.flatMap_cons] at this ⊢
    rw [this, enc_ch (h b (by simp))]
    rfl

/-- `BufRead::lines` item for an ASCII line: the string of the same characters. -/
theorem decodeLine_ascii {bs : List UInt8} (h : ∀ b ∈ bs, b < 128) :
    decodeLine bs = some (String.ofList (bs.map ch)) := by
  have := fromUTF8_encs (bs.map ch)
  rw [encs_map_ch h] at this
  exact this

theorem ofList_isEmpty (l : List Char) : (String.ofList l).isEmpty = l.isEmpty := by
  cases l with
  | nil => rfl
  | cons c l =>
    have : ¬ ((String.ofList (c :: l)).isEmpty = true) := by
      rw [String.isEmpty_iff]
      intro h
      have := congrArg String.toList h
      simp at this
    simp only [Bool.not_eq_true] at this; simp

/-! ## B. Lines -/

theorem rawLinesGo_append_no10 (bs rest cur : List UInt8) (h : (10 : UInt8) ∉ bs) :
    rawLinesGo (bs ++ rest) cur = rawLinesGo rest (bs.reverse ++ cur) := by
  induction bs generalizing cur with
  | nil => rfl
  | cons b bs ih =>
    have hb : b ≠ 10 := fun e => h (by simp [e])
    simp only [List.cons_append, rawLinesGo, hb, if_false]
    rw [ih _ (fun hm => h (List.mem_cons_of_mem _ hm))]
    simp

theorem rawLinesGo_line (l rest : List UInt8) (h10 : (10 : UInt8) ∉ l) (h13 : (13 : UInt8) ∉ l) :
    rawLinesGo (l ++ 10 :: rest) [] = l :: rawLinesGo rest [] := by
  rw [rawLinesGo_append_no10 _ _ _ h10]
  simp only [List.append_nil, rawLinesGo, if_true]
  congr 1
  cases hr : l.reverse with
  | nil => simpa using hr
  | cons c cur =>
    have hc : c ≠ 13 := by
      intro e
      apply h13
      have : c ∈ l.reverse := by rw [hr]; simp
      simpa [e] using this
    simp only [hc, if_false]
    rw [← hr]; simp

/-- A text made of `\n`-terminated lines free of `\n` and `\r` is read back line by line. -/
theorem rawLines_lines (ls : List (List UInt8))
    (h : ∀ l ∈ ls, (10 : UInt8) ∉ l ∧ (13 : UInt8) ∉ l) :
    rawLines (ls.flatMap (fun l => l ++ [10])) = ls := by
  unfold rawLines
  induction ls with
  | nil => rfl
  | cons l ls ih =>
    have hl := h l (by simp)
    simp only [List.flatMap_cons, List.append_assoc, List.singleton_append]
    rw [rawLinesGo_line _ _ hl.1 hl.2, ih (fun x hx => h x (by simp [hx]))]

/-! ## C. Numbers -/

theorem digitVal_ch {b : UInt8} (h : (48 : UInt8) ≤ b ∧ b ≤ 57) :
    Text.digitVal (ch b) = some (b.toNat - 48) ∧ LexCsv.digitVal b = some (b.toNat - 48) := by
  have h1 : 48 ≤ b.toNat := h.1
  have h2 : b.toNat ≤ 57 := h.2
  constructor
  · unfold Text.digitVal
    have : '0' ≤ ch b ∧ ch b ≤ '9' := by
      constructor
      · show (48 : Nat) ≤ (ch b).toNat
        rw [ch_toNat]; exact h1
      · show (ch b).toNat ≤ 57
        rw [ch_toNat]; exact h2
    rw [if_pos this, ch_toNat]
  · unfold LexCsv.digitVal
    rw [if_pos h]

theorem digits_foldl (ds : List UInt8) (hd : AllDigits ds) (a : Nat) :
    (ds.map ch).foldl (fun (acc : Option Nat) c => do
        let a ← acc
        let d ← Text.digitVal c
        pure (a * 10 + d)) (some a) = LexCsv.parseDigits ds a := by
  induction ds generalizing a with
  | nil => rfl
  | cons b ds ih =>
    obtain ⟨h1, h2⟩ := digitVal_ch (hd b (by simp))
    simp only [List.map_cons, List.foldl_cons, LexCsv.parseDigits, h2]
    rw [← ih (fun x hx => hd x (by simp [hx]))]
    simp [h1]

theorem digitsToNat_natDec (n : Nat) :
    digitsToNat 10 Text.digitVal ((natDec n).map ch) = some n := by
  obtain ⟨hne, hd, _, _⟩ := natDec_spec n
  have := digits_foldl (natDec n) hd 0
  rw [natDec_parse] at this
  cases hds : natDec n with
  | nil => exact absurd hds hne
  | cons b t =>
    rw [hds] at this
    simpa [digitsToNat] using this

theorem ch_ne_of_digit {b : UInt8} (h : (48 : UInt8) ≤ b ∧ b ≤ 57) (c : Char) (hc : c.toNat < 48) :
    ch b ≠ c := by
  intro e
  have := ch_toNat b
  rw [e] at this
  have h1 : 48 ≤ b.toNat := h.1
  omega


theorem parseUnsigned_head (radix : Nat) (dv : Char → Option Nat) (max : Nat) (c : Char)
    (s : List Char) (hc : c ≠ '+') :
    parseUnsigned radix dv max (c :: s) =
      match digitsToNat radix dv (c :: s) with
      | some n => if n ≤ max then some n else none
      | none => none := by
  unfold parseUnsigned
  split
  · rename_i heq; simp only [List.cons.injEq] at heq; exact absurd heq.1 hc
  · rfl

theorem parseSigned_head (max : Nat) (c : Char) (s : List Char) (h1 : c ≠ '+') (h2 : c ≠ '-') :
    parseSigned max (c :: s) =
      match digitsToNat 10 Text.digitVal (c :: s) with
      | some n => if n ≤ max then some (n : Int) else none
      | none => none := by
  unfold parseSigned
  split
  · rename_i heq; simp only [List.cons.injEq] at heq; exact absurd heq.1 h2
  · rename_i heq; simp only [List.cons.injEq] at heq; exact absurd heq.1 h1
  · rfl

theorem parseUnsigned_natDec {max n : Nat} (h : n ≤ max) :
    parseUnsigned 10 Text.digitVal max ((natDec n).map ch) = some n := by
  obtain ⟨hne, hd, _, _⟩ := natDec_spec n
  have hp := digitsToNat_natDec n
  cases hds : natDec n with
  | nil => exact absurd hds hne
  | cons b t =>
    rw [hds] at hp hd
    have hb : ch b ≠ '+' := ch_ne_of_digit (hd b (by simp)) '+' (by decide)
    rw [List.map_cons] at hp ⊢
    rw [parseUnsigned_head _ _ _ _ _ hb, hp]
    simp only [h, if_true]

theorem parseSigned_intDec {max : Nat} {i : Int} (hlo : -((max : Int) + 1) ≤ i) (hhi : i ≤ max) :
    parseSigned max ((intDec i).map ch) = some i := by
  obtain ⟨hne, hd, _, _⟩ := natDec_spec i.natAbs
  have hp := digitsToNat_natDec i.natAbs
  unfold intDec
  split
  · rename_i hneg
    have hm : ch 45 = '-' := by decide
    simp only [List.map_cons, hm, parseSigned, hp]
    have : i.natAbs ≤ max + 1 := by omega
    simp only [this, if_true]
    congr 1; omega
  · rename_i hnn
    cases hds : natDec i.natAbs with
    | nil => exact absurd hds hne
    | cons b t =>
      rw [hds] at hp hd
      have hb1 : ch b ≠ '+' := ch_ne_of_digit (hd b (by simp)) '+' (by decide)
      have hb2 : ch b ≠ '-' := ch_ne_of_digit (hd b (by simp)) '-' (by decide)
      rw [List.map_cons] at hp ⊢
      rw [parseSigned_head _ _ _ hb1 hb2, hp]
      have : i.natAbs ≤ max := by omega
      simp only [this, if_true]
      congr 1; omega

/-! ## D. `str::split(' ')` -/

theorem splitOnGo_no_sep (sep : Char) (s cur : List Char) (h : sep ∉ s) :
    splitOnGo sep s cur = [cur.reverse ++ s] := by
  induction s generalizing cur with
  | nil => simp [splitOnGo]
  | cons c s ih =>
    have hc : c ≠ sep := fun e => h (by simp [e])
    simp only [splitOnGo, hc, if_false]
    rw [ih _ (fun hm => h (List.mem_cons_of_mem _ hm))]
    simp

theorem splitOnGo_append_sep (sep : Char) (a b cur : List Char) (h : sep ∉ a) :
    splitOnGo sep (a ++ sep :: b) cur = (cur.reverse ++ a) :: splitOnGo sep b [] := by
  induction a generalizing cur with
  | nil => simp [splitOnGo]
  | cons c a ih =>
    have hc : c ≠ sep := fun e => h (by simp [e])
    simp only [List.cons_append, splitOnGo, hc, if_false]
    rw [ih _ (fun hm => h (List.mem_cons_of_mem _ hm))]
    simp


/-! ## E. Lines of `matrix.def` -/

/-- Bytes that may occur in a rendered `matrix.def` line: ASCII, not `\n`, not `\r`. -/
def TextByte (b : UInt8) : Prop := b < 128 ∧ b ≠ 10 ∧ b ≠ 13

theorem digit_textByte {b : UInt8} (h : (48 : UInt8) ≤ b ∧ b ≤ 57) :
    TextByte b ∧ ch b ≠ ' ' := by
  have h1 : 48 ≤ b.toNat := h.1
  have h2 : b.toNat ≤ 57 := h.2
  refine ⟨⟨?_, ?_, ?_⟩, ch_ne_of_digit h ' ' (by decide)⟩
  · show b.toNat < 128; omega
  · intro e; subst e; exact absurd h1 (by decide)
  · intro e; subst e; exact absurd h1 (by decide)

theorem natDec_bytes (n : Nat) : ∀ b ∈ natDec n, TextByte b ∧ ch b ≠ ' ' :=
  fun b hb => digit_textByte ((natDec_spec n).2.1 b hb)

theorem intDec_bytes (i : Int) : ∀ b ∈ intDec i, TextByte b ∧ ch b ≠ ' ' := by
  intro b hb
  unfold intDec at hb
  split at hb
  · simp only [List.mem_cons] at hb
    rcases hb with rfl | hb
    · exact ⟨⟨by decide, by decide, by decide⟩, by decide⟩
    · exact natDec_bytes _ b hb
  · exact natDec_bytes _ b hb

theorem space_notin {bs : List UInt8} (h : ∀ b ∈ bs, TextByte b ∧ ch b ≠ ' ') :
    ' ' ∉ bs.map ch := by
  intro hm
  obtain ⟨b, hb, e⟩ := List.mem_map.mp hm
  exact (h b hb).2 e

theorem ch_space : ch 32 = ' ' := by decide

/-- `{right} {left} {cost}` -/
def bodyText (e : Nat × Nat × Int) : List UInt8 :=
  natDec e.1 ++ 32 :: (natDec e.2.1 ++ 32 :: intDec e.2.2)

/-- `{num_right} {num_left}` -/
def headText (nr nl : Nat) : List UInt8 := natDec nr ++ 32 :: natDec nl

theorem bodyText_bytes (e : Nat × Nat × Int) : ∀ b ∈ bodyText e, TextByte b := by
  intro b hb
  simp only [bodyText, List.mem_append, List.mem_cons] at hb
  rcases hb with hb | rfl | hb | rfl | hb
  · exact (natDec_bytes _ b hb).1
  · exact ⟨by decide, by decide, by decide⟩
  · exact (natDec_bytes _ b hb).1
  · exact ⟨by decide, by decide, by decide⟩
  · exact (intDec_bytes _ b hb).1

theorem headText_bytes (nr nl : Nat) : ∀ b ∈ headText nr nl, TextByte b := by
  intro b hb
  simp only [headText, List.mem_append, List.mem_cons] at hb
  rcases hb with hb | rfl | hb
  · exact (natDec_bytes _ b hb).1
  · exact ⟨by decide, by decide, by decide⟩
  · exact (natDec_bytes _ b hb).1

theorem parseHeader_headText {nr nl : Nat} (hr : nr ≤ 65535) (hl : nl ≤ 65535) :
    parseHeader ((headText nr nl).map ch) = some (nr, nl) := by
  have hs : Text.splitOn ' ' ((headText nr nl).map ch) = [(natDec nr).map ch, (natDec nl).map ch] := by
    simp only [headText, List.map_append, List.map_cons, ch_space, Text.splitOn]
    rw [splitOnGo_append_sep _ _ _ _ (space_notin (natDec_bytes nr)),
      splitOnGo_no_sep _ _ _ (space_notin (natDec_bytes nl))]
    simp
  unfold parseHeader
  rw [hs]
  simp only [Text.parseU16, parseUnsigned_natDec hr, parseUnsigned_natDec hl]
  rfl

theorem parseBody_bodyText (e : Nat × Nat × Int) (hr : e.1 ≤ 18446744073709551615)
    (hl : e.2.1 ≤ 18446744073709551615) (hv : -32768 ≤ e.2.2 ∧ e.2.2 ≤ 32767) :
    parseBody ((bodyText e).map ch) = some e := by
  have hs : Text.splitOn ' ' ((bodyText e).map ch) =
      [(natDec e.1).map ch, (natDec e.2.1).map ch, (intDec e.2.2).map ch] := by
    simp only [bodyText, List.map_append, List.map_cons, ch_space, Text.splitOn]
    rw [splitOnGo_append_sep _ _ _ _ (space_notin (natDec_bytes _)),
      splitOnGo_append_sep _ _ _ _ (space_notin (natDec_bytes _)),
      splitOnGo_no_sep _ _ _ (space_notin (intDec_bytes _))]
    simp
  unfold parseBody
  rw [hs]
  have h3 : Text.parseI16 ((intDec e.2.2).map ch) = some e.2.2 :=
    parseSigned_intDec (max := 32767) (by have := hv.1; omega) (by have := hv.2; omega)
  simp only [Text.parseUsize, parseUnsigned_natDec hr, parseUnsigned_natDec hl, h3]
  rfl

theorem bodyText_ne_nil (e : Nat × Nat × Int) : bodyText e ≠ [] := by
  have := (natDec_spec e.1).1
  unfold bodyText
  cases h : natDec e.1 with
  | nil => exact absurd h this
  | cons _ _ => simp

/-- The table after the body lines: every line stores its value at `left * num_right + right`. -/
def fill (nr : Nat) (data : List Int) (ents : List (Nat × Nat × Int)) : List Int :=
  ents.foldl (fun d e => d.set (e.2.1 * nr + e.1) e.2.2) data

/-- In-range entries with 16-bit values. -/
def EntOK (nr nl : Nat) (e : Nat × Nat × Int) : Prop :=
  e.1 < nr ∧ e.2.1 < nl ∧ -32768 ≤ e.2.2 ∧ e.2.2 ≤ 32767

theorem bodyLines_ents (nr nl : Nat) (hnr : nr ≤ 65535) (hnl : nl ≤ 65535) :
    ∀ (ents : List (Nat × Nat × Int)) (data : List Int), (∀ e ∈ ents, EntOK nr nl e) →
      bodyLines nr nl data (ents.map bodyText) = .ok (fill nr data ents) := by
  intro ents
  induction ents with
  | nil => intro data _; rfl
  | cons e ents ih =>
    intro data h
    obtain ⟨h1, h2, h3, h4⟩ := h e (by simp)
    have hdec := decodeLine_ascii (fun b hb => (bodyText_bytes e b hb).1)
    have hemp : (String.ofList ((bodyText e).map ch)).isEmpty = false := by
      rw [ofList_isEmpty]
      cases hb : bodyText e with
      | nil => exact absurd hb (bodyText_ne_nil e)
      | cons _ _ => rfl
    have hp := parseBody_bodyText e (by omega) (by omega) ⟨h3, h4⟩
    have hrange : ¬ (nr ≤ e.1 ∨ nl ≤ e.2.1) := by omega
    simp only [List.map_cons, bodyLines, hdec, hemp, String.toList_ofList, hp, hrange, if_false,
      Bool.false_eq_true]
    rw [ih _ (fun x hx => h x (by simp [hx]))]
    rfl


/-! ## F. The filled table -/

theorem fill_length (nr : Nat) (ents : List (Nat × Nat × Int)) (data : List Int) :
    (fill nr data ents).length = data.length := by
  induction ents generalizing data with
  | nil => rfl
  | cons e ents ih => simp only [fill, List.foldl_cons] at ih ⊢; rw [ih]; simp

/-- `(r, l) ↦ l * nr + r` is injective on `r < nr`. -/
theorem key_inj {nr r l r' l' : Nat} (hr : r < nr) (hr' : r' < nr)
    (h : l * nr + r = l' * nr + r') : r = r' ∧ l = l' := by
  have h1 : (l * nr + r) % nr = r := by
    rw [Nat.add_comm, Nat.add_mul_mod_self_right]; exact Nat.mod_eq_of_lt hr
  have h2 : (l' * nr + r') % nr = r' := by
    rw [Nat.add_comm, Nat.add_mul_mod_self_right]; exact Nat.mod_eq_of_lt hr'
  have hrr : r = r' := by rw [← h1, ← h2, h]
  subst hrr
  have hpos : 0 < nr := by omega
  have : l * nr = l' * nr := by omega
  exact ⟨rfl, Nat.eq_of_mul_eq_mul_right hpos this⟩

theorem key_lt {nr nl r l : Nat} (hr : r < nr) (hl : l < nl) : l * nr + r < nr * nl := by
  have : (l + 1) * nr ≤ nl * nr := Nat.mul_le_mul_right nr hl
  rw [Nat.add_mul, Nat.mul_comm nl nr] at this
  omega

/-- Entries with pairwise different `(right, left)`. -/
def KeysDistinct (ents : List (Nat × Nat × Int)) : Prop :=
  ents.Pairwise fun a b => ¬ (a.1 = b.1 ∧ a.2.1 = b.2.1)

theorem fill_untouched (nr : Nat) (ents : List (Nat × Nat × Int)) (data : List Int) (p : Nat)
    (h : ∀ e ∈ ents, e.2.1 * nr + e.1 ≠ p) : (fill nr data ents)[p]? = data[p]? := by
  induction ents generalizing data with
  | nil => rfl
  | cons e ents ih =>
    simp only [fill, List.foldl_cons] at ih ⊢
    rw [ih _ (fun x hx => h x (by simp [hx]))]
    exact List.getElem?_set_ne (h e (by simp))

/-- **Reading the filled table.**  With all entries in range and pairwise different keys, every
entry is read back and every other position keeps its initial value. -/
theorem fill_spec (nr nl : Nat) (ents : List (Nat × Nat × Int)) (data : List Int)
    (hlen : data.length = nr * nl) (hok : ∀ e ∈ ents, EntOK nr nl e) (hd : KeysDistinct ents) :
    (∀ e ∈ ents, (fill nr data ents)[e.2.1 * nr + e.1]? = some e.2.2) ∧
    (∀ r l, r < nr → l < nl → (∀ e ∈ ents, ¬ (e.1 = r ∧ e.2.1 = l)) →
      (fill nr data ents)[l * nr + r]? = data[l * nr + r]?) := by
  constructor
  · induction ents generalizing data with
    | nil => intro e he; cases he
    | cons x ents ih =>
      intro e he
      have hx := hok x (by simp)
      simp only [List.mem_cons] at he
      rcases he with rfl | he
      · simp only [fill, List.foldl_cons]
        have hne : ∀ y ∈ ents, y.2.1 * nr + y.1 ≠ e.2.1 * nr + e.1 := by
          intro y hy heq
          have hyo := hok y (by simp [hy])
          have := key_inj hyo.1 hx.1 heq
          exact (List.rel_of_pairwise_cons hd hy) ⟨this.1.symm, this.2.symm⟩
        have := fill_untouched nr ents (data.set (e.2.1 * nr + e.1) e.2.2) _ hne
        simp only [fill] at this
        rw [this]
        have hlt : e.2.1 * nr + e.1 < data.length := by rw [hlen]; exact key_lt hx.1 hx.2.1
        simp [hlt]
      · simp only [fill, List.foldl_cons]
        exact ih (data.set (x.2.1 * nr + x.1) x.2.2) (by simpa using hlen)
          (fun y hy => hok y (by simp [hy])) (List.Pairwise.of_cons hd) e he
  · intro r l hr hl hno
    apply fill_untouched
    intro e he heq
    have heo := hok e he
    have := key_inj heo.1 hr heq
    exact hno e he ⟨this.1, this.2⟩


/-! ## G. `MatrixDef.parse` of the emitted `matrix.def` -/

section
open Vibrato.Trainer.WeightOps
variable {W S : Type} [WeightOps W S]

/-- The `(right, left, cost)` triples written for the rows `r0, r0+1, …` of the merged matrix, in
file order. -/
def entsOf (s : S) : List (List (Nat × W)) → Nat → List (Nat × Nat × Int)
  | [], _ => []
  | row :: rest, r => row.map (fun e => (r, e.1, cost16 e.2 s)) ++ entsOf s rest (r + 1)

theorem mem_entsOf (s : S) (rows : List (List (Nat × W))) (r0 : Nat) (x : Nat × Nat × Int) :
    x ∈ entsOf s rows r0 ↔
      ∃ i row e, rows[i]? = some row ∧ e ∈ row ∧ x = (r0 + i, e.1, cost16 e.2 s) := by
  induction rows generalizing r0 with
  | nil => simp [entsOf]
  | cons row rest ih =>
    simp only [entsOf, List.mem_append, List.mem_map, ih]
    constructor
    · rintro (⟨e, he, rfl⟩ | ⟨i, row', e, hi, he, rfl⟩)
      · exact ⟨0, row, e, by simp, he, by simp⟩
      · exact ⟨i + 1, row', e, by simpa using hi, he, by simp; omega⟩
    · rintro ⟨i, row', e, hi, he, rfl⟩
      cases i with
      | zero =>
        simp only [List.getElem?_cons_zero, Option.some.injEq] at hi
        subst hi
        exact .inl ⟨e, he, by simp⟩
      | succ i =>
        exact .inr ⟨i, row', e, by simpa using hi, he, by simp; omega⟩

theorem matrixLines_eq (s : S) (rows : List (List (Nat × W))) (r0 : Nat)
    (hsorted : ∀ row ∈ rows, row.Pairwise (fun a b => a.1 < b.1)) :
    matrixLines s rows r0 = (entsOf s rows r0).flatMap (fun e => bodyText e ++ [10]) := by
  induction rows generalizing r0 with
  | nil => rfl
  | cons row rest ih =>
    simp only [matrixLines, entsOf, List.flatMap_append,
      ih (r0 + 1) (fun x hx => hsorted x (by simp [hx]))]
    congr 1
    simp only [matrixRowLines, Vibrato.C14.sortByKey_sorted row (hsorted row (by simp)),
      List.flatMap_map]
    congr 1
    funext e
    simp [bodyText, nl]

theorem entsOf_distinct (s : S) (rows : List (List (Nat × W))) (r0 : Nat)
    (hsorted : ∀ row ∈ rows, row.Pairwise (fun a b => a.1 < b.1)) :
    KeysDistinct (entsOf s rows r0) := by
  induction rows generalizing r0 with
  | nil => exact List.Pairwise.nil
  | cons row rest ih =>
    simp only [entsOf, KeysDistinct]
    rw [List.pairwise_append]
    refine ⟨?_, ih (r0 + 1) (fun x hx => hsorted x (by simp [hx])), ?_⟩
    · rw [List.pairwise_map]
      exact (hsorted row (by simp)).imp (fun h hc => by simp at hc; omega)
    · intro a ha b hb
      obtain ⟨e, _, rfl⟩ := List.mem_map.mp ha
      obtain ⟨i, _, e', _, _, rfl⟩ := (mem_entsOf s rest (r0 + 1) b).mp hb
      simp; omega

/-- The emitted file as a list of `\n`-terminated lines. -/
theorem matrixFile_lines (mm : Merged W) (s : S)
    (hsorted : ∀ row ∈ mm.matrix, row.Pairwise (fun a b => a.1 < b.1)) :
    matrixFile mm s =
      (headText (mm.rightConn.length + 1) (mm.leftConn.length + 1) ::
        (entsOf s mm.matrix 0).map bodyText).flatMap (fun l => l ++ [10]) := by
  simp only [matrixFile, matrixLines_eq s mm.matrix 0 hsorted, List.flatMap_cons, List.flatMap_map]
  simp [headText, nl]

/-- **`matrix.def` read back (closed form).**  For a merged model whose matrix has
`|right classes| + 1` rows with strictly increasing left ids `≤ |left classes|`, 16-bit costs
and at most 65534 classes per side, `MatrixConnector::from_reader` accepts the emitted file and
returns the header dimensions and the zero table overwritten by the written triples. -/
theorem parse_matrixFile (mm : Merged W) (s : S)
    (hrows : mm.matrix.length = mm.rightConn.length + 1)
    (hcols : ∀ row ∈ mm.matrix,
      (∀ e ∈ row, e.1 ≤ mm.leftConn.length) ∧ row.Pairwise (fun a b => a.1 < b.1))
    (hcost : ∀ row ∈ mm.matrix, ∀ e ∈ row, -32768 ≤ cost16 e.2 s ∧ cost16 e.2 s ≤ 32767)
    (hL : mm.leftConn.length < 65535) (hR : mm.rightConn.length < 65535) :
    MatrixDef.parse (matrixFile mm s) = .ok
      { numRight := mm.rightConn.length + 1, numLeft := mm.leftConn.length + 1,
        data := fill (mm.rightConn.length + 1)
          (List.replicate ((mm.rightConn.length + 1) * (mm.leftConn.length + 1)) 0)
          (entsOf s mm.matrix 0) } ∧
    (∀ e ∈ entsOf s mm.matrix 0, EntOK (mm.rightConn.length + 1) (mm.leftConn.length + 1) e) := by
  have hsorted : ∀ row ∈ mm.matrix, row.Pairwise (fun a b => a.1 < b.1) :=
    fun row h => (hcols row h).2
  have hok : ∀ e ∈ entsOf s mm.matrix 0,
      EntOK (mm.rightConn.length + 1) (mm.leftConn.length + 1) e := by
    intro x hx
    obtain ⟨i, row, e, hi, he, rfl⟩ := (mem_entsOf s mm.matrix 0 x).mp hx
    have hmem : row ∈ mm.matrix := List.mem_of_getElem? hi
    have hilt : i < mm.matrix.length := by
      rcases Nat.lt_or_ge i mm.matrix.length with h | h
      · exact h
      · rw [List.getElem?_eq_none h] at hi; cases hi
    have h1 := (hcols row hmem).1 e he
    have h2 := hcost row hmem e he
    exact ⟨by simp only; omega, by simp only; omega, h2.1, h2.2⟩
  refine ⟨?_, hok⟩
  have hlines : rawLines (matrixFile mm s) =
      headText (mm.rightConn.length + 1) (mm.leftConn.length + 1) ::
        (entsOf s mm.matrix 0).map bodyText := by
    rw [matrixFile_lines mm s hsorted]
    apply rawLines_lines
    intro l hl
    simp only [List.mem_cons, List.mem_map] at hl
    rcases hl with rfl | ⟨e, _, rfl⟩
    · exact ⟨fun h => (headText_bytes _ _ _ h).2.1 rfl, fun h => (headText_bytes _ _ _ h).2.2 rfl⟩
    · exact ⟨fun h => (bodyText_bytes _ _ h).2.1 rfl, fun h => (bodyText_bytes _ _ h).2.2 rfl⟩
  unfold MatrixDef.parse
  rw [hlines]
  simp only [decodeLine_ascii (fun b hb => (headText_bytes _ _ b hb).1), String.toList_ofList,
    parseHeader_headText (show mm.rightConn.length + 1 ≤ 65535 by omega)
      (show mm.leftConn.length + 1 ≤ 65535 by omega),
    bodyLines_ents _ _ (show mm.rightConn.length + 1 ≤ 65535 by omega)
      (show mm.leftConn.length + 1 ≤ 65535 by omega) _ _ hok]

end


/-! ## I. `SystemDictionaryBuilder::from_readers` succeeds when every part does -/

/-- Rows of a parsed lexicon CSV as the builder sees them. -/
def rowsOf (es : List LexCsv.RawEntry) : List SimpleCsv.Row :=
  es.map fun e =>
    { surface := e.surface, left := e.leftId, right := e.rightId, cost := e.wordCost,
      feature := e.feature }

def paramsOf (es : List LexCsv.RawEntry) : List WordParam :=
  es.map fun e => ⟨e.leftId, e.rightId, e.wordCost⟩

theorem parseLexCsv_ok {bytes : List UInt8} {es : List LexCsv.RawEntry}
    (h : LexCsv.parseCsv true bytes = .ok es) : parseLexCsv Fixes.all bytes = .ok (rowsOf es) := by
  simp only [parseLexCsv, Fixes.all, h, rowsOf]

/-- `Lexicon::from_entries`: succeeds on a non-empty list of rows whose surfaces decode and
contain no U+0000; entry `i` has the parameters of row `i`. -/
theorem lexOfRows_ok (es : List LexCsv.RawEntry) (hne : es ≠ [])
    (hsurf : ∀ e ∈ es, ∃ cps, codePoints e.surface = some cps ∧ 0 ∉ cps) :
    ∃ L, lexOfRows (rowsOf es) = some L ∧ L.entries.map (·.param) = paramsOf es ∧
      L.features = es.map (·.feature) ∧
      L.entries.map (fun e => some e.surface) = es.map (fun e => codePoints e.surface) := by
  let g : SimpleCsv.Row → LexEntry := fun r =>
    { surface := (codePoints r.surface).getD [], param := ⟨r.left, r.right, r.cost⟩ }
  have hm := mapM_option_of_all
    (fun (r : SimpleCsv.Row) => do
      let cps ← codePoints r.surface
      pure ({ surface := cps, param := ⟨r.left, r.right, r.cost⟩ } : LexEntry)) g (rowsOf es)
    (by
      intro r hr
      obtain ⟨e, he, rfl⟩ := List.mem_map.mp hr
      obtain ⟨cps, hc, _⟩ := hsurf e he
      simp [g, hc])
  have hemp : ((rowsOf es).map g).isEmpty = false := by
    cases es with
    | nil => exact absurd rfl hne
    | cons _ _ => rfl
  have hany : ((rowsOf es).map g).any (fun e => e.surface.contains 0) = false := by
    rw [List.any_eq_false]
    intro x hx
    obtain ⟨r, hr, rfl⟩ := List.mem_map.mp hx
    obtain ⟨e, he, rfl⟩ := List.mem_map.mp hr
    obtain ⟨cps, hc, h0⟩ := hsurf e he
    simpa [g, hc] using h0
  refine ⟨{ entries := (rowsOf es).map g, features := (rowsOf es).map (·.feature) }, ?_, ?_, ?_, ?_⟩
  · simp only [Option.bind_eq_bind] at hm
    simp only [lexOfRows, Option.bind_eq_bind, hm, Option.bind_some, hemp, hany,
      Bool.false_eq_true, if_false]
    rfl
  · simp [rowsOf, paramsOf, g, List.map_map, Function.comp_def]
  · simp [rowsOf, List.map_map, Function.comp_def]
  · simp only [rowsOf, List.map_map, Function.comp_def, g]
    apply List.map_congr_left
    intro e he
    obtain ⟨cps, hc, _⟩ := hsurf e he
    simp [hc]

/-- `UnkHandler::from_reader`: succeeds when every first cell is the name of a category of the
`char.def`; every resulting entry carries the parameters of one of the rows. -/
theorem unkOfRows_ok (P : CharProp) (es : List LexCsv.RawEntry)
    (hcat : ∀ e ∈ es, ∃ name ∈ P.names, decodeLine e.surface = some name) :
    ∃ U, unkOfRows P (rowsOf es) = some U ∧ ∀ u ∈ U, u.param ∈ paramsOf es := by
  let g : SimpleCsv.Row → UnkEntryM := fun r =>
    { cateId := P.names.idxOf ((decodeLine r.surface).getD ""), param := ⟨r.left, r.right, r.cost⟩,
      feature := r.feature }
  have hm := mapM_option_of_all
    (fun (r : SimpleCsv.Row) => do
      let name ← Text.decodeLine r.surface
      let id ← P.cateId name
      pure ({ cateId := id, param := ⟨r.left, r.right, r.cost⟩, feature := r.feature } : UnkEntryM))
    g (rowsOf es)
    (by
      intro r hr
      obtain ⟨e, he, rfl⟩ := List.mem_map.mp hr
      obtain ⟨name, hn, hd⟩ := hcat e he
      have : P.names.idxOf name < P.names.length := List.idxOf_lt_length_of_mem hn
      simp [g, hd, CharProp.cateId, this])
  simp only [Option.bind_eq_bind] at hm
  refine ⟨_, by simp only [unkOfRows, Option.bind_eq_bind, hm, Option.bind_some]; rfl, ?_⟩
  intro u hu
  simp only [List.mem_flatMap, List.mem_range, List.mem_filter] at hu
  obtain ⟨c, _, hu, _⟩ := hu
  obtain ⟨r, hr, rfl⟩ := List.mem_map.mp hu
  obtain ⟨e, he, rfl⟩ := List.mem_map.mp hr
  exact List.mem_map.mpr ⟨e, he, rfl⟩

theorem paramsInRange_of_mem {ps qs : List WordParam} {nl nr : Nat}
    (h : paramsInRange ps nl nr = true) (hsub : ∀ q ∈ qs, q ∈ ps) :
    paramsInRange qs nl nr = true := by
  simp only [paramsInRange, List.all_eq_true] at h ⊢
  exact fun q hq => h q (hsub q hq)

/-- **Assembly.**  `SystemDictionaryBuilder::from_readers` returns a dictionary as soon as the
four files parse, the lexicon is non-empty with decodable NUL-free surfaces, the unknown rows
name categories of the `char.def`, and all ids are inside the matrix. -/
theorem buildMatrixDict_ok {lex matrix chardef unk : List UInt8}
    {lents uents : List LexCsv.RawEntry} {M : Matrix} {P : CharProp}
    (hlex : LexCsv.parseCsv true lex = .ok lents) (hM : MatrixDef.parse matrix = .ok M)
    (hP : CharDef.parse chardef = .ok P) (hunk : LexCsv.parseCsv true unk = .ok uents)
    (hne : lents ≠ [])
    (hsurf : ∀ e ∈ lents, ∃ cps, codePoints e.surface = some cps ∧ 0 ∉ cps)
    (hcat : ∀ e ∈ uents, ∃ name ∈ P.names, decodeLine e.surface = some name)
    (hlr : paramsInRange (paramsOf lents) M.numLeft M.numRight = true)
    (hur : paramsInRange (paramsOf uents) M.numLeft M.numRight = true) :
    ∃ L U, lexOfRows (rowsOf lents) = some L ∧ unkOfRows P (rowsOf uents) = some U ∧
      L.entries.map (·.param) = paramsOf lents ∧ L.features = lents.map (·.feature) ∧
      buildMatrixDict Fixes.all lex matrix chardef unk = .ok
        { sys := L, user := none, numRight := M.numRight, numLeft := M.numLeft,
          conn := (List.range M.numRight).flatMap fun r =>
            (List.range M.numLeft).map fun l => M.cost r l,
          mapper := none, chars := P, unk := U } := by
  obtain ⟨L, hL, hLp, hLf, _⟩ := lexOfRows_ok lents hne hsurf
  obtain ⟨U, hU, hUp⟩ := unkOfRows_ok P uents hcat
  refine ⟨L, U, hL, hU, hLp, hLf, ?_⟩
  have h1 : paramsInRange (L.entries.map (·.param)) M.numLeft M.numRight = true := by
    rw [hLp]; exact hlr
  have h2 : paramsInRange (U.map (·.param)) M.numLeft M.numRight = true :=
    paramsInRange_of_mem hur (by
      intro q hq
      obtain ⟨u, hu, rfl⟩ := List.mem_map.mp hq
      exact hUp u hu)
  simp only [buildMatrixDict, parseLexCsv_ok hlex, hM, hP, parseLexCsv_ok hunk, hU, hL, h1, h2,
    not_true_eq_false, if_false]


/-! ## H. The two models of `from_utf8` agree

`LexCsv.validUtf8` (the automaton used by the csv reader model) accepts exactly the byte strings
that `String.fromUTF8?` (`Text.decodeLine`, used by the line readers and by `codePoints`)
decodes: both are `∃ l : List Char, bytes = encs l`. -/

open Vibrato.LexCsv (utf8Run utf8Step validUtf8 U8State)

theorem ofNat_val {v : Nat} (h : v.isValidChar) : (Char.ofNat v).val.toNat = v := by
  simp [Char.ofNat, h, Char.ofNatAux]

theorem byte_eq {n : Nat} {b : UInt8} (h : n = b.toNat) : UInt8.ofNat n = b := by
  rw [h, UInt8.ofNat_toNat]

/-- Continuation byte `80..BF`. -/
def Cont (b : UInt8) : Prop := 0x80 ≤ b.toNat ∧ b.toNat ≤ 0xBF

theorem enc2 {b0 b1 : UInt8} (h0 : 0xC2 ≤ b0.toNat ∧ b0.toNat ≤ 0xDF) (h1 : Cont b1) :
    ∃ c, String.utf8EncodeChar c = [b0, b1] := by
  obtain ⟨h1a, h1b⟩ := h1
  have hv : ((b0.toNat - 0xC0) * 64 + (b1.toNat - 0x80)).isValidChar := Or.inl (by omega)
  refine ⟨Char.ofNat ((b0.toNat - 0xC0) * 64 + (b1.toNat - 0x80)), ?_⟩
  unfold String.utf8EncodeChar
  simp only [ofNat_val hv]
  rw [if_neg (by omega), if_pos (by omega), byte_eq (b := b0) (by omega), byte_eq (b := b1) (by omega)]

theorem enc3 {b0 b1 b2 : UInt8} (h0 : 0xE0 ≤ b0.toNat ∧ b0.toNat ≤ 0xEF) (h1 : Cont b1)
    (h2 : Cont b2) (hE0 : b0.toNat = 0xE0 → 0xA0 ≤ b1.toNat) (hED : b0.toNat = 0xED → b1.toNat ≤ 0x9F) :
    ∃ c, String.utf8EncodeChar c = [b0, b1, b2] := by
  obtain ⟨h1a, h1b⟩ := h1
  obtain ⟨h2a, h2b⟩ := h2
  have hv : ((b0.toNat - 0xE0) * 4096 + (b1.toNat - 0x80) * 64 + (b2.toNat - 0x80)).isValidChar := by
    rcases Nat.lt_or_ge b0.toNat 0xED with h | h
    · exact Or.inl (by omega)
    · rcases Nat.eq_or_lt_of_le h with h | h
      · have := hED h.symm; exact Or.inl (by omega)
      · exact Or.inr ⟨by omega, by omega⟩
  refine ⟨Char.ofNat ((b0.toNat - 0xE0) * 4096 + (b1.toNat - 0x80) * 64 + (b2.toNat - 0x80)), ?_⟩
  unfold String.utf8EncodeChar
  simp only [ofNat_val hv]
  have : 0xE0 < b0.toNat ∨ 0xA0 ≤ b1.toNat := by omega
  rw [if_neg (by omega), if_neg (by omega), if_pos (by omega), byte_eq (b := b0) (by omega),
    byte_eq (b := b1) (by omega), byte_eq (b := b2) (by omega)]

theorem enc4 {b0 b1 b2 b3 : UInt8} (h0 : 0xF0 ≤ b0.toNat ∧ b0.toNat ≤ 0xF4) (h1 : Cont b1)
    (h2 : Cont b2) (h3 : Cont b3) (hF0 : b0.toNat = 0xF0 → 0x90 ≤ b1.toNat)
    (hF4 : b0.toNat = 0xF4 → b1.toNat ≤ 0x8F) :
    ∃ c, String.utf8EncodeChar c = [b0, b1, b2, b3] := by
  obtain ⟨h1a, h1b⟩ := h1
  obtain ⟨h2a, h2b⟩ := h2
  obtain ⟨h3a, h3b⟩ := h3
  have hv : ((b0.toNat - 0xF0) * 262144 + (b1.toNat - 0x80) * 4096 + (b2.toNat - 0x80) * 64 +
      (b3.toNat - 0x80)).isValidChar := Or.inr ⟨by omega, by omega⟩
  refine ⟨Char.ofNat ((b0.toNat - 0xF0) * 262144 + (b1.toNat - 0x80) * 4096 +
    (b2.toNat - 0x80) * 64 + (b3.toNat - 0x80)), ?_⟩
  unfold String.utf8EncodeChar
  simp only [ofNat_val hv]
  have : 0xF0 < b0.toNat ∨ 0x90 ≤ b1.toNat := by omega
  rw [if_neg (by omega), if_neg (by omega), if_neg (by omega), byte_eq (b := b0) (by omega),
    byte_eq (b := b1) (by omega), byte_eq (b := b2) (by omega), byte_eq (b := b3) (by omega)]


theorem le_toNat {a b : UInt8} : a ≤ b ↔ a.toNat ≤ b.toNat := UInt8.le_iff_toNat_le
theorem lt_toNat {a b : UInt8} : a < b ↔ a.toNat < b.toNat := UInt8.lt_iff_toNat_lt
theorem eq_toNat {a b : UInt8} : a = b ↔ a.toNat = b.toNat := UInt8.toNat_inj.symm

/-- One step of the automaton from a state that expects a byte in `[lo, hi]`. -/
theorem run_range {s s' : U8State} {lo hi : UInt8}
    (hstep : ∀ b, utf8Step s b = if lo ≤ b ∧ b ≤ hi then some s' else none)
    {l : List UInt8} (hs : s ≠ .start) (h : utf8Run s l = some .start) :
    ∃ b r, l = b :: r ∧ lo.toNat ≤ b.toNat ∧ b.toNat ≤ hi.toNat ∧ utf8Run s' r = some .start := by
  cases l with
  | nil => simp only [utf8Run, Option.some.injEq] at h; exact absurd h hs
  | cons b r =>
    by_cases hb : lo ≤ b ∧ b ≤ hi
    · simp only [utf8Run, hstep, hb, and_self, if_true] at h
      exact ⟨b, r, rfl, le_toNat.mp hb.1, le_toNat.mp hb.2, h⟩
    · simp only [utf8Run, hstep, hb, if_false] at h
      cases h

theorem run_c1 {l : List UInt8} (h : utf8Run .c1 l = some .start) :
    ∃ b r, l = b :: r ∧ Cont b ∧ utf8Run .start r = some .start := by
  obtain ⟨b, r, e, h1, h2, h3⟩ := run_range (s' := .start) (lo := 0x80) (hi := 0xBF) (fun _ => rfl) (by decide) h
  exact ⟨b, r, e, ⟨h1, h2⟩, h3⟩

theorem run_c2 {l : List UInt8} (h : utf8Run .c2 l = some .start) :
    ∃ b1 b2 r, l = b1 :: b2 :: r ∧ Cont b1 ∧ Cont b2 ∧ utf8Run .start r = some .start := by
  obtain ⟨b, r, e, h1, h2, h3⟩ := run_range (s' := .c1) (lo := 0x80) (hi := 0xBF) (fun _ => rfl) (by decide) h
  obtain ⟨b2, r2, e2, hc, h4⟩ := run_c1 h3
  exact ⟨b, b2, r2, by rw [e, e2], ⟨h1, h2⟩, hc, h4⟩

theorem run_c3 {l : List UInt8} (h : utf8Run .c3 l = some .start) :
    ∃ b1 b2 b3 r, l = b1 :: b2 :: b3 :: r ∧ Cont b1 ∧ Cont b2 ∧ Cont b3 ∧
      utf8Run .start r = some .start := by
  obtain ⟨b, r, e, h1, h2, h3⟩ := run_range (s' := .c2) (lo := 0x80) (hi := 0xBF) (fun _ => rfl) (by decide) h
  obtain ⟨b2, b3, r2, e2, hc2, hc3, h4⟩ := run_c2 h3
  exact ⟨b, b2, b3, r2, by rw [e, e2], ⟨h1, h2⟩, hc2, hc3, h4⟩

set_option linter.unusedSimpArgs false in
/-- A non-empty accepted string starts with the encoding of a character, followed by an
accepted string. -/
theorem run_start_cons {b0 : UInt8} {rest : List UInt8}
    (h : utf8Run .start (b0 :: rest) = some .start) :
    ∃ c r, b0 :: rest = String.utf8EncodeChar c ++ r ∧ utf8Run .start r = some .start := by
  by_cases hlt : b0 < 0x80
  · simp only [utf8Run, utf8Step, hlt, and_self, if_true, if_false] at h
    -- ASCII
    have : b0 < 128 := hlt
    exact ⟨ch b0, rest, by rw [enc_ch this]; rfl, h⟩
  ·
    by_cases h2 : 0xC2 ≤ b0 ∧ b0 ≤ 0xDF
    · simp only [utf8Run, utf8Step, hlt, h2, and_self, if_true, if_false] at h
      obtain ⟨b1, r, e, hc, hr⟩ := run_c1 h
      obtain ⟨c, hcenc⟩ := enc2 ⟨le_toNat.mp h2.1, le_toNat.mp h2.2⟩ hc
      exact ⟨c, r, by rw [hcenc, e]; rfl, hr⟩
    ·
      by_cases he0 : b0 = 0xE0
      · simp only [utf8Run, utf8Step, hlt, h2, he0, and_self, if_true, if_false] at h
        obtain ⟨b1, r1, e1, h1a, h1b, h3⟩ := run_range (s' := .c1) (lo := 0xA0) (hi := 0xBF) (fun _ => rfl) (by decide) h
        obtain ⟨b2, r, e2, hc2, hr⟩ := run_c1 h3
        have hb0 : b0.toNat = 0xE0 := eq_toNat.mp he0
        have h1a' : 0xA0 ≤ b1.toNat := h1a
        have h1b' : b1.toNat ≤ 0xBF := h1b
        obtain ⟨c, hcenc⟩ := enc3 (b0 := b0) (b1 := b1) (b2 := b2) (by omega) ⟨by omega, h1b'⟩ hc2
          (fun _ => h1a') (by omega)
        exact ⟨c, r, by rw [hcenc, e1, e2]; rfl, hr⟩
      ·
        by_cases hed : b0 = 0xED
        · simp only [utf8Run, utf8Step, hlt, h2, he0, hed, and_self, if_true, if_false] at h
          obtain ⟨b1, r1, e1, h1a, h1b, h3⟩ := run_range (s' := .c1) (lo := 0x80) (hi := 0x9F) (fun _ => rfl) (by decide) h
          obtain ⟨b2, r, e2, hc2, hr⟩ := run_c1 h3
          have hb0 : b0.toNat = 0xED := eq_toNat.mp hed
          have h1a' : 0x80 ≤ b1.toNat := h1a
          have h1b' : b1.toNat ≤ 0x9F := h1b
          obtain ⟨c, hcenc⟩ := enc3 (b0 := b0) (b1 := b1) (b2 := b2) (by omega) ⟨h1a', by omega⟩ hc2
            (by omega) (fun _ => h1b')
          exact ⟨c, r, by rw [hcenc, e1, e2]; rfl, hr⟩
        ·
          by_cases h3r : 0xE1 ≤ b0 ∧ b0 ≤ 0xEF
          · simp only [utf8Run, utf8Step, hlt, h2, he0, hed, h3r, and_self, if_true, if_false] at h
            obtain ⟨b1, b2, r, e, hc1, hc2, hr⟩ := run_c2 h
            have ha : 0xE1 ≤ b0.toNat := le_toNat.mp h3r.1
            have hb : b0.toNat ≤ 0xEF := le_toNat.mp h3r.2
            have hned' : b0.toNat ≠ 0xED := fun e => hed (eq_toNat.mpr e)
            obtain ⟨c, hcenc⟩ := enc3 (b0 := b0) (b1 := b1) (b2 := b2) (by omega) hc1 hc2
              (by omega) (by omega)
            exact ⟨c, r, by rw [hcenc, e]; rfl, hr⟩
          ·
            by_cases hf0 : b0 = 0xF0
            · simp only [utf8Run, utf8Step, hlt, h2, he0, hed, h3r, hf0, and_self, if_true, if_false] at h
              obtain ⟨b1, r1, e1, h1a, h1b, h3⟩ := run_range (s' := .c2) (lo := 0x90) (hi := 0xBF) (fun _ => rfl) (by decide) h
              obtain ⟨b2, b3, r, e2, hc2, hc3, hr⟩ := run_c2 h3
              have hb0 : b0.toNat = 0xF0 := eq_toNat.mp hf0
              have h1a' : 0x90 ≤ b1.toNat := h1a
              have h1b' : b1.toNat ≤ 0xBF := h1b
              obtain ⟨c, hcenc⟩ := enc4 (b0 := b0) (b1 := b1) (b2 := b2) (b3 := b3) (by omega)
                ⟨by omega, h1b'⟩ hc2 hc3 (fun _ => h1a') (by omega)
              exact ⟨c, r, by rw [hcenc, e1, e2]; rfl, hr⟩
            ·
              by_cases hf13 : 0xF1 ≤ b0 ∧ b0 ≤ 0xF3
              · simp only [utf8Run, utf8Step, hlt, h2, he0, hed, h3r, hf0, hf13, and_self, if_true, if_false] at h
                obtain ⟨b1, b2, b3, r, e, hc1, hc2, hc3, hr⟩ := run_c3 h
                have ha : 0xF1 ≤ b0.toNat := le_toNat.mp hf13.1
                have hb : b0.toNat ≤ 0xF3 := le_toNat.mp hf13.2
                obtain ⟨c, hcenc⟩ := enc4 (b0 := b0) (b1 := b1) (b2 := b2) (b3 := b3) (by omega) hc1 hc2 hc3
                  (by omega) (by omega)
                exact ⟨c, r, by rw [hcenc, e]; rfl, hr⟩
              ·
                by_cases hf4 : b0 = 0xF4
                · simp only [utf8Run, utf8Step, hlt, h2, he0, hed, h3r, hf0, hf13, hf4, and_self, if_true, if_false] at h
                  obtain ⟨b1, r1, e1, h1a, h1b, h3⟩ := run_range (s' := .c2) (lo := 0x80) (hi := 0x8F) (fun _ => rfl) (by decide) h
                  obtain ⟨b2, b3, r, e2, hc2, hc3, hr⟩ := run_c2 h3
                  have hb0 : b0.toNat = 0xF4 := eq_toNat.mp hf4
                  have h1a' : 0x80 ≤ b1.toNat := h1a
                  have h1b' : b1.toNat ≤ 0x8F := h1b
                  obtain ⟨c, hcenc⟩ := enc4 (b0 := b0) (b1 := b1) (b2 := b2) (b3 := b3) (by omega)
                    ⟨h1a', by omega⟩ hc2 hc3 (by omega) (fun _ => h1b')
                  exact ⟨c, r, by rw [hcenc, e1, e2]; rfl, hr⟩
                ·
                  simp only [utf8Run, utf8Step, hlt, h2, he0, hed, h3r, hf0, hf13, hf4, if_false] at h
                  cases h

/-- **Accepted ⇒ decodable.**  Every byte string accepted by the csv reader's UTF-8 automaton is
the UTF-8 encoding of a list of characters. -/
theorem exists_encs_of_valid : ∀ (n : Nat) (bs : List UInt8), bs.length ≤ n →
    utf8Run .start bs = some .start → ∃ l : List Char, bs = encs l := by
  intro n
  induction n with
  | zero =>
    intro bs hlen _
    cases bs with
    | nil => exact ⟨[], rfl⟩
    | cons _ _ => simp at hlen
  | succ n ih =>
    intro bs hlen h
    cases bs with
    | nil => exact ⟨[], rfl⟩
    | cons b0 rest =>
      obtain ⟨c, r, e, hr⟩ := run_start_cons h
      have hne : String.utf8EncodeChar c ≠ [] := String.utf8EncodeChar_ne_nil
      have hlr : r.length ≤ n := by
        have := congrArg List.length e
        simp only [List.length_cons, List.length_append] at this hlen
        have : 0 < (String.utf8EncodeChar c).length := List.length_pos_iff.mpr hne
        omega
      obtain ⟨l, hl⟩ := ih r hlr hr
      exact ⟨c :: l, by rw [e, hl]; simp [encs]⟩

theorem exists_encs_of_validUtf8 {bs : List UInt8} (h : validUtf8 bs = true) : ∃ l : List Char, bs = encs l := by
  simp only [validUtf8, decide_eq_true_eq] at h
  exact exists_encs_of_valid bs.length bs (Nat.le_refl _) h


theorem decodeLine_encs (l : List Char) : decodeLine (encs l) = some (String.ofList l) :=
  fromUTF8_encs l

theorem codePoints_encs (l : List Char) : codePoints (encs l) = some (l.map Char.toNat) := by
  simp [codePoints, decodeLine_encs]

theorem zero_mem_encs {l : List Char} {c : Char} (hc : c ∈ l) (h0 : c.toNat = 0) :
    (0 : UInt8) ∈ encs l := by
  have : String.utf8EncodeChar c = [0] := by
    have h1 : c.val.toNat = 0 := h0
    rw [enc_of_ascii c (by omega), h1]; rfl
  simp only [encs, List.mem_flatMap]
  exact ⟨c, hc, by rw [this]; simp⟩

/-- A string (valid UTF-8 for the csv reader) without a zero byte decodes to code points without
U+0000 — what crawdad's key set requires. -/
theorem codePoints_of_valid {bs : List UInt8} (h : validUtf8 bs = true) (h0 : (0 : UInt8) ∉ bs) :
    ∃ cps, codePoints bs = some cps ∧ 0 ∉ cps := by
  obtain ⟨l, rfl⟩ := exists_encs_of_validUtf8 h
  refine ⟨_, codePoints_encs l, ?_⟩
  intro hm
  obtain ⟨c, hc, hz⟩ := List.mem_map.mp hm
  exact h0 (zero_mem_encs hc hz)

/-- A string (valid UTF-8 for the csv reader) is decoded by the line reader model to the string
with the same UTF-8 bytes. -/
theorem decodeLine_of_valid {bs : List UInt8} (h : validUtf8 bs = true) :
    ∃ s : String, decodeLine bs = some s ∧ encs s.toList = bs := by
  obtain ⟨l, rfl⟩ := exists_encs_of_validUtf8 h
  exact ⟨String.ofList l, decodeLine_encs l, by simp⟩


/-! ### Decodable ⇒ accepted -/

theorem toNat_ofNat_lt {n : Nat} (h : n < 256) : (UInt8.ofNat n).toNat = n := by
  rw [UInt8.toNat_ofNat']; omega

/-- The automaton's first step, on the numeric value of the byte. -/
theorem step_start (b : UInt8) : utf8Step .start b =
    if b.toNat < 0x80 then some .start
    else if 0xC2 ≤ b.toNat ∧ b.toNat ≤ 0xDF then some .c1
    else if b.toNat = 0xE0 then some .e0
    else if b.toNat = 0xED then some .ed
    else if 0xE1 ≤ b.toNat ∧ b.toNat ≤ 0xEF then some .c2
    else if b.toNat = 0xF0 then some .f0
    else if 0xF1 ≤ b.toNat ∧ b.toNat ≤ 0xF3 then some .c3
    else if b.toNat = 0xF4 then some .f4
    else none := by
  simp only [utf8Step, le_toNat, lt_toNat, eq_toNat]
  rfl

theorem step_range {s s' : U8State} {lo hi : UInt8}
    (hstep : ∀ b, utf8Step s b = if lo ≤ b ∧ b ≤ hi then some s' else none) {b : UInt8}
    (h1 : lo.toNat ≤ b.toNat) (h2 : b.toNat ≤ hi.toNat) : utf8Step s b = some s' := by
  rw [hstep, if_pos ⟨le_toNat.mpr h1, le_toNat.mpr h2⟩]

theorem run_cons {s s' : U8State} {b : UInt8} (h : utf8Step s b = some s') (rest : List UInt8) :
    utf8Run s (b :: rest) = utf8Run s' rest := by
  simp only [utf8Run, h]

/-- The automaton reads the encoding of one character and is back at a boundary. -/
theorem run_enc (c : Char) (rest : List UInt8) :
    utf8Run .start (String.utf8EncodeChar c ++ rest) = utf8Run .start rest := by
  have hvalid : c.val.toNat < 0xD800 ∨ (0xDFFF < c.val.toNat ∧ c.val.toNat < 0x110000) := c.valid
  unfold String.utf8EncodeChar
  simp only
  generalize c.val.toNat = v at hvalid
  have cont : ∀ {n : Nat}, n < 64 → ∀ {s s' : U8State},
      (∀ b, utf8Step s b = if (0x80 : UInt8) ≤ b ∧ b ≤ 0xBF then some s' else none) →
      utf8Step s (UInt8.ofNat (n + 128)) = some s' := by
    intro n hn s s' hs
    apply step_range hs <;> rw [toNat_ofNat_lt (by omega)]
    · show 128 ≤ n + 128; omega
    · show n + 128 ≤ 191; omega
  split
  · rename_i h1
    have : utf8Step .start (UInt8.ofNat v) = some .start := by
      rw [step_start, toNat_ofNat_lt (by omega), if_pos (by omega)]
    simp only [List.cons_append, List.nil_append, run_cons this]
  · split
    · rename_i h1 h2
      have s0 : utf8Step .start (UInt8.ofNat (v / 64 % 32 + 192)) = some .c1 := by
        rw [step_start, toNat_ofNat_lt (by omega), if_neg (by omega), if_pos (by omega)]
      simp only [List.cons_append, List.nil_append, run_cons s0,
        run_cons (cont (n := v % 64) (by omega) (s := .c1) (fun _ => rfl))]
    · split
      · rename_i h1 h2 h3
        have hb0 : (UInt8.ofNat (v / 4096 % 16 + 224)).toNat = v / 4096 % 16 + 224 :=
          toNat_ofNat_lt (by omega)
        have hb1 : (UInt8.ofNat (v / 64 % 64 + 128)).toNat = v / 64 % 64 + 128 :=
          toNat_ofNat_lt (by omega)
        have s2 := cont (n := v % 64) (by omega) (s := .c1) (s' := .start) (fun _ => rfl)
        simp only [List.cons_append, List.nil_append]
        by_cases he0 : v / 4096 % 16 = 0
        · have s0 : utf8Step .start (UInt8.ofNat (v / 4096 % 16 + 224)) = some .e0 := by
            rw [step_start, hb0, if_neg (by omega), if_neg (by omega), if_pos (by omega)]
          have s1 : utf8Step .e0 (UInt8.ofNat (v / 64 % 64 + 128)) = some .c1 := by
            apply step_range (lo := 0xA0) (hi := 0xBF) (fun _ => rfl) <;> rw [hb1]
            · show 160 ≤ _; omega
            · show _ ≤ 191; omega
          rw [run_cons s0, run_cons s1, run_cons s2]
        · by_cases hed : v / 4096 % 16 = 13
          · have s0 : utf8Step .start (UInt8.ofNat (v / 4096 % 16 + 224)) = some .ed := by
              rw [step_start, hb0, if_neg (by omega), if_neg (by omega), if_neg (by omega),
                if_pos (by omega)]
            have s1 : utf8Step .ed (UInt8.ofNat (v / 64 % 64 + 128)) = some .c1 := by
              apply step_range (lo := 0x80) (hi := 0x9F) (fun _ => rfl) <;> rw [hb1]
              · show 128 ≤ _; omega
              · show _ ≤ 159; omega
            rw [run_cons s0, run_cons s1, run_cons s2]
          · have s0 : utf8Step .start (UInt8.ofNat (v / 4096 % 16 + 224)) = some .c2 := by
              rw [step_start, hb0, if_neg (by omega), if_neg (by omega), if_neg (by omega),
                if_neg (by omega), if_pos (by omega)]
            have s1 := cont (n := v / 64 % 64) (by omega) (s := .c2) (s' := .c1) (fun _ => rfl)
            rw [run_cons s0, run_cons s1, run_cons s2]
      · rename_i h1 h2 h3
        have hv : v < 0x110000 := by omega
        have hb0 : (UInt8.ofNat (v / 262144 % 8 + 240)).toNat = v / 262144 % 8 + 240 :=
          toNat_ofNat_lt (by omega)
        have hb1 : (UInt8.ofNat (v / 4096 % 64 + 128)).toNat = v / 4096 % 64 + 128 :=
          toNat_ofNat_lt (by omega)
        have s2 := cont (n := v / 64 % 64) (by omega) (s := .c2) (s' := .c1) (fun _ => rfl)
        have s3 := cont (n := v % 64) (by omega) (s := .c1) (s' := .start) (fun _ => rfl)
        simp only [List.cons_append, List.nil_append]
        by_cases hf0 : v / 262144 % 8 = 0
        · have s0 : utf8Step .start (UInt8.ofNat (v / 262144 % 8 + 240)) = some .f0 := by
            rw [step_start, hb0, if_neg (by omega), if_neg (by omega), if_neg (by omega),
              if_neg (by omega), if_neg (by omega), if_pos (by omega)]
          have s1 : utf8Step .f0 (UInt8.ofNat (v / 4096 % 64 + 128)) = some .c2 := by
            apply step_range (lo := 0x90) (hi := 0xBF) (fun _ => rfl) <;> rw [hb1]
            · show 144 ≤ _; omega
            · show _ ≤ 191; omega
          rw [run_cons s0, run_cons s1, run_cons s2, run_cons s3]
        · by_cases hf4 : v / 262144 % 8 = 4
          · have s0 : utf8Step .start (UInt8.ofNat (v / 262144 % 8 + 240)) = some .f4 := by
              rw [step_start, hb0, if_neg (by omega), if_neg (by omega), if_neg (by omega),
                if_neg (by omega), if_neg (by omega), if_neg (by omega), if_neg (by omega),
                if_pos (by omega)]
            have s1 : utf8Step .f4 (UInt8.ofNat (v / 4096 % 64 + 128)) = some .c2 := by
              apply step_range (lo := 0x80) (hi := 0x8F) (fun _ => rfl) <;> rw [hb1]
              · show 128 ≤ _; omega
              · show _ ≤ 143; omega
            rw [run_cons s0, run_cons s1, run_cons s2, run_cons s3]
          · have s0 : utf8Step .start (UInt8.ofNat (v / 262144 % 8 + 240)) = some .c3 := by
              rw [step_start, hb0, if_neg (by omega), if_neg (by omega), if_neg (by omega),
                if_neg (by omega), if_neg (by omega), if_neg (by omega), if_pos (by omega)]
            have s1 := cont (n := v / 4096 % 64) (by omega) (s := .c3) (s' := .c2) (fun _ => rfl)
            rw [run_cons s0, run_cons s1, run_cons s2, run_cons s3]

/-- **Decodable ⇒ accepted.**  The UTF-8 encoding of any list of characters is accepted by the
csv reader's automaton. -/
theorem validUtf8_encs (l : List Char) : validUtf8 (encs l) = true := by
  simp only [validUtf8, decide_eq_true_eq]
  induction l with
  | nil => rfl
  | cons c l ih =>
    have : encs (c :: l) = String.utf8EncodeChar c ++ encs l := by simp [encs]
    rw [this, run_enc, ih]

/-- **The two models of `std::str::from_utf8` agree**: the automaton of the csv reader model
(`LexCsv.validUtf8`) accepts exactly the byte strings that the line reader model
(`Text.decodeLine` = `String.fromUTF8?`) decodes. -/
theorem validUtf8_iff_decodes (bs : List UInt8) :
    validUtf8 bs = true ↔ (decodeLine bs).isSome = true := by
  constructor
  · intro h
    obtain ⟨s, hs, _⟩ := decodeLine_of_valid h
    simp [hs]
  · intro h
    obtain ⟨s, hs⟩ := Option.isSome_iff_exists.mp h
    have hb : ByteArray.mk bs.toArray = s.toByteArray := by
      unfold decodeLine String.fromUTF8? at hs
      split at hs
      · simp only [Option.some.injEq] at hs
        rw [← hs]; rfl
      · cases hs
    have : bs = encs s.toList := by
      have h2 := Vibrato.MecabRT.mk_toArray_encs s.toList
      have h3 : s.toList.utf8Encode = s.toByteArray := by
        have := String.ofList_toList (s := s)
        conv => rhs; rw [← this]
        rfl
      rw [h3, ← hb] at h2
      have := congrArg (fun x : ByteArray => x.data.toList) h2
      simpa using this.symm
    rw [this]
    exact validUtf8_encs _

end Vibrato.EmitC
