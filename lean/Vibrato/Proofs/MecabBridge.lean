/-
Bridge between the feature-pair sum used in property C20 (`Vibrato.Mecab.defSum`,
`Proofs/Mecab.lean`) and the one of property C07 (`Vibrato.RawConnector.defSum`,
`Proofs/RawConnector.lean`): they are the same function, so `C20.mecab_cost_eq_sum` composes with
`C07.raw_cost_eq_sum` (the cost the compiled raw connector returns for the generated files).
-/
import Vibrato.Proofs.Mecab
import Vibrato.Proofs.RawConnector

namespace Vibrato.Mecab
open Vibrato.Extractor (Str)

theorem tableOpt_eq (es : List CostLine) (a b : Str) :
    tableOpt es a b = RawConnector.tableOpt es a b := by
  induction es with
  | nil => rfl
  | cons e rest ih =>
    simp only [tableOpt, RawConnector.tableOpt, ih]
    cases RawConnector.tableOpt rest a b <;> rfl

theorem pairCost_eq (es : List CostLine) (oa ob : Option Str) :
    pairCost es oa ob = RawConnector.pairCost es oa ob := by
  cases oa <;> cases ob <;>
    simp [pairCost, RawConnector.pairCost, RawConnector.pairOpt, table, tableOpt_eq]

theorem maxLen_eq (fss : List (List Str)) : maxLen fss = RawConnector.maxLen fss := by
  induction fss with
  | nil => rfl
  | cons f fs ih => simp only [maxLen, RawConnector.maxLen, ih]

theorem featAt_eq (fss : List (List Str)) (r pos : Nat) :
    featAt fss r pos = RawConnector.featAt fss r pos := by
  cases r <;> rfl

/-- The sum of C20 is the defining sum of C07. -/
theorem defSum_eq (es : List CostLine) (rfs lfs : List (List Str)) (r l : Nat) :
    defSum es rfs lfs r l = RawConnector.defSum es rfs lfs r l := by
  simp only [defSum, RawConnector.defSum, templateCount, RawConnector.templateCount, maxLen_eq,
    pairCost_eq, featAt_eq]

end Vibrato.Mecab
