/-
Connection ids stay inside the connector: `IdsOK` is preserved by `mapIds` and `resetUser`, and
every candidate the tokenizer offers from an `IdsOK` dictionary has ids inside the cost table.
Helper lemmas for C08 `verify_in_range` (and C06).
-/
import Vibrato.Proofs.DictRun

namespace Vibrato

theorem resetUser_idsOK {fx : Fixes} {D D' : DictM} {csv : Option (List UInt8)} (h : D.IdsOK)
    (hr : D.resetUser fx csv = .ok D') : D'.IdsOK := by
  cases csv with
  | none =>
    rw [resetUser_none] at hr
    cases hr
    exact ⟨h.sys, fun u hu => (by cases hu), h.unk⟩
  | some bytes =>
    obtain ⟨_, u', _, _, hin, rfl⟩ := resetUser_some_ok hr
    refine ⟨h.sys, ?_, h.unk⟩
    intro u hu
    simp only [Option.some.injEq] at hu
    subst hu
    exact hin

theorem mapIds_idsOK {fx : Fixes} {D D' : DictM} {l r : List Nat}
    (hm : D.mapIds fx l r = .ok D') : D.IdsOK ∧ D'.IdsOK := by
  obtain ⟨ml, mr, _, _, post⟩ := mapIds_ok hm
  refine ⟨post.idsOK, ?_⟩
  have key : ∀ p : WordParam, IdsLt D.numLeft D.numRight p →
      IdsLt D'.numLeft D'.numRight (relParam (tblFn ml) (tblFn mr) p) := by
    intro p hp
    rw [post.numLeft, post.numRight]
    exact ⟨by rw [← post.llen]; exact post.tl.getD_lt _ (by rw [post.llen]; exact hp.1),
      by rw [← post.rlen]; exact post.tr.getD_lt _ (by rw [post.rlen]; exact hp.2)⟩
  refine ⟨?_, ?_, ?_⟩
  · intro e he
    rw [post.sysE] at he
    simp only [List.mem_map] at he
    obtain ⟨e0, he0, rfl⟩ := he
    exact key _ (post.sysLt e0 he0)
  · intro u' hu' e he
    cases hu : D.user with
    | none => rw [post.userNone hu] at hu'; cases hu'
    | some u =>
      obtain ⟨u'', h1, h2, _, h4⟩ := post.user u hu
      rw [h1] at hu'
      simp only [Option.some.injEq] at hu'
      subst hu'
      rw [h2] at he
      simp only [List.mem_map] at he
      obtain ⟨e0, he0, rfl⟩ := he
      exact key _ (h4 e0 he0)
  · intro e he
    rw [post.unk] at he
    simp only [List.mem_map] at he
    obtain ⟨e0, he0, rfl⟩ := he
    exact key _ (post.unkLt e0 he0)

/-- every candidate offered inside the sentence carries ids inside the connector -/
theorem idsOK_cands {D : DictM} (h : D.IdsOK) (chars : List Nat) (o : TokOpts) (sw : Nat)
    (hsw : sw < chars.length) (c : Cand)
    (hc : c ∈ candsAt D.tokDict (compileSent D.tokDict chars) o sw) :
    c.leftId < D.numLeft ∧ c.rightId < D.numRight := by
  rcases (candsAt_spec D.tokDict chars o sw hsw c hc).2.2 with ⟨_, e, he, _, hp⟩ | ⟨_, u, e, hu, he, _, hp⟩ |
      ⟨_, p, hp, _, hpp⟩
  · have := h.sys e (List.mem_of_getElem? he)
    rw [hp] at this; exact this
  · simp only [DictM.tokDict, Option.map_eq_some_iff] at hu
    obtain ⟨u0, hu0, rfl⟩ := hu
    have := h.user u0 hu0 e (List.mem_of_getElem? he)
    rw [hp] at this; exact this
  · obtain ⟨e, he, hep⟩ := unkOf_mem D _ p hp
    have := h.unk e he
    rw [hep, hpp] at this; exact this

/-- in-range ids address a cell of the `numRight × numLeft` table -/
theorem cost_index_lt {nR nL r l : Nat} (hr : r < nR) (hl : l < nL) : r * nL + l < nR * nL := by
  have : (r + 1) * nL ≤ nR * nL := Nat.mul_le_mul_right nL hr
  rw [Nat.add_mul] at this
  omega

end Vibrato
