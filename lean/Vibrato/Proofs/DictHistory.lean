/-
Histories of `mapIds` / `resetUser` on `DictM` and their effect on tokenization.
Helper lemmas for C06 (`mapIds_tokenize`, `history_tokenize`) and C08 (`reset_last_wins`,
`verify_in_range`).
-/
import Vibrato.Proofs.DictOps

namespace Vibrato

/-! ### from `DictM` facts to `TokDictRel` -/

theorem relEntry_comp (σL σR τL τR : Nat → Nat) (es : List LexEntry) :
    (es.map (relEntry τL τR)).map (relEntry σL σR) = es.map (relEntry (σL ∘ τL) (σR ∘ τR)) := by
  rw [List.map_map]; rfl

theorem relUnk_comp (σL σR τL τR : Nat → Nat) (es : List UnkEntryM) :
    (es.map (relUnk τL τR)).map (relUnk σL σR) = es.map (relUnk (σL ∘ τL) (σR ∘ τR)) := by
  rw [List.map_map]; rfl

theorem relEntry_id (es : List LexEntry) : es.map (relEntry id id) = es := by
  have : relEntry id id = id := by funext e; rfl
  rw [this]; simp

theorem relUnk_id (es : List UnkEntryM) : es.map (relUnk id id) = es := by
  have : relUnk id id = id := by funext e; rfl
  rw [this]; simp

/-- `D'` is `D` relabelled by `σL`, `σR` (as far as the tokenizer can see). -/
theorem tokDictRel_of {σL σR : Nat → Nat} {D D' : DictM}
    (zeroL : σL 0 = 0) (zeroR : σR 0 = 0)
    (sysE : D'.sys.entries = D.sys.entries.map (relEntry σL σR))
    (user : D'.user.map (·.entries) = (D.user.map (·.entries)).map (·.map (relEntry σL σR)))
    (unk : D'.unk = D.unk.map (relUnk σL σR))
    (chars : D'.chars = D.chars)
    (ids : D.IdsOK) (posL : 0 < D.numLeft) (posR : 0 < D.numRight)
    (cost : ∀ r l, r < D.numRight → l < D.numLeft → D'.cost (σR r) (σL l) = D.cost r l) :
    TokDictRel σL σR D.tokDict D'.tokDict := by
  refine ⟨sysE, user, fun b => unkOf_rel σL σR D D' unk b, fun c => by
    show D'.chars.charInfo c = D.chars.charInfo c
    rw [chars], zeroL, zeroR, ?_⟩
  intro r l hr hl
  apply cost
  · rcases hr with rfl | ⟨e, he, rfl⟩ | ⟨u, hu, e, he, rfl⟩ | ⟨b, p, hp, rfl⟩
    · exact posR
    · exact (ids.sys e he).2
    · simp only [DictM.tokDict, Option.map_eq_some_iff] at hu
      obtain ⟨u0, hu0, rfl⟩ := hu
      exact (ids.user u0 hu0 e he).2
    · obtain ⟨e, he, hep⟩ := unkOf_mem D b p hp
      rw [← hep]; exact (ids.unk e he).2
  · rcases hl with rfl | ⟨e, he, rfl⟩ | ⟨u, hu, e, he, rfl⟩ | ⟨b, p, hp, rfl⟩
    · exact posL
    · exact (ids.sys e he).1
    · simp only [DictM.tokDict, Option.map_eq_some_iff] at hu
      obtain ⟨u0, hu0, rfl⟩ := hu
      exact (ids.user u0 hu0 e he).1
    · obtain ⟨e, he, hep⟩ := unkOf_mem D b p hp
      rw [← hep]; exact (ids.unk e he).1

theorem MapIdsPost.idsOK {fx D ml mr D'} (h : MapIdsPost fx D ml mr D') : D.IdsOK :=
  ⟨h.sysLt, fun u hu => by obtain ⟨_, _, _, _, h4⟩ := h.user u hu; exact h4, h.unkLt⟩

theorem MapIdsPost.tokDictRel {fx D ml mr D'} (h : MapIdsPost fx D ml mr D') :
    TokDictRel (tblFn ml) (tblFn mr) D.tokDict D'.tokDict := by
  apply tokDictRel_of (σL := tblFn ml) (σR := tblFn mr) h.tl.getD_zero h.tr.getD_zero h.sysE ?_ h.unk h.chars h.idsOK
    (by rw [← h.llen]; exact h.tl.pos) (by rw [← h.rlen]; exact h.tr.pos) h.cost
  cases hu : D.user with
  | none => rw [h.userNone hu]; rfl
  | some u =>
    obtain ⟨u', h1, h2, _, _⟩ := h.user u hu
    rw [h1]; simp [h2]

/-! ### `resetUser` -/

/-- the user lexicon parsed from a CSV (`Lexicon::from_reader` before id translation) -/
def userOfCsv (fx : Fixes) (bytes : List UInt8) : Outcome LexM :=
  (parseLexCsv fx bytes).bind (fun rows => Outcome.ofOption (lexOfRows rows))

def LexM.InRange (u : LexM) (nL nR : Nat) : Prop := ∀ e ∈ u.entries, IdsLt nL nR e.param

theorem paramsInRange_lex (u : LexM) (nL nR : Nat) :
    paramsInRange (u.entries.map (·.param)) nL nR = true ↔ u.InRange nL nR := by
  rw [paramsInRange_idsLt]
  simp [LexM.InRange]

/-- what a successful `resetUser (some csv)` returns -/
theorem resetUser_some_ok {fx : Fixes} {D D' : DictM} {bytes : List UInt8}
    (h : D.resetUser fx (some bytes) = .ok D') :
    ∃ u u', userOfCsv fx bytes = .ok u ∧
      ((D.mapper = none ∧ u' = u) ∨ (∃ ml mr, D.mapper = some (ml, mr) ∧ mapLex ml mr u = some u')) ∧
      u'.InRange D.numLeft D.numRight ∧ D' = { D with user := some u' } := by
  unfold DictM.resetUser at h
  dsimp only at h
  cases hp : (parseLexCsv fx bytes).bind (fun rows => Outcome.ofOption (lexOfRows rows)) with
  | err => rw [hp] at h; cases h
  | panic => rw [hp] at h; cases h
  | ok u =>
    rw [hp] at h
    dsimp only at h
    by_cases hc : fx.f2b = true ∧ ¬ paramsInRange (u.entries.map (·.param)) D.numLeft D.numRight = true
    · rw [if_pos hc] at h; cases h
    · rw [if_neg hc] at h
      cases hm : D.mapper with
      | none =>
        rw [hm] at h
        dsimp only at h
        by_cases hr : ¬ paramsInRange (u.entries.map (·.param)) D.numLeft D.numRight = true
        · rw [if_pos hr] at h; cases h
        · rw [if_neg hr] at h
          simp only [Outcome.ok.injEq] at h
          refine ⟨u, u, hp, Or.inl ⟨rfl, rfl⟩, ?_, h.symm⟩
          rw [← paramsInRange_lex]
          exact Classical.not_not.mp hr
      | some m =>
        obtain ⟨ml, mr⟩ := m
        rw [hm] at h
        dsimp only at h
        cases hl : mapLex ml mr u with
        | none => rw [hl] at h; cases h
        | some u' =>
          rw [hl] at h
          dsimp only at h
          by_cases hr : ¬ paramsInRange (u'.entries.map (·.param)) D.numLeft D.numRight = true
          · rw [if_pos hr] at h; cases h
          · rw [if_neg hr] at h
            simp only [Outcome.ok.injEq] at h
            refine ⟨u, u', hp, Or.inr ⟨ml, mr, rfl, hl⟩, ?_, h.symm⟩
            rw [← paramsInRange_lex]
            exact Classical.not_not.mp hr

theorem resetUser_none (fx : Fixes) (D : DictM) : D.resetUser fx none = .ok { D with user := none } := rfl

/-- `resetUser` does not look at the current user lexicon. -/
theorem resetUser_user_irrel (fx : Fixes) (D : DictM) (x : Option LexM) (csv : Option (List UInt8)) :
    DictM.resetUser fx { D with user := x } csv = D.resetUser fx csv := by
  cases csv <;> rfl

theorem resetUser_shape {fx : Fixes} {D D' : DictM} {csv : Option (List UInt8)}
    (h : D.resetUser fx csv = .ok D') : D' = { D with user := D'.user } := by
  cases csv with
  | none => rw [resetUser_none] at h; cases h; rfl
  | some bytes =>
    obtain ⟨_, u', _, _, _, rfl⟩ := resetUser_some_ok h
    rfl

/-- the stored mapper tables have the connector's sizes and map into the id ranges
(established by `mapIds`, see `mapIds_mapperOK`) -/
def DictM.MapperOK (D : DictM) : Prop :=
  ∀ ml mr, D.mapper = some (ml, mr) → ml.length = D.numLeft ∧ mr.length = D.numRight ∧
    (∀ x ∈ ml, x < D.numLeft) ∧ (∀ x ∈ mr, x < D.numRight)

theorem tblFn_lt {t : List Nat} {n : Nat} (h : ∀ x ∈ t, x < n) (i : Nat) (hi : i < t.length) :
    tblFn t i < n := by
  unfold tblFn
  rw [List.getD_eq_getElem?_getD, List.getElem?_eq_getElem hi]
  exact h _ (List.getElem_mem hi)

/-- `resetUser` with the repaired order of checks (F2b) is total apart from the CSV parser:
out-of-range ids and malformed CSV give `err`, everything else is accepted. -/
theorem resetUser_outcomes {fx : Fixes} (hf : fx.f2b = true) (D : DictM) (hm : D.MapperOK)
    (bytes : List UInt8) :
    (userOfCsv fx bytes = .panic → D.resetUser fx (some bytes) = .panic) ∧
    (userOfCsv fx bytes = .err → D.resetUser fx (some bytes) = .err) ∧
    (∀ u, userOfCsv fx bytes = .ok u → ¬ u.InRange D.numLeft D.numRight →
      D.resetUser fx (some bytes) = .err) ∧
    (∀ u, userOfCsv fx bytes = .ok u → u.InRange D.numLeft D.numRight →
      ∃ D', D.resetUser fx (some bytes) = .ok D') := by
  unfold userOfCsv DictM.resetUser
  dsimp only
  refine ⟨fun h => by rw [h], fun h => by rw [h], fun u h hr => ?_, fun u h hr => ?_⟩
  · rw [h]
    dsimp only
    rw [← paramsInRange_lex] at hr
    rw [if_pos ⟨hf, hr⟩]
  · rw [h]
    dsimp only
    have hr' := (paramsInRange_lex u _ _).mpr hr
    rw [if_neg (fun hc => hc.2 hr')]
    cases hmp : D.mapper with
    | none =>
      dsimp only
      rw [if_neg (fun hc => hc hr')]
      exact ⟨_, rfl⟩
    | some m =>
      obtain ⟨ml, mr⟩ := m
      dsimp only
      obtain ⟨hl, hrr, hlt, hrt⟩ := hm ml mr hmp
      rw [mapLex_of_lt u (by rw [hl, hrr]; exact hr)]
      dsimp only
      have hr2 : paramsInRange ((u.entries.map (relEntry (tblFn ml) (tblFn mr))).map (·.param))
          D.numLeft D.numRight = true := by
        rw [paramsInRange_idsLt]
        intro p hp
        simp only [List.map_map, List.mem_map, Function.comp] at hp
        obtain ⟨e, he, rfl⟩ := hp
        exact ⟨tblFn_lt hlt _ (by rw [hl]; exact (hr e he).1),
          tblFn_lt hrt _ (by rw [hrr]; exact (hr e he).2)⟩
      rw [if_neg (fun hc => hc hr2)]
      exact ⟨_, rfl⟩

end Vibrato
