/-
Helper lemmas for C13 (worker side): the worker's `probsOf` is the mapper model's
`probsSide`; algebra of `addCounts` (closed form, additivity, permutation invariance).
Core Lean only.
-/
import Vibrato.Model.Worker
import Vibrato.Proofs.MapperProbs

namespace Vibrato

/-! ### `probsOf` (worker model) = `probsSide` (mapper model) -/

theorem insertProb_eq (x : Nat × Nat) (l : List (Nat × Nat)) :
    insertProb x l = Mapper.insertSorted x l := by
  induction l with
  | nil => rfl
  | cons y ys ih =>
    have h : (x.2 > y.2 ∨ (x.2 = y.2 ∧ x.1 ≤ y.1)) ↔ Mapper.probLe x y = true := by
      simp [Mapper.probLe]
    by_cases hc : Mapper.probLe x y = true
    · simp only [insertProb, Mapper.insertSorted, hc, h.2 hc, if_true]
    · have hn : ¬ (x.2 > y.2 ∨ (x.2 = y.2 ∧ x.1 ≤ y.1)) := fun hh => hc (h.1 hh)
      simp only [insertProb, Mapper.insertSorted, hc, hn, if_false, ih]
      rfl

theorem sortProbs_eq (l : List (Nat × Nat)) : sortProbs l = Mapper.sortProbs l := by
  induction l with
  | nil => rfl
  | cons x xs ih =>
    show insertProb x (sortProbs xs) = Mapper.insertSorted x (Mapper.sortProbs xs)
    rw [ih, insertProb_eq]

theorem zipIdx_swap_eq (l : List Nat) (i : Nat) :
    (l.zipIdx i).map (fun p => (p.2, p.1)) = Mapper.enumFrom i l := by
  induction l generalizing i with
  | nil => rfl
  | cons a l ih => simp [List.zipIdx_cons, Mapper.enumFrom, ih]

/-- the worker model's `probsOf` is the mapper model's `probsSide` (panic ↦ `none`) -/
theorem probsOf_eq (counts : List Nat) :
    probsOf counts = match Mapper.probsSide counts with
      | .ok ids => some ids
      | _ => none := by
  unfold probsOf Mapper.probsSide
  rw [zipIdx_swap_eq]
  cases Mapper.enumFrom 0 counts with
  | nil => rfl
  | cons a rest => simp only [sortProbs_eq]

theorem probsOf_nil : probsOf [] = none := rfl

theorem probsOf_spec (counts : List Nat) (hne : counts ≠ []) :
    ∃ ids, probsOf counts = some ids ∧
      ids.Perm (List.range' 1 (counts.length - 1)) ∧ ids.Pairwise (Mapper.Before counts) := by
  obtain ⟨ids, h1, h2, h3⟩ := (Mapper.probsSide_spec counts).2 hne
  exact ⟨ids, by rw [probsOf_eq, h1], h2, h3⟩

theorem probsOf_some_side {counts ids : List Nat} (h : probsOf counts = some ids) :
    Mapper.probsSide counts = .ok ids := by
  rw [probsOf_eq] at h
  cases hp : Mapper.probsSide counts with
  | ok a => rw [hp] at h; simp only [Option.some.injEq] at h; rw [h]
  | err => rw [hp] at h; cases h
  | panic => rw [hp] at h; cases h

/-! ### `addCounts` -/

/-- pointwise sum of two counters -/
def addC (a b : List Nat × List Nat) : List Nat × List Nat :=
  (List.zipWith (· + ·) a.1 b.1, List.zipWith (· + ·) a.2 b.2)

/-- the counter made by `init_connid_counter` -/
def zeroC (nl nr : Nat) : List Nat × List Nat := (List.replicate nl 0, List.replicate nr 0)

/-- one `lid_count[l] += 1; rid_count[r] += 1` -/
def bump (c : List Nat × List Nat) (p : Nat × Nat) : List Nat × List Nat :=
  (c.1.modify p.1 (· + 1), c.2.modify p.2 (· + 1))

/-- how often `i` occurs as left id / `j` as right id of a pair list -/
def tallyL (ps : List (Nat × Nat)) (i : Nat) : Nat := ps.countP (fun p => p.1 == i)
def tallyR (ps : List (Nat × Nat)) (j : Nat) : Nat := ps.countP (fun p => p.2 == j)

theorem addCounts_nil (c : List Nat × List Nat) : addCounts c [] = some c := rfl

/-- the step function folded by `addCounts` -/
def countStep (acc : Option (List Nat × List Nat)) (p : Nat × Nat) : Option (List Nat × List Nat) := do
  let (l, r) ← acc
  if p.1 < l.length ∧ p.2 < r.length then
    pure (l.modify p.1 (· + 1), r.modify p.2 (· + 1))
  else none

theorem addCounts_def (c : List Nat × List Nat) (ps : List (Nat × Nat)) :
    addCounts c ps = ps.foldl countStep (some c) := rfl

theorem countStep_none (p : Nat × Nat) : countStep none p = none := rfl

theorem countStep_some (c : List Nat × List Nat) (p : Nat × Nat) :
    countStep (some c) p = if p.1 < c.1.length ∧ p.2 < c.2.length then some (bump c p) else none := by
  simp only [countStep, bump, Option.bind_eq_bind, Option.bind_some]
  rfl

theorem foldl_countStep_none (ps : List (Nat × Nat)) : ps.foldl countStep none = none := by
  induction ps with
  | nil => rfl
  | cons p ps ih => simpa [countStep_none] using ih

theorem addCounts_cons (c : List Nat × List Nat) (p : Nat × Nat) (ps : List (Nat × Nat)) :
    addCounts c (p :: ps) =
      if p.1 < c.1.length ∧ p.2 < c.2.length then addCounts (bump c p) ps else none := by
  simp only [addCounts_def, List.foldl_cons, countStep_some]
  by_cases h : p.1 < c.1.length ∧ p.2 < c.2.length
  · simp only [h, and_self, if_true]
  · simp only [h, if_false]
    exact foldl_countStep_none ps

theorem bump_length (c : List Nat × List Nat) (p : Nat × Nat) :
    (bump c p).1.length = c.1.length ∧ (bump c p).2.length = c.2.length := by
  simp [bump]

theorem zipWith_add_modify (a b : List Nat) (i : Nat) :
    List.zipWith (· + ·) a (b.modify i (· + 1)) = (List.zipWith (· + ·) a b).modify i (· + 1) := by
  apply List.ext_getElem?
  intro k
  simp only [List.getElem?_zipWith, List.getElem?_modify]
  by_cases hk : i = k
  · subst hk
    cases a[i]? <;> cases b[i]? <;> simp <;> omega
  · cases a[k]? <;> cases b[k]? <;> simp [hk]

theorem bump_addC (d c : List Nat × List Nat) (p : Nat × Nat) :
    bump (addC d c) p = addC d (bump c p) := by
  simp [bump, addC, zipWith_add_modify]

/-- `addCounts` is additive in the starting counter -/
theorem addCounts_addC (d : List Nat × List Nat) (ps : List (Nat × Nat)) :
    ∀ c : List Nat × List Nat, d.1.length = c.1.length → d.2.length = c.2.length →
      addCounts (addC d c) ps = (addCounts c ps).map (addC d) := by
  induction ps with
  | nil => intro c _ _; rfl
  | cons p ps ih =>
    intro c h1 h2
    rw [addCounts_cons, addCounts_cons]
    have hl1 : (addC d c).1.length = c.1.length := by simp [addC, h1]
    have hl2 : (addC d c).2.length = c.2.length := by simp [addC, h2]
    rw [hl1, hl2]
    by_cases h : p.1 < c.1.length ∧ p.2 < c.2.length
    · simp only [h, and_self, if_true]
      rw [bump_addC]
      exact ih (bump c p) (by rw [(bump_length c p).1]; exact h1)
        (by rw [(bump_length c p).2]; exact h2)
    · simp [h]

theorem addC_zeroC (c : List Nat × List Nat) :
    addC c (zeroC c.1.length c.2.length) = c := by
  have key : ∀ a : List Nat, List.zipWith (· + ·) a (List.replicate a.length 0) = a := by
    intro a
    induction a with
    | nil => rfl
    | cons x xs ih => simp [List.replicate_succ, ih]
  simp [addC, zeroC, key]

theorem addC_length (a b : List Nat × List Nat) (h1 : a.1.length = b.1.length)
    (h2 : a.2.length = b.2.length) :
    (addC a b).1.length = a.1.length ∧ (addC a b).2.length = a.2.length := by
  simp [addC, h1, h2]

/-- closed form of `addCounts`: it succeeds iff every pair is in range, keeps the lengths, and
adds to each id the number of pairs it occurs in -/
theorem addCounts_spec (ps : List (Nat × Nat)) :
    ∀ c c' : List Nat × List Nat, addCounts c ps = some c' →
      c'.1.length = c.1.length ∧ c'.2.length = c.2.length ∧
      (∀ i, c'.1[i]?.getD 0 = c.1[i]?.getD 0 + tallyL ps i) ∧
      (∀ j, c'.2[j]?.getD 0 = c.2[j]?.getD 0 + tallyR ps j) := by
  induction ps with
  | nil =>
    intro c c' h
    simp only [addCounts_nil, Option.some.injEq] at h
    subst h
    simp [tallyL, tallyR]
  | cons p ps ih =>
    intro c c' h
    rw [addCounts_cons] at h
    by_cases hr : p.1 < c.1.length ∧ p.2 < c.2.length
    · simp only [hr, and_self, if_true] at h
      obtain ⟨h1, h2, h3, h4⟩ := ih _ _ h
      refine ⟨by rw [h1, (bump_length c p).1], by rw [h2, (bump_length c p).2], ?_, ?_⟩
      · intro i
        rw [h3 i]
        simp only [bump, List.getElem?_modify, tallyL, List.countP_cons]
        by_cases hi : p.1 = i
        · subst hi
          rw [List.getElem?_eq_getElem hr.1]
          simp; omega
        · simp [hi]
      · intro j
        rw [h4 j]
        simp only [bump, List.getElem?_modify, tallyR, List.countP_cons]
        by_cases hj : p.2 = j
        · subst hj
          rw [List.getElem?_eq_getElem hr.2]
          simp; omega
        · simp [hj]
    · simp [hr] at h

theorem addCounts_isSome_iff (ps : List (Nat × Nat)) :
    ∀ c : List Nat × List Nat,
      (addCounts c ps).isSome ↔ ∀ p ∈ ps, p.1 < c.1.length ∧ p.2 < c.2.length := by
  induction ps with
  | nil => intro c; simp [addCounts_nil]
  | cons p ps ih =>
    intro c
    rw [addCounts_cons]
    by_cases hr : p.1 < c.1.length ∧ p.2 < c.2.length
    · simp only [hr, and_self, if_true, List.mem_cons, forall_eq_or_imp, true_and]
      rw [ih, (bump_length c p).1, (bump_length c p).2]
    · simp only [hr, if_false, Option.isSome_none, Bool.false_eq_true, List.mem_cons,
        forall_eq_or_imp, false_and]

theorem list_eq_of_getD {a b : List Nat} (hl : a.length = b.length)
    (h : ∀ i : Nat, a[i]?.getD 0 = b[i]?.getD 0) : a = b := by
  apply List.ext_getElem hl
  intro i h1 h2
  have := h i
  rw [List.getElem?_eq_getElem h1, List.getElem?_eq_getElem h2] at this
  simpa using this

/-- the order of the pairs does not matter -/
theorem addCounts_perm {ps ps' : List (Nat × Nat)} (hp : ps.Perm ps') (c : List Nat × List Nat) :
    addCounts c ps = addCounts c ps' := by
  have hsome : (addCounts c ps).isSome = (addCounts c ps').isSome := by
    rw [Bool.eq_iff_iff, addCounts_isSome_iff, addCounts_isSome_iff]
    exact ⟨fun h p hp' => h p (hp.mem_iff.2 hp'), fun h p hp' => h p (hp.mem_iff.1 hp')⟩
  cases h1 : addCounts c ps with
  | none =>
    rw [h1] at hsome
    cases h2 : addCounts c ps' with
    | none => rfl
    | some x => rw [h2] at hsome; cases hsome
  | some x =>
    rw [h1] at hsome
    cases h2 : addCounts c ps' with
    | none => rw [h2] at hsome; cases hsome
    | some y =>
      obtain ⟨a1, a2, a3, a4⟩ := addCounts_spec ps c x h1
      obtain ⟨b1, b2, b3, b4⟩ := addCounts_spec ps' c y h2
      have e1 : x.1 = y.1 := list_eq_of_getD (by rw [a1, b1]) (fun i => by
        rw [a3, b3]; simp only [tallyL]; rw [hp.countP_eq])
      have e2 : x.2 = y.2 := list_eq_of_getD (by rw [a2, b2]) (fun i => by
        rw [a4, b4]; simp only [tallyR]; rw [hp.countP_eq])
      rw [Prod.ext e1 e2]

end Vibrato
