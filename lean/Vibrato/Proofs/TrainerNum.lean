/-
Decimal printing (`natDec`, `intDec` of `Model/Trainer.lean`, the model of Rust's `{}` for
integers) against the decimal parsers of `Model/LexCsv.lean` (`parseU16`, `parseI16`, the models
of `str::parse::<u16/i16>`): printing then parsing is the identity, the digits need no CSV
quoting, and the strings are short.
-/
import Vibrato.Model.Trainer
import Vibrato.Proofs.LexCsv

namespace Vibrato.Trainer
open Vibrato.LexCsv

theorem digitVal_ofNat : ∀ k, k < 10 → digitVal (UInt8.ofNat (48 + k)) = some k := by decide

theorem digit_range : ∀ k, k < 10 →
    (48 : UInt8) ≤ UInt8.ofNat (48 + k) ∧ UInt8.ofNat (48 + k) ≤ 57 := by decide

theorem parseDigits_append (a b : List UInt8) (v : Nat) :
    parseDigits (a ++ b) v = (parseDigits a v).bind (parseDigits b) := by
  induction a generalizing v with
  | nil => simp [parseDigits]
  | cons x a ih =>
    simp only [List.cons_append, parseDigits]
    cases digitVal x with
    | none => simp
    | some d => simp [ih]

/-- Digits of a byte string: all in `'0'..'9'`. -/
def AllDigits (ds : List UInt8) : Prop := ∀ b ∈ ds, (48 : UInt8) ≤ b ∧ b ≤ 57

theorem natDecGo_spec : ∀ (fuel n : Nat) (acc : List UInt8), n < fuel →
    ∃ ds, natDecGo fuel n acc = ds ++ acc ∧ ds ≠ [] ∧ AllDigits ds ∧
      (∀ v, parseDigits ds v = some (v * 10 ^ ds.length + n)) ∧
      10 ^ (ds.length - 1) ≤ max n 1 := by
  intro fuel
  induction fuel with
  | zero => intro n acc h; omega
  | succ fuel ih =>
    intro n acc h
    by_cases hn : n < 10
    · refine ⟨[UInt8.ofNat (48 + n)], by simp [natDecGo, hn], by simp, ?_, ?_, by simp; omega⟩
      · intro b hb
        simp only [List.mem_singleton] at hb
        subst hb
        exact digit_range n hn
      · intro v
        simp only [parseDigits, digitVal_ofNat n hn, List.length_singleton, Nat.pow_one]
    · have hlt : n / 10 < fuel := by omega
      obtain ⟨ds, h1, h2, h3, h4, h5⟩ := ih (n / 10) (UInt8.ofNat (48 + n % 10) :: acc) hlt
      have hm : n % 10 < 10 := Nat.mod_lt _ (by decide)
      refine ⟨ds ++ [UInt8.ofNat (48 + n % 10)], ?_, by simp, ?_, ?_, ?_⟩
      · simp only [natDecGo, if_neg hn, h1, List.append_assoc, List.cons_append, List.nil_append]
      · intro b hb
        simp only [List.mem_append, List.mem_singleton] at hb
        rcases hb with hb | rfl
        · exact h3 b hb
        · exact digit_range _ hm
      · intro v
        rw [parseDigits_append, h4 v]
        simp only [Option.bind_some, parseDigits, digitVal_ofNat _ hm, List.length_append,
          List.length_singleton, Nat.pow_succ]
        congr 1
        have := Nat.div_add_mod n 10
        rw [Nat.add_mul, Nat.mul_assoc]
        omega
      · simp only [List.length_append, List.length_singleton, Nat.add_sub_cancel]
        have hpos : 1 ≤ ds.length := by
          cases ds with
          | nil => exact absurd rfl h2
          | cons _ _ => simp
        have h10 : 1 ≤ n / 10 := by omega
        have h5' : 10 ^ (ds.length - 1) ≤ n / 10 := by
          have : max (n / 10) 1 = n / 10 := by omega
          rw [this] at h5; exact h5
        have : 10 ^ ds.length = 10 ^ (ds.length - 1) * 10 := by
          rw [← Nat.pow_succ]; congr 1; omega
        rw [this]
        have := Nat.div_add_mod n 10
        omega

theorem natDec_spec (n : Nat) :
    natDec n ≠ [] ∧ AllDigits (natDec n) ∧
      (∀ v, parseDigits (natDec n) v = some (v * 10 ^ (natDec n).length + n)) ∧
      10 ^ ((natDec n).length - 1) ≤ max n 1 := by
  obtain ⟨ds, h1, h2, h3, h4, h5⟩ := natDecGo_spec (n + 1) n [] (by omega)
  simp only [List.append_nil] at h1
  unfold natDec
  rw [h1]
  exact ⟨h2, h3, h4, h5⟩

theorem natDec_parse (n : Nat) : parseDigits (natDec n) 0 = some n := by
  have := (natDec_spec n).2.2.1 0
  simpa using this

/-- At most 5 digits below 100000. -/
theorem natDec_length_le {n : Nat} (h : n < 100000) : (natDec n).length ≤ 5 := by
  have h5 := (natDec_spec n).2.2.2
  rcases Nat.lt_or_ge (natDec n).length 6 with hl | hl
  · omega
  · have : 10 ^ 5 ≤ 10 ^ ((natDec n).length - 1) := Nat.pow_le_pow_right (by decide) (by omega)
    omega

theorem parseU16_natDec {n : Nat} (h : n ≤ 65535) : parseU16 (natDec n) = some n := by
  obtain ⟨hne, hd, _, _⟩ := natDec_spec n
  have hp := natDec_parse n
  cases hds : natDec n with
  | nil => exact absurd hds hne
  | cons b t =>
    rw [hds] at hp hd
    have hb := hd b (by simp)
    have h43 : b ≠ 43 := by intro hc; subst hc; exact absurd hb.1 (by decide)
    have h45 : b ≠ 45 := by intro hc; subst hc; exact absurd hb.1 (by decide)
    unfold parseU16
    split
    · rename_i heq; cases heq
    · rename_i heq; cases heq; exact absurd rfl h43
    · rename_i heq; cases heq; exact absurd rfl h45
    · rename_i heq; cases heq; exact absurd rfl h43
    · rw [hp]; simp [h]

theorem parseI16_intDec {c : Int} (h : -32768 ≤ c ∧ c ≤ 32767) : parseI16 (intDec c) = some c := by
  obtain ⟨hne, hd, _, _⟩ := natDec_spec c.natAbs
  have hp := natDec_parse c.natAbs
  unfold intDec
  split
  · rename_i hneg
    -- "-" followed by the digits
    cases hds : natDec c.natAbs with
    | nil => exact absurd hds hne
    | cons b t =>
      rw [hds] at hp
      unfold parseI16
      simp only [hp, Option.bind_some]
      have : c.natAbs ≤ 32768 := by omega
      simp only [this, if_true]
      congr 1; omega
  · rename_i hnn
    cases hds : natDec c.natAbs with
    | nil => exact absurd hds hne
    | cons b t =>
      rw [hds] at hp hd
      have hb := hd b (by simp)
      have h43 : b ≠ 43 := by intro hc; subst hc; exact absurd hb.1 (by decide)
      have h45 : b ≠ 45 := by intro hc; subst hc; exact absurd hb.1 (by decide)
      unfold parseI16
      split
      · rename_i heq; cases heq
      · rename_i heq; cases heq; exact absurd rfl h43
      · rename_i heq; cases heq; exact absurd rfl h45
      · rename_i heq; cases heq; exact absurd rfl h43
      · rename_i heq; cases heq; exact absurd rfl h45
      · rw [hp]
        have : c.natAbs ≤ 32767 := by omega
        simp only [Option.bind_some, this, if_true]
        congr 1; omega

/-- Digits (and a leading minus) never need CSV quoting. -/
theorem allDigits_plain {ds : List UInt8} (h : AllDigits ds) :
    (ds.all fun b => !Vibrato.Csv.requiresQuotes b) = true := by
  rw [List.all_eq_true]
  intro b hb
  obtain ⟨h1, h2⟩ := h b hb
  have : b ≠ 44 ∧ b ≠ 34 ∧ b ≠ 13 ∧ b ≠ 10 := by
    refine ⟨?_, ?_, ?_, ?_⟩ <;> (intro hc; subst hc; exact absurd h1 (by decide))
  simp [Vibrato.Csv.requiresQuotes, this.1, this.2.1, this.2.2.1, this.2.2.2]

theorem intDec_plain (c : Int) :
    ((intDec c).all fun b => !Vibrato.Csv.requiresQuotes b) = true := by
  unfold intDec
  split
  · simp only [List.all_cons, Bool.and_eq_true]
    exact ⟨by decide, allDigits_plain (natDec_spec _).2.1⟩
  · exact allDigits_plain (natDec_spec _).2.1

theorem intDec_length_le {c : Int} (h : -32768 ≤ c ∧ c ≤ 32767) : (intDec c).length ≤ 6 := by
  have := natDec_length_le (n := c.natAbs) (by omega)
  unfold intDec
  split <;> simp <;> omega

theorem intDec_ne_nil (c : Int) : intDec c ≠ [] := by
  unfold intDec
  split
  · simp
  · exact (natDec_spec _).1

end Vibrato.Trainer
