/-
Facts about the csv-core reader port that the repaired `parse_csv_row` (finding F18: output
buffer of the size of the row) rests on:

* a call whose output buffer is at least as long as its input never reports `OutputFull`
  (`readField_ne_outputFull`): every output byte consumes an input byte;
* a cell at the end of the data is read when the buffer is as long as the rendered cell
  (`readField_cell_eof_le`);
* the output of a call on valid UTF-8 input is valid UTF-8, and the unread rest is again
  valid UTF-8 (`readField_utf8`): the reader only drops the ASCII bytes `,` `"` `\r` `\n` (and
  a leading BOM) and only stops after such a byte or at the end of the input.
-/
import Vibrato.Proofs.LexCsv

namespace Vibrato.Csv

/-! ## Sizes -/

theorem escapeQuotes_length_ge (v : List UInt8) : v.length ≤ (escapeQuotes v).length := by
  induction v with
  | nil => simp [escapeQuotes]
  | cons b v ih => simp only [escapeQuotes]; split <;> simp <;> omega

theorem Cell.value_le_render (c : Cell) : c.value.length ≤ c.render.length := by
  cases c with
  | plain v => simp [Cell.value, Cell.render]
  | quoted v =>
    have := escapeQuotes_length_ge v
    simp [Cell.value, Cell.render]; omega

theorem Cell.quoted_value_lt_render (v : List UInt8) :
    v.length + 2 ≤ (Cell.quoted v).render.length := by
  have := escapeQuotes_length_ge v
  simp [Cell.render]; omega

/-- The output of the loop is never longer than what it consumed. -/
theorem readLoop_out_le_nin (cap : Nat) (s : NfaState) (input : List UInt8) (nout : Nat) :
    (readLoop cap s input nout).2.2.length ≤ (readLoop cap s input nout).2.1 := by
  induction input generalizing s nout with
  | nil => simp [readLoop]
  | cons b rest ih =>
    simp only [readLoop]
    split
    · split
      · split <;> simp
      · by_cases ho : (dfaStep s b).2 = true
        · have := ih (dfaStep s b).1 (nout + 1)
          simp only [ho, if_true, List.length_cons]
          exact Nat.succ_le_succ this
        · have := ih (dfaStep s b).1 nout
          simp only [ho]
          exact Nat.le_succ_of_le this
    · simp

/-- **No `OutputFull` with a buffer as long as the input.** -/
theorem readField_ne_outputFull (r : Reader) (input : List UInt8) (cap : Nat)
    (h : input.length ≤ cap) : (readField r input cap).1 ≠ .outputFull := by
  have hres : (readField r input cap).1 = (readFieldDfa r.state (stripBom r input).1 cap).1 := rfl
  rw [hres]
  have hlen := stripBom_length r input
  generalize (stripBom r input).1 = inp at hlen ⊢
  have hle : inp.length ≤ cap := by omega
  unfold readFieldDfa
  split
  · simp only [newReadFieldResult]
    repeat' split
    all_goals simp_all
  · rename_i hne
    split
    · rename_i hc
      subst hc
      have : inp = [] := List.length_eq_zero_iff.mp (by omega)
      simp [this] at hne
    · have h1 := readLoop_out_le_nin cap r.state inp 0
      have h2 := readLoop_nin_le cap r.state inp 0
      generalize readLoop cap r.state inp 0 = rr at h1 h2
      obtain ⟨s', nin, out⟩ := rr
      simp only at h1 h2 ⊢
      simp only [newReadFieldResult]
      repeat' split
      all_goals first | (intro hc; cases hc; done) | skip
      rename_i hof
      simp only [Bool.and_eq_true, Bool.not_eq_true', decide_eq_false_iff_not,
        decide_eq_true_eq] at hof
      omega

/-! ## A cell at the end of the data, buffer exactly as long as the cell -/

theorem readLoop_plain_eof {cap : Nat} {s : NfaState} (hs : FieldStart s) (b : UInt8)
    (v : List UInt8) (hwf : (Cell.plain (b :: v)).wf = true) (hcap : v.length + 1 ≤ cap) :
    readLoop cap s (b :: v) 0 = (.inField, v.length + 1, b :: v) := by
  simp only [Cell.wf, List.all_cons, Bool.and_eq_true] at hwf
  obtain ⟨hb, hv⟩ := hwf
  obtain ⟨b44, b34, b13, b10⟩ := not_requiresQuotes hb
  have h1 : dfaTable s b = (.inField, true) := by
    rw [dfaTable_fieldStart_of_not_term hs b13 b10]; simp [fieldStart, b34, b44, b13, b10]
  have hrun : ∀ x ∈ v, dfaTable .inField x = (.inField, true) := by
    intro x hx
    have := not_requiresQuotes (List.all_eq_true.mp hv x hx)
    simp [dfaTable, inFieldStep, this.1, this.2.2.1, this.2.2.2]
  rw [readLoop_step_nonfinal _ (by omega) h1 (by decide)]
  simp only [if_true]
  have := readLoop_copy_run (cap := cap) (s := .inField) (by decide) v [] (0 + 1) hrun (by omega)
  simp only [List.append_nil] at this
  rw [this, readLoop_nil]
  simp [shift]

/-- `read_cell` at the end of the data with a buffer that is only as long as the rendered
cell (a plain cell then fills the buffer completely: `InputEmpty`, not `OutputFull`, because
the input is exhausted as well). -/
theorem readField_cell_eof_le {r : Reader} (hs : FieldStart r.state) (c : Cell)
    (hwf : c.wf = true) (hne : c.render ≠ []) {cap : Nat} (hcap : c.render.length ≤ cap)
    (hnb : NoBom r c.render) :
    readField r c.render cap =
      (.inputEmpty, c.render.length, c.value,
        { state := c.after r.state, hasRead := true }) := by
  cases c with
  | quoted v =>
    have := Cell.quoted_value_lt_render v
    exact readField_cell_eof hs (.quoted v) hwf hne (by simp only [Cell.value]; omega) hnb
  | plain v =>
    cases v with
    | nil => simp [Cell.render] at hne
    | cons b v =>
      simp only [Cell.render, List.length_cons] at hcap hnb ⊢
      rw [readField_cons hnb (by simp) (by omega), readLoop_plain_eof hs b v hwf hcap]
      simp [newReadFieldResult, NfaState.idx, finalRecord, finalField, numClasses, Cell.value,
        Cell.after]

/-! ## UTF-8 is preserved -/

open Vibrato.LexCsv

/-- The states the default reader can be in (no comment state, no NFA-only state). -/
def Good (s : NfaState) : Prop :=
  s = .startRecord ∨ s = .startField ∨ s = .inField ∨ s = .inQuotedField ∨
  s = .inDoubleEscapedQuote ∨ s = .endFieldDelim ∨ s = .endRecord ∨ s = .crlf

def IsSpecial (b : UInt8) : Prop := b = 34 ∨ b = 44 ∨ b = 13 ∨ b = 10

/-- From a good state: the next state is good, only `,` `"` `\r` `\n` are dropped, and only
`,` `\r` `\n` end a field. -/
theorem dfaTable_good {s : NfaState} (hg : Good s) (b : UInt8) :
    Good (dfaTable s b).1 ∧ ((dfaTable s b).2 = false → IsSpecial b) ∧
    ((dfaTable s b).1.idx ≥ finalField → IsSpecial b) := by
  unfold IsSpecial
  by_cases h1 : b = 34 <;> by_cases h2 : b = 44 <;> by_cases h3 : b = 13 <;>
    by_cases h4 : b = 10 <;>
    rcases hg with h | h | h | h | h | h | h | h <;> subst h <;>
    simp_all [dfaTable, fieldStart, recordStart, inFieldStep, Good, NfaState.idx, numClasses,
      finalField]

/-- `,` `"` `\r` `\n` are complete characters: the decoder accepts them only at a character
boundary and stays there. -/
theorem utf8Step_special {u u' : U8State} {b : UInt8} (hb : IsSpecial b)
    (h : utf8Step u b = some u') : u = .start ∧ u' = .start := by
  rcases hb with rfl | rfl | rfl | rfl <;> cases u <;> simp_all [utf8Step]

/-- Why the loop of `read_field_dfa` stops. -/
theorem readLoop_stop (cap : Nat) (s : NfaState) (input : List UInt8) (nout : Nat) :
    (readLoop cap s input nout).1.idx ≥ finalField ∨
    (readLoop cap s input nout).2.1 = input.length ∨
    cap ≤ nout + (readLoop cap s input nout).2.2.length := by
  induction input generalizing s nout with
  | nil => simp [readLoop]
  | cons b rest ih =>
    by_cases hc : nout < cap
    · rcases hst : dfaTable s b with ⟨s1, ho⟩
      by_cases hf : s1.idx ≥ finalField
      · rw [readLoop_step_final rest hc hst hf]
        exact Or.inl hf
      · rw [readLoop_step_nonfinal rest hc hst (by omega)]
        rcases ih s1 (if ho = true then nout + 1 else nout) with h | h | h
        · exact Or.inl h
        · right; left
          simp only [shift, List.length_cons]; omega
        · right; right
          cases ho <;> simp_all [shift] <;> omega
    · right; right
      simp [readLoop, hc]; omega

/-- The loop on input that is valid UTF-8 from decoder state `u`: the output decodes like
the consumed prefix, and a field ends only at a character boundary. -/
theorem readLoop_utf8 (cap : Nat) (s : NfaState) (hg : Good s) (input : List UInt8) (nout : Nat)
    (u u' : U8State) (hv : utf8Run u input = some u') :
    Good (readLoop cap s input nout).1 ∧
    utf8Run u (readLoop cap s input nout).2.2 =
      utf8Run u (input.take (readLoop cap s input nout).2.1) ∧
    ((readLoop cap s input nout).2.1 = 0 → (readLoop cap s input nout).1 = s) ∧
    ((readLoop cap s input nout).1.idx ≥ finalField →
      (readLoop cap s input nout).2.1 = 0 ∨
      utf8Run u (input.take (readLoop cap s input nout).2.1) = some .start) := by
  induction input generalizing s nout u with
  | nil => simp [readLoop, hg]
  | cons b rest ih =>
    by_cases hc : nout < cap
    · rcases hst : dfaTable s b with ⟨s1, ho⟩
      obtain ⟨g1, g2, g3⟩ := dfaTable_good hg b
      rw [hst] at g1 g2 g3
      simp only at g1 g2 g3
      simp only [utf8Run] at hv
      cases hu : utf8Step u b with
      | none => simp [hu] at hv
      | some u1 =>
        simp only [hu] at hv
        by_cases hf : s1.idx ≥ finalField
        · obtain ⟨e1, e2⟩ := utf8Step_special (g3 hf) hu
          subst e1 e2
          rw [readLoop_step_final rest hc hst hf]
          refine ⟨g1, ?_, by simp, fun _ => Or.inr ?_⟩
          · cases ho <;> simp [utf8Run, hu]
          · simp [utf8Run, hu]
        · rw [readLoop_step_nonfinal rest hc hst (by omega)]
          obtain ⟨i1, i2, i3, i4⟩ := ih s1 g1 (if ho = true then nout + 1 else nout) u1 hv
          generalize readLoop cap s1 rest (if ho = true then nout + 1 else nout) = rr
            at i1 i2 i3 i4
          obtain ⟨s2, n, o⟩ := rr
          simp only [shift] at i1 i2 i3 i4 ⊢
          refine ⟨i1, ?_, by omega, ?_⟩
          · cases ho with
            | true => simp [utf8Run, hu, i2]
            | false =>
              obtain ⟨e1, e2⟩ := utf8Step_special (g2 rfl) hu
              subst e1 e2
              simp [utf8Run, hu, i2]
          · intro hfin
            right
            rcases i4 hfin with h0 | h1
            · exfalso
              have := i3 h0
              subst this
              exact hf hfin
            · simp [utf8Run, hu, h1]
    · simp [readLoop, hc, hg]

theorem utf8Run_bom (rest : List UInt8) :
    utf8Run .start (bom ++ rest) = utf8Run .start rest := by
  simp [bom, utf8Run, utf8Step]

theorem validUtf8_drop_of_prefix {a : List UInt8} {n : Nat} (ha : validUtf8 a = true)
    (hp : utf8Run .start (a.take n) = some .start) : validUtf8 (a.drop n) = true := by
  simp only [validUtf8, decide_eq_true_eq] at *
  have := utf8Run_append .start (a.take n) (a.drop n)
  rw [List.take_append_drop, ha, hp] at this
  simpa using this.symm

/-- **UTF-8 is preserved by `read_field`.**  From a good reader state, on valid UTF-8 input:
the reader stays in a good state; unless the call reports `OutputFull`, the output is valid
UTF-8; after `Field{..}` the unread input is valid UTF-8 again. -/
theorem readField_utf8 (r : Reader) (hg : Good r.state) (input : List UInt8) (cap : Nat)
    (hv : validUtf8 input = true) :
    Good (readField r input cap).2.2.2.state ∧
    ((readField r input cap).1 ≠ .outputFull →
      validUtf8 (readField r input cap).2.2.1 = true) ∧
    (∀ re, (readField r input cap).1 = .field re →
      validUtf8 (input.drop (readField r input cap).2.1) = true) := by
  -- strip the BOM
  have hsb : validUtf8 (stripBom r input).1 = true ∧
      ∀ n, input.drop (n + (stripBom r input).2) = (stripBom r input).1.drop n := by
    unfold stripBom
    split
    · rename_i hb
      simp only [Bool.and_eq_true, decide_eq_true_eq] at hb
      refine ⟨?_, fun n => by simp [List.drop_drop, Nat.add_comm]⟩
      have e : input = bom ++ input.drop 3 := by
        rw [← hb.2, List.take_append_drop]
      simp only [validUtf8, decide_eq_true_eq] at hv ⊢
      rw [e, utf8Run_bom] at hv
      exact hv
    · exact ⟨hv, fun n => by simp⟩
  obtain ⟨hv', hdrop⟩ := hsb
  have e1 : (readField r input cap).1 = (readFieldDfa r.state (stripBom r input).1 cap).1 := rfl
  have e2 : (readField r input cap).2.2.1 =
      (readFieldDfa r.state (stripBom r input).1 cap).2.2.1 := rfl
  have e3 : (readField r input cap).2.2.2.state =
      (readFieldDfa r.state (stripBom r input).1 cap).2.2.2 := rfl
  rw [e1, e2, e3, readField_nin_eq]
  simp only [hdrop]
  generalize (stripBom r input).1 = inp at hv' ⊢
  unfold readFieldDfa
  split
  · -- empty input: the final transition
    rename_i he
    have : inp = [] := by simpa using he
    subst this
    refine ⟨?_, fun _ => validUtf8_nil, fun _ _ => validUtf8_nil⟩
    simp only [transitionFinalDfa]
    split <;> simp [Good]
  · split
    · exact ⟨hg, fun h => absurd rfl h, fun re h => by cases h⟩
    · have hv'' : utf8Run .start inp = some .start := by simpa [validUtf8] using hv'
      obtain ⟨l1, l2, l3, l4⟩ := readLoop_utf8 cap r.state hg inp 0 .start .start hv''
      have hstop := readLoop_stop cap r.state inp 0
      have hle := readLoop_nin_le cap r.state inp 0
      generalize readLoop cap r.state inp 0 = rr at l1 l2 l3 l4 hstop hle
      obtain ⟨s', nin, out⟩ := rr
      simp only at l1 l2 l3 l4 hstop hle ⊢
      have hfinal_ok : s'.idx ≥ finalField → utf8Run .start (inp.take nin) = some .start := by
        intro hf
        rcases l4 hf with h0 | h1
        · subst h0; simp [utf8Run]
        · exact h1
      refine ⟨l1, ?_, ?_⟩
      · intro hres
        simp only [validUtf8, decide_eq_true_eq]
        rw [l2]
        by_cases hf : s'.idx ≥ finalField
        · exact hfinal_ok hf
        · -- not final and not OutputFull: the input is exhausted
          have hnin : nin = inp.length := by
            apply Classical.byContradiction
            intro hne'
            rcases hstop with h | h | h
            · exact hf h
            · exact hne' h
            · apply hres
              have h35 : finalField ≤ finalRecord := by decide
              have hfr : ¬ (s'.idx ≥ finalRecord) := by omega
              have hff : ¬ (s'.idx = finalField) := by omega
              by_cases hin : nin ≥ inp.length
              · exact absurd (Nat.le_antisymm hle hin) hne'
              · have hod : out.length ≥ cap := by omega
                simp [newReadFieldResult, hfr, hff, hin, hod]
          rw [hnin, List.take_length]
          exact hv''
      · intro re hres
        have hf : s'.idx ≥ finalField := by
          apply Classical.byContradiction
          intro hnf
          have h35 : finalField ≤ finalRecord := by decide
          have hfr : ¬ (s'.idx ≥ finalRecord) := by omega
          have hff : ¬ (s'.idx = finalField) := by omega
          simp only [newReadFieldResult, hfr, hff, if_false, Bool.false_and,
            Bool.false_eq_true] at hres
          split at hres <;> cases hres
        exact validUtf8_drop_of_prefix hv' (hfinal_ok hf)

end Vibrato.Csv

namespace Vibrato.LexCsv

open Vibrato.Csv

/-! ## `parse_csv_row` with the row-sized buffer never panics -/

theorem rowLoop_ne_panic (cap fuel : Nat) (rdr : Reader) (hg : Good rdr.state)
    (bytes : List UInt8) (acc : List (List UInt8)) (hv : validUtf8 bytes = true)
    (hcap : bytes.length ≤ cap) :
    rowLoop cap fuel rdr bytes acc ≠ some .panic := by
  induction fuel generalizing rdr bytes acc with
  | zero => simp [rowLoop]
  | succ n ih =>
    simp only [rowLoop]
    obtain ⟨u1, u2, u3⟩ := readField_utf8 rdr hg bytes cap hv
    have hno := readField_ne_outputFull rdr bytes cap hcap
    generalize readField rdr bytes cap = rr at u1 u2 u3 hno
    obtain ⟨res, nin, out, rdr'⟩ := rr
    simp only at u1 u2 u3 hno ⊢
    cases res with
    | outputFull => exact absurd rfl hno
    | inputEmpty => simp [u2 (by simp)]
    | end_ => simp [u2 (by simp)]
    | field re =>
      simp only [u2 (by simp), if_true]
      exact ih rdr' u1 (bytes.drop nin) _ (u3 re rfl)
        (by simp only [List.length_drop]; omega)

/-- **parse_csv_row_total** (finding F18 repaired): with the output buffer sized by the row,
`parse_csv_row` has no reachable panic site for any `&str` — neither `unreachable!()`
(`OutputFull` cannot occur) nor `from_utf8(..).unwrap()` (every field of a valid UTF-8 row is
valid UTF-8). -/
theorem parseCsvRowBytes_fixed_ne_panic (row : List UInt8) (hv : validUtf8 row = true) :
    parseCsvRowBytes true row ≠ .panic := by
  unfold parseCsvRowBytes
  have hs := rowLoop_total (rowCap true row) row
  have hp := rowLoop_ne_panic (rowCap true row) (parseFuel row) Reader.new
    (Or.inl rfl) row [] hv (by simp [rowCap])
  cases hr : rowLoop (rowCap true row) (parseFuel row) Reader.new row [] with
  | none => simp [hr] at hs
  | some r =>
    simp only
    intro h
    exact hp (by rw [hr, h])

/-- The repaired `parse_csv_row` also never returns `Err` (it has no error path). -/
theorem rowLoop_ne_err (cap fuel : Nat) (rdr : Reader) (bytes : List UInt8)
    (acc : List (List UInt8)) : rowLoop cap fuel rdr bytes acc ≠ some .err := by
  induction fuel generalizing rdr bytes acc with
  | zero => simp [rowLoop]
  | succ n ih =>
    simp only [rowLoop]
    generalize readField rdr bytes cap = rr
    obtain ⟨res, nin, out, rdr'⟩ := rr
    cases res with
    | outputFull => simp
    | inputEmpty => simp only; split <;> simp
    | end_ => simp only; split <;> simp
    | field re =>
      simp only
      split
      · exact ih _ _ _
      · simp

/-- Pinned tree: a plain first cell of 4096 bytes or more, followed by anything, makes
`parse_csv_row` hit `unreachable!()`. -/
theorem parseCsvRowBytes_pinned_panic (v rest : List UInt8)
    (hwf : (Cell.plain v).wf = true) (hlen : outCap ≤ v.length) (b : UInt8)
    (hnb : ¬ (bom <+: v ++ b :: rest)) :
    parseCsvRowBytes false (v ++ b :: rest) = .panic := by
  unfold parseCsvRowBytes
  have hfuel : parseFuel (v ++ b :: rest) = (parseFuel (v ++ b :: rest) - 1) + 1 := by
    simp [parseFuel]
  rw [hfuel]
  simp only [rowLoop, rowCap, Bool.false_eq_true, if_false]
  have hne : v ++ b :: rest ≠ [] := by simp
  rw [readField_cons (r := Reader.new) (Or.inr hnb) hne (by decide)]
  -- split `v` at the buffer size
  have hv : v = v.take outCap ++ v.drop outCap := (List.take_append_drop _ _).symm
  cases hvt : v.take outCap with
  | nil =>
    have : (v.take outCap).length = outCap := by simp [List.length_take]; omega
    rw [hvt] at this; simp [outCap] at this
  | cons x xs =>
    have hlx : xs.length + 1 = outCap := by
      have : (v.take outCap).length = outCap := by simp [List.length_take]; omega
      rw [hvt] at this; simpa using this
    have hwf' : (Cell.plain (x :: xs)).wf = true := by
      rw [← hvt]
      simp only [Cell.wf, List.all_eq_true] at hwf ⊢
      exact fun y hy => hwf y (List.mem_of_mem_take hy)
    simp only [Cell.wf, List.all_cons, Bool.and_eq_true] at hwf'
    obtain ⟨hb, hxs⟩ := hwf'
    obtain ⟨b44, b34, b13, b10⟩ := not_requiresQuotes hb
    have h1 : dfaTable .startRecord x = (.inField, true) := by
      simp [dfaTable, recordStart, fieldStart, b34, b44, b13, b10]
    have hrun : ∀ y ∈ xs, dfaTable .inField y = (.inField, true) := by
      intro y hy
      have := not_requiresQuotes (List.all_eq_true.mp hxs y hy)
      simp [dfaTable, inFieldStep, this.1, this.2.2.1, this.2.2.2]
    have hinput : v ++ b :: rest = x :: (xs ++ (v.drop outCap ++ b :: rest)) := by
      conv => lhs; rw [hv, hvt]
      simp
    have hloop : readLoop outCap Reader.new.state (v ++ b :: rest) 0 =
        (.inField, outCap, x :: xs) := by
      rw [hinput]
      simp only [Reader.new]
      rw [readLoop_step_nonfinal _ (by decide) h1 (by decide)]
      simp only [if_true]
      rw [readLoop_copy_run (by decide) xs _ (0 + 1) hrun (by omega)]
      have hfull : ¬ (0 + 1 + xs.length < outCap) := by omega
      cases hd : v.drop outCap ++ b :: rest with
      | nil => simp at hd
      | cons y ys =>
        simp only [readLoop, hfull, if_false, shift]
        simp; omega
    rw [hloop]
    have hcond : outCap < v.length + (rest.length + 1) ∧ outCap ≤ xs.length + 1 := by
      constructor <;> omega
    simp [newReadFieldResult, NfaState.idx, finalRecord, finalField, numClasses, hcond]

end Vibrato.LexCsv
