def hello := "world"
