/-
Ties the constants used by the model (and therefore by the proofs) to the values that
`tools/extract_consts.py` reads from the Rust sources on every run.  If a constant of the
code changes, one of these obligations no longer checks and every property whose proof uses
the constant is reported as no longer shown (`check.py`).
-/
import Vibrato.Generated.Consts
import Vibrato.Model.Lattice
import Vibrato.Model.CharDef
import Vibrato.Model.Image
import Vibrato.Model.LexCsv

namespace Vibrato.ConstsCheck

theorem cate_idset_bits : Gen.CATE_IDSET_BITS = Vibrato.CATE_IDSET_BITS := by decide
theorem base_id_bits : Gen.BASE_ID_BITS = Vibrato.BASE_ID_BITS := by decide
theorem length_bits : Gen.LENGTH_BITS = Vibrato.LENGTH_BITS := by decide
/-- the packed `CharInfo` fits its `u32`: 18 + 8 + 1 + 1 + 4 = 32 -/
theorem charinfo_width : Gen.CATE_IDSET_BITS + Gen.BASE_ID_BITS + 1 + 1 + Gen.LENGTH_BITS = 32 := by decide
theorem char_table_len : Gen.CHAR_TABLE_LEN = 65536 := by decide
theorem max_cost : (Gen.MAX_COST : Int) = Vibrato.MAX_COST := by decide
theorem invalid_idx : Gen.INVALID_IDX = Vibrato.INVALID_IDX := by decide
theorem bos_eos_id : Gen.BOS_EOS_CONNECTION_ID = 0 := by decide
theorem model_magic : Gen.MODEL_MAGIC = Vibrato.Image.magic := by decide
theorem csv_field_buffer : Gen.CSV_FIELD_BUFFER = Vibrato.LexCsv.outCap := by decide
theorem bincode_config : Gen.BINCODE_LITTLE_ENDIAN = 1 ∧ Gen.BINCODE_FIXED_INT = 1 := by decide
theorem u31_max : Gen.U31_MAX = 2 ^ 31 - 1 := by decide
theorem invalid_feature_id : Gen.INVALID_FEATURE_ID = 2 ^ 31 - 1 := by decide
theorem unused_check : Gen.UNUSED_CHECK = 2 ^ 32 - 1 := by decide
theorem simd_size : Gen.SIMD_SIZE = 8 := by decide
-- (the CLI's `-O mecab` printing loop used to be compared textually here; the stream `cli` now runs the real
-- `tokenize` program and feeds what it prints to the corpus reader, so a harmless rewrite of that loop no longer alarms)

end Vibrato.ConstsCheck
