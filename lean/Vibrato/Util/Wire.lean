/-
Wire helpers for the line protocol between the Rust harness and the Lean model
driver.  One case per line, tokens separated by single spaces.  Byte strings are
lower-case hex, the empty byte string is `-`.  Naturals and integers are decimal.
No Mathlib imports: this file is linked into the `vmodel` executable.
-/
namespace Vibrato.Wire

def hexDigit (n : Nat) : Char :=
  if n < 10 then Char.ofNat (48 + n) else Char.ofNat (87 + n)

def hexVal (c : Char) : Option Nat :=
  if '0' ≤ c ∧ c ≤ '9' then some (c.toNat - 48)
  else if 'a' ≤ c ∧ c ≤ 'f' then some (c.toNat - 87)
  else if 'A' ≤ c ∧ c ≤ 'F' then some (c.toNat - 55)
  else none

/-- Encode bytes as hex (`-` for empty). -/
def hexOfBytes (bs : List UInt8) : String :=
  if bs.isEmpty then "-" else
  String.ofList (bs.flatMap fun b => [hexDigit (b.toNat / 16), hexDigit (b.toNat % 16)])

def bytesOfHexChars : List Char → Option (List UInt8)
  | [] => some []
  | [_] => none
  | a :: b :: rest => do
    let x ← hexVal a
    let y ← hexVal b
    let r ← bytesOfHexChars rest
    pure (UInt8.ofNat (x * 16 + y) :: r)

/-- Decode a hex token (`-` is the empty byte string). -/
def bytesOfHex (s : String) : Option (List UInt8) :=
  if s = "-" then some [] else bytesOfHexChars s.toList

def hexOfString (s : String) : String := hexOfBytes s.toUTF8.toList

/-- Decode a hex token to a `String`; `none` when not valid UTF-8. -/
def stringOfHex (s : String) : Option String := do
  let bs ← bytesOfHex s
  String.fromUTF8? (ByteArray.mk bs.toArray)

def natOf (s : String) : Option Nat := s.toNat?
def intOf (s : String) : Option Int := s.toInt?

/-- Split a protocol line into tokens. -/
def tokens (line : String) : List String :=
  (line.trimAscii.toString.splitOn " ").filter (· ≠ "")

/-- Take a counted list: first token is `n`, then `n * k` tokens follow; returns the groups
    and the rest. -/
def takeGroups (k : Nat) : List String → Option (List (List String) × List String)
  | [] => none
  | n :: rest => do
    let n ← n.toNat?
    let rec go : Nat → List String → List (List String) → Option (List (List String) × List String)
      | 0, r, acc => some (acc.reverse, r)
      | m+1, r, acc => if r.length < k then none else go m (r.drop k) (r.take k :: acc)
    go n rest []

end Vibrato.Wire
