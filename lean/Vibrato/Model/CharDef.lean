/-
Model of `vibrato/src/dictionary/character.rs`: `CharProperty::from_reader`
(char.def parser), `CharInfo` packing, `char_info`, `cate_id`.

The model follows the repaired parser (fix F6): more than 18 categories, a
LENGTH ≥ 16, a range line without a category and an undefined category in any
position are errors (the pinned tree panicked or silently corrupted the packed
word there).  No Mathlib imports.
-/
import Vibrato.Model.Text
import Vibrato.Model.Tokenizer

namespace Vibrato

/-- Bit layout constants of `CharInfo` (mirrors `CATE_IDSET_BITS`, `BASE_ID_BITS`,
`LENGTH_BITS`; cross-checked against the source by `tools/extract_consts.py`). -/
def CATE_IDSET_BITS : Nat := 18
def BASE_ID_BITS : Nat := 8
def LENGTH_BITS : Nat := 4

/-- `CharInfo::new`: `none` when a field does not fit its bit width. -/
def CharInfo.pack (cateSet baseId : Nat) (invoke group : Bool) (length : Nat) : Option Nat :=
  if cateSet >>> CATE_IDSET_BITS ≠ 0 then none
  else if baseId >>> BASE_ID_BITS ≠ 0 then none
  else if length >>> LENGTH_BITS ≠ 0 then none
  else some (cateSet
    ||| (baseId <<< CATE_IDSET_BITS)
    ||| ((if invoke then 1 else 0) <<< (CATE_IDSET_BITS + BASE_ID_BITS))
    ||| ((if group then 1 else 0) <<< (CATE_IDSET_BITS + BASE_ID_BITS + 1))
    ||| (length <<< (CATE_IDSET_BITS + BASE_ID_BITS + 2)))

/-- The getters of `CharInfo` applied to a packed word. -/
def CharInfo.unpack (w : Nat) : CharInfo :=
  { cateSet := w &&& (2 ^ CATE_IDSET_BITS - 1)
    baseId := (w >>> CATE_IDSET_BITS) &&& (2 ^ BASE_ID_BITS - 1)
    invoke := (w >>> (CATE_IDSET_BITS + BASE_ID_BITS)) &&& 1 ≠ 0
    group := (w >>> (CATE_IDSET_BITS + BASE_ID_BITS + 1)) &&& 1 ≠ 0
    length := (w >>> (CATE_IDSET_BITS + BASE_ID_BITS + 2)) % 65536 }

structure CateDef where
  invoke : Bool
  group : Bool
  length : Nat
  deriving Repr, DecidableEq, Inhabited

/-- A parsed range line: `[start, end)` and its category names. -/
structure CharRange where
  start : Nat
  stop : Nat
  cates : List (List Char)
  deriving Repr, DecidableEq, Inhabited

/-- Parser state while reading lines. -/
structure CharDefState where
  names : List (List Char)            -- category names by id (`cate_map`), DEFAULT = 0
  infos : List (Nat × CateDef)        -- `cate2info`, most recent definition first
  ranges : List CharRange             -- reversed file order
  deriving Repr, Inhabited

/-- The compiled table. -/
structure CharProp where
  names : List String
  defInfo : CharInfo
  ranges : List (Nat × Nat × CharInfo)   -- file order
  deriving Repr, Inhabited

namespace CharDef
open Text

def idOf (names : List (List Char)) (n : List Char) : Option Nat :=
  let i := names.idxOf n
  if i < names.length then some i else none

def infoOf (infos : List (Nat × CateDef)) (id : Nat) : Option CateDef :=
  (infos.find? (fun p => p.1 == id)).map (·.2)

/-- `parse_char_category` + the registration in `from_reader`. -/
def parseCategory (st : CharDefState) (line : List Char) : Outcome CharDefState :=
  let cols := splitWhitespace line
  match cols with
  | c0 :: c1 :: c2 :: c3 :: _ =>
    if ¬ (c1 = ['1'] ∨ c1 = ['0']) then .err
    else if ¬ (c2 = ['1'] ∨ c2 = ['0']) then .err
    else match parseU16 c3 with
      | none => .err
      | some length =>
        let (names, id) := match idOf st.names c0 with
          | some i => (st.names, i)
          | none => (st.names ++ [c0], st.names.length)
        if id ≥ CATE_IDSET_BITS then .err
        else if length >>> LENGTH_BITS ≠ 0 then .err
        else .ok { st with names := names,
                           infos := (id, ⟨c1 = ['1'], c2 = ['1'], length⟩) :: st.infos }
  | _ => .err

/-- `parse_char_range`. -/
def parseRange (line : List Char) : Outcome CharRange :=
  let cols := splitWhitespace line
  match cols with
  | c0 :: rest@(_ :: _) =>
    let r := splitDotDot c0
    match parseHexUsize (trimStart0x (r.headD [])) with
    | none => .err
    | some start =>
      let stopO : Outcome Nat :=
        match r with
        | _ :: r1 :: _ =>
          match parseHexUsize (trimStart0x r1) with
          | none => .err
          | some e => if e = 18446744073709551615 then .err else .ok (e + 1)
        | _ => if start = 18446744073709551615 then .err else .ok (start + 1)
      match stopO with
      | .err => .err
      | .panic => .panic
      | .ok stop =>
        if start ≥ stop then .err
        else if start > 0xFFFF ∨ stop > 0x10000 then .err
        else .ok { start := start, stop := stop,
                   cates := rest.takeWhile (fun col => ¬ startsWith ['#'] col) }
  | _ => .err

/-- `encode_cate_info`. -/
def encodeCateInfo (st : CharDefState) (targets : List (List Char)) : Outcome CharInfo :=
  match targets with
  | [] => .err
  | first :: _ =>
    match (idOf st.names first).bind (fun id => (infoOf st.infos id).map (fun d => (id, d))) with
    | none => .err
    | some (id, d) =>
      let setO : Option Nat := targets.foldl (fun acc t => do
        let a ← acc
        let tid ← idOf st.names t
        let _ ← infoOf st.infos tid
        pure (a ||| (1 <<< tid))) (some 0)
      match setO with
      | none => .err
      | some cs => .ok { cateSet := cs, baseId := id, invoke := d.invoke, group := d.group,
                         length := d.length }

def stepLine (st : CharDefState) (raw : List UInt8) : Outcome CharDefState :=
  match decodeLine raw with
  | none => .err
  | some s =>
    let line := trim s.toList
    if line.isEmpty ∨ startsWith ['#'] line then .ok st
    else if ¬ startsWith ['0', 'x'] line then parseCategory st line
    else match parseRange line with
      | .ok r => .ok { st with ranges := r :: st.ranges }
      | .err => .err
      | .panic => .panic

def foldLines (st : CharDefState) : List (List UInt8) → Outcome CharDefState
  | [] => .ok st
  | l :: ls =>
    match stepLine st l with
    | .ok st' => foldLines st' ls
    | .err => .err
    | .panic => .panic

def encodeRanges (st : CharDefState) : List CharRange → Outcome (List (Nat × Nat × CharInfo))
  | [] => .ok []
  | r :: rs =>
    match encodeCateInfo st r.cates with
    | .ok ci =>
      match encodeRanges st rs with
      | .ok out => .ok ((r.start, r.stop, ci) :: out)
      | .err => .err
      | .panic => .panic
    | .err => .err
    | .panic => .panic

/-- `CharProperty::from_reader`. -/
def parse (bytes : List UInt8) : Outcome CharProp :=
  let st0 : CharDefState := { names := ["DEFAULT".toList], infos := [], ranges := [] }
  match foldLines st0 (rawLines bytes) with
  | .err => .err
  | .panic => .panic
  | .ok st =>
    match encodeCateInfo st ["DEFAULT".toList] with
    | .err => .err
    | .panic => .panic
    | .ok d =>
      match encodeRanges st st.ranges.reverse with
      | .err => .err
      | .panic => .panic
      | .ok rs => .ok { names := st.names.map String.ofList, defInfo := d, ranges := rs }

end CharDef

/-- Table entry for an index `< 65536`: the last range line covering it, else DEFAULT. -/
def CharProp.entry (P : CharProp) (c : Nat) : CharInfo :=
  match P.ranges.reverse.find? (fun r => r.1 ≤ c ∧ c < r.2.1) with
  | some r => r.2.2
  | none => P.defInfo

/-- `CharProperty::char_info`: code points beyond the 65 536-entry table read entry 0. -/
def CharProp.charInfo (P : CharProp) (c : Nat) : CharInfo :=
  if c < 65536 then P.entry c else P.entry 0

/-- `CharProperty::cate_id`. -/
def CharProp.cateId (P : CharProp) (name : String) : Option Nat :=
  let i := P.names.idxOf name
  if i < P.names.length then some i else none

end Vibrato
