/-
Model of `SystemDictionaryBuilder::from_readers_with_bigram_info`
(`vibrato/src/dictionary/builder.rs`): lex.csv, then the connector
(`RawConnector::from_readers` or `DualConnector::from_readers` on bigram.right / bigram.left /
bigram.cost — models `Model/RawConnector.lean`, `Model/DualConnector.lean`), then char.def,
unk.def, then `build` (trie, `Lexicon::verify`, `UnkHandler::verify` against `num_left` /
`num_right` of the connector).

Conventions
* The bigram files are read as bytes.  A Rust `String` is represented by its UTF-8 *bytes*, each
  byte as the `Char` with that code (`charOfByte`): the connector code only splits at ASCII
  characters (`'\t'`, `'/'`, `','`, `'"'`), parses ASCII digits and compares feature strings for
  equality, so the byte view and the character view agree; `line?` (invalid UTF-8 ⇒ `Err`) is
  `LexCsv.validUtf8`, `utils::parse_csv_row` is `LexCsv.parseCsvRowBytes` (repaired tree of
  finding F18: output buffer as long as the row).
* `oc`: `overflow-checks` of the build profile (`true`: `i32` `+` panics on overflow, `false`:
  wraps) in `Scorer::accumulate_cost` and `DualConnector::cost`.
* `remove_feature_templates_greedy` iterates a `hashbrown::HashSet`; ties are broken by the
  iteration order, so the chosen template split is not a function of the files.  `split = some s`
  fixes the raw template set (as in `Model/DualConnector.lean`); `split = none` runs the greedy
  search with ascending iteration order (`greedySplit`).  The cost function depends on the split
  only where the pre-summed part saturates `i16` (`C07.dual_cost_eq`).
* `Built` is the Rust `Dictionary` right after the builder (connector kept as a connector);
  `Built.table` evaluates `Connector::cost` on the whole `numRight × numLeft` table (row-major,
  `for r in 0..numRight { for l in 0..numLeft {..} }`, what the harness' `conn_dump` prints) and
  `Built.toDict` is the `DictM` that `buildDictWithConn` produces from that table.
No Mathlib imports.
-/
import Vibrato.Model.Dict
import Vibrato.Model.DualConnector

namespace Vibrato.Bigram

abbrev Str := RawConnector.Str

/-- A byte of a Rust `String` as a character of the connector models. -/
def charOfByte (b : UInt8) : Char := Char.ofNat b.toNat
def byteOfChar (c : Char) : UInt8 := c.toNat.toUInt8

/-- `BufReader::new(rdr).lines()`: `none` for a line that is not valid UTF-8 (`line?` is `Err`). -/
def readLines (bytes : List UInt8) : List (Option Str) :=
  (RawConnector.splitLines bytes []).map fun l =>
    if LexCsv.validUtf8 l then some (l.map charOfByte) else none

/-- `utils::parse_csv_row` (csv-core port, repaired tree of finding F18). -/
def csvRow (s : Str) : Scorer.Outcome (List Str) :=
  match LexCsv.parseCsvRowBytes true (s.map byteOfChar) with
  | .ok cells => .ok (cells.map fun c => c.map charOfByte)
  | .err => .err
  | .panic => .panic

/-! ### `DualConnector::remove_feature_templates_greedy`, ascending iteration order -/

/-- `calculate_num_conn_ids`: number of distinct rows after projection on `idxs`
(`if let Some(f) = row.get(i) { new_feats.push(f) }`: missing positions are skipped). -/
def numConnIds (idxs : List Nat) (rows : List (List Nat)) : Nat :=
  ((rows.map fun row => idxs.filterMap fun i => row[i]?).eraseDups).length

/-- One round: the last trial index (in iteration order) whose removal gives a matrix size `≤` the
best so far; `0` with an empty set. -/
def greedyCandidate (matrixIdx : List Nat) (rightRows leftRows : List (List Nat)) : Nat :=
  (matrixIdx.foldl (fun (acc : Nat × Nat) trial =>
    let idxs := matrixIdx.filter (· != trial)
    let sz := numConnIds idxs rightRows * numConnIds idxs leftRows
    if sz ≤ acc.2 then (trial, sz) else acc) (0, leftRows.length * rightRows.length)).1

def greedyLoop (rightRows leftRows : List (List Nat)) : Nat → List Nat → List Nat
  | 0, m => m
  | n + 1, m => greedyLoop rightRows leftRows n (m.erase (greedyCandidate m rightRows leftRows))

/-- The raw template set (`split` of `Model/DualConnector.lean`): the templates removed from the
matrix part by `SIMD_SIZE` greedy rounds. -/
def greedySplit (K : Nat) (rightRows leftRows : List (List Nat)) : List Nat :=
  let m := greedyLoop rightRows leftRows Scorer.SIMD_SIZE (List.range K)
  (List.range K).filter fun i => !m.contains i

/-! ### `ScorerBuilder::build` with an array view of `checks`

`Scorer.findBase` probes `checks[base ^ key2]` on a list, which makes the first-fit search of
`build` cubic in the number of cost lines.  The definitions below are the same functions with
`checks` converted to an array once per row (`checks.toArray[i]? = checks[i]?`); they are equal to
`Scorer.buildChecked`, `RawConnector.fromReaders`, `DualConnector.fromReaders`
(`Proofs/DictBigram.lean`: `buildCheckedA_eq`, `rawFromReaders_eq`, `dualFromReaders_eq`). -/

open Scorer in
def checkBaseA (base : Nat) (row : Row) (checks : Array Nat) : Bool :=
  row.all fun e =>
    match checks[base ^^^ e.1]? with
    | some check => check == UNUSED_CHECK
    | none => true

open Scorer in
def findBaseLoopA (row : Row) (checks : Array Nat) : Nat → Nat → Nat
  | 0, base => base
  | fuel + 1, base =>
    if checkBaseA base row checks then base else findBaseLoopA row checks fuel (base + 1)

open Scorer in
def findBaseA (row : Row) (checks : List Nat) : Nat :=
  findBaseLoopA row checks.toArray (baseFuel row checks) 0

open Scorer in
def buildLoopA : List Row → Nat → Scorer → Scorer
  | [], _, st => st
  | row :: rest, key1, st =>
    let base := findBaseA row st.checks
    let cc := placeRow key1 base row (st.checks, st.costs)
    buildLoopA rest (key1 + 1) ⟨st.bases.set key1 base, cc.1, cc.2⟩

open Scorer in
def buildA (t : Trie) : Scorer := buildLoopA t 0 ⟨List.replicate t.length 0, [], []⟩

open Scorer in
def buildCheckedA (t : Trie) : Scorer.Outcome Scorer :=
  let s := buildA t
  if t.length ≤ 4294967296 ∧ s.bases.all (· < 4294967296) then .ok s else .panic

open Scorer RawConnector in
/-- `RawConnector.fromReaders` with `buildCheckedA`. -/
def rawFromReaders (fixed : Bool) (parseCsvRow : Str → Scorer.Outcome (List Str))
    (right left cost : List (Option Str)) : Scorer.Outcome RawConnector.Conn :=
  match builderFromReaders parseCsvRow right left cost with
  | .ok b =>
    if paddedSize b.K = 0 then (if fixed then .err else .panic)
    else
      match buildCheckedA b.trie with
      | .ok scorer =>
        .ok ⟨toSimdVec (flatMatrix fixed b.K b.rightRows), toSimdVec (flatMatrix fixed b.K b.leftRows),
             paddedSize b.K / SIMD_SIZE, scorer⟩
      | .err => .err
      | .panic => .panic
  | .err => .err
  | .panic => .panic

open Scorer RawConnector DualConnector in
/-- `DualConnector.fromReaders` with `buildCheckedA`. -/
def dualFromReaders (fixed oc : Bool) (parseCsvRow : Str → Scorer.Outcome (List Str))
    (split : List Nat) (right left cost : List (Option Str)) : Scorer.Outcome DualConnector.Conn :=
  match builderFromReaders parseCsvRow right left cost with
  | .ok b =>
    if fixed ∧ b.K = 0 then .err else
    match buildCheckedA b.trie with
    | .ok scorer =>
      let matrixIdx := matrixIndices b.K split
      let rawIdx := rawIndices b.K split
      match createMatrix fixed oc b.rightRows b.leftRows matrixIdx b.K scorer with
      | .ok (matrix, rmap, lmap) =>
        let rlanes := rawLanes fixed rawIdx b.rightRows
        let llanes := rawLanes fixed rawIdx b.leftRows
        match buildCheckedA (pruneTrie b.trie rlanes llanes) with
        | .ok rawScorer =>
          let pad := if fixed then INVALID else 0
          .ok ⟨matrix, rmap, lmap, toSimdVecPad pad rlanes.length rlanes,
               toSimdVecPad pad llanes.length llanes, rawScorer⟩
        | .err => .err
        | .panic => .panic
      | .err => .err
      | .panic => .panic
    | .err => .err
    | .panic => .panic
  | .err => .err
  | .panic => .panic

/-! ### The connector -/

/-- `ConnectorWrapper::{Raw, Dual}`. -/
inductive Conn where
  | raw (c : RawConnector.Conn)
  | dual (c : DualConnector.Conn)
  deriving Repr

/-- `Connector::num_right`. -/
def Conn.numRight : Conn → Nat
  | .raw c => RawConnector.numIds c.rightFeatIds c.fts
  | .dual c => DualConnector.numRight c

/-- `Connector::num_left`. -/
def Conn.numLeft : Conn → Nat
  | .raw c => RawConnector.numIds c.leftFeatIds c.fts
  | .dual c => DualConnector.numLeft c

/-- `ConnectorCost::cost(right_id, left_id)`. -/
def Conn.cost (oc : Bool) : Conn → Nat → Nat → Scorer.Outcome Int
  | .raw c, r, l => RawConnector.rawCost oc c r l
  | .dual c, r, l => DualConnector.dualCost oc c r l

/-- The split used by `DualConnector::from_readers`. -/
def chooseSplit (split : Option (List Nat)) (right left cost : List (Option Str)) : List Nat :=
  match split with
  | some s => s
  | none =>
    match RawConnector.builderFromReaders csvRow right left cost with
    | .ok b => greedySplit b.K b.rightRows b.leftRows
    | _ => []

/-- `if dual_connector { DualConnector::from_readers(..)? } else { RawConnector::from_readers(..)? }`
(`dualFromReaders = DualConnector.fromReaders`, `rawFromReaders = RawConnector.fromReaders`). -/
def buildConn (fixed oc : Bool) (split : Option (List Nat)) (right left cost : List UInt8)
    (dual : Bool) : Outcome Conn :=
  let R := readLines right
  let L := readLines left
  let C := readLines cost
  if dual then
    match dualFromReaders fixed oc csvRow (chooseSplit split R L C) R L C with
    | .ok c => .ok (.dual c)
    | .err => .err
    | .panic => .panic
  else
    match rawFromReaders fixed csvRow R L C with
    | .ok c => .ok (.raw c)
    | .err => .err
    | .panic => .panic

/-- The `Dictionary` returned by the builder: connector, system lexicon, character table,
unknown-word entries (no user lexicon, no mapper). -/
structure Built where
  conn : Conn
  sys : LexM
  chars : CharProp
  unk : List UnkEntryM
  deriving Repr

def Built.numRight (B : Built) : Nat := B.conn.numRight
def Built.numLeft (B : Built) : Nat := B.conn.numLeft

/-- `SystemDictionaryBuilder::from_readers_with_bigram_info`.  Order of the Rust code: lex.csv
(`Lexicon::parse_csv`), the connector, char.def, unk.def, then `build`: `Lexicon::from_entries`
(trie), `system_lexicon.verify(&connector)`, `unk_handler.verify(&connector)`. -/
def buildBigram (fx : Fixes) (oc : Bool) (split : Option (List Nat))
    (lex right left cost chardef unk : List UInt8) (dual : Bool) : Outcome Built :=
  match parseLexCsv fx lex with
  | .err => .err
  | .panic => .panic
  | .ok lrows =>
    match buildConn fx.f14 oc split right left cost dual with
    | .err => .err
    | .panic => .panic
    | .ok conn =>
      match CharDef.parse chardef with
      | .err => .err
      | .panic => .panic
      | .ok P =>
        match parseLexCsv fx unk with
        | .err => .err
        | .panic => .panic
        | .ok urows =>
          match unkOfRows P urows with
          | none => .err
          | some U =>
            match lexOfRows lrows with
            | none => .err
            | some L =>
              if ¬ paramsInRange (L.entries.map (·.param)) conn.numLeft conn.numRight then .err
              else if ¬ paramsInRange (U.map (·.param)) conn.numLeft conn.numRight then .err
              else .ok { conn := conn, sys := L, chars := P, unk := U }

/-- One row of the cost table: `cost(r, l)` for `l` in `ls`, stopping at the first panic. -/
def costRow (oc : Bool) (c : Conn) (r : Nat) : List Nat → Outcome (List Int)
  | [] => .ok []
  | l :: ls =>
    match c.cost oc r l with
    | .ok x =>
      match costRow oc c r ls with
      | .ok xs => .ok (x :: xs)
      | .err => .err
      | .panic => .panic
    | .err => .err
    | .panic => .panic

/-- The rows `rs` of the cost table, concatenated. -/
def costRows (oc : Bool) (c : Conn) (nl : Nat) : List Nat → Outcome (List Int)
  | [] => .ok []
  | r :: rs =>
    match costRow oc c r (List.range nl) with
    | .ok row =>
      match costRows oc c nl rs with
      | .ok rest => .ok (row ++ rest)
      | .err => .err
      | .panic => .panic
    | .err => .err
    | .panic => .panic

/-- `Connector::cost` on the whole table, row-major (`r * numLeft + l`). -/
def Built.table (oc : Bool) (B : Built) : Outcome (List Int) :=
  costRows oc B.conn B.numLeft (List.range B.numRight)

/-- The `DictM` view of a built dictionary with its cost table (the shape `buildDictWithConn`
produces from the same table). -/
def Built.toDict (B : Built) (table : List Int) : DictM :=
  { sys := B.sys, user := none, numRight := B.numRight, numLeft := B.numLeft, conn := table,
    mapper := none, chars := B.chars, unk := B.unk }

/-- Builder followed by the evaluation of the whole cost table.  `.panic` is either a panic of
the builder or of `Connector::cost` for some pair inside the table (`buildBigram` /
`Built.table` tell which). -/
def buildBigramDictWith (fx : Fixes) (oc : Bool) (split : Option (List Nat))
    (lex right left cost chardef unk : List UInt8) (dual : Bool) : Outcome DictM :=
  match buildBigram fx oc split lex right left cost chardef unk dual with
  | .err => .err
  | .panic => .panic
  | .ok B =>
    match B.table oc with
    | .ok t => .ok (B.toDict t)
    | .err => .err
    | .panic => .panic

end Vibrato.Bigram

namespace Vibrato

/-- `SystemDictionaryBuilder::from_readers_with_bigram_info` as a `DictM` (release profile:
wrapping `i32` arithmetic; greedy template split with ascending iteration order). -/
def buildBigramDict (fx : Fixes) (lex right left cost chardef unk : List UInt8) (dual : Bool) :
    Outcome DictM :=
  Bigram.buildBigramDictWith fx false none lex right left cost chardef unk dual

end Vibrato
