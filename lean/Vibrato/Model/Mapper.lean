/-
Model of the connection-id mapping code of vibrato (properties C06 id-mapping part, C13 statistics
part).  Mirrors, function by function,

  vibrato/src/dictionary/mapper.rs          ConnIdMapper::{parse, from_iter, left, right},
                                             ConnIdCounter::compute_probs
  vibrato/src/dictionary/lexicon/param.rs   WordParams::map_connection_ids
  vibrato/src/dictionary/unknown.rs         UnkHandler::map_connection_ids (same loop)
  vibrato/src/dictionary/connector/matrix_connector.rs   index, cost, map_connection_ids
  vibrato/src/dictionary/connector/raw_connector.rs      cost, map_connection_ids
  vibrato/src/dictionary/connector/dual_connector.rs     cost, map_connection_ids
  vibrato/src/dictionary.rs                 map_connection_ids_from_iter,
                                             reset_user_lexicon_from_reader (id part)

Rust panics (`assert_eq!`, slice index out of range, `unwrap`, `debug_assert!`, arithmetic overflow
under overflow-checks) are the explicit outcome `panic`; `Err(..)` is `err`.

Build configuration that is modelled: the one of the verification harness, i.e. debug assertions
and overflow checks ON (`debug_assert!` inside `MatrixConnector::index`, `left_id += 1` on `u16`
in the dual connector, `right_id + 1` on `u16` in the raw connector are panic sites).

Abstractions (stated, not hidden):
* ids and counts are `Nat`; the `u16` item type of the mapping iterators is a precondition of the
  caller (`< 65536`), the `u16::try_from(new_id)` inside `parse` is modelled;
* a `U31x8` lane block / a row of lane blocks is a `List Nat`; the bigram scorer is a parameter
  `score : List Nat → List Nat → Int` (cost is a function of the two rows only);
* the raw connector's flat `Vec<U31x8>` with `feat_template_size = T` is a list of rows
  (`num_right() = len / T`; for `T = 0` the real code divides by zero -- outside this model);
* `sort_unstable_by` with a comparator that is a strict total order on the items (ids are pairwise
  distinct) has exactly one possible result; it is modelled by insertion sort;
* FLOAT ASSUMPTION (C13): the code sorts by `cnt as f64 / sum as f64` with
  `partial_cmp(..).unwrap_or(Equal)`; the model compares the counts as naturals.  Assumed:
  for `sum < 2^53` the map `cnt ↦ fl(cnt / sum)` is strictly monotone on `0..=sum`, and for
  `sum = 0` every quotient is NaN, all comparisons are `Equal`, and the id decides -- which is
  what comparing the (all zero) counts gives.

No Mathlib / Batteries imports: this file is linked into the `vmodel` executable.
-/
namespace Vibrato.Mapper

/-- Result of a Rust call: `Ok`, `Err`, or a panic. -/
inductive Outcome (α : Type) where
  | ok (a : α)
  | err
  | panic
deriving DecidableEq, Repr

namespace Outcome

@[inline] def andThen {α β : Type} (x : Outcome α) (f : α → Outcome β) : Outcome β :=
  match x with
  | .ok a => f a
  | .err => .err
  | .panic => .panic

instance : Monad Outcome where
  pure := .ok
  bind := andThen

end Outcome

open Outcome

/-- `u16::MAX`, used as the "not yet assigned" sentinel by `parse` and by the dual connector. -/
def u16max : Nat := 65535

/-- `for x in xs { s = step(x, s)? }` -/
def forEach {ι σ : Type} (step : ι → σ → Outcome σ) : List ι → σ → Outcome σ
  | [], s => .ok s
  | x :: xs, s => (step x s).andThen (forEach step xs)

/-! ### `ConnIdMapper` -/

/-- First loop of `ConnIdMapper::parse`: push the ids behind `old_ids`, `Err` on id 0. -/
def pushIds (acc : List Nat) : List Nat → Outcome (List Nat)
  | [] => .ok acc
  | x :: xs => if x = 0 then .err else pushIds (acc ++ [x]) xs

/-- Second loop of `ConnIdMapper::parse` (`new_id` counts from 1):
    `get_mut` fails → `Err` (out of range); entry `!= u16::MAX` → `Err` (duplicate);
    `u16::try_from(new_id)?` → `Err`. -/
def assignIds : (newIds : List Nat) → (newId : Nat) → (olds : List Nat) → Outcome (List Nat)
  | newIds, _, [] => .ok newIds
  | newIds, newId, o :: os =>
    match newIds[o]? with
    | none => .err
    | some e =>
      if e ≠ u16max then .err
      else if newId > u16max then .err
      else assignIds (newIds.set o newId) (newId + 1) os

/-- `ConnIdMapper::parse`. The result has `map.length + 1` entries, entry 0 is 0. -/
def parseMap (m : List Nat) : Outcome (List Nat) :=
  (pushIds [0] m).andThen fun oldIds =>
    assignIds ((List.replicate oldIds.length u16max).set 0 0) 1 (oldIds.drop 1)

/-- `ConnIdMapper { left, right }`. -/
structure Mapper where
  left : List Nat
  right : List Nat
deriving DecidableEq, Repr

/-- `ConnIdMapper::from_iter`. -/
def Mapper.fromIter (lmap rmap : List Nat) : Outcome Mapper :=
  (parseMap lmap).andThen fun l => (parseMap rmap).andThen fun r => .ok ⟨l, r⟩

/-- `self.left[usize::from(id)]` -/
def Mapper.leftAt (m : Mapper) (id : Nat) : Outcome Nat :=
  match m.left[id]? with
  | some v => .ok v
  | none => .panic

/-- `self.right[usize::from(id)]` -/
def Mapper.rightAt (m : Mapper) (id : Nat) : Outcome Nat :=
  match m.right[id]? with
  | some v => .ok v
  | none => .panic

/-! ### Word parameters (system / user lexicon, unknown-word entries) -/

structure Param where
  left : Nat
  right : Nat
  cost : Int
deriving DecidableEq, Repr

/-- `WordParams::map_connection_ids` / `UnkHandler::map_connection_ids`. -/
def mapParams (m : Mapper) : List Param → Outcome (List Param)
  | [] => .ok []
  | p :: ps =>
    (m.leftAt p.left).andThen fun l =>
    (m.rightAt p.right).andThen fun r =>
    (mapParams m ps).andThen fun rest =>
    .ok ({ p with left := l, right := r } :: rest)

/-- `Lexicon::verify` against `num_left`, `num_right`. -/
def verifyParams (numLeft numRight : Nat) : List Param → Bool
  | [] => true
  | p :: ps =>
    if numLeft ≤ p.left then false
    else if numRight ≤ p.right then false
    else verifyParams numLeft numRight ps

/-! ### Matrix connector -/

structure Matrix where
  data : List Int
  numRight : Nat
  numLeft : Nat
deriving DecidableEq, Repr

/-- `MatrixConnector::index` with its three `debug_assert!`s. -/
def Matrix.index (C : Matrix) (r l : Nat) : Outcome Nat :=
  if r < C.numRight ∧ l < C.numLeft ∧ l * C.numRight + r < C.data.length then
    .ok (l * C.numRight + r)
  else .panic

/-- `MatrixConnector::cost`. -/
def Matrix.cost (C : Matrix) (r l : Nat) : Outcome Int :=
  (C.index r l).andThen fun i =>
    match C.data[i]? with
    | some v => .ok v
    | none => .panic

/-- Body of the inner loop of `MatrixConnector::map_connection_ids`. -/
def Matrix.mapCell (m : Mapper) (C : Matrix) (r16 nr : Nat) (l : Nat) (mapped : List Int) :
    Outcome (List Int) :=
  let l16 := l % 65536                       -- `left_id as u16`
  (m.leftAt l16).andThen fun nl =>
  (C.index r16 l16).andThen fun i =>
  (C.index nr nl).andThen fun ni =>
  match C.data[i]? with
  | none => .panic
  | some v => if ni < mapped.length then .ok (mapped.set ni v) else .panic

/-- Body of the outer loop. -/
def Matrix.mapRow (m : Mapper) (C : Matrix) (r : Nat) (mapped : List Int) : Outcome (List Int) :=
  let r16 := r % 65536                       -- `right_id as u16`
  (m.rightAt r16).andThen fun nr =>
  forEach (Matrix.mapCell m C r16 nr) (List.range C.numLeft) mapped

/-- `MatrixConnector::map_connection_ids` (two `assert_eq!`, then the double loop). -/
def Matrix.map (m : Mapper) (C : Matrix) : Outcome Matrix :=
  if m.left.length ≠ C.numLeft then .panic
  else if m.right.length ≠ C.numRight then .panic
  else
    (forEach (Matrix.mapRow m C) (List.range C.numRight) (List.replicate C.data.length 0)).andThen
      fun mapped => .ok { C with data := mapped }

/-! ### Row permutation shared by the raw and the dual connector

`let mut mapped = vec![default; src.len()];
 for id in 0..n { let new = usize::from(mapper(u16::try_from(id).unwrap())); mapped[new] = src[id]; }` -/

def permuteStep {α : Type} (tbl : List Nat) (src : List α) (id : Nat) (mapped : List α) :
    Outcome (List α) :=
  if id > u16max then .panic                  -- `u16::try_from(id).unwrap()`
  else match tbl[id]?, src[id]? with
    | some nid, some v => if nid < mapped.length then .ok (mapped.set nid v) else .panic
    | _, _ => .panic

def permuteBy {α : Type} (tbl : List Nat) (n : Nat) (src : List α) (dflt : α) : Outcome (List α) :=
  forEach (permuteStep tbl src) (List.range n) (List.replicate src.length dflt)

/-! ### Raw connector (rows as lists) -/

structure Raw where
  rightRows : List (List Nat)
  leftRows : List (List Nat)
  /-- `feat_template_size * 8`: the width of a row (only used for the default row). -/
  width : Nat
deriving DecidableEq, Repr

def Raw.numRight (C : Raw) : Nat := C.rightRows.length
def Raw.numLeft (C : Raw) : Nat := C.leftRows.length

/-- `RawConnector::cost`: `right_id + 1` / `left_id + 1` are `u16` additions (overflow = panic),
    the two slices are range-checked. -/
def Raw.cost (score : List Nat → List Nat → Int) (C : Raw) (r l : Nat) : Outcome Int :=
  if r ≥ u16max then .panic
  else match C.rightRows[r]? with
    | none => .panic
    | some a =>
      if l ≥ u16max then .panic
      else match C.leftRows[l]? with
        | none => .panic
        | some b => .ok (score a b)

/-- `RawConnector::map_connection_ids`. -/
def Raw.map (m : Mapper) (C : Raw) : Outcome Raw :=
  if m.left.length ≠ C.numLeft then .panic
  else if m.right.length ≠ C.numRight then .panic
  else
    (permuteBy m.right C.numRight C.rightRows (List.replicate C.width 0)).andThen fun rr =>
    (permuteBy m.left C.numLeft C.leftRows (List.replicate C.width 0)).andThen fun lr =>
    .ok { C with rightRows := rr, leftRows := lr }

/-! ### Dual connector -/

structure Dual where
  matrix : Matrix
  rightMap : List Nat         -- right_conn_id_map
  leftMap : List Nat          -- left_conn_id_map
  rightLanes : List (List Nat)  -- right_feat_ids : Vec<U31x8>
  leftLanes : List (List Nat)   -- left_feat_ids
deriving DecidableEq, Repr

def Dual.numRight (C : Dual) : Nat := C.rightMap.length
def Dual.numLeft (C : Dual) : Nat := C.leftMap.length

/-- `DualConnector::cost`. -/
def Dual.cost (score : List Nat → List Nat → Int) (C : Dual) (r l : Nat) : Outcome Int :=
  match C.rightMap[r]?, C.leftMap[l]? with
  | some rc, some lc =>
    (C.matrix.cost rc lc).andThen fun mc =>
      match C.rightLanes[r]?, C.leftLanes[l]? with
      | some a, some b => .ok (mc + score a b)
      | _, _ => .panic
  | _, _ => .panic

/-- First-appearance renumbering loop
    `for i in &mut conn_id_map { let map = &mut table[*i]; if *map != MAX { *i = *map; continue; }
       *map = cnt; *i = cnt; cnt += 1; }`
    returning the rewritten id list and the final table. `cnt` is a `u16`. -/
def renumber : (table : List Nat) → (cnt : Nat) → (ids : List Nat) → Outcome (List Nat × List Nat)
  | table, _, [] => .ok ([], table)
  | table, cnt, i :: is =>
    match table[i]? with
    | none => .panic
    | some mp =>
      if mp ≠ u16max then
        (renumber table cnt is).andThen fun (out, t) => .ok (mp :: out, t)
      else if cnt = u16max then .panic          -- `cnt += 1` overflows `u16`
      else
        (renumber (table.set i cnt) (cnt + 1) is).andThen fun (out, t) => .ok (cnt :: out, t)

/-- `DualConnector::map_connection_ids`.  (The code permutes lane blocks and conn-id map in one
    loop; two loops over the same range have the same outcome.) -/
def Dual.map (m : Mapper) (C : Dual) : Outcome Dual :=
  if m.left.length ≠ C.numLeft then .panic
  else if m.right.length ≠ C.numRight then .panic
  else
    (permuteBy m.right C.numRight C.rightLanes (List.replicate 8 0)).andThen fun rl =>
    (permuteBy m.right C.numRight C.rightMap 0).andThen fun rm =>
    (permuteBy m.left C.numLeft C.leftLanes (List.replicate 8 0)).andThen fun ll =>
    (permuteBy m.left C.numLeft C.leftMap 0).andThen fun lm =>
    (renumber (List.replicate C.matrix.numLeft u16max) 0 lm).andThen fun (lm', tl) =>
    (renumber (List.replicate C.matrix.numRight u16max) 0 rm).andThen fun (rm', tr) =>
    (C.matrix.map ⟨tl, tr⟩).andThen fun mx =>
    .ok { matrix := mx, rightMap := rm', leftMap := lm', rightLanes := rl, leftLanes := ll }

/-! ### `ConnectorWrapper` and the abstract dictionary -/

inductive Conn where
  | matrix (c : Matrix)
  | raw (c : Raw)
  | dual (c : Dual)
deriving DecidableEq, Repr

def Conn.numLeft : Conn → Nat
  | .matrix c => c.numLeft
  | .raw c => c.numLeft
  | .dual c => c.numLeft

def Conn.numRight : Conn → Nat
  | .matrix c => c.numRight
  | .raw c => c.numRight
  | .dual c => c.numRight

def Conn.cost (score : List Nat → List Nat → Int) : Conn → Nat → Nat → Outcome Int
  | .matrix c, r, l => c.cost r l
  | .raw c, r, l => c.cost score r l
  | .dual c, r, l => c.cost score r l

def Conn.map (m : Mapper) : Conn → Outcome Conn
  | .matrix c => (c.map m).andThen fun c' => .ok (.matrix c')
  | .raw c => (c.map m).andThen fun c' => .ok (.raw c')
  | .dual c => (c.map m).andThen fun c' => .ok (.dual c')

/-- The id-relevant part of `DictionaryInner`. -/
structure Dict where
  sysParams : List Param
  userParams : Option (List Param)
  conn : Conn
  unkParams : List Param
  stored : Option Mapper
deriving DecidableEq, Repr

/-- Table composition for the F3 repair: `out[i] = second[first[i]]`. -/
def composeTable (first second : List Nat) : Outcome (List Nat) :=
  match first with
  | [] => .ok []
  | i :: rest =>
    match second[i]? with
    | none => .panic
    | some v => (composeTable rest second).andThen fun out => .ok (v :: out)

def Mapper.compose (first second : Mapper) : Outcome Mapper :=
  (composeTable first.left second.left).andThen fun l =>
  (composeTable first.right second.right).andThen fun r => .ok ⟨l, r⟩

def mapUser (m : Mapper) : Option (List Param) → Outcome (Option (List Param))
  | none => .ok none
  | some u => (mapParams m u).andThen fun u' => .ok (some u')

/-- The mapper that is stored after a mapping: the new one (pinned tree), or the stored one
    composed with the new one (F3 repair). -/
def storeMapper (fixed : Bool) (stored : Option Mapper) (m : Mapper) : Outcome Mapper :=
  match fixed, stored with
  | true, some s => s.compose m
  | _, _ => .ok m

/-- `Dictionary::map_connection_ids_from_iter`.

`fixed = false` is the pinned tree: the mapper is applied to the system lexicon, the user lexicon,
the connector and the unknown handler in this order (so a too short mapper panics in
`mapper.left(id)` before the connector's `assert_eq!` is reached), and the stored mapper is
REPLACED.

`fixed = true` is the minimally repaired code: (F2) the mapper's lengths are compared with the
connector's before anything is touched, mismatch → `Err`; (F3) the new mapper is composed with
the stored one before being stored. -/
def Dict.mapIds (fixed : Bool) (lmap rmap : List Nat) (D : Dict) : Outcome Dict :=
  (Mapper.fromIter lmap rmap).andThen fun m =>
  if fixed && (m.left.length != D.conn.numLeft || m.right.length != D.conn.numRight) then .err
  else
    (mapParams m D.sysParams).andThen fun sys =>
    (mapUser m D.userParams).andThen fun usr =>
    (D.conn.map m).andThen fun conn =>
    (mapParams m D.unkParams).andThen fun unk =>
    (storeMapper fixed D.stored m).andThen fun st =>
    .ok { sysParams := sys, userParams := usr, conn := conn, unkParams := unk, stored := some st }

/-- `Dictionary::reset_user_lexicon_from_reader(Some(..))`, after the CSV has been parsed to
    parameters: translate through the stored mapper (index panic possible: this happens BEFORE
    `verify`), then `verify` → `Err`. -/
def Dict.loadUser (D : Dict) (u : List Param) : Outcome Dict :=
  (match D.stored with
    | some m => mapParams m u
    | none => .ok u).andThen fun u' =>
  if verifyParams D.conn.numLeft D.conn.numRight u' then .ok { D with userParams := some u' }
  else .err

/-- Repair of the extra panic site of `reset_user_lexicon_from_reader` ("F2b"): verify the ids of
    the freshly parsed user lexicon BEFORE translating them through the stored mapper. -/
def Dict.loadUserChecked (D : Dict) (u : List Param) : Outcome Dict :=
  if verifyParams D.conn.numLeft D.conn.numRight u then D.loadUser u else .err

/-- `Dictionary::reset_user_lexicon_from_reader(None)`. -/
def Dict.clearUser (D : Dict) : Dict := { D with userParams := none }

/-- Operations of a mapping history. -/
inductive Op where
  | map (lmap rmap : List Nat)
  | loadUser (u : List Param)
  | clearUser
deriving DecidableEq, Repr

def Dict.step (fixed : Bool) (D : Dict) : Op → Outcome Dict
  | .map l r => D.mapIds fixed l r
  | .loadUser u => D.loadUser u
  | .clearUser => .ok D.clearUser

/-- Run a history; a failing call ends it (the Rust methods consume the dictionary). -/
def Dict.run (fixed : Bool) : Dict → List Op → Outcome Dict
  | D, [] => .ok D
  | D, op :: ops => (D.step fixed op).andThen fun D' => Dict.run fixed D' ops

/-! ### `ConnIdCounter::compute_probs` (ids only) -/

/-- The comparator of `sort_unstable_by`, on (id, count) pairs, with counts compared as naturals
    (see FLOAT ASSUMPTION): larger count first, ties by ascending id.  `true` = "a goes before b
    or is b". -/
def probLe (a b : Nat × Nat) : Bool :=
  b.2 < a.2 || (a.2 == b.2 && a.1 ≤ b.1)

def insertSorted (x : Nat × Nat) : List (Nat × Nat) → List (Nat × Nat)
  | [] => [x]
  | y :: ys => if probLe x y then x :: y :: ys else y :: insertSorted x ys

def sortProbs : List (Nat × Nat) → List (Nat × Nat)
  | [] => []
  | x :: xs => insertSorted x (sortProbs xs)

/-- `.iter().enumerate()` from a start index. -/
def enumFrom (i : Nat) : List Nat → List (Nat × Nat)
  | [] => []
  | c :: cs => (i, c) :: enumFrom (i + 1) cs

/-- One side of `compute_probs`: enumerate, `drain(..1)` (panics on an empty vector), sort,
    keep the ids. -/
def probsSide (counts : List Nat) : Outcome (List Nat) :=
  match enumFrom 0 counts with
  | [] => .panic
  | _ :: rest => .ok ((sortProbs rest).map Prod.fst)

/-- `ConnIdCounter::compute_probs`, ids only: `(left ids, right ids)`. Both drains happen before
    the sorts; either one panics on an empty counter. -/
def computeProbs (lidCount ridCount : List Nat) : Outcome (List Nat × List Nat) :=
  (probsSide lidCount).andThen fun l =>
  (probsSide ridCount).andThen fun r => .ok (l, r)

end Vibrato.Mapper
