/-
Model of

* `Lexicon::parse_csv`   (`vibrato/src/dictionary/lexicon.rs`)  → `parseCsv`
* `parse_csv_row`        (`vibrato/src/utils.rs`)               → `parseCsvRowBytes`, `parseCsvRow`
* `quote_csv_cell`       (`vibrato/src/utils.rs`, feature `train`) → `quoteCsvCell`

on top of the csv-core port in `Vibrato/Model/CsvCore.lean`.

Strings are byte lists (`List UInt8`); a Rust `str`/`String` is a byte list with `validUtf8`.
`std::str::from_utf8` is modelled by `validUtf8` (the well-formedness table of the Unicode
standard, which is what `core::str::from_utf8` accepts), `str::parse::<u16>()` /
`str::parse::<i16>()` by `parseU16` / `parseI16` (`core::num::from_str_radix(_, 10)`:
optional single leading `+`, for signed types alternatively `-`, at least one digit, only
ASCII digits, value in range).

`parseCsv` takes a flag `fixed`: `false` is the code of the pinned tree, `true` is the
repaired end-of-input handling of `/verif/notes/candidate-fixes.patch` (lexicon.rs hunk).

Panic sites that are modelled as `Outcome.panic`:
* `features_len - 1` with `features_len = 0` (debug: overflow check; release: the wrapped
  value is an out-of-range slice end) and `&features_bytes[..features_len - 1]` out of range;
* `&record_bytes[..record_end_pos]` out of range;
* `unreachable!()` (OutputFull) and `from_utf8(..).unwrap()` in `parse_csv_row` (the former
  is dead with the F18 repair `fixed = true`, the latter for every `&str`);
* `assert_eq!(result, InputEmpty)` after `writer.finish` in `quote_csv_cell`.
`&bytes[nin..]` is modelled by `List.drop`; `csv-core` guarantees `nin ≤ bytes.len()`
(`readField_nin_le` in `Proofs/CsvCore.lean`).

No Mathlib / Batteries imports: this file is linked into the model driver executable.
-/
import Vibrato.Model.CsvCore

namespace Vibrato.LexCsv

open Vibrato.Csv

/-- Result of a Rust function: `Ok`, `Err`, or a panic. -/
inductive Outcome (α : Type) where
  | ok (a : α)
  | err
  | panic
  deriving Repr, DecidableEq

/-! ## `std::str::from_utf8` -/

/-- What the UTF-8 decoder still expects. -/
inductive U8State where
  | start   -- at a character boundary
  | c1      -- one continuation byte 80..BF
  | c2      -- two continuation bytes
  | c3      -- three continuation bytes
  | e0      -- after E0: A0..BF, then one continuation byte
  | ed      -- after ED: 80..9F, then one continuation byte
  | f0      -- after F0: 90..BF, then two continuation bytes
  | f4      -- after F4: 80..8F, then two continuation bytes
  deriving Repr, DecidableEq

def utf8Step (s : U8State) (b : UInt8) : Option U8State :=
  match s with
  | .start =>
    if b < 0x80 then some .start
    else if 0xC2 ≤ b ∧ b ≤ 0xDF then some .c1
    else if b = 0xE0 then some .e0
    else if b = 0xED then some .ed
    else if 0xE1 ≤ b ∧ b ≤ 0xEF then some .c2
    else if b = 0xF0 then some .f0
    else if 0xF1 ≤ b ∧ b ≤ 0xF3 then some .c3
    else if b = 0xF4 then some .f4
    else none
  | .c1 => if 0x80 ≤ b ∧ b ≤ 0xBF then some .start else none
  | .c2 => if 0x80 ≤ b ∧ b ≤ 0xBF then some .c1 else none
  | .c3 => if 0x80 ≤ b ∧ b ≤ 0xBF then some .c2 else none
  | .e0 => if 0xA0 ≤ b ∧ b ≤ 0xBF then some .c1 else none
  | .ed => if 0x80 ≤ b ∧ b ≤ 0x9F then some .c1 else none
  | .f0 => if 0x90 ≤ b ∧ b ≤ 0xBF then some .c2 else none
  | .f4 => if 0x80 ≤ b ∧ b ≤ 0x8F then some .c2 else none

def utf8Run : U8State → List UInt8 → Option U8State
  | s, [] => some s
  | s, b :: rest =>
    match utf8Step s b with
    | some s' => utf8Run s' rest
    | none => none

/-- `std::str::from_utf8(bytes).is_ok()`. -/
def validUtf8 (bytes : List UInt8) : Bool := utf8Run .start bytes = some .start

/-! ## `str::parse::<u16>()`, `str::parse::<i16>()` -/

def digitVal (b : UInt8) : Option Nat :=
  if 48 ≤ b ∧ b ≤ 57 then some (b.toNat - 48) else none

/-- All bytes are ASCII digits; the decimal value (`acc` = value so far). -/
def parseDigits : List UInt8 → Nat → Option Nat
  | [], acc => some acc
  | b :: rest, acc =>
    match digitVal b with
    | some d => parseDigits rest (acc * 10 + d)
    | none => none

/-- `<u16 as FromStr>::from_str`: `""`, `"+"`, `"-"` are errors, one leading `+` is
skipped, a leading `-` is an invalid digit for an unsigned type. -/
def parseU16 (s : List UInt8) : Option Nat :=
  match s with
  | [] => none
  | [43] => none
  | [45] => none
  | 43 :: rest => (parseDigits rest 0).bind fun v => if v ≤ 65535 then some v else none
  | _ => (parseDigits s 0).bind fun v => if v ≤ 65535 then some v else none

/-- `<i16 as FromStr>::from_str`. -/
def parseI16 (s : List UInt8) : Option Int :=
  match s with
  | [] => none
  | [43] => none
  | [45] => none
  | 43 :: rest => (parseDigits rest 0).bind fun v => if v ≤ 32767 then some (v : Int) else none
  | 45 :: rest => (parseDigits rest 0).bind fun v => if v ≤ 32768 then some (-(v : Int)) else none
  | _ => (parseDigits s 0).bind fun v => if v ≤ 32767 then some (v : Int) else none

/-! ## `Lexicon::parse_csv` -/

/-- `RawWordEntry` (`param` flattened). `surface` and `feature` are valid UTF-8. -/
structure RawEntry where
  surface : List UInt8
  leftId : Nat
  rightId : Nat
  wordCost : Int
  feature : List UInt8
  deriving Repr, DecidableEq

/-- `let mut output = [0; 4096];` -/
def outCap : Nat := 4096

/-- The local variables of `parse_csv`. -/
structure PState where
  rdr : Reader
  bytes : List UInt8
  featuresBytes : List UInt8
  recordBytes : List UInt8
  fieldCnt : Nat
  featuresLen : Nat
  recordEndPos : Nat
  surface : List UInt8
  leftId : Nat
  rightId : Nat
  wordCost : Int
  entries : List RawEntry
  deriving Repr, DecidableEq

/-- State before the first iteration. -/
def PState.init (bytes : List UInt8) : PState :=
  { rdr := Reader.new, bytes := bytes, featuresBytes := bytes, recordBytes := bytes,
    fieldCnt := 0, featuresLen := 0, recordEndPos := 0, surface := [],
    leftId := 0, rightId := 0, wordCost := 0, entries := [] }

/-- One loop iteration either continues with a new state or leaves the function. -/
inductive Step where
  | next (st : PState)
  | done (r : Outcome (List RawEntry))
  deriving Repr, DecidableEq

/-- `match field_cnt { 0 => .., 1 => .., 2 => .., 3 => .., _ => .. }` in the
`ReadFieldResult::Field` arm; `none` = the `?` returned an `Err`. -/
def fieldUpdate (st : PState) (nin : Nat) (out : List UInt8) : Option PState :=
  if st.fieldCnt = 0 then
    if validUtf8 out then some { st with surface := out, recordBytes := st.bytes } else none
  else if st.fieldCnt = 1 then
    if validUtf8 out then (parseU16 out).map fun v => { st with leftId := v } else none
  else if st.fieldCnt = 2 then
    if validUtf8 out then (parseU16 out).map fun v => { st with rightId := v } else none
  else if st.fieldCnt = 3 then
    if validUtf8 out then
      (parseI16 out).map fun v =>
        { st with wordCost := v, featuresBytes := st.bytes.drop nin, featuresLen := 0 }
    else none
  else some { st with featuresLen := st.featuresLen + nin }

/-- The part of the loop body after the `match result`:
`if record_end { .. } else { field_cnt += 1 }; bytes = &bytes[nin..];` -/
def recordTail (st : PState) (nin : Nat) (recordEnd : Bool) : Step :=
  if recordEnd then
    if st.fieldCnt = 0 && nin = 0 then
      .next st                                   -- `continue`
    else if st.fieldCnt ≤ 3 then
      -- `format!(.., std::str::from_utf8(&record_bytes[..record_end_pos])?)`, then `Err`
      if st.recordEndPos > st.recordBytes.length then .done .panic else .done .err
    else
      -- `&features_bytes[..features_len - 1]`
      if st.featuresLen = 0 then .done .panic
      else if st.featuresLen - 1 > st.featuresBytes.length then .done .panic
      else
        let feature := st.featuresBytes.take (st.featuresLen - 1)
        if !validUtf8 feature then .done .err
        else if st.surface.isEmpty then
          -- `eprintln!(.., std::str::from_utf8(&record_bytes[..record_end_pos])?)`
          if st.recordEndPos > st.recordBytes.length then .done .panic
          else if !validUtf8 (st.recordBytes.take st.recordEndPos) then .done .err
          else
            .next { st with surface := [], fieldCnt := 0, recordEndPos := 0,
                            bytes := st.bytes.drop nin }
        else
          .next { st with
            entries := st.entries ++
              [{ surface := st.surface, leftId := st.leftId, rightId := st.rightId,
                 wordCost := st.wordCost, feature := feature }],
            surface := [], fieldCnt := 0, recordEndPos := 0, bytes := st.bytes.drop nin }
  else
    .next { st with fieldCnt := st.fieldCnt + 1, bytes := st.bytes.drop nin }

/-- One iteration of the `loop` of `parse_csv`. -/
def step (fixed : Bool) (st0 : PState) : Step :=
  let (result, nin, out, rdr') := readField st0.rdr st0.bytes outCap
  let st := { st0 with rdr := rdr' }
  match result with
  | .inputEmpty =>
    -- fix: `if field_cnt == 0 && bytes[..nin].iter().all(|&b| b == b'\n' || b == b'\r') { break; }`
    if fixed && st.fieldCnt = 0 && (st.bytes.take nin).all (fun b => b = 10 || b = 13) then
      .done (.ok st.entries)
    else
      recordTail { st with featuresLen := st.featuresLen + (nin + 1),
                           recordEndPos := st.recordEndPos + nin } nin true
  | .outputFull => .done .err
  | .field recordEnd =>
    match fieldUpdate st nin out with
    | none => .done .err
    | some st1 =>
      -- fix: `if record_end && nin == 0 && field_cnt >= 4 { features_len += 1; }`
      let st2 :=
        if fixed && recordEnd && nin = 0 && st1.fieldCnt ≥ 4 then
          { st1 with featuresLen := st1.featuresLen + 1 }
        else st1
      recordTail { st2 with recordEndPos := st2.recordEndPos + nin } nin recordEnd
  | .end_ => .done (.ok st.entries)

/-- The `loop`; `none` = out of fuel. -/
def parseLoop (fixed : Bool) : Nat → PState → Option (Outcome (List RawEntry))
  | 0, _ => none
  | fuel + 1, st =>
    match step fixed st with
    | .next st' => parseLoop fixed fuel st'
    | .done r => some r

/-- Number of iterations that always suffices (`parseLoop_total` in `Proofs/LexCsv.lean`):
every iteration consumes at least one byte, except at most two at the end of the data. -/
def parseFuel (bytes : List UInt8) : Nat := 2 * bytes.length + 3

/-- `Lexicon::parse_csv(bytes, name)`.  The `none` case does not occur
(`parseLoop_total`). -/
def parseCsv (fixed : Bool) (bytes : List UInt8) : Outcome (List RawEntry) :=
  match parseLoop fixed (parseFuel bytes) (PState.init bytes) with
  | some r => r
  | none => .panic

/-! ## `parse_csv_row` -/

/-- The `loop` of `parse_csv_row` with `cap = output.len()`; `none` = out of fuel (does not
occur). -/
def rowLoop (cap : Nat) :
    Nat → Reader → List UInt8 → List (List UInt8) → Option (Outcome (List (List UInt8)))
  | 0, _, _, _ => none
  | fuel + 1, rdr, bytes, features =>
    let (result, nin, out, rdr') := readField rdr bytes cap
    match result with
    | .outputFull => some .panic          -- `unreachable!()`
    | .inputEmpty | .end_ =>
      -- `from_utf8(&output[..nout]).unwrap()`
      if validUtf8 out then some (.ok (features ++ [out])) else some .panic
    | .field _ =>
      if validUtf8 out then rowLoop cap fuel rdr' (bytes.drop nin) (features ++ [out])
      else some .panic

/-- The size of the output buffer of `parse_csv_row`: pinned tree (`fixed = false`)
`let mut output = [0; 4096];`, repaired tree (finding F18, `fixed = true`)
`let mut output = vec![0; row.len()];`. -/
def rowCap (fixed : Bool) (row : List UInt8) : Nat := if fixed then row.length else outCap

/-- `parse_csv_row(row)` on the bytes of `row` (a `&str`, so `validUtf8 row`).  The `none`
case does not occur (`rowLoop_total` in `Proofs/LexCsv.lean`).  With `fixed = true` no panic
is left for valid UTF-8 rows (`parse_csv_row_total` in `Props/C11.lean`). -/
def parseCsvRowBytes (fixed : Bool) (row : List UInt8) : Outcome (List (List UInt8)) :=
  match rowLoop (rowCap fixed row) (parseFuel row) Reader.new row [] with
  | some r => r
  | none => .panic

/-- `parse_csv_row` on Lean strings.  (`String.fromUTF8?` cannot fail here when the model
says `ok`, since every cell passed `validUtf8`; the `none` case maps to `panic` like the
`unwrap`.) -/
def parseCsvRow (fixed : Bool) (row : String) : Outcome (List String) :=
  match parseCsvRowBytes fixed row.toUTF8.toList with
  | .ok cells =>
    match cells.mapM (fun c => String.fromUTF8? (ByteArray.mk c.toArray)) with
    | some ss => .ok ss
    | none => .panic
  | .err => .err
  | .panic => .panic

/-! ## `quote_csv_cell` -/

/-- The `loop` of `quote_csv_cell`: bytes passed to `wtr.write_all`, and the writer.
`none` = out of fuel (no progress; does not occur with a 4096 byte buffer). -/
def quoteFieldLoop : Nat → Writer → List UInt8 → List UInt8 → Option (List UInt8 × Writer)
  | 0, _, _, _ => none
  | fuel + 1, w, data, acc =>
    let (result, nin, out, w') := w.field data outCap
    if result = .inputEmpty then some (acc ++ out, w')
    else quoteFieldLoop fuel w' (data.drop nin) (acc ++ out)

/-- `quote_csv_cell(wtr, data)` into an in-memory `wtr`: the bytes written. -/
def quoteCsvCell (data : List UInt8) : Outcome (List UInt8) :=
  match quoteFieldLoop (data.length + 1) Writer.new data [] with
  | none => .panic
  | some (acc, w) =>
    match w.finish outCap with
    | .assertFailed => .panic
    | .done res out _ =>
      if res = .inputEmpty then .ok (acc ++ out) else .panic  -- `assert_eq!`

/-- What `quote_csv_cell` writes (`quoteCsvCell_eq` in `Proofs/LexCsv.lean`): the cell itself
if it is non-empty and free of `,` `"` `\r` `\n`; `""` if it is empty; otherwise the cell
with doubled quotes between quotes. -/
def quoteCell (data : List UInt8) : List UInt8 :=
  if needsQuotes data then 34 :: escapeQuotes data ++ [34]
  else if data.isEmpty then [34, 34]
  else data

end Vibrato.LexCsv
