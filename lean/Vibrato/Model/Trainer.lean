/-
Executable model of dictionary generation from a trained model
(`/repo/vibrato/src/trainer/model.rs`, `rucrf-0.3.3/src/{model,feature}.rs`,
`/repo/vibrato/src/trainer.rs::extract_feature_set`,
`/repo/vibrato/src/trainer/feature_extractor.rs::extract_feature_ids`):

* `merge`               = `rucrf::RawModel::merge`
* `writeDictionary`     = `Model::write_dictionary`  (lex.csv, matrix.def, unk.def, user.csv)
* `writeBigramDetails`  = `Model::write_bigram_details` (bigram.left / .right / .cost)
* `readUserLexicon`     = `Model::read_user_lexicon`
* `readModelState` / `writeModel` = `Model::read_model` / `Model::write_model`
* `generate`            = read_model; [read_user_lexicon]; write_dictionary; write_bigram_details

The input is the model image (`Model/ModelImage.lean`): the bytes of `write_model` are a
complete observation of the trained model.

Weights.  The code computes in `f64`.  The model is generic in a weight structure
`WeightOps W S` (`W` weights, `S` scale factors): `zero`, `add` (the `weight += w`
accumulations, left to right from `0.0`), `abs`, `le` (`<=`), `eps` (`f64::EPSILON`),
`scaleOf m` (`f64::from(i16::MAX) / m`), `cost16 w s` (`(-w * s) as i16`), `cost32 w s`
(`(-w * s) as i32`), `ofBits` (bit pattern to value).  Instances:
* `Float` (driver): Lean `Float` is the IEEE-754 binary64 of the C compiler (`+ - * /`,
  `Float.abs`, `≤` compile to the C double operations; `Float.toInt16/32` saturate and map NaN
  to 0 exactly like Rust's `as i16/i32`).  This correspondence is TRUSTED, not proved; it is
  exercised bit for bit by the differential runs (stream `train`).
* `Int` (exact arithmetic, used by C14's order lemmas and C16): a weight is an integer number
  of units (every finite `f64` is an integer multiple of 2^-1074), `cost w m = trunc (-w * 32767 / m)`
  saturated to the target width; no rounding anywhere.

`f64::max` in the `weight_abs_max` folds is modelled by `wmax a b = if a ≤ b then b else a`:
the accumulator starts at `0.0` and therefore is never NaN, in which case both agree (a NaN
argument is ignored by both).  The folds run over `HashMap::values()` in hash order in the
code; `wmax` is insensitive to the order for non-NaN values.

Hash containers are lists in stored order (see `ModelImage.lean`): lookups take the LAST entry
with the key (what `collect::<HashMap>()` keeps).  The reverse maps id → feature string built
by `write_bigram_details` (`right_features.insert(idx, feature)` while iterating a hash map)
take the last entry with that id: when two strings carry the same id (never after training:
`ModelOK`), the real result depends on the hash order and the model picks one.

Panic sites modelled as `Outcome.panic`: every slice index (`weights[..]`,
`bigram_weight_indices[0]`, `feature_sets[..]`, `features[..]`, `entries[..]`), the `unwrap`s
(`cate_str(..).unwrap()`, `right_features.get(..).unwrap()`, `chars().next().unwrap()`,
`NonZeroU32::new(next_id).unwrap()`), string slicing of `raw_template` at a capture boundary
(out of range, decreasing, or not a char boundary), `*next_id += 1` overflowing `u32` (the
harness builds with overflow checks; without them the counter wraps to 0 and the NEXT
extraction panics), `chr2inf[0]` on an empty table, the panics of `parse_csv_row` and of
`FeatureRewriter::rewrite` (node index out of range) as in their models.
`Outcome.err`: `parse_csv` errors, connection/label ids that do not fit `u32`.
Not modelled: `u32::try_from(i).unwrap()` for `i ≥ 2^32` lexicon rows.

Core Lean only (linked into the driver executable).
-/
import Vibrato.Model.ModelImage
import Vibrato.Model.LexCsv
import Vibrato.Model.Rewriter
import Vibrato.Model.Text

namespace Vibrato.Trainer
open Vibrato.Bincode Vibrato.Image Vibrato.ModelImage

/-! ## Weight structure -/

class WeightOps (W : Type) (S : outParam Type) where
  zero : W
  add : W → W → W
  abs : W → W
  le : W → W → Bool
  eps : W
  scaleOf : W → S
  cost16 : W → S → Int
  cost32 : W → S → Int
  ofBits : Nat → W

open WeightOps

/-- `f64::max` with a non-NaN left argument. -/
def wmax {W S} [WeightOps W S] (a b : W) : W := if le a b then b else a

/-- `weight.abs() >= f64::EPSILON`. -/
def geEps {W S} [WeightOps W S] (w : W) : Bool := le (eps : W) (abs w)

instance : WeightOps Float Float where
  zero := 0.0
  add := (· + ·)
  abs := Float.abs
  le a b := a ≤ b
  eps := Float.ofBits 0x3CB0000000000000
  scaleOf m := 32767.0 / m
  cost16 w s := ((-w) * s).toInt16.toInt
  cost32 w s := ((-w) * s).toInt32.toInt
  ofBits n := Float.ofBits (UInt64.ofNat n)

/-- Saturation of an integer to `[-2^(b-1), 2^(b-1) - 1]` (`as iN` on an in-range or
out-of-range finite value). -/
def sat (bits : Nat) (i : Int) : Int :=
  if i < -(2 ^ (bits - 1) : Nat) then -(2 ^ (bits - 1) : Nat)
  else if i > (2 ^ (bits - 1) : Nat) - 1 then (2 ^ (bits - 1) : Nat) - 1
  else i

/-- Exact arithmetic: weights are integers (numbers of a common unit), the scale factor is
represented by the maximum itself, `cost = trunc (-w * 32767 / m)` (rational division,
truncation toward zero = `Int.tdiv`), saturated.  `eps` is a parameter of the instance; a stored
bit pattern is read as a two's complement number of units. -/
@[instance_reducible] def exactOps (epsUnits : Int) : WeightOps Int Int where
  zero := 0
  add := (· + ·)
  abs w := (w.natAbs : Int)
  le a b := decide (a ≤ b)
  eps := epsUnits
  scaleOf m := m
  cost16 w m := sat 16 (Int.tdiv (-w * 32767) m)
  cost32 w m := sat 32 (Int.tdiv (-w * 32767) m)
  ofBits n := toSigned 64 n

/-! ## Small helpers -/

/-- Decimal digits of `n`, most significant first (`fuel` ≥ number of digits). -/
def natDecGo : Nat → Nat → List UInt8 → List UInt8
  | 0, _, acc => acc
  | fuel + 1, n, acc =>
    if n < 10 then UInt8.ofNat (48 + n) :: acc
    else natDecGo fuel (n / 10) (UInt8.ofNat (48 + n % 10) :: acc)

/-- `format!("{}", n)` for an unsigned integer. -/
def natDec (n : Nat) : List UInt8 := natDecGo (n + 1) n []

/-- `format!("{}", i)` for a signed integer. -/
def intDec (i : Int) : List UInt8 := if i < 0 then 45 :: natDec i.natAbs else natDec i.natAbs

def comma : UInt8 := 44
def nl : UInt8 := 10
def tab : UInt8 := 9
def star : UInt8 := 42
def slash : UInt8 := 47

/-- `HashMap<u32,u32>::get` on the flattened map: the last entry with the key. -/
def lookupLast (l : List (Nat × Nat)) (k : Nat) : Option Nat :=
  l.foldl (fun acc p => if p.1 = k then some p.2 else acc) none

/-- `HashMap<String,NonZeroU32>::get` on the flattened map. -/
def lookupStr (l : IdMap) (k : Str) : Option Nat :=
  l.foldl (fun acc p => if p.1 = k then some p.2 else acc) none

/-- The reverse map `id ↦ feature` built in `write_bigram_details`. -/
def lookupId (l : IdMap) (id : Nat) : Option Str :=
  l.foldl (fun acc p => if p.2 = id then some p.1 else acc) none

/-- Entries of a flattened `HashMap<u32,u32>` as the hash map holds them: one per key, with
the value of the last occurrence (in order of first... the order is irrelevant: the only
consumer is the multiset of `bigram.cost` lines). -/
def dedupLast : List (Nat × Nat) → List (Nat × Nat)
  | [] => []
  | p :: rest => if rest.any (fun q => q.1 = p.1) then dedupLast rest else p :: dedupLast rest

def ofLex {α} : LexCsv.Outcome α → Outcome α
  | .ok a => .ok a
  | .err => .err
  | .panic => .panic

def ofRw {α} : Rewriter.Outcome α → Outcome α
  | .ok a => .ok a
  | .err => .err
  | .panic => .panic
  | .hang => .panic   -- unreachable (`Proofs/RewriterFuel.lean`)

/-! ## `RawModel::merge` -/

/-- `rucrf::MergedFeatureSet`. -/
structure MergedFS (W : Type) where
  weight : W
  leftId : Nat
  rightId : Nat
  deriving Repr, Inhabited, DecidableEq

/-- `rucrf::MergedModel`.  `matrix[r]` is the `HashMap<u32,f64>` of right connection id `r`
(`0` = BOS) as the list of its entries in insertion order (keys are inserted in strictly
increasing order, each once). -/
structure Merged (W : Type) where
  featureSets : List (MergedFS W)
  matrix : List (List (Nat × W))
  leftConn : List (List (Option Nat))    -- `left_conn_to_right_feats`
  rightConn : List (List (Option Nat))   -- `right_conn_to_left_feats`
  deriving Repr, Inhabited, DecidableEq

def u32Lim : Nat := 2 ^ 32

section
variable {W S : Type} [WeightOps W S]

/-- `for fid in feature_set.unigram() { if let Some(widx) = unigram_weight_indices.get(fid-1)
.copied().flatten() { weight += weights[widx-1] } }`. -/
def sumUnigram (wt : List W) (uidx : List (Option Nat)) : List Nat → W → Outcome W
  | [], acc => .ok acc
  | fid :: rest, acc =>
    match (uidx[fid - 1]?).join with
    | some widx =>
      match wt[widx - 1]? with
      | some w => sumUnigram wt uidx rest (add acc w)
      | none => .panic
    | none => sumUnigram wt uidx rest acc

/-- `raw_entry_mut().from_key(key).or_insert_with(..)` on `left_conn_ids` /
`right_conn_ids` together with the `*_conn_to_*_feats` vector: ids are `1 +` the index of the
first appearance of the key (equality of `Vec<Option<NonZeroU32>>`).  `new_id` is computed
(and range-checked) before the lookup. -/
def connId (tbl : List (List (Option Nat))) (key : List (Option Nat)) :
    Outcome (List (List (Option Nat)) × Nat) :=
  if tbl.length + 1 ≥ u32Lim then .err
  else
    let i := tbl.idxOf key
    if i < tbl.length then .ok (tbl, i + 1) else .ok (tbl ++ [key], tbl.length + 1)

/-- The `for feature_set in &self.provider.feature_sets` loop. -/
def mergeSets (wt : List W) (uidx : List (Option Nat)) :
    List FeatureSet → List (List (Option Nat)) → List (List (Option Nat)) → List (MergedFS W) →
    Outcome (List (MergedFS W) × List (List (Option Nat)) × List (List (Option Nat)))
  | [], L, R, acc => .ok (acc.reverse, L, R)
  | fs :: rest, L, R, acc =>
    match sumUnigram wt uidx fs.unigram zero with
    | .err => .err
    | .panic => .panic
    | .ok w =>
      match connId L fs.bigramRight with
      | .err => .err
      | .panic => .panic
      | .ok (L', lid) =>
        match connId R fs.bigramLeft with
        | .err => .err
        | .panic => .panic
        | .ok (R', rid) => mergeSets wt uidx rest L' R' (⟨w, lid, rid⟩ :: acc)

/-- BOS row: `for fid in left_ids.iter().flatten() { if let Some(&widx) =
bigram_weight_indices[0].get(&fid) { weight += weights[widx] } }`. -/
def sumBos (wt : List W) (row0 : Option (List (Nat × Nat))) : List (Option Nat) → W → Outcome W
  | [], acc => .ok acc
  | none :: rest, acc => sumBos wt row0 rest acc
  | some fid :: rest, acc =>
    match row0 with
    | none => .panic                         -- `self.bigram_weight_indices[0]`
    | some hm =>
      match lookupLast hm fid with
      | some widx =>
        match wt[widx]? with
        | some w => sumBos wt row0 rest (add acc w)
        | none => .panic
      | none => sumBos wt row0 rest acc

/-- EOS column: `bigram_weight_indices.get(fid).and_then(|hm| hm.get(&0))`. -/
def sumEos (wt : List W) (bidx : List (List (Nat × Nat))) : List (Option Nat) → W → Outcome W
  | [], acc => .ok acc
  | none :: rest, acc => sumEos wt bidx rest acc
  | some fid :: rest, acc =>
    match (bidx[fid]?).bind (fun hm => lookupLast hm 0) with
    | some widx =>
      match wt[widx]? with
      | some w => sumEos wt bidx rest (add acc w)
      | none => .panic
    | none => sumEos wt bidx rest acc

/-- Inner entry: `for (right_id, left_id) in right_ids.iter().zip(left_ids)`. -/
def sumPair (wt : List W) (bidx : List (List (Nat × Nat))) :
    List (Option Nat) → List (Option Nat) → W → Outcome W
  | some r :: rs, some l :: ls, acc =>
    match (bidx[r]?).bind (fun hm => lookupLast hm l) with
    | some widx =>
      match wt[widx]? with
      | some w => sumPair wt bidx rs ls (add acc w)
      | none => .panic
    | none => sumPair wt bidx rs ls acc
  | _ :: rs, _ :: ls, acc => sumPair wt bidx rs ls acc
  | _, _, acc => .ok acc

/-- One matrix row: entries `(i+1, weight)` for the left connection classes from index `i`
on, kept when `|weight| ≥ EPSILON`; `sumF` computes the weight of a class. -/
def rowEntries (sumF : List (Option Nat) → Outcome W) :
    List (List (Option Nat)) → Nat → List (Nat × W) → Outcome (List (Nat × W))
  | [], _, acc => .ok acc.reverse
  | lf :: rest, i, acc =>
    match sumF lf with
    | .err => .err
    | .panic => .panic
    | .ok w =>
      if geEps w then
        if i + 1 ≥ u32Lim then .err else rowEntries sumF rest (i + 1) ((i + 1, w) :: acc)
      else rowEntries sumF rest (i + 1) acc

/-- The rows for the right connection classes (each with its EOS entry first). -/
def matrixRows (wt : List W) (bidx : List (List (Nat × Nat))) (L : List (List (Option Nat))) :
    List (List (Option Nat)) → List (List (Nat × W)) → Outcome (List (List (Nat × W)))
  | [], acc => .ok acc.reverse
  | rf :: rest, acc =>
    match sumEos wt bidx rf zero with
    | .err => .err
    | .panic => .panic
    | .ok we =>
      let start : List (Nat × W) := if geEps we then [(0, we)] else []
      match rowEntries (fun lf => sumPair wt bidx rf lf zero) L 0 start.reverse with
      | .err => .err
      | .panic => .panic
      | .ok row => matrixRows wt bidx L rest (row :: acc)

/-- `RawModel::merge`. -/
def merge (wt : List W) (m : RawModel) : Outcome (Merged W) :=
  match mergeSets wt m.unigramIdx m.featureSets [] [] [] with
  | .err => .err
  | .panic => .panic
  | .ok (sets, L, R) =>
    match rowEntries (fun lf => sumBos wt m.bigramIdx[0]? lf zero) L 0 [] with
    | .err => .err
    | .panic => .panic
    | .ok bos =>
      match matrixRows wt m.bigramIdx L R [] with
      | .err => .err
      | .panic => .panic
      | .ok rows => .ok ⟨sets, bos :: rows, L, R⟩

/-! ## Model state -/

/-- One element of `Model::user_entries`: `(Word { surface, feature }, WordParam, label_id)`. -/
structure UserEntry where
  surface : Str
  feature : Str
  param : WordParam
  label : Nat
  deriving Repr, DecidableEq, Inhabited

/-- `trainer::model::Model`. -/
structure State (W : Type) where
  data : ModelData
  merged : Option (Merged W)
  user : List UserEntry
  deriving Inhabited

def weightsOf (d : ModelData) : List W := d.raw.weights.map ofBits

/-- `if self.merged_model.is_none() { self.merged_model = Some(self.data.raw_model.merge()?) }`. -/
def ensureMerged (st : State W) : Outcome (State W × Merged W) :=
  match st.merged with
  | some mm => .ok (st, mm)
  | none =>
    match merge (weightsOf st.data : List W) st.data.raw with
    | .ok mm => .ok ({ st with merged := some mm }, mm)
    | .err => .err
    | .panic => .panic

/-- The `weight_abs_max` computation shared by both writers. -/
def weightAbsMax (mm : Merged W) : W :=
  let a := mm.featureSets.foldl (fun acc fs => wmax acc (abs fs.weight)) (zero : W)
  mm.matrix.foldl (fun acc row => row.foldl (fun acc e => wmax acc (abs e.2)) acc) a

/-! ## `write_dictionary` -/

/-- `,{left},{right},{cost},{feature}\n`. -/
def rowTail (l r : Nat) (c : Int) (feature : Str) : List UInt8 :=
  comma :: (natDec l ++ comma :: (natDec r ++ comma :: (intDec c ++ comma :: (feature ++ [nl]))))

/-- The `for i in 0..config.surfaces.len()` loop from index `i`. -/
def lexRows (mm : Merged W) (s : S) (features : List Str) :
    List Str → Nat → List UInt8 → Outcome (List UInt8)
  | [], _, acc => .ok acc
  | surf :: rest, i, acc =>
    match mm.featureSets[i]? with
    | none => .panic
    | some fs =>
      match features[i]? with
      | none => .panic
      | some feature =>
        match ofLex (LexCsv.quoteCsvCell surf) with
        | .err => .err
        | .panic => .panic
        | .ok cell =>
          lexRows mm s features rest (i + 1)
            (acc ++ (cell ++ rowTail fs.leftId fs.rightId (cost16 fs.weight s) feature))

/-- The `for i in 0..config.dict.unk_handler().len()` loop. -/
def unkRows (mm : Merged W) (s : S) (cats : List Str) (off : Nat) :
    List UnkEntry → Nat → List UInt8 → Outcome (List UInt8)
  | [], _, acc => .ok acc
  | e :: rest, i, acc =>
    match cats[e.cateId]? with
    | none => .panic
    | some cate =>
      match mm.featureSets[off + i]? with
      | none => .panic
      | some fs =>
        unkRows mm s cats off rest (i + 1)
          (acc ++ (cate ++ rowTail fs.leftId fs.rightId (cost16 fs.weight s) e.feature))

/-- `pairs.sort_unstable_by_key(|&(k, _)| k)` (keys of a hash map are distinct, so every
sorting algorithm gives the same result): insertion sort. -/
def insertByKey (p : Nat × W) : List (Nat × W) → List (Nat × W)
  | [] => [p]
  | q :: rest => if p.1 ≤ q.1 then p :: q :: rest else q :: insertByKey p rest

def sortByKey (l : List (Nat × W)) : List (Nat × W) := l.foldr insertByKey []

/-- `{right} {left} {cost}\n` for the entries of one row. -/
def matrixRowLines (s : S) (r : Nat) (row : List (Nat × W)) : List UInt8 :=
  (sortByKey row).flatMap fun e =>
    natDec r ++ 32 :: (natDec e.1 ++ 32 :: (intDec (cost16 e.2 s) ++ [nl]))

def matrixLines (s : S) : List (List (Nat × W)) → Nat → List UInt8
  | [], _ => []
  | row :: rest, r => matrixRowLines s r row ++ matrixLines s rest (r + 1)

/-- `matrix.def`: header `{|right classes|+1} {|left classes|+1}` and the rows. -/
def matrixFile (mm : Merged W) (s : S) : List UInt8 :=
  natDec (mm.rightConn.length + 1) ++ 32 :: (natDec (mm.leftConn.length + 1) ++ [nl]) ++
    matrixLines s mm.matrix 0

def isDefaultParam (p : WordParam) : Bool := p.leftId = 0 ∧ p.rightId = 0 ∧ p.wordCost = 0

/-- The `for (word, param, label_id) in &self.user_entries` loop. -/
def userRows (mm : Merged W) (s : S) : List UserEntry → List UInt8 → Outcome (List UInt8)
  | [], acc => .ok acc
  | e :: rest, acc =>
    match mm.featureSets[e.label - 1]? with
    | none => .panic
    | some fs =>
      match ofLex (LexCsv.quoteCsvCell e.surface) with
      | .err => .err
      | .panic => .panic
      | .ok cell =>
        let tail :=
          if isDefaultParam e.param then
            rowTail fs.leftId fs.rightId (cost16 fs.weight s) e.feature
          else rowTail e.param.leftId e.param.rightId e.param.wordCost e.feature
        userRows mm s rest (acc ++ (cell ++ tail))

/-- The four files of `write_dictionary`. -/
structure DictFiles where
  lex : List UInt8
  matrix : List UInt8
  unk : List UInt8
  user : List UInt8
  deriving Repr, DecidableEq, Inhabited

/-- `write_dictionary` given the merged model (the order of evaluation of the code: lexicon
rows, unknown rows, matrix, user rows; all failures after `merge` are panics). -/
def writeDictionaryWith (d : ModelData) (user : List UserEntry) (mm : Merged W) :
    Outcome DictFiles :=
  let s : S := scaleOf (weightAbsMax mm)
  let cfg := d.config
  match lexRows mm s cfg.dict.systemLexicon.features cfg.surfaces 0 [] with
  | .err => .err
  | .panic => .panic
  | .ok lex =>
    match unkRows mm s cfg.dict.charProp.categories cfg.surfaces.length
        cfg.dict.unkHandler.entries 0 [] with
    | .err => .err
    | .panic => .panic
    | .ok unk =>
      match userRows mm s user [] with
      | .err => .err
      | .panic => .panic
      | .ok usr => .ok ⟨lex, matrixFile mm s, unk, usr⟩

/-- `Model::write_dictionary`. -/
def writeDictionary (st : State W) : Outcome (State W × DictFiles) :=
  match ensureMerged st with
  | .err => .err
  | .panic => .panic
  | .ok (st', mm) =>
    match writeDictionaryWith st'.data st'.user mm with
    | .ok f => .ok (st', f)
    | .err => .err
    | .panic => .panic

/-! ## `write_bigram_details` -/

/-- One line of `bigram.left` / `bigram.right`: `{conn_id+1}\t` then the cells joined by `,`
(`*` for `None`, else the quoted feature string; a missing string is the `unwrap` panic). -/
def featCells (names : IdMap) : List (Option Nat) → Bool → List UInt8 → Outcome (List UInt8)
  | [], _, acc => .ok acc
  | c :: rest, first, acc =>
    let sep : List UInt8 := if first then [] else [comma]
    match c with
    | none => featCells names rest false (acc ++ (sep ++ [star]))
    | some id =>
      match lookupId names id with
      | none => .panic
      | some str =>
        match ofLex (LexCsv.quoteCsvCell str) with
        | .err => .err
        | .panic => .panic
        | .ok cell => featCells names rest false (acc ++ (sep ++ cell))

def connLines (names : IdMap) : List (List (Option Nat)) → Nat → List UInt8 → Outcome (List UInt8)
  | [], _, acc => .ok acc
  | feats :: rest, i, acc =>
    match featCells names feats true [] with
    | .err => .err
    | .panic => .panic
    | .ok cells => connLines names rest (i + 1) (acc ++ (natDec (i + 1) ++ tab :: (cells ++ [nl])))

/-- The `bigram.cost` lines of one left feature id: `{left_str}/{right_str}\t{cost}`. -/
def costLinesRow (wt : List W) (s : S) (ex : Extractor) (leftStr : Str) :
    List (Nat × Nat) → List (List UInt8) → Outcome (List (List UInt8))
  | [], acc => .ok acc.reverse
  | (rid, widx) :: rest, acc =>
    let rightStr := (lookupId ex.rightIds rid).getD []
    match wt[widx]? with
    | none => .panic
    | some w =>
      costLinesRow wt s ex leftStr rest
        ((leftStr ++ slash :: (rightStr ++ tab :: intDec (cost32 w s))) :: acc)

def costLines (wt : List W) (s : S) (ex : Extractor) :
    List (List (Nat × Nat)) → Nat → List (List UInt8) → Outcome (List (List UInt8))
  | [], _, acc => .ok acc
  | hm :: rest, lid, acc =>
    if lid ≥ u32Lim then .panic else     -- `u32::try_from(left_feat_id).unwrap()`
    let leftStr := (lookupId ex.leftIds lid).getD []
    match costLinesRow wt s ex leftStr (dedupLast hm) [] with
    | .err => .err
    | .panic => .panic
    | .ok ls => costLines wt s ex rest (lid + 1) (acc ++ ls)

/-- The three files of `write_bigram_details`; `cost` is the list of lines (without `\n`) in
model order: the code emits them in hash order, only the multiset is meaningful. -/
structure BigramFiles where
  left : List UInt8
  right : List UInt8
  cost : List (List UInt8)
  deriving Repr, DecidableEq, Inhabited

/-- `write_bigram_details` given the merged model.  Naming as in the code: the `.left` file
lists, per LEFT connection id, the RIGHT-context feature strings (`left_conn_to_right_feats`
resolved through `right_feature_ids`), and vice versa. -/
def writeBigramWith (d : ModelData) (mm : Merged W) : Outcome BigramFiles :=
  let s : S := scaleOf (weightAbsMax mm)
  let ex := d.config.extractor
  match connLines ex.rightIds mm.leftConn 0 [] with
  | .err => .err
  | .panic => .panic
  | .ok left =>
    match connLines ex.leftIds mm.rightConn 0 [] with
    | .err => .err
    | .panic => .panic
    | .ok right =>
      match costLines (weightsOf d : List W) s ex d.raw.bigramIdx 0 [] with
      | .err => .err
      | .panic => .panic
      | .ok cost => .ok ⟨left, right, cost⟩

/-- `Model::write_bigram_details`. -/
def writeBigramDetails (st : State W) : Outcome (State W × BigramFiles) :=
  match ensureMerged st with
  | .err => .err
  | .panic => .panic
  | .ok (st', mm) =>
    match writeBigramWith st'.data mm with
    | .ok f => .ok (st', f)
    | .err => .err
    | .panic => .panic

end

/-! ## `extract_feature_set` -/

/-- `str::is_char_boundary(i)`. -/
def isBoundary (s : Str) (i : Nat) : Bool :=
  if i = s.length then true
  else match s[i]? with
    | some b => !isCont b
    | none => false

/-- `&s[a..b]` (`none` = panic). -/
def sliceStr (s : Str) (a b : Nat) : Option Str :=
  if a ≤ b ∧ b ≤ s.length ∧ isBoundary s a ∧ isBoundary s b then some ((s.drop a).take (b - a))
  else none

def starStr : Str := [star]

/-- `features.get(idx).map_or("*", |f| f.as_ref())`. -/
def featAt (features : List Str) (i : Nat) : Str := (features[i]?).getD starStr

/-- The capture loop building `feature_string`; `start` is the running offset. -/
def expandCaptures (raw : Str) (features : List Str) (cate : Nat) :
    List Capture → Nat → Str → Option Str
  | [], start, acc =>
    (sliceStr raw start raw.length).map fun t => acc ++ t
  | c :: rest, start, acc =>
    match sliceStr raw start c.start with
    | none => none
    | some t =>
      let v := match c.ty with
        | .index i => featAt features i
        | .charType => natDec cate
      expandCaptures raw features cate rest c.stop (acc ++ t ++ v)

/-- `feature_ids.entry(s).or_insert(new_id)` with the counter update
(`new_id = NonZeroU32::new(*next_id).unwrap()` is evaluated first). -/
def intern (map : IdMap) (next : Nat) (s : Str) : Outcome (Nat × IdMap × Nat) :=
  if next = 0 then .panic
  else
    match lookupStr map s with
    | some id =>
      if id = next then (if next + 1 ≥ u32Lim then .panic else .ok (id, map, next + 1))
      else .ok (id, map, next)
    | none =>
      if next + 1 ≥ u32Lim then .panic else .ok (next, map ++ [(s, next)], next + 1)

/-- `FeatureExtractor::extract_feature_ids`. -/
def extractIds (features : List Str) (cate : Nat) :
    List Template → IdMap → Nat → List (Option Nat) → Outcome (List (Option Nat) × IdMap × Nat)
  | [], map, next, acc => .ok (acc.reverse, map, next)
  | t :: rest, map, next, acc =>
    if t.required.any (fun i => featAt features i = starStr) then
      extractIds features cate rest map next (none :: acc)
    else
      match expandCaptures t.raw features cate t.captures 0 [] with
      | none => .panic
      | some s =>
        match intern map next s with
        | .err => .err
        | .panic => .panic
        | .ok (id, map', next') => extractIds features cate rest map' next' (some id :: acc)

/-- Code points of a (valid UTF-8) model string, for the rewriter model which works on
`List Char`. -/
def toChars (s : Str) : List Char :=
  match String.fromUTF8? (ByteArray.mk s.toArray) with
  | some t => t.toList
  | none => []

def ofChars (cs : List Char) : Str := (String.ofList cs).toUTF8.toList

def convPattern : Pattern → Rewriter.Pattern
  | .any => .any
  | .exact s => .exact (toChars s)
  | .multiple l => .multiple (l.map toChars)

def convRewrite : Rewrite → Rewriter.Rewrite
  | .ref i => .ref i
  | .text s => .text (toChars s)

def convAction : Action → Rewriter.Action
  | .trans p t => .trans (convPattern p) t
  | .rw r => .rw (r.map convRewrite)

/-- The decoded node vector as the trie of `Model/Rewriter.lean`. -/
def convTrie (t : RwTrie) : Rewriter.Trie := t.map fun acts => acts.map convAction

/-- `if let Some(rewrite) = rewriter.rewrite(&features) { rewrite } else { features }`. -/
def rewriteOrSame (t : RwTrie) (features : List Str) : Outcome (List Str) :=
  match ofRw (Rewriter.rewrite (convTrie t) (features.map toChars)) with
  | .ok (some out) => .ok (out.map ofChars)
  | .ok none => .ok features
  | .err => .err
  | .panic => .panic

/-- `Trainer::extract_feature_set` (order: unigram, left, right).  `parse_csv_row` is the
repaired one of finding F18 (`parseCsvRowBytes true`: output buffer sized by the row; the
pinned `[0; 4096]` buffer panics on cells of 4096 bytes or more). -/
def extractFeatureSet (cfg : Config) (feature : Str) (cate : Nat) :
    Outcome (FeatureSet × Extractor) :=
  match ofLex (LexCsv.parseCsvRowBytes true feature) with
  | .err => .err
  | .panic => .panic
  | .ok features =>
    let ex := cfg.extractor
    match (rewriteOrSame cfg.unigramRw features).bind fun f =>
        extractIds f cate ex.unigramT ex.unigramIds ex.unigramNext [] with
    | .err => .err
    | .panic => .panic
    | .ok (uni, um, un) =>
      match (rewriteOrSame cfg.leftRw features).bind fun f =>
          extractIds f 0 ex.leftT ex.leftIds ex.leftNext [] with
      | .err => .err
      | .panic => .panic
      | .ok (left, lm, ln) =>
        match (rewriteOrSame cfg.rightRw features).bind fun f =>
            extractIds f 0 ex.rightT ex.rightIds ex.rightNext [] with
        | .err => .err
        | .panic => .panic
        | .ok (right, rm, rn) =>
          .ok (⟨uni.filterMap id, right, left⟩,
            { ex with unigramIds := um, unigramNext := un, leftIds := lm, leftNext := ln,
                      rightIds := rm, rightNext := rn })

/-! ## `read_user_lexicon` -/

/-- Scalar value of the first character of a non-empty valid UTF-8 string
(`surface.chars().next()`). -/
def firstChar (s : Str) : Option Nat := (toChars s).head?.map Char.toNat

/-- `char_prop().char_info(c).base_id()`: `chr2inf.get(c)` or else `chr2inf[0]`; bits 18..25. -/
def baseIdOf (cp : CharProp) (c : Nat) : Option Nat :=
  match cp.chr2inf[c]? with
  | some w => some ((w >>> 18) &&& 0xFF)
  | none => (cp.chr2inf[0]?).map fun w => (w >>> 18) &&& 0xFF

section
variable {W S : Type} [WeightOps W S]

/-- The `for entry in entries` loop. -/
def addUserEntries : List LexCsv.RawEntry → State W → Outcome (State W)
  | [], st => .ok st
  | e :: rest, st =>
    match firstChar e.surface with
    | none => .panic
    | some c =>
      match baseIdOf st.data.config.dict.charProp c with
      | none => .panic
      | some cate =>
        match extractFeatureSet st.data.config e.feature cate with
        | .err => .err
        | .panic => .panic
        | .ok (fs, ex') =>
          let n := st.data.raw.featureSets.length
          if n + 1 ≥ u32Lim then .err
          else
            let data' : ModelData :=
              { config := { st.data.config with extractor := ex' },
                raw := { st.data.raw with featureSets := st.data.raw.featureSets ++ [fs] } }
            addUserEntries rest
              { st with data := data',
                        user := st.user ++ [⟨e.surface, e.feature,
                          ⟨e.leftId, e.rightId, e.wordCost⟩, n + 1⟩] }

/-- `Model::read_user_lexicon`: the cache is dropped first, then `parse_csv` (an error leaves
the model otherwise unchanged), then the entries are added one by one. -/
def readUserLexicon (st : State W) (bytes : List UInt8) : Outcome (State W) :=
  let st := { st with merged := none }
  match ofLex (LexCsv.parseCsv true bytes) with
  | .err => .err
  | .panic => .panic
  | .ok entries => addUserEntries entries st

/-- `Model::read_model`. -/
def readModelState (bytes : List UInt8) : Outcome (State W) :=
  match decodeModel bytes with
  | .ok d _ => .ok ⟨d, none, []⟩
  | .err => .err
  | .panic => .panic

/-- `Model::write_model` (bytes; `user_entries` and the cache are not written). -/
def writeModel (st : State W) : List UInt8 := encodeModel st.data

/-- All seven files. -/
structure Files where
  dict : DictFiles
  bigram : BigramFiles
  deriving Repr, DecidableEq, Inhabited

/-- `write_dictionary` followed by `write_bigram_details`. -/
def generateFrom (st : State W) : Outcome (State W × Files) :=
  match writeDictionary st with
  | .err => .err
  | .panic => .panic
  | .ok (st1, d) =>
    match writeBigramDetails st1 with
    | .err => .err
    | .panic => .panic
    | .ok (st2, b) => .ok (st2, ⟨d, b⟩)

/-- `read_model(image)`, optionally `read_user_lexicon(user)`, then generate everything. -/
def generate (image : List UInt8) (user : Option (List UInt8)) : Outcome Files :=
  match (readModelState image : Outcome (State W)) with
  | .err => .err
  | .panic => .panic
  | .ok st0 =>
    let st1 := match user with
      | none => Outcome.ok st0
      | some u => readUserLexicon st0 u
    match st1 with
    | .err => .err
    | .panic => .panic
    | .ok st1 =>
      match generateFrom st1 with
      | .ok (_, f) => .ok f
      | .err => .err
      | .panic => .panic

end

end Vibrato.Trainer
