/-
Declarative reading of property C17 ("Rewrite rules: the first registered matching rule
applies"): what it means for a rule to match a feature list, what the rule outputs, and the
specification `firstMatch`.  Definitions only (plus their `Decidable` instances, so that the
specification is executable in the model driver); no Mathlib.

Conventions that mirror the code and refine the property text:
* a pattern LONGER than the feature list does not match (the code needs a feature at every
  pattern position, also for `*`); features beyond the pattern are unconstrained;
* a cell is a reference only if it is exactly `$` followed by one or more ASCII digits
  (`$`, `$x`, `$1x`, `a$1` are literal text); `$n` is the `n`-th INPUT feature, 1-based,
  `*` if absent; leading zeros are allowed (`$01` = `$1`);
* `$0` and `$n` with `n > usize::MAX` cannot be registered at all (`BadRef`; the code panics
  in `add_rule`), so the property is stated for rule lists without such cells.
-/
import Vibrato.Model.Rewriter

namespace Vibrato.Rewriter

/-- The cell is an alternative list `(a|b|...)`: starts with `(` and ends with `)`. -/
def IsAlt (p : Str) : Prop := p.head? = some '(' ∧ p.getLast? = some ')'

instance (p : Str) : Decidable (IsAlt p) := by unfold IsAlt; infer_instance

/-- The listed alternatives: the text between the parentheses split at `|`
(`()` lists the empty string; `(a||b)` lists `a`, the empty string and `b`). -/
def alternatives (p : Str) : List Str := splitOn '|' (p.drop 1).dropLast

/-- One pattern cell against one feature: `*` matches anything, `(a|b)` any listed alternative,
other text exactly. -/
def CellMatches (p x : Str) : Prop :=
  p = ['*'] ∨ (IsAlt p ∧ x ∈ alternatives p) ∨ (¬ IsAlt p ∧ x = p)

instance (p x : Str) : Decidable (CellMatches p x) := by unfold CellMatches; infer_instance

/-- Position-wise prefix match of the pattern cells against the features: every pattern cell
has a feature at its position and matches it. -/
def MatchesCells : List Str → List Str → Prop
  | [], _ => True
  | _ :: _, [] => False
  | p :: ps, x :: xs => CellMatches p x ∧ MatchesCells ps xs

def decMatchesCells : (ps f : List Str) → Decidable (MatchesCells ps f)
  | [], _ => isTrue trivial
  | _ :: _, [] => isFalse id
  | p :: ps, x :: xs =>
    match (inferInstance : Decidable (CellMatches p x)), decMatchesCells ps xs with
    | isTrue h1, isTrue h2 => isTrue ⟨h1, h2⟩
    | isFalse h1, _ => isFalse fun h => h1 h.1
    | _, isFalse h2 => isFalse fun h => h2 h.2

instance (ps f : List Str) : Decidable (MatchesCells ps f) := decMatchesCells ps f

/-- `$n` with `n` one or more ASCII digits: the number `n`. -/
def refNumber (cell : Str) : Option Nat :=
  match cell with
  | '$' :: d :: ds => if (d :: ds).all isDigit then some (digitsVal (d :: ds) 0) else none
  | _ => none

/-- References the code cannot register: `$0` and numbers above `usize::MAX`. -/
def BadRef (cell : Str) : Prop := ∃ n, refNumber cell = some n ∧ (n = 0 ∨ usizeMax < n)

/-- Executable form of `BadRef`. -/
def badRefB (cell : Str) : Bool :=
  match refNumber cell with
  | some n => n = 0 || usizeMax < n
  | none => false

/-- Output cell: `$n` ↦ the `n`-th input feature (1-based) or `*` if absent, other text as is. -/
def applyCell (f : List Str) (cell : Str) : Str :=
  match refNumber cell with
  | some n => if n = 0 then ['*'] else (f[n - 1]?).getD ['*']
  | none => cell

/-- A rule (pattern cells, rewrite cells) matches a feature list. -/
def Matches (rule : RawRule) (f : List Str) : Prop := MatchesCells rule.1 f

instance (rule : RawRule) (f : List Str) : Decidable (Matches rule f) := by
  unfold Matches; infer_instance

/-- The rule's output for a feature list. -/
def applyRule (rule : RawRule) (f : List Str) : List Str := rule.2.map (applyCell f)

/-- The specification: the first rule in registration order that matches, applied;
`none` when no rule matches (callers then use the features unchanged). -/
def firstMatch (rules : List RawRule) (f : List Str) : Option (List Str) :=
  (rules.find? (fun r => decide (Matches r f))).map (applyRule · f)

/-- No rule contains a reference the code cannot register. -/
def GoodRules (rules : List RawRule) : Prop := ∀ r ∈ rules, ∀ c ∈ r.2, ¬ BadRef c

/-- The property predicate `P(input, observation)` evaluated by the check on the
implementation's observation: `obs` is what the implementation returned for `(rules, f)`
(`Outcome.panic` when it panicked). -/
def specOutcome (rules : List RawRule) (f : List Str) : Outcome (Option (List Str)) :=
  if rules.any (fun r => r.2.any badRefB) then .panic else .ok (firstMatch rules f)

/-! ### the class of rule lists on which the pinned builder is still correct -/

/-- Two pattern cells denote the same pattern for the builder (`parsed == edge.pattern`): both
`*`, or the same literal text, or alternative lists with the same SET of alternatives
(`(a|b)` = `(b|a)` = `(a|b|a)`). -/
def sameCell (x y : Str) : Bool := (parsePattern x).same (parsePattern y)

/-- Both patterns have at least `n` cells and their first `n` cells are the same cells. -/
def sharePrefix : Nat → List Str → List Str → Bool
  | 0, _, _ => true
  | n + 1, x :: xs, y :: ys => sameCell x y && sharePrefix n xs ys
  | _ + 1, _, _ => false

/-- No two rules share a pattern prefix with a DIFFERENT rule registered in between: whenever
rules `i < k` share their first `n` pattern cells, every rule `j` between them shares them too. -/
def NoInterleaving (rules : List RawRule) : Prop :=
  ∀ (i j k : Nat) (a b c : RawRule), i < j → j < k →
    rules[i]? = some a → rules[j]? = some b → rules[k]? = some c →
    ∀ n, sharePrefix n a.1 c.1 = true → sharePrefix n a.1 b.1 = true

end Vibrato.Rewriter
