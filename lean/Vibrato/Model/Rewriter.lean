/-
Model of `vibrato/src/trainer/feature_rewriter.rs` (`FeatureRewriterBuilder::add_rule`,
`FeatureRewriter::rewrite`) and of the `rewrite.def` line parsing in
`vibrato/src/trainer/config.rs` (`parse_rewrite_rule`, `parse_rewrite_config`), plus the
caller-side fallback of `vibrato/src/trainer.rs::extract_feature_set`.

Strings are `List Char` (`Str`) everywhere (a Rust `String`/`&str` is a sequence of Unicode
scalar values; every string operation used by the code -- `== "*"`, `starts_with('(')`,
`ends_with(')')`, `split('|')`, the regex `^\$([0-9]+)$`, `split(',')` -- works on ASCII
delimiters and is the same on scalar values as on UTF-8 bytes).

The model mirrors the algorithm of the code:
* the node vector `nodes: Vec<Node>` is a `List (List Action)`; `self.nodes[i]` is `nodes[i]?`
  with `none` mapped to the explicit outcome `panic` (index out of range);
* `HashSet<String>` of `Pattern::Multiple` is a `List Str` that is only ever used through
  membership and set equality (`Pattern.same`), i.e. never through its iteration order;
* `add_rule` walks/extends the trie cell by cell; the edge-reuse policy is a parameter:
  `fixed = false` is the pinned tree (reuse ANY equal `Transition` edge of the node, first hit in
  action order), `fixed = true` is the minimal repair (reuse only if it is the node's LAST action);
* `rewrite` is the explicit-stack DFS of the code, run with an explicit fuel argument
  (`fuelBound`); `Vibrato/Proofs/Rewriter.lean` proves that the fuel always suffices
  (`rewrite_ne_hang`, for ALL node vectors, not only built ones), so `Outcome.hang` is
  unreachable;
* panics: `$n` with `n > usize::MAX` (`parse::<usize>().unwrap()`), `$0` (`0usize - 1`; the
  harness builds the crate with overflow checks on -- in a release build without overflow checks
  it wraps to `usize::MAX` and the reference then always yields `"*"`).

No Mathlib/Batteries imports (linked into the model driver executable).
-/
namespace Vibrato.Rewriter

/-- One representation for all strings: the list of Unicode scalar values. -/
abbrev Str := List Char

inductive Outcome (α : Type) where
  | ok (a : α)
  | err
  | panic
  | hang
  deriving Repr, DecidableEq

/-! ## Patterns and rewrites -/

/-- `enum Pattern { Any, Exact(String), Multiple(HashSet<String>) }`. -/
inductive Pattern where
  | any
  | exact (s : Str)
  | multiple (s : List Str)
  deriving Repr, DecidableEq

/-- `enum Rewrite { Reference(usize), Text(String) }`. -/
inductive Rewrite where
  | ref (idx : Nat)
  | text (s : Str)
  deriving Repr, DecidableEq

/-- `enum Action { Transition(Edge{pattern,target}), Rewrite(Vec<Rewrite>) }`. -/
inductive Action where
  | trans (p : Pattern) (target : Nat)
  | rw (r : List Rewrite)
  deriving Repr, DecidableEq

/-- `nodes: Vec<Node>` with `Node { actions: Vec<Action> }`. -/
abbrev Trie := List (List Action)

def subset (a b : List Str) : Bool := a.all fun x => b.contains x

/-- The derived `PartialEq` of `Pattern`: `HashSet` equality is set equality. -/
def Pattern.same : Pattern → Pattern → Bool
  | .any, .any => true
  | .exact a, .exact b => a == b
  | .multiple a, .multiple b => subset a b && subset b a
  | _, _ => false

/-- The `is_match` computation inside `rewrite`. -/
def Pattern.accepts : Pattern → Str → Bool
  | .any, _ => true
  | .multiple s, f => s.contains f
  | .exact s, f => f == s

/-- `str::split(sep)`: always at least one piece; `"".split('|') = [""]`. -/
def splitOn (sep : Char) : List Char → List (List Char)
  | [] => [[]]
  | c :: cs =>
    if c = sep then [] :: splitOn sep cs
    else match splitOn sep cs with
      | [] => [[c]]
      | h :: t => (c :: h) :: t

/-- Pattern cell parsing of `add_rule`:
`"*"` → `Any`; starts with `(` and ends with `)` → `Multiple(p[1..len-1].split('|'))`;
otherwise `Exact`.  (A string that both starts with `(` and ends with `)` has length ≥ 2, so the
slice cannot panic.) -/
def parsePattern (p : Str) : Pattern :=
  if p = ['*'] then .any
  else if p.head? = some '(' ∧ p.getLast? = some ')' then
    .multiple (splitOn '|' (p.drop 1).dropLast)
  else .exact p

def isDigit (c : Char) : Bool := 48 ≤ c.toNat && c.toNat ≤ 57

def digitsVal : List Char → Nat → Nat
  | [], acc => acc
  | c :: cs, acc => digitsVal cs (acc * 10 + (c.toNat - 48))

/-- `usize::MAX` on the 64-bit targets the crate is built for. -/
def usizeMax : Nat := 18446744073709551615

/-- Rewrite cell parsing of `add_rule`: regex `^\$([0-9]+)$` (Rust `regex`: `$` is the end of
the haystack only, `[0-9]` ASCII digits only), then `parse::<usize>().unwrap() - 1`.
`panic` = the `unwrap` on a value above `usize::MAX`, or the subtraction overflow for `$0`
(overflow checks on). -/
def parseRewrite (p : Str) : Outcome Rewrite :=
  match p with
  | '$' :: d :: ds =>
    if (d :: ds).all isDigit then
      let n := digitsVal (d :: ds) 0
      if usizeMax < n then .panic
      else if n = 0 then .panic
      else .ok (.ref (n - 1))
    else .ok (.text p)
  | _ => .ok (.text p)

/-- The `for p in rewrite { parsed_rewrite.push(..) }` loop. -/
def parseRewrites : List Str → Outcome (List Rewrite)
  | [] => .ok []
  | p :: ps =>
    match parseRewrite p with
    | .ok r =>
      (match parseRewrites ps with
       | .ok rs => .ok (r :: rs)
       | .err => .err
       | .panic => .panic
       | .hang => .hang)
    | .err => .err
    | .panic => .panic
    | .hang => .hang

/-! ## `add_rule` -/

def edgeTo (parsed : Pattern) : Action → Option Nat
  | .trans q t => if parsed.same q then some t else none
  | .rw _ => none

/-- Edge reuse policy.
`fixed = false` (pinned tree): `for action in &self.nodes[cursor].actions { if let Transition(edge)
= action { if parsed == edge.pattern {..} } }` -- the first equal edge anywhere in the node.
`fixed = true` (repair): `if let Some(Transition(edge)) = actions.last() { if parsed ==
edge.pattern {..} }`. -/
def findEdge (fixed : Bool) (acts : List Action) (parsed : Pattern) : Option Nat :=
  if fixed then
    match acts.getLast? with
    | some a => edgeTo parsed a
    | none => none
  else
    acts.findSome? (edgeTo parsed)

/-- The `'a: for p in pattern` loop of `add_rule`, from `cursor`; returns the node vector and the
final cursor. -/
def addPattern (fixed : Bool) : List Str → Trie → Nat → Outcome (Trie × Nat)
  | [], nodes, cursor => .ok (nodes, cursor)
  | p :: ps, nodes, cursor =>
    let parsed := parsePattern p
    match nodes[cursor]? with
    | none => .panic
    | some acts =>
      match findEdge fixed acts parsed with
      | some t => addPattern fixed ps nodes t
      | none =>
        let target := nodes.length
        addPattern fixed ps
          (nodes.modify cursor (fun a => a ++ [Action.trans parsed target]) ++ [[]]) target

/-- `FeatureRewriterBuilder::add_rule(pattern, rewrite)`. -/
def addRule (fixed : Bool) (nodes : Trie) (pattern rewrite : List Str) : Outcome Trie :=
  match addPattern fixed pattern nodes 0 with
  | .ok (nodes', cursor) =>
    (match parseRewrites rewrite with
     | .ok rs =>
       (match nodes'[cursor]? with
        | none => .panic
        | some _ => .ok (nodes'.modify cursor (fun a => a ++ [Action.rw rs])))
     | .err => .err
     | .panic => .panic
     | .hang => .hang)
  | .err => .err
  | .panic => .panic
  | .hang => .hang

/-- A rule as handed to `add_rule`: (pattern cells, rewrite cells). -/
abbrev RawRule := List Str × List Str

def buildFrom (fixed : Bool) : Trie → List RawRule → Outcome Trie
  | nodes, [] => .ok nodes
  | nodes, r :: rs =>
    match addRule fixed nodes r.1 r.2 with
    | .ok nodes' => buildFrom fixed nodes' rs
    | .err => .err
    | .panic => .panic
    | .hang => .hang

/-- `FeatureRewriterBuilder::new()` followed by `add_rule` for every rule in order, then
`FeatureRewriter::from`. -/
def build (fixed : Bool) (rules : List RawRule) : Outcome Trie :=
  buildFrom fixed [[]] rules

/-! ## `rewrite` -/

/-- `features.get(*idx).map_or("*", ..)` / `s.to_string()` for every element of the rule. -/
def applyRewrite (rs : List Rewrite) (f : List Str) : List Str :=
  rs.map fun
    | .ref i => (f[i]?).getD ['*']
    | .text s => s

/-- Result of the inner `for (i, action) in actions.iter().enumerate().skip(edge_idx)`. -/
inductive Scan where
  | push (i : Nat) (target : Nat)   -- matching transition at index `i`: `continue 'a`
  | done (out : List Str)           -- `return Some(result)`
  | exhausted                       -- loop ran to the end
  deriving Repr, DecidableEq

/-- `scan f depth acts i`: `acts` is the not yet visited suffix of the action list, `i` the index
of its head, `depth` = `stack.len()` after the pop. -/
def scan (f : List Str) (depth : Nat) : List Action → Nat → Scan
  | [], _ => .exhausted
  | .trans p t :: rest, i =>
    match f[depth]? with
    | some x => if p.accepts x then .push i t else scan f depth rest (i + 1)
    | none => scan f depth rest (i + 1)
  | .rw r :: _, _ => .done (applyRewrite r f)

/-- The `'a: while let Some((node_idx, edge_idx)) = stack.pop()` loop; the head of the list is
the top of the stack.  One unit of fuel per iteration of the `while`. -/
def loop (nodes : Trie) (f : List Str) : Nat → List (Nat × Nat) → Outcome (Option (List Str))
  | 0, _ => .hang
  | _ + 1, [] => .ok none
  | fuel + 1, (n, e) :: rest =>
    match nodes[n]? with
    | none => .panic
    | some acts =>
      match scan f rest.length (acts.drop e) e with
      | .push i t => loop nodes f fuel ((t, 0) :: (n, i) :: rest)
      | .done out => .ok (some out)
      | .exhausted =>
        match rest with
        | [] => loop nodes f fuel []
        | (n', e') :: rest' => loop nodes f fuel ((n', e' + 1) :: rest')

def maxActs (nodes : Trie) : Nat := nodes.foldl (fun m a => max m a.length) 0

/-- Bound on the number of `while` iterations below an entry with `l` feature positions left,
for nodes with at most `A` actions. -/
def work (A : Nat) : Nat → Nat
  | 0 => 1
  | l + 1 => A * (work A l + 1) + 1

def fuelBound (nodes : Trie) (f : List Str) : Nat := work (maxActs nodes) f.length + 1

/-- `FeatureRewriter::rewrite(features)`. -/
def rewrite (nodes : Trie) (f : List Str) : Outcome (Option (List Str)) :=
  loop nodes f (fuelBound nodes f) [(0, 0)]

/-- Build the rewriter from `rules` and rewrite `f` (what the Rust hook `verif_rewrite` does). -/
def buildAndRewrite (fixed : Bool) (rules : List RawRule) (f : List Str) :
    Outcome (Option (List Str)) :=
  match build fixed rules with
  | .ok nodes => rewrite nodes f
  | .err => .err
  | .panic => .panic
  | .hang => .hang

/-- Caller side (`Trainer::extract_feature_set`): `if let Some(r) = rewriter.rewrite(&features)
{ r } else { features }`. -/
def rewriteOrSame (nodes : Trie) (f : List Str) : Outcome (List Str) :=
  match rewrite nodes f with
  | .ok (some out) => .ok out
  | .ok none => .ok f
  | .err => .err
  | .panic => .panic
  | .hang => .hang

/-! ## `rewrite.def` parsing (`config.rs`) -/

/-- `char::is_ascii_whitespace`: U+0020, U+0009, U+000A, U+000C, U+000D. -/
def isAsciiWs (c : Char) : Bool :=
  c.toNat = 32 || c.toNat = 9 || c.toNat = 10 || c.toNat = 12 || c.toNat = 13

/-- `char::is_whitespace` (Unicode `White_Space`), used by `str::trim`. -/
def isWs (c : Char) : Bool :=
  let n := c.toNat
  (9 ≤ n && n ≤ 13) || n = 32 || n = 0x85 || n = 0xA0 || n = 0x1680 ||
  (0x2000 ≤ n && n ≤ 0x200A) || n = 0x2028 || n = 0x2029 || n = 0x202F || n = 0x205F ||
  n = 0x3000

def dropWhileEnd (p : Char → Bool) (s : Str) : Str := (s.reverse.dropWhile p).reverse

/-- `str::trim`. -/
def trim (s : Str) : Str := dropWhileEnd isWs (s.dropWhile isWs)

/-- `str::split_ascii_whitespace`: maximal runs of non-ASCII-whitespace characters. -/
def splitAsciiWs : Str → List Str
  | [] => []
  | c :: cs =>
    if isAsciiWs c then splitAsciiWs cs
    else
      match cs, splitAsciiWs cs with
      | [], _ => [[c]]
      | c' :: _, rest =>
        if isAsciiWs c' then [c] :: rest
        else match rest with
          | [] => [[c]]
          | h :: t => (c :: h) :: t

/-- `TrainerConfig::parse_rewrite_rule(line)`: exactly two whitespace separated columns, each
split at `,`.  `none` = `Err(invalid_format("rewrite.def", ..))`. -/
def parseRewriteRule (line : Str) : Option RawRule :=
  match splitAsciiWs line with
  | [pattern, rewrite] => some (splitOn ',' pattern, splitOn ',' rewrite)
  | _ => none

inductive Section where
  | unigram | left | right
  deriving Repr, DecidableEq

structure RewriteConfig where
  unigram : List RawRule := []
  left : List RawRule := []
  right : List RawRule := []
  deriving Repr, DecidableEq

def RewriteConfig.push (c : RewriteConfig) : Section → RawRule → RewriteConfig
  | .unigram, r => { c with unigram := c.unigram ++ [r] }
  | .left, r => { c with left := c.left ++ [r] }
  | .right, r => { c with right := c.right ++ [r] }

/-- `TrainerConfig::parse_rewrite_config` on the already split lines (`BufRead::lines`): the rule
lists in registration order for the three builders.  `none` = `Err(..)` (a rule line before any
section header, or a rule line that does not have exactly two columns).  The `add_rule` calls the
code interleaves with parsing are `build fixed cfg.unigram` etc. -/
def parseRewriteConfig : List Str → Option Section → RewriteConfig → Option RewriteConfig
  | [], _, cfg => some cfg
  | line :: lines, sec, cfg =>
    let line := trim line
    if line.isEmpty || line.head? = some '#' then parseRewriteConfig lines sec cfg
    else if line = "[unigram rewrite]".toList then parseRewriteConfig lines (some .unigram) cfg
    else if line = "[left rewrite]".toList then parseRewriteConfig lines (some .left) cfg
    else if line = "[right rewrite]".toList then parseRewriteConfig lines (some .right) cfg
    else
      match sec with
      | none => none
      | some s =>
        match parseRewriteRule line with
        | none => none
        | some r => parseRewriteConfig lines (some s) (cfg.push s r)

end Vibrato.Rewriter
