/-
Model of `vibrato/src/sentence.rs` (`compile`), `vibrato/src/dictionary/unknown.rs`
(`gen_unk_words`, `scan_entries`), lexicon lookup
(`Lexicon::common_prefix_iterator`, specified through the entry list; the
crawdad trie is modelled, not verified) and `Tokenizer::add_lattice_edges`.

Characters are code points (`Nat`).  No Mathlib imports.
-/
import Vibrato.Model.Lattice

namespace Vibrato

/-- Decoded `CharInfo` (18/8/1/1/4 bit fields of the packed `u32`). -/
structure CharInfo where
  cateSet : Nat
  baseId : Nat
  invoke : Bool
  group : Bool
  length : Nat
  deriving Repr, DecidableEq, Inhabited

structure WordParam where
  leftId : Nat
  rightId : Nat
  wordCost : Int
  deriving Repr, DecidableEq, Inhabited

/-- One lexicon row: surface (code points), parameters. Word id = row index. -/
structure LexEntry where
  surface : List Nat
  param : WordParam
  deriving Repr, DecidableEq, Inhabited

/-- `compute_groupable`: right-to-left run lengths of characters whose category
sets intersect with their right neighbour's. -/
def groupables : List Nat → List Nat
  | [] => []
  | [_] => [1]
  | c :: d :: rest =>
    let g := groupables (d :: rest)
    (if c &&& d ≠ 0 then g.headD 0 + 1 else 1) :: g

/-- `Lexicon::common_prefix_iterator(suffix)`: the trie yields the stored keys
that are prefixes of `suffix` in increasing length; for each key the postings
list yields the ids of the rows with that surface in ascending order. -/
def lexMatches (entries : List LexEntry) (lexType : Nat) (suffix : List Nat) (startWord : Nat) :
    List Cand :=
  (List.range' 1 suffix.length).flatMap fun l =>
    (entries.zipIdx.filter fun (e, _) => e.surface == suffix.take l).map fun (e, i) =>
      { endWord := startWord + l, wordId := i, lexType := lexType,
        leftId := e.param.leftId, rightId := e.param.rightId, wordCost := e.param.wordCost }

/-- `scan_entries`: one candidate per `unk.def` entry of the category `base_id`,
`unk` = (word id, parameters) of those entries in `unk.def` order within the
category. -/
def scanEntries (unk : List (Nat × WordParam)) (endChar : Nat) : List Cand :=
  unk.map fun (id, p) =>
    { endWord := endChar, wordId := id, lexType := 2,
      leftId := p.leftId, rightId := p.rightId, wordCost := p.wordCost }

/-- `groupable - 1 <= max_grouping_len` (`None` = infinity). -/
def unkFits (maxGroup : Option Nat) (groupable : Nat) : Bool :=
  match maxGroup with
  | none => true
  | some m => decide (groupable - 1 ≤ m)

/-- The lengths visited by the `for i in 1..=min(length, groupable)` loop that are not
skipped by `if grouped && i == groupable { continue }`. -/
def unkPre (ci : CharInfo) (groupable : Nat) : List Nat :=
  (List.range' 1 (min ci.length groupable)).filter (fun i => !(ci.group && i == groupable))

/-- `gen_unk_words` as coded. `maxGroup = none` is "infinity". -/
def genUnk (ci : CharInfo) (groupable len start : Nat) (hasMatched : Bool)
    (maxGroup : Option Nat) (unk : List (Nat × WordParam)) : List Cand :=
  if hasMatched && !ci.invoke then []
  else
    let fits := unkFits maxGroup groupable
    let grp : List Cand :=
      if ci.group && fits then scanEntries unk (start + groupable) else []
    let hm1 : Bool := hasMatched || (ci.group && fits)
    let lens := (unkPre ci groupable).takeWhile (fun i => start + i ≤ len)
    let pre : List Cand := lens.flatMap fun i => scanEntries unk (start + i)
    let hm2 : Bool := hm1 || !lens.isEmpty
    let fb : List Cand := if hm2 then [] else scanEntries unk (start + 1)
    grp ++ pre ++ fb

/-- The dictionary as the tokenizer sees it. -/
structure TokDict where
  sys : List LexEntry
  user : Option (List LexEntry)
  conn : Nat → Nat → Int
  charInfo : Nat → CharInfo                 -- `CharProperty::char_info`
  unkOf : Nat → List (Nat × WordParam)      -- entries of a category (`offsets[b]..offsets[b+1]`)

/-- Tokenizer options: `space_cateset` (`Some(1 << cate_id)`) and `max_grouping_len`. -/
structure TokOpts where
  spaceSet : Option Nat
  maxGroup : Option Nat

/-- A compiled sentence. -/
structure Sent where
  chars : List Nat
  cinfos : List CharInfo
  groupable : List Nat

def compileSent (D : TokDict) (chars : List Nat) : Sent :=
  let cinfos := chars.map D.charInfo
  { chars := chars, cinfos := cinfos, groupable := groupables (cinfos.map (·.cateSet)) }

/-- Number of characters skipped at start node `p` (mecab-compatible mode). -/
def skipAt (S : Sent) (o : TokOpts) (p : Nat) : Nat :=
  match o.spaceSet with
  | none => 0
  | some sp =>
    if (S.cinfos.getD p default).cateSet &&& sp ≠ 0 then S.groupable.getD p 0 else 0

/-- `add_lattice_edges`: candidates in insertion order. -/
def candsAt (D : TokDict) (S : Sent) (o : TokOpts) (sw : Nat) : List Cand :=
  let suffix := S.chars.drop sw
  let u := match D.user with
    | none => []
    | some ue => lexMatches ue 1 suffix sw
  let s := lexMatches D.sys 0 suffix sw
  let hasMatched := !(u.isEmpty && s.isEmpty)
  let ci := S.cinfos.getD sw default
  u ++ s ++ genUnk ci (S.groupable.getD sw 0) S.chars.length sw hasMatched o.maxGroup (D.unkOf ci.baseId)

def latEnvOf (D : TokDict) (S : Sent) (o : TokOpts) : LatEnv :=
  { len := S.chars.length, conn := D.conn, skip := skipAt S o, cands := candsAt D S o }

/-- `Worker::reset_sentence; tokenize` on a fresh worker: `some []` for the empty
sentence (no lattice is built), otherwise the tokens, `none` = panic. -/
def tokenize (D : TokDict) (o : TokOpts) (chars : List Nat) : Option (List Tok) :=
  if chars.isEmpty then some []
  else tokensOf (buildLattice (latEnvOf D (compileSent D chars) o))

end Vibrato
